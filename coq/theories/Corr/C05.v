(** Correspondence functions for C05 on the ledger plays (case record of
    Corr/C04.v): exit status vs the multiset of performed action instances vs
    what the script and its repeat clauses prescribe.
    - [c05_oracle_mask]: the property's plain meaning on the observations;
    - [c05_model_bad]: [Model.Prompt.perform], fed with the action results the
      ledger shows, does not predict the performed instances / the status. *)
From Shk Require Import Base.Prelude Model.Prompt Corr.C04.
Open Scope Z_scope.

Fixpoint number_group (g : group) (cnt : list (key * N)) : list (inst * N) * list (key * N) :=
  match g with
  | [] => ([], cnt)
  | x :: tl =>
      let '(n, cnt') := bump (i_actor x, i_action x) cnt in
      let '(r, cnt'') := number_group tl cnt' in
      ((x, n) :: r, cnt'')
  end.

Fixpoint number_groups (gs : list group) (cnt : list (key * N)) : list (list (inst * N)) :=
  match gs with
  | [] => []
  | g :: tl => let '(ng, cnt') := number_group g cnt in ng :: number_groups tl cnt'
  end.

Definition rspec (c : lcase) : repeat_spec := mkRepeat (lc_ran c) (lc_count c).

Definition Kmax (c : lcase) : nat :=
  match lc_ran c with
  | O => 1%nat
  | _ => if 0 <? lc_count c then Z.to_nat (lc_count c) else 40%nat
  end.

(** The plain-meaning oracle reads "tolerated" off the script TEXT, not off the
    compiled play. *)
Definition remark (c : lcase) (x : inst) : inst :=
  match find (fun m => (fst m =? i_action x)%N) (lc_marks c) with
  | Some (_, fo) => mkInst (i_iter x) (i_act x) (i_scene x) (i_line x) (i_step x) (i_actor x) (i_action x) fo
  | None => x
  end.

Definition expected (c : lcase) (K : nat) : list (list (inst * N)) :=
  number_groups (map (map (remark c)) (prescribed (lc_script c) (rspec c) K)) [].

Definition row_of (led : list lrow) (xn : inst * N) : option lrow :=
  find_row led (i_actor (fst xn), i_action (fst xn)) (snd xn).

(** Number of iterations the ledger shows. *)
Definition K_obs (c : lcase) : nat :=
  fold_left (fun m g =>
    fold_left (fun m xn => match row_of (lc_ledger c) xn with
                           | Some _ => Nat.max m (S (i_iter (fst xn)))
                           | None => m
                           end) g m)
    (expected c (Kmax c)) 1%nat.

(** One line of one group.  [stopped]: an earlier step of the line was not
    performed or failed without being tolerated, so nothing may follow.
    Result: (a non-tolerated failure was seen, every step was performed to
    its end, nothing was performed that should not have been). *)
Fixpoint walk_line (led : list lrow) (stopped : bool) (l : list (inst * N)) : bool * bool * bool :=
  match l with
  | [] => (false, true, true)
  | xn :: tl =>
      match row_of led xn with
      | None => let '(h, _, k) := walk_line led true tl in (h, false, k)
      | Some r =>
          if stopped then (false, false, false)
          else if (lr_rc r =? 0) && (0 <=? lr_end r) then walk_line led false tl
          else if i_failok (fst xn) then
                 let '(h, c, k) := walk_line led false tl in (h, c && (0 <=? lr_end r), k)
               else let '(_, _, k) := walk_line led true tl in (true, false, k)
      end
  end.

(** Split a group into its lines (the instances of a line are consecutive). *)
Fixpoint split_lines (g : list (inst * N)) (cur : list (inst * N)) : list (list (inst * N)) :=
  match g with
  | [] => match cur with [] => [] | _ => [rev cur] end
  | xn :: tl =>
      match cur with
      | [] => split_lines tl [xn]
      | y :: _ => if Nat.eqb (i_line (fst y)) (i_line (fst xn)) then split_lines tl (xn :: cur)
                  else rev cur :: split_lines tl [xn]
      end
  end.

Definition walk_group (led : list lrow) (g : list (inst * N)) : bool * bool * bool :=
  fold_left (fun acc ln => let '(h, c, k) := acc in
                           let '(h', c', k') := walk_line led false ln in
                           (h || h', c && c', k && k'))
            (split_lines g []) (false, true, true).

(** The play: after a group that failed (or was cut short) nothing may be
    performed. *)
Fixpoint walk_groups (led : list lrow) (halted : bool) (gs : list (list (inst * N))) : bool * bool * bool :=
  match gs with
  | [] => (false, true, true)
  | g :: tl =>
      if halted then
        let none := forallb (fun xn => match row_of led xn with None => true | Some _ => false end) g in
        let '(h, c, k) := walk_groups led true tl in
        (h, c && match g with [] => true | _ => false end, k && none)
      else
        let '(h, c, k) := walk_group led g in
        let '(h', c', k') := walk_groups led (h || negb c) tl in
        (h || h', c && c', k && k')
  end.

Definition matched_rows (c : lcase) (K : nat) : nat :=
  fold_left (fun m g => fold_left (fun m xn => match row_of (lc_ledger c) xn with Some _ => S m | None => m end) g m)
            (expected c K) O.

Definition count_insts (gs : list (list (inst * N))) : nat := fold_left (fun m g => (m + length g)%nat) gs O.

(** `repeat time T`: iteration k+1 (k >= 2) was started only if, at the end of
    iteration k, no more than T had elapsed since the end of iteration 1;
    hence (latest end in iteration k) - (earliest start in iteration 2) <= T.
    Iterations are numbered from 0 in [inst]. *)
Definition iter_bound (c : lcase) (K : nat) (f : Z -> Z -> Z) (sel : lrow -> Z) (it : nat) (d : Z) : Z :=
  fold_left (fun m g => fold_left (fun m xn =>
      if Nat.eqb (i_iter (fst xn)) it then
        match row_of (lc_ledger c) xn with Some r => if sel r <? 0 then m else f m (sel r) | None => m end
      else m) g m) (expected c K) d.

Definition repeat_time_bad (c : lcase) (K : nat) : bool :=
  if lc_timeout c <? 0 then false else
  let big := 4000000000000000000 in
  let first2 := iter_bound c K Z.min lr_start 1%nat big in
  existsb (fun k =>   (* iteration index k (0-based) >= 1 was followed by another one *)
     let last_k := iter_bound c K Z.max lr_end k 0 in
     (first2 <? big) && (0 <? last_k) && (lc_timeout c <? last_k - first2))
    (seq 1 (K - 2)).

(** The compiled play (taken from the real parser and compiler) marks a step
    tolerated iff the script text does. *)
Definition failok_bad (c : lcase) : bool :=
  existsb (fun ac => existsb (fun sc => existsb (fun ln => existsb (fun st =>
      match st with
      | SDo a fo => match find (fun m => (fst m =? a)%N) (lc_marks c) with
                    | Some (_, fo') => negb (Bool.eqb fo fo')
                    | None => true
                    end
      | SAmb _ => false
      end) (l_steps ln)) (s_lines sc)) ac) (lc_play c).

(** The repeated section stopped before its count was reached (or without a
    count) although no failure occurred: then the `repeat time` bound T must have
    been exceeded at the end of the last iteration, measured from the end of the
    first pass.  That end is not later than the exit, and the first pass did not
    end before its last action did (nor before the launch): necessary condition
    [exit - max (launch, ends of the first pass) > T].  Without a time bound the
    count alone decides. *)
Definition stopped_early_bad (c : lcase) (K : nat) : bool :=
  let has_rep := Nat.ltb (count_insts (expected c 1)) (count_insts (expected c 2)) in
  let below_count := (lc_count c <=? 0) || Nat.ltb K (Z.to_nat (lc_count c)) in
  (lc_exit c =? 0) && has_rep && (0 <? Z.of_nat (lc_ran c)) && (0 <=? lc_timeout c) && below_count &&
  let base := iter_bound c K Z.max lr_end 0%nat (lc_launch c) in
  (lc_exit_t c - base <=? lc_timeout c).

Definition c05_oracle_mask (c : lcase) : N :=
  let K := K_obs c in
  let ex := expected c K in
  let '(hard, complete, consistent) := walk_groups (lc_ledger c) false ex in
  let exit0 := lc_exit c =? 0 in
  let has_rep := Nat.ltb (count_insts (expected c 1)) (count_insts (expected c 2)) in
  let extra := negb (Nat.eqb (matched_rows c K) (length (lc_ledger c))) in
  let wrong_count := exit0 && has_rep && (lc_timeout c <? 0) && (0 <? lc_count c)
                     && negb (Nat.eqb K (Z.to_nat (lc_count c))) in
  N.add (bit (exit0 && negb complete) 1%N)
 (N.add (bit (exit0 && hard) 2%N)
 (N.add (bit (negb consistent) 4%N)
 (N.add (bit (negb hard && (lc_spot c <? 3)%N && negb exit0) 8%N)
 (N.add (bit (extra || wrong_count || stopped_early_bad c K) 16%N)
 (N.add (bit (repeat_time_bad c K) 32%N)
        (bit (failok_bad c || negb (play_eqb (lc_play c) (lc_script c))) 64%N)))))).

Definition c05_oracle_bad (c : lcase) : bool := negb (c05_oracle_mask c =? 0)%N.

(** ** The model's prediction *)
Definition ipos_eqb (x : inst) (it a i l k : nat) : bool :=
  Nat.eqb (i_iter x) it && Nat.eqb (i_act x) a && Nat.eqb (i_scene x) i && Nat.eqb (i_line x) l && Nat.eqb (i_step x) k.

Definition oracle_of (c : lcase) : uoracle :=
  let ex := concat (expected c (Kmax c)) in
  fun it a i l k =>
    match find (fun xn => ipos_eqb (fst xn) it a i l k) ex with
    | Some xn => match row_of (lc_ledger c) xn with
                 | Some r => if (lr_rc r =? 0) && (0 <=? lr_end r) then AOk else AFail
                 | None => AFail
                 end
    | None => AOk
    end.

Definition inst_eqb (x y : inst) : bool :=
  ipos_eqb x (i_iter y) (i_act y) (i_scene y) (i_line y) (i_step y)
  && (i_actor x =? i_actor y)%N && (i_action x =? i_action y)%N && Bool.eqb (i_failok x) (i_failok y).

Definition c05_model_bad (c : lcase) : bool :=
  let K := K_obs c in
  let '(hard, complete, _) := walk_groups (lc_ledger c) false (expected c K) in
  let tmo := fun nr => (0 <=? lc_timeout c) && Nat.leb K (S nr) in
  match perform 60 (lc_play c) (rspec c) tmo (oracle_of c) with
  | Ok (gs, st) =>
      if hard then match st with PFailed => false | PCompleted => true end
      else if lc_exit c =? 0 then
        negb (match st with PCompleted => true | PFailed => false end
              && list_eqb (list_eqb inst_eqb) gs (prescribed (lc_play c) (rspec c) K))
      else false     (* the play was ended by something else than an action (a failing spotlight) *)
  | _ => true
  end.
