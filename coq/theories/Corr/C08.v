(** Correspondence functions for C08: what the harness observed of the real
    detectSignals / audition / collectObservation, the comparison with
    Model/Spotlight.v (+ Model/Audit.v), and the plain-meaning oracle evaluated
    on the CSV rows only, from the generator's own expectation (which is built
    token by token, without regexp, strconv or time.Parse). *)
From Shk Require Import Base.Prelude Model.Value Model.Functions Model.Expr Model.Fsm Model.Audit Model.Spotlight.
From Coq Require Import String QArith Qabs.
Open Scope list_scope.

(** The generator's expectation for one watched (actor, signal). *)
(** [TNsLoose]: end-to-end plays, where the play start is estimated from the
    rows themselves (1.5 units of the last printed digit). *)
Inductive itime := TNow | TNs (ns : Z) | TNsLoose (ns : Z).
Inductive idatum := DText (escaped : string) | DNum (q : Q).

Record intent := {
  i_var : var;
  i_kind : sig_kind;
  i_watchers : list string;
  i_points : list (nat * itime * idatum);     (* item index, time, captured datum *)
}.

Record c08_case := {
  k_cfg : acfg;                               (* audience as parsed by the real parser (hook) *)
  k_cast : cast;                              (* signal parsers as parsed by the real parser (hook) *)
  k_items : list item;                        (* facts: Go's regexp + time.Parse through the hook *)
  k_events : list (list (Z * list (var * value)));  (* per item: sigEvents of the real detectSignals *)
  k_brackets : list (Z * Z);                  (* per item: wall clock - epoch before / after the call, ns *)
  k_files : list (string * var * list (Z * cell));  (* CSV files: rows (time in 1/10000 s, cell) *)
  k_status : Z;                               (* 0 fine, 1 audition error, 2 panic *)
  k_nums : list (string * option Q);          (* captured numerals with strconv.ParseFloat's verdict *)
  k_epoch : Z;                                (* the play start, ns since the Unix epoch *)
  k_tslog : list (string * option Z);         (* fixed-width ts_log captures with time.Parse's verdict (date - epoch, ns) *)
  k_intent : list intent;
}.

(** * Model vs implementation *)

(** Numbers: equality as rationals, except where float64 cannot be exact for
    a decimal input: a difference of at most two denormal steps (2^-1073; no
    two different float64 are that close - 4.9e-324 reads as 2^-1074, 1e-400
    as 0, and such an operand may have gone into a delta) is no difference,
    and magnitudes of 2^53 and more are compared within 2^-48 relative (1e300
    is not a float64; differences of huge numbers are rounded). *)
Definition two_pow (n : Z) : Q :=
  if (0 <=? n)%Z then inject_Z (2 ^ n) else Qmake 1 (Z.to_pos (2 ^ (- n))).
Definition num_agree (x y : Q) : bool :=
  Qeq_bool x y
  || Qle_bool (Qabs (x - y)) (two_pow (-1073))
  || (let m := Qabs x in Qle_bool (two_pow 53) m && Qle_bool (Qabs (x - y) * two_pow 48) m).

Definition sample_value_eqb (a b : value) : bool :=
  match a, b with
  | VNum x, VNum y => num_agree x y
  | _, _ => value_eqb a b
  end.
Definition sample_eqb (a b : var * value) : bool := var_eqb (fst a) (fst b) && sample_value_eqb (snd a) (snd b).
Definition sigev_eqb (a b : Z * list (var * value)) : bool :=
  Z.eqb (fst a) (fst b) && list_eqb sample_eqb (snd a) (snd b).

(** detectSignals line by line, sink.lastVal threaded. *)
Fixpoint detect_agrees (cs : cast) (lv : lasts) (items : list item) (obs : list (list (Z * list (var * value)))) : bool :=
  match items, obs with
  | [], [] => true
  | ILine a l :: tl, o :: otl =>
      let '(evs, lv') := detect a (parsers_of cs a) l lv in
      list_eqb sigev_eqb evs o && detect_agrees cs lv' tl otl
  | _ :: tl, o :: otl => match o with [] => detect_agrees cs lv tl otl | _ => false end
  | _, _ => false
  end.

Definition detect_model_bad (k : c08_case) : bool :=
  negb (detect_agrees (k_cast k) [] (k_items k) (k_events k)).

(** parse_decimal vs strconv.ParseFloat. *)
Definition num_agrees (e : string * option Q) : bool :=
  match parse_decimal (fst e), snd e with
  | Some a, Some b => num_agree a b
  | None, None => true
  | _, _ => false
  end.
(** parse_ts_log vs time.Parse on the fixed-width shape. *)
Definition tslog_agrees (epoch : Z) (e : string * option Z) : bool :=
  match parse_ts_log (fst e), snd e with
  | Some a, Some b => Z.eqb (a - epoch) b
  | None, None => true
  | _, _ => false
  end.
Definition parse_model_bad (k : c08_case) : bool :=
  negb (forallb num_agrees (k_nums k) && forallb (tslog_agrees (k_epoch k)) (k_tslog k)).

(** A printed time (%.4f, in 1/10000 s) against an exact one: correct
    rounding, with 100 ns of slack for the float64 seconds. *)
Definition time_close (t10k : Z) (ns : Z) : bool := (Z.abs (t10k * 100000 - ns) <=? 50100)%Z.
Definition ns_of_secs (q : Q) : Z := (Qnum q * 1000000000 / Zpos (Qden q))%Z.

Definition cell_eqb (a b : cell) : bool :=
  match a, b with
  | CText x, CText y => String.eqb x y
  | CNum x, CNum y => num_agree x y
  | _, _ => false
  end.

Definition row_agrees (m : Q * value) (o : Z * cell) : bool :=
  time_close (fst o) (ns_of_secs (fst m)) && cell_eqb (cell_of (snd m)) (snd o).

Fixpoint all2 {A B} (f : A -> B -> bool) (a : list A) (b : list B) : bool :=
  match a, b with
  | [], [] => true
  | x :: a', y :: b' => f x y && all2 f a' b'
  | _, _ => false
  end.

Fixpoint lookup_file (w : string) (x : var) (fs : list (string * var * list (Z * cell))) : list (Z * cell) :=
  match fs with
  | [] => []
  | (w', y, rs) :: tl => if (String.eqb w w' && var_eqb x y)%bool then rs else lookup_file w x tl
  end.

(** Every (watcher, signal variable) of the configuration: model rows = file
    rows; and no file for a pair that is not one. *)
Definition rows_model_bad (k : c08_case) : bool :=
  let '(os, _, stt) := play (k_cfg k) (k_cast k) (k_items k) in
  let all := List.concat os in
  let c := k_cfg k in
  let sigvars := filter (fun e => negb (String.eqb (fst (fst e)) "")) (c_watchers c) in
  negb (forallb (fun '(x, ws) =>
                   forallb (fun w => all2 row_agrees (file_rows c all w x) (lookup_file w x (k_files k))) ws)
                sigvars
        && forallb (fun '(w, x, _) => existsb (String.eqb w) (watchers_of x (c_watchers c))) (k_files k)
        && Z.eqb (match stt with Running => 0 | Aborted => 1 | Panicked => 2 end)%Z (k_status k)).

Definition case_model_bad (k : c08_case) : bool :=
  detect_model_bad k || parse_model_bad k || rows_model_bad k.

(** * The plain-meaning oracle, on the CSV rows and the generator's data only *)

(** Expected cells: event = the captured text (as html), scalar = the number,
    delta = the difference to the previous point's number, the first one
    relative to 0. *)
Fixpoint expected_cells (kd : sig_kind) (last : Q) (pts : list (nat * itime * idatum)) : list cell :=
  match pts with
  | [] => []
  | (_, _, DText s) :: tl => CText s :: expected_cells kd last tl
  | (_, _, DNum q) :: tl =>
      match kd with
      | KDelta => CNum (q - last) :: expected_cells kd q tl
      | _ => CNum q :: expected_cells kd last tl
      end
  end.

(** The symptom of the defect repaired by f9fd9cc: every sample whose value
    differs from the previous one (and the very first) appears twice. *)
Fixpoint doubled (prev : option cell) (cs : list cell) : list cell :=
  match cs with
  | [] => []
  | c :: tl =>
      let changed := match prev with Some p => negb (cell_eqb p c) | None => true end in
      (if changed then [c; c] else [c]) ++ doubled (Some c) tl
  end.

Definition bracket_of (k : c08_case) (i : nat) : Z * Z := nth i (k_brackets k) (0, 0)%Z.

Definition time_ok (k : c08_case) (p : nat * itime * idatum) (t10k : Z) : bool :=
  match snd (fst p) with
  | TNs ns => time_close t10k ns
  | TNsLoose ns => (Z.abs (t10k * 100000 - ns) <=? 150100)%Z
  | TNow => let '(b, a) := bracket_of k (fst (fst p)) in
            ((b - 52000 <=? t10k * 100000) && (t10k * 100000 <=? a + 52000))%Z
  end.

Fixpoint times_ok (k : c08_case) (pts : list (nat * itime * idatum)) (ts : list Z) : bool :=
  match pts, ts with
  | [], [] => true
  | p :: ptl, t :: ttl => time_ok k p t && times_ok k ptl ttl
  | _, _ => false
  end.

(** Reception times never go backwards within a file. *)
Fixpoint now_monotone (prev : Z) (pts : list (nat * itime * idatum)) (ts : list Z) : bool :=
  match pts, ts with
  | p :: ptl, t :: ttl =>
      match snd (fst p) with
      | TNow => (prev <=? t)%Z && now_monotone t ptl ttl
      | _ => now_monotone prev ptl ttl
      end
  | _, _ => true
  end.

(** bits: 1 changed samples doubled; 2 other row-count mismatch (incl. a file
    nobody should have got); 4 wrong value; 8 wrong time; 16 the play did not
    survive. *)
Definition file_code (k : c08_case) (it : intent) (w : string) : N :=
  let obs := lookup_file w (i_var it) (k_files k) in
  let exp := expected_cells (i_kind it) 0 (i_points it) in
  let oc := map snd obs in
  if list_eqb cell_eqb oc exp then
    (if times_ok k (i_points it) (map fst obs) && now_monotone (-1000000000000000000)%Z (i_points it) (map fst obs) then 0 else 8)%N
  else if list_eqb cell_eqb oc (doubled None exp) then 1%N
  else if negb (Nat.eqb (List.length oc) (List.length exp)) then 2%N
  else 4%N.

Definition expected_file (k : c08_case) (w : string) (x : var) : bool :=
  existsb (fun it => var_eqb x (i_var it) && existsb (String.eqb w) (i_watchers it)) (k_intent k).

Definition case_oracle_code (k : c08_case) : N :=
  let per := flat_map (fun it => map (file_code k it) (i_watchers it)) (k_intent k) in
  let stray := existsb (fun '(w, x, rs) => negb (expected_file k w x) && negb (match rs with [] => true | _ => false end)) (k_files k) in
  N.lor (fold_left N.lor per 0%N)
        (N.lor (if stray then 2%N else 0%N) (if Z.eqb (k_status k) 0 then 0%N else 16%N)).

Definition case_oracle_bad (k : c08_case) : bool := negb (N.eqb (case_oracle_code k) 0).
