(** Correspondence functions for C19: the shapes of the cases the Go harness
    writes, the comparison of the scripts the real assemble/plot/subPlots wrote
    (parsed into directives by the harness) with the model ([*_model_bad]) and
    the property's plain meaning evaluated on those scripts ([*_oracle_bad]:
    filters of Model/PlotSpec.v over the collected data against projections of
    the observed script; Model/Plot.v's loops are not used by the oracles). *)
From Shk Require Import Base.Prelude Model.Plot Model.PlotSpec.
Local Open Scope list_scope.
Local Open Scope Z_scope.

(** * Decidable equalities *)
Definition opt_eqb {A} (e : A -> A -> bool) (a b : option A) : bool :=
  match a, b with
  | None, None => true
  | Some x, Some y => e x y
  | _, _ => false
  end.

Definition xbound_eqb (a b : xbound) : bool :=
  match a, b with
  | BGraph0, BGraph0 | BGraph1, BGraph1 => true
  | BFirst x, BFirst y => x =? y
  | _, _ => false
  end.

Definition cstyle_eqb (a b : cstyle) : bool :=
  match a, b with
  | SLine, SLine | SFace, SFace | SVerdict, SVerdict => true
  | SEvent x1 x2, SEvent y1 y2 => (x1 =? y1) && (x2 =? y2)
  | _, _ => false
  end.

Definition directive_eqb (a b : directive) : bool :=
  match a, b with
  | DHeader, DHeader | DMarginsFaces, DMarginsFaces | DNothing, DNothing | DPlot, DPlot
  | DUnsetArrow, DUnsetArrow | DUnsetMultiplot, DUnsetMultiplot => true
  | DMultiplot x, DMultiplot y => x =? y
  | DXRange a1 a2, DXRange b1 b2 => (a1 =? b1) && (a2 =? b2)
  | DXTics a1 a2, DXTics b1 b2 => (a1 =? b1) && (a2 =? b2)
  | DArrow x, DArrow y => x =? y
  | DActionBox x, DActionBox y => x =? y
  | DLane n1 y1 c1, DLane n2 y2 c2 => bytes_eqb n1 n2 && (y1 =? y2) && Bool.eqb c1 c2
  | DRect i1 s1 e1 m1, DRect i2 s2 e2 m2 => (i1 =? i2) && xbound_eqb s1 s2 && xbound_eqb e1 e2 && bytes_eqb m1 m2
  | DGroup t1 e1 y1, DGroup t2 e2 y2 => bytes_eqb t1 t2 && opt_eqb Z.eqb e1 e2 && bytes_eqb y1 y2
  | DCurve f1 s1 t1 c1, DCurve f2 s2 t2 c2 => bytes_eqb f1 f2 && cstyle_eqb s1 s2 && bytes_eqb t1 t2 && Bool.eqb c1 c2
  | DUnsetObject x, DUnsetObject y => x =? y
  | DUnknown x, DUnknown y => bytes_eqb x y
  | _, _ => false
  end.

Definition rdirective_eqb (a b : rdirective) : bool :=
  match a, b with
  | RTerm k1 h1, RTerm k2 h2 => (k1 =? k2) && (h1 =? h2)
  | ROut l1 e1, ROut l2 e2 => Bool.eqb l1 l2 && (e1 =? e2)
  | RLoad l1, RLoad l2 => Bool.eqb l1 l2
  | RXTicsNoMirror, RXTicsNoMirror | RHeader, RHeader => true
  | RUnknown x, RUnknown y => bytes_eqb x y
  | _, _ => false
  end.

Definition script_eqb := list_eqb directive_eqb.

Definition plot_out_eqb (a b : plot_out) : bool :=
  (o_min a =? o_min b) && (o_max a =? o_max b) && opt_eqb Z.eqb (o_repeat a) (o_repeat b)
  && script_eqb (o_main a) (o_main b)
  && opt_eqb script_eqb (o_last a) (o_last b)
  && list_eqb rdirective_eqb (o_run a) (o_run b).

Definition xtime_eqb (a b : xtime) : bool :=
  match a, b with
  | NegInf, NegInf | PosInf, PosInf => true
  | Fin x, Fin y => x =? y
  | _, _ => false
  end.
Definition mperiod_eqb (a b : mperiod) : bool :=
  xtime_eqb (p_start a) (p_start b) && xtime_eqb (p_end a) (p_end b) && bytes_eqb (p_mood a) (p_mood b).

(** * Hook-driven cases: real assemble + plot on a described collected state *)
Record plot_case := {
  pc_data : collected;            (* c_appmax is not an input (set by assemble) *)
  pc_raw : option (Z * Z);        (* app.minTime / maxTime before assemble *)
  pc_repeat_act : Z;              (* cfg.repeatActNum *)
  pc_text_h : Z;                  (* cfg.textPlotHeight *)
  pc_obs : plot_out               (* Result.MinTime/MaxTime/Repeat.StartTime and the parsed scripts *)
}.

Definition plot_model_bad (c : plot_case) : bool :=
  negb (plot_out_eqb (plot_all (pc_data c) (pc_raw c) (pc_repeat_act c) (pc_text_h c)) (pc_obs c)).

(** ** The oracle *)
Definition pair_eqb {A B} (ea : A -> A -> bool) (eb : B -> B -> bool) (x y : A * B) : bool :=
  ea (fst x) (fst y) && eb (snd x) (snd y).

Definition no_unknown (ds : list directive) : bool :=
  forallb (fun x => match x with DUnknown _ => false | _ => true end) ds.

(** every plot command's continuation lines: all but the last curve / lane of a
    plot command end in a continuation *)
Fixpoint conts_ok (ds : list directive) : bool :=
  match ds with
  | [] => true
  | x :: tl =>
      let next_is_item := match tl with DCurve _ _ _ _ :: _ | DLane _ _ _ :: _ => true | _ => false end in
      match x with
      | DCurve _ _ _ c | DLane _ _ c => Bool.eqb c next_is_item
      | DPlot => next_is_item
      | _ => true
      end && conts_ok tl
  end.

(** the script [ds] shows exactly the collected data [d] on the window
    [mn, mx] (microseconds), the 5 % margin allowing [tol] twentieths of a
    microsecond of rounding *)
Definition script_ok (tol : Z) (d : collected) (mn mx : Z) (ds : list directive) : bool :=
  let lo := 20 * mn - (mx - mn) in
  let hi := 20 * mx + (mx - mn) in
  no_unknown ds && conts_ok ds
  && match xranges ds with
     | [(a, b)] => (Z.abs (a - lo) <=? tol) && (Z.abs (b - hi) <=? tol)
     | _ => false
     end
  && list_eqb (pair_eqb bytes_eqb Z.eqb) (lanes_of ds) (mapi (fun i nm => (nm, Z.of_nat i + 1)) (lane_names d))
  && list_eqb (pair_eqb bytes_eqb (list_eqb (pair_eqb bytes_eqb cstyle_eqb))) (boxes_of ds) (map box_view (shown_members d)).

Definition band_eqb (x y : xbound * xbound * str) : bool :=
  xbound_eqb (fst (fst x)) (fst (fst y)) && xbound_eqb (snd (fst x)) (snd (fst y)) && bytes_eqb (snd x) (snd y).

(** bands and act lines, when the mood periods and act starts are known exactly *)
Definition overlays_ok (d : collected) (mn mx : Z) (ds : list directive) : bool :=
  let lo := 20 * mn - (mx - mn) in
  let hi := 20 * mx + (mx - mn) in
  list_eqb band_eqb (bands_of ds)
    (map (fun p => (clip_start lo (p_start p), clip_end hi (p_end p), p_mood p)) (filter (visible lo hi) (c_moods d)))
  && list_eqb Z.eqb (lines_of ds) (filter (fun ts => lo <=? 20 * ts) (map fst (tl (c_acts d)))).

Definition loads_last (run : list rdirective) : bool :=
  existsb (fun x => match x with RLoad true => true | _ => false end) run.

(** the result's range covers what was collected, starts at or before 0 and
    spans at least a second *)
Definition range_ok (raw : option (Z * Z)) (mn mx : Z) : bool :=
  (mn <=? 0) && (mn + 1000000 <=? mx)
  && match raw with
     | Some (a, b) => if a <=? b then (mn <=? a) && (b <=? mx) else true
     | None => true
     end.

Definition plot_oracle_bad (c : plot_case) : bool :=
  let d := pc_data c in
  let o := pc_obs c in
  let rp := spec_repeat_start (pc_repeat_act c) (c_acts d) in
  negb (
    range_ok (pc_raw c) (o_min o) (o_max o)
    && script_ok 0 d (o_min o) (o_max o) (o_main o)
    && overlays_ok d (o_min o) (o_max o) (o_main o)
    && opt_eqb Z.eqb (o_repeat o) rp
    && match rp, o_last o with
       | Some s, Some ds => script_ok 0 d s (o_max o) ds && overlays_ok d s (o_max o) ds
       | None, None => true
       | _, _ => false
       end
    && Bool.eqb (loads_last (o_run o)) (match rp with Some _ => true | None => false end)
    && forallb (fun x => match x with RUnknown _ => false | _ => true end) (o_run o)).

(** * Mood bookkeeping cases: (mood changes in arrival order, time of the end
    of the play, recorded periods) through the real collectAndAuditMood /
    checkFinal *)
Definition mood_case := (list (Z * str) * Z * list mperiod)%type.
Definition mood_model_bad (c : mood_case) : bool :=
  let '(evs, final, obs) := c in negb (list_eqb mperiod_eqb (mood_book evs final) obs).
Definition mood_oracle_bad (c : mood_case) : bool :=
  let '(evs, final, obs) := c in negb (list_eqb mperiod_eqb (spec_mood_periods evs final) obs).

(** * End-to-end cases: plays through the real binary.  The collected state is
    reconstructed from the files of the run directory: [a_has], [w_has],
    [m_audit_has] from the presence of non-empty csv files, [m_has] as their
    disjunction, the range and the repeat section from result.js.  Mood periods
    and act starts are not in the output files: the harness states the band
    colours and the number of act lines it expects from the script it wrote. *)
Record e2e_case := {
  ec_data : collected;
  ec_min : Z; ec_max : Z;
  ec_repeat : option Z;
  ec_expect_repeat : bool;         (* the script has a `repeat from` act that started *)
  ec_bands : list str;             (* expected colours of the bands of the main plot, in order *)
  ec_lines : Z;                    (* expected number of act lines of the main plot *)
  ec_main : list directive;
  ec_last : option (list directive);
  ec_run : list rdirective
}.

Definition e2e_oracle_bad (c : e2e_case) : bool :=
  let d := ec_data c in
  negb (
    script_ok 60 d (ec_min c) (ec_max c) (ec_main c)
    && list_eqb bytes_eqb (map (fun b => snd b) (bands_of (ec_main c))) (ec_bands c)
    && (Z.of_nat (List.length (lines_of (ec_main c))) =? ec_lines c)
    && Bool.eqb (match ec_repeat c with Some _ => true | None => false end) (ec_expect_repeat c)
    && match ec_repeat c, ec_last c with
       | Some s, Some ds => script_ok 60 d s (ec_max c) ds
       | None, None => true
       | _, _ => false
       end
    && Bool.eqb (loads_last (ec_run c)) (ec_expect_repeat c)).

(** the model on an end-to-end case: same boxes, lanes and layout as the model
    computes from the reconstructed state (overlays excluded) *)
Definition strip_overlays (ds : list directive) : list directive :=
  filter (fun x => match x with DArrow _ | DRect _ _ _ _ | DUnsetObject _ | DXRange _ _ => false | _ => true end) ds.
Definition e2e_model_bad (c : e2e_case) : bool :=
  let d := ec_data c in
  negb (script_eqb (strip_overlays (plot_script d (ec_min c) (ec_max c))) (strip_overlays (ec_main c))).
