(** Correspondence functions for C15.

    Two kinds of cases come from harness/c15:

    * controlled cases: a list of harness operations on the real Stopper
      (task and worker bodies block until the harness releases them; Stop and
      Quiesce run in goroutines), the observable state after every operation
      once the real Stopper has advanced as far as it can, and the event
      history logged meanwhile.  [ctl_model_bad] replays the operations on
      the model (each followed by "run every enabled internal step",
      [advance]) and compares the observables; [ctl_oracle_bad] judges the
      event history alone.
    * free cases: event histories of free-running goroutines (built with the
      race detector); only the oracle applies.

    The oracle ([hist_code]) is the plain meaning of the property over an
    observed history and does not mention the model. *)
From Shk Require Import Base.Prelude Model.Stopper.
Open Scope nat_scope.

(** * Part 1: driving the model with harness operations *)

Inductive hop :=
| HTask (async : bool) (ctx : option nat)           (* RunTask (in a goroutine) / RunAsyncTask, called with the
                                                       background context or the x-th WithCancelOn* context --
                                                       which stopper.go never inspects for these two: the
                                                       model has no such parameter *)
| HLimited (sem : nat) (wait : bool) (ctx : option nat)
| HRelease (i : nat)                                (* let the body of task i return *)
| HPanic (i : nat)                                  (* let the body of task i panic (Stopper built with OnPanic) *)
| HWorker
| HWRelease (w : nat)
| HWPanic (w : nat)                                 (* let worker w's body panic *)
| HRelStop (i : nat)                                (* the body of task i calls Stop itself (a further Stop
                                                       call, made while one is in progress), then returns *)
| HWRelStop (w : nat)                               (* the same for worker w *)
| HAddCloser
| HWithCancel (onq : bool)
| HCancelFn (x : nat)
| HStop (ctx : option nat)                          (* Stop / Quiesce called (in a goroutine) with the background
                                                       context or the x-th WithCancelOn* context, live or
                                                       cancelled: stopper.go only logs with it -- no such
                                                       parameter in the model *)
| HQuiesce (ctx : option nat).

Definition op_label (o : hop) : label :=
  match o with
  | HTask a _ => LCallTask (if a then KAsync else KSync)
  | HLimited sm w c => LCallTask (KLimited sm w c)
  | HRelease i => LBodyEnd i
  | HPanic i => LBodyPanic i
  | HWorker => LWorkerStart
  | HWRelease w => LWorkerBodyEnd w
  | HWPanic w => LWorkerBodyEnd w       (* stop.Done() is deferred: same path *)
  | HRelStop _ | HWRelStop _ => LCallStop   (* first half, see [apply_op] *)
  | HAddCloser => LAddCloser
  | HWithCancel q => LWithCancel q
  | HCancelFn x => LCancelFn x
  | HStop _ => LCallStop
  | HQuiesce _ => LCallQuiesce
  end.

(** The internal step a goroutine would take next (everything except the end
    of a body, which the harness decides). *)
Definition task_cand (s : st) (i : nat) (t : task) : list label :=
  match pc t with
  | TSem0 | TSemWait => [LSemAcquire i; LSemQuiesced i; LSemCtxDone i; LSemDefault i]
  | TCtxCheck => [LCtxCheck i]
  | TPre => [LPrelude i]
  | TRelRefused => [LSemRelRefused i]
  | TAccepted => [LBodyBegin i]
  | TBodyDone => [LSemRelease i]
  | TPost => [LPostlude i]
  | TBody | TDone | TRefused => []
  end.

Definition worker_cand (w : nat) (wk : worker) : list label :=
  match wp wk with WBodyDone => [LWorkerDone w] | _ => [] end.

Definition ctx_cand (x : nat) (c : cctx) : list label :=
  if x_mid c then [LCancelDel x] else [].

Definition thread_cand (j : nat) (th : sthread) : list label :=
  match sp th with
  | SEnter => [LStopEnter j]
  | SQuiesce => [LQuiesceSet j]
  | SQWoken => [LQRecheck j]
  | SStopClose => [LStopClose j]
  | SWgWait => [LWgWaitDone j]
  | SClosers => [LClosersRun j]
  | SStopped => [LStoppedClose j]
  | SQWait | SReturned => []
  end.

Fixpoint mapi_cat {A} (f : nat -> A -> list label) (i : nat) (l : list A) : list label :=
  match l with
  | [] => []
  | x :: tl => f i x ++ mapi_cat f (S i) tl
  end.

Definition candidates (s : st) : list label :=
  mapi_cat thread_cand 0 (sthreads s) ++ mapi_cat (task_cand s) 0 (tasks s) ++
  mapi_cat worker_cand 0 (workers s) ++ mapi_cat ctx_cand 0 (ctxs s).

Fixpoint first_enabled (s : st) (ls : list label) : option st :=
  match ls with
  | [] => None
  | l :: tl => match step s l with Next s' => Some s' | _ => first_enabled s tl end
  end.

Fixpoint advance (fuel : nat) (s : st) : st :=
  match fuel with
  | O => s
  | S f => match first_enabled s (candidates s) with
           | Some s' => advance f s'
           | None => s
           end
  end.

Definition fuel0 : nat := 4000.

Definition apply_label (s : st) (l : label) : option st :=
  match step s l with
  | Next s' => Some (advance fuel0 s')
  | _ => None
  end.

(** One harness operation = one label of the environment followed by every
    enabled internal step; a body that calls Stop before it returns is two:
    the Stop call (which runs as far as it can), then the end of the body. *)
Definition apply_op (s : st) (o : hop) : option st :=
  match o with
  | HRelStop i =>
      match apply_label s LCallStop with Some s1 => apply_label s1 (LBodyEnd i) | None => None end
  | HWRelStop w =>
      match apply_label s LCallStop with Some s1 => apply_label s1 (LWorkerBodyEnd w) | None => None end
  | _ => apply_label s (op_label o)
  end.

(** * Observations *)

(** quiescing, numTasks, stopCalled, len(closers), len(qCancels), len(sCancels) *)
Definition snapshot := (bool * Z * bool * Z * Z * Z)%type.

Record hobs := Obs {
  o_rets : list (option ret);       (* per Run*Task call: its return value once it returned *)
  o_begun : list bool;              (* per Run*Task call: has f begun *)
  o_q : bool; o_s : bool; o_d : bool;   (* ShouldQuiesce / ShouldStop / IsStopped closed *)
  o_ntasks : Z;                     (* NumTasks() *)
  o_calls : list Z;                 (* per closer: number of Close() calls *)
  o_ctx : list bool;                (* per WithCancelOn* context: Err() != nil *)
  o_lens : list Z;                  (* len(sem) *)
  o_srets : list bool;              (* per Stop/Quiesce call: has it returned *)
  o_snap : snapshot
}.

Definition is_some {A} (o : option A) : bool := match o with Some _ => true | None => false end.

Definition ret_eqb (a b : ret) : bool :=
  match a, b with
  | RNil, RNil | RUnavailable, RUnavailable | RThrottled, RThrottled | RCanceled, RCanceled => true
  | _, _ => false
  end.

Definition is_qc (r : ret) : bool :=
  match r with RUnavailable | RCanceled => true | _ => false end.

(** Return values agree, except that when a limited task's context is
    cancelled and the stopper is quiescing the two select cases are both
    ready and Go picks either: ErrUnavailable and context.Canceled are then
    both accepted. *)
Definition ret_ok (s : st) (t : task) (o : option ret) : bool :=
  match t_ret t, o with
  | None, None => true
  | Some a, Some b =>
      ret_eqb a b ||
      (is_qc a && is_qc b && quiescing s && ctx_done s (ctx_of (tk t)))
  | _, _ => false
  end.

Fixpoint all2 {A B} (f : A -> B -> bool) (a : list A) (b : list B) : bool :=
  match a, b with
  | [], [] => true
  | x :: a', y :: b' => f x y && all2 f a' b'
  | _, _ => false
  end.

Definition zlen {A} (f : A -> bool) (l : list A) : Z := Z.of_nat (count f l).

Definition model_snap (s : st) : snapshot :=
  (quiescing s, num_tasks s, stop_called s, zlen c_listed (closers s),
   zlen (fun c => x_registered c && x_onq c) (ctxs s),
   zlen (fun c => x_registered c && negb (x_onq c)) (ctxs s)).

Definition snap_eqb (a b : snapshot) : bool :=
  let '(q1, n1, c1, l1, x1, y1) := a in
  let '(q2, n2, c2, l2, x2, y2) := b in
  Bool.eqb q1 q2 && (n1 =? n2)%Z && Bool.eqb c1 c2 && (l1 =? l2)%Z && (x1 =? x2)%Z && (y1 =? y2)%Z.

Definition returned (th : sthread) : bool :=
  match sp th with SReturned => true | _ => false end.

Definition obs_match (s : st) (o : hobs) : bool :=
  all2 (ret_ok s) (tasks s) (o_rets o) &&
  all2 (fun t b => Bool.eqb (is_some (t_begin_at t)) b) (tasks s) (o_begun o) &&
  Bool.eqb (quiescing s) (o_q o) && Bool.eqb (stop_ch s) (o_s o) && Bool.eqb (stopped_ch s) (o_d o) &&
  (num_tasks s =? o_ntasks o)%Z &&
  all2 (fun c n => (Z.of_nat (c_calls c) =? n)%Z) (closers s) (o_calls o) &&
  all2 (fun c b => Bool.eqb (x_cancelled c) b) (ctxs s) (o_ctx o) &&
  all2 (fun p n => (Z.of_nat (snd p) =? n)%Z) (sems s) (o_lens o) &&
  all2 (fun th b => Bool.eqb (returned th) b) (sthreads s) (o_srets o) &&
  snap_eqb (model_snap s) (o_snap o).

(** No internal step is left enabled (the fuel of [advance] sufficed). *)
Definition settled (s : st) : bool :=
  match first_enabled s (candidates s) with None => true | Some _ => false end.

Fixpoint run_ops (s : st) (ops : list hop) (obs : list hobs) : bool :=
  match ops, obs with
  | [], [] => true
  | o :: ops', ob :: obs' =>
      match apply_op s o with
      | Some s' => settled s' && obs_match s' ob && run_ops s' ops' obs'
      | None => false
      end
  | _, _ => false
  end.

(** * Part 2: the plain-meaning oracle over an observed history *)

(** A sample of the three channels and of the semaphore lengths, taken while
    holding the lock of the event log (so samples and events are totally
    ordered): (ShouldQuiesce closed, ShouldStop closed, IsStopped closed,
    len(sem_k)). *)
Definition smp := (bool * bool * bool * list Z)%type.
Definition sq (m : smp) : bool := let '(q, _, _, _) := m in q.
Definition ss (m : smp) : bool := let '(_, s, _, _) := m in s.
Definition sd (m : smp) : bool := let '(_, _, d, _) := m in d.
Definition sl (m : smp) : list Z := let '(_, _, _, l) := m in l.

Inductive ev :=
| EStart (i : nat) (sync : bool) (sem : option nat)
                                        (* about to call Run*Task number i; sync: RunTask *)
| ERet (i : nat) (r : ret) (m : smp)    (* that call returned r *)
| EBegin (i : nat) (m : smp)            (* f began *)
| EEnd (i : nat) (m : smp)              (* f is about to return *)
| EWStart (w : nat) (m : smp)           (* RunWorker returned *)
| EWEnd (w : nat) (m : smp)             (* the worker's f is about to return *)
| EAddCall (c : nat) (m : smp)          (* about to call AddCloser(c) *)
| EAddRet (c : nat) (m : smp)           (* AddCloser(c) returned *)
| EClose (c : nat) (m : smp)            (* c.Close() is running *)
| EStopCall (k : nat)                   (* about to call Stop *)
| EStopRet (k : nat) (m : smp)
| EQuiCall (k : nat)
| EQuiRet (k : nat) (m : smp)
| EObs (m : smp)                        (* a bystander's sample *)
| EIdle (upto : nat) (m : smp)          (* NumTasks() returned 0 at a moment after the first [upto]
                                           events had been logged; m sampled after that *)
| EBusy (upto : nat) (n : Z) (m : smp)
                                        (* NumTasks() returned n <> 0 at such a moment *)
| EFinal (m : smp)
| ECtx (x : nat) (onq : bool) (c : bool) (m : smp)
                                        (* context x, from WithCancelOnQuiesce (onq) or WithCancelOnStop,
                                           has Err() != nil (c), read AFTER the sample m was taken *)
| ECtxFn (x : nat).                     (* the cancel function returned with context x is about to be called *)                     (* controlled runs: every body the harness started has been
                                           told to return, Stop has been called, and the harness has
                                           waited (polling, long time-out) for the Stopper to settle *)

Definition smp_of (e : ev) : option smp :=
  match e with
  | ERet _ _ m | EBegin _ m | EEnd _ m | EWStart _ m | EWEnd _ m | EAddCall _ m | EAddRet _ m
  | EClose _ m | EStopRet _ m | EQuiRet _ m | EObs m | EIdle _ m | EBusy _ _ m | EFinal m
  | ECtx _ _ _ m => Some m
  | EStart _ _ _ | EStopCall _ | EQuiCall _ | ECtxFn _ => None
  end.

Definition mem (i : nat) (l : list nat) : bool := existsb (Nat.eqb i) l.

(** positions (from 0) of the events satisfying p *)
Fixpoint positions_aux (p : ev -> bool) (l : list ev) (i : nat) : list nat :=
  match l with
  | [] => []
  | e :: tl => if p e then i :: positions_aux p tl (S i) else positions_aux p tl (S i)
  end.
Definition positions p l := positions_aux p l 0.
Definition first_pos p l : option nat := hd_error (positions p l).
Definition any_before (p : ev -> bool) (l : list ev) (n : nat) : bool := existsb p (firstn n l).

Definition smp_is (f : smp -> bool) (e : ev) : bool :=
  match smp_of e with Some m => f m | None => false end.

Definition is_begin (i : nat) e := match e with EBegin j _ => j =? i | _ => false end.
Definition is_end (i : nat) e := match e with EEnd j _ => j =? i | _ => false end.
Definition is_close (c : nat) e := match e with EClose j _ => j =? c | _ => false end.
Definition is_addret (c : nat) e := match e with EAddRet j _ => j =? c | _ => false end.
Definition is_wend (w : nat) e := match e with EWEnd j _ => j =? w | _ => false end.

(** ** A. no task whose start was refused ever runs *)
Definition refused_ids (l : list ev) : list nat :=
  flat_map (fun e => match e with
                     | ERet i RNil _ => []
                     | ERet i _ _ => [i]
                     | _ => [] end) l.
Definition begun_ids (l : list ev) : list nat :=
  flat_map (fun e => match e with EBegin i _ => [i] | _ => [] end) l.
Definition accepted_ids (l : list ev) : list nat :=
  flat_map (fun e => match e with EBegin i _ => [i] | ERet i RNil _ => [i] | _ => [] end) l.
Definition ended_ids (l : list ev) : list nat :=
  flat_map (fun e => match e with EEnd i _ => [i] | _ => [] end) l.

Definition ruleA (l : list ev) : bool :=
  let b := begun_ids l in forallb (fun i => negb (mem i b)) (refused_ids l).

(** ** B. every accepted task runs to completion before the stop channel
    closes (and before a Quiesce call returns: "tasks drained").  No body
    event may carry or follow a sample showing ShouldStop closed, nor follow
    the return of a Quiesce; and once such a point exists every accepted task
    has ended. *)
Fixpoint ruleB1 (drained : bool) (l : list ev) : bool :=
  match l with
  | [] => true
  | e :: tl =>
      let here := drained || smp_is ss e in
      match e with
      | EBegin _ _ | EEnd _ _ => negb here && ruleB1 here tl
      | EQuiRet _ _ => ruleB1 true tl
      | _ => ruleB1 here tl
      end
  end.

Definition drained_seen (l : list ev) : bool :=
  existsb (fun e => smp_is ss e || match e with EQuiRet _ _ => true | _ => false end) l.

Definition ruleB2 (l : list ev) : bool :=
  if drained_seen l
  then let en := ended_ids l in forallb (fun i => mem i en) (accepted_ids l)
  else true.

(** ** C. phase order as seen by any single sample: stopped => stop => quiesce *)
Definition ruleC (l : list ev) : bool :=
  forallb (fun e => match smp_of e with
                    | Some m => implb (sd m) (ss m) && implb (ss m) (sq m)
                    | None => true end) l.

(** ** H. once every Stop call made so far has returned (so the one that did
    the work has), the stopper reports itself stopped. *)
Fixpoint remove_nat (k : nat) (l : list nat) : list nat :=
  match l with [] => [] | x :: tl => if x =? k then tl else x :: remove_nat k tl end.

Fixpoint ruleH (out : list nat) (done : bool) (l : list ev) : bool :=
  match l with
  | [] => true
  | e :: tl =>
      match e with
      | EStopCall k => ruleH (k :: out) done tl
      | EStopRet k m =>
          let out' := remove_nat k out in
          let done' := done || match out' with [] => true | _ => false end in
          (if done' then sd m else true) && ruleH out' done' tl
      | _ => (if done then match smp_of e with Some m => sd m | None => true end else true) &&
             ruleH out done tl
      end
  end.

(** ** E. workers.  A worker is known to be registered before Stop's
    stop.Wait() returned ("counted") if RunWorker returned at a point where
    ShouldStop was still open at that point or later, or before a counted
    worker ended.  [wlimit] is the latest position with that evidence. *)
Definition last_pos (p : ev -> bool) (l : list ev) : option nat :=
  match rev (positions p l) with [] => None | x :: _ => Some x end.

Definition wstart_pos (l : list ev) (w : nat) : option nat :=
  first_pos (fun e => match e with EWStart j _ => j =? w | _ => false end) l.
Definition worker_ids (l : list ev) : list nat :=
  flat_map (fun e => match e with EWStart w _ => [w] | _ => [] end) l.

Definition leb_opt (a : option nat) (lim : option nat) : bool :=
  match a, lim with Some x, Some y => x <=? y | _, _ => false end.
Definition max_opt (a b : option nat) : option nat :=
  match a, b with
  | Some x, Some y => Some (Nat.max x y)
  | Some x, None => Some x
  | None, b => b
  end.

Fixpoint wlimit (fuel : nat) (l : list ev) (lim : option nat) : option nat :=
  match fuel with
  | O => lim
  | S f =>
      let lim' := fold_left (fun acc w =>
                               if leb_opt (wstart_pos l w) lim
                               then max_opt acc (first_pos (is_wend w) l) else acc)
                            (worker_ids l) lim in
      wlimit f l lim'
  end.

Definition counted_workers (l : list ev) : list nat :=
  let lim0 := last_pos (fun e => match smp_of e with Some m => negb (ss m) | None => false end) l in
  let lim := wlimit (S (length (worker_ids l))) l lim0 in
  filter (fun w => leb_opt (wstart_pos l w) lim) (worker_ids l).

(** every counted worker returns before the stopper reports itself stopped *)
Definition ruleE (l : list ev) : bool :=
  let pd := first_pos (smp_is sd) l in
  forallb (fun w =>
             forallb (fun e => match e with
                               | EWEnd j m => if j =? w then negb (sd m) else true
                               | _ => true end) l &&
             match pd with
             | Some p => any_before (is_wend w) l p
             | None => true
             end) (counted_workers l).

(** ** D. closers *)
Definition closer_ids (l : list ev) : list nat :=
  flat_map (fun e => match e with EAddRet c _ => [c] | _ => [] end) l.

Definition ruleD (l : list ev) : bool :=
  let pd := first_pos (smp_is sd) l in
  let cw := counted_workers l in
  (* D1: never twice; D4: only after the stop channel closed *)
  forallb (fun e => match e with
                    | EClose c m => (length (positions (is_close c) l) <=? 1) && ss m
                    | _ => true end) l &&
  forallb (fun c =>
    match first_pos (is_addret c) l with
    | None => true
    | Some pa =>
        (* D2: registered before the stopper reported itself stopped: called before that *)
        match pd with
        | Some p => if pa <? p then any_before (is_close c) l p else true
        | None => true
        end &&
        (* D2': AddCloser returned when already stopped: has been called *)
        forallb (fun e => match e with
                          | EAddRet j m => if (j =? c) && sd m then any_before (is_close c) l pa else true
                          (* D3: called when the stop channel was already closed: called at once *)
                          | EAddCall j m => if (j =? c) && ss m then any_before (is_close c) l pa else true
                          | _ => true end) l &&
        (* D5: surely registered before the stop channel closed: called after every counted
           worker returned and before stopped *)
        forallb (fun e => match e with
                          | EAddRet j m =>
                              if (j =? c) && negb (ss m) then
                                match first_pos (is_close c) l with
                                | Some pc =>
                                    forallb (fun e' => match e' with
                                                       | EClose j' m' => if j' =? c then negb (sd m') else true
                                                       | _ => true end) l &&
                                    forallb (fun w => any_before (is_wend w) l pc) cw
                                | None => true
                                end
                              else true
                          | _ => true end) l
    end) (closer_ids l).

(** ** F. a limited task holds its semaphore slot exactly while it runs *)
Fixpoint sem_lookup (tbl : list (nat * nat)) (i : nat) : option nat :=
  match tbl with
  | [] => None
  | (j, k) :: tl => if j =? i then Some k else sem_lookup tl i
  end.

Fixpoint bump (l : list Z) (k : nat) (d : Z) : list Z :=
  match l, k with
  | [], _ => []
  | x :: tl, O => (x + d)%Z :: tl
  | x :: tl, S k' => x :: bump tl k' d
  end.

Fixpoint all2z (f : Z -> Z -> bool) (a b : list Z) : bool :=
  match a, b with
  | x :: a', y :: b' => f x y && all2z f a' b'
  | _, _ => true
  end.

(** [running]: per semaphore, bodies begun and not ended; [inflight]: per
    semaphore, calls started and not returned nor accepted-and-ended.
    F1: running <= len at every sample.  F3: once ShouldStop is closed or a
    Quiesce returned (all accepted tasks have run runPostlude, which comes
    after the release), len <= calls still in flight. *)
Fixpoint ruleF (tbl : list (nat * nat)) (running inflight : list Z) (drained : bool) (l : list ev) : bool :=
  match l with
  | [] => true
  | e :: tl =>
      let here := drained || smp_is ss e in
      let chk (run : list Z) (infl : list Z) :=
        match smp_of e with
        | Some m => all2z Z.leb run (sl m) && (if here then all2z Z.leb (sl m) infl else true)
        | None => true
        end in
      match e with
      | EStart i _ (Some k) => ruleF ((i, k) :: tbl) running (bump inflight k 1) drained tl
      | ERet i r _ =>
          match sem_lookup tbl i with
          | Some k => let infl' := bump inflight k (-1) in chk running infl' && ruleF tbl running infl' here tl
          | None => chk running inflight && ruleF tbl running inflight here tl
          end
      | EBegin i _ =>
          match sem_lookup tbl i with
          | Some k => let run' := bump running k 1 in chk run' inflight && ruleF tbl run' inflight here tl
          | None => chk running inflight && ruleF tbl running inflight here tl
          end
      | EEnd i _ =>
          match sem_lookup tbl i with
          | Some k => chk running inflight && ruleF tbl (bump running k (-1)) inflight here tl
          | None => chk running inflight && ruleF tbl running inflight here tl
          end
      | EQuiRet _ _ => chk running inflight && ruleF tbl running inflight true tl
      | _ => chk running inflight && ruleF tbl running inflight here tl
      end
  end.

Definition zeros (n : nat) : list Z := repeat 0%Z n.

(** ** G. "exactly": the slot does not stay taken once the task is over.
    When NumTasks() = 0 was observed, every task that had ended before has
    also run runPostlude, which comes after its [<-sem]; a call that returned
    an error has given back whatever it took.  So the length of semaphore k
    is at most the number of calls on k started so far, minus those that
    returned an error, minus those whose body had ended before the
    observation. *)
Definition started_on (k : nat) (l : list ev) : list nat :=
  flat_map (fun e => match e with
                     | EStart i _ (Some k') => if k' =? k then [i] else []
                     | _ => [] end) l.
Definition err_ids (l : list ev) : list nat := refused_ids l.

Definition may_hold (k : nat) (pre : list ev) (ended : list nat) : list nat :=
  let errs := err_ids pre in
  filter (fun i => negb (mem i errs) && negb (mem i ended)) (started_on k pre).

Fixpoint ruleG_aux (nsems : nat) (all : list ev) (l : list ev) (p : nat) : bool :=
  match l with
  | [] => true
  | e :: tl =>
      match e with
      | EIdle u m =>
          let pre := firstn p all in
          let ended := ended_ids (firstn u all) in
          forallb (fun k => (nth k (sl m) 0%Z <=? Z.of_nat (length (may_hold k pre ended)))%Z) (seq 0 nsems)
      | _ => true
      end && ruleG_aux nsems all tl (S p)
  end.
Definition ruleG (nsems : nat) (l : list ev) : bool := ruleG_aux nsems l l 0.

(** ** T. a further task is admitted: ErrThrottled is only justified if the
    semaphore could have been full at some moment of the call, i.e. at least
    [cap] other calls on it may have held a slot then: started before this
    call returned, not returned with an error before this call started, and
    not known to have released (ended before the last NumTasks() = 0
    observation that precedes the start of this call). *)
Fixpoint last_idle_upto (l : list ev) (acc : nat) : nat :=
  match l with
  | [] => acc
  | EIdle u _ :: tl => last_idle_upto tl (Nat.max acc u)
  | _ :: tl => last_idle_upto tl acc
  end.

Definition start_pos (i : nat) (l : list ev) : option nat :=
  first_pos (fun e => match e with EStart j _ _ => j =? i | _ => false end) l.

Fixpoint ruleT_aux (caps : list nat) (tbl : list (nat * nat)) (all : list ev) (l : list ev) (p : nat) : bool :=
  match l with
  | [] => true
  | e :: tl =>
      match e with
      | EStart i _ (Some k) => ruleT_aux caps ((i, k) :: tbl) all tl (S p)
      | ERet i RThrottled _ =>
          match sem_lookup tbl i, start_pos i all with
          | Some k, Some ps =>
              let before_start := firstn ps all in
              let ended := ended_ids (firstn (last_idle_upto before_start 0) all) in
              let errs := err_ids before_start in
              let others := filter (fun j => negb (j =? i) && negb (mem j errs) && negb (mem j ended))
                                   (started_on k (firstn p all)) in
              nth k caps 0 <=? length others
          | _, _ => true
          end && ruleT_aux caps tbl all tl (S p)
      | _ => ruleT_aux caps tbl all tl (S p)
      end
  end.
Definition ruleT (caps : list nat) (l : list ev) : bool := ruleT_aux caps [] l l 0.

(** ** N. a submission that is refused or returns an error leaves the task
    count as it was.  NumTasks() is never negative, and when it returned n
    at least n calls must have been between runPrelude and runPostlude; the
    calls that can have been are those started by then, except
    those that had returned an error before, RunTask calls that had returned
    before (runPostlude precedes the return), and tasks whose body had ended
    before an earlier moment at which NumTasks() was 0. *)
Definition started_ids (l : list ev) : list nat :=
  flat_map (fun e => match e with EStart i _ _ => [i] | _ => [] end) l.
Definition sync_ids (l : list ev) : list nat :=
  flat_map (fun e => match e with EStart i true _ => [i] | _ => [] end) l.
Definition returned_ids (l : list ev) : list nat :=
  flat_map (fun e => match e with ERet i _ _ => [i] | _ => [] end) l.

Fixpoint ruleN_aux (all : list ev) (l : list ev) (p : nat) : bool :=
  match l with
  | [] => true
  | e :: tl =>
      match e with
      | EBusy u n _ =>
          let pre := firstn p all in
          let early := firstn u all in
          let errs := err_ids early in
          let syncs := sync_ids pre in
          let syncdone := filter (fun i => mem i syncs) (returned_ids early) in
          let asyncdone := ended_ids (firstn (last_idle_upto early 0) all) in
          let cands := filter (fun i => negb (mem i errs) && negb (mem i syncdone) && negb (mem i asyncdone))
                              (started_ids pre) in
          (0 <=? n)%Z && (n <=? Z.of_nat (length cands))%Z
      | _ => true
      end && ruleN_aux all tl (S p)
  end.
Definition ruleN (l : list ev) : bool := ruleN_aux l l 0.

(** ** L. Stop still returns: in a controlled run, once every body has been
    told to return and Stop has been called, the stopper is stopped and every
    Stop and Quiesce call has returned. *)
Definition call_ids (l : list ev) : list nat :=
  flat_map (fun e => match e with EStopCall k | EQuiCall k => [k] | _ => [] end) l.
Definition callret_ids (l : list ev) : list nat :=
  flat_map (fun e => match e with EStopRet k _ | EQuiRet k _ => [k] | _ => [] end) l.
Definition ruleL (l : list ev) : bool :=
  forallb (fun e => match e with
                    | EFinal m => sd m && (let r := callret_ids l in forallb (fun k => mem k r) (call_ids l))
                    | _ => true end) l.

(** ** K. the contexts follow the phases.  K1: once ShouldQuiesce (resp.
    ShouldStop) was seen closed, a WithCancelOnQuiesce (resp. WithCancelOnStop)
    context read afterwards is cancelled.  K2: the stop cancellation is not
    delivered before the tasks are drained: once a WithCancelOnStop context
    whose own cancel function was not called is seen cancelled, no task body
    begins or ends any more. *)
Definition ruleK1 (l : list ev) : bool :=
  forallb (fun e => match e with
                    | ECtx _ onq c m => implb (if onq then sq m else ss m) c
                    | _ => true end) l.

Fixpoint ruleK2 (fns : list nat) (cut : bool) (l : list ev) : bool :=
  match l with
  | [] => true
  | e :: tl =>
      match e with
      | ECtxFn x => ruleK2 (x :: fns) cut tl
      | ECtx x false true _ => ruleK2 fns (cut || negb (mem x fns)) tl
      | EBegin _ _ | EEnd _ _ => negb cut && ruleK2 fns cut tl
      | _ => ruleK2 fns cut tl
      end
  end.

(** The code of the first rule the history breaks; 0 = the history is fine.
    1 refused task ran; 2 a task body at/after stop-channel close or Quiesce
    return; 3 accepted task never completed; 4 phase order in a sample;
    5 not stopped although Stop returned; 6 worker outlives stopped;
    7 closers; 8 semaphore (a body running without a slot, or a slot still
    taken after drain); 9 a slot still taken although no task is left
    (NumTasks() = 0); 10 ErrThrottled although the semaphore had room;
    11 NumTasks() counts a call that was refused / returned an error or is
    over; 12 the stopper did not stop although every body had returned;
    13 a WithCancelOnStop context cancelled while task bodies still run;
    14 a context not cancelled although its channel was closed. *)
Definition hist_code (caps : list nat) (l : list ev) : N :=
  let nsems := length caps in
  if negb (ruleA l) then 1%N
  else if negb (ruleB1 false l) then 2%N
  else if negb (ruleB2 l) then 3%N
  else if negb (ruleC l) then 4%N
  else if negb (ruleH [] false l) then 5%N
  else if negb (ruleE l) then 6%N
  else if negb (ruleD l) then 7%N
  else if negb (ruleF [] (zeros nsems) (zeros nsems) false l) then 8%N
  else if negb (ruleG nsems l) then 9%N
  else if negb (ruleT caps l) then 10%N
  else if negb (ruleN l) then 11%N
  else if negb (ruleL l) then 12%N
  else if negb (ruleK2 [] false l) then 13%N
  else if negb (ruleK1 l) then 14%N
  else 0%N.

(** * Cases *)
Definition ctl_case := (list nat * list hop * list hobs * list ev)%type.   (* caps, ops, obs, events *)
Definition free_case := (list nat * list ev)%type.                          (* capacities, events *)

Definition ctl_model_bad (c : ctl_case) : bool :=
  let '(caps, ops, obs, _) := c in negb (run_ops (init caps) ops obs).
Definition ctl_code (c : ctl_case) : N :=
  let '(caps, _, _, evs) := c in hist_code caps evs.
Definition ctl_oracle_bad (c : ctl_case) : bool := negb (ctl_code c =? 0)%N.
Definition free_code (c : free_case) : N := let '(n, evs) := c in hist_code n evs.
Definition free_oracle_bad (c : free_case) : bool := negb (free_code c =? 0)%N.

(** codes of the failing cases: [i1; code1; i2; code2; ...] (tail recursive) *)
Fixpoint codes_aux {A} (f : A -> N) (l : list A) (i : N) (acc : list N) : list N :=
  match l with
  | [] => rev' acc
  | x :: tl => let c := f x in
               codes_aux f tl (N.succ i) (if (c =? 0)%N then acc else c :: i :: acc)
  end.
Definition codes {A} (f : A -> N) (l : list A) : list N := codes_aux f l 0%N [].
