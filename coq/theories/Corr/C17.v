(** Correspondence functions for C17: the shapes of the cases the Go harness
    (harness/c17/main.go) writes, the comparison of what the real
    pkg/crdb/retry did with the model ([*_model_bad]) and the plain-meaning
    oracles evaluated on what the real code did ([*_oracle_*], written from the
    text of the property, not from the model: no floor, no jitter draw, no
    isReset flag). *)
From Shk Require Import Base.Prelude Model.Retry.
From Coq Require Import Qpower.
Open Scope Z_scope.

(** A float64 jitter draw is k / 2^53. *)
Definition two53 : positive := 9007199254740992.
Definition u_of (k : Z) : Q := k # two53.
Definition u_max : Q := (Zpos two53 - 1) # two53.

(** * The plain-meaning band, used by every oracle.
    Defaults as documented in StartWithCtx: 50 ms, 2 s, x2, 0.15. *)
Definition spec_init (o : opts) : Q := if init_backoff o =? 0 then 50000000 # 1 else inject_Z (init_backoff o).
Definition spec_max (o : opts) : Q := if max_backoff o =? 0 then 2000000000 # 1 else inject_Z (max_backoff o).
Definition spec_mult (o : opts) : Q := if Qeq_bool (multiplier o) 0 then 2 # 1 else multiplier o.
Definition spec_rf (o : opts) : Q := if Qeq_bool (rand_factor o) 0 then 5404319552844595 # 36028797018963968 else rand_factor o.
(** min(Initial x Multiplier^n, Max) *)
Definition spec_centre (o : opts) (n : Z) : Q := Qmin (spec_init o * Qpower (spec_mult o) n) (spec_max o).
(** [1 ns] of tolerance on either side (float rounding, and the whole-nanosecond floor). *)
Definition spec_ge_lower (o : opts) (n : Z) (x : Z) : bool :=
  let c := spec_centre o n in Qle_bool (c * (1 - spec_rf o) - 1) (inject_Z x).
Definition spec_le_upper (o : opts) (n : Z) (x : Z) : bool :=
  let c := spec_centre o n in Qle_bool (inject_Z x) (c * (1 + spec_rf o) + 1).

(** * retryIn samples *)
(** (options as given to Start, number of NextCh calls made first, whether
    Reset was called after them, currentAttempt seen through the hook,
    samples (k, observed retryIn) with the jitter draw k/2^53, k = -1 if the
    draw is not known). *)
Definition ri_case := (opts * Z * bool * Z * list (Z * Z))%type.

(** What NextCh does to the state, without computing the channel it returns
    (= without evaluating retryIn: positions of several hundred are reached
    this way at no cost).  Proofs/RetryLts.v, [skip_nextch_is_step]: it is the
    state component of [step s (LCallNextCh u)]. *)
Definition skip_nextch (s : rstate) (u : Q) : rstate :=
  if is_reset s then
    {| ropts := ropts s; cur := cur s; is_reset := false; closed := closed s;
       cancelled := cancelled s; ph := PIdle; g_now := g_now s; g_call_at := g_call_at s;
       g_u := g_u s; g_attempts := g_attempts s + 1; g_clean := false |}
  else
    let c := cur s + 1 in
    if (0 <? max_retries (ropts s)) && (max_retries (ropts s) <? c) then
      {| ropts := ropts s; cur := c; is_reset := false; closed := closed s;
         cancelled := cancelled s; ph := PIdle; g_now := g_now s; g_call_at := g_call_at s;
         g_u := g_u s; g_attempts := g_attempts s; g_clean := false |}
    else
      {| ropts := ropts s; cur := c; is_reset := false; closed := closed s;
         cancelled := cancelled s; ph := PIdle; g_now := g_now s; g_call_at := g_call_at s;
         g_u := u; g_attempts := g_attempts s + 1; g_clean := false |}.

Fixpoint iter_nextch (k : nat) (s : rstate) : option rstate :=
  match k with
  | O => Some s
  | S k' => match ph s with PIdle => iter_nextch k' (skip_nextch s 0) | _ => None end
  end.

Definition ri_prep (o : opts) (k : Z) (rst : bool) : option rstate :=
  match iter_nextch (Z.to_nat k) (start o false false) with
  | Some s => if rst then match step s LReset with Some (s', _) => Some s' | None => None end else Some s
  | None => None
  end.

Definition near (a b : Z) : bool := (a - 1 <=? b) && (b <=? a + 1).

(** Exact evaluation of one sample without a big-number division and without
    a product of two big numbers (Coq's binary integers make both quadratic;
    Multiplier^n has thousands of bits far down a gentle schedule):
    [fma base span k] is [base + (k/2^53) * span] with the factors ordered so
    that the small or power-of-two one drives each product, and
    [near_trunc q x] decides [near (Qtrunc q) x] by two multiplications with
    the small [x].  Proofs/RetryLts.v, [fast_sample_is_model]: together they
    compute [near (jitter b rf (u_of k)) x]. *)
Definition fma (base span : Q) (k : Z) : Q :=
  Qmake (Zpos (Qden span * two53) * Qnum base + Zpos (Qden base) * (k * Qnum span))
        (Qden base * (Qden span * two53)).
Definition trunc_le (q : Q) (y : Z) : bool :=       (* Qtrunc q <= y *)
  let n := Qnum q in let d := Zpos (Qden q) in
  if 0 <=? n then n <? (y + 1) * d else n <=? y * d.
Definition trunc_ge (q : Q) (y : Z) : bool :=       (* y <= Qtrunc q *)
  let n := Qnum q in let d := Zpos (Qden q) in
  if 0 <=? n then y * d <=? n else (y - 1) * d <? n.
Definition near_trunc (q : Q) (x : Z) : bool := trunc_ge q (x - 1) && trunc_le q (x + 1).
Definition fast_base (b rf : Q) : Q := (b * (1 - rf))%Q.
Definition fast_span (b rf : Q) : Q := ((2 # 1) * rf * b + 1)%Q.

Definition ri_model_bad (c : ri_case) : bool :=
  let '(o, k, rst, cur_obs, samples) := c in
  match ri_prep o k rst with
  | None => true
  | Some s =>
      let b := backoff (ropts s) (cur s) in
      let base := fast_base b (rand_factor (ropts s)) in
      let span := fast_span b (rand_factor (ropts s)) in
      negb ((cur s =? cur_obs) &&
            forallb (fun p : Z * Z =>
                       let (kk, x) := p in
                       if kk <? 0 then
                         (* draw not known: between the draws 0 and 1 - 2^-53, 1 ns of tolerance *)
                         trunc_le (fma base span 0) (x + 1) && trunc_ge (fma base span (Zpos two53 - 1)) (x - 1)
                       else near_trunc (fma base span kk) x) samples)
  end.

(** Plain meaning: every sample lies in the band around min(I x M^n, Max),
    n the position in the schedule (0 after Reset). *)
Definition ri_oracle_code (c : ri_case) : N :=
  let '(o, k, rst, cur_obs, samples) := c in
  let n := if rst then 0 else cur_obs in
  let c := spec_centre o n in
  (* c - rf*c - 1 and c + rf*c + 1, written so that no numerator meets another big one *)
  let lower := (c * (1 - spec_rf o) - 1)%Q in
  let upper := (c * (1 + spec_rf o) + 1)%Q in
  if negb (forallb (fun p : Z * Z => Qle_bool lower (inject_Z (snd p))) samples) then 1%N      (* below the band *)
  else if negb (forallb (fun p : Z * Z => Qle_bool (inject_Z (snd p)) upper) samples) then 2%N  (* above the band *)
  else 0%N.
Definition ri_oracle_bad (c : ri_case) : bool := negb (ri_oracle_code c =? 0)%N.

(** * Loops of Next / NextCh / Reset with closer and context *)
Inductive stopper := StCloser | StCtx.

Inductive hop :=
| HNext (u : Z) (async : option (stopper * bool))
    (* u: jitter numerator or -1.  async = Some (st, before): a concurrent
       close/cancel was launched; [before]: it had begun when Next returned.
       It is complete before the next operation. *)
| HNextCh (u : Z)
| HReset
| HStop (st : stopper).                 (* synchronous close / cancel *)

Inductive hobs :=
| BNext (res : bool) (elapsed : Z) (cur_ : Z) (isreset : bool)
| BHang                                  (* Next did not return within the watchdog *)
| BChan (kind : Z) (elapsed : Z) (cur_ : Z) (isreset : bool)
    (* 0 closed, 1 nil, 2 timer (received after elapsed), 3 timer, not awaited *)
| BState (cur_ : Z) (isreset : bool).

(** (options, closer closed before Start, context cancelled before Start, operations with observations) *)
Definition loop_case := (opts * bool * bool * list (hop * hobs))%type.

Definition stop_label (st : stopper) : label :=
  match st with StCloser => LCloserClosed | StCtx => LCtxCancelled end.
Definition stop_sel (s : rstate) : sel := if closed s then SelCloser else SelCtx.
Definition stopped (s : rstate) : bool := closed s || cancelled s.

Definition apply_stop (s : rstate) (st : stopper) : rstate :=
  match step s (stop_label st) with Some (s', _) => s' | None => s end.

Definition snapshot_ok (s : rstate) (c : Z) (r : bool) : bool := (cur s =? c) && Bool.eqb (is_reset s) r.

Definition final (r : option (rstate * list obs)) (want : obs) : option rstate :=
  match r with
  | Some (s, os) => match rev os with
                    | o :: _ => match o, want with
                                | OYield a, OYield b => if Bool.eqb a b then Some s else None
                                | _, _ => None
                                end
                    | [] => None
                    end
  | None => None
  end.

(** One harness operation against the model: the labels are chosen from the
    observation (how long it took, what was returned); [None] = the model has
    no run that produces this observation. *)
Definition drive1 (s : rstate) (op : hop) (ob : hobs) : option rstate :=
  match op, ob with
  | HNext k async, BNext res el c r =>
      let u := if k <? 0 then 0%Q else u_of k in
      let after s' := match async with Some (st, _) => apply_stop s' st | None => s' end in
      let s1 :=
        if is_reset s || max_reached_next s then
          final (run s [LCallNext u]) (OYield res)
        else if res then
          (* waited for the timer: at least the armed duration (1 ns of float rounding);
             when the jitter draw is not known, u = 0 arms the shortest duration *)
          final (run s [LCallNext u; LTick (el + 1); LTimerFires; LPoll (Some SelTimer)]) (OYield true)
        else if stopped s then
          final (run s [LCallNext u; LPoll (Some (stop_sel s))]) (OYield false)
        else match async with
             | Some (st, true) => final (run s [LCallNext u; LPoll None; stop_label st]) (OYield false)
             | _ => None
             end in
      match s1 with
      | Some s' => let s'' := after s' in if snapshot_ok s'' c r then Some s'' else None
      | None => None
      end
  | HNextCh k, BChan kind el c r =>
      let u := if k <? 0 then 0%Q else u_of k in
      match step s (LCallNextCh u) with
      | Some (s', OChan ch) =>
          let ok := match ch with
                    | ChClosed => kind =? 0
                    | ChNil => kind =? 1
                    | ChTimer d => ((kind =? 2) && ((k <? 0) || (d - 1 <=? el))) || (kind =? 3)
                    end in
          if ok && snapshot_ok s' c r then Some s' else None
      | _ => None
      end
  | HReset, BState c r =>
      match step s LReset with
      | Some (s', _) => if snapshot_ok s' c r then Some s' else None
      | None => None
      end
  | HStop st, BState c r =>
      let s' := apply_stop s st in if snapshot_ok s' c r then Some s' else None
  | _, _ => None
  end.

Fixpoint drive (s : rstate) (l : list (hop * hobs)) : bool :=
  match l with
  | [] => true
  | (op, ob) :: tl => match drive1 s op ob with Some s' => drive s' tl | None => false end
  end.

Definition loop_model_bad (c : loop_case) : bool :=
  let '(o, c0, x0, l) := c in negb (drive (start o c0 x0) l).

(** The plain-meaning oracle: an abstract retry loop that knows only the
    option set, which attempt comes next, and whether it has been told to stop.
    It reports the first thing that contradicts the property:
      1 the first attempt (after Start / Reset, not stopped) was refused
      2 more than MaxRetries+1 attempts
      3 an attempt earlier than the lower edge of its band (this is also what an
        attempt after a stop looks like: it is excusable only if the whole
        wait had elapsed before the select looked — the partial theorem)
      4 a refusal nobody asked for (bound not reached, not told to stop)
      5 a call that must return at once did not return
      6 NextCh returned the wrong kind of channel
      7 malformed case
      8 more than [race_allowance] attempts handed out by Next after the loop had
        been told to stop (completely, before each of those calls; the first
        call after a Reset is the known shape and not counted).  A single such
        attempt is what the select race of the partial theorem looks like when
        the back-off is tiny, zero or negative (the runtime fired the due timer
        between time.After and the select: measured 3 in 10^4 calls with 1 ns
        timers on 16 Ps, never with one P); several in one loop are not. *)
Definition race_allowance : Z := 2.
Record ospec := {
  o_fresh : bool;       (* the next attempt is the first one after Start / Reset *)
  o_k : Z;              (* waits completed since then = index of the next back-off *)
  o_att : Z;            (* attempts yielded since then *)
  o_stopped : bool;     (* closer closed or context cancelled, completely, before now *)
  o_known : bool;       (* saw: Reset/Start while open, then stop, then an immediate attempt *)
  o_late : Z;           (* attempts handed out by Next (not the first after Reset) although told to stop before the call *)
  o_code : N;
}.

Definition o_init (c0 x0 : bool) : ospec :=
  {| o_fresh := negb (c0 || x0); o_k := 0; o_att := 0; o_stopped := c0 || x0; o_known := false; o_late := 0; o_code := 0%N |}.

Definition exhausted (o : opts) (a : ospec) : bool := (0 <? max_retries o) && (max_retries o + 1 <=? o_att a).

(** first failure wins *)
Definition flag (old : N) (checks : list (bool * N)) : N :=
  if (old =? 0)%N then
    fold_left (fun (acc : N) (p : bool * N) => if (acc =? 0)%N then (if fst p then snd p else 0%N) else acc) checks 0%N
  else old.

Definition ostep (o : opts) (a : ospec) (op : hop) (ob : hobs) : ospec :=
  let fail a c := {| o_fresh := o_fresh a; o_k := o_k a; o_att := o_att a; o_stopped := o_stopped a;
                     o_known := o_known a; o_late := o_late a; o_code := flag (o_code a) [(true, c)] |} in
  match op, ob with
  | HNext _ async, BNext res el _ _ =>
      let stop_now := match async with Some _ => true | None => false end in
      let may_stop := o_stopped a || match async with Some (_, b) => b | None => false end in
      if o_fresh a then
        (* the first attempt comes immediately — unless the loop was told to stop;
           an attempt although it was told to stop is the known shape *)
        {| o_fresh := negb res; o_k := 0; o_att := if res then 1 else 0;
           o_stopped := o_stopped a || stop_now;
           o_known := o_known a || (res && o_stopped a); o_late := o_late a;
           o_code := flag (o_code a) [(negb res && negb may_stop, 1%N)] |}
      else if res then
        {| o_fresh := false; o_k := o_k a + 1; o_att := o_att a + 1; o_stopped := o_stopped a || stop_now;
           o_known := o_known a;
           o_late := if o_stopped a then o_late a + 1 else o_late a;
           o_code := flag (o_code a) [(exhausted o a, 2%N); (negb (spec_ge_lower o (o_k a) el), 3%N);
                                      (o_stopped a && (race_allowance <? o_late a + 1), 8%N)] |}
      else
        {| o_fresh := false; o_k := o_k a; o_att := o_att a; o_stopped := o_stopped a || stop_now;
           o_known := o_known a; o_late := o_late a;
           o_code := flag (o_code a) [(negb (exhausted o a || may_stop), 4%N)] |}
  | HNext _ _, BHang => fail a 5%N
  | HNextCh _, BHang => fail a 5%N
  | HNextCh _, BChan kind el _ _ =>
      if o_fresh a then
        {| o_fresh := false; o_k := 0; o_att := 1; o_stopped := o_stopped a; o_known := o_known a; o_late := o_late a;
           o_code := flag (o_code a) [(negb (kind =? 0), 6%N)] |}
      else if kind =? 1 then
        (* nil: no further attempt; justified by the bound, or by the loop having been told to stop *)
        {| o_fresh := false; o_k := o_k a; o_att := o_att a; o_stopped := o_stopped a; o_known := o_known a; o_late := o_late a;
           o_code := flag (o_code a) [(negb (exhausted o a || o_stopped a), 4%N)] |}
      else
        (* NextCh computes its back-off one position ahead of Next; either position is
           accepted.  kind 3: the harness did not wait for an hour-long timer *)
        {| o_fresh := false; o_k := o_k a + 1; o_att := o_att a + 1; o_stopped := o_stopped a; o_known := o_known a; o_late := o_late a;
           o_code := flag (o_code a)
                       [(exhausted o a, 2%N); (negb ((kind =? 2) || (kind =? 3)), 6%N);
                        ((kind =? 2) && negb (spec_ge_lower o (o_k a) el || spec_ge_lower o (o_k a + 1) el), 3%N)] |}
  | HReset, BState _ _ =>
      if o_stopped a then a
      else {| o_fresh := true; o_k := 0; o_att := 0; o_stopped := false; o_known := o_known a; o_late := o_late a; o_code := o_code a |}
  | HStop _, BState _ _ =>
      {| o_fresh := o_fresh a; o_k := o_k a; o_att := o_att a; o_stopped := true; o_known := o_known a; o_late := o_late a; o_code := o_code a |}
  | _, _ => fail a 7%N
  end.

Fixpoint orun (o : opts) (a : ospec) (l : list (hop * hobs)) : ospec :=
  match l with
  | [] => a
  | (op, ob) :: tl => orun o (ostep o a op ob) tl
  end.

Definition loop_oracle (c : loop_case) : ospec :=
  let '(o, c0, x0, l) := c in orun o (o_init c0 x0) l.
Definition loop_oracle_code (c : loop_case) : N := o_code (loop_oracle c).
Definition loop_oracle_bad (c : loop_case) : bool := negb (loop_oracle_code c =? 0)%N.
Definition loop_oracle_known (c : loop_case) : bool := o_known (loop_oracle c).

(** * WithMaxAttempts *)
(** (options, n, closer closed before, context cancelled before, success
    pattern of fn (calls beyond the list fail), the call of fn during which fn
    itself closes the closer / cancels the context, deterministic?, observed
    number of calls, observed result is nil) *)
Definition wma_case := (opts * Z * bool * bool * list bool * option (Z * stopper) * bool * Z * bool * list Z * list (Z * Z))%type.
(** The two last components are timings, all lower-bound safe:
    gaps: for call i+1 of fn (i from 0), the time from the end of call i (taken
      inside fn, before it returns, hence before the back-off is armed) to the
      start of call i+1: at least the armed delay of back-off i;
    late: for every call that STARTED after the closer was closed / the context
      cancelled or expired (completely), (i, g): it follows back-off i, and the
      stop was complete g ns after the end of the previous call (an upper
      bound of the time from arming the back-off to the stop). *)

Definition pat (l : list bool) (k : Z) : bool :=
  if k <? 0 then false else nth (Z.to_nat k) l false.

(** A deterministic scheduler for the composite machine: a stopped loop's
    select sees the closer / context and not the timer (the harness makes the
    wait after a stop an hour long); otherwise the timer wins. *)
Definition wma_round (succ : Z -> bool) (stop_at : option (Z * stopper)) (w : wstate) : option wstate :=
  let r := wr w in
  let calls := wcalls w in
  let ls :=
    if is_reset r || max_reached_next r then [LCallNext 0]
    else if stopped r then [LCallNext 0; LPoll (Some (stop_sel r))]
    else [LCallNext 0; LTick (retry_in (ropts r) (cur r) 0); LTimerFires; LPoll (Some SelTimer)] in
  match wrun succ w ls with
  | Some w' =>
      match stop_at, wpc_ w' with
      | Some (k, st), WLoop =>
          if (wcalls w' =? k + 1) && negb (wcalls w' =? calls)
          then match wstep succ w' (stop_label st) with Some w'' => Some w'' | None => Some w' end
          else Some w'
      | _, _ => Some w'
      end
  | None => None
  end.

Fixpoint wma_loop (fuel : nat) (succ : Z -> bool) (stop_at : option (Z * stopper)) (w : wstate) : option wstate :=
  match wpc_ w with
  | WLoop => match fuel with
             | O => None
             | S f => match wma_round succ stop_at w with
                      | Some w' => wma_loop f succ stop_at w'
                      | None => None
                      end
             end
  | _ => Some w
  end.

Definition wma_model_bad (c : wma_case) : bool :=
  let '(o, n, c0, x0, p, stop_at, det, calls, isnil, gaps, late) := c in
  if negb det then false else
  match wma_loop (Z.to_nat n + 3) (pat p) stop_at (wstart o n c0 x0) with
  | Some w =>
      negb ((wcalls w =? calls) &&
            match wpc_ w with
            | WDone WNil => isnil
            | WDone WErr | WArgError => negb isnil
            | WLoop => false
            end)
  | None => true
  end.

Fixpoint any_success (p : list bool) (calls : nat) : bool :=
  match calls, p with
  | O, _ => false
  | S c, [] => false
  | S c, b :: tl => b || any_success tl c
  end.

(** Plain meaning: n <= 0 is an error without a call; otherwise at most n
    calls, nil iff a call succeeded, at least one call unless the loop had been
    told to stop before it began (then: no call and an error).
      1 n <= 0 not refused   2 more than n calls   3 nil without a success / error despite one
      4 no call although not stopped before   5 did not return
      6 fn called after the loop had been told to stop, the stop complete before the (long) back-off could elapse
      7 fn called again earlier than the lower edge of the back-off band *)
Definition spec_lower_at_least (o : opts) (n : Z) (x : Z) : bool :=
  let c := spec_centre o n in Qle_bool (inject_Z x) (c * (1 - spec_rf o)).

Fixpoint gaps_ok (o : opts) (i : Z) (gaps : list Z) : bool :=
  match gaps with
  | [] => true
  | g :: tl => spec_ge_lower o i g && gaps_ok o (i + 1) tl
  end.

(** A call after the stop is excusable only by the select race: the timer had
    fired when the select polled.  If the stop was complete before the back-off
    could have elapsed ([g] below the lower edge), the select polled — it does so
    right after the previous call returned — a whole back-off late.  With a
    lower edge of 300 ms and more that is not the race. *)
Definition long_wait : Z := 300000000.
Definition late_bad (o : opts) (p : Z * Z) : bool :=
  let (i, g) := p in negb (spec_ge_lower o i g) && spec_lower_at_least o i long_wait.

Definition wma_oracle_code (c : wma_case) : N :=
  let '(o, n, c0, x0, p, stop_at, det, calls, isnil, gaps, late) := c in
  if calls <? 0 then 5%N
  else if n <=? 0 then (if (calls =? 0) && negb isnil then 0%N else 1%N)
  else if n <? calls then 2%N
  else if negb (Bool.eqb isnil (any_success p (Z.to_nat calls))) then 3%N
  else if (calls =? 0) && negb (c0 || x0) then 4%N
  else if negb (gaps_ok o 0 gaps) then 7%N
  else if existsb (late_bad o) late then 6%N
  else 0%N.
Definition wma_oracle_bad (c : wma_case) : bool := negb (wma_oracle_code c =? 0)%N.
