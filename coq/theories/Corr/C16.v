(** Correspondence functions for C16: the shapes of the cases harness/c16
    writes, the comparison of the implementation's observations with the models
    ([*_model_bad]) and the plain-meaning oracles evaluated on the
    implementation's observations alone ([*_oracle_bad]). *)
From Shk Require Import Base.Prelude Model.LogCodec Model.LogRotate.
Open Scope Z_scope.

(** * Codec *)
(** (entries given to Entry.Format, the bytes it produced for all of them in
    order, the entries NewEntryDecoder/Decode returned for those bytes, the kind
    of error that ended decoding: 0 io.EOF, 1 time.Parse, 2 strconv, 3 other) *)
(** The bytes are given in chunks (a literal list of several ten thousand
    elements is beyond the parser's stack); [concat] puts them together. *)
Definition codec_case := (list entry * list (list byte) * list entry * Z)%type.

Definition entries_eqb := list_eqb entry_eqb.

(** the model's formatter produces the observed bytes *)
Definition fmt_model_bad (c : codec_case) : bool :=
  let '(ins, chunks, _, _) := c in
  negb (bytes_eqb (concat (map format ins)) (concat chunks)).

(** the model's decoder returns the observed entries and status *)
Definition dec_model_bad (c : codec_case) : bool :=
  let '(_, chunks, outs, err) := c in
  let '(es, k) := decode_stream (concat chunks) in
  negb (entries_eqb es outs && (k =? err)).

(** plain meaning: what was formatted is what is decoded, nothing else *)
Definition codec_oracle_bad (c : codec_case) : bool :=
  let '(ins, _, outs, err) := c in
  negb (entries_eqb ins outs && (err =? 0)).

(** perturbed streams: decoder only *)
Definition raw_case := (list byte * list entry * Z)%type.
Definition raw_model_bad (c : raw_case) : bool :=
  let '(stream, outs, err) := c in
  let '(es, k) := decode_stream stream in
  negb (entries_eqb es outs && (k =? err)).

(** * Rotation and GC histories *)
(** [HLog id len now]: [now] is the time stamp of the file the logger writes to
    after the call (syncBuffer.lastRotation): the clock of the model run. *)
Inductive hop := HLog (id len now : Z) | HSetMax (m : Z) | HGc (bound : Z) | HSetSync (b : bool) | HClose | HSnap | HPeek.

(** a file as observed: (time stamp of the name, size, user message ids) *)
Definition ofile := (Z * Z * list Z)%type.

Record hist_case := mkHist {
  hc_h : Z;                       (* bytes of the header entries of each new file *)
  hc_max0 : Z;                    (* LogFileMaxSize at the start *)
  hc_planted : list (Z * Z * list Z);  (* files put in the directory beforehand: stamp, size, message ids *)
  hc_ops : list hop;
  hc_snaps : list (list ofile);   (* the directory, oldest first, after every HSnap, HPeek and HGc *)
  hc_fetch : option (list Z)      (* FetchEntriesFromFiles at the end, chronological *)
}.

(** The clock of the model runs of several loggers: later than every planted
    file.  The single-logger histories run the model with the observed clock
    (see [HLog]); time stamps are not compared (only the order they induce is,
    through the order of the files in the snapshots). *)
Definition model_now : Z := 4000000000.

Definition to_rop (o : hop) : rop :=
  match o with
  | HLog id len now => RLog now now id len
  | HSetMax m => RSetMax m
  | HGc b => RGc b
  | HSetSync b => RSetSync b
  | HClose => RClose
  | HSnap => RSnap
  | HPeek => RPeek
  end.

Fixpoint osnap_eqb (a : list (Z * list Z)) (b : list ofile) : bool :=
  match a, b with
  | [], [] => true
  | (s1, m1) :: a', (_, s2, m2) :: b' => (s1 =? s2) && list_eqb Z.eqb m1 m2 && osnap_eqb a' b'
  | _, _ => false
  end.

Fixpoint osnaps_eqb (a : list (list (Z * list Z))) (b : list (list ofile)) : bool :=
  match a, b with
  | [], [] => true
  | x :: a', y :: b' => osnap_eqb x y && osnaps_eqb a' b'
  | _, _ => false
  end.

Definition hist_model_bad (c : hist_case) : bool :=
  let planted := sort_desc (map (fun p => mkFile (fst (fst p)) (snd (fst p)) (snd p)) (hc_planted c)) in
  let snaps := rrun_snaps (hc_h c) (init_state planted (hc_max0 c)) (map to_rop (hc_ops c)) in
  negb (osnaps_eqb snaps (hc_snaps c)).

(** ** Plain-meaning oracle, on the observations only. *)
Definition ids_of (s : list ofile) : list Z := concat (map (fun f => snd f) s).

Definition ofile_eqb (a b : ofile) : bool :=
  let '(t1, s1, m1) := a in let '(t2, s2, m2) := b in
  (t1 =? t2) && (s1 =? s2) && list_eqb Z.eqb m1 m2.

(** [before] and [after] newest first.  The newest file survives; walking
    towards the oldest with the running sum of sizes (deleted files included),
    a file that survives must have a running sum below the bound and must be
    unchanged; nothing else may appear. *)
Fixpoint gc_walk (bound sum : Z) (before after : list ofile) : bool :=
  match before with
  | [] => match after with [] => true | _ => false end
  | f :: tl =>
      let sum' := sum + snd (fst f) in
      match after with
      | g :: atl =>
          if fst (fst f) =? fst (fst g)
          then ofile_eqb f g && (sum' <? bound) && gc_walk bound sum' tl atl
          else gc_walk bound sum' tl after
      | [] => gc_walk bound sum' tl []
      end
  end.

Definition gc_ok (bound : Z) (before after : list ofile) : bool :=
  match rev before, rev after with
  | [], [] => true
  | n :: btl, n' :: atl => ofile_eqb n n' && gc_walk bound (snd (fst n)) btl atl
  | _, _ => false
  end.

(** strictly increasing time stamps, oldest first *)
Fixpoint stamps_increasing (s : list ofile) : bool :=
  match s with
  | a :: ((b :: _) as tl) => (fst (fst a) <? fst (fst b)) && stamps_increasing tl
  | _ => true
  end.

(** Walk the operations with the snapshots: between two snapshots with no GC in
    between, what is read back grows by exactly the messages logged in between,
    in order; a GC run obeys [gc_ok] w.r.t. the snapshot taken just before it. *)
Fixpoint hist_walk (prev : list ofile) (pending : list Z) (ops : list hop) (snaps : list (list ofile)) : bool :=
  match ops with
  | [] => match snaps with [] => true | _ => false end
  | HLog id _ _ :: tl => hist_walk prev (pending ++ [id]) tl snaps
  | HSetMax _ :: tl => hist_walk prev pending tl snaps
  | HClose :: tl => hist_walk prev pending tl snaps        (* closing and re-opening loses nothing *)
  | HSetSync _ :: tl => hist_walk prev pending tl snaps   (* the mode does not change what must be read back *)
  | (HSnap | HPeek) :: tl =>      (* HPeek: only issued in sync mode, where nothing may be buffered *)
      match snaps with
      | sn :: stl =>
          list_eqb Z.eqb (ids_of sn) (ids_of prev ++ pending) && stamps_increasing sn && hist_walk sn [] tl stl
      | [] => false
      end
  | HGc b :: tl =>
      match snaps with
      | sn :: stl =>
          match pending with
          | [] => gc_ok b prev sn && hist_walk sn [] tl stl
          | _ => false     (* the harness always snapshots right before a GC *)
          end
      | [] => false
      end
  end.

Definition hist_oracle_bad (c : hist_case) : bool :=
  let planted := rev (sort_desc (map (fun p => mkFile (fst (fst p)) (snd (fst p)) (snd p)) (hc_planted c))) in
  let prev := map (fun f => (f_stamp f, f_size f, f_msgs f)) planted in
  negb (hist_walk prev [] (hc_ops c) (hc_snaps c)
        && match hc_fetch c with
           | Some ids => list_eqb Z.eqb ids (ids_of (last (hc_snaps c) []))
           | None => true
           end).

(** narrower oracles, to name what failed *)
Fixpoint no_hgc (ops : list hop) : bool :=
  match ops with [] => true | HGc _ :: _ => false | _ :: tl => no_hgc tl end.
Fixpoint hlogged (ops : list hop) : list Z :=
  match ops with [] => [] | HLog id _ _ :: tl => id :: hlogged tl | _ :: tl => hlogged tl end.

(** without GC, the last snapshot reads back the messages of the files that were
    there before (oldest first) and then every logged message once, in order *)
Definition hist_lossless_bad (c : hist_case) : bool :=
  let planted := rev (sort_desc (map (fun p => mkFile (fst (fst p)) (snd (fst p)) (snd p)) (hc_planted c))) in
  no_hgc (hc_ops c) &&
  negb (list_eqb Z.eqb (ids_of (last (hc_snaps c) [])) (concat (map f_msgs planted) ++ hlogged (hc_ops c))).

(** * Several loggers sharing one directory *)
Inductive xop := XLog (lg id len : Z) | XSetMax (m : Z) | XGc (lg bound : Z) | XSnap.

(** what is seen of one program at a snapshot: its files (found by scanning the
    directory and parsing the names, oldest first) and, for every file the
    logger's own listLogFiles returned, the index of the program that file
    belongs to *)
Definition pview := (list ofile * list Z)%type.

Record multi_case := mkMulti {
  mc_h : Z;
  mc_max0 : Z;
  mc_progs : list (list byte);               (* program names; a logger's index is its position *)
  mc_planted : list (Z * Z * Z * list Z);    (* files there beforehand: program index, stamp, size, ids *)
  mc_ops : list xop;
  mc_snaps : list (list pview);              (* after every XSnap and XGc: one view per program *)
  mc_fetch : option (list Z)                 (* FetchEntriesFromFiles (main logger = program 0), chronological *)
}.

Definition prog_name (c : multi_case) (i : Z) : list byte := nth (Z.to_nat i) (mc_progs c) [].

Definition to_mop (c : multi_case) (o : xop) : mop :=
  match o with
  | XLog lg id len => MLog (prog_name c lg) model_now model_now id len
  | XSetMax m => MSetMax m
  | XGc lg b => MGc (prog_name c lg) b
  | XSnap => MSnap
  end.

Fixpoint planted_of (i : Z) (l : list (Z * Z * Z * list Z)) : list lfile :=
  match l with
  | [] => []
  | (j, st, sz, ids) :: tl => if j =? i then mkFile st sz ids :: planted_of i tl else planted_of i tl
  end.

Fixpoint init_mstate (c : multi_case) (i : Z) (ps : list (list byte)) : mstate :=
  match ps with
  | [] => []
  | p :: tl => (p, init_state (sort_desc (planted_of i (mc_planted c))) (mc_max0 c)) :: init_mstate c (i + 1) tl
  end.

Fixpoint all_eq (i : Z) (l : list Z) : bool :=
  match l with [] => true | x :: tl => (x =? i) && all_eq i tl end.

Fixpoint views_eqb (i : Z) (m : list (list (Z * list Z) * Z)) (o : list pview) : bool :=
  match m, o with
  | [], [] => true
  | (fs, n) :: m', (ofs, listed) :: o' =>
      osnap_eqb fs ofs && all_eq i listed && (Z.of_nat (length listed) =? n) && views_eqb (i + 1) m' o'
  | _, _ => false
  end.

Fixpoint msnaps_eqb (m : list (list (list (Z * list Z) * Z))) (o : list (list pview)) : bool :=
  match m, o with
  | [], [] => true
  | x :: m', y :: o' => views_eqb 0 x y && msnaps_eqb m' o'
  | _, _ => false
  end.

Definition multi_model_bad (c : multi_case) : bool :=
  negb (msnaps_eqb (mrun_snaps (mc_h c) (init_mstate c 0 (mc_progs c)) (map (to_mop c) (mc_ops c))) (mc_snaps c)).

(** ** Plain meaning, on the observations only: every logger reads back its own
    messages exactly once and in order; a logger lists exactly its own program's
    files; a GC run of one logger obeys [gc_ok] on that logger's files and
    leaves every file of every other program untouched. *)
Fixpoint add_pending (i : Z) (id : Z) (p : list (list Z)) : list (list Z) :=
  match p with
  | [] => []
  | x :: tl => if i =? 0 then (x ++ [id]) :: tl else x :: add_pending (i - 1) id tl
  end.

Definition listing_ok (i : Z) (v : pview) : bool :=
  all_eq i (snd v) && (length (snd v) =? length (fst v))%nat.

(** [gcl]: index of the logger that ran GC (negative: a plain snapshot) *)
Fixpoint views_ok (i gcl bound : Z) (prev : list pview) (pend : list (list Z)) (sn : list pview) : bool :=
  match prev, pend, sn with
  | [], [], [] => true
  | pv :: prev', pd :: pend', v :: sn' =>
      listing_ok i v && stamps_increasing (fst v) &&
      (if gcl <? 0 then list_eqb Z.eqb (ids_of (fst v)) (ids_of (fst pv) ++ pd)
       else if gcl =? i then gc_ok bound (fst pv) (fst v)
       else list_eqb ofile_eqb (fst pv) (fst v)) &&
      views_ok (i + 1) gcl bound prev' pend' sn'
  | _, _, _ => false
  end.

Definition no_pending (p : list (list Z)) : bool := forallb (fun l => match l with [] => true | _ => false end) p.

Fixpoint multi_walk (prev : list pview) (pend : list (list Z)) (ops : list xop) (snaps : list (list pview)) : bool :=
  match ops with
  | [] => match snaps with [] => true | _ => false end
  | XLog lg id _ :: tl => multi_walk prev (add_pending lg id pend) tl snaps
  | XSetMax _ :: tl => multi_walk prev pend tl snaps
  | XSnap :: tl =>
      match snaps with
      | sn :: stl => views_ok 0 (-1) 0 prev pend sn && multi_walk sn (map (fun _ => []) pend) tl stl
      | [] => false
      end
  | XGc lg b :: tl =>
      match snaps with
      | sn :: stl => no_pending pend && views_ok 0 lg b prev pend sn && multi_walk sn pend tl stl
      | [] => false
      end
  end.

Fixpoint init_views (c : multi_case) (i : Z) (ps : list (list byte)) : list pview :=
  match ps with
  | [] => []
  | _ :: tl =>
      (map (fun f => (f_stamp f, f_size f, f_msgs f)) (rev (sort_desc (planted_of i (mc_planted c)))), @nil Z)
      :: init_views c (i + 1) tl
  end.

Definition multi_oracle_bad (c : multi_case) : bool :=
  negb (multi_walk (init_views c 0 (mc_progs c)) (map (fun _ => []) (mc_progs c)) (mc_ops c) (mc_snaps c)
        && match mc_fetch c with
           | Some ids => list_eqb Z.eqb ids (ids_of (fst (hd ([], []) (last (mc_snaps c) []))))
           | None => true
           end).

(** * The public logging calls
    (severity, number of arguments after the format, the format, what package
    fmt makes of format and arguments — Sprintf, or Sprint for Info / Warning /
    Error, whose format is empty —, and the severity and message read back from
    the log files; severity -1: nothing was read back).  MakeMessage
    (structured.go): a format without arguments is the message, verbatim
    (a '%' in it is not a verb); otherwise fmt decides. *)
Definition api_case := (Z * Z * list byte * list byte * Z * list byte)%type.

Definition make_message (nargs : Z) (format fmt_result : list byte) : list byte :=
  if nargs =? 0 then format else fmt_result.

Definition api_bad (c : api_case) : bool :=
  let '(sev, nargs, format, fmt_result, osev, obs) := c in
  negb ((sev =? osev) && bytes_eqb obs (make_message nargs format fmt_result)).

(** * FetchEntriesFromFiles from a time mark on
    (the messages logged after the mark, what the fetch returned put back in
    chronological order): exactly those, whatever file they are in. *)
Definition fetch_case := (list Z * list Z)%type.
Definition fetch_bad (c : fetch_case) : bool := negb (list_eqb Z.eqb (fst c) (snd c)).
