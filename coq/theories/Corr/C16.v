(** Correspondence functions for C16: the shapes of the cases harness/c16
    writes, the comparison of the implementation's observations with the models
    ([*_model_bad]) and the plain-meaning oracles evaluated on the
    implementation's observations alone ([*_oracle_bad]). *)
From Shk Require Import Base.Prelude Model.LogCodec Model.LogRotate.
Open Scope Z_scope.

(** * Codec *)
(** (entries given to Entry.Format, the bytes it produced for all of them in
    order, the entries NewEntryDecoder/Decode returned for those bytes, the kind
    of error that ended decoding: 0 io.EOF, 1 time.Parse, 2 strconv, 3 other) *)
Definition codec_case := (list entry * list byte * list entry * Z)%type.

Definition entries_eqb := list_eqb entry_eqb.

(** the model's formatter produces the observed bytes *)
Definition fmt_model_bad (c : codec_case) : bool :=
  let '(ins, stream, _, _) := c in
  negb (bytes_eqb (concat (map format ins)) stream).

(** the model's decoder returns the observed entries and status *)
Definition dec_model_bad (c : codec_case) : bool :=
  let '(_, stream, outs, err) := c in
  let '(es, k) := decode_stream stream in
  negb (entries_eqb es outs && (k =? err)).

(** plain meaning: what was formatted is what is decoded, nothing else *)
Definition codec_oracle_bad (c : codec_case) : bool :=
  let '(ins, _, outs, err) := c in
  negb (entries_eqb ins outs && (err =? 0)).

(** perturbed streams: decoder only *)
Definition raw_case := (list byte * list entry * Z)%type.
Definition raw_model_bad (c : raw_case) : bool :=
  let '(stream, outs, err) := c in
  let '(es, k) := decode_stream stream in
  negb (entries_eqb es outs && (k =? err)).

(** * Rotation and GC histories *)
Inductive hop := HLog (id len : Z) | HSetMax (m : Z) | HGc (bound : Z) | HSetSync (b : bool) | HSnap | HPeek.

(** a file as observed: (time stamp of the name, size, user message ids) *)
Definition ofile := (Z * Z * list Z)%type.

Record hist_case := mkHist {
  hc_h : Z;                       (* bytes of the header entries of each new file *)
  hc_max0 : Z;                    (* LogFileMaxSize at the start *)
  hc_planted : list (Z * Z * list Z);  (* files put in the directory beforehand: stamp, size, message ids *)
  hc_ops : list hop;
  hc_snaps : list (list ofile);   (* the directory, oldest first, after every HSnap, HPeek and HGc *)
  hc_fetch : option (list Z)      (* FetchEntriesFromFiles at the end, chronological *)
}.

(** The clock of the model run: later than every planted file.  The observed
    time stamps are not compared with the model's (only the order they induce
    is, through the order of the files in the snapshots). *)
Definition model_now : Z := 4000000000.

Definition to_rop (o : hop) : rop :=
  match o with
  | HLog id len => RLog model_now model_now id len
  | HSetMax m => RSetMax m
  | HGc b => RGc b
  | HSetSync b => RSetSync b
  | HSnap => RSnap
  | HPeek => RPeek
  end.

Fixpoint osnap_eqb (a : list (Z * list Z)) (b : list ofile) : bool :=
  match a, b with
  | [], [] => true
  | (s1, m1) :: a', (_, s2, m2) :: b' => (s1 =? s2) && list_eqb Z.eqb m1 m2 && osnap_eqb a' b'
  | _, _ => false
  end.

Fixpoint osnaps_eqb (a : list (list (Z * list Z))) (b : list (list ofile)) : bool :=
  match a, b with
  | [], [] => true
  | x :: a', y :: b' => osnap_eqb x y && osnaps_eqb a' b'
  | _, _ => false
  end.

Definition hist_model_bad (c : hist_case) : bool :=
  let planted := sort_desc (map (fun p => mkFile (fst (fst p)) (snd (fst p)) (snd p)) (hc_planted c)) in
  let snaps := rrun_snaps (hc_h c) (init_state planted (hc_max0 c)) (map to_rop (hc_ops c)) in
  negb (osnaps_eqb snaps (hc_snaps c)).

(** ** Plain-meaning oracle, on the observations only. *)
Definition ids_of (s : list ofile) : list Z := concat (map (fun f => snd f) s).

Definition ofile_eqb (a b : ofile) : bool :=
  let '(t1, s1, m1) := a in let '(t2, s2, m2) := b in
  (t1 =? t2) && (s1 =? s2) && list_eqb Z.eqb m1 m2.

(** [before] and [after] newest first.  The newest file survives; walking
    towards the oldest with the running sum of sizes (deleted files included),
    a file that survives must have a running sum below the bound and must be
    unchanged; nothing else may appear. *)
Fixpoint gc_walk (bound sum : Z) (before after : list ofile) : bool :=
  match before with
  | [] => match after with [] => true | _ => false end
  | f :: tl =>
      let sum' := sum + snd (fst f) in
      match after with
      | g :: atl =>
          if fst (fst f) =? fst (fst g)
          then ofile_eqb f g && (sum' <? bound) && gc_walk bound sum' tl atl
          else gc_walk bound sum' tl after
      | [] => gc_walk bound sum' tl []
      end
  end.

Definition gc_ok (bound : Z) (before after : list ofile) : bool :=
  match rev before, rev after with
  | [], [] => true
  | n :: btl, n' :: atl => ofile_eqb n n' && gc_walk bound (snd (fst n)) btl atl
  | _, _ => false
  end.

(** strictly increasing time stamps, oldest first *)
Fixpoint stamps_increasing (s : list ofile) : bool :=
  match s with
  | a :: ((b :: _) as tl) => (fst (fst a) <? fst (fst b)) && stamps_increasing tl
  | _ => true
  end.

(** Walk the operations with the snapshots: between two snapshots with no GC in
    between, what is read back grows by exactly the messages logged in between,
    in order; a GC run obeys [gc_ok] w.r.t. the snapshot taken just before it. *)
Fixpoint hist_walk (prev : list ofile) (pending : list Z) (ops : list hop) (snaps : list (list ofile)) : bool :=
  match ops with
  | [] => match snaps with [] => true | _ => false end
  | HLog id _ :: tl => hist_walk prev (pending ++ [id]) tl snaps
  | HSetMax _ :: tl => hist_walk prev pending tl snaps
  | HSetSync _ :: tl => hist_walk prev pending tl snaps   (* the mode does not change what must be read back *)
  | (HSnap | HPeek) :: tl =>      (* HPeek: only issued in sync mode, where nothing may be buffered *)
      match snaps with
      | sn :: stl =>
          list_eqb Z.eqb (ids_of sn) (ids_of prev ++ pending) && stamps_increasing sn && hist_walk sn [] tl stl
      | [] => false
      end
  | HGc b :: tl =>
      match snaps with
      | sn :: stl =>
          match pending with
          | [] => gc_ok b prev sn && hist_walk sn [] tl stl
          | _ => false     (* the harness always snapshots right before a GC *)
          end
      | [] => false
      end
  end.

Definition hist_oracle_bad (c : hist_case) : bool :=
  let planted := rev (sort_desc (map (fun p => mkFile (fst (fst p)) (snd (fst p)) (snd p)) (hc_planted c))) in
  let prev := map (fun f => (f_stamp f, f_size f, f_msgs f)) planted in
  negb (hist_walk prev [] (hc_ops c) (hc_snaps c)
        && match hc_fetch c with
           | Some ids => list_eqb Z.eqb ids (ids_of (last (hc_snaps c) []))
           | None => true
           end).

(** narrower oracles, to name what failed *)
Fixpoint no_hgc (ops : list hop) : bool :=
  match ops with [] => true | HGc _ :: _ => false | _ :: tl => no_hgc tl end.
Fixpoint hlogged (ops : list hop) : list Z :=
  match ops with [] => [] | HLog id _ :: tl => id :: hlogged tl | _ :: tl => hlogged tl end.

(** without GC, the last snapshot reads back the messages of the files that were
    there before (oldest first) and then every logged message once, in order *)
Definition hist_lossless_bad (c : hist_case) : bool :=
  let planted := rev (sort_desc (map (fun p => mkFile (fst (fst p)) (snd (fst p)) (snd p)) (hc_planted c))) in
  no_hgc (hc_ops c) &&
  negb (list_eqb Z.eqb (ids_of (last (hc_snaps c) [])) (concat (map f_msgs planted) ++ hlogged (hc_ops c))).
