(** Correspondence functions for C01. *)
From Shk Require Import Base.Prelude Model.Fsm Model.Meaning.
From Coq Require Import String.

(** A period case: modality name as given to `expects`, the observations, and
    the result codes of the reports the real processFsmStateChange produced for
    the observations followed by "end" ([None]: the Go code panicked or the
    name was refused). *)
Definition period_case := (string * list bool * option (list Z))%type.

(** A raw case: arbitrary labels (t, f, end, reset, unknown ones). *)
Definition raw_case := (string * list string * option (list Z))%type.

Definition codes_eqb (a b : option (list Z)) : bool :=
  match a, b with
  | None, None => true
  | Some x, Some y => list_eqb Z.eqb x y
  | _, _ => false
  end.

Definition model_period (reg : list fsm_table) (n : string) (tr : list bool) : option (list Z) :=
  match lookup reg n with
  | None => None
  | Some tbl => option_map (map verdict_code) (run_period tbl tr)
  end.

Definition model_raw (reg : list fsm_table) (n : string) (ls : list string) : option (list Z) :=
  match lookup reg n with
  | None => None
  | Some tbl => match state_name tbl (f_start tbl) with
                | None => None
                | Some _ => option_map (map verdict_code) (run_labels tbl (f_start tbl) ls)
                end
  end.

Definition period_model_bad (reg : list fsm_table) (c : period_case) : bool :=
  let '(n, tr, o) := c in negb (codes_eqb (model_period reg n tr) o).
Definition raw_model_bad (reg : list fsm_table) (c : raw_case) : bool :=
  let '(n, ls, o) := c in negb (codes_eqb (model_raw reg n ls) o).

Definition modality_of_name (n : string) : option modality :=
  find (fun m => String.eqb (name_of m) n) all_modalities.

(** The property itself, evaluated on the implementation's reports. *)
Definition period_oracle_bad (c : period_case) : bool :=
  let '(n, tr, o) := c in
  match modality_of_name n, o with
  | Some m, Some codes =>
      let dis := existsb (Z.eqb 2) codes in
      negb (Bool.eqb dis (negb (meaning m tr))
            && (dis || Z.eqb (last codes 3%Z) 0)
            && Nat.eqb (List.length codes) (S (List.length tr)))
  | _, _ => true        (* a documented modality refused, or a crash *)
  end.

(** The accepted names are exactly the ten. *)
Definition names_bad (accepted : list string) : bool :=
  negb (forallb (fun m => existsb (String.eqb (name_of m)) accepted) all_modalities
        && forallb (fun n => match modality_of_name n with Some _ => true | None => false end) accepted).

(** Periods in which the predicate sometimes does not evaluate (a type
    mismatch on some samples): such a round is REPORTED (result code 1) but it
    is not an observation: the automaton does not move. *)
Definition period3_case := (string * list (option bool) * option (list Z))%type.

Fixpoint run_from3 (tbl : fsm_table) (q : nat) (tr : list (option bool)) : option (list Z) :=
  match tr with
  | [] => match step_report tbl q "end" with
          | Some (_, v) => Some [verdict_code v]
          | None => None
          end
  | None :: tr' => option_map (cons 1%Z) (run_from3 tbl q tr')
  | Some b :: tr' => match step_report tbl q (lbl b) with
                     | Some (q', v) => option_map (cons (verdict_code v)) (run_from3 tbl q' tr')
                     | None => None
                     end
  end.

Definition model_period3 (reg : list fsm_table) (n : string) (tr : list (option bool)) : option (list Z) :=
  match lookup reg n with
  | None => None
  | Some tbl => match state_name tbl (f_start tbl) with
                | None => None
                | Some _ => run_from3 tbl (f_start tbl) tr
                end
  end.

Definition period3_model_bad (reg : list fsm_table) (c : period3_case) : bool :=
  let '(n, tr, o) := c in negb (codes_eqb (model_period3 reg n tr) o).

(** the property itself: the verdicts are those of the plain meaning over the
    rounds in which the predicate did evaluate *)
Definition period3_oracle_bad (c : period3_case) : bool :=
  let '(n, tr, o) := c in
  let obs := flat_map (fun x => match x with Some b => [b] | None => [] end) tr in
  let nerr := List.length (filter (fun x => match x with None => true | Some _ => false end) tr) in
  match modality_of_name n, o with
  | Some m, Some codes =>
      let judged := filter (fun c => negb (Z.eqb c 1)) codes in
      let dis := existsb (Z.eqb 2) judged in
      negb (Bool.eqb dis (negb (meaning m obs))
            && (dis || Z.eqb (last judged 3%Z) 0)
            && Nat.eqb (List.length judged) (S (List.length obs))
            && Nat.eqb (List.length codes - List.length judged) nerr)
  | _, _ => true
  end.
