(** Correspondence functions for C01. *)
From Shk Require Import Base.Prelude Model.Fsm Model.Meaning.
From Coq Require Import String.

(** A period case: modality name as given to `expects`, the observations, and
    the result codes of the reports the real processFsmStateChange produced for
    the observations followed by "end" ([None]: the Go code panicked or the
    name was refused). *)
Definition period_case := (string * list bool * option (list Z))%type.

(** A raw case: arbitrary labels (t, f, end, reset, unknown ones). *)
Definition raw_case := (string * list string * option (list Z))%type.

Definition codes_eqb (a b : option (list Z)) : bool :=
  match a, b with
  | None, None => true
  | Some x, Some y => list_eqb Z.eqb x y
  | _, _ => false
  end.

Definition model_period (reg : list fsm_table) (n : string) (tr : list bool) : option (list Z) :=
  match lookup reg n with
  | None => None
  | Some tbl => option_map (map verdict_code) (run_period tbl tr)
  end.

Definition model_raw (reg : list fsm_table) (n : string) (ls : list string) : option (list Z) :=
  match lookup reg n with
  | None => None
  | Some tbl => match state_name tbl (f_start tbl) with
                | None => None
                | Some _ => option_map (map verdict_code) (run_labels tbl (f_start tbl) ls)
                end
  end.

Definition period_model_bad (reg : list fsm_table) (c : period_case) : bool :=
  let '(n, tr, o) := c in negb (codes_eqb (model_period reg n tr) o).
Definition raw_model_bad (reg : list fsm_table) (c : raw_case) : bool :=
  let '(n, ls, o) := c in negb (codes_eqb (model_raw reg n ls) o).

Definition modality_of_name (n : string) : option modality :=
  find (fun m => String.eqb (name_of m) n) all_modalities.

(** The property itself, evaluated on the implementation's reports. *)
Definition period_oracle_bad (c : period_case) : bool :=
  let '(n, tr, o) := c in
  match modality_of_name n, o with
  | Some m, Some codes =>
      let dis := existsb (Z.eqb 2) codes in
      negb (Bool.eqb dis (negb (meaning m tr))
            && (dis || Z.eqb (last codes 3%Z) 0)
            && Nat.eqb (List.length codes) (S (List.length tr)))
  | _, _ => true        (* a documented modality refused, or a crash *)
  end.

(** The accepted names are exactly the ten. *)
Definition names_bad (accepted : list string) : bool :=
  negb (forallb (fun m => existsb (String.eqb (name_of m)) accepted) all_modalities
        && forallb (fun n => match modality_of_name n with Some _ => true | None => false end) accepted).
