(** Correspondence functions for C18: the shapes of the cases the Go harness
    writes, the comparison of the implementation's observations with the model
    ([mismatches_*]) and the plain-meaning oracles evaluated on the
    implementation's observations ([oracle_*]). *)
From Shk Require Import Base.Prelude Model.Timeutil Model.Ticker.
Open Scope Z_scope.

(** (sec, nsec, observed ToUnixMicros) *)
Definition micro_case := (Z * Z * Z)%type.
Definition micro_model_bad (c : micro_case) : bool :=
  let '(s, n, o) := c in negb (to_micros (s, n) =? o).
Definition micro_oracle_bad (c : micro_case) : bool :=
  let '(s, n, o) := c in negb (nearest_micros (s, n) =? o).

(** (us, observed sec, observed nsec of FromUnixMicros us, observed ToUnixMicros of that) *)
Definition from_case := (Z * Z * Z * Z)%type.
Definition from_model_bad (c : from_case) : bool :=
  let '(us, s, n, back) := c in
  let '(ms, mn) := from_micros us in
  negb ((ms =? s) && (mn =? n) && (to_micros (ms, mn) =? back)).
Definition from_oracle_bad (c : from_case) : bool :=
  let '(us, s, n, back) := c in
  negb ((back =? us) && (0 <=? n) && (n <? 1000000000) && (s * 1000000000 + n =? us * 1000)).

(** Monotonicity oracle over the observed ToUnixMicros values: the harness
    emits the micro cases of one window in increasing instant order. *)
Fixpoint mono_bad_aux (prev : option (Z * Z)) (l : list micro_case) (i : N) (acc : list N) : list N :=
  match l with
  | [] => rev' acc
  | (s, n, o) :: tl =>
      let ns := s * 1000000000 + n in
      let bad := match prev with
                 | Some (pns, po) => (pns <=? ns) && (o <? po)
                 | None => false
                 end in
      mono_bad_aux (Some (ns, o)) tl (N.succ i) (if bad then i :: acc else acc)
  end.
Definition mono_bad (l : list micro_case) : list N := mono_bad_aux None l 0%N [].

(** * Timer operation sequences *)
Inductive hop := HReset (short : bool) | HWait | HTryRecv | HStop.
Inductive hobs := HDone | HBlocked | HLen (n : Z) | HGot (b : bool) | HStopped (b : bool).

Definition hobs_eqb (a b : hobs) : bool :=
  match a, b with
  | HDone, HDone | HBlocked, HBlocked => true
  | HLen x, HLen y => x =? y
  | HGot x, HGot y => Bool.eqb x y
  | HStopped x, HStopped y => Bool.eqb x y
  | _, _ => false
  end.

Definition short_d : Z := 1000000.            (* 1 ms *)
Definition long_d : Z := 3600000000000.       (* 1 h *)
Definition wait_dt : Z := 1000000000.         (* the harness waits until the short timer fired; 1 s of model time *)

Definition dur (short : bool) : Z := if short then short_d else long_d.

Definition chan_len (s : tstate) : Z :=
  match tm s with Some i => if full i then 1 else 0 | None => 0 end.

(** Drive the model with one harness operation; the model's own state decides
    the environment labels (time passing, the runtime firing the timer). *)
Definition drive1 (s : tstate) (o : hop) : tstate * hobs :=
  match o with
  | HReset short =>
      let d := dur short in
      let pick := match pool s with [] => None | _ => Some 0%nat end in
      match step s (LReset d pick) with
      | Next s' _ => (s', HDone)
      | _ => (s, HBlocked)
      end
  | HWait =>
      let s1 := match step s (LTick wait_dt) with Next s' _ => s' | _ => s end in
      let s2 := match step s1 LFire with Next s' _ => s' | _ => s1 end in
      (s2, HLen (chan_len s2))
  | HTryRecv =>
      match step s LRecv with
      | Next s' _ => (s', HGot true)
      | _ => (s, HGot false)
      end
  | HStop =>
      match step s LStop with
      | Next s' (OStop b) => (s', HStopped b)
      | _ => (s, HStopped false)
      end
  end.

Fixpoint drive (s : tstate) (ops : list hop) : list hobs :=
  match ops with
  | [] => []
  | o :: tl => let '(s', ob) := drive1 s o in ob :: drive s' tl
  end.

(** Abstract one-shot timer: the plain meaning of the Timer contract, with no
    inner timer, channel, Read flag or pool: a Reset schedules exactly one
    fire, [d] after the Reset; the fire is delivered at most once; Stop and a
    new Reset cancel it. *)
Inductive astate := AIdle | APending (d el : Z) | ADone.

(** [aspec a o ob]: is observation [ob] acceptable for operation [o] in
    abstract state [a], and what is the next abstract state. *)
Definition aspec (a : astate) (o : hop) (ob : hobs) : option astate :=
  match o, ob with
  | HReset k, HDone => Some (APending (dur k) 0)          (* Reset never blocks *)
  | HReset _, _ => None
  | HWait, HLen n =>
      match a with
      | APending d el =>
          let el' := el + wait_dt in
          if d <=? el' then (if n =? 1 then Some (APending d el') else None)     (* fires once d has elapsed *)
          else (if n =? 0 then Some (APending d el') else None)                   (* and not before *)
      | _ => if n =? 0 then Some a else None                                      (* only once / never after Stop *)
      end
  | HWait, _ => None
  | HTryRecv, HGot g =>
      match a with
      | APending d el => if d <=? el then (if g then Some ADone else None)
                         else (if g then None else Some a)
      | _ => if g then None else Some a
      end
  | HTryRecv, _ => None
  | HStop, HStopped b =>
      match a with
      | APending d el => if Bool.eqb b (el <? d) then Some AIdle else None        (* true iff not fired yet *)
      | _ => if b then None else Some AIdle
      end
  | HStop, _ => None
  end.

Fixpoint aspec_run (a : astate) (ops : list hop) (obs : list hobs) : bool :=
  match ops, obs with
  | [], [] => true
  | o :: ops', ob :: obs' =>
      match aspec a o ob with
      | Some a' => aspec_run a' ops' obs'
      | None => false
      end
  | _, _ => false
  end.

Definition timer_case := (list hop * list hobs)%type.
Definition timer_model_bad (c : timer_case) : bool :=
  let '(ops, obs) := c in negb (list_eqb hobs_eqb (drive t_init ops) obs).
Definition timer_oracle_bad (c : timer_case) : bool :=
  let '(ops, obs) := c in negb (aspec_run AIdle ops obs).

(** Generator contract that makes the model's observations deterministic: a
    short Reset is never directly followed by TryRecv or Stop. *)
Fixpoint race_free (ops : list hop) : bool :=
  match ops with
  | HReset true :: ((HTryRecv | HStop) :: _) => false
  | _ :: tl => race_free tl
  | [] => true
  end.

(** A tick never comes before the duration the Timer was armed for:
    (duration asked for, time measured until the tick; -1 = no tick), in ns. *)
Definition latency_case := (Z * Z)%type.
Definition latency_bad (c : latency_case) : bool := let '(d, e) := c in (e <? d)%Z || (e <? 0)%Z.

(** The collector's ticker loop on the real Timer: NewTimer; Reset(P); then per
    round wait for the tick, set Read, Reset(P) again (with a pause of arbitrary
    length before some of the receives).  (P, instants of the receives since the
    first Reset, in ns; a receive that never came = -1): the instants must be
    at least P apart, the first at least P after the start
    (Properties/C18.v c18_ticker_flushes_spaced), and no Reset may block
    (a blocked loop shows as a missing receive). *)
Definition ticker_case := (Z * list Z)%type.
Definition ticker_bad (c : ticker_case) : bool :=
  let '(P, ts) := c in negb (spacedb P 0 ts) || existsb (fun t => t <? 0) ts.
