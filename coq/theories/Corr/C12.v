(** Correspondence functions for C12.  The harness (harness/c12) produces:
    - path cases: filepath.Clean / Join / Abs on generated strings (the
      library functions the model re-implements);
    - link cases: the REAL prepareDirs run from a real current directory for
      output directories of every form, the text of the `latest` link it
      created and where the kernel resolves it;
    - range cases: the REAL expandTimeRange / assemble on generated instants;
    - plays: end-to-end runs of the real CLI over the flag matrix, with the
      file tree, the link, result.js, the csv files and the plot scripts
      inspected afterwards (file-system walks: observed, not proved).
    [*_model_bad]: the model's prediction differs from the observation.
    [*_oracle_bad]: the observation violates the property's plain meaning. *)
From Shk Require Import Base.Prelude Model.Dirs.
From Coq Require Import Strings.String.
Open Scope Z_scope.

(** * Paths *)
Definition clean_case := (bytes * bytes)%type.                  (* s, filepath.Clean s *)
Definition clean_model_bad (c : clean_case) : bool :=
  let '(s, o) := c in negb (bytes_eqb (bytes_of_path (clean (path_of_bytes s))) o).

Definition join_case := (bytes * bytes * bytes)%type.           (* a (not empty), b, filepath.Join a b *)
Definition join_model_bad (c : join_case) : bool :=
  let '(a, b, o) := c in negb (bytes_eqb (bytes_of_path (join (path_of_bytes a) (path_of_bytes b))) o).

Definition abs_case := (bytes * bytes * bytes)%type.            (* cwd, p, filepath.Abs p *)
Definition abs_model_bad (c : abs_case) : bool :=
  let '(w, p, o) := c in negb (bytes_eqb (bytes_of_path (abs_path (path_of_bytes w) (path_of_bytes p))) o).

(** * The link *)
Record link_case := {
  lc_cwd : bytes;
  lc_datadir : bytes;          (* as given to -o *)
  lc_sub : bytes;
  lc_rundir : bytes;           (* the plain meaning: <output-dir>/<run id>, absolute (computed by the harness) *)
  lc_text : bytes;             (* readlink <output-dir>/latest *)
  lc_resolves : bool;          (* the kernel follows the link to an existing directory *)
  lc_resolved : bytes;         (* ... namely this one *)
}.

Definition link_text (dataDir sub : bytes) : bytes :=
  let d := prepare_dirs (path_of_bytes dataDir) sub in
  if d_target_rel d || use_sub sub then bytes_of_path (d_target d) else dataDir.

Definition link_model_bad (c : link_case) : bool :=
  let d := prepare_dirs (path_of_bytes (lc_datadir c)) (lc_sub c) in
  let w := path_of_bytes (lc_cwd c) in
  let p := latest_resolves_to w d in
  let r := abs_path w (d_run d) in
  negb (bytes_eqb (link_text (lc_datadir c) (lc_sub c)) (lc_text c)
        && bytes_eqb (bytes_of_path r) (lc_rundir c)
        (* only the run directory exists: the link resolves iff it leads there *)
        && Bool.eqb (path_eqb p r) (lc_resolves c)
        && (negb (lc_resolves c) || bytes_eqb (bytes_of_path p) (lc_resolved c))).

Definition link_oracle_bad (c : link_case) : bool :=
  negb (lc_resolves c && bytes_eqb (lc_resolved c) (lc_rundir c)).

(** * The time range *)
Definition range_case := (list Z * Z * Z)%type.                 (* instants, MinTime, MaxTime; in 1/1024 s *)
Definition range_unit : Z := 1024.
Definition range_model_bad (c : range_case) : bool :=
  let '(ts, lo, hi) := c in
  let '(mlo, mhi) := assemble_range range_unit ts in negb ((mlo =? lo) && (mhi =? hi)).
Definition range_oracle_bad (c : range_case) : bool :=
  let '(ts, lo, hi) := c in negb (forallb (fun t => (lo <=? t) && (t <=? hi)) ts).

(** * The artifact tree *)
(** A generated directory tree; what the REAL collectArtifacts lists for it
    (file paths, as lists of components); what is left after the REAL
    removeNonUploadableFiles. *)
Record tree_case := {
  tc_tree : list node;
  tc_has_other : bool;                (* the tree contains a fifo *)
  tc_listed : list (list bytes);
  tc_survived : list (list bytes);
}.
Definition path_in (p : list bytes) (l : list (list bytes)) : bool := existsb (list_eqb bytes_eqb p) l.
Definition same_paths (a b : list (list bytes)) : bool :=
  forallb (fun p => path_in p b) a && forallb (fun p => path_in p a) b.
Definition tree_model_bad (c : tree_case) : bool :=
  negb (same_paths (listed_in (tc_tree c)) (tc_listed c) && same_paths (surviving_in (tc_tree c)) (tc_survived c)).
(** Plain meaning: result.js names the files that are there afterwards, and
    all of them - fifos included. *)
Definition tree_oracle_bad (c : tree_case) : bool :=
  negb (same_paths (tc_listed c) (tc_survived c)).

(** * Two plays into one output directory *)
Record duo_case := {
  du_same_second : bool;        (* true: B is started within the second in which A started (A fouled, B clean);
                                   false: A clean, long, --clear; B starts 1.3 s later and ends first *)
  du_setup_ok : bool;           (* the timing was achieved (otherwise the case says nothing) *)
  du_exit_a : bool; du_exit_b : bool;      (* exit status <> 0 *)
  du_nruns : N;                 (* run directories under the output directory afterwards *)
  du_a_own : bool;              (* same second: A's directory holds A's artifacts, a result.js with Foul = true, and
                                   nothing of B's actor *)
  du_latest_to_b : bool;        (* overlap: latest resolves to B's run directory, which exists *)
  du_a_gone : bool;             (* overlap: A's run directory was erased *)
}.
Definition duo_ids (c : duo_case) : bytes * bytes :=
  if du_same_second c then (bs "1", bs "1") else (bs "1", bs "2").
Definition duo_model_bad (c : duo_case) : bool :=
  if negb (du_setup_ok c) then false else
  let st0 := {| od_alias := ANone; od_runs := [] |} in
  let '(a, b) := duo_ids c in
  match start_run a st0 with
  | None => true
  | Some sa =>
      match start_run b sa with
      | None =>       (* B refused; A (fouled) keeps everything *)
          negb (du_same_second c && du_exit_b c && du_exit_a c && (du_nruns c =? 1)%N && du_a_own c)
      | Some sb =>
          let fin := end_run a true sb in
          negb (negb (du_same_second c) && negb (du_exit_a c) && negb (du_exit_b c)
                && match alias_leads_to fin with Some x => bytes_eqb x b && du_latest_to_b c | None => false end
                && du_a_gone c && (du_nruns c =? 1)%N)
      end
  end.
(** Plain meaning: each run's results are its own; latest leads to the run
    directory of the run that made it last. *)
Definition duo_oracle_bad (c : duo_case) : bool :=
  if negb (du_setup_ok c) then false
  else if du_same_second c then negb (du_exit_a c && du_a_own c && (du_exit_b c || (2 <=? du_nruns c)%N))
  else negb (du_latest_to_b c && du_a_gone c && negb (du_exit_a c) && negb (du_exit_b c)).

(** * Plays *)
Record play_case := {
  pc_keep : bool; pc_clear : bool; pc_noplot : bool; pc_quiet : bool; pc_upload : bool;
  pc_fouled : bool;            (* the configuration is built to foul / not to foul *)
  pc_repeat : bool;            (* the script has a repeat section and the play gets that far *)
  pc_cwd : bytes; pc_datadir : bytes; pc_runid : bytes;
  pc_alias_before : option bytes;   (* text of <output-dir>/latest when the run started (an earlier run's), if any *)
  (* observed after the process has exited *)
  pc_exit_nonzero : bool;
  pc_stray : bool;             (* something appeared outside <output-dir>/<run id> and <output-dir>/latest *)
  pc_rundir_exists : bool;
  pc_artifacts_exist : bool;
  pc_latest_text : bytes;
  pc_latest_resolves : bool;   (* stat follows the link to the run directory *)
  pc_result_ok : bool;         (* result.js is `var result = ` followed by one JSON document *)
  pc_foul_flag : bool;
  pc_min : Z; pc_max : Z;      (* MinTime, MaxTime, nanoseconds *)
  pc_times : list Z;           (* every time of every row of csv/*.csv, nanoseconds *)
  pc_repeat_section : bool;    (* result.js has a Repeat section *)
  pc_artifacts_named_exist : bool;  (* every path of the artifact tree exists *)
  pc_plot_files_exist : bool;       (* every data file / loaded script named in plots/*.gp exists; a Repeat
                                       section comes with a lastplot.gp that runme.gp loads *)
  pc_plots_dir : bool;
  pc_survivors_named : bool;        (* every file left in the run directory (but index.html and upload.log,
                                       written later) is named in the artifact tree *)
}.

Definition pc_flags (c : play_case) : flags :=
  {| f_keep := pc_keep c; f_clear := pc_clear c; f_clear_given := pc_clear c;
     f_upload := pc_upload c; f_skip_plot := pc_noplot c |}.

Definition play_model_bad (c : play_case) : bool :=
  let e := run_end (pc_flags c) (pc_fouled c) no_mishap in
  let d := prepare_dirs (path_of_bytes (pc_datadir c)) (pc_runid c) in
  let w := path_of_bytes (pc_cwd c) in
  negb (Bool.eqb (e_exit_nonzero e) (pc_exit_nonzero c)
        && Bool.eqb (rundir_survives e) (pc_rundir_exists c)
        && Bool.eqb (artifacts_survive e) (pc_artifacts_exist c)
        && (negb (pc_rundir_exists c) ||
            (Bool.eqb (e_foul_flag e) (pc_foul_flag c)
             && Bool.eqb (path_eqb (latest_resolves_to w d) (abs_path w (d_run d))) (pc_latest_resolves c)
             && Bool.eqb (negb (pc_noplot c)) (pc_plots_dir c)
             && Bool.eqb (pc_repeat c) (pc_repeat_section c)))
        && match refresh_alias (match pc_alias_before c with
                                 | Some t => ALink (path_of_bytes t)
                                 | None => ANone
                                 end) d with
           | Some (ALink _) => bytes_eqb (link_text (pc_datadir c) (pc_runid c)) (pc_latest_text c)
           | _ => false
           end).

(** Which part of the plain meaning fails first (0: none). *)
Definition time_tolerance : Z := 50001.   (* csv prints times with 4 decimals *)
Definition play_oracle_code (c : play_case) : N :=
  let erased_expected := (pc_clear c || pc_upload c) && negb (pc_fouled c) in
  if pc_stray c then 1%N
  else if negb (Bool.eqb (pc_rundir_exists c) (negb erased_expected)) then 4%N
  else if negb (pc_rundir_exists c) then 0%N
  else if negb (pc_latest_resolves c) then 2%N
  else if negb (Bool.eqb (pc_artifacts_exist c) (pc_fouled c || pc_keep c)) then 3%N
  else if negb (pc_result_ok c) then 5%N
  else if negb (Bool.eqb (pc_foul_flag c) (pc_exit_nonzero c)) then 6%N
  else if negb (forallb (fun t => (pc_min c - time_tolerance <=? t) && (t <=? pc_max c + time_tolerance)) (pc_times c)) then 7%N
  else if negb (pc_artifacts_named_exist c) then 8%N
  else if negb (pc_plot_files_exist c) then 9%N
  else if negb (pc_survivors_named c) then 11%N
  else if negb (Bool.eqb (pc_exit_nonzero c) (pc_fouled c)) then 10%N
  else 0%N.
Definition play_oracle_bad (c : play_case) : bool := negb (play_oracle_code c =? 0)%N.
