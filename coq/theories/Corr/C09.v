(** Correspondence functions for C09 (and the shapes shared with C20): the
    case records the Go harness writes, [*_model_bad] (the model's outcome
    differs from what the implementation was observed to do) and
    [*_oracle_bad] (what the implementation did violates the property's plain
    meaning; written without the reader model: its own line splitter). *)
From Shk Require Import Base.Prelude Model.ParseSmall Model.Reader.
From Coq Require Import Uint63.
Open Scope Z_scope.

(** * Byte strings of the case files: packed 7 bytes per primitive integer
      (parsing one list cell per byte is the bottleneck of large case files).
      [U [n; w1; w2; ...]] is the string of [n] bytes whose bytes are the
      big-endian base-256 digits of w1, w2, ...  Kernel primitive integers are
      used for this decoding only; no theorem depends on them. *)
Definition byte_of_int (i : int) : byte :=
  match Byte.of_N (Z.to_N (Uint63.to_Z i)) with Some b => b | None => x00 end.

Definition unpack7 (w : int) : list byte :=
  [ byte_of_int (Uint63.land (Uint63.lsr w 48) 255);
    byte_of_int (Uint63.land (Uint63.lsr w 40) 255);
    byte_of_int (Uint63.land (Uint63.lsr w 32) 255);
    byte_of_int (Uint63.land (Uint63.lsr w 24) 255);
    byte_of_int (Uint63.land (Uint63.lsr w 16) 255);
    byte_of_int (Uint63.land (Uint63.lsr w 8) 255);
    byte_of_int (Uint63.land w 255) ].

Definition U (ws : list int) : list byte :=
  match ws with
  | [] => []
  | n :: tl => firstn (Z.to_nat (Uint63.to_Z n)) (flat_map unpack7 tl)
  end.

(** * Observations *)

Definition pos_t := (bs * Z)%type.

Inductive pobs :=
| PAccepted (pv : list (bs * bs))
| PRejected (cls : N) (pos : option pos_t) (chain : list pos_t) (names : list bs)
            (quoted : option bs) (chain_unparsed : bool)
| PPanicked
| PTimedOut.

Record parse_case := mkPC {
  pc_files : list (bs * bs);
  pc_dirs : list bs;
  pc_main : bs;
  pc_defs : list bs;
  pc_ip : list bs;
  pc_obs : pobs;
  pc_expect : option (N * pos_t * list pos_t)   (* the generator's knowledge: class, position, chain *)
}.

Definition pc_fs (c : parse_case) : fsys := {| fs_files := pc_files c; fs_dirs := pc_dirs c |}.

Definition pos_eqb (a b : pos_t) : bool := bytes_eqb (fst a) (fst b) && (snd a =? snd b).
Definition opos_eqb (a b : option pos_t) : bool :=
  match a, b with
  | Some x, Some y => pos_eqb x y
  | None, None => true
  | _, _ => false
  end.
Definition chain_eqb (a b : list pos_t) : bool := list_eqb pos_eqb a b.
Definition names_eqb (a b : list bs) : bool := list_eqb bytes_eqb a b.
Definition pv_eqb (a b : list (bs * bs)) : bool :=
  list_eqb (fun x y => bytes_eqb (fst x) (fst y) && bytes_eqb (snd x) (snd y)) a b.

(** Error classes of the harness (from the message text):
    1 read error, 2 EOF in continuation, 3 include depth, 4 undefined
    parameter, 5 include not found, 6 other open error, 7 anything else;
    without position: 20 main not found, 21 main not openable, 30 compile
    phase, 31 parse phase, 32 -D parsing. *)
Definition kind_ok (k : ekind) (cls : N) (names : list bs) : bool :=
  match k with
  | EReadError => (cls =? 1)%N
  | EEOFCont => (cls =? 2)%N
  | EDepth => (cls =? 3)%N
  | EUndefined ns => (cls =? 4)%N && names_eqb ns names
  | ENotFound => (cls =? 5)%N
  | EOpenError => (cls =? 6)%N
  | EClause => (cls =? 7)%N || (cls =? 4)%N
  | EClauseNoPos => (cls =? 31)%N
  | EMainNotFound => (cls =? 20)%N
  | EMainOpenError => (cls =? 21)%N
  end.

(** The judges used to replay an observation on the model: the unmodelled
    clause parsers accepted everything / rejected the logical line at the
    observed position (and accepted everything before it). *)
Definition accept_all : judge := fun _ => VAccept.
Definition reject_at (p : pos_t) (chain : list pos_t) : judge :=
  fun j =>
    match j_kind j with
    | JEnd | JStop => VAccept
    | _ => if bytes_eqb (j_file j) (fst p) && (j_lineno j =? snd p) && chain_eqb (j_chain j) chain
           then VReject else VAccept
    end.

Definition corr_fuel : nat := 6000.

(** The comparison is on what the property constrains — accepted / rejected,
    position, include chain — not on the wording of the message: the error
    class the harness derives from the message text ([cls], [names]) is only
    compared in [parse_kind_note], which never makes a violation. *)
Definition parse_model_bad (c : parse_case) : bool :=
  let run jd := parse_config corr_fuel (pc_fs c) (pc_ip c) (pc_defs c) (pc_main c) jd in
  match pc_obs c with
  | PPanicked | PTimedOut => true          (* the model never does, for any judge *)
  | PAccepted pv =>
      match run accept_all with
      | ROk st => negb (pv_eqb (ds_pv st) pv)
      | _ => true
      end
  | PRejected cls (Some p) chain names _ _ =>
      match run (reject_at p chain) with
      | RErr d => negb (opos_eqb (d_pos d) (Some p) && chain_eqb (d_chain d) chain)
      | _ => true
      end
  | PRejected cls None _ _ _ _ =>
      if ((cls =? 20) || (cls =? 21))%N then       (* newReader failed (phase, not wording) *)
        match run accept_all with
        | RErr d => match d_kind d with EMainNotFound | EMainOpenError => false | _ => true end
        | _ => true
        end
      else if (cls =? 30)%N then                    (* compile phase: parsing went through *)
        match run accept_all with ROk _ => false | _ => true end
      else false       (* an error of parseRole itself: the model cannot place it *)
  end.

(** Position and chain agree but the message class read off the text is not
    the model's kind: worth a note in the evidence (a reworded message does
    this), never a violation. *)
Definition parse_kind_note (c : parse_case) : bool :=
  match pc_obs c with
  | PRejected cls (Some p) chain names _ _ =>
      match parse_config corr_fuel (pc_fs c) (pc_ip c) (pc_defs c) (pc_main c) (reject_at p chain) with
      | RErr d => opos_eqb (d_pos d) (Some p) && chain_eqb (d_chain d) chain && negb (kind_ok (d_kind d) cls names)
      | _ => false
      end
  | _ => false
  end.

(** ** The property's plain meaning on an observation *)

(** Lines of a text, independently of the model: cut at every newline; a
    final piece without newline counts when it is not empty. *)
Fixpoint text_lines_aux (s : bs) (cur : bs) : list bs :=
  match s with
  | [] => match cur with [] => [] | _ => [rev cur] end
  | c :: tl => if Byte.eqb c x0a then rev cur :: text_lines_aux tl [] else text_lines_aux tl (c :: cur)
  end.
Definition text_lines (s : bs) : list bs := text_lines_aux s [].

Definition line_of (files : list (bs * bs)) (p : pos_t) : option bs :=
  match assoc_bs files (fst p) with
  | Some content =>
      if (1 <=? snd p) then nth_error (text_lines content) (Z.to_nat (snd p - 1)) else None
  | None => None
  end.

Fixpoint drop_blank (s : bs) : bs :=
  match s with
  | c :: tl => if Byte.eqb c x20 || Byte.eqb c x09 then drop_blank tl else s
  | [] => []
  end.

Definition kw_include_nosp : bs := [x69; x6e; x63; x6c; x75; x64; x65].

(** "that file and line exist in the input": a regular file of the input with
    at least that many lines — or, for the failed first read of a directory,
    that directory and line 1. *)
Definition position_exists (c : parse_case) (cls : N) (p : pos_t) : bool :=
  match line_of (pc_files c) p with
  | Some _ => true
  | None => existsb (bytes_eqb (fst p)) (pc_dirs c) && (snd p =? 1)
  end.

(** The logical line that starts with the first of these physical lines
    (terminators already removed): a line ending in a backslash goes on with
    the next one. *)
Fixpoint logical_from (ls : list bs) : bs :=
  match ls with
  | [] => []
  | l :: tl =>
      match rev l with
      | c :: r => if Byte.eqb c x5c then rev r ++ x0a :: logical_from tl else l
      | [] => l
      end
  end.

(** every entry of the chain is an existing line at which an include clause
    starts *)
Definition chain_entry_ok (c : parse_case) (p : pos_t) : bool :=
  match assoc_bs (pc_files c) (fst p), line_of (pc_files c) p with
  | Some content, Some _ =>
      has_prefix (trim_space (logical_from (skipn (Z.to_nat (snd p - 1)) (text_lines content)))) kw_include_nosp
  | _, _ => false
  end.

(** 0 = the observation satisfies the property; otherwise why not:
    1 panicked, 2 timed out, 3 the position named does not exist in the input,
    4 an entry of the include chain is not an existing include line, 5 the
    quoted line is not that line of that file, 6 a planted fault was reported
    elsewhere or with another include chain (the wording of the message is
    not looked at), 7 a planted fault was not
    reported at all, 8 the include chain of the diagnostic is unreadable, 9 a configuration the
    generator knows to be readable (expectation class 0: files made of titles,
    comments and resolvable includes nested at most ten deep) was refused. *)
Definition parse_oracle_code (c : parse_case) : N :=
  match pc_obs c with
  | PPanicked => 1
  | PTimedOut => 2
  | PAccepted _ => match pc_expect c with Some (ecls, _, _) => if (ecls =? 0) then 0 else 7 | None => 0 end
  | PRejected cls pos chain names quoted chain_unparsed =>
      if chain_unparsed then 8
      else
        let c1 :=
          match pos with
          | Some p =>
              if negb (position_exists c cls p) then 3
              else if negb (forallb (chain_entry_ok c) chain) then 4
              else match quoted, line_of (pc_files c) p with
                   | Some q, Some l => if bytes_eqb (trim_space q) (trim_space l) then 0 else 5
                   | _, _ => 0
                   end
          | None => 0
          end in
        if negb (c1 =? 0) then c1
        else match pc_expect c with
             | Some (ecls, epos, echain) =>
                 if (ecls =? 0) then 9        (* this configuration must be read through *)
                 else if opos_eqb pos (Some epos) && chain_eqb chain echain then 0 else 6
             | None => 0
             end
  end%N.

Definition parse_oracle_bad (c : parse_case) : bool := negb (parse_oracle_code c =? 0)%N.

(** * The reader alone *)

Definition cksum (s : bs) : N :=
  fold_left (fun a b => ((a * 131 + Byte.to_N b + 1) mod 4294967291)%N) s 0%N.
Definition ck_chain (ch : list pos_t) : N :=
  fold_left (fun a p => ((a * 1000003 + cksum (fst p) * 31 + Z.to_N (snd p) + 7) mod 4294967291)%N) ch 0%N.

Inductive read_end := REStop | REErr (o : pobs) | REPanic | RERunaway.

Record read_case := mkRC {
  rc_files : list (bs * bs);
  rc_dirs : list bs;
  rc_main : bs;
  rc_defs : list bs;
  rc_ip : list bs;
  rc_events : list (N * N * N * N);     (* cksum line, lineno, cksum file, ck_chain *)
  rc_end : read_end
}.

Definition digest (l : lline) : N * N * N * N :=
  (cksum (ll_line l), Z.to_N (ll_lineno l), cksum (ll_file l), ck_chain (ll_chain l)).

Definition ev_eqb (a b : N * N * N * N) : bool :=
  let '(a1, a2, a3, a4) := a in let '(b1, b2, b3, b4) := b in
  ((a1 =? b1) && (a2 =? b2) && (a3 =? b3) && (a4 =? b4))%N.

Definition read_model_bad (c : read_case) : bool :=
  let fs := {| fs_files := rc_files c; fs_dirs := rc_dirs c |} in
  match parse_defines (rc_defs c) with
  | Ok pv =>
      match open_main fs (rc_ip c) (rc_main c) with
      | ROk stk =>
          let '(ls, o) := read_all corr_fuel fs (rc_ip c) pv stk in
          negb (list_eqb ev_eqb (map digest ls) (rc_events c))
          || match o, rc_end c with
             | ROk _, REStop => false
             | RErr d, REErr (PRejected cls pos chain names _ _) =>
                 negb (opos_eqb (d_pos d) pos && chain_eqb (d_chain d) chain)
             | _, _ => true
             end
      | RErr d =>
          match rc_end c with
          | REErr (PRejected cls None _ _ _ _) => false
          | _ => true
          end
      | _ => true
      end
  | _ => true
  end.

Definition read_oracle_bad (c : read_case) : bool :=
  match rc_end c with
  | REPanic | RERunaway => true
  | _ => false
  end.

(** * The edit splitter: (script line, observation) with observation
      0 = no error at all, 1 = some error (whatever its text), 2 = panic or
      process death.  Later stages (regexp.Compile, the storyline check) may
      still refuse what the splitter lets through. *)
Definition edit_model_bad (c : bs * N) : bool :=
  let '(line, o) := c in
  match edit_of_line line with
  | None => negb (o =? 1)%N                      (* no edit clause: "unknown syntax" *)
  | Some cmd =>
      match edit_split cmd with
      | EditOk _ _ => negb ((o =? 0) || (o =? 1))%N
      | EditInvalid => negb (o =? 1)%N
      | EditPanic => negb (o =? 2)%N
      end
  end.
Definition edit_oracle_bad (c : bs * N) : bool := (snd c =? 2)%N.

(** * Scene shorthands: (the token written after `scene`, observation as
      above) for the clause `scene TOKEN mood starts red`, TOKEN one rune that
      the regexp class \S accepts or one byte. *)
Definition shorthand_model_bad (c : bs * N) : bool :=
  let '(tok, o) := c in
  match tok with
  | [b] => if re_space b then negb (o =? 1)%N     (* moodChangeRe does not match *)
           else match validate_shorthand (trim_space tok) with
                | ShOk _ => negb (o =? 0)%N
                | ShBadLength | ShBadClass => negb (o =? 1)%N
                | ShPanic => negb (o =? 2)%N
                end
  | _ => match validate_shorthand (trim_space tok) with
         | ShOk _ => negb (o =? 0)%N
         | ShBadLength | ShBadClass => negb (o =? 1)%N
         | ShPanic => negb (o =? 2)%N
         end
  end.
Definition shorthand_oracle_bad (c : bs * N) : bool := (snd c =? 2)%N.
