(** Correspondence functions for C20 (parameters and includes).  The parse
    cases are shared with C09 ([Corr.C09.parse_case]); this file adds the
    planted-parameter decision table, the direct preprocessing cases and the
    include-graph cases with the generator's reference reading order. *)
From Shk Require Import Base.Prelude Model.ParseSmall Model.Reader Corr.C09.
Open Scope Z_scope.

(** * `~p~` planted in one field of one clause *)
Record planted_case := mkPL {
  pl_subst : bool;        (* the manual lists the field among the substituted places *)
  pl_defined : bool;      (* p is defined (by -D, by a default, or both) *)
  pl_need_accept : bool;  (* the value of p was chosen to keep the configuration valid *)
  pl_kind : N;            (* 0 accepted, 1 rejected, 2 panicked, 3 timed out *)
  pl_cls : N;             (* message class when rejected (a note; not used by the oracle) *)
  pl_names_p : bool;      (* the diagnostic mentions ~p~ *)
  pl_pos_ok : bool;       (* the diagnostic is positioned at the planted line *)
  pl_same : bool;         (* same outcome (printed configuration / message) as the reference *)
  pl_ref_kind : N
}.

(** Reference of a substituted field: the same text with the winning value of
    p written out.  Reference of an untouched field: the same text with p not
    defined at all.  The plain meaning:
    - substituted, defined: identical to the reference (the value written
      out), and accepted when the value was chosen valid; keyword values
      (`unconstrained`, `always`, ...) need only read like the written-out text;
    - substituted, undefined: rejected at that line, naming ~p~;
    - untouched: identical to the reference whatever p is. *)
Definition planted_oracle_bad (c : planted_case) : bool :=
  if (2 <=? pl_kind c)%N then true
  else if pl_subst c then
    if pl_defined c then negb (pl_same c && ((pl_kind c =? 0)%N || negb (pl_need_accept c)))
    else negb ((pl_kind c =? 1)%N && pl_names_p c && pl_pos_ok c)    (* whatever the wording: rejected there, naming ~p~ *)
  else negb (pl_same c).

(** * parseDefines / `parameter` / preprocReplace directly *)
Record pp_case := mkPP {
  pp_defs : list bs;                       (* -D arguments *)
  pp_params : list (bs * bs);              (* `parameter N defaults to V` clauses, in order *)
  pp_pvars : list (bs * bs);               (* observed cfg.pVars in cfg.pVarNames order *)
  pp_results : list (bs * bs * list bs);   (* input, observed output, observed undefined names *)
  pp_panicked : bool
}.

Definition s_param_sp : bs := kw_parameter ++ [x20].
Definition s_defaults_to : bs := [x20] ++ kw_defaults ++ [x20] ++ kw_to ++ [x20].

Fixpoint model_params (pv : pvars) (ps : list (bs * bs)) : option pvars :=
  match ps with
  | [] => Some pv
  | (n, v) :: tl =>
      match param_match (trim_space (s_param_sp ++ n ++ s_defaults_to ++ v)) with
      | Some (n', v') => model_params (pv_define pv n' v') tl
      | None => None
      end
  end.

Definition pp_model_bad (c : pp_case) : bool :=
  if pp_panicked c then true else
  match parse_defines (pp_defs c) with
  | Ok pv0 =>
      match model_params pv0 (pp_params c) with
      | Some pv =>
          negb (pv_eqb pv (pp_pvars c))
          || existsb (fun r =>
                let '(s, out, names) := r in
                match preproc pv s with
                | PpOk o => negb (bytes_eqb o out && names_eqb names [])
                | PpUndefined ns => negb (names_eqb ns names)
                | PpPanic => true
                end) (pp_results c)
      | None => true
      end
  | _ => true
  end.

(** ** The plain meaning, written without the model's functions *)

(** name=value split at the first '=' *)
Fixpoint split_eq (d : bs) (acc : bs) : bs * bs :=
  match d with
  | [] => (rev acc, [])
  | c :: tl => if Byte.eqb c x3d then (rev acc, tl) else split_eq tl (c :: acc)
  end.

Fixpoint first_def (n : bs) (l : list (bs * bs)) : option bs :=
  match l with
  | [] => None
  | (k, v) :: tl => if bytes_eqb k n then Some v else first_def n tl
  end.

(** "-D wins over a default, the first definition wins among equals": the
    value of [n] is that of the first -D naming it, else of the first
    `parameter` clause naming it. *)
Definition expected_value (c : pp_case) (n : bs) : option bs :=
  match first_def n (map (fun d => split_eq d []) (pp_defs c)) with
  | Some v => Some v
  | None => first_def n (pp_params c)
  end.

Definition obs_value (c : pp_case) (n : bs) : option bs := first_def n (pp_pvars c).

Definition oval_eqb (a b : option bs) : bool :=
  match a, b with Some x, Some y => bytes_eqb x y | None, None => true | _, _ => false end.

Definition all_names (c : pp_case) : list bs :=
  map (fun d => fst (split_eq d [])) (pp_defs c) ++ map fst (pp_params c) ++ map fst (pp_pvars c).

(** A one-pass scanner for ~word~ occurrences (a state machine, unlike the
    model's match-and-skip): [cand] is the word collected since an opening
    tilde, reversed. *)
Definition word_byte (c : byte) : bool :=
  let n := Byte.to_N c in
  (((47 <? n) && (n <? 58)) || ((64 <? n) && (n <? 91)) || ((96 <? n) && (n <? 123)) || (n =? 95))%N.

Fixpoint scan (val : bs -> option bs) (s : bs) (cand : option bs) : bs * list bs :=
  match s with
  | [] => match cand with Some w => (x7e :: rev w, []) | None => ([], []) end
  | c :: tl =>
      match cand with
      | None =>
          if Byte.eqb c x7e then scan val tl (Some [])
          else let '(o, u) := scan val tl None in (c :: o, u)
      | Some w =>
          if word_byte c then scan val tl (Some (c :: w))
          else if Byte.eqb c x7e then
            match w with
            | [] => let '(o, u) := scan val tl (Some []) in (x7e :: o, u)     (* "~~": the second tilde may open *)
            | _ =>
                let name := rev w in
                let '(o, u) := scan val tl None in
                match val name with
                | Some v => (v ++ o, u)
                | None => ((x7e :: name ++ [x7e]) ++ o, (x7e :: name ++ [x7e]) :: u)
                end
            end
          else let '(o, u) := scan val tl None in ((x7e :: rev w) ++ c :: o, u)
      end
  end.

Definition pp_oracle_bad (c : pp_case) : bool :=
  pp_panicked c
  || existsb (fun n => negb (oval_eqb (expected_value c n) (obs_value c n))) (all_names c)
  || existsb (fun r =>
        let '(s, out, names) := r in
        let '(o, u) := scan (obs_value c) s None in
        match u with
        | [] => negb (bytes_eqb o out && names_eqb names [])
        | _ => negb (names_eqb u names)       (* the error names every undefined parameter *)
        end) (pp_results c).

(** * Include graphs: (parse case, the generator's reference reading order of
      the titles when it predicts acceptance, the observed titles) *)
Definition graph_case := (parse_case * option (list bs) * list bs * bool)%type.
(* the boolean: the same text with every included file written in place of
   its clause gave the same printed configuration / the same message *)

Definition model_titles (c : parse_case) (pv : pvars) : option (list bs) :=
  match open_main (pc_fs c) (pc_ip c) (pc_main c) with
  | ROk stk =>
      match read_all corr_fuel (pc_fs c) (pc_ip c) pv stk with
      | (ls, ROk _) =>
          Some (flat_map (fun l => match strip_prefix kw_title (ll_line l) with
                                   | Some t => [trim_space t]
                                   | None => []
                                   end) ls)
      | _ => None
      end
  | _ => None
  end.

Definition graph_model_bad (g : graph_case) : bool :=
  let '(c, _, titles, _) := g in
  parse_model_bad c
  || match pc_obs c with
     | PAccepted pv =>
         match model_titles c pv with
         | Some ts => negb (names_eqb ts titles)
         | None => true
         end
     | _ => false
     end.

Definition graph_oracle_bad (g : graph_case) : bool :=
  let '(c, expected, titles, splice_same) := g in
  parse_oracle_bad c
  || negb splice_same               (* include is not "as if its text stood in place of the clause" *)
  || match expected, pc_obs c with
     | Some ts, PAccepted _ => negb (names_eqb ts titles)
     | Some _, _ => true              (* the reference reads it through; the implementation refused *)
     | None, PAccepted _ => true      (* the reference refuses it; the implementation read it *)
     | None, _ => false
     end.
