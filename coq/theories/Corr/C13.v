(** Correspondence functions for C13.  The harness (harness/c13) generates a
    cast, has the REAL prepareDirs / prepareActionCommands / prepareScript
    write the scripts, and executes some of them with the real bash from a
    foreign directory and environment, directly or through another actor's
    script; the command of every probed script reports what it sees (current
    directory, environment, where descriptors 1 and 2 point and whether they
    are in append mode).
    - [cast_model_bad]: the scripts the model predicts differ from the files
      (byte for byte), or model and parser disagree on accepting the cast.
    - [exec_model_bad]: the state [exec_prefix] predicts differs from what the
      probe saw (this is what validates the mini-shell against bash).
    - [exec_oracle_bad]: what the probe saw violates the plain meaning of the
      property, stated without the model. *)
From Shk Require Import Base.Prelude Model.Dirs Model.Script.
From Coq Require Import Strings.String.

Record actor_obs := {
  ao_name : bytes;
  ao_workdir : bytes;
  ao_env : bytes;
  ao_scripts : list (bytes * bytes);      (* script name, text of the file *)
}.

(** One execution of a prepared script. *)
Record exec_obs := {
  eo_actor : bytes;                       (* whose script reports *)
  eo_script : bytes;                      (* its name *)
  eo_via : option (bytes * bytes);        (* invoked from this (actor, script)'s command *)
  eo_index : option N;                    (* the plain meaning's k, if the actor is the k-th of a multi-actor line *)
  eo_with : list (bytes * bytes * bool);  (* the definition's with clause: name, value, is the value a literal? *)
  eo_spotlight : bool;
  eo_caller_cwd : bytes;
  eo_caller_env : list (bytes * bytes);
  eo_caller_out : bytes;                  (* the file the harness gave as stdout and stderr *)
  (* what the command saw *)
  eo_ran : bool;                          (* the probe ran and the outermost script exited 0 *)
  eo_cwd : bytes;
  eo_env : list (bytes * bytes);
  eo_fd1 : bytes; eo_fd1_append : bool;
  eo_fd2 : bytes; eo_fd2_append : bool;
  eo_log_kept : bool;                     (* the line planted in <name>.log before the run is still its first line *)
  eo_streams_ok : bool;                   (* a spotlight run by a real play: its descriptors are the play's pipe, and a
                                             line of its stdout and a line of its stderr both reached the signal filters
                                             (true for everything else) *)
  eo_opaque : bool;                       (* the with clause (of the actor, or of the one it is invoked through) holds
                                             $(...), $((...)), an array or ( ... ): outside the mini-shell, no
                                             prediction; the oracle applies all the same *)
}.

Record cast_case := {
  cc_shell : bytes;
  cc_rundir : bytes;                      (* the run directory, absolute, as the harness asked for it *)
  cc_roles : list role_def;
  cc_cast : list actor_def;
  cc_rejected : bool;                     (* the real parser refused the configuration *)
  cc_actors : list actor_obs;
  cc_execs : list exec_obs;
}.

(** * Text *)
Definition pair_eqb (a b : bytes * bytes) : bool := bytes_eqb (fst a) (fst b) && bytes_eqb (snd a) (snd b).

Fixpoint all_in (a b : list (bytes * bytes)) : bool :=
  match a with
  | [] => true
  | x :: tl => existsb (pair_eqb x) b && all_in tl b
  end.
Definition same_pairs (a b : list (bytes * bytes)) : bool :=
  (List.length a =? List.length b)%nat && all_in a b && all_in b a.

(** The script file against the model's text, as far as the shell is
    concerned: the file must end with the user's command exactly as the model
    has it (bytes: it may hold here-documents and quoted multi-line strings),
    and the prologue the generator writes before it must be the model's line
    for line once full-line comments (first non-blank character #; the shebang
    line 1 is kept) and blank lines are dropped on both sides - a shell skips
    those.  The REAL file, comments included, is what bash executes in the
    execution cases. *)
Fixpoint lines_aux (cur : bytes) (l : bytes) : list bytes :=
  match l with
  | [] => match cur with [] => [] | _ => [rev cur] end
  | c :: tl => if Byte.eqb c x0a then rev cur :: lines_aux [] tl else lines_aux (c :: cur) tl
  end.
Fixpoint first_nonblank (l : bytes) : option byte :=
  match l with
  | [] => None
  | c :: tl => if Byte.eqb c x20 || Byte.eqb c x09 then first_nonblank tl else Some c
  end.
Definition skipped_by_shell (l : bytes) : bool :=
  match first_nonblank l with None => true | Some c => Byte.eqb c x23 end.
Definition canon_prologue (b : bytes) : list bytes :=
  match lines_aux [] b with
  | [] => []
  | l1 :: rest => l1 :: filter (fun l => negb (skipped_by_shell l)) rest
  end.
Definition script_matches (c : cast_case) (a : actor) (s : script) (o : bytes) : bool :=
  match strip_suffix (s_cmd s ++ [x0a]) o with
  | Some pro =>
      list_eqb bytes_eqb (canon_prologue pro)
                         (canon_prologue (render_lines (script_prefix (cc_shell c) (cc_rundir c) a s)))
  | None => false
  end.

Definition actor_text_ok (c : cast_case) (ma : bytes * actor) (o : actor_obs) : bool :=
  let a := snd ma in
  bytes_eqb (ao_name o) (a_name a) &&
  bytes_eqb (ao_workdir o) (work_dir (cc_rundir c) (a_name a)) &&
  bytes_eqb (ao_env o) (a_env a) &&
  (* script names are unique on both sides: same number, and every script of the model is there *)
  (List.length (ao_scripts o) =? List.length (actor_scripts a))%nat &&
  forallb (fun s => match alookup (s_name s) (ao_scripts o) with
                    | Some t => script_matches c a s t
                    | None => false
                    end) (actor_scripts a).

Fixpoint actors_text_ok (c : cast_case) (ms : list (bytes * actor)) (os : list actor_obs) : bool :=
  match ms, os with
  | [], [] => true
  | m :: ms', o :: os' => actor_text_ok c m o && actors_text_ok c ms' os'
  | _, _ => false
  end.

Definition cast_model_bad (c : cast_case) : bool :=
  match cast_of (cc_roles c) (cc_cast c) with
  | Ok actors => cc_rejected c || negb (actors_text_ok c actors (cc_actors c))
  | _ => negb (cc_rejected c)
  end.

(** * Execution *)
Definition volatile (n : bytes) : bool :=
  bytes_eqb n (bs "_") || bytes_eqb n (bs "SHLVL") || bytes_eqb n (bs "PROBE_OUT") || bytes_eqb n (bs "PROBE_DIR").

Definition env_sub (a b : list (bytes * bytes)) : bool :=
  forallb (fun nv => volatile (fst nv) ||
                     match alookup (fst nv) b with Some v => bytes_eqb v (snd nv) | None => false end) a.

Definition target_matches (t : target) (path : bytes) (append : bool) : bool :=
  match t with
  | TGiven tag => bytes_eqb tag path && negb append
  | TAppend f => bytes_eqb f path && append
  end.

Definition find_script (a : actor) (n : bytes) : option script :=
  find (fun s => bytes_eqb (s_name s) n) (actor_scripts a).

Definition prefix_of (c : cast_case) (actors : list (bytes * actor)) (an sn : bytes) : option (list bytes) :=
  match alookup an actors with
  | Some a => match find_script a sn with
              | Some s => Some (script_prefix (cc_shell c) (cc_rundir c) a s)
              | None => None
              end
  | None => None
  end.

Definition predicted_state (c : cast_case) (actors : list (bytes * actor)) (e : exec_obs) : option sh_state :=
  let st0 := start_state (eo_caller_cwd e) (eo_caller_env e) (TGiven (eo_caller_out e)) (TGiven (eo_caller_out e)) in
  match prefix_of c actors (eo_actor e) (eo_script e) with
  | None => None
  | Some inner =>
      match eo_via e with
      | None => exec_prefix st0 inner
      | Some (oa, os) =>
          match prefix_of c actors oa os with
          | None => None
          | Some outer =>
              match exec_prefix st0 outer with
              | Some so => exec_prefix (child_start so) inner
              | None => None
              end
          end
      end
  end.

Definition exec_model_bad1 (c : cast_case) (actors : list (bytes * actor)) (e : exec_obs) : bool :=
  if eo_opaque e then false else
  match predicted_state c actors e with
  | None => true
  | Some st =>
      negb (eo_ran e
            && bytes_eqb (cwd st) (eo_cwd e)
            && env_sub (env_of st) (eo_env e) && env_sub (eo_env e) (env_of st)
            && target_matches (out st) (eo_fd1 e) (eo_fd1_append e)
            && target_matches (err st) (eo_fd2 e) (eo_fd2_append e))
  end.

(** Indices (within the cast's executions) on which the prediction fails. *)
Definition exec_model_bad (c : cast_case) : bool :=
  match cast_of (cc_roles c) (cc_cast c) with
  | Ok actors => existsb (exec_model_bad1 c actors) (cc_execs c)
  | _ => match cc_execs c with [] => false | _ => true end
  end.

(** * The property's plain meaning, on what the command saw *)
Definition under (d p : bytes) : bool := strictly_inside (clean (path_of_bytes d)) (clean (path_of_bytes p)).

Fixpoint last_literal (n : bytes) (w : list (bytes * bytes * bool)) : option (bytes * bool) :=
  match w with
  | [] => None
  | (m, v, lit) :: tl =>
      match last_literal n tl with
      | Some r => Some r
      | None => if bytes_eqb n m then Some (v, lit) else None
      end
  end.

Definition with_ok (e : exec_obs) : bool :=
  forallb (fun nvl =>
    let n := fst (fst nvl) in
    match last_literal n (eo_with e) with
    | Some (v, true) => match alookup n (eo_env e) with Some x => bytes_eqb x v | None => false end
    | Some (_, false) => match alookup n (eo_env e) with Some _ => true | None => false end
    | None => true
    end) (eo_with e).

Definition assigned (n : bytes) (e : exec_obs) : bool :=
  match last_literal n (eo_with e) with Some _ => true | None => false end.

Definition exec_oracle_bad1 (c : cast_case) (e : exec_obs) : bool :=
  let wd := cc_rundir c ++ bs "/artifacts/" ++ eo_actor e in
  let log := wd ++ bs "/" ++ eo_script e ++ bs ".log" in
  negb (
    eo_ran e && eo_streams_ok e
    (* the actor's own working directory is the current directory *)
    && bytes_eqb (eo_cwd e) wd
    (* TMPDIR and HOME point inside the run directory (unless the with clause sets them itself) *)
    && (assigned (bs "TMPDIR") e || match alookup (bs "TMPDIR") (eo_env e) with Some t => under (cc_rundir c) t | None => false end)
    && (assigned (bs "HOME") e || match alookup (bs "HOME") (eo_env e) with Some h => under (cc_rundir c) h | None => false end)
    (* the with clause is exported *)
    && with_ok e
    (* i = k for the k-th of a multi-actor definition *)
    && match eo_index e with
       | Some k => assigned (bs "i") e ||
                   match alookup (bs "i") (eo_env e) with Some v => bytes_eqb v (itoa k) | None => false end
       | None => true
       end
    (* actions and cleanups append to <name>.log in that directory; a spotlight's output is left alone *)
    && (if eo_spotlight e then
          match eo_via e with
          | None => bytes_eqb (eo_fd1 e) (eo_caller_out e) && bytes_eqb (eo_fd2 e) (eo_caller_out e)
          | Some _ => negb (bytes_eqb (eo_fd1 e) log) && negb (bytes_eqb (eo_fd2 e) log)
          end
        else bytes_eqb (eo_fd1 e) log && bytes_eqb (eo_fd2 e) log
             && eo_fd1_append e && eo_fd2_append e && eo_log_kept e)).

Definition exec_oracle_bad (c : cast_case) : bool := existsb (exec_oracle_bad1 c) (cc_execs c).

(** For replays: which executions of a cast are bad. *)
Definition exec_oracle_bad_idx (c : cast_case) : list N := bad_indices (exec_oracle_bad1 c) (cc_execs c).
Definition exec_model_bad_idx (c : cast_case) : list N :=
  match cast_of (cc_roles c) (cc_cast c) with
  | Ok actors => bad_indices (exec_model_bad1 c actors) (cc_execs c)
  | _ => []
  end.
