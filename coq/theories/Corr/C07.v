(** Correspondence functions for C07: end-to-end fault injection.  One case =
    one play of the fixed 3-scene script (plus a 1 s act of empty columns) run
    through the real binary with one injected fault; the harness records the
    wall time, the exit status, the cleanup markers per actor, the action and
    spotlight markers, and the processes that still carried the play's marker
    variable after it exited.
    - [c07_oracle_mask]: the property's plain meaning on these observations;
    - [c07_model_bad]: the conductor LTS ([Model.Conduct]), run on the label
      sequence the fault stands for, does not predict whether the final cleanup
      ran / whether the status is zero. *)
From Shk Require Import Base.Prelude Model.Conduct Model.Prompt Corr.C04.
Open Scope Z_scope.

Record fcase := mkFcase {
  f_fault : N;            (* index in the harness' faultKinds table *)
  f_sig : N;              (* 0 none, 1 SIGINT, 2 SIGTERM *)
  f_exited : bool;        (* exited by itself within the bound (75 s) *)
  f_wall_ms : Z;
  f_exit : Z;             (* exit status; -signal if killed by a signal *)
  f_cleanups : list (list (Z * Z * Z * Z));   (* per actor: (n, start, end or -1, rc) *)
  f_actions : list (Z * Z);                   (* start, end or -1 *)
  f_spots : list Z;                           (* spotlight start markers *)
  f_sigsent : Z;          (* when the harness sent the signal; 0 = none *)
  f_mark : Z;             (* when the injected misbehaviour happened, by the command's own clock; -1 = n/a *)
  f_total_wait : Z;       (* sum over the acts of their last waitUntil: the play cannot end well earlier *)
  f_grace : Z;            (* when a spotlight's SIGHUP handler ran (its marker); -1 = no marker *)
  f_after_sig_ms : Z;     (* exit instant minus the instant of the (first) signal; -1 = no signal *)
  f_survivors : Z }.

Definition F_none := 0%N.           Definition F_action_fails := 1%N.
Definition F_spot_fails := 2%N.     Definition F_hup_leader := 3%N.
Definition F_hup_child := 4%N.      Definition F_hup_bg := 5%N.
Definition F_clean_fails_1 := 6%N.  Definition F_clean_fails_2 := 7%N.
Definition F_foul_S := 8%N.         Definition F_expr := 9%N.
Definition F_expr_S := 10%N.        Definition F_sigint := 11%N.
Definition F_sigterm := 12%N.
(* 13.. : a command that never ends by itself while the play is being stopped *)
Definition F_hang_act_sigint := 13%N.  Definition F_hang_clean_1 := 14%N.
Definition F_hang_act_peer := 15%N.    Definition F_hang_act_sigterm := 16%N.
Definition F_hang_clean_2 := 17%N.     Definition F_hang_act_spot := 18%N.
Definition F_hang_act_foul := 19%N.
Definition F_graceful := 20%N.
Definition F_foul_S_chatty := 21%N.
Definition F_sig_action := 22%N.        (* SIGINT / SIGTERM while a 3 s action runs, cast with spotlights *)
Definition F_sig_action_nospot := 23%N. (* ... cast without spotlights *)
Definition F_hup_leader_sig := 24%N.    (* a spotlight whose leader ignores SIGHUP, play ended by a signal *)
Definition F_sig_cleanup1 := 25%N.      (* SIGINT / SIGTERM while the initial cleanups (2 s) are running *)
Definition F_setsid := 26%N.            (* a spotlight's descendant in another session holds its output pipe *)
Definition F_two_sigints := 27%N.       (* a never-ending action, SIGINT, a second SIGINT 2 s later *)
Definition F_mood_foul_S := 29%N.       (* no actors, mood-only scenes 1 ms apart, 400 auditors fouled by the first, -S *)
Definition F_repeat_time := 30%N.       (* repeat from + finite repeat time + repeat always: ends by itself *)
Definition F_long_play_sig := 31%N.     (* SIGINT after the play has run for more than a minute *)
Definition F_read_stdin := 28%N.        (* shakespeare's stdin stays open; cleanups, actions, a spotlight read theirs *)   (* -S foul during a long action, chatty spotlight *)
Definition is_hang (f : N) : bool := (13 <=? f)%N && (f <=? 19)%N.

Definition rows_n (n : Z) (rows : list (Z * Z * Z * Z)) : list (Z * Z * Z * Z) :=
  filter (fun r => let '(m, _, _, _) := r in m =? n) rows.

Definition all_rows (c : fcase) : list (Z * Z * Z * Z) := concat (f_cleanups c).

Definition nothing_ran (c : fcase) : bool :=
  match all_rows c, f_actions c, f_spots c with [], [], [] => true | _, _, _ => false end.

(** every actor ran its cleanup the first time, exactly once *)
Definition first_phase_ok (c : fcase) : bool :=
  forallb (fun rows => Nat.eqb (length (rows_n 1 rows)) 1) (f_cleanups c).
(** ... and every one of them ended with status 0 *)
Definition first_phase_succeeded (c : fcase) : bool :=
  forallb (fun rows => match rows_n 1 rows with
                       | [(_, _, e, rc)] => (0 <=? e) && (rc =? 0)
                       | _ => false
                       end) (f_cleanups c).
(** the second time: exactly once per actor, to its end / not at all *)
Definition second_phase_complete (c : fcase) : bool :=
  forallb (fun rows => match rows_n 2 rows with
                       | [(_, _, e, _)] => 0 <=? e
                       | _ => false
                       end) (f_cleanups c).
Definition second_phase_absent (c : fcase) : bool :=
  forallb (fun rows => match rows_n 2 rows with [] => true | _ => false end) (f_cleanups c).
Definition no_third (c : fcase) : bool :=
  forallb (fun r => let '(n, _, _, _) := r in n <=? 2) (all_rows c).

Definition zmax_list (l : list Z) (d : Z) : Z := fold_left Z.max l d.
Definition zmin_list (l : list Z) (d : Z) : Z := fold_left Z.min l d.

(** order: no action or spotlight starts before every initial cleanup has
    ended; no final cleanup starts before every action has started and the
    ones that ended have ended. *)
Definition order_ok (c : fcase) : bool :=
  let big := 4000000000000000000 in
  let end1 := zmax_list (map (fun r => let '(_, _, e, _) := r in e) (rows_n 1 (all_rows c))) 0 in
  let start2 := zmin_list (map (fun r => let '(_, s, _, _) := r in s) (rows_n 2 (all_rows c))) big in
  forallb (fun a => (end1 <=? fst a) && (fst a <=? start2) && ((snd a <? 0) || (snd a <=? start2))) (f_actions c)
  && forallb (fun s => end1 <=? s) (f_spots c).

(** Is a non-zero status due?  Only when the observations themselves show
    that the misbehaviour happened well (0.5 s) before the play could possibly
    have ended by itself — the play cannot end successfully before
    [initial cleanups ended + total_wait]. *)
Definition natural_end (c : fcase) : Z :=
  zmax_list (map (fun r => let '(_, _, e, _) := r in e) (rows_n 1 (all_rows c))) 0 + f_total_wait c.
Definition in_time (c : fcase) (t : Z) : bool := (0 <? t) && (t + 500000000 <? natural_end c).

(** Where the status is due, and what it must be (true = zero). *)
Definition status_due (c : fcase) : option bool :=
  let f := f_fault c in
  if (f =? F_none)%N || (f =? F_hup_leader)%N || (f =? F_hup_child)%N || (f =? F_hup_bg)%N || (f =? F_graceful)%N
     || (f =? F_setsid)%N || (f =? F_read_stdin)%N then Some true
  else if (f =? F_action_fails)%N || (f =? F_clean_fails_1)%N || (f =? F_clean_fails_2)%N then Some false
  else if (f =? F_spot_fails)%N || (f =? F_foul_S)%N || (f =? F_expr)%N || (f =? F_expr_S)%N then
    (if in_time c (f_mark c) then Some false else None)
  else if (f =? F_sigint)%N then (if in_time c (f_sigsent c) then Some false else None)
  (* SIGTERM: unconstrained (mid-play it often yields 1, see the check's assumptions) *)
  else None.

Definition status_bad (c : fcase) : bool :=
  match status_due c with
  | Some z => negb (Bool.eqb z (f_exit c =? 0))
  | None => false
  end.

(** Bits: 1 did not exit within the bound; 2 a process of the play survived;
    4 initial cleanup not exactly once per actor; 8 final cleanup missing /
    repeated / run although the initial one failed; 16 order; 32 status;
    64 a spotlight that handles SIGHUP was not given the chance (the kill
    protocol is SIGHUP first, SIGKILL only after the 2 s grace). *)
Definition c07_oracle_mask (c : fcase) : N :=
  let killed_before_start := (f_exit c <? 0) && f_exited c && nothing_ran c && negb (f_sig c =? 0)%N in
  if (f_fault c =? F_two_sigints)%N then
    (* a second SIGINT during the shutdown ends the process at once (it re-raises the
       signal): nothing else can be asked of a forced exit.  "At once" against the one
       minute hard limit of a single signal: well within 32 s of the first signal. *)
    bit (negb (f_exited c) || (32000 <? f_after_sig_ms c)) 1%N
  else
  N.add (bit (negb (f_exited c)) 1%N)
 (N.add (bit ((f_fault c =? F_graceful)%N && f_exited c && (f_exit c =? 0) && (f_grace c <? 0)) 64%N)
 (N.add (bit (0 <? f_survivors c) 2%N)
  (if killed_before_start then 0%N else
  (N.add (bit (negb (first_phase_ok c)) 4%N)
  (N.add (bit (negb (no_third c) ||
               (if first_phase_succeeded c then negb (second_phase_complete c)
                else negb (second_phase_absent c) || negb (match f_actions c with [] => true | _ => false end))) 8%N)
  (N.add (bit (negb (order_ok c)) 16%N)
         (bit (status_bad c && f_exited c) 32%N))))))).

Definition c07_oracle_bad (c : fcase) : bool := negb (c07_oracle_mask c =? 0)%N.

(** ** The conductor model's prediction *)
Definition tail_ok : list label :=
  [LFin CS ENil; LPick CS; LFin CA ENil; LPick CA; LFin CK ENil; LPick CK].
Definition tail_cancelled (first : comp) : list label :=
  (* after a component other than the prompter was received first in stage 1 *)
  [LFinP false ECancel; LPick CP]
  ++ (match first with CS => [] | _ => [LFin CS ECancel] end) ++ [LPick CS]
  ++ (match first with CA => [] | _ => [LFin CA ECancel] end) ++ [LPick CA]
  ++ (match first with CK => [] | _ => [LFin CK ECancel] end) ++ [LPick CK]
  ++ [LPick CS; LPick CA; LPick CK].

Definition labels_of (f : N) : bool * list label :=
  if (f =? F_none)%N || (f =? F_hup_leader)%N || (f =? F_hup_child)%N || (f =? F_hup_bg)%N || (f =? F_graceful)%N then
    (false, [LCleanup1 true; LScene; LScene; LScene; LFinP true ENil; LPick CP] ++ tail_ok ++ [LDefer false; LCleanup2 true])
  else if (f =? F_action_fails)%N then
    (false, [LCleanup1 true; LScene; LFinP false EOther; LPick CP] ++ tail_ok ++ [LDefer false; LCleanup2 true])
  else if (f =? F_spot_fails)%N then
    (false, [LCleanup1 true; LScene; LFin CS EOther; LPick CS] ++ tail_cancelled CS ++ [LDefer false; LCleanup2 true])
  else if (f =? F_clean_fails_1)%N then (false, [LCleanup1 false])
  else if (f =? F_clean_fails_2)%N then
    (false, [LCleanup1 true; LScene; LScene; LScene; LFinP true ENil; LPick CP] ++ tail_ok ++ [LDefer false; LCleanup2 false])
  else if (f =? F_foul_S)%N || (f =? F_expr_S)%N || (f =? F_foul_S_chatty)%N || (f =? F_mood_foul_S)%N then
    (false, [LCleanup1 true; LScene; LFin CK EViol; LPick CK] ++ tail_cancelled CK ++ [LDefer true; LCleanup2 true])
  else if (f =? F_expr)%N then
    (false, [LCleanup1 true; LScene; LScene; LScene; LFinP true ENil; LPick CP;
             LFin CS ENil; LPick CS; LFin CA ENil; LPick CA; LFin CK EViol; LPick CK; LDefer true; LCleanup2 true])
  else if (f =? F_sigint)%N || (f =? F_sigterm)%N then
    (false, [LCleanup1 true; LScene; LQuiesce; LFinP false ENil; LPick CP] ++ tail_ok ++ [LDefer false; LCleanup2 true])
  else if (f =? F_sig_action)%N || (f =? F_sig_action_nospot)%N then
    (* the signal arrives while the prompter waits for an action: the spotlight manager
       (then the audition, the collector) reports nil AHEAD of the prompter; conduct notes
       it and keeps waiting (commit 19d275f), the prompter ends when the action does *)
    (false, [LCleanup1 true; LScene; LQuiesce; LFin CS ENil; LPick CS; LFin CA ENil; LPick CA;
             LFinP false ENil; LPick CP; LPick CS; LPick CA; LFin CK ENil; LPick CK; LDefer false; LCleanup2 true])
  else if (f =? F_sig_cleanup1)%N then
    (false, [LQuiesce; LCleanup1 true; LFinP false ENil; LPick CP] ++ tail_ok ++ [LDefer false; LCleanup2 true])
  else if (f =? F_long_play_sig)%N then
    (false, [LCleanup1 true; LScene; LQuiesce; LFinP false ENil; LPick CP] ++ tail_ok ++ [LDefer false; LCleanup2 true])
  else if (f =? F_setsid)%N || (f =? F_read_stdin)%N || (f =? F_repeat_time)%N then
    (false, [LCleanup1 true; LScene; LScene; LScene; LFinP true ENil; LPick CP] ++ tail_ok ++ [LDefer false; LCleanup2 true])
  else if (f =? F_two_sigints)%N then
    (true, [LCleanup1 true; LQuiesce; LFin CS ENil; LFin CA ENil; LFin CK ENil; LPick CS])
  else if (f =? F_hup_leader_sig)%N then
    (false, [LCleanup1 true; LScene; LQuiesce; LFinP false ENil; LPick CP] ++ tail_ok ++ [LDefer false; LCleanup2 true])
  else if (f =? F_hang_clean_1)%N then (false, [])
  else if (f =? F_hang_clean_2)%N then
    (false, [LCleanup1 true; LScene; LScene; LScene; LFinP true ENil; LPick CP] ++ tail_ok ++ [LDefer false])
  else if (f =? F_hang_act_sigint)%N || (f =? F_hang_act_sigterm)%N then
    (true, [LCleanup1 true; LQuiesce; LFin CS ENil; LFin CA ENil; LFin CK ENil; LPick CS])
  else if (f =? F_hang_act_foul)%N then
    (true, [LCleanup1 true; LFin CK EViol; LPick CK])
  else if (f =? F_hang_act_spot)%N then
    (true, [LCleanup1 true; LFin CS EOther; LPick CS])
  else (* F_hang_act_peer: the scene never ends: the prompter never terminates *)
    (true, [LCleanup1 true]).

(** (the labels are a run of the model, conduct returned, its error is nil, the final cleanup ran) *)
Definition predict (f : N) : bool * bool * bool * bool :=
  let '(h, ls) := labels_of f in
  match run (init h) ls with
  | None => (false, false, false, false)
  | Some s => (true, match returned s with Some _ => true | None => false end,
               match returned s with Some ENil => true | _ => false end, g_cl2 s)
  end.

Definition c07_model_bad (c : fcase) : bool :=
  let '(valid, ret, isnil, cl2) := predict (f_fault c) in
  let killed_before_start := (f_exit c <? 0) && nothing_ran c in
  (* a never-ending action counts as injected only if the ledger shows it started and did not end *)
  let not_injected := (is_hang (f_fault c) || (f_fault c =? F_two_sigints)%N) && negb (f_fault c =? F_hang_clean_1)%N && negb (f_fault c =? F_hang_clean_2)%N
                      && negb (existsb (fun a => snd a <? 0) (f_actions c)) in
  if killed_before_start || not_injected then false
  else negb valid
       || negb (Bool.eqb cl2 (second_phase_complete c))
       || (ret && f_exited c &&
           match status_due c with
           | Some _ => negb (Bool.eqb (isnil && negb (f_sig c =? 1)%N) (f_exit c =? 0))
           | None => false
           end).

(** ** The real runScene / prompt under a quiescing stopper (hook
    pkg/cmd/verif_c07.go; deterministic, no signal timing).
    kind 0: runScene on a scene of [s_nlines] lines with a stopper already
    quiescing; kind 1: prompt, the stopper quiescing exactly when the
    [s_k]-th non-empty scene (of [s_nscenes]) is announced; kind 2: runScene on
    [s_nlines] mood-only lines, nobody receiving from the audition channel, the
    context cancelled after 100 ms; kind 3: prompt on a mood-only play, the
    audition's stand-in receiving [s_k] events and then no more, the context
    cancelled (hook pkg/cmd/verif_c07_mood.go). *)
Record scase := mkScase {
  s_kind : N; s_k : N; s_nscenes : N; s_nlines : N;
  s_returned : bool;       (* the call returned within 20 s *)
  s_err : bool;            (* with a non-nil error *)
  s_fired : bool;          (* the quiesce request was injected *)
  s_elapsed_ms : Z }.

(** plain meaning: the call returns (the prompter is not wedged); a scene whose
    lines were all refused reports an error; the request was injected. *)
Definition c07_stop_oracle_bad (c : scase) : bool :=
  negb (s_returned c)
  || ((s_kind c =? 0)%N && negb (s_err c))
  || ((s_kind c =? 1)%N && (s_k c <=? s_nscenes c)%N && negb (s_fired c)).

(** the model: all lines refused; does the barrier open (counter 0, nothing running)? *)
Definition barrier_opens (nlines : N) : bool :=
  match wrun true wg_init (repeat (WLaunch LRefused) (N.to_nat nlines)) with
  | Some s => (wg_count s =? 0) && Nat.eqb (wg_running s) 0
  | None => false
  end.
Definition collect_reads (nlines : N) : bool :=
  (* the first mood-only line fails (cancelled while blocked) *)
  Nat.leb 1 (errch_at_collect true (SLMood true :: repeat (SLMood false) (N.to_nat nlines - 1))).
Definition c07_stop_model_bad (c : scase) : bool :=
  if (s_kind c <=? 1)%N then negb (Bool.eqb (barrier_opens (s_nlines c)) (s_returned c))
  else negb (Bool.eqb (collect_reads (s_nlines c)) (s_returned c)).
