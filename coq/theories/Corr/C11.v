(** Correspondence functions for C11: the case records the harness emits
    (direct calls of collectFns / evalFunctions, expressions through the real
    evaluator, collects / computes chains through the real audition), the
    comparison with Model/Functions.v, Model/Expr.v, Model/Audit.v, and the
    plain-meaning oracles, written independently of those models (selection
    instead of insertion, right folds instead of left folds, reverse instead
    of skipn). *)
From Shk Require Import Base.Prelude Model.Value Model.Functions Model.Expr Model.Fsm Model.Audit Corr.C02.
Open Scope list_scope.
Open Scope Q_scope.

(** * Independent vocabulary *)

Definition o_is_nil (v : value) : bool := match v with VNil => true | _ => false end.
Definition o_num (v : value) : option Q :=
  match v with VNum q => Some q | VBool true => Some (1 # 1) | VBool false => Some (0 # 1) | _ => None end.
Definition o_drop_nil (l : list value) : list value := filter (fun v => negb (o_is_nil v)) l.
Definition o_nums (l : list value) : list Q :=
  flat_map (fun v => match o_num v with Some q => [q] | None => [] end) l.
Definition o_bad_num (v : value) : bool := match v with VStr _ | VArr _ => true | _ => false end.

Definition q_lt (a b : Q) : bool := negb (Qle_bool b a).

Fixpoint remove_first {A} (p : A -> bool) (l : list A) : list A :=
  match l with [] => [] | x :: tl => if p x then tl else x :: remove_first p tl end.

(** Selection sort: repeatedly take out the FIRST best element (so equal
    elements leave in order of arrival: stable). *)
Fixpoint sel_sort (better : Q -> Q -> bool) (fuel : nat) (l : list Q) : list Q :=
  match fuel, l with
  | S f, x :: tl =>
      let m := fold_left (fun m y => if better y m then y else m) tl x in
      m :: sel_sort better f (remove_first (fun y => Qeq_bool y m) l)
  | _, _ => []
  end.
Definition o_sort_desc (l : list Q) : list Q := sel_sort (fun y m => q_lt m y) (List.length l) l.
Definition o_sort_asc (l : list Q) : list Q := sel_sort (fun y m => q_lt y m) (List.length l) l.

(** What a collected variable must hold after the (accepted, non-nil) values
    [vals], in order of arrival. *)
Definition spec_collect (m : amode) (n : nat) (vals : list value) : list value :=
  match m with
  | ASingle => []
  | AFirst => firstn n vals
  | ALast => rev (firstn n (rev vals))
  | ATop => map VNum (firstn n (o_sort_desc (o_nums vals)))
  | ABottom => map VNum (firstn n (o_sort_asc (o_nums vals)))
  end.

Definition rejects (m : amode) (x : value) : bool :=
  match m with ATop | ABottom => o_bad_num x | _ => false end.

(** * 1a. Direct calls of collectFns *)

Inductive cobs := CoArr (a : list value) | CoErr (unchanged : bool) | CoPanic.

Record collect_case := {
  cc_mode : amode;
  cc_n : nat;
  cc_xs : list value;          (* the values fed, one call each, the array threaded *)
  cc_obs : list cobs;          (* what each call returned *)
  cc_alias_ok : bool;          (* no array returned earlier was modified by a later call *)
}.

Definition arr_close (a b : list value) : bool := value_close (VArr a) (VArr b).

Definition cobs_eqb (x y : cobs) : bool :=
  match x, y with
  | CoArr a, CoArr b => arr_close a b
  | CoErr u, CoErr v => Bool.eqb u v
  | CoPanic, CoPanic => true
  | _, _ => false
  end.

Fixpoint collect_run (m : amode) (n : nat) (a : list value) (xs : list value) : list cobs :=
  match xs with
  | [] => []
  | x :: tl => match collect m a n x with
               | COk r => CoArr r :: collect_run m n r tl
               | CErr => CoErr true :: collect_run m n a tl
               | CPanic => [CoPanic]
               end
  end.

Definition collect_model_bad (k : collect_case) : bool :=
  negb (list_eqb cobs_eqb (collect_run (cc_mode k) (cc_n k) [] (cc_xs k)) (cc_obs k)).

Fixpoint collect_oracle_ok (m : amode) (n : nat) (seen : list value) (xs : list value) (obs : list cobs) : bool :=
  match xs, obs with
  | [], [] => true
  | x :: xs', o :: obs' =>
      if rejects m x
      then match o with CoErr true => collect_oracle_ok m n seen xs' obs' | _ => false end
      else let seen' := if o_is_nil x then seen else seen ++ [x] in
           match o with
           | CoArr a => arr_close a (spec_collect m n seen') && collect_oracle_ok m n seen' xs' obs'
           | _ => false
           end
  | _, _ => false
  end.

Definition collect_oracle_bad (k : collect_case) : bool :=
  negb (collect_oracle_ok (cc_mode k) (cc_n k) [] (cc_xs k) (cc_obs k) && cc_alias_ok k).

(** * 1b. Direct calls of evalFunctions *)

Inductive fobs := FoVal (v : value) | FoErr | FoPanic.

Record fn_case := { fc_name : string; fc_args : list value; fc_obs : fobs }.

Definition fn_model_bad (k : fn_case) : bool :=
  match apply_fn (fc_name k) (fc_args k), fc_obs k with
  | FOk v, FoVal w => negb (value_close v w)
  | FErr, FoErr => false
  | FUnknown, _ => false                       (* not modelled (ndiff, log, sqrt): ndiff is judged by the oracle only *)
  | _, _ => true
  end.

(** sortArray's order, independently: a key per element. *)
Definition o_rank (v : value) : nat := match v with VNil => 0 | VNum _ | VBool _ => 1 | VStr _ => 2 | VArr _ => 3 end.
Definition o_before (x y : value) : bool :=          (* x must stand strictly before y *)
  if Nat.ltb (o_rank x) (o_rank y) then true
  else if Nat.ltb (o_rank y) (o_rank x) then false
  else match o_num x, o_num y, x, y with
       | Some a, Some b, _, _ => q_lt a b
       | _, _, VStr a, VStr b => match String.compare a b with Lt => true | _ => false end
       | _, _, _, _ => false
       end.
Fixpoint o_vsel (fuel : nat) (l : list value) : list value :=
  match fuel, l with
  | S f, x :: tl =>
      let m := fold_left (fun m y => if o_before y m then y else m) tl x in
      m :: o_vsel f (remove_first (fun y => negb (o_before y m) && negb (o_before m y)) l)
  | _, _ => []
  end.
Definition o_vsort (l : list value) : list value := o_vsel (List.length l) l.

Definition o_sum (l : list Q) : Q := fold_right Qplus 0 l.
Definition o_min (l : list Q) : option Q :=
  match l with [] => None | x :: tl => Some (fold_right (fun y m => if Qle_bool y m then y else m) x tl) end.
Definition o_max (l : list Q) : option Q :=
  match l with [] => None | x :: tl => Some (fold_right (fun y m => if Qle_bool m y then y else m) x tl) end.
Definition o_med (l : list Q) : option Q :=
  let s := o_sort_asc l in
  let n := List.length s in
  match n with
  | O => None
  | _ => if Nat.even n
         then match nth_error s (Nat.div2 n - 1), nth_error s (Nat.div2 n) with
              | Some a, Some b => Some ((a + b) * (1 # 2))
              | _, _ => None
              end
         else nth_error s (Nat.div2 n)
  end.
Definition o_floor (x : Q) : Q := inject_Z (Qnum x / Zpos (Qden x)).
Definition o_abs (x : Q) : Q := if Qle_bool 0 x then x else - x.
Definition o_round (x : Q) : Q :=
  if Qle_bool 0 x then o_floor (x + (1 # 2)) else - o_floor (- x + (1 # 2)).

Definition num_or_nil_o (o : option Q) : fobs := match o with Some q => FoVal (VNum q) | None => FoVal VNil end.

Definition str_in (s : string) (l : list string) : bool := existsb (String.eqb s) l.

(** The statement's letter: every array function works over the NON-NIL
    elements ([count_nil = false]); with [count_nil = true], count / first /
    last / sorted see nil elements too (what the code does). *)
Definition spec_fn (count_nil : bool) (name : string) (args : list value) : option fobs :=
  let xs := if count_nil then args else o_drop_nil args in
  let numeric (f : list Q -> fobs) : option fobs :=
      Some (if existsb o_bad_num args then FoErr else f (o_nums args)) in
  let scalar (f : Q -> Q) : option fobs :=
      Some (match args with
            | [] | [VNil] => FoVal VNil
            | [VNum x] => FoVal (VNum (f x))
            | _ => FoErr
            end) in
  if String.eqb name "count" then Some (FoVal (VNum (inject_Z (Z.of_nat (List.length xs)))))
  else if String.eqb name "first" then Some (FoVal (hd VNil xs))
  else if String.eqb name "last" then Some (FoVal (hd VNil (rev xs)))
  else if String.eqb name "sorted" then Some (FoVal (match xs with [] => VNil | _ => VArr (o_vsort xs) end))
  else if String.eqb name "sum" then numeric (fun l => match l with [] => FoVal VNil | _ => FoVal (VNum (o_sum l)) end)
  else if str_in name ["avg"; "average"]%string then
    numeric (fun l => match l with [] => FoVal VNil
                              | _ => FoVal (VNum (o_sum l / inject_Z (Z.of_nat (List.length l)))) end)
  else if str_in name ["med"; "median"]%string then numeric (fun l => num_or_nil_o (o_med l))
  else if String.eqb name "min" then numeric (fun l => num_or_nil_o (o_min l))
  else if String.eqb name "max" then numeric (fun l => num_or_nil_o (o_max l))
  else if String.eqb name "abs" then scalar o_abs
  else if String.eqb name "floor" then scalar o_floor
  else if String.eqb name "ceil" then scalar (fun x => - o_floor (- x))
  else if String.eqb name "round" then scalar o_round
  else if str_in name ["ndiff"; "normalized_difference"]%string then
    (* the distance to the reference (second argument), relative to the
       reference's size: never negative; no statement for a zero reference *)
    match args with
    | [VNil; _] | [_; VNil] => Some (FoVal VNil)
    | [VNum x; VNum y] => if Qeq_bool y 0 then None
                          else Some (FoVal (VNum (o_abs (x - y) / o_abs y)))
    | _ => Some FoErr
    end
  else None.

Definition fobs_agree (a b : fobs) : bool :=
  match a, b with
  | FoVal v, FoVal w => value_close v w
  | FoErr, FoErr => true
  | _, _ => false
  end.

(** 0 fine; 1 wrong only because nil elements of the argument array were
    counted / returned (agrees with the nil-counting reading); 2 wrong. *)
Definition fn_oracle_code (k : fn_case) : N :=
  match spec_fn false (fc_name k) (fc_args k) with
  | None => 0
  | Some e =>
      if fobs_agree e (fc_obs k) then 0
      else match spec_fn true (fc_name k) (fc_args k) with
           | Some e' => if fobs_agree e' (fc_obs k) then 1 else 2
           | None => 2
           end
  end%N.

(** * 1c. Expressions through the real evaluator *)

Inductive eobs := EoVal (v : value) | EoErr | EoPanic.

Record expr_case := {
  ec_expr : expr;
  ec_env : list (var * value);
  ec_obs : eobs;
  ec_model : bool;              (* compare with Model/Expr.v's eval *)
}.

Definition env_of_list (l : list (var * value)) : env := fun x => lookup_val x l.

Definition expr_model_bad (k : expr_case) : bool :=
  if ec_model k then
    match eval (env_of_list (ec_env k)) (ec_expr k), ec_obs k with
    | EV v, EoVal w => negb (value_close v w)
    | EErr, EoErr => false
    | _, _ => true
    end
  else false.

(** The evaluator again, over a given function table (the operators are
    Model/Expr.v's; the argument list is govaluate's: separator operator,
    a single array argument spread, a single nil argument dropped). *)
Fixpoint eval_with (F : string -> list value -> option fobs) (rho : env) (e : expr) : eres :=
  match e with
  | EConst v => EV v
  | EVar x => EV (rho x)
  | ENot a => match eval_with F rho a with EV (VBool b) => EV (VBool (negb b)) | _ => EErr end
  | ENeg a => match eval_with F rho a with EV (VNum q) => EV (VNum (- q)) | _ => EErr end
  | EBin o a b =>
      match eval_with F rho a with
      | EErr => EErr
      | EV l =>
          match o, l with
          | OAnd, VBool false => EV (VBool false)
          | OOr, VBool true => EV (VBool true)
          | _, _ => match eval_with F rho b with
                    | EErr => EErr
                    | EV r => bin_apply o l r
                    end
          end
      end
  | ECall f args =>
      let fix evs (l : list expr) : option (list value) :=
          match l with
          | [] => Some []
          | a :: tl => match eval_with F rho a, evs tl with
                       | EV v, Some r => Some (v :: r)
                       | _, _ => None
                       end
          end in
      match evs args with
      | None => EErr
      | Some vs =>
          let flat := match vs with
                      | [] => []
                      | [VArr a] => a
                      | [VNil] => []
                      | [v] => [v]
                      | v1 :: v2 :: tl => match fold_left sep tl (sep v1 v2) with VArr a => a | _ => [] end
                      end in
          match F f flat with
          | Some (FoVal v) => EV v
          | _ => EErr
          end
      end
  end.

Definition eobs_agree (r : eres) (o : eobs) : bool :=
  match r, o with
  | EV v, EoVal w => value_close v w
  | EErr, EoErr => true
  | _, _ => false
  end.

Definition expr_oracle_code (k : expr_case) : N :=
  (if eobs_agree (eval_with (spec_fn false) (env_of_list (ec_env k)) (ec_expr k)) (ec_obs k) then 0
   else if eobs_agree (eval_with (spec_fn true) (env_of_list (ec_env k)) (ec_expr k)) (ec_obs k) then 1
   else 2)%N.

(** * 1d. Direct calls of processAssignments *)

(** What the real evaluator says a clause's expression is worth on the inputs
    of a step: not evaluated (an input it mentions was not set in this step),
    a value, an evaluation error. *)
Inductive pval := PNot | PVal (v : value) | PErr.

Record astep := {
  st_in : list (var * value);       (* inputs set and activated before the run; the other inputs are de-activated *)
  st_status : Z;                    (* 0 ran, 1 error, 2 panic *)
  st_vals : list (var * value);     (* the targets' values afterwards *)
  st_act : list (var * bool);       (* the targets' activation flags afterwards *)
  st_produced : list pval;          (* one per clause (flat cases only) *)
}.

Record assign_case := {
  as_cfg : acfg;
  as_inputs : list var;
  as_clauses : list assignment;
  as_steps : list astep;
  as_flat : bool;                   (* every expression mentions inputs only *)
}.

Definition enter_step (c : acfg) (s : st) (inputs : list var) (present : list (var * value)) : st :=
  let s0 := {| s_mood := s_mood s; s_mood_start := s_mood_start s; s_vals := s_vals s;
               s_act := filter (fun x => negb (mem_var x inputs)) (s_act s); s_ms := s_ms s |} in
  fold_left (fun s '(x, v) => fst (set_var c s x v 0)) present s0.

Fixpoint assign_model_ok (c : acfg) (inputs : list var) (clauses : list assignment) (s : st)
         (steps : list astep) (i : nat) : bool :=
  match steps with
  | [] => true
  | stp :: tl =>
      let s1 := enter_step c s inputs (st_in stp) in
      let '(s2, _, stt) := do_assigns c s1 (inject_Z (Z.of_nat i)) clauses in
      Z.eqb (status_code stt) (st_status stp)
      && forallb (fun '(x, v) => value_close (lookup_val x (s_vals s2)) v) (st_vals stp)
      && forallb (fun '(x, b) => Bool.eqb (mem_var x (s_act s2)) b) (st_act stp)
      && assign_model_ok c inputs clauses s2 tl (S i)
  end.

Definition assign_model_bad (k : assign_case) : bool :=
  negb (assign_model_ok (as_cfg k) (as_inputs k) (as_clauses k) (init_st (as_cfg k)) (as_steps k) 0).

(** The oracle: per clause the accepted non-nil values so far.  A clause is
    evaluated when its inputs are fresh and no earlier clause of this run
    failed; nil is skipped; a refused value or an evaluation error stops the
    run. *)
Fixpoint assign_oracle_step (cls : list (assignment * list value)) (ps : list pval) (aborted : bool)
  : list (assignment * list value) * bool :=
  match cls, ps with
  | (a, seen) :: ctl, p :: ptl =>
      if aborted then let '(r, ab) := assign_oracle_step ctl ptl true in ((a, seen) :: r, ab) else
      match p with
      | PNot => let '(r, ab) := assign_oracle_step ctl ptl false in ((a, seen) :: r, ab)
      | PErr => let '(r, ab) := assign_oracle_step ctl ptl true in ((a, seen) :: r, ab)
      | PVal v =>
          if rejects (as_mode a) v
          then let '(r, ab) := assign_oracle_step ctl ptl true in ((a, seen) :: r, ab)
          else let '(r, ab) := assign_oracle_step ctl ptl false in
               ((a, if o_is_nil v then seen else seen ++ [v]) :: r, ab)
      end
  | _, _ => (cls, aborted)
  end.

Definition expected_target (a : assignment) (seen : list value) : value :=
  match as_mode a with
  | ASingle => hd VNil (rev seen)
  | m => VArr (spec_collect m (as_n a) seen)
  end.

Fixpoint assign_oracle_ok (cls : list (assignment * list value)) (steps : list astep) : bool :=
  match steps with
  | [] => true
  | stp :: tl =>
      let '(cls', ab) := assign_oracle_step cls (st_produced stp) false in
      Z.eqb (st_status stp) (if ab then 1 else 0)
      && forallb (fun '(a, seen) =>
                    value_close (expected_target a seen) (lookup_val (""%string, as_target a) (st_vals stp))) cls'
      && assign_oracle_ok cls' tl
  end.

Definition assign_oracle_bad (k : assign_case) : bool :=
  if as_flat k
  then negb (assign_oracle_ok (map (fun a => (a, [])) (as_clauses k)) (as_steps k))
  else existsb (fun stp => Z.eqb (st_status stp) 2) (as_steps k).

(** * 2. Chains of collects / computes through the real audition *)

(** One variable whose expression mentions signals only: the harness's own
    evaluator recorded, for every signal round in which the expression's
    signals (and the signal of the owner's activation condition, if any) were
    all sampled, the value the expression takes: (round index, value). *)
Record vspec := {
  v_var : string;
  v_owner : string;
  v_mode : amode;
  v_n : nat;
  v_produced : list (nat * value);
}.

Record chain_case := {
  h_aud : aud_case;
  h_vals : list (var * value);       (* final values (the hook's Vals map), t / mood / moodt left out *)
  h_specs : list vspec;
  h_may_abort : bool;                (* a string can reach a top / bottom clause *)
  h_watched : list string;           (* computed / collected variables with a watcher: every change is observed *)
}.

Definition chain_model_bad (h : chain_case) : bool :=
  case_model_bad (h_aud h) ||
  let '(_, s, _) := run_audition (k_cfg (h_aud h)) (k_events (h_aud h)) in
  negb (forallb (fun '(x, v) => value_close (lookup_val x (s_vals s)) v) (h_vals h)).

(** What the variable must be after the produced values [vals] (those of the
    rounds in which its auditor was active), [None] when one of them is
    refused (a string for top / bottom: the audition stops). *)
Definition spec_final (m : amode) (n : nat) (vals : list value) : option value :=
  match m with
  | ASingle => Some (hd VNil (rev (o_drop_nil vals)))
  | _ => if existsb (rejects m) vals then None
         else Some (VArr (spec_collect m n (o_drop_nil vals)))
  end.

Definition shape_of (k : aud_case) (a : string) : cond_shape :=
  match find (fun '(b, _) => String.eqb a b) (k_shapes k) with Some (_, sh) => sh | None => COther end.

Definition obs_of_var (k : aud_case) (x : var) : list (nat * value) :=
  flat_map (fun '(i, o) => match o with
                           | IObs y v => if var_eqb x y then [(i, v)] else []
                           | _ => []
                           end) (tag_round (k_coll k)).

(** bit 1: final value of a collected / computed variable is not the first /
    last / top / bottom N (the latest non-nil) of the values produced while
    its auditor was active; 2: an observed intermediate value is not; 4: a
    variable's final value differs from its last observed assignment (it
    changed without being assigned); 8: crash; 16: the audition stopped on an
    error although no string can reach a top / bottom clause; 32: the same
    value observed twice in a row (it was changed in between without being
    assigned). *)
Definition vspec_code (h : chain_case) (sp : vspec) : N :=
  let k := h_aud h in
  match expected_for (shape_of k (v_owner sp)) (k_events k) with
  | None => 0
  | Some js =>
      let ps := periods_of js in
      let act := filter (fun '(i, _) => in_some_period ps i) (v_produced sp) in
      let x := (""%string, v_var sp) in
      ((if Z.eqb (k_status k) 0
        then match spec_final (v_mode sp) (v_n sp) (map snd act) with
             | Some v => if value_close v (lookup_val x (h_vals h)) then 0 else 1
             | None => 1
             end
        else 0)
       + (if forallb (fun '(i, v) =>
                        match spec_final (v_mode sp) (v_n sp)
                                (map snd (filter (fun '(j, _) => Nat.leb j i) act)) with
                        | Some e => value_close e v
                        | None => true
                        end) (obs_of_var k x)
          then 0 else 2))%N
  end.

Fixpoint repeats_itself (l : list (nat * value)) : bool :=
  match l with
  | (_, v) :: (((_, w) :: _) as tl) => value_eqb v w || repeats_itself tl
  | _ => false
  end.

(** Observations of a computed / collected variable are made when an
    assignment CHANGES it: the final value must be the last observed one
    (bit 4), and no two consecutive observations may be equal (bit 32) —
    otherwise the stored value changed without an assignment. *)
Definition kept_code (h : chain_case) (w : string) : N :=
  let x := (""%string, w) in
  let obs := obs_of_var (h_aud h) x in
  ((match rev obs with
    | (_, v) :: _ => if value_close v (lookup_val x (h_vals h)) then 0 else 4
    | [] => 0
    end)
   + (if repeats_itself obs then 32 else 0))%N.

Definition chain_oracle_code (h : chain_case) : N :=
  let k := h_aud h in
  (fold_left N.lor (map (vspec_code h) (h_specs h)) 0
   + fold_left N.lor (map (kept_code h) (h_watched h)) 0
   + (if Z.eqb (k_status k) 2 then 8 else 0)
   + (if Z.eqb (k_status k) 1 && negb (h_may_abort h) then 16 else 0))%N.
