(** Correspondence functions for C10: the shape of the cases the Go harness
    writes (the clause list it generated, the oracle tables computed by the
    real libraries, and what the real reader + parser + printer did), the
    comparison of those observations with the model ([*_model_bad]) and the
    property's plain meaning evaluated on the implementation's observations
    alone ([case_oracle_bad]: no function of Model/Config.v's builder is
    used, only the clause type and the equality up to the order of one
    observer's `watches`). *)
From Coq Require Import String.
From Shk Require Import Base.Prelude Model.Storyline Model.Config.
Open Scope Z_scope.

(** * Compact literals for the case files: ["..."%wb] is a byte list (a
    string literal elaborates to [W [x..; ...]], three nodes per byte; the
    standard [string] notation costs ten). *)
Inductive wb := W (l : list byte).
Definition unW (w : wb) : list byte := match w with W l => l end.
Declare Scope wb_scope.
Delimit Scope wb_scope with wb.
String Notation wb W unW : wb_scope.
Definition bq (w : wb) : bytes := unW w.

(** * Boolean equalities on clauses *)
Definition obytes_eqb (a b : option bytes) : bool :=
  match a, b with
  | None, None => true
  | Some x, Some y => bytes_eqb x y
  | _, _ => false
  end.

Definition role_line_eqb (a b : role_line) : bool :=
  match a, b with
  | RAction n c, RAction n' c' => bytes_eqb n n' && bytes_eqb c c'
  | RSpotlight c, RSpotlight c' => bytes_eqb c c'
  | RCleanup c, RCleanup c' => bytes_eqb c c'
  | RSignal n t r, RSignal n' t' r' => bytes_eqb n n' && bytes_eqb t t' && bytes_eqb r r'
  | _, _ => false
  end.

Definition target_eqb (a b : target) : bool :=
  match a, b with
  | TActor x, TActor y => bytes_eqb x y
  | TEvery x, TEvery y => bytes_eqb x y
  | _, _ => false
  end.

Definition clause_eqb (a b : clause) : bool :=
  match a, b with
  | CTitle x, CTitle y => bytes_eqb x y
  | CAuthor x, CAuthor y => bytes_eqb x y
  | CAttention x, CAttention y => bytes_eqb x y
  | CParam n v, CParam n' v' => bytes_eqb n n' && bytes_eqb v v'
  | CRole n e l, CRole n' e' l' => bytes_eqb n n' && obytes_eqb e e' && list_eqb role_line_eqb l l'
  | CCast a s m r e, CCast a' s' m' r' e' =>
      bytes_eqb a a' && Bool.eqb s s' && obytes_eqb m m' && bytes_eqb r r' && bytes_eqb e e'
  | CTempo x, CTempo y => bytes_eqb x y
  | CEntails c t l, CEntails c' t' l' => bytes_eqb c c' && target_eqb t t' && list_eqb bytes_eqb l l'
  | CMoodStart c m, CMoodStart c' m' => bytes_eqb c c' && bytes_eqb m m'
  | CMoodEnd c m, CMoodEnd c' m' => bytes_eqb c c' && bytes_eqb m m'
  | CStoryline x, CStoryline y => bytes_eqb x y
  | CEdit p r, CEdit p' r' => bytes_eqb p p' && bytes_eqb r r'
  | CRepeatFrom x, CRepeatFrom y => bytes_eqb x y
  | CRepeatCount x, CRepeatCount y => bytes_eqb x y
  | CRepeatAlways, CRepeatAlways => true
  | CRepeatTime x, CRepeatTime y => bytes_eqb x y
  | CWatches m t g, CWatches m' t' g' => bytes_eqb m m' && target_eqb t t' && bytes_eqb g g'
  | CWatchVar m v, CWatchVar m' v' => bytes_eqb m m' && bytes_eqb v v'
  | CMeasures m l, CMeasures m' l' => bytes_eqb m m' && bytes_eqb l l'
  | COnlyHelps m, COnlyHelps m' => bytes_eqb m m'
  | CAudits m e, CAudits m' e' => bytes_eqb m m' && bytes_eqb e e'
  | CAuditsAll m, CAuditsAll m' => bytes_eqb m m'
  | CExpects m f e, CExpects m' f' e' => bytes_eqb m m' && bytes_eqb f f' && bytes_eqb e e'
  | CExpectsLike m t, CExpectsLike m' t' => bytes_eqb m m' && bytes_eqb t t'
  | CCollects m v o n e, CCollects m' v' o' n' e' =>
      bytes_eqb m m' && bytes_eqb v v' && bytes_eqb o o' && bytes_eqb n n' && bytes_eqb e e'
  | CComputes m v e, CComputes m' v' e' => bytes_eqb m m' && bytes_eqb v v' && bytes_eqb e e'
  | CIgnoreAll r, CIgnoreAll r' => bytes_eqb r r'
  | CInterp o t r, CInterp o' t' r' => bytes_eqb o o' && bytes_eqb t t' && bytes_eqb r r'
  | _, _ => false
  end.

(** * "Up to the order of one observer's watches": every maximal run of
    consecutive watch clauses of the same member is sorted (insertion sort on
    the watched name), then the lists are compared for equality. *)
Fixpoint bytes_ltb (a b : bytes) : bool :=
  match a, b with
  | [], [] => false
  | [], _ :: _ => true
  | _ :: _, [] => false
  | x :: a', y :: b' =>
      if N.ltb (Byte.to_N x) (Byte.to_N y) then true
      else if N.ltb (Byte.to_N y) (Byte.to_N x) then false
      else bytes_ltb a' b'
  end.

Definition watch_key (c : clause) : option (bytes * bytes) :=
  match c with
  | CWatches m (TActor a) g => Some (m, a ++ x20 :: g)
  | CWatchVar m v => Some (m, v)
  | _ => None
  end.

Fixpoint insert_run (c : clause) (m k : bytes) (r : list clause) : list clause :=
  match r with
  | [] => [c]
  | d :: tl =>
      match watch_key d with
      | Some (m', k') => if bytes_eqb m m' && bytes_ltb k' k then d :: insert_run c m k tl else c :: r
      | None => c :: r
      end
  end.

Fixpoint norm_watches (l : list clause) : list clause :=
  match l with
  | [] => []
  | c :: tl =>
      let r := norm_watches tl in
      match watch_key c with
      | Some (m, k) => insert_run c m k r
      | None => c :: r
      end
  end.

Definition clauses_equiv (a b : list clause) : bool :=
  list_eqb clause_eqb (norm_watches a) (norm_watches b).

(** * Literal regexps: what the generator uses for `repeat from` and `edit`
    (letters and digits only): MatchString = substring test,
    ReplaceAllString = leftmost non-overlapping literal replacement (the
    replacement holds no `$`). *)
Definition lit_ok (re : bytes) : bool :=
  negb (is_nil re) && forallb (fun c => is_alpha c || is_digit c) re.

Fixpoint lit_replace_aux (pat repl s : bytes) (skip : nat) : bytes :=
  match s with
  | [] => []
  | c :: tl =>
      match skip with
      | S k => lit_replace_aux pat repl tl k
      | O => if is_prefix_b pat s then repl ++ lit_replace_aux pat repl tl (List.length pat - 1)
             else c :: lit_replace_aux pat repl tl 0
      end
  end.
Definition lit_replace (pat repl s : bytes) : bytes :=
  match pat with [] => s | _ => lit_replace_aux pat repl s 0 end.

Fixpoint lookup_z (k : Z) (l : list (Z * bytes)) : bytes :=
  match l with
  | [] => []
  | (k', v) :: tl => if k =? k' then v else lookup_z k tl
  end.

(** * Cases *)
Record c10_case := mkCase {
  k_defs : list bytes;                      (* -D definitions, in order *)
  k_clauses : list clause;                  (* what the files contain, raw *)
  k_exprs : list (bytes * list bytes);      (* expression -> Vars(), for those that compile *)
  k_regexps : list (bytes * list bytes);    (* signal regexp (expanded) -> SubexpNames *)
  k_durs : list (bytes * Z);                (* time.ParseDuration *)
  k_durstr : list (Z * bytes);              (* Duration.String *)
  (* observed, first load *)
  k_acc1 : bool;
  k_print1 : list clause;
  k_text1 : bytes;                          (* the printed bytes k_print1 was read from *)
  k_actnum1 : Z;
  (* observed, reload of the printed text *)
  k_acc2 : bool;
  k_print2 : option (list clause);          (* None = the same clause list as k_print1 *)
  k_actnum2 : Z;
  k_same_data : bool;     (* harness: exported configuration data of both loads equal (normalised) *)
  k_same_steps : bool;    (* harness: printSteps text of both loads equal *)
  k_other_ok : bool;      (* harness: inlined variant, commented -p text, annotated print, hash all agree *)
  k_textrisk : bool       (* a defect shape below the clause level was planted: no reload prediction *)
}.

Definition case_oracles (c : c10_case) : oracles :=
  mkOracles
    (fun src => lookup_b src (k_exprs c))
    (fun re => lookup_b re (k_regexps c))
    lit_ok
    (fun re act => contains_sub re act)
    lit_replace
    (fun d => lookup_b d (k_durs c))
    (fun z => lookup_z z (k_durstr c)).

Definition print2_of (c : c10_case) : list clause :=
  match k_print2 c with Some l => l | None => k_print1 c end.

(** The property's plain meaning on the implementation's observations: an
    accepted configuration's printed text is accepted again, prints the same
    up to the order of one observer's watches, and loads to the same data and
    steps. *)
Definition case_oracle_bad (c : c10_case) : bool :=
  k_acc1 c &&
  negb (k_acc2 c && clauses_equiv (k_print1 c) (print2_of c) && (k_actnum1 c =? k_actnum2 c)
        && k_same_data c && k_same_steps c && k_other_ok c).

(** Model against implementation, first load: accepted or not, and the
    printed clause list. *)
Definition case_model_bad (c : c10_case) : bool :=
  let orc := case_oracles c in
  match run orc (k_clauses c) (init_state (k_defs c)) with
  | Ok s => negb (k_acc1 c && clauses_equiv (print orc s) (k_print1 c) && (c_actnum s =? k_actnum1 c))
  | _ => k_acc1 c
  end.

(** Model against implementation, reload of the printed clause list. *)
Definition case_model_reload_bad (c : c10_case) : bool :=
  let orc := case_oracles c in
  if k_textrisk c || negb (k_acc1 c) then false else
  match run orc (k_clauses c) (init_state (k_defs c)) with
  | Ok s =>
      match run orc (print orc s) (init_state []) with
      | Ok s' => negb (k_acc2 c && clauses_equiv (print orc s') (print2_of c) && (c_actnum s' =? k_actnum2 c))
      | _ => k_acc2 c
      end
  | _ => false
  end.

(** The clause list the harness read back from the printed text stands for
    that text: rendering it gives the printed bytes. *)
Definition case_text_bad (c : c10_case) : bool :=
  k_acc1 c && negb (bytes_eqb (render (k_actnum1 c) (k_print1 c)) (k_text1 c)).

(** The hypotheses of the reload theorem, evaluated on the model state of
    every accepted case: the invariant [wf_state] must hold, and [printable]
    must exclude exactly the cases whose reload fails on the implementation
    (those are the listed findings), no more and no less. *)
Definition case_hypothesis_bad (c : c10_case) : bool :=
  let orc := case_oracles c in
  if negb (k_acc1 c) then false else
  match run orc (k_clauses c) (init_state (k_defs c)) with
  | Ok s =>
      negb (wf_state orc s)
      || (negb (k_textrisk c) && negb (Bool.eqb (printable s) (negb (case_oracle_bad c))))
  | _ => false
  end.
