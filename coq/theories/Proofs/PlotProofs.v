(** C19 — proofs: the loops of Model/Plot.v compute what Model/PlotSpec.v
    states with filters and positions, for every cast, audience, mood list,
    act list and window. *)
From Shk Require Import Base.Prelude Model.Plot Model.PlotSpec.
Local Open Scope list_scope.
Local Open Scope Z_scope.

(** * mapi *)
Lemma mapi_from_shift {A B} (f : nat -> A -> B) : forall l i,
  mapi_from f (S i) l = mapi_from (fun j => f (S j)) i l.
Proof. induction l as [|x l IH]; intros i; cbn; [reflexivity|]. rewrite IH. reflexivity. Qed.

Lemma mapi_from_ext {A B} (f g : nat -> A -> B) : forall l i,
  (forall j x, (i <= j)%nat -> f j x = g j x) -> mapi_from f i l = mapi_from g i l.
Proof.
  induction l as [|x l IH]; intros i H; cbn; [reflexivity|].
  rewrite (H i x (le_n _)). f_equal. apply IH. intros j y Hj. apply H. lia.
Qed.

Lemma mapi_from_length {A B} (f : nat -> A -> B) : forall l i, List.length (mapi_from f i l) = List.length l.
Proof. induction l as [|x l IH]; intros i; cbn; [reflexivity|]. rewrite IH. reflexivity. Qed.

Lemma mapi_from_nth_error {A B} (f : nat -> A -> B) : forall l i k,
  nth_error (mapi_from f i l) k = option_map (f (i + k)%nat) (nth_error l k).
Proof.
  induction l as [|x l IH]; intros i k; destruct k; cbn; try reflexivity.
  - rewrite Nat.add_0_r. reflexivity.
  - rewrite IH. rewrite Nat.add_succ_r. reflexivity.
Qed.

Lemma mapi_nth_error {A B} (f : nat -> A -> B) l k :
  nth_error (mapi f l) k = option_map (f k) (nth_error l k).
Proof. unfold mapi. rewrite mapi_from_nth_error. reflexivity. Qed.

Lemma ltb_nat_Z a b : (Z.of_nat a <? Z.of_nat b) = Nat.ltb a b.
Proof.
  destruct (Nat.ltb_spec a b); [apply Z.ltb_lt | apply Z.ltb_ge]; lia.
Qed.

(** * The action box *)
Lemma num_active_filter l : num_active l = Z.of_nat (List.length (filter a_has l)).
Proof.
  induction l as [|a l IH]; cbn [num_active filter]; [reflexivity|].
  destruct (a_has a); cbn [List.length]; rewrite IH; lia.
Qed.

Lemma lanes_spec n : forall l p,
  lanes l (Z.of_nat p + 1) n =
  mapi_from (fun i nm => DLane nm (Z.of_nat i + 1) (Z.of_nat i + 1 <? n)) p (map a_name (filter a_has l)).
Proof.
  induction l as [|a l IH]; intros p; cbn [lanes filter map mapi_from]; [reflexivity|].
  destruct (a_has a); cbn [negb map mapi_from]; [|apply IH].
  f_equal. replace (Z.of_nat p + 1 + 1) with (Z.of_nat (S p) + 1) by lia. apply IH.
Qed.

Lemma action_box_spec d : action_box (c_actors d) = spec_action_box d.
Proof.
  unfold action_box, spec_action_box, lane_names.
  rewrite num_active_filter. rewrite map_length.
  set (names := map a_name (filter a_has (c_actors d))).
  assert (Hlen : List.length (filter a_has (c_actors d)) = List.length names) by (unfold names; rewrite map_length; reflexivity).
  rewrite Hlen. f_equal.
  destruct names as [|nm names'] eqn:E.
  - reflexivity.
  - replace (Z.of_nat (List.length (nm :: names')) =? 0) with false
      by (symmetry; apply Z.eqb_neq; cbn [List.length]; lia).
    f_equal. change 1 with (Z.of_nat 0 + 1). rewrite lanes_spec. fold names. rewrite E.
    unfold mapi. apply mapi_from_ext. intros j x _. f_equal. unfold not_last.
    replace (Z.of_nat j + 1) with (Z.of_nat (S j)) by lia. apply ltb_nat_Z.
Qed.

(** * The member boxes *)
Lemma lane_of_snoc pre v :
  lane_of (pre ++ [v]) = if w_events v then lane_of pre + 1 else lane_of pre.
Proof.
  unfold lane_of. rewrite filter_app, app_length. cbn [filter].
  destruct (w_events v); cbn [List.length]; lia.
Qed.

Definition curve_pre (obs : str) (pre vs : list wvar) (i : nat) (v : wvar) : curve :=
  {| k_file := csv_file obs (w_actor v) (w_sig v);
     k_style := if w_events v then SEvent (lane_of (pre ++ firstn i vs)) (lane_of (pre ++ firstn i vs)) else SLine;
     k_title := curve_title (w_actor v) (w_sig v) |}.

Lemma var_plots_spec obs : forall vars pre,
  var_plots obs vars (lane_of pre) =
  (mapi (curve_pre obs pre (filter w_has vars)) (filter w_has vars),
   Z.of_nat (List.length (filter w_events (filter w_has vars)))).
Proof.
  induction vars as [|v vars IH]; intros pre; cbn [var_plots filter]; [reflexivity|].
  destruct (w_has v) eqn:Hh; cbn [negb]; [|apply IH].
  set (vs := filter w_has vars) in *.
  assert (Hshift : forall pre', pre' = pre ++ [v] ->
            mapi_from (curve_pre obs pre (v :: vs)) 1 vs = mapi (curve_pre obs pre' vs) vs).
  { intros pre' ->. rewrite mapi_from_shift. unfold mapi. apply mapi_from_ext. intros j x _.
    unfold curve_pre. cbn [firstn]. rewrite <- app_assoc. reflexivity. }
  destruct (w_events v) eqn:He.
  - specialize (IH (pre ++ [v])). rewrite lane_of_snoc, He in IH. rewrite IH.
    unfold mapi at 2. cbn [mapi_from filter]. rewrite He. cbn [List.length].
    rewrite (Hshift _ eq_refl). f_equal; [|lia].
    f_equal. unfold curve_pre. rewrite He. cbn [firstn]. rewrite app_nil_r. reflexivity.
  - specialize (IH (pre ++ [v])). rewrite lane_of_snoc, He in IH. rewrite IH.
    unfold mapi at 2. cbn [mapi_from filter]. rewrite He.
    rewrite (Hshift _ eq_refl). f_equal.
    f_equal. unfold curve_pre. rewrite He. reflexivity.
Qed.

Lemma curves_out_spec : forall pls k,
  curves_out pls =
  mapi_from (fun i c => DCurve (k_file c) (k_style c) (k_title c) (Nat.ltb (S i) (k + List.length pls))) k pls.
Proof.
  induction pls as [|c pls IH]; intros k; cbn [curves_out mapi_from]; [reflexivity|].
  f_equal.
  - f_equal. cbn [List.length]. destruct pls; cbn [List.length].
    + symmetry. apply Nat.ltb_ge. lia.
    + symmetry. apply Nat.ltb_lt. lia.
  - rewrite (IH (S k)). apply mapi_from_ext. intros j x _. cbn [List.length].
    replace (k + S (List.length pls))%nat with (S k + List.length pls)%nat by lia. reflexivity.
Qed.

Lemma group_out_spec m : group_out (mk_group m) = spec_box m.
Proof.
  unfold mk_group, spec_box. change 1 with (lane_of []). rewrite var_plots_spec.
  unfold group_out. cbn [g_title g_nev g_ylabel g_plots].
  fold (shown_vars m).
  assert (Hc : mapi (curve_pre (m_name m) [] (shown_vars m)) (shown_vars m) = spec_curves m).
  { unfold spec_curves, mapi. apply mapi_from_ext. intros j x _. reflexivity. }
  rewrite Hc. change (audit_plots m) with (spec_verdicts m).
  f_equal.
  - destruct (List.length (filter w_events (shown_vars m))) as [|n]; [reflexivity|].
    replace (0 <? Z.of_nat (S n)) with true by (symmetry; apply Z.ltb_lt; lia). reflexivity.
  - f_equal. rewrite (curves_out_spec _ 0). reflexivity.
Qed.

Lemma plot_groups_spec : forall ms, plot_groups ms = map mk_group (filter shown ms).
Proof.
  induction ms as [|m ms IH]; cbn [plot_groups filter map]; [reflexivity|].
  unfold shown at 1. destruct (m_has m), (m_noplot m); cbn [negb orb andb map]; rewrite IH; reflexivity.
Qed.

Lemma flat_map_groups : forall l, flat_map group_out (map mk_group l) = flat_map spec_box l.
Proof.
  induction l as [|m l IH]; cbn [map flat_map]; [reflexivity|].
  rewrite group_out_spec, IH. reflexivity.
Qed.

(** * Mood bands *)
Lemma rects_spec lo hi : forall ps n,
  rects lo hi ps (Z.of_nat n) =
  (mapi_from (fun i p => DRect (Z.of_nat i + 1) (clip_start lo (p_start p)) (clip_end hi (p_end p)) (p_mood p))
             n (filter (visible lo hi) ps),
   Z.of_nat (n + List.length (filter (visible lo hi) ps))).
Proof.
  induction ps as [|p ps IH]; intros n; cbn [rects filter mapi_from List.length].
  - rewrite Nat.add_0_r. reflexivity.
  - destruct (visible lo hi p) eqn:V; unfold visible in V.
    + apply andb_true_iff in V. destruct V as [V1 V2]. apply negb_true_iff in V1, V2.
      rewrite V1, V2. cbn [orb].
      replace (Z.of_nat n + 1) with (Z.of_nat (S n)) by lia.
      rewrite IH. cbn [mapi_from List.length].
      replace (n + S (List.length (filter (visible lo hi) ps)))%nat
        with (S n + List.length (filter (visible lo hi) ps))%nat by lia.
      replace (Z.of_nat (S n)) with (Z.of_nat n + 1) by lia. reflexivity.
    + assert (H : xt_ge (p_start p) hi || xt_le (p_end p) lo = true)
        by (destruct (xt_ge (p_start p) hi), (xt_le (p_end p) lo); cbn in *; congruence).
      rewrite H. apply IH.
Qed.

Lemma unset_objects_spec {A} : forall (l : list A) i,
  unset_objects (List.length l) (Z.of_nat i) = mapi_from (fun j _ => DUnsetObject (Z.of_nat j + 1)) i l.
Proof.
  induction l as [|x l IH]; intros i; cbn [List.length unset_objects mapi_from]; [reflexivity|].
  f_equal. replace (Z.of_nat i + 1) with (Z.of_nat (S i)) by lia. apply IH.
Qed.

(** * Act lines *)
Lemma arrows_from_spec lo : forall acts,
  arrows_from lo acts = map DArrow (filter (fun ts => lo <=? 20 * ts) (map fst acts)).
Proof.
  induction acts as [|[ts n] acts IH]; cbn [arrows_from map filter fst]; [reflexivity|].
  rewrite Z.ltb_antisym. destruct (lo <=? 20 * ts); cbn [negb map]; rewrite IH; reflexivity.
Qed.

Lemma arrows_spec lo d : arrows lo (c_acts d) = spec_lines lo d.
Proof.
  unfold arrows, spec_lines. destruct (c_acts d) as [|a acts]; [reflexivity|].
  cbn [tl]. apply arrows_from_spec.
Qed.

(** * The script *)
Theorem plot_matches_spec : forall d minT maxT, plot_script d minT maxT = spec_script d minT maxT.
Proof.
  intros d minT maxT. unfold plot_script, spec_script.
  change 0 with (Z.of_nat 0) at 1. rewrite rects_spec. cbn [Nat.add].
  rewrite Nat2Z.id. change 0 with (Z.of_nat 0) at 1. rewrite unset_objects_spec.
  rewrite plot_groups_spec, map_length, flat_map_groups, arrows_spec, action_box_spec.
  reflexivity.
Qed.

Lemma num_plots_spec d : num_plots d = Z.of_nat (List.length (shown_members d)) + 1.
Proof. unfold num_plots. rewrite plot_groups_spec, map_length. reflexivity. Qed.

(** * What the projections of PlotSpec.v are for the generated script *)
Lemma flat_map_mapi_nil {A B C} (p : B -> list C) (f : nat -> A -> B) :
  (forall i x, p (f i x) = []) -> forall l i, flat_map p (mapi_from f i l) = [].
Proof. intros H; induction l as [|x l IH]; intros i; cbn; [reflexivity|]. rewrite H, IH. reflexivity. Qed.

Lemma flat_map_map_nil {A B C} (p : B -> list C) (f : A -> B) :
  (forall x, p (f x) = []) -> forall l, flat_map p (map f l) = [].
Proof. intros H; induction l as [|x l IH]; cbn; [reflexivity|]. rewrite H, IH. reflexivity. Qed.

Lemma flat_map_flat_map_nil {A B C} (p : B -> list C) (f : A -> list B) :
  (forall x, flat_map p (f x) = []) -> forall l, flat_map p (flat_map f l) = [].
Proof. intros H; induction l as [|x l IH]; cbn; [reflexivity|]. rewrite flat_map_app, H, IH. reflexivity. Qed.

Ltac proj_parts :=
  repeat rewrite flat_map_app;
  repeat first
    [ rewrite (flat_map_mapi_nil _ _ (fun _ _ => eq_refl))
    | rewrite (flat_map_map_nil _ _ (fun _ => eq_refl)) ].

Lemma spec_box_proj {C} (p : directive -> list C) :
  (forall t e y, p (DGroup t e y) = []) -> p DPlot = [] -> (forall f s t c, p (DCurve f s t c) = []) ->
  forall m, flat_map p (spec_box m) = [].
Proof.
  intros H1 H2 H3 m. unfold spec_box. cbn [flat_map]. rewrite H1, H2. cbn [app].
  unfold mapi. apply flat_map_mapi_nil. intros; apply H3.
Qed.

Lemma spec_action_box_proj {C} (p : directive -> list C) :
  (forall y, p (DActionBox y) = []) -> p DPlot = [] -> p DNothing = [] -> (forall n y c, p (DLane n y c) = []) ->
  forall d, flat_map p (spec_action_box d) = [].
Proof.
  intros H1 H2 H3 H4 d. unfold spec_action_box. cbn [flat_map]. rewrite H1. cbn [app].
  destruct (lane_names d); cbn [flat_map]; [rewrite H3; reflexivity|].
  rewrite H2. cbn [app]. unfold mapi. apply flat_map_mapi_nil. intros; apply H4.
Qed.

(** one time axis: the window with a margin of one twentieth on each side *)
Lemma xranges_script d mn mx :
  xranges (plot_script d mn mx) = [(20 * mn - (mx - mn), 20 * mx + (mx - mn))].
Proof.
  rewrite plot_matches_spec. unfold spec_script, xranges.
  repeat rewrite flat_map_app.
  rewrite spec_action_box_proj by (intros; reflexivity).
  rewrite flat_map_flat_map_nil by (intros; apply spec_box_proj; intros; reflexivity).
  unfold spec_lines, spec_bands, spec_unset_bands, mapi.
  rewrite flat_map_map_nil by (intros; reflexivity).
  rewrite !flat_map_mapi_nil by (intros; reflexivity).
  cbn [flat_map app]. destruct (c_appmax d <? 10000000); reflexivity.
Qed.

Lemma lanes_script d mn mx :
  lanes_of (plot_script d mn mx) = mapi (fun i nm => (nm, Z.of_nat i + 1)) (lane_names d).
Proof.
  rewrite plot_matches_spec. unfold spec_script, lanes_of.
  repeat rewrite flat_map_app.
  rewrite flat_map_flat_map_nil by (intros; apply spec_box_proj; intros; reflexivity).
  unfold spec_lines, spec_bands, spec_unset_bands, mapi.
  rewrite flat_map_map_nil by (intros; reflexivity).
  rewrite !flat_map_mapi_nil by (intros; reflexivity).
  assert (H : forall (names l : list str) i,
            flat_map (fun x => match x with DLane nm y _ => [(nm, y)] | _ => [] end)
              (mapi_from (fun i nm => DLane nm (Z.of_nat i + 1) (not_last i names)) i l)
            = mapi_from (fun i nm => (nm, Z.of_nat i + 1)) i l).
  { intros names; induction l as [|x l IH]; intros i; cbn; [reflexivity|]. rewrite IH. reflexivity. }
  unfold spec_action_box. destruct (lane_names d) as [|nm l] eqn:E.
  - destruct (c_appmax d <? 10000000); reflexivity.
  - cbn [flat_map app]. unfold mapi. rewrite H.
    destruct (c_appmax d <? 10000000); cbn [flat_map app]; rewrite ?app_nil_r; reflexivity.
Qed.

Lemma bands_script d mn mx :
  let lo := 20 * mn - (mx - mn) in
  let hi := 20 * mx + (mx - mn) in
  bands_of (plot_script d mn mx) =
  map (fun p => (clip_start lo (p_start p), clip_end hi (p_end p), p_mood p))
      (filter (visible lo hi) (c_moods d)).
Proof.
  intros lo hi. rewrite plot_matches_spec. unfold spec_script, bands_of. fold lo hi.
  repeat rewrite flat_map_app.
  rewrite spec_action_box_proj by (intros; reflexivity).
  rewrite flat_map_flat_map_nil by (intros; apply spec_box_proj; intros; reflexivity).
  unfold spec_lines, spec_unset_bands, mapi.
  rewrite flat_map_map_nil by (intros; reflexivity).
  rewrite (flat_map_mapi_nil _ (fun (j : nat) (_ : mperiod) => DUnsetObject (Z.of_nat j + 1))) by (intros; reflexivity).
  assert (H : forall (l : list mperiod) i,
            flat_map (fun x => match x with DRect _ a b m => [(a, b, m)] | _ => [] end)
              (mapi_from (fun i p => DRect (Z.of_nat i + 1) (clip_start lo (p_start p)) (clip_end hi (p_end p)) (p_mood p)) i l)
            = map (fun p => (clip_start lo (p_start p), clip_end hi (p_end p), p_mood p)) l).
  { induction l as [|x l IH]; intros i; cbn; [reflexivity|]. rewrite IH. reflexivity. }
  unfold spec_bands, mapi. rewrite H.
  destruct (c_appmax d <? 10000000); cbn [flat_map app]; rewrite app_nil_r; reflexivity.
Qed.

Lemma lines_script d mn mx :
  lines_of (plot_script d mn mx) =
  filter (fun ts => 20 * mn - (mx - mn) <=? 20 * ts) (map fst (tl (c_acts d))).
Proof.
  rewrite plot_matches_spec. unfold spec_script, lines_of.
  repeat rewrite flat_map_app.
  rewrite spec_action_box_proj by (intros; reflexivity).
  rewrite flat_map_flat_map_nil by (intros; apply spec_box_proj; intros; reflexivity).
  unfold spec_bands, spec_unset_bands, mapi.
  rewrite !flat_map_mapi_nil by (intros; reflexivity).
  assert (H : forall l, flat_map (fun x => match x with DArrow t => [t] | _ => [] end) (map DArrow l) = l).
  { induction l as [|x l IH]; cbn; [reflexivity|]. rewrite IH. reflexivity. }
  unfold spec_lines. rewrite H.
  destruct (c_appmax d <? 10000000); cbn [flat_map app]; rewrite app_nil_r; reflexivity.
Qed.

(** boxes: in declaration order, after the action box *)
Lemma curves_prefix_mapi rest : forall (cs : list curve) (g : nat -> curve -> bool) i,
  match rest with [] => True | x :: _ => match x with DCurve _ _ _ _ | DPlot => False | _ => True end end ->
  curves_prefix (mapi_from (fun i c => DCurve (k_file c) (k_style c) (k_title c) (g i c)) i cs ++ rest)
  = map (fun c => (k_file c, k_style c)) cs.
Proof.
  intros cs g. induction cs as [|c cs IH]; intros i H; cbn [mapi_from app map curves_prefix].
  - destruct rest as [|x rest]; [reflexivity|]. destruct x; try reflexivity; contradiction.
  - f_equal. apply IH. exact H.
Qed.

Lemma boxes_of_curves rest : forall (cs : list curve) (g : nat -> curve -> bool) i,
  boxes_of (mapi_from (fun i c => DCurve (k_file c) (k_style c) (k_title c) (g i c)) i cs ++ rest) = boxes_of rest.
Proof. intros cs g; induction cs as [|c cs IH]; intros i; cbn [mapi_from app boxes_of]; [reflexivity|apply IH]. Qed.

Lemma boxes_of_members rest :
  match rest with [] => True | x :: _ => match x with DCurve _ _ _ _ | DPlot => False | _ => True end end ->
  forall ms, boxes_of (flat_map spec_box ms ++ rest) = map box_view ms ++ boxes_of rest.
Proof.
  intros Hrest. induction ms as [|m ms IH]; cbn [flat_map map app]; [reflexivity|].
  unfold spec_box at 1. cbn [app boxes_of]. rewrite <- app_assoc.
  unfold mapi. f_equal.
  - unfold box_view. f_equal. cbn [curves_prefix].
    apply curves_prefix_mapi.
    destruct ms as [|m' ms]; cbn [flat_map app]; [exact Hrest|]. unfold spec_box. cbn [app]. exact I.
  - cbn [boxes_of]. rewrite boxes_of_curves. apply IH.
Qed.

Lemma boxes_of_no_group : forall ds,
  (forall x, In x ds -> match x with DGroup _ _ _ => False | _ => True end) -> boxes_of ds = [].
Proof.
  induction ds as [|x ds IH]; intros H; [reflexivity|].
  assert (Hx := H x (or_introl eq_refl)).
  destruct x; cbn [boxes_of]; try contradiction; apply IH; intros z0 Hz0; apply H; right; exact Hz0.
Qed.

Lemma in_mapi_from {A B} (f : nat -> A -> B) y : forall l i,
  In y (mapi_from f i l) -> exists j x, y = f j x.
Proof.
  induction l as [|x l IH]; intros i H; cbn in H; [contradiction|].
  destruct H as [<-|H]; [eauto|]. eapply IH; eauto.
Qed.

Lemma boxes_script d mn mx :
  boxes_of (plot_script d mn mx) = map box_view (shown_members d).
Proof.
  rewrite plot_matches_spec. unfold spec_script.
  set (lo := 20 * mn - (mx - mn)). set (hi := 20 * mx + (mx - mn)).
  assert (Hpre : forall pre rest,
             (forall x, In x pre -> match x with DGroup _ _ _ => False | _ => True end) ->
             boxes_of (pre ++ rest) = boxes_of rest).
  { induction pre as [|x pre IH]; intros rest H; [reflexivity|].
    assert (Hx := H x (or_introl eq_refl)).
    cbn [app]. destruct x; cbn [boxes_of]; try contradiction; apply IH; intros z0 Hz0; apply H; right; exact Hz0. }
  rewrite Hpre.
  2:{ intros x [<-|[<-|[<-|[<-|[<-|[]]]]]]; try exact I. destruct (c_appmax d <? 10000000); exact I. }
  rewrite Hpre.
  2:{ unfold spec_lines. intros x Hx. apply in_map_iff in Hx. destruct Hx as (t & <- & _). exact I. }
  rewrite Hpre.
  2:{ unfold spec_action_box. intros x [<-|Hx]; [exact I|].
      destruct (lane_names d); [destruct Hx as [<-|[]]; exact I|].
      destruct Hx as [<-|Hx]; [exact I|]. unfold mapi in Hx. apply in_mapi_from in Hx.
      destruct Hx as (j & y & ->). exact I. }
  rewrite Hpre.
  2:{ unfold spec_bands, mapi. intros x Hx. apply in_mapi_from in Hx. destruct Hx as (j & y & ->). exact I. }
  rewrite boxes_of_members.
  - rewrite boxes_of_no_group; [apply app_nil_r|].
    intros x Hx. apply in_app_or in Hx. destruct Hx as [Hx|[<-|[<-|[]]]]; try exact I.
    unfold spec_unset_bands, mapi in Hx. apply in_mapi_from in Hx. destruct Hx as (j & y & ->). exact I.
  - unfold spec_unset_bands, mapi. destruct (filter (visible lo hi) (c_moods d)); cbn; exact I.
Qed.

(** * assemble *)
Ltac zb := repeat match goal with
  | H : (_ <? _) = true |- _ => apply Z.ltb_lt in H
  | H : (_ <? _) = false |- _ => apply Z.ltb_ge in H
  end.

Lemma assemble_range_ok raw :
  let '(mn, mx) := assemble_range raw in
  mn <= 0 /\ mn + 1000000 <= mx /\
  (forall a b, raw = Some (a, b) -> a <= b -> mn <= a /\ b <= mx).
Proof.
  destruct raw as [[a b]|].
  - unfold assemble_range; cbv beta iota zeta.
    destruct (b <? a) eqn:E1; cbv beta iota zeta.
    all: match goal with |- context [0 <? ?m] => destruct (0 <? m) eqn:E2 end; cbv beta iota zeta.
    all: match goal with |- context [?m <? 0] => destruct (m <? 0) eqn:E3 end; cbv beta iota zeta.
    all: match goal with |- context [?x <? ?y + 1000000] => destruct (x <? y + 1000000) eqn:E4 end; cbv beta iota zeta.
    all: zb; (split; [lia|split; [lia|]]); intros a' b' E ?; inversion E; subst; lia.
  - cbn. split; [lia|split; [lia|]]. intros; discriminate.
Qed.

Definition scan_state (l : list Z) : option Z * option Z :=
  (match l with _ :: b :: _ => Some b | _ => None end, match l with a :: _ => Some a | [] => None end).

Lemma repeat_scan_spec r : forall acts seen,
  repeat_scan r acts (scan_state seen) = scan_state (rev (occurrences r acts) ++ seen).
Proof.
  induction acts as [|[ts n] acts IH]; intros seen; cbn [repeat_scan]; [reflexivity|].
  unfold occurrences. cbn [filter snd]. destruct (n =? r).
  - cbn [map fst rev]. rewrite <- app_assoc. cbn [app].
    fold (occurrences r acts). rewrite <- (IH (ts :: seen)). reflexivity.
  - apply IH.
Qed.

Theorem repeat_start_spec r acts : repeat_start r acts = spec_repeat_start r acts.
Proof.
  unfold repeat_start, spec_repeat_start. destruct (0 <? r); [|reflexivity].
  change (None, None) with (scan_state []). rewrite repeat_scan_spec, app_nil_r.
  destruct (rev (occurrences r acts)) as [|a [|b l]]; reflexivity.
Qed.

(** * Mood bookkeeping *)
Definition nonclear (p : mperiod) : bool := negb (is_clear (p_mood p)).
Definition next_ts (evs : list (Z * str)) (final : Z) : Z :=
  match evs with (t', _) :: _ => t' | [] => final end.
Definition span1 (st : xtime) (m : str) (evs : list (Z * str)) (final : Z) : list mperiod :=
  {| p_start := st; p_end := Fin (next_ts evs final); p_mood := m |} :: spans evs final.

Lemma mood_fold_spec final : forall evs s,
  mood_final (fold_left mood_step evs s) final =
  ms_rec s ++ filter nonclear (span1 (ms_start s) (ms_cur s) (effective (ms_cur s) evs) final).
Proof.
  induction evs as [|[t m] evs IH]; intros s; cbn [fold_left effective].
  - unfold mood_final, span1. cbn [spans filter next_ts]. unfold nonclear. cbn [p_mood].
    destruct (is_clear (ms_cur s)); cbn [negb]; [rewrite app_nil_r|]; reflexivity.
  - unfold mood_step at 2. destruct (bytes_eqb m (ms_cur s)) eqn:E; [apply IH|].
    rewrite IH. cbn [ms_rec ms_start ms_cur].
    unfold span1 at 2. cbn [spans next_ts filter]. fold (span1 (Fin t) m (effective m evs) final).
    unfold nonclear at 2. cbn [p_mood].
    destruct (is_clear (ms_cur s)); cbn [negb]; [reflexivity|].
    rewrite <- app_assoc. reflexivity.
Qed.

Theorem mood_book_spec evs final : mood_book evs final = spec_mood_periods evs final.
Proof.
  unfold mood_book, spec_mood_periods. rewrite mood_fold_spec. cbn [ms_init ms_rec ms_start ms_cur app].
  unfold span1. cbn [filter]. unfold nonclear at 1. cbn [p_mood].
  replace (is_clear clear) with true by (symmetry; apply bytes_eqb_eq; reflexivity).
  reflexivity.
Qed.

(** * Further corollaries *)

(** event curves of one box sit on distinct lanes, increasing in curve order *)
Lemma event_lanes_increase (vs : list wvar) : forall i j vi,
  (i < j)%nat -> nth_error vs i = Some vi -> w_events vi = true -> (j <= List.length vs)%nat ->
  lane_of (firstn i vs) < lane_of (firstn j vs).
Proof.
  intros i j vi Hij Hi He Hj.
  assert (Hsplit : firstn j vs = firstn i vs ++ vi :: firstn (j - S i) (skipn (S i) vs)).
  { revert i j vi Hij Hi He Hj. induction vs as [|v vs IH]; intros i j vi Hij Hi He Hj.
    - destruct i; discriminate.
    - destruct j as [|j]; [lia|]. destruct i as [|i].
      + cbn in Hi. injection Hi as ->. replace (S j - 1)%nat with j by lia. reflexivity.
      + cbn [nth_error] in Hi. cbn [firstn app skipn]. f_equal.
        replace (S j - S (S i))%nat with (j - S i)%nat by lia.
        apply IH; try assumption; cbn [List.length] in Hj; lia. }
  rewrite Hsplit. unfold lane_of. rewrite filter_app, app_length. cbn [filter]. rewrite He.
  cbn [List.length]. lia.
Qed.

Lemma filter_all {A} (f : A -> bool) : forall l, (forall x, In x l -> f x = true) -> filter f l = l.
Proof.
  induction l as [|x l IH]; intros H; cbn; [reflexivity|].
  rewrite (H x (or_introl eq_refl)). f_equal. apply IH. intros y Hy. apply H. right. exact Hy.
Qed.

(** every mood period that meets the window is a band; if all do, every period is *)
Lemma bands_all d mn mx :
  let lo := 20 * mn - (mx - mn) in
  let hi := 20 * mx + (mx - mn) in
  (forall p, In p (c_moods d) -> visible lo hi p = true) ->
  map (fun b => snd b) (bands_of (plot_script d mn mx)) = map p_mood (c_moods d).
Proof.
  intros lo hi H. rewrite bands_script. fold lo hi. rewrite (filter_all _ _ H).
  rewrite map_map. reflexivity.
Qed.

Lemma lines_all d mn mx :
  (forall ts, In ts (map fst (tl (c_acts d))) -> 20 * mn - (mx - mn) <= 20 * ts) ->
  lines_of (plot_script d mn mx) = map fst (tl (c_acts d)).
Proof.
  intros H. rewrite lines_script. apply filter_all. intros ts Hts. apply Z.leb_le. apply H. exact Hts.
Qed.

(** the zoomed plot exists iff the repeated act started, on the window that
    starts with its next-to-last (or only) start; it is the same plot *)
Lemma plot_all_zoom d raw r h :
  let o := plot_all d raw r h in
  let d' := {| c_actors := c_actors d; c_members := c_members d; c_moods := c_moods d;
               c_acts := c_acts d; c_appmax := o_max o |} in
  o_repeat o = spec_repeat_start r (c_acts d) /\
  o_main o = plot_script d' (o_min o) (o_max o) /\
  o_last o = option_map (fun s => plot_script d' s (o_max o)) (spec_repeat_start r (c_acts d)) /\
  (forall x, In x (o_run o) -> x = RLoad true -> spec_repeat_start r (c_acts d) <> None).
Proof.
  unfold plot_all. destruct (assemble_range raw) as [mn mx]. cbn [o_max o_min o_repeat o_main o_last o_run].
  rewrite repeat_start_spec. split; [reflexivity|split; [reflexivity|split]].
  - destruct (spec_repeat_start r (c_acts d)); reflexivity.
  - intros x Hx -> . destruct (spec_repeat_start r (c_acts d)); [discriminate|].
    unfold runme in Hx. cbn in Hx.
    repeat (destruct Hx as [Hx|Hx]; [discriminate|]). contradiction.
Qed.

Lemma zoom_same_boxes d s mn mx :
  lanes_of (plot_script d s mx) = lanes_of (plot_script d mn mx) /\
  boxes_of (plot_script d s mx) = boxes_of (plot_script d mn mx).
Proof. rewrite !lanes_script, !boxes_script. split; reflexivity. Qed.

Lemma curve_styles : forall m i v,
  nth_error (shown_vars m) i = Some v ->
  nth_error (spec_curves m) i =
  Some {| k_file := csv_file (m_name m) (w_actor v) (w_sig v);
          k_style := if w_events v then SEvent (lane_of (firstn i (shown_vars m))) (lane_of (firstn i (shown_vars m))) else SLine;
          k_title := curve_title (w_actor v) (w_sig v) |}.
Proof. intros m i v H. unfold spec_curves. rewrite mapi_nth_error, H. reflexivity. Qed.
