(** The fast exact sample evaluation of Corr/C17.v ([fma], [near_trunc],
    [fast_base], [fast_span]) computes what the model's [jitter] says. *)
From Shk Require Import Base.Prelude Model.Retry Corr.C17.
From Coq Require Import Lqa ZifyBool.
Open Scope Z_scope.

Lemma Qtrunc_floor_ceiling x :
  Qtrunc x = if 0 <=? Qnum x then Qfloor x else Qceiling x.
Proof.
  destruct x as [n d]. unfold Qtrunc, Qceiling, Qfloor, Qopp. cbn [Qnum Qden].
  destruct (0 <=? n) eqn:E.
  - apply Z.quot_div_nonneg; lia.
  - assert (Hn : n = - (- n)) by lia. rewrite Hn at 1.
    rewrite Z.quot_opp_l by lia. rewrite Z.quot_div_nonneg by lia. reflexivity.
Qed.

Lemma Qtrunc_comp x y : (x == y)%Q -> Qtrunc x = Qtrunc y.
Proof.
  intros H. rewrite !Qtrunc_floor_ceiling.
  assert (E : (0 <=? Qnum x) = (0 <=? Qnum y)).
  { unfold Qeq in H. destruct (0 <=? Qnum x) eqn:E1, (0 <=? Qnum y) eqn:E2; try reflexivity; nia. }
  rewrite E. destruct (0 <=? Qnum y); [apply Qfloor_comp | apply Qceiling_comp]; exact H.
Qed.

Lemma trunc_le_spec q y : trunc_le q y = (Qtrunc q <=? y).
Proof.
  destruct q as [n d]. unfold trunc_le, Qtrunc. cbn [Qnum Qden].
  destruct (0 <=? n) eqn:E.
  - rewrite Z.quot_div_nonneg by lia.
    pose proof (Z.div_mod n (Zpos d) ltac:(lia)) as Hd.
    pose proof (Z.mod_pos_bound n (Zpos d) ltac:(lia)) as Hm.
    destruct (n <? (y + 1) * Zpos d) eqn:E1, (n / Zpos d <=? y) eqn:E2; try reflexivity; nia.
  - assert (Hn : n = - (- n)) by lia. rewrite Hn at 2.
    rewrite Z.quot_opp_l by lia. rewrite Z.quot_div_nonneg by lia.
    pose proof (Z.div_mod (- n) (Zpos d) ltac:(lia)) as Hd.
    pose proof (Z.mod_pos_bound (- n) (Zpos d) ltac:(lia)) as Hm.
    destruct (n <=? y * Zpos d) eqn:E1, (- (- n / Zpos d) <=? y) eqn:E2; try reflexivity; nia.
Qed.

Lemma trunc_ge_spec q y : trunc_ge q y = (y <=? Qtrunc q).
Proof.
  destruct q as [n d]. unfold trunc_ge, Qtrunc. cbn [Qnum Qden].
  destruct (0 <=? n) eqn:E.
  - rewrite Z.quot_div_nonneg by lia.
    pose proof (Z.div_mod n (Zpos d) ltac:(lia)) as Hd.
    pose proof (Z.mod_pos_bound n (Zpos d) ltac:(lia)) as Hm.
    destruct (y * Zpos d <=? n) eqn:E1, (y <=? n / Zpos d) eqn:E2; try reflexivity; nia.
  - assert (Hn : n = - (- n)) by lia. rewrite Hn at 2.
    rewrite Z.quot_opp_l by lia. rewrite Z.quot_div_nonneg by lia.
    pose proof (Z.div_mod (- n) (Zpos d) ltac:(lia)) as Hd.
    pose proof (Z.mod_pos_bound (- n) (Zpos d) ltac:(lia)) as Hm.
    destruct ((y - 1) * Zpos d <? n) eqn:E1, (y <=? - (- n / Zpos d)) eqn:E2; try reflexivity; nia.
Qed.

Lemma near_trunc_spec q x : near_trunc q x = near (Qtrunc q) x.
Proof.
  unfold near_trunc, near. rewrite trunc_ge_spec, trunc_le_spec.
  destruct (x - 1 <=? Qtrunc q) eqn:E1, (Qtrunc q <=? x + 1) eqn:E2,
           (Qtrunc q - 1 <=? x) eqn:E3, (x <=? Qtrunc q + 1) eqn:E4; cbn; try reflexivity; lia.
Qed.

Lemma fma_eq base span k : (fma base span k == base + u_of k * span)%Q.
Proof.
  unfold fma, u_of, Qeq, Qplus, Qmult. cbn [Qnum Qden]. rewrite !Pos2Z.inj_mul. ring.
Qed.

Lemma fast_base_eq b rf : (fast_base b rf == b - rf * b)%Q.
Proof. unfold fast_base. ring. Qed.
Lemma fast_span_eq b rf : (fast_span b rf == (2 # 1) * (rf * b) + 1)%Q.
Proof. unfold fast_span. ring. Qed.

(** One sample: the fast check is the model's jitter within 1 ns. *)
Lemma fast_sample_is_model b rf k x :
  near_trunc (fma (fast_base b rf) (fast_span b rf) k) x = near (jitter b rf (u_of k)) x.
Proof.
  rewrite near_trunc_spec. unfold jitter, jitter_at. f_equal.
  apply Qtrunc_comp. rewrite fma_eq, fast_base_eq, fast_span_eq. reflexivity.
Qed.
