(** From wf_state and printable to the hypotheses of the audience replay (C10). *)
From Coq Require Import String Permutation.
From Shk Require Import Base.Prelude Model.Storyline Model.Config.
From Shk Require Import Proofs.ConfigText Proofs.ConfigRoles Proofs.ConfigCast Proofs.ConfigScript Proofs.ConfigExpr Proofs.ConfigMember Proofs.ConfigAudience Proofs.ConfigHyps.
Open Scope Z_scope.

Section Assemble2.
Variable orc : oracles.
Hypothesis Horc : oracle_ok orc.
Variable s : cstate.
Hypothesis Hwf : wf_state orc s = true.
Hypothesis Hpr : printable s = true.

Notation ro := (c_roles s).
Notation ac := (c_actors s).

(* the audience phase runs in a state whose other fields are fixed; call them *)
Variables (ti au se : list bytes) (sc : list scenespec) (te : Z) (st : list bytes) (fr : option bytes) (an to co : Z).
Notation S := (S ti au se ro ac sc te st fr an to co).
Notation member_ok := (member_ok orc ti au se ro ac sc te st fr an to co).
Notation aud_ok := (aud_ok orc ti au se ro ac sc te st fr an to co).
Notation expr_ok := (expr_ok orc ti au se ro ac sc te st fr an to co).

Lemma expr_ok_of e : inert (x_src e) = true -> expr_wf orc s e = true -> expr_ok e = true.
Proof.
  intros Hi Hw. unfold ConfigExpr.expr_ok. rewrite Hi. cbn [andb].
  rewrite <- Hw. apply expr_wf_ext; reflexivity.
Qed.

Lemma dep_ok_of d : dep_wf s d = true -> dep_ok ti au se ro ac sc te st fr an to co d = true.
Proof. intros H. unfold dep_ok. rewrite <- H. apply dep_wf_ext; reflexivity. Qed.

Lemma member_ok_of pre m :
  member_wf orc s m = true ->
  forallb (fun e => inert (x_src e)) (member_exprs m) = true ->
  member_ordered (vars_of pre) m = true ->
  assigns_fresh (vars_of pre) (m_assigns m) = true ->
  member_ok pre m = true.
Proof.
  intros Hw Hin Hord Hfr. unfold member_wf in Hw.
  apply andb_prop in Hw as [Hw Hne]. apply andb_prop in Hw as [Hw Hsub]. apply andb_prop in Hw as [Hw Hobs].
  apply andb_prop in Hw as [Hw Hnd]. apply andb_prop in Hw as [Hw Hcond]. apply andb_prop in Hw as [Hw Hmod].
  apply andb_prop in Hw as [Hw Has]. apply andb_prop in Hw as [Hid Hex].
  assert (Hexok : forallb expr_ok (member_exprs m) = true).
  { rewrite forallb_forall in *. intros e He. apply expr_ok_of; auto. }
  unfold ConfigMember.member_ok. rewrite Hexok, Hmod, Hcond, Hord, Hfr, Hne. cbn [andb].
  assert (Hasok : forallb (assign_ok orc ti au se ro ac sc te st fr an to co) (m_assigns m) = true).
  { rewrite forallb_forall in *. intros a Ha. unfold assign_ok. rewrite (Has a Ha). cbn [andb].
    apply Hexok. unfold member_exprs. apply in_or_app. right. apply in_or_app. left. apply in_map. exact Ha. }
  rewrite Hasok. cbn [andb].
  assert (Hobsok : forallb (dep_ok ti au se ro ac sc te st fr an to co) (m_obs m) = true).
  { eapply forallb_impl; [|exact Hobs]. intros d _. apply dep_ok_of. }
  rewrite Hobsok. reflexivity.
Qed.

Lemma aud_ok_of rest : forall done,
  nodup_b (map m_name (done ++ rest)) = true ->
  forallb (member_wf orc s) rest = true ->
  forallb (fun m => forallb (fun e => inert (x_src e)) (member_exprs m)) rest = true ->
  aud_ordered (vars_of done) rest = true ->
  nodup_b (builtin_vars ++ vars_of (done ++ rest)) = true ->
  aud_ok (map canon_member done) rest = true.
Proof.
  induction rest as [|m rest IH]; intros done Hnd Hw Hin Hord Hvars; [reflexivity|].
  cbn [ConfigAudience.aud_ok]. cbn [forallb] in Hw, Hin. apply andb_prop in Hw as [Hwm Hw]. apply andb_prop in Hin as [Him Hin].
  cbn [aud_ordered] in Hord. apply andb_prop in Hord as [Hom Hord].
  rewrite map_name_canon.
  assert (Hn : mem_bytes (m_name m) (map m_name done) = false).
  { rewrite map_app in Hnd. cbn in Hnd. apply (nodup_b_mid _ _ _ Hnd). }
  rewrite Hn. cbn [negb andb].
  assert (Hid : ident_ok (m_name m) = true).
  { unfold member_wf in Hwm. repeat (apply andb_prop in Hwm as [Hwm ?]). exact Hwm. }
  rewrite Hid. cbn [andb].
  rewrite member_ok_of; auto.
  - cbn [andb].
    replace (map canon_member done ++ [canon_member m]) with (map canon_member (done ++ [m])) by (rewrite map_app; reflexivity).
    apply IH; auto.
    + rewrite <- app_assoc. exact Hnd.
    + rewrite vars_of_app. cbn. rewrite app_nil_r. exact Hord.
    + rewrite <- app_assoc. exact Hvars.
  - rewrite vars_of_canon. exact Hom.
  - rewrite vars_of_canon. rewrite !vars_of_app in Hvars. cbn [vars_of flat_map] in Hvars.
    apply (assigns_fresh_nodup (m_assigns m) (vars_of done) (vars_of rest)).
    unfold vars_of in *. rewrite app_nil_r in Hvars || idtac. exact Hvars.
Qed.

End Assemble2.
