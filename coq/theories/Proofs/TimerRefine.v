(** The Timer model, driven by harness operations, refines the abstract
    one-shot timer of Corr/C18.v — for every operation list. *)
From Shk Require Import Base.Prelude Model.Timeutil Proofs.TimeutilProofs Corr.C18.
From Coq Require Import ZifyBool.
Open Scope Z_scope.

Definition R (s : tstate) (a : astate) : Prop :=
  Inv s /\
  match a with
  | AIdle => tm s = None
  | APending d el =>
      exists i, tm s = Some i /\ g_d s = d /\ now s = g_reset_at s + el /\ 0 <= el /\ 0 < d /\
                ((el < d /\ armed i = true) \/ (d <= el /\ armed i = false /\ full i = true))
  | ADone => exists i, tm s = Some i /\ armed i = false /\ full i = false
  end.

Lemma R_init : R t_init AIdle.
Proof. split; [apply inv_init | reflexivity]. Qed.

Lemma dur_pos k : 0 < dur k.
Proof. unfold dur, short_d, long_d; destruct k; lia. Qed.

Definition tick (s : tstate) : tstate :=
  {| now := now s + wait_dt; tm := tm s; readf := readf s; pool := pool s;
     g_reset_at := g_reset_at s; g_d := g_d s; g_recvs := g_recvs s;
     g_stopped_ok := g_stopped_ok s |}.
Lemma tick_eq s : step s (LTick wait_dt) = Next (tick s) ONone.
Proof. reflexivity. Qed.
Lemma tm_tick s : tm (tick s) = tm s. Proof. reflexivity. Qed.
Lemma now_tick s : now (tick s) = now s + wait_dt. Proof. reflexivity. Qed.
Lemma gd_tick s : g_d (tick s) = g_d s. Proof. reflexivity. Qed.
Lemma gr_tick s : g_reset_at (tick s) = g_reset_at s. Proof. reflexivity. Qed.
Global Opaque tick.

Lemma drive1_refines s a o :
  R s a -> exists a', aspec a o (snd (drive1 s o)) = Some a' /\ R (fst (drive1 s o)) a'.
Proof.
  intros [HI HR]. destruct o as [k| | |].
  - (* Reset *)
    cbn [drive1].
    set (pick := match pool s with [] => None | _ => Some 0%nat end).
    destruct (step s (LReset (dur k) pick)) as [s' o'| |] eqn:Es.
    + exists (APending (dur k) 0). cbn [fst snd aspec]. split; [reflexivity|].
      split; [eapply step_inv; eauto|].
      pose proof (dur_pos k) as Hd.
      cbn [step] in Es. destruct (dur k <? 0) eqn:E0; [lia|].
      destruct (tm s) as [i|] eqn:Etm.
      * destruct (negb (armed i) && negb (readf s) && negb (full i)); [discriminate|].
        inversion Es; subst; clear Es. cbn. eexists; repeat split; try reflexivity; try lia.
        left; split; [lia|reflexivity].
      * subst pick. destruct (pool s) as [|p0 ps] eqn:Ep.
        -- inversion Es; subst; clear Es. cbn. eexists; repeat split; try reflexivity; try lia.
           left; split; [lia|reflexivity].
        -- cbn in Es. inversion Es; subst; clear Es. cbn. eexists; repeat split; try reflexivity; try lia.
           left; split; [lia|reflexivity].
    + (* NotEnabled: impossible *)
      exfalso. pose proof (dur_pos k) as Hd. cbn [step] in Es.
      destruct (dur k <? 0) eqn:E0; [lia|].
      destruct (tm s) as [i|] eqn:Etm.
      * destruct (negb (armed i) && negb (readf s) && negb (full i)); discriminate.
      * subst pick. destruct (pool s) as [|p0 ps]; cbn in Es; discriminate.
    + (* Blocks: impossible under Inv *)
      exfalso. cbn [step] in Es. destruct (dur k <? 0); [discriminate|].
      destruct HI as [_ Ht]. destruct (tm s) as [i|] eqn:Etm.
      * destruct Ht as (_ & _ & _ & [H|[H|H]]); destruct H as (Ha & Hf & Hr' & _);
          rewrite Ha, Hf, Hr' in Es; cbn in Es; discriminate.
      * subst pick. destruct (pool s) as [|p0 ps]; cbn in Es; discriminate.
  - (* Wait *)
    cbn [drive1]. rewrite tick_eq.
    pose proof (step_inv _ _ _ _ HI (tick_eq s)) as HI1.
    destruct a as [|d el|].
    + (* Idle *)
      cbn in HR. cbn [step]. rewrite tm_tick, HR. exists AIdle. cbn [fst snd aspec]. split.
      * unfold chan_len. rewrite tm_tick, HR. reflexivity.
      * split; [exact HI1 | rewrite tm_tick; exact HR].
    + destruct HR as (i & Etm & Hd & Hnow & Hel & Hdpos & Hcase).
      pose proof HI as [_ Ht]. rewrite Etm in Ht. destruct Ht as (Hdl & _ & _ & Hst).
      destruct Hcase as [[Hlt Ha]|[Hge [Ha Hf]]].
      * (* armed *)
        assert (Hf : full i = false).
        { destruct Hst as [H|[H|H]]; destruct H as (Ha' & Hf' & _); congruence. }
        cbn [step]. rewrite tm_tick, Etm, Ha. cbn [andb]. rewrite now_tick.
        assert (Ecmp : (deadline i <=? now s + wait_dt) = (d <=? el + wait_dt)).
        { destruct (deadline i <=? now s + wait_dt) eqn:E1, (d <=? el + wait_dt) eqn:E2; try reflexivity; lia. }
        rewrite Ecmp. exists (APending d (el + wait_dt)). cbn [aspec]. rewrite <- Ecmp.
        destruct (deadline i <=? now s + wait_dt) eqn:E1; cbn [fst snd]; unfold chan_len; cbn [tm].
        -- cbn [inner_fire full]. split; [reflexivity|]. split.
           ++ apply (step_inv (tick s) LFire _ ONone HI1). cbn [step]. rewrite tm_tick, Etm, Ha, now_tick, E1. reflexivity.
           ++ exists (inner_fire i). cbn. rewrite ?now_tick, ?gd_tick, ?gr_tick.
              split; [reflexivity|]. split; [assumption|]. split; [lia|]. split; [unfold wait_dt; lia|].
              split; [assumption|]. right. repeat split; try reflexivity. lia.
        -- rewrite tm_tick, Etm, Hf. split; [reflexivity|]. split; [exact HI1|].
           exists i. rewrite tm_tick, now_tick, gd_tick, gr_tick.
           split; [assumption|]. split; [assumption|]. split; [lia|]. split; [unfold wait_dt; lia|].
           split; [assumption|]. left. split; [lia|assumption].
      * (* already fired, still in channel *)
        cbn [step]. rewrite tm_tick, Etm, Ha. cbn [andb].
        exists (APending d (el + wait_dt)). cbn [fst snd aspec].
        destruct (d <=? el + wait_dt) eqn:Ed; [|unfold wait_dt in *; lia].
        unfold chan_len. rewrite tm_tick, Etm, Hf. split; [reflexivity|]. split; [exact HI1|].
        exists i. rewrite tm_tick, now_tick, gd_tick, gr_tick.
        split; [assumption|]. split; [assumption|]. split; [lia|]. split; [unfold wait_dt; lia|].
        split; [assumption|]. right. repeat split; auto. unfold wait_dt; lia.
    + destruct HR as (i & Etm & Ha & Hf).
      cbn [step]. rewrite tm_tick, Etm, Ha. cbn [andb].
      exists ADone. cbn [fst snd aspec]. unfold chan_len. rewrite tm_tick, Etm, Hf.
      split; [reflexivity|]. split; [exact HI1|]. exists i; rewrite tm_tick; auto.
  - (* TryRecv *)
    cbn [drive1]. destruct a as [|d el|].
    + cbn in HR. cbn [step]. rewrite HR. exists AIdle. cbn. split; [reflexivity|]. split; assumption.
    + destruct HR as (i & Etm & Hd & Hnow & Hel & Hdpos & Hcase).
      destruct Hcase as [[Hlt Ha]|[Hge [Ha Hf]]].
      * destruct HI as [Hp Ht]. pose proof Ht as Ht'. rewrite Etm in Ht'.
        destruct Ht' as (_ & _ & _ & [H|[H|H]]); destruct H as (Ha' & Hf' & _); try congruence.
        cbn [step]. rewrite Etm, Hf'. exists (APending d el). cbn [fst snd aspec].
        destruct (d <=? el) eqn:Ed; [lia|]. split; [reflexivity|].
        split; [split; assumption|]. exists i. repeat split; auto.
      * cbn [step]. rewrite Etm, Hf. exists ADone. cbn [fst snd aspec].
        destruct (d <=? el) eqn:Ed; [|lia]. split; [reflexivity|].
        split.
        -- apply (step_inv s LRecv _ (ORecv (now s)) HI). cbn [step]. rewrite Etm, Hf. reflexivity.
        -- cbn. eexists; repeat split; auto.
    + destruct HR as (i & Etm & Ha & Hf). cbn [step]. rewrite Etm, Hf.
      exists ADone. cbn. split; [reflexivity|]. split; [assumption|]. exists i; auto.
  - (* Stop *)
    cbn [drive1]. destruct a as [|d el|].
    + cbn in HR. cbn [step]. rewrite HR. exists AIdle. cbn [fst snd aspec]. split; [reflexivity|].
      split; [|reflexivity]. apply (step_inv s LStop _ (OStop false) HI). cbn [step]. rewrite HR. reflexivity.
    + destruct HR as (i & Etm & Hd & Hnow & Hel & Hdpos & Hcase).
      cbn [step]. rewrite Etm. exists AIdle. cbn [fst snd aspec].
      assert (Eb : Bool.eqb (armed i) (el <? d) = true).
      { destruct Hcase as [[Hlt Ha]|[Hge [Ha Hf]]]; rewrite Ha;
          destruct (el <? d) eqn:E; try reflexivity; lia. }
      rewrite Eb. split; [reflexivity|]. split; [|reflexivity].
      apply (step_inv s LStop _ (OStop (armed i)) HI). cbn [step]. rewrite Etm. reflexivity.
    + destruct HR as (i & Etm & Ha & Hf). cbn [step]. rewrite Etm, Ha.
      exists AIdle. cbn [fst snd aspec]. split; [reflexivity|]. split; [|reflexivity].
      apply (step_inv s LStop _ (OStop false) HI). cbn [step]. rewrite Etm, Ha. reflexivity.
Qed.

Lemma drive_refines ops : forall s a, R s a -> aspec_run a ops (drive s ops) = true.
Proof.
  induction ops as [|o ops IH]; intros s a HR; cbn [drive aspec_run]; [reflexivity|].
  destruct (drive1_refines s a o HR) as (a' & Ha & HR').
  destruct (drive1 s o) as [s' ob]. cbn [fst snd] in *. rewrite Ha. apply IH. assumption.
Qed.

Lemma timer_refines_spec ops : aspec_run AIdle ops (drive t_init ops) = true.
Proof. apply drive_refines, R_init. Qed.
