(** Hand-written monitor automata, one per modality, proved equivalent to the
    plain meaning of Model/Meaning.v for traces of every length. *)
From Shk Require Import Base.Prelude Model.Meaning.

Definition mon_init (m : modality) : nat := 0.

Definition count_delta (k : nat) (q : nat) (b : bool) : nat :=
  if b then (if Nat.leb q k then S q else q) else q.

Definition mon_delta (m : modality) (q : nat) (b : bool) : nat :=
  match m with
  | Always => match q with 0 => if b then 0 else 1 | _ => 1 end
  | Never => match q with 0 => if b then 1 else 0 | _ => 1 end
  | NotAlways => match q with 0 => if b then 0 else 1 | _ => 1 end
  | Eventually => match q with 0 => if b then 1 else 0 | _ => 1 end
  | AlwaysEventually => if b then 1 else 0
  | EventuallyAlways => match q with
                        | 0 => if b then 1 else 0
                        | 1 => if b then 1 else 2
                        | _ => 2
                        end
  | Once => count_delta 1 q b
  | Twice => count_delta 2 q b
  | Thrice => count_delta 3 q b
  | AtMostOnce => count_delta 1 q b
  end.

(** [mon_viol m q]: does the trace read so far violate the meaning of [m]? *)
Definition mon_viol (m : modality) (q : nat) : bool :=
  match m with
  | Always | Never => Nat.eqb q 1
  | NotAlways | Eventually => Nat.eqb q 0
  | AlwaysEventually => Nat.eqb q 0
  | EventuallyAlways => negb (Nat.eqb q 1)
  | Once => negb (Nat.eqb q 1)
  | Twice => negb (Nat.eqb q 2)
  | Thrice => negb (Nat.eqb q 3)
  | AtMostOnce => Nat.leb 2 q
  end.

Definition mon_run (m : modality) (tr : list bool) : bool :=
  mon_viol m (fold_left (mon_delta m) tr (mon_init m)).

(** * Proofs *)

Lemma fold_absorb (d : nat -> bool -> nat) q :
  (forall b, d q b = q) -> forall tr, fold_left d tr q = q.
Proof. intros H tr; induction tr as [|b tr IH]; cbn; [reflexivity | rewrite H; exact IH]. Qed.

Lemma always_ok tr : mon_run Always tr = negb (meaning Always tr).
Proof.
  unfold mon_run, mon_init. cbn [meaning mon_viol].
  induction tr as [|b tr IH]; [reflexivity|]. cbn [fold_left forallb].
  destruct b; cbn [mon_delta id andb]; [exact IH|].
  rewrite fold_absorb by reflexivity. reflexivity.
Qed.

Lemma never_ok tr : mon_run Never tr = negb (meaning Never tr).
Proof.
  unfold mon_run, mon_init. cbn [meaning mon_viol].
  induction tr as [|b tr IH]; [reflexivity|]. cbn [fold_left forallb].
  destruct b; cbn [mon_delta negb andb]; [|exact IH].
  rewrite fold_absorb by reflexivity. reflexivity.
Qed.

Lemma not_always_ok tr : mon_run NotAlways tr = negb (meaning NotAlways tr).
Proof.
  unfold mon_run, mon_init. cbn [meaning mon_viol].
  induction tr as [|b tr IH]; [reflexivity|]. cbn [fold_left existsb].
  destruct b; cbn [mon_delta negb orb]; [exact IH|].
  rewrite fold_absorb by reflexivity. reflexivity.
Qed.

Lemma eventually_ok tr : mon_run Eventually tr = negb (meaning Eventually tr).
Proof.
  unfold mon_run, mon_init. cbn [meaning mon_viol].
  induction tr as [|b tr IH]; [reflexivity|]. cbn [fold_left existsb].
  destruct b; cbn [mon_delta id orb]; [|exact IH].
  rewrite fold_absorb by reflexivity. reflexivity.
Qed.

Lemma always_eventually_fold tr : forall q,
  fold_left (mon_delta AlwaysEventually) tr q =
  match tr with [] => q | _ => if last tr false then 1 else 0 end.
Proof.
  induction tr as [|b tr IH]; intros q; [reflexivity|].
  cbn [fold_left]. rewrite IH. destruct tr as [|c tr]; [destruct b; reflexivity|].
  reflexivity.
Qed.

Lemma always_eventually_ok tr : mon_run AlwaysEventually tr = negb (meaning AlwaysEventually tr).
Proof.
  unfold mon_run, mon_init. rewrite always_eventually_fold. cbn [meaning mon_viol].
  destruct tr as [|b tr]; [reflexivity|]. destruct (last (b :: tr) false); reflexivity.
Qed.

Lemma ev_always_from1 tr :
  fold_left (mon_delta EventuallyAlways) tr 1 = if forallb id tr then 1 else 2.
Proof.
  induction tr as [|b tr IH]; [reflexivity|]. cbn [fold_left forallb].
  destruct b; cbn [mon_delta id andb]; [exact IH|].
  rewrite fold_absorb by reflexivity. reflexivity.
Qed.

Lemma eventually_always_ok tr : mon_run EventuallyAlways tr = negb (meaning EventuallyAlways tr).
Proof.
  unfold mon_run, mon_init. cbn [meaning mon_viol].
  induction tr as [|b tr IH]; [reflexivity|]. cbn [fold_left ev_always].
  destruct b; cbn [mon_delta]; [|exact IH].
  rewrite ev_always_from1. destruct (forallb id tr); reflexivity.
Qed.

Lemma forallb_id_repeat tr : forallb id tr = true -> tr = repeat true (List.length tr).
Proof.
  induction tr as [|c tr IH]; cbn; [reflexivity|]. intros H.
  apply andb_true_iff in H. destruct H as [Hc Ht]. unfold id in Hc. subst c.
  f_equal. apply IH; assumption.
Qed.

Lemma forallb_id_repeat_true n : forallb id (repeat true n) = true.
Proof. induction n; cbn; auto. Qed.

Lemma ev_always_iff_spec tr : ev_always tr = true <-> ev_always_spec tr.
Proof.
  unfold ev_always_spec. induction tr as [|b tr IH]; cbn [ev_always].
  - split; [discriminate|]. intros (i & j & H). destruct i; discriminate.
  - destruct b.
    + split.
      * intros H. exists 0, (List.length tr). cbn. f_equal. apply forallb_id_repeat; assumption.
      * intros (i & j & H). destruct i as [|i]; [|discriminate].
        cbn in H. inversion H; subst. apply forallb_id_repeat_true.
    + rewrite IH. split; intros (i & j & H).
      * exists (S i), j. cbn. f_equal. exact H.
      * destruct i as [|i]; [discriminate|]. cbn in H. inversion H. exists i, j. reflexivity.
Qed.

Lemma count_fold k tr : forall q, q <= S k ->
  fold_left (count_delta k) tr q = Nat.min (q + count_true tr) (S k).
Proof.
  unfold count_true. induction tr as [|b tr IH]; intros q Hq; cbn [fold_left filter].
  - cbn. rewrite Nat.add_0_r. symmetry. apply Nat.min_l. exact Hq.
  - destruct b; cbn [id count_delta].
    + destruct (Nat.leb q k) eqn:E.
      * apply Nat.leb_le in E. rewrite IH by lia. cbn [List.length]. f_equal. lia.
      * apply Nat.leb_gt in E. assert (q = S k) by lia. subst q.
        rewrite IH by lia. cbn [List.length]. lia.
    + apply IH. exact Hq.
Qed.

Lemma once_ok tr : mon_run Once tr = negb (meaning Once tr).
Proof.
  unfold mon_run, mon_init. cbn [meaning mon_viol mon_delta].
  change (fun q b => count_delta 1 q b) with (count_delta 1).
  replace (fold_left (mon_delta Once) tr 0) with (fold_left (count_delta 1) tr 0) by reflexivity.
  rewrite count_fold by lia. cbn [Nat.add]. f_equal.
  destruct (Nat.eqb_spec (count_true tr) 1) as [->|H]; [reflexivity|].
  apply Nat.eqb_neq. lia.
Qed.

Lemma twice_ok tr : mon_run Twice tr = negb (meaning Twice tr).
Proof.
  unfold mon_run, mon_init. cbn [meaning mon_viol].
  replace (fold_left (mon_delta Twice) tr 0) with (fold_left (count_delta 2) tr 0) by reflexivity.
  rewrite count_fold by lia. cbn [Nat.add]. f_equal.
  destruct (Nat.eqb_spec (count_true tr) 2) as [->|H]; [reflexivity|].
  apply Nat.eqb_neq. lia.
Qed.

Lemma thrice_ok tr : mon_run Thrice tr = negb (meaning Thrice tr).
Proof.
  unfold mon_run, mon_init. cbn [meaning mon_viol].
  replace (fold_left (mon_delta Thrice) tr 0) with (fold_left (count_delta 3) tr 0) by reflexivity.
  rewrite count_fold by lia. cbn [Nat.add]. f_equal.
  destruct (Nat.eqb_spec (count_true tr) 3) as [->|H]; [reflexivity|].
  apply Nat.eqb_neq. lia.
Qed.

Lemma at_most_once_ok tr : mon_run AtMostOnce tr = negb (meaning AtMostOnce tr).
Proof.
  unfold mon_run, mon_init. cbn [meaning mon_viol].
  replace (fold_left (mon_delta AtMostOnce) tr 0) with (fold_left (count_delta 1) tr 0) by reflexivity.
  rewrite count_fold by lia. cbn [Nat.add].
  destruct (Nat.leb_spec (count_true tr) 1) as [H|H]; cbn [negb].
  - apply Nat.leb_gt. lia.
  - apply Nat.leb_le. lia.
Qed.

Theorem monitor_meaning m tr : mon_run m tr = negb (meaning m tr).
Proof.
  destruct m; [apply always_ok | apply never_ok | apply not_always_ok | apply eventually_ok
    | apply always_eventually_ok | apply eventually_always_ok | apply once_ok | apply twice_ok
    | apply thrice_ok | apply at_most_once_ok].
Qed.
