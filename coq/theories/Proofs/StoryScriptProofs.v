(** Proofs about the storyline functions (property C06), part 2:
    [validate_storyline] against [Denote.acts_of] / [Denote.wf_story], and the
    `storyline` / `edit` clauses of a script against [Denote.story_step] and
    [Denote.den_story_from]. *)
From Shk Require Import Base.Prelude Model.Storyline Model.Compile Model.Denote Proofs.StorylineProofs.

Local Open Scope nat_scope.

Definition is_err {A} (o : Outcome A) : Prop := match o with Err _ => True | _ => False end.

(** Domain of the text-level statements: no white space other than ' '. *)
Definition no_ctl (s : bytes) : Prop := forall c, In c s -> is_space c = true -> c = b_sp.

(** * Go's Split / TrimSpace / ReplaceAll against the denotation's text functions *)
Lemma split_on_cons s : exists p ps, split_on is_sp s = p :: ps.
Proof.
  induction s as [|c tl (p & ps & IH)]; cbn; [eauto|].
  destruct (is_sp c); [eauto|]. rewrite IH. eauto.
Qed.

Lemma pieces_split s : forall cur,
  pieces c_sp s cur = (rev cur ++ hd [] (split_on is_sp s)) :: List.tl (split_on is_sp s).
Proof.
  induction s as [|c tl IH]; intros cur; cbn.
  - rewrite app_nil_r. reflexivity.
  - change (Byte.eqb c c_sp) with (is_sp c). destruct (is_sp c) eqn:E; cbn.
    + rewrite app_nil_r, (IH []). cbn. destruct (split_on_cons tl) as (p & ps & ->). reflexivity.
    + rewrite (IH (c :: cur)). destruct (split_on_cons tl) as (p & ps & ->). cbn.
      rewrite <- app_assoc. reflexivity.
Qed.

Lemma pieces_split0 s : pieces c_sp s [] = split_on is_sp s.
Proof. rewrite pieces_split. cbn. destruct (split_on_cons s) as (p & ps & ->). reflexivity. Qed.

Lemma strip_split s : map strip_us (split_on is_sp s) = split_on is_sp (strip_us s).
Proof.
  induction s as [|c tl IH]; [reflexivity|].
  cbn [split_on]. destruct (is_sp c) eqn:E.
  - assert (U : is_us c = false) by (apply byte_eqb_eq in E; subst c; reflexivity).
    unfold strip_us at 2. cbn [filter]. rewrite U. cbn [negb split_on]. rewrite E.
    cbn [map]. fold (strip_us tl). rewrite <- IH. reflexivity.
  - destruct (split_on_cons tl) as (p & ps & Es). rewrite Es in IH. rewrite Es. cbn [map] in IH |- *.
    unfold strip_us at 1 3. cbn [filter]. destruct (is_us c) eqn:U; cbn [negb].
    + fold (strip_us p) (strip_us tl). exact IH.
    + cbn [split_on]. rewrite E. fold (strip_us p) (strip_us tl). rewrite <- IH. reflexivity.
Qed.

Lemma acts_of_split text :
  acts_of text = filter nonempty (map strip_us (split_on is_sp text)).
Proof. unfold acts_of. rewrite pieces_split0, strip_split. reflexivity. Qed.

Lemma split_on_in s : forall p c, In p (split_on is_sp s) -> In c p -> In c s /\ is_sp c = false.
Proof.
  induction s as [|x tl IH]; cbn; intros p c Hp Hc.
  - destruct Hp as [<- | []]. destruct Hc.
  - destruct (is_sp x) eqn:E.
    + destruct Hp as [<- | Hp]; [destruct Hc|]. destruct (IH p c Hp Hc). auto.
    + destruct (split_on_cons tl) as (q & qs & Es). rewrite Es in *.
      destruct Hp as [<- | Hp].
      * destruct Hc as [<- | Hc]; [auto|]. destruct (IH q c (or_introl eq_refl) Hc). auto.
      * destruct (IH p c (or_intror Hp) Hc). auto.
Qed.

Lemma trim_left_id s : (forall c, In c s -> is_space c = false) -> trim_left s = s.
Proof. destruct s as [|c tl]; cbn; intros H; [reflexivity|]. rewrite (H c (or_introl eq_refl)). reflexivity. Qed.

Lemma trim_space_id s : (forall c, In c s -> is_space c = false) -> trim_space s = s.
Proof.
  intros H. unfold trim_space. rewrite (trim_left_id s H), trim_left_id, rev_involutive; [reflexivity|].
  intros c Hc. apply H. apply in_rev. exact Hc.
Qed.

(** * validate_part *)
Definition charok (dfn : byte -> bool) (c : byte) : bool :=
  Byte.eqb c c_plus || Byte.eqb c c_dot || (scene_char c && dfn c).

Definition after_plus (prev : option byte) : bool :=
  match prev with None => true | Some p => is_plus p end.

Lemma wf_act_okb dfn a :
  wf_act dfn a = nonempty a && okb true a && forallb (charok dfn) a.
Proof. unfold wf_act. rewrite pieces_okb. reflexivity. Qed.

Lemma okb_true_nonempty a : okb true a = true -> nonempty a = true.
Proof. destruct a; [discriminate | reflexivity]. Qed.

Lemma validate_part_spec dfn n s : forall prev,
  (after_plus prev = true -> s <> []) ->
  (forall c, In c s -> is_space c = false /\ is_us c = false) ->
  (okb (after_plus prev) s && forallb (charok dfn) s = true -> validate_part dfn n prev s = Ok tt)
  /\ (okb (after_plus prev) s && forallb (charok dfn) s = false -> is_err (validate_part dfn n prev s)).
Proof.
  induction s as [|c tl IH]; intros prev Hne Hch.
  - cbn. destruct (after_plus prev); [exfalso; apply Hne; reflexivity|].
    split; [reflexivity | discriminate].
  - destruct (Hch c (or_introl eq_refl)) as [Hsp Hus].
    assert (Hch' : forall x, In x tl -> is_space x = false /\ is_us x = false)
      by (intros x Hx; apply Hch; right; exact Hx).
    assert (Esp : is_sp c = false).
    { destruct (is_sp c) eqn:E; [|reflexivity]. apply byte_eqb_eq in E. subst c. discriminate. }
    cbn [validate_part okb forallb]. rewrite Esp. cbn [orb].
    change (Byte.eqb c c_plus) with (is_plus c).
    destruct (is_dot c) eqn:Edot.
    + (* '.' *)
      assert (Ep : is_plus c = false).
      { apply byte_eqb_eq in Edot. subst c. reflexivity. }
      rewrite Ep.
      assert (Eok : charok dfn c = true).
      { unfold charok. change (Byte.eqb c c_dot) with (is_dot c). rewrite Edot, orb_true_r. reflexivity. }
      rewrite Eok. cbn [andb].
      assert (A := IH (Some c)). cbn [after_plus] in A. rewrite Ep in A.
      apply A; [discriminate | exact Hch'].
    + destruct (is_plus c) eqn:Ep.
      * (* '+' *)
        assert (Eok : charok dfn c = true) by (unfold charok; change (Byte.eqb c c_plus) with (is_plus c); rewrite Ep; reflexivity).
        rewrite Eok. cbn [andb].
        destruct prev as [p|]; cbn [after_plus].
        -- destruct tl as [|d tl'].
           ++ cbn. rewrite andb_false_r. split; [discriminate | intros _; exact I].
           ++ destruct (is_plus p) eqn:Epp; cbn [negb andb].
              ** split; [discriminate | intros _; exact I].
              ** assert (A := IH (Some c)). cbn [after_plus] in A. rewrite Ep in A.
                 apply A; [intros _; discriminate | exact Hch'].
        -- cbn. split; [discriminate | intros _; exact I].
      * (* a scene *)
        assert (Esc : scene_char c = true).
        { unfold scene_char. change (Byte.eqb c c_plus) with (is_plus c).
          change (Byte.eqb c c_dot) with (is_dot c). change (Byte.eqb c c_us) with (is_us c).
          rewrite Ep, Edot, Hus. cbn.
          change (white c) with (is_space c). rewrite Hsp. reflexivity. }
        assert (Eok : charok dfn c = dfn c).
        { unfold charok. change (Byte.eqb c c_plus) with (is_plus c).
          change (Byte.eqb c c_dot) with (is_dot c). rewrite Ep, Edot, Esc. reflexivity. }
        rewrite Eok. destruct (dfn c).
        -- cbn [andb]. assert (A := IH (Some c)). cbn [after_plus] in A. rewrite Ep in A.
           apply A; [discriminate | exact Hch'].
        -- rewrite andb_false_r. cbn. split; [discriminate | intros _; exact I].
Qed.

(** * validate_parts / validate_storyline *)
Lemma validate_parts_spec dfn : forall parts acc,
  (forall p c, In p parts -> In c p -> is_space c = false) ->
  let acts := filter nonempty (map strip_us parts) in
  (wf_story dfn acts = true -> validate_parts dfn parts acc = Ok (rev acc ++ acts))
  /\ (wf_story dfn acts = false -> is_err (validate_parts dfn parts acc)).
Proof.
  induction parts as [|p tl IH]; intros acc Hsp; cbn.
  - rewrite app_nil_r. split; [reflexivity | discriminate].
  - assert (Hp : forall c, In c p -> is_space c = false) by (intros c Hc; apply (Hsp p c); [left; reflexivity | exact Hc]).
    rewrite (trim_space_id p Hp).
    assert (Hsp' : forall q c, In q tl -> In c q -> is_space c = false) by (intros q c Hq; apply Hsp; right; exact Hq).
    destruct (strip_us p) as [|x part'] eqn:Epart.
    + cbn. apply IH, Hsp'.
    + cbn [nonempty filter wf_story forallb]. fold (wf_story dfn (filter nonempty (map strip_us tl))).
      set (part := x :: part') in *.
      assert (Hpart : forall c, In c part -> is_space c = false /\ is_us c = false).
      { intros c Hc. rewrite <- Epart in Hc. unfold strip_us in Hc. apply filter_In in Hc.
        destruct Hc as [Hc Hu]. split; [apply Hp, Hc | destruct (is_us c); [discriminate | reflexivity]]. }
      destruct (validate_part_spec dfn (N.pos (Pos.of_succ_nat (List.length acc))) part None) as [Vok Verr];
        [intros _; discriminate | exact Hpart |].
      cbn [after_plus] in Vok, Verr.
      rewrite wf_act_okb. change (nonempty part) with true. cbn [andb].
      destruct (okb true part && forallb (charok dfn) part) eqn:B.
      * rewrite (Vok eq_refl). cbn [andb].
        destruct (IH (part :: acc) Hsp') as [I1 I2]. split.
        -- intros H. etransitivity; [exact (I1 H)|]. cbn [rev]. rewrite <- app_assoc. reflexivity.
        -- exact I2.
      * cbn [andb]. split; [discriminate|]. intros _.
        specialize (Verr eq_refl).
        destruct (validate_part dfn (N.pos (Pos.of_succ_nat (List.length acc))) None part); try contradiction. exact I.
Qed.

Lemma text_parts_no_space text : no_ctl text ->
  forall p c, In p (split_on is_sp text) -> In c p -> is_space c = false.
Proof.
  intros Hd p c Hp Hc. destruct (split_on_in text p c Hp Hc) as [Hin Hsp].
  destruct (is_space c) eqn:E; [|reflexivity].
  rewrite (Hd c Hin E) in Hsp. discriminate.
Qed.

Theorem validate_storyline_spec dfn text : no_ctl text ->
  (wf_story dfn (acts_of text) = true -> validate_storyline dfn text = Ok (acts_of text))
  /\ (wf_story dfn (acts_of text) = false -> is_err (validate_storyline dfn text)).
Proof.
  intros Hd. rewrite acts_of_split. unfold validate_storyline.
  exact (validate_parts_spec dfn (split_on is_sp text) [] (text_parts_no_space text Hd)).
Qed.

(** * wf_story and shapes *)
Lemma wf_story_Forall dfn l : wf_story dfn l = true <-> Forall (fun a => wf_act dfn a = true) l.
Proof. unfold wf_story. rewrite forallb_forall, Forall_forall. reflexivity. Qed.

Lemma wf_story_shaped dfn l : wf_story dfn l = true -> Forall shaped l.
Proof.
  rewrite wf_story_Forall. apply Forall_impl. intros a. apply wf_act_shaped.
Qed.

Lemma wf_act_chars dfn a : wf_act dfn a = true -> forall c, In c a -> charok dfn c = true.
Proof.
  rewrite wf_act_okb, !andb_true_iff. intros [_ H]. rewrite forallb_forall in H. exact H.
Qed.

Lemma charok_plus dfn : charok dfn b_plus = true. Proof. reflexivity. Qed.
Lemma charok_dot dfn : charok dfn b_dot = true. Proof. reflexivity. Qed.

Lemma shaped_chars_wf dfn a : shaped a -> (forall c, In c a -> charok dfn c = true) -> wf_act dfn a = true.
Proof.
  intros Hs Hc. rewrite wf_act_okb, (shaped_okb a Hs).
  destruct (shaped_head a Hs) as (c & tl & -> & _). cbn [nonempty andb].
  apply forallb_forall. exact Hc.
Qed.

(** * The `storyline` clause *)
Theorem do_storyline_spec dfn cur text :
  no_ctl text -> wf_story dfn cur = true ->
  (wf_story dfn (acts_of text) = true ->
     exists new, do_storyline dfn cur text = Ok new
                 /\ wf_story dfn new = true
                 /\ map columns new = union_story (map columns cur) (clause_columns text))
  /\ (wf_story dfn (acts_of text) = false -> is_err (do_storyline dfn cur text)).
Proof.
  intros Hd Hcur. destruct (validate_storyline_spec dfn text Hd) as [Vok Verr]. unfold do_storyline. split.
  - intros Hw. rewrite (Vok Hw). cbn [obind].
    destruct (combine_storylines_spec cur (acts_of text) (wf_story_shaped dfn cur Hcur) (wf_story_shaped dfn _ Hw))
      as (r & Er & Cr & Sr & Fr).
    exists r. split; [exact Er|]. split; [|exact Cr].
    apply wf_story_Forall. rewrite Forall_forall. intros a Ha.
    apply shaped_chars_wf; [rewrite Forall_forall in Sr; apply Sr, Ha|].
    intros c Hc. destruct (Fr a c Ha Hc) as [(a1 & Ha1 & Hc1) | [(a2 & Ha2 & Hc2) | [-> | ->]]].
    + apply wf_story_Forall in Hcur. rewrite Forall_forall in Hcur. exact (wf_act_chars dfn a1 (Hcur a1 Ha1) c Hc1).
    + apply wf_story_Forall in Hw. rewrite Forall_forall in Hw. exact (wf_act_chars dfn a2 (Hw a2 Ha2) c Hc2).
    + apply charok_plus.
    + apply charok_dot.
  - intros Hw. specialize (Verr Hw). destruct (validate_storyline dfn text); try contradiction. exact I.
Qed.

(** * The `edit` clause *)
Lemma join_print l : join_sp l = print_story l.
Proof.
  induction l as [|a tl IH]; [reflexivity|].
  destruct tl as [|b tl]; [cbn; rewrite app_nil_r; reflexivity|].
  change (join_sp (a :: b :: tl)) with (a ++ b_sp :: join_sp (b :: tl)). rewrite IH. reflexivity.
Qed.

Theorem do_edit_spec dfn cur f :
  no_ctl (f (print_story cur)) ->
  let new := acts_of (f (print_story cur)) in
  (wf_story dfn new = true -> do_edit dfn cur f = Ok new)
  /\ (wf_story dfn new = false -> is_err (do_edit dfn cur f)).
Proof.
  intros Hd. unfold do_edit. rewrite join_print. exact (validate_storyline_spec dfn _ Hd).
Qed.

(** The printed form of a well-formed storyline has no white space but ' '. *)
Lemma charok_not_ctl dfn c : charok dfn c = true -> is_space c = true -> c = b_sp.
Proof.
  unfold charok, scene_char. intros H Hs. change (white c) with (is_space c) in H. rewrite Hs in H.
  rewrite !orb_true_r in H. cbn in H. rewrite orb_false_r in H.
  apply orb_true_iff in H. destruct H as [H | H]; apply byte_eqb_eq in H; subst c; discriminate.
Qed.

Lemma print_story_no_ctl dfn l : wf_story dfn l = true -> no_ctl (print_story l).
Proof.
  intros Hw c Hc Hs. apply wf_story_Forall in Hw. rewrite Forall_forall in Hw.
  destruct l as [|a tl]; [destruct Hc|]. cbn in Hc. apply in_app_iff in Hc. destruct Hc as [Hc | Hc].
  - exact (charok_not_ctl dfn c (wf_act_chars dfn a (Hw a (or_introl eq_refl)) c Hc) Hs).
  - apply in_flat_map in Hc. destruct Hc as (x & Hx & [<- | Hc]); [reflexivity|].
    exact (charok_not_ctl dfn c (wf_act_chars dfn x (Hw x (or_intror Hx)) c Hc) Hs).
Qed.

(** * Whole scripts *)

(** Domain of a script: clause texts without control white space; edit
    substitutions that do not introduce any. *)
Definition cmd_dom (c : cmd) : Prop :=
  match c with
  | CStoryline t => no_ctl t
  | CEdit f => forall s, no_ctl s -> no_ctl (f s)
  | _ => True
  end.

Lemma lookup_upd sp c f c' :
  lookup (upd_spec sp c f) c' =
  if Byte.eqb c c' then Some (f (match lookup sp c with Some s => s | None => empty_spec end))
  else lookup sp c'.
Proof.
  induction sp as [|[k v] tl IH]; cbn.
  - destruct (Byte.eqb c c'); reflexivity.
  - destruct (Byte.eqb k c) eqn:E; cbn.
    + apply byte_eqb_eq in E. subst k. destruct (Byte.eqb c c'); reflexivity.
    + destruct (Byte.eqb k c') eqn:E'.
      * apply byte_eqb_eq in E'. subst k. apply eqb_false in E.
        assert (Byte.eqb c c' = false) as -> by (apply eqb_false; congruence). reflexivity.
      * exact IH.
Qed.

Lemma defined_upd_mono sp c f c' : defined sp c' = true -> defined (upd_spec sp c f) c' = true.
Proof.
  unfold defined. rewrite lookup_upd. destruct (Byte.eqb c c'); [reflexivity | auto].
Qed.

Lemma wf_act_mono (d1 d2 : byte -> bool) a :
  (forall c, d1 c = true -> d2 c = true) -> wf_act d1 a = true -> wf_act d2 a = true.
Proof.
  intros Hm. rewrite !wf_act_okb, !andb_true_iff. intros [H1 H2]. split; [exact H1|].
  rewrite forallb_forall in *. intros c Hc. specialize (H2 c Hc). unfold charok in *.
  destruct (Byte.eqb c c_plus || Byte.eqb c c_dot); [reflexivity|]. cbn in *.
  apply andb_true_iff in H2. destruct H2 as [-> H2]. rewrite (Hm c H2). reflexivity.
Qed.

Lemma wf_story_mono (d1 d2 : byte -> bool) l :
  (forall c, d1 c = true -> d2 c = true) -> wf_story d1 l = true -> wf_story d2 l = true.
Proof.
  intros Hm. rewrite !wf_story_Forall. apply Forall_impl. intros a. apply wf_act_mono, Hm.
Qed.

Definition st_wf (st : sstate) : Prop := wf_story (defined (st_specs st)) (st_story st) = true.

(** One clause refines the denotation's step relation and keeps the state
    well formed; it is refused exactly when the clause (resp. the edited
    text) is not well formed, and it never panics or runs out of fuel. *)
Theorem run_cmd_spec cs st c :
  st_wf st -> cmd_dom c ->
  match run_cmd cs st c with
  | Ok st' => st_wf st' /\ story_step (defined (st_specs st)) (st_story st) c (st_story st')
              /\ (forall x, defined (st_specs st) x = true -> defined (st_specs st') x = true)
  | Err _ => match c with
             | CStoryline t => wf_story (defined (st_specs st)) (acts_of t) = false
             | CEdit f => wf_story (defined (st_specs st)) (acts_of (f (print_story (st_story st)))) = false
             | CEntails _ (TActor a) _ => existsb (fun e => bytes_eqb (fst e) a) (cs ++ st_more st) = false
             | _ => False
             end
  | _ => False
  end.
Proof.
  intros Hwf Hdom. destruct c as [more | ch t acts | ch m | ch m | text | f]; cbn [run_cmd].
  - repeat split; [exact Hwf | constructor | auto].
  - destruct t as [a | r]; cbn [select_actors].
    + destruct (existsb (fun e => bytes_eqb (fst e) a) (cs ++ st_more st)) eqn:E; [|reflexivity].
      cbn. repeat split; [|constructor|intros x; apply defined_upd_mono].
      unfold st_wf in *. cbn. eapply wf_story_mono; [|exact Hwf]. intros x. apply defined_upd_mono.
    + destruct (map fst (filter (fun e => bytes_eqb (snd e) r) (cs ++ st_more st))) as [|a l].
      * repeat split; [exact Hwf | constructor | auto].
      * repeat split; [|constructor|intros x; apply defined_upd_mono].
        unfold st_wf in *. cbn. eapply wf_story_mono; [|exact Hwf]. intros x. apply defined_upd_mono.
  - repeat split; [|constructor|intros x; apply defined_upd_mono].
    unfold st_wf in *. cbn. eapply wf_story_mono; [|exact Hwf]. intros x. apply defined_upd_mono.
  - repeat split; [|constructor|intros x; apply defined_upd_mono].
    unfold st_wf in *. cbn. eapply wf_story_mono; [|exact Hwf]. intros x. apply defined_upd_mono.
  - cbn in Hdom. destruct (do_storyline_spec (defined (st_specs st)) (st_story st) text Hdom Hwf) as [Sok Serr].
    destruct (wf_story (defined (st_specs st)) (acts_of text)) eqn:W.
    + destruct (Sok eq_refl) as (new & -> & Wn & Cn). cbn. repeat split; [exact Wn | | auto].
      apply SS_clause; assumption.
    + specialize (Serr eq_refl). destruct (do_storyline _ _ _); cbn; try contradiction. reflexivity.
  - cbn in Hdom.
    assert (Hd : no_ctl (f (print_story (st_story st)))) by (apply Hdom; eapply print_story_no_ctl; exact Hwf).
    destruct (do_edit_spec (defined (st_specs st)) (st_story st) f Hd) as [Eok Eerr].
    destruct (wf_story (defined (st_specs st)) (acts_of (f (print_story (st_story st))))) eqn:W.
    + rewrite (Eok eq_refl). cbn. repeat split; [exact W | | auto].
      apply SS_edit; [reflexivity | exact W].
    + specialize (Eerr eq_refl). destruct (do_edit _ _ _); cbn; try contradiction. reflexivity.
Qed.

Lemma init_wf : st_wf init_state.
Proof. reflexivity. Qed.

(** The invariant over whole scripts, and: a script is never a panic or out
    of fuel. *)
Theorem run_script_inv cs : forall cmds st,
  st_wf st -> Forall cmd_dom cmds ->
  match run_script cs st cmds with
  | Ok st' => st_wf st'
  | Err _ => True
  | _ => False
  end.
Proof.
  induction cmds as [|c tl IH]; intros st Hwf Hdom; cbn; [exact Hwf|].
  inversion Hdom as [|? ? Hc Htl]; subst.
  assert (H := run_cmd_spec cs st c Hwf Hc).
  destruct (run_cmd cs st c) as [st' | e | |]; cbn; try contradiction; [|exact I].
  apply IH; [apply H | exact Htl].
Qed.

(** Clauses only (no edit): the storyline's columns are the union of the
    clauses' columns, in clause order. *)
Theorem run_script_clauses cs : forall cmds st st',
  st_wf st -> Forall cmd_dom cmds -> no_edit cmds = true ->
  run_script cs st cmds = Ok st' ->
  map columns (st_story st') = den_story_from (map columns (st_story st)) cmds.
Proof.
  induction cmds as [|c tl IH]; intros st st' Hwf Hdom Hne Hrun; cbn in Hrun.
  - inversion Hrun; subst. reflexivity.
  - inversion Hdom as [|? ? Hc Htl]; subst.
    assert (H := run_cmd_spec cs st c Hwf Hc).
    destruct (run_cmd cs st c) as [st1 | e | |] eqn:E; cbn in Hrun; try discriminate.
    destruct H as (Hwf1 & Hstep & _).
    destruct c as [more | ch t acts | ch m | ch m | text | f]; cbn in Hne; try discriminate;
      cbn [den_story_from]; rewrite (IH st1 st' Hwf1 Htl Hne Hrun); inversion Hstep; subst; try reflexivity.
    match goal with H : map columns _ = union_story _ _ |- _ => rewrite H end. reflexivity.
Qed.

Lemma run_script_app cs : forall c1 c2 st,
  run_script cs st (c1 ++ c2) = obind (run_script cs st c1) (fun st1 => run_script cs st1 c2).
Proof.
  induction c1 as [|c tl IH]; intros c2 st; cbn; [reflexivity|].
  destruct (run_cmd cs st c); cbn; auto.
Qed.

(** With edits: the clauses after the last edit are united onto the
    substituted text of what was printed before it. *)
Theorem run_script_after_edit cs pre f post st st' :
  st_wf st -> Forall cmd_dom (pre ++ CEdit f :: post) -> no_edit post = true ->
  run_script cs st (pre ++ CEdit f :: post) = Ok st' ->
  exists st0, run_script cs st pre = Ok st0
    /\ wf_story (defined (st_specs st0)) (acts_of (f (print_story (st_story st0)))) = true
    /\ map columns (st_story st') =
       den_story_from (map columns (acts_of (f (print_story (st_story st0))))) post.
Proof.
  intros Hwf Hdom Hne Hrun. rewrite run_script_app in Hrun.
  apply Forall_app in Hdom. destruct Hdom as [Hpre Hpost].
  inversion Hpost as [|? ? Hf Hpost']; subst.
  assert (Hinv := run_script_inv cs pre st Hwf Hpre).
  destruct (run_script cs st pre) as [st0 | | |] eqn:E0; cbn [obind] in Hrun; try discriminate.
  exists st0. split; [reflexivity|].
  change (run_script cs st0 (CEdit f :: post))
    with (obind (run_cmd cs st0 (CEdit f)) (fun st1 => run_script cs st1 post)) in Hrun.
  assert (H := run_cmd_spec cs st0 (CEdit f) Hinv Hf).
  destruct (run_cmd cs st0 (CEdit f)) as [st1 | | |] eqn:E1; cbn [obind] in Hrun; try discriminate.
  destruct H as (Hwf1 & Hstep & _). inversion Hstep; subst.
  match goal with H : st_story st1 = _ |- _ => rewrite <- H end.
  split; [assumption|].
  exact (run_script_clauses cs post st1 st' Hwf1 Hpost' Hne Hrun).
Qed.

(** * Merging at the level of well-formed acts / storylines *)
Theorem combine_acts_wf dfn a1 a2 :
  wf_act dfn a1 = true -> wf_act dfn a2 = true ->
  exists r, combine_acts a1 a2 = Ok r
            /\ columns r = union_act (columns a1) (columns a2)
            /\ wf_act dfn r = true.
Proof.
  intros H1 H2.
  destruct (combine_acts_spec a1 a2) as (r & Er & Cr & _ & Sr & Fr);
    [right; eapply wf_act_shaped; eassumption | right; eapply wf_act_shaped; eassumption |].
  exists r. repeat split; [exact Er | exact Cr |].
  apply shaped_chars_wf; [apply Sr; left; eapply wf_act_shaped; eassumption|].
  intros c Hc. destruct (Fr c Hc) as [H | [H | [-> | ->]]].
  - exact (wf_act_chars dfn a1 H1 c H).
  - exact (wf_act_chars dfn a2 H2 c H).
  - apply charok_plus.
  - apply charok_dot.
Qed.

Theorem combine_storylines_wf dfn l1 l2 :
  wf_story dfn l1 = true -> wf_story dfn l2 = true ->
  exists r, combine_storylines l1 l2 = Ok r
            /\ map columns r = union_story (map columns l1) (map columns l2)
            /\ wf_story dfn r = true.
Proof.
  intros H1 H2.
  destruct (combine_storylines_spec l1 l2 (wf_story_shaped dfn l1 H1) (wf_story_shaped dfn l2 H2))
    as (r & Er & Cr & Sr & Fr).
  exists r. repeat split; [exact Er | exact Cr |].
  apply wf_story_Forall. rewrite Forall_forall. intros a Ha.
  apply shaped_chars_wf; [rewrite Forall_forall in Sr; apply Sr, Ha|].
  intros c Hc. destruct (Fr a c Ha Hc) as [(a1 & Ha1 & Hc1) | [(a2 & Ha2 & Hc2) | [-> | ->]]].
  - apply wf_story_Forall in H1. rewrite Forall_forall in H1. exact (wf_act_chars dfn a1 (H1 a1 Ha1) c Hc1).
  - apply wf_story_Forall in H2. rewrite Forall_forall in H2. exact (wf_act_chars dfn a2 (H2 a2 Ha2) c Hc2).
  - apply charok_plus.
  - apply charok_dot.
Qed.

(** * A well-formed storyline can be printed and read again *)
Lemma charok_plain dfn c : charok dfn c = true -> Byte.eqb c c_us = false /\ Byte.eqb c c_sp = false.
Proof.
  unfold charok, scene_char. intros H. apply orb_true_iff in H. destruct H as [H | H].
  - apply orb_true_iff in H. destruct H as [H | H]; apply byte_eqb_eq in H; subst c; split; reflexivity.
  - apply andb_true_iff in H. destruct H as [H _]. apply negb_true_iff in H.
    rewrite !orb_false_iff in H. destruct H as [[[_ _] Hu] Hw]. split; [exact Hu|].
    destruct (Byte.eqb c c_sp) eqn:E; [|reflexivity]. apply byte_eqb_eq in E. subst c. discriminate.
Qed.

Lemma pieces_plain a : (forall c, In c a -> Byte.eqb c c_sp = false) ->
  forall cur rest, pieces c_sp (a ++ rest) cur = pieces c_sp rest (rev a ++ cur).
Proof.
  induction a as [|x a IH]; intros Ha cur rest; [reflexivity|].
  cbn [app pieces]. rewrite (Ha x (or_introl eq_refl)).
  rewrite IH by (intros c Hc; apply Ha; right; exact Hc). cbn [rev]. rewrite <- app_assoc. reflexivity.
Qed.

Lemma filter_all {A} (f : A -> bool) l : (forall x, In x l -> f x = true) -> filter f l = l.
Proof.
  induction l as [|x l IH]; intros H; [reflexivity|]. cbn. rewrite (H x (or_introl eq_refl)).
  rewrite IH; [reflexivity | intros y Hy; apply H; right; exact Hy].
Qed.

Lemma acts_of_print dfn l : wf_story dfn l = true -> acts_of (print_story l) = l.
Proof.
  intros Hw. apply wf_story_Forall in Hw.
  assert (Hf : filter (fun c => negb (Byte.eqb c c_us)) (print_story l) = print_story l).
  { apply filter_all. intros c Hc.
    destruct l as [|a tl]; [destruct Hc|]. cbn in Hc. rewrite Forall_forall in Hw.
    apply in_app_iff in Hc. destruct Hc as [Hc | Hc].
    - destruct (charok_plain dfn c (wf_act_chars dfn a (Hw a (or_introl eq_refl)) c Hc)) as [-> _]. reflexivity.
    - apply in_flat_map in Hc. destruct Hc as (x & Hx & [<- | Hc]); [reflexivity|].
      destruct (charok_plain dfn c (wf_act_chars dfn x (Hw x (or_intror Hx)) c Hc)) as [-> _]. reflexivity. }
  unfold acts_of. rewrite Hf.
  assert (Hne : forall a, wf_act dfn a = true -> nonempty a = true).
  { intros a Ha. rewrite wf_act_okb, !andb_true_iff in Ha. apply Ha. }
  assert (Hsp : forall a, wf_act dfn a = true -> forall c, In c a -> Byte.eqb c c_sp = false).
  { intros a Ha c Hc. apply (charok_plain dfn c (wf_act_chars dfn a Ha c Hc)). }
  destruct l as [|a tl]; [reflexivity|].
  inversion Hw as [|? ? Ha Htl]; subst. cbn [print_story]. clear Hw Hf.
  revert a Ha. induction tl as [|b tl IH]; intros a Ha.
  - cbn [flat_map]. rewrite (pieces_plain a (Hsp a Ha) [] []). cbn [pieces]. rewrite app_nil_r, rev_involutive.
    cbn [filter]. rewrite (Hne a Ha). reflexivity.
  - inversion Htl as [|? ? Hb Htl']; subst.
    cbn [flat_map]. rewrite (pieces_plain a (Hsp a Ha) []). cbn [app pieces].
    change (Byte.eqb c_sp c_sp) with true. cbn iota. rewrite app_nil_r, rev_involutive.
    cbn [filter]. rewrite (Hne a Ha). f_equal. apply (IH Htl' b Hb).
Qed.

Theorem print_reread dfn l : wf_story dfn l = true ->
  validate_storyline dfn (print_story l) = Ok l.
Proof.
  intros Hw. destruct (validate_storyline_spec dfn (print_story l) (print_story_no_ctl dfn l Hw)) as [H _].
  rewrite (acts_of_print dfn l Hw) in H. exact (H Hw).
Qed.
