(** Proofs for property C11, part 3: end to end.  Over a whole history of
    audit rounds, a collected variable holds the first / last / top / bottom N
    of — and a computed variable the latest non-nil of — the values its
    clauses produced in the rounds where its auditor was active
    ([produced_rounds] of Model/FunctionsSpec.v, which mirrors the round
    machine: dependency gates, activation periods, the order of the members). *)
From Shk Require Import Base.Prelude Model.Value Model.Functions Model.Expr Model.Fsm Model.Audit
  Model.AuditSpec Model.FunctionsSpec Proofs.AuditProofs Proofs.FunctionsProofs Proofs.CollectProofs.
Open Scope list_scope.

Section Trace.
  Variable c : acfg.
  Variable y : var.
  (** how a produced sequence acts on the variable's value *)
  Variable F : value -> list value -> option value.
  Variable Inv : value -> Prop.
  Variable okl : list assignment -> Prop.
  Hypothesis F_nil : forall v, Inv v -> F v [] = Some v.
  Hypothesis F_app : forall v xs ys,
    F v (xs ++ ys) = match F v xs with Some v' => F v' ys | None => None end.
  Hypothesis base : forall ts l s s' o stt v,
    okl l -> Inv v -> lookup_val y (s_vals s) = v -> do_assigns c s ts l = (s', o, stt) ->
    exists v', F v (produced_assigns c s ts l y) = Some v' /\ lookup_val y (s_vals s') = v' /\ Inv v'.

  Definition tr (s : st) (xs : list value) (s' : st) : Prop :=
    forall v, Inv v -> lookup_val y (s_vals s) = v ->
    exists v', F v xs = Some v' /\ lookup_val y (s_vals s') = v' /\ Inv v'.

  Lemma tr_nil s s' : lookup_val y (s_vals s') = lookup_val y (s_vals s) -> tr s [] s'.
  Proof. intros H v Hi Hv. exists v. split; [apply F_nil; exact Hi|]. split; [congruence | exact Hi]. Qed.

  Lemma tr_app s xs s1 ys s2 : tr s xs s1 -> tr s1 ys s2 -> tr s (xs ++ ys) s2.
  Proof.
    intros H1 H2 v Hi Hv. destruct (H1 v Hi Hv) as (v1 & F1 & L1 & I1).
    destruct (H2 v1 I1 L1) as (v2 & F2 & L2 & I2). exists v2. rewrite F_app, F1. auto.
  Qed.

  Lemma tr_vals s xs s1 s1' : s_vals s1' = s_vals s1 -> tr s xs s1 -> tr s xs s1'.
  Proof. intros E H v Hi Hv. destruct (H v Hi Hv) as (v' & A & B & C). exists v'. rewrite E. auto. Qed.

  Lemma tr_vals_l s s0 xs s1 : s_vals s0 = s_vals s -> tr s0 xs s1 -> tr s xs s1.
  Proof. intros E H v Hi Hv. apply (H v Hi). rewrite E. exact Hv. Qed.

  Lemma visit_tr final s ts m s' o stt :
    okl (m_assigns m) -> visit c final s ts m = (s', o, stt) ->
    tr s (produced_visit c final s ts m y) s'.
  Proof.
    intros Hok. unfold visit, produced_visit, visit_entry.
    destruct (get_ms (m_name m) (s_ms s)) as [mm|]; [|intros H; inversion H; subst; apply tr_nil; reflexivity].
    destruct (wanted final s m) as [[w|]|];
      [|intros H; inversion H; subst; apply tr_nil; reflexivity|intros H; inversion H; subst; apply tr_nil; reflexivity].
    cbv zeta.
    destruct (w && negb (ms_auditing mm) && negb (start_ok m)); [intros H; inversion H; subst; apply tr_nil; reflexivity|].
    match goal with |- context [negb ?au] => destruct (negb au) end;
      [intros H; inversion H; subst; apply tr_nil; reflexivity|].
    match goal with |- context [do_assigns c ?s0 ts ?l] =>
      set (s0v := s0); destruct (do_assigns c s0v ts l) as [[s1 o1] st1] eqn:Ed end.
    assert (Ht : tr s (produced_assigns c s0v ts (m_assigns m) y) s1).
    { apply (tr_vals_l s s0v); [reflexivity|]. intros v Hi Hv. eapply base; eassumption. }
    destruct st1; try (intros H; inversion H; subst; exact Ht).
    match goal with |- context [check_expect m s1 ?q] => destruct (check_expect m s1 q) as [[q1 o2] ok2] end.
    destruct (negb ok2); [intros H; inversion H; subst; exact Ht|].
    match goal with |- context [period_end m ?cl q1] => destruct (period_end m cl q1) as [[q2 o3] ok3] end.
    destruct (negb ok3); intros H; inversion H; subst; [exact Ht|].
    eapply tr_vals; [|exact Ht]. reflexivity.
  Qed.

  Lemma visit_all_tr final ts l : (forall m, In m l -> okl (m_assigns m)) ->
    forall s s' o stt, visit_all c final s ts l = (s', o, stt) ->
    tr s (produced_visit_all c final s ts l y) s'.
  Proof.
    induction l as [|m l IH]; intros Hok s s' o stt; cbn [visit_all produced_visit_all].
    - intros H; inversion H; subst. apply tr_nil. reflexivity.
    - destruct (visit c final s ts m) as [[s1 o1] st1] eqn:E1.
      pose proof (visit_tr final s ts m s1 o1 st1 (Hok m (or_introl eq_refl)) E1) as H1.
      destruct st1.
      + destruct (visit_all c final s1 ts l) as [[s2 o2] st2] eqn:E2. intros H; inversion H; subst.
        eapply tr_app; [exact H1|]. eapply IH; [|exact E2]. intros m0 Hin. apply Hok. right; exact Hin.
      + intros H; inversion H; subst. rewrite app_nil_r. exact H1.
      + intros H; inversion H; subst. rewrite app_nil_r. exact H1.
  Qed.

  Hypothesis y_user : user_var y = true.

  Lemma round_tr final s ts vs s' o stt :
    (forall m, In m (c_members c) -> okl (m_assigns m)) -> samples_have_actors vs ->
    round c final s ts vs = (s', o, stt) -> tr s (produced_round c final s ts vs y) s'.
  Proof.
    intros Hok Hvs. rewrite round_eq. unfold produced_round.
    destruct (prelude c s ts vs) as [s4 o4] eqn:Ep. cbn [fst].
    destruct (prelude_keeps c s ts vs y s4 o4 y_user Hvs Ep) as (A & _ & _).
    destruct (visit_all c final s4 ts (c_members c)) as [[s5 o5] st5] eqn:E5.
    intros H; injection H as <- <- <-.
    intros v Hi Hv. eapply (visit_all_tr final ts (c_members c) Hok); [exact E5 | exact Hi | congruence].
  Qed.

  Lemma rounds_tr rs : (forall m, In m (c_members c) -> okl (m_assigns m)) ->
    (forall r, In r rs -> samples_have_actors (r_vs r)) ->
    forall s s' stt, run_rounds c s rs = (s', stt) -> tr s (produced_rounds c s rs y) s'.
  Proof.
    intros Hok. induction rs as [|r rs IH]; intros Hvs s s' stt; cbn [run_rounds produced_rounds].
    - intros H; inversion H; subst. apply tr_nil. reflexivity.
    - destruct (round c (r_final r) (enter s r) (r_ts r) (r_vs r)) as [[s1 o1] st1] eqn:E1.
      assert (H1 : tr s (produced_round c (r_final r) (enter s r) (r_ts r) (r_vs r) y) s1).
      { apply (tr_vals_l s (enter s r)); [unfold enter; destruct (r_mood r) as [[m0 t0]|]; reflexivity|].
        eapply round_tr; [exact Hok | apply Hvs; left; reflexivity | exact E1]. }
      destruct st1.
      + intros H. eapply tr_app; [exact H1|]. eapply IH; [|exact H]. intros r0 Hin. apply Hvs. right; exact Hin.
      + intros H; inversion H; subst. rewrite app_nil_r. exact H1.
      + intros H; inversion H; subst. rewrite app_nil_r. exact H1.
  Qed.
End Trace.

(** * collects *)

Definition F_collect (md : amode) (n : nat) (v : value) (xs : list value) : option value :=
  match collect_seq md n (cur_array v) xs with COk r => Some (VArr r) | _ => None end.
Definition is_arr (v : value) : Prop := exists arr, v = VArr arr.

Lemma F_collect_nil md n v : is_arr v -> F_collect md n v [] = Some v.
Proof. intros [arr ->]. reflexivity. Qed.

Lemma F_collect_app md n v xs ys :
  F_collect md n v (xs ++ ys) = match F_collect md n v xs with Some v' => F_collect md n v' ys | None => None end.
Proof.
  unfold F_collect. rewrite collect_seq_app.
  destruct (collect_seq md n (cur_array v) xs); reflexivity.
Qed.

Lemma do_assigns_produced c y md n : md <> ASingle -> forall ts l s s' o stt v,
  clauses_ok l y md n -> is_arr v -> lookup_val y (s_vals s) = v ->
  do_assigns c s ts l = (s', o, stt) ->
  exists v', F_collect md n v (produced_assigns c s ts l y) = Some v' /\
             lookup_val y (s_vals s') = v' /\ is_arr v'.
Proof.
  intros Hmd ts. induction l as [|a l IH]; intros s s' o stt v Hok [arr ->] Hv.
  - cbn. intros H; inversion H; subst. exists (VArr arr). split; [reflexivity|]. split; [exact Hv | eexists; reflexivity].
  - inversion Hok as [|? ? Ha Hl]; subst. rewrite do_assigns_cons. cbn [produced_assigns].
    destruct (negb (has_deps s (as_expr a))); [apply IH; [exact Hl | eexists; reflexivity | exact Hv]|].
    destruct (eval (env_of s) (as_expr a)) as [x|];
      [|intros H; inversion H; subst; exists (VArr arr); split; [reflexivity|]; split; [exact Hv | eexists; reflexivity]].
    destruct (assigned_value a (lookup_val (target_of a) (s_vals s)) x) as [[w|]|] eqn:Ea;
      try (intros H; inversion H; subst; exists (VArr arr); split; [reflexivity|]; split; [exact Hv | eexists; reflexivity]).
    destruct (var_eqb (target_of a) y) eqn:Et.
    + (* a clause of [y]: one collect step *)
      destruct (Ha eq_refl) as [Hm Hn]. apply var_eqb_eq in Et.
      unfold assigned_value in Ea. rewrite Et, Hv, Hm, Hn in Ea. cbn [cur_array] in Ea.
      assert (Hc : exists r0, collect md arr n x = COk r0 /\ w = VArr r0).
      { destruct md; [congruence| | | |]; destruct (collect _ arr n x) as [r0| |]; inversion Ea; eauto. }
      destruct Hc as (r0 & Hc & ->).
      pose proof (set_var_lookup_same c s (target_of a) (VArr r0) ts) as L1. cbn [is_nil] in L1.
      destruct (set_var c s (target_of a) (VArr r0) ts) as [s1 o1]. cbn [fst] in L1 |- *.
      destruct (do_assigns c s1 ts l) as [[s2 o2] st2] eqn:E2. intros H; injection H as <- <- <-.
      rewrite Et in L1.
      destruct (IH s1 s2 o2 st2 (VArr r0) Hl ltac:(eexists; reflexivity) L1 E2) as (v' & Fv & Lv & Iv).
      exists v'. split; [|split; assumption].
      unfold F_collect in *. cbn [app cur_array collect_seq] in *. rewrite Hc. exact Fv.
    + (* another variable's clause *)
      assert (Hne : var_eqb y (target_of a) = false) by (rewrite var_eqb_sym; exact Et).
      pose proof (set_var_lookup_other c s (target_of a) w ts y Hne) as L1.
      destruct (set_var c s (target_of a) w ts) as [s1 o1]. cbn [fst] in L1 |- *.
      destruct (do_assigns c s1 ts l) as [[s2 o2] st2] eqn:E2. intros H; injection H as <- <- <-.
      cbn [app]. apply (IH s1 s2 o2 st2 (VArr arr) Hl ltac:(eexists; reflexivity)); [congruence | exact E2].
Qed.

(** Over any sequence of rounds: a variable assigned only by `collects ... md
    n` clauses holds, from the empty array, exactly [collected md n] of the
    values those clauses produced. *)
Theorem collected_end_to_end c y md n rs s s' stt :
  md <> ASingle -> (1 <= n)%nat -> user_var y = true ->
  (forall m, In m (c_members c) -> clauses_ok (m_assigns m) y md n) ->
  (forall r, In r rs -> samples_have_actors (r_vs r)) ->
  lookup_val y (s_vals s) = VArr [] ->
  run_rounds c s rs = (s', stt) ->
  lookup_val y (s_vals s') = VArr (collected md n (produced_rounds c s rs y)).
Proof.
  intros Hmd Hn Hu Hok Hvs H0 Hr.
  pose proof (rounds_tr c y (F_collect md n) is_arr (fun l => clauses_ok l y md n)
                (F_collect_nil md n) (F_collect_app md n)
                (fun ts l s0 s1 o st v => do_assigns_produced c y md n Hmd ts l s0 s1 o st v)
                Hu rs Hok Hvs s s' stt Hr (VArr []) ltac:(eexists; reflexivity) H0) as (v' & Fv & Lv & _).
  rewrite Lv. unfold F_collect in Fv. cbn [cur_array] in Fv.
  set (xs := produced_rounds c s rs y) in *.
  destruct md; [congruence| | | |]; cbn [collected].
  - rewrite first_spec in Fv. inversion Fv. reflexivity.
  - rewrite last_spec in Fv by exact Hn. inversion Fv. reflexivity.
  - rewrite top_spec in Fv. destruct (forallb scalar_or_nil xs); inversion Fv. reflexivity.
  - rewrite bottom_spec in Fv. destruct (forallb scalar_or_nil xs); inversion Fv. reflexivity.
Qed.

(** * computes *)


Lemma last_app_default {A} (l1 l2 : list A) d : last (l1 ++ l2) d = last l2 (last l1 d).
Proof.
  revert d. induction l1 as [|x l1 IH]; intros d; [reflexivity|].
  change ((x :: l1) ++ l2) with (x :: (l1 ++ l2)). rewrite !last_cons. apply IH.
Qed.

Lemma non_nil_app a b : non_nil (a ++ b) = non_nil a ++ non_nil b.
Proof. unfold non_nil. apply filter_app. Qed.

Definition F_single (v : value) (xs : list value) : option value := Some (last (non_nil xs) v).

Lemma do_assigns_produced_single c y : forall ts l s s' o stt v,
  clauses_single l y -> True -> lookup_val y (s_vals s) = v ->
  do_assigns c s ts l = (s', o, stt) ->
  exists v', F_single v (produced_assigns c s ts l y) = Some v' /\ lookup_val y (s_vals s') = v' /\ True.
Proof.
  intros ts. unfold F_single. induction l as [|a l IH]; intros s s' o stt v Hok _ Hv.
  - cbn. intros H; injection H as <- <- <-. exists v. auto.
  - inversion Hok as [|a0 l0 Ha Hl]; subst a0 l0. rewrite do_assigns_cons. cbn [produced_assigns].
    destruct (negb (has_deps s (as_expr a))); [apply IH; auto|].
    destruct (eval (env_of s) (as_expr a)) as [x|]; [|intros H; injection H as <- <- <-; exists v; auto].
    destruct (assigned_value a (lookup_val (target_of a) (s_vals s)) x) as [[w|]|] eqn:Ea;
      try (intros H; injection H as <- <- <-; exists v; auto).
    destruct (var_eqb (target_of a) y) eqn:Et.
    + pose proof (Ha eq_refl) as Hm. apply var_eqb_eq in Et.
      unfold assigned_value in Ea. rewrite Hm in Ea. inversion Ea; subst w.
      pose proof (set_var_lookup_same c s (target_of a) x ts) as L1.
      destruct (set_var c s (target_of a) x ts) as [s1 o1]. cbn [fst] in L1 |- *.
      destruct (do_assigns c s1 ts l) as [[s2 o2] st2] eqn:E2. intros H; injection H as <- <- <-.
      rewrite Et in L1.
      destruct (IH s1 s2 o2 st2 _ Hl I L1 E2) as (v' & Fv & Lv & _).
      exists v'. split; [|auto]. rewrite <- Fv. f_equal. cbn [app].
      destruct (is_nil x) eqn:En.
      * rewrite (non_nil_cons_nil _ _ En), Hv. reflexivity.
      * rewrite (non_nil_cons _ _ En), last_cons. reflexivity.
    + assert (Hne : var_eqb y (target_of a) = false) by (rewrite var_eqb_sym; exact Et).
      pose proof (set_var_lookup_other c s (target_of a) w ts y Hne) as L1.
      destruct (set_var c s (target_of a) w ts) as [s1 o1]. cbn [fst] in L1 |- *.
      destruct (do_assigns c s1 ts l) as [[s2 o2] st2] eqn:E2. intros H; injection H as <- <- <-.
      cbn [app]. apply (IH s1 s2 o2 st2 v Hl I); [congruence | exact E2].
Qed.

(** Over any sequence of rounds: a variable assigned only by `computes`
    clauses holds the latest non-nil value they produced (its previous value
    if there was none). *)
Theorem computed_end_to_end c y rs s s' stt :
  user_var y = true ->
  (forall m, In m (c_members c) -> clauses_single (m_assigns m) y) ->
  (forall r, In r rs -> samples_have_actors (r_vs r)) ->
  run_rounds c s rs = (s', stt) ->
  lookup_val y (s_vals s') = last (non_nil (produced_rounds c s rs y)) (lookup_val y (s_vals s)).
Proof.
  intros Hu Hok Hvs Hr.
  assert (Happ : forall v xs ys, F_single v (xs ++ ys) =
                 match F_single v xs with Some v' => F_single v' ys | None => None end).
  { intros v xs ys. unfold F_single. rewrite non_nil_app, last_app_default. reflexivity. }
  pose proof (rounds_tr c y F_single (fun _ => True) (fun l => clauses_single l y)
                (fun v _ => eq_refl) Happ
                (fun ts l s0 s1 o st v => do_assigns_produced_single c y ts l s0 s1 o st v)
                Hu rs Hok Hvs s s' stt Hr _ I eq_refl) as (v' & Fv & Lv & _).
  unfold F_single in Fv. inversion Fv as [H0]. rewrite Lv. symmetry. exact H0.
Qed.

(** * Event histories are sequences of rounds *)

Lemma step_event_rounds c s e :
  let '(s', _, stt) := step_event c s e in run_rounds c s (event_rounds s e) = (s', stt).
Proof.
  destruct e as [ts m|ts vs|ts]; cbn [step_event event_rounds].
  - destruct (String.eqb m (s_mood s)); [reflexivity|].
    unfold mood_change. destruct (s_mood_start s) as [m0|]; cbn [app run_rounds enter r_mood r_final r_ts r_vs].
    + destruct (round c false s ts []) as [[s1 o1] st1]. destruct st1; try reflexivity.
      destruct (round c false (with_mood s1 m ts) ts []) as [[s2 o2] st2]. destruct st2; reflexivity.
    + destruct (round c false (with_mood s m ts) ts []) as [[s2 o2] st2]. destruct st2; reflexivity.
  - cbn [run_rounds enter r_mood r_final r_ts r_vs].
    destruct (round c false s ts vs) as [[s1 o1] st1]. destruct st1; reflexivity.
  - unfold mood_change. destruct (s_mood_start s) as [m0|]; cbn [run_rounds enter r_mood r_final r_ts r_vs].
    + destruct (round c true s ts []) as [[s1 o1] st1]. destruct st1; reflexivity.
    + reflexivity.
Qed.

Lemma run_rounds_app c rs1 rs2 : forall s,
  run_rounds c s (rs1 ++ rs2) =
  let '(s1, st1) := run_rounds c s rs1 in
  match st1 with Running => run_rounds c s1 rs2 | stt => (s1, stt) end.
Proof.
  induction rs1 as [|r rs1 IH]; intros s; cbn [app run_rounds].
  - reflexivity.
  - destruct (round c (r_final r) (enter s r) (r_ts r) (r_vs r)) as [[s1 o1] st1].
    destruct st1; [apply IH | reflexivity | reflexivity].
Qed.

Lemma run_events_rounds c : forall es s os s',
  run_events c s Running es = (os, s', Running) ->
  run_rounds c s (history_rounds c s es) = (s', Running).
Proof.
  induction es as [|e es IH]; intros s os s'; cbn [run_events history_rounds run_rounds].
  - intros H; inversion H; subst. reflexivity.
  - pose proof (step_event_rounds c s e) as He.
    destruct (step_event c s e) as [[s1 o1] st1] eqn:E1.
    destruct (run_events c s1 st1 es) as [[os2 s2] st2] eqn:E2. intros H; inversion H; subst.
    assert (Hst : st1 = Running).
    { destruct st1; [reflexivity| |].
      - exfalso. exact (run_events_aborted_not_running c es _ _ _ _ E2 eq_refl).
      - destruct es; cbn in E2; inversion E2. }
    subst st1. rewrite run_rounds_app, He. cbn [fst]. eapply IH. exact E2.
Qed.

Lemma event_rounds_samples s e :
  match e with ESig _ vs => samples_have_actors vs | _ => True end ->
  forall r, In r (event_rounds s e) -> samples_have_actors (r_vs r).
Proof.
  intros He r. destruct e as [ts m|ts vs|ts]; cbn [event_rounds].
  - destruct (String.eqb m (s_mood s)); [intros []|].
    destruct (s_mood_start s); cbn [app In]; intros H;
      repeat (destruct H as [<-|H]; [intros x v []|]); destruct H.
  - cbn [In]. intros [<-|[]]. exact He.
  - destruct (s_mood_start s); cbn [In]; [intros [<-|[]]; intros x v []|intros []].
Qed.

Lemma history_rounds_samples c : forall es s,
  Forall (fun e => match e with ESig _ vs => samples_have_actors vs | _ => True end) es ->
  forall r, In r (history_rounds c s es) -> samples_have_actors (r_vs r).
Proof.
  induction es as [|e es IH]; intros s Hes r; cbn [history_rounds]; [intros []|].
  inversion Hes as [|? ? He Hl]; subst. intros H. apply in_app_or in H. destruct H as [H|H].
  - eapply event_rounds_samples; eassumption.
  - eapply IH; eassumption.
Qed.


Lemma run_audition_rounds c es os s' :
  run_audition c es = (os, s', Running) ->
  run_rounds c (init_st c) (audition_rounds c es) = (s', Running).
Proof.
  unfold run_audition, audition_rounds, mood_change. cbn [init_st s_mood_start].
  change (initial_round :: ?l) with ([initial_round] ++ l). rewrite run_rounds_app.
  cbn [run_rounds initial_round enter r_mood r_final r_ts r_vs].
  destruct (round c false (with_mood _ "clear" 0) 0 []) as [[s1 o1] st1] eqn:E0.
  destruct st1; try (intros H; inversion H; fail).
  destruct (run_events c s1 Running es) as [[os2 s2] st2] eqn:E1. intros H; inversion H; subst.
  cbn [fst]. eapply run_events_rounds. exact E1.
Qed.

(** ** The end-to-end statements over run_audition *)


Theorem audition_collected c es os s' y md n :
  md <> ASingle -> (1 <= n)%nat -> user_var y = true ->
  (forall m, In m (c_members c) -> clauses_ok (m_assigns m) y md n) ->
  signals_have_actors es ->
  lookup_val y (c_init c) = VArr [] ->
  run_audition c es = (os, s', Running) ->
  lookup_val y (s_vals s') =
  VArr (collected md n (produced_rounds c (init_st c) (audition_rounds c es) y)).
Proof.
  intros Hmd Hn Hu Hok Hes H0 Hr.
  eapply collected_end_to_end; try eassumption.
  - intros r [<-|Hin]; [intros x v []|]. eapply history_rounds_samples; eassumption.
  - apply run_audition_rounds in Hr. exact Hr.
Qed.

Theorem audition_computed c es os s' y :
  user_var y = true ->
  (forall m, In m (c_members c) -> clauses_single (m_assigns m) y) ->
  signals_have_actors es ->
  run_audition c es = (os, s', Running) ->
  lookup_val y (s_vals s') =
  last (non_nil (produced_rounds c (init_st c) (audition_rounds c es) y)) (lookup_val y (c_init c)).
Proof.
  intros Hu Hok Hes Hr.
  apply run_audition_rounds in Hr.
  rewrite (computed_end_to_end c y (audition_rounds c es) (init_st c) s' Running Hu Hok); [reflexivity| |exact Hr].
  intros r [<-|Hin]; [intros x v []|]. eapply history_rounds_samples; eassumption.
Qed.
