(** Proofs about the compiler model (property C06): [compile] against
    [Denote.denote_play] through the stated representation
    [Denote.flatten_play]; the scene definitions of a script against
    [Denote.den_specs]; the schedule reading of the representation. *)
From Shk Require Import Base.Prelude Model.Storyline Model.Compile Model.Denote
     Proofs.StorylineProofs Proofs.StoryScriptProofs.

Local Open Scope Z_scope.

(** The meaning of a scene according to a table. *)
Definition sem_of (sp : specs) (c : byte) : scene_spec :=
  match lookup sp c with Some s => s | None => empty_spec end.

(** * Steps and lines *)
Lemma mk_step_action a : mk_step a = action_step a.
Proof.
  destruct a as [|x a'] using rev_ind; [reflexivity|].
  unfold mk_step, action_step. rewrite rev_app_distr. cbn [rev app].
  rewrite last_last, removelast_last, rev_involutive.
  destruct (a' ++ [x]) eqn:E; [destruct a'; discriminate|]. rewrite <- E. reflexivity.
Qed.

Lemma lines_of_spec_scene_lines sc : lines_of_spec sc = scene_lines sc.
Proof.
  unfold lines_of_spec, scene_lines. induction (ss_entails sc) as [|[a acts] tl IH]; [reflexivity|].
  cbn [map filter flat_map fst snd]. unfold no_steps at 1. cbn [ln_steps].
  destruct acts as [|x acts]; cbn [map negb app].
  - exact IH.
  - rewrite IH. rewrite !mk_step_action. f_equal. f_equal. f_equal.
    apply map_ext. intros; apply mk_step_action.
Qed.

(** * One group *)
Definition sp_of (sem : byte -> scene_spec) (c : byte) : scene_spec :=
  if is_dot c then empty_spec else sem c.

Definition gchars (g : bytes) : list byte := filter (fun c => negb (Byte.eqb c c_plus)) g.

Definition ms_step (sem : byte -> scene_spec) (ms : bytes) (c : byte) : bytes :=
  if negb (is_empty (ss_start (sp_of sem c))) && is_empty ms then ss_start (sp_of sem c) else ms.
Definition me_step (sem : byte -> scene_spec) (me : bytes) (c : byte) : bytes :=
  if negb (is_empty (ss_end (sp_of sem c))) then ss_end (sp_of sem c) else me.

Definition char_ok (sp : specs) (sem : byte -> scene_spec) (c : byte) : Prop :=
  c = b_plus \/ (is_us c = false /\ (is_dot c = true \/ lookup sp c = Some (sem c))).

Lemma compile_grp sp sem tempo g : grp g ->
  (forall c, In c g -> char_ok sp sem c) ->
  forall rest at_ ms me cur, head_ok rest ->
  compile_loop sp tempo (g ++ rest) at_ ms me cur =
  obind (compile_loop sp tempo rest (at_ + tempo) [] [] [])
        (fun r => Ok (end_group at_ (fold_left (ms_step sem) (gchars g) ms)
                                (fold_left (me_step sem) (gchars g) me)
                                (cur ++ flat_map (fun c => lines_of_spec (sp_of sem c)) (gchars g)) ++ r)).
Proof.
  induction 1 as [c Hc | c g Hc Hg IH]; intros Hok rest at_ ms me cur Hrest.
  - assert (Hp : is_plus c = false) by (apply is_plus_false, Hc).
    destruct (Hok c (or_introl eq_refl)) as [-> | [Hus Hl]]; [congruence|].
    assert (Hsc : (if is_dot c then Some empty_spec else lookup sp c) = Some (sp_of sem c)).
    { unfold sp_of. destruct (is_dot c); [reflexivity|]. destruct Hl as [Hl | Hl]; [discriminate | exact Hl]. }
    cbn [app compile_loop]. rewrite Hp, Hus. cbn [orb]. rewrite Hsc.
    unfold gchars. cbn [filter]. change (Byte.eqb c c_plus) with (is_plus c). rewrite Hp. cbn [negb fold_left flat_map].
    rewrite app_nil_r. unfold ms_step, me_step.
    destruct rest as [|p rest']; [reflexivity|].
    cbn in Hrest. apply is_plus_false in Hrest. rewrite Hrest. reflexivity.
  - assert (Hp : is_plus c = false) by (apply is_plus_false, Hc).
    destruct (Hok c (or_introl eq_refl)) as [-> | [Hus Hl]]; [congruence|].
    assert (Hsc : (if is_dot c then Some empty_spec else lookup sp c) = Some (sp_of sem c)).
    { unfold sp_of. destruct (is_dot c); [reflexivity|]. destruct Hl as [Hl | Hl]; [discriminate | exact Hl]. }
    change ((c :: b_plus :: g) ++ rest) with (c :: b_plus :: (g ++ rest)).
    cbn [compile_loop]. rewrite Hp, Hus. cbn [orb]. rewrite Hsc.
    change (is_plus b_plus) with true. cbn iota.
    rewrite IH; [|intros x Hx; apply Hok; right; right; exact Hx | exact Hrest].
    unfold gchars. cbn [filter]. change (Byte.eqb c c_plus) with (is_plus c). rewrite Hp.
    change (Byte.eqb b_plus c_plus) with true. cbn [negb fold_left flat_map].
    rewrite <- app_assoc. reflexivity.
Qed.

(** The running mood / line state of the compiler against the denotation of
    the group's column. *)
Definition to_opt (s : bytes) : option bytes := if is_empty s then None else Some s.

Lemma nonempty_is_empty s : nonempty s = negb (is_empty s).
Proof. destruct s; reflexivity. Qed.

Lemma ms_fold_spec sem l : forall ms,
  to_opt (fold_left (ms_step sem) l ms) =
  match to_opt ms with
  | Some m => Some m
  | None => first_nonempty (map (fun c => ss_start (sem c)) (flat_map scenes_of l))
  end.
Proof.
  induction l as [|c l IH]; intros ms; cbn [fold_left flat_map map].
  - unfold first_nonempty. cbn. destruct (to_opt ms); reflexivity.
  - rewrite IH. unfold ms_step, sp_of, scenes_of. change (Byte.eqb c c_dot) with (is_dot c).
    destruct (is_dot c); cbn [ss_start empty_spec is_empty negb andb app].
    + reflexivity.
    + unfold first_nonempty. cbn [map app find]. rewrite nonempty_is_empty.
      unfold to_opt. destruct (is_empty ms) eqn:Em.
      * rewrite andb_true_r.
        destruct (is_empty (ss_start (sem c))) eqn:Es; cbn [negb]; [rewrite Em | rewrite Es]; reflexivity.
      * rewrite andb_false_r. rewrite Em. reflexivity.
Qed.

Lemma find_app {A} (f : A -> bool) l1 l2 :
  find f (l1 ++ l2) = match find f l1 with Some x => Some x | None => find f l2 end.
Proof. induction l1 as [|a l1 IH]; cbn; [reflexivity|]. destruct (f a); [reflexivity | exact IH]. Qed.

Lemma last_nonempty_cons x l :
  last_nonempty (x :: l) =
  match last_nonempty l with Some m => Some m | None => if nonempty x then Some x else None end.
Proof.
  unfold last_nonempty. cbn [rev]. rewrite find_app. cbn [find].
  destruct (find nonempty (rev l)); reflexivity.
Qed.

Lemma me_fold_spec sem l : forall me,
  to_opt (fold_left (me_step sem) l me) =
  match last_nonempty (map (fun c => ss_end (sem c)) (flat_map scenes_of l)) with
  | Some m => Some m
  | None => to_opt me
  end.
Proof.
  induction l as [|c l IH]; intros me; cbn [fold_left flat_map map].
  - reflexivity.
  - rewrite IH. assert (Hs : scenes_of c = if is_dot c then [] else [c]) by reflexivity.
    rewrite Hs. unfold me_step, sp_of.
    destruct (is_dot c); cbn [ss_end empty_spec is_empty negb app map].
    + reflexivity.
    + rewrite last_nonempty_cons.
      destruct (last_nonempty (map (fun c0 => ss_end (sem c0)) (flat_map scenes_of l))); [reflexivity|].
      rewrite nonempty_is_empty. unfold to_opt.
      destruct (is_empty (ss_end (sem c))) eqn:Es; cbn [negb]; [reflexivity | rewrite Es; reflexivity].
Qed.

Lemma lines_fold_spec sem l :
  flat_map (fun c => lines_of_spec (sp_of sem c)) l =
  flat_map (fun c => scene_lines (sem c)) (flat_map scenes_of l).
Proof.
  induction l as [|c l IH]; [reflexivity|]. cbn [flat_map]. rewrite flat_map_app, IH.
  unfold sp_of, scenes_of. change (Byte.eqb c c_dot) with (is_dot c).
  destruct (is_dot c); cbn; [reflexivity|]. rewrite app_nil_r, lines_of_spec_scene_lines. reflexivity.
Qed.

Lemma end_group_flatten at_ ms me cur :
  end_group at_ ms me cur = flatten_group (mkGroup at_ (to_opt ms) cur (to_opt me)).
Proof.
  unfold end_group, flatten_group, to_opt. cbn [g_before g_lines g_after g_at].
  destruct (is_empty ms), (is_empty me), cur; reflexivity.
Qed.

Lemma gcol_gchars g : gcol g = flat_map scenes_of (gchars g).
Proof. reflexivity. Qed.

Lemma group_compiles sem at_ g :
  end_group at_ (fold_left (ms_step sem) (gchars g) []) (fold_left (me_step sem) (gchars g) [])
            ([] ++ flat_map (fun c => lines_of_spec (sp_of sem c)) (gchars g))
  = flatten_group (denote_group sem at_ (gcol g)).
Proof.
  rewrite end_group_flatten, ms_fold_spec, me_fold_spec, lines_fold_spec. cbn [app to_opt is_empty].
  unfold denote_group. rewrite gcol_gchars.
  destruct (last_nonempty _); reflexivity.
Qed.

(** * One act *)
Lemma compile_loop_shaped sp sem tempo s : rest_ok s ->
  (forall c, In c s -> char_ok sp sem c) ->
  forall k, compile_loop sp tempo s (k * tempo) [] [] [] =
            Ok (flat_map flatten_group (denote_groups sem tempo k (columns s))
                ++ [mkScene ((k + Z.of_nat (List.length (columns s))) * tempo) []]).
Proof.
  intros [-> | Hs].
  - intros _ k. cbn. rewrite Z.add_0_r. reflexivity.
  - induction Hs as [g Hg | g r Hg Hr IH]; intros Hok k.
    + rewrite <- (app_nil_r g) at 1.
      rewrite (compile_grp sp sem tempo g Hg Hok [] (k * tempo) [] [] [] I).
      cbn [compile_loop obind]. rewrite group_compiles, (columns_grp_only g Hg).
      cbn [denote_groups flat_map List.length]. rewrite app_nil_r.
      replace (k * tempo + tempo) with ((k + Z.of_nat 1) * tempo) by lia. reflexivity.
    + rewrite (compile_grp sp sem tempo g Hg) by
        (try (intros c Hc; apply Hok, in_app_iff; left; exact Hc); try (apply rest_ok_head; right; exact Hr)).
      replace (k * tempo + tempo) with ((k + 1) * tempo) by lia.
      rewrite IH by (intros c Hc; apply Hok, in_app_iff; right; exact Hc).
      cbn [obind]. rewrite group_compiles.
      rewrite (columns_grp g Hg r) by (apply rest_ok_head; right; exact Hr).
      cbn [denote_groups flat_map List.length]. rewrite <- app_assoc.
      replace (k + 1 + Z.of_nat (List.length (columns r))) with (k + Z.of_nat (S (List.length (columns r)))) by lia.
      reflexivity.
Qed.

Lemma wf_act_char_ok sp a : wf_act (defined sp) a = true ->
  forall c, In c a -> char_ok sp (sem_of sp) c.
Proof.
  intros Hw c Hc. assert (H := wf_act_chars _ a Hw c Hc). unfold charok in H.
  apply orb_true_iff in H. destruct H as [H | H].
  - apply orb_true_iff in H. destruct H as [H | H].
    + left. apply byte_eqb_eq in H. exact H.
    + right. apply byte_eqb_eq in H. subst c. split; [reflexivity | left; reflexivity].
  - right. apply andb_true_iff in H. destruct H as [Hsc Hd]. split.
    + unfold scene_char in Hsc. change (Byte.eqb c c_us) with (is_us c) in Hsc.
      destruct (is_us c); [|reflexivity]. rewrite orb_true_r in Hsc. discriminate.
    + right. unfold defined in Hd. unfold sem_of. destruct (lookup sp c); [reflexivity | discriminate].
Qed.

Theorem compile_act_denotes sp tempo a : wf_act (defined sp) a = true ->
  compile_act sp tempo a = Ok (flatten_act (denote_act (sem_of sp) tempo (columns a))).
Proof.
  intros Hw. unfold compile_act.
  assert (H := compile_loop_shaped sp (sem_of sp) tempo a (or_intror (wf_act_shaped _ a Hw))
                                   (wf_act_char_ok sp a Hw) 0).
  rewrite Z.mul_0_l, Z.add_0_l in H. exact H.
Qed.

Theorem compile_denotes sp tempo : forall sl, wf_story (defined sp) sl = true ->
  compile sp tempo sl = Ok (flatten_play (denote_play (sem_of sp) tempo (map columns sl))).
Proof.
  induction sl as [|a tl IH]; intros Hw; [reflexivity|].
  cbn in Hw. apply andb_true_iff in Hw. destruct Hw as [Ha Htl].
  cbn [compile]. rewrite (compile_act_denotes sp tempo a Ha). cbn [obind].
  rewrite (IH Htl). reflexivity.
Qed.

(** * The scene definitions of a script *)
Lemma sem_of_upd sp ch f c :
  sem_of (upd_spec sp ch f) c = if Byte.eqb ch c then f (sem_of sp ch) else sem_of sp c.
Proof. unfold sem_of. rewrite lookup_upd. destruct (Byte.eqb ch c); reflexivity. Qed.

Lemma select_actors_of cs t found : select_actors cs t = Some found -> found = actors_of cs t.
Proof.
  destruct t as [a | r]; cbn.
  - destruct (existsb (fun e => bytes_eqb (fst e) a) cs); intros H; inversion H; reflexivity.
  - intros H; inversion H; subst. clear H. induction cs as [|[a r'] tl IH]; [reflexivity|].
    cbn. destruct (bytes_eqb r' r); cbn; rewrite IH; reflexivity.
Qed.

Definition extend (cs : cast) (cmds : list cmd) (base : scene_spec) (c : byte) : scene_spec :=
  mkSpec (ss_entails base ++ den_entails cs cmds c)
         (den_start cmds c (ss_start base))
         (den_end cmds c (ss_end base)).

Lemma spec_eta s : mkSpec (ss_entails s) (ss_start s) (ss_end s) = s.
Proof. destruct s; reflexivity. Qed.

Lemma run_script_specs cs : forall cmds st st',
  run_script cs st cmds = Ok st' ->
  forall c, sem_of (st_specs st') c = extend (cs ++ st_more st) cmds (sem_of (st_specs st) c) c.
Proof.
  induction cmds as [|cm tl IH]; intros st st' Hrun c.
  - inversion Hrun; subst. unfold extend. cbn. rewrite app_nil_r. symmetry. apply spec_eta.
  - cbn [run_script] in Hrun.
    destruct (run_cmd cs st cm) as [st1 | | |] eqn:E; cbn [obind] in Hrun; try discriminate.
    rewrite (IH st1 st' Hrun c). unfold extend.
    destruct cm as [more | ch t acts | ch m | ch m | text | f]; cbn [run_cmd] in E; cbn [den_entails den_start den_end].
    + inversion E; subst. cbn [st_more st_specs]. rewrite app_assoc. reflexivity.
    + destruct (select_actors (cs ++ st_more st) t) as [found|] eqn:Es; [|discriminate].
      apply select_actors_of in Es. rewrite <- Es.
      destruct found as [|a l].
      * inversion E; subst. cbn [map]. destruct (Byte.eqb ch c); reflexivity.
      * inversion E; subst. cbn [st_specs]. rewrite sem_of_upd.
        destruct (Byte.eqb ch c) eqn:Ec.
        -- apply byte_eqb_eq in Ec. subst ch. cbn [ss_entails ss_start ss_end]. rewrite <- app_assoc. reflexivity.
        -- reflexivity.
    + inversion E; subst. cbn [st_specs]. rewrite sem_of_upd.
      destruct (Byte.eqb ch c) eqn:Ec; [apply byte_eqb_eq in Ec; subst ch|]; reflexivity.
    + inversion E; subst. cbn [st_specs]. rewrite sem_of_upd.
      destruct (Byte.eqb ch c) eqn:Ec; [apply byte_eqb_eq in Ec; subst ch|]; reflexivity.
    + destruct (do_storyline _ _ _); cbn [obind] in E; try discriminate. inversion E; subst. reflexivity.
    + destruct (do_edit _ _ _); cbn [obind] in E; try discriminate. inversion E; subst. reflexivity.
Qed.

Theorem script_specs_denote cs cmds st :
  run_script cs init_state cmds = Ok st ->
  forall c, sem_of (st_specs st) c = den_specs cs cmds c.
Proof. intros H c. rewrite (run_script_specs cs cmds init_state st H c). cbn [st_more init_state]. rewrite app_nil_r. reflexivity. Qed.

(** denote_play only looks at the meaning of the scenes it meets *)
Lemma denote_groups_ext sem1 sem2 tempo : (forall c, sem1 c = sem2 c) ->
  forall cols k, denote_groups sem1 tempo k cols = denote_groups sem2 tempo k cols.
Proof.
  intros He. induction cols as [|col tl IH]; intros k; [reflexivity|].
  cbn [denote_groups]. rewrite IH. f_equal. unfold denote_group. f_equal.
  - f_equal. apply map_ext. intros c. rewrite He. reflexivity.
  - apply flat_map_ext. intros c. rewrite He. reflexivity.
  - f_equal. apply map_ext. intros c. rewrite He. reflexivity.
Qed.

Lemma denote_play_ext sem1 sem2 tempo story : (forall c, sem1 c = sem2 c) ->
  denote_play sem1 tempo story = denote_play sem2 tempo story.
Proof.
  intros He. unfold denote_play. apply map_ext. intros cols. unfold denote_act.
  rewrite (denote_groups_ext sem1 sem2 tempo He). reflexivity.
Qed.

Theorem script_compiles_to_denotation cs tempo cmds st :
  Forall cmd_dom cmds ->
  run_script cs init_state cmds = Ok st ->
  compile_script cs tempo cmds =
  Ok (st_story st,
      flatten_play (denote_play (den_specs cs cmds) tempo (map columns (st_story st)))).
Proof.
  intros Hdom Hrun. unfold compile_script. rewrite Hrun. cbn [obind].
  assert (Hwf := run_script_inv cs cmds init_state init_wf Hdom). rewrite Hrun in Hwf.
  rewrite (compile_denotes (st_specs st) tempo (st_story st) Hwf). cbn [obind].
  rewrite (denote_play_ext _ _ tempo _ (script_specs_denote cs cmds st Hrun)). reflexivity.
Qed.

(** * The schedule reading of the representation *)
Lemma timeline_group g tl t :
  0 <= t <= g_at g ->
  exists t', timeline_from t (flatten_group g ++ tl) =
             (let '(evs, e) := timeline_from t' tl in (group_events g ++ evs, e))
             /\ t <= t' <= g_at g /\ (t' = t \/ t' = g_at g).
Proof.
  intros Ht. destruct g as [at_ before lines after]. cbn [g_at] in Ht.
  unfold flatten_group, group_events. cbn [g_before g_lines g_after g_at].
  assert (Hmax : forall x, 0 <= x <= at_ -> (if at_ =? 0 then x else Z.max x at_) = at_).
  { intros x Hx. destruct (at_ =? 0) eqn:E; [apply Z.eqb_eq in E; lia | lia]. }
  destruct before as [mb|], lines as [|l ls], after as [ma|]; cbn [app timeline_from sc_wait sc_lines mood_sc];
    try rewrite (Hmax t Ht); try rewrite (Hmax at_) by lia; cbn [Z.eqb];
    try (exists at_; split; [destruct (timeline_from at_ tl); reflexivity | lia]).
  exists t. split; [destruct (timeline_from t tl); reflexivity | lia].
Qed.

Lemma timeline_groups sem tempo : 0 <= tempo ->
  forall cols k t e, 0 <= k -> 0 <= t <= k * tempo -> e = (k + Z.of_nat (List.length cols)) * tempo ->
  timeline_from t (flat_map flatten_group (denote_groups sem tempo k cols) ++ [mkScene e []])
  = (flat_map group_events (denote_groups sem tempo k cols), e).
Proof.
  intros Htempo. induction cols as [|col tl IH]; intros k t e Hk Ht He.
  - cbn. rewrite Z.add_0_r in He. subst e.
    destruct (k * tempo =? 0) eqn:E; [apply Z.eqb_eq in E; f_equal; lia | f_equal; lia].
  - cbn [denote_groups flat_map]. rewrite <- app_assoc.
    destruct (timeline_group (denote_group sem (k * tempo) col)
                             (flat_map flatten_group (denote_groups sem tempo (k + 1) tl) ++ [mkScene e []]) t)
      as (t' & Et & Ht' & _); [exact Ht|].
    rewrite Et. cbn [g_at denote_group] in Ht'.
    rewrite (IH (k + 1) t' e); [reflexivity | lia | nia |].
    subst e. cbn [List.length]. lia.
Qed.

Theorem flatten_schedule sem tempo cols : 0 <= tempo ->
  timeline (flatten_act (denote_act sem tempo cols)) = act_events (denote_act sem tempo cols).
Proof.
  intros Htempo. unfold timeline, flatten_act, act_events, denote_act. cbn [fst snd].
  apply (timeline_groups sem tempo Htempo cols 0 0); lia.
Qed.

(** Every event of group k is at k * tempo. *)
Lemma group_events_at g : forall ev, In ev (group_events g) -> fst ev = g_at g.
Proof.
  unfold group_events. intros ev H. rewrite !in_app_iff in H.
  destruct (g_before g), (g_lines g), (g_after g); cbn in H; intuition (subst; reflexivity).
Qed.

(** A script in the domain is compiled or refused; never a panic, never out of
    fuel (in the model). *)
Theorem script_never_panics cs tempo cmds : Forall cmd_dom cmds ->
  match compile_script cs tempo cmds with Ok _ | Err _ => True | _ => False end.
Proof.
  intros Hdom. assert (Hinv := run_script_inv cs cmds init_state init_wf Hdom).
  destruct (run_script cs init_state cmds) as [st | e | |] eqn:E; try contradiction.
  - rewrite (script_compiles_to_denotation cs tempo cmds st Hdom E). exact I.
  - unfold compile_script. rewrite E. exact I.
Qed.
