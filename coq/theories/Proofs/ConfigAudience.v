(** Replay of the printed audience and interpretation sections (C10). *)
From Coq Require Import String Permutation.
From Shk Require Import Base.Prelude Model.Storyline Model.Config.
From Shk Require Import Proofs.ConfigText Proofs.ConfigRoles Proofs.ConfigCast Proofs.ConfigScript Proofs.ConfigExpr Proofs.ConfigMember.
Open Scope Z_scope.

Section Aud3.
Variable orc : oracles.
Variables (ti au se : list bytes) (ro : list role) (ac : list actor) (sc : list scenespec)
          (te : Z) (st : list bytes) (fr : option bytes) (an to co : Z).
Notation S := (S ti au se ro ac sc te st fr an to co).
Notation member_ok := (member_ok orc ti au se ro ac sc te st fr an to co).

Fixpoint aud_ok (pre : list member) (aud : list member) : bool :=
  match aud with
  | [] => true
  | m :: tl =>
      negb (mem_bytes (m_name m) (map m_name pre)) && ident_ok (m_name m) && member_ok pre m
      && aud_ok (pre ++ [canon_member m]) tl
  end.

Lemma run_audience aud : forall pre,
  aud_ok pre aud = true ->
  run orc (flat_map print_member aud) (S pre) = Ok (S (pre ++ map canon_member aud)).
Proof.
  induction aud as [|m aud IH]; intros pre H; cbn [flat_map map].
  - cbn. rewrite app_nil_r. reflexivity.
  - cbn [aud_ok] in H. apply andb_prop in H as [H Htl]. apply andb_prop in H as [H Hm]. apply andb_prop in H as [Hn Hid].
    apply negb_true_iff in Hn.
    rewrite run_app.
    rewrite (run_member orc ti au se ro ac sc te st fr an to co pre (m_name m) Hn Hid m eq_refl Hm).
    cbn [obind]. rewrite (IH _ Htl). rewrite <- app_assoc. reflexivity.
Qed.

(** ** interpretation *)
Definition canon2 (m : member) : member :=
  mkMember (m_name m) (m_cond m) (m_assigns m) (m_expect m) (canon_obs m) (m_ylabel m) (m_noplot m)
    (match m_expect m with Some _ => m_foulbad m | None => FNonZero end)
    (match m_expect m with Some _ => m_foulgood m | None => FIgnore end).

Lemma find_member_mid n A x B :
  mem_bytes n (map m_name A) = false -> m_name x = n -> find_member n (A ++ x :: B) = Some x.
Proof.
  induction A as [|y A IH]; cbn.
  - intros _ <-. rewrite bytes_eqb_refl. reflexivity.
  - intros H E. apply orb_false_elim in H as [H1 H2]. rewrite H1. auto.
Qed.

Lemma put_member_mid A x B x' :
  mem_bytes (m_name x') (map m_name A) = false -> m_name x = m_name x' ->
  put_member (A ++ x :: B) x' = A ++ x' :: B.
Proof.
  induction A as [|y A IH]; cbn.
  - intros _ ->. rewrite bytes_eqb_refl. reflexivity.
  - intros H E. apply orb_false_elim in H as [H1 H2]. rewrite H1, (IH H2 E). reflexivity.
Qed.

Lemma foul_decode f :
  (if bytes_eqb (foul_text f) (bs "ignore") then Some FIgnore
   else if bytes_eqb (foul_text f) (bs "foul") then Some FNonZero
   else if bytes_eqb (foul_text f) (bs "require") then Some FZero else None) = Some f.
Proof. destruct f; reflexivity. Qed.

Lemma apply_interp_clause A x B f (bad : bool) :
  mem_bytes (m_name x) (map m_name A) = false ->
  ident_ok (m_name x) = true ->
  apply orc (S (A ++ x :: B)) (CInterp (foul_text f) (m_name x) (if bad then bs "disappointment" else bs "satisfaction"))
  = Ok (S (A ++ set_foul bad f x :: B)).
Proof.
  intros Hn Hid. cbn [apply]. rewrite foul_decode. cbn [of_opt obind]. unfold check. rewrite Hid.
  assert (Hd : decode_result (if bad then bs "disappointment" else bs "satisfaction") = Some bad) by (destruct bad; reflexivity).
  rewrite Hd. cbn [of_opt obind c_aud S].
  rewrite find_member_mid by auto. cbn [of_opt obind].
  unfold with_member, set_aud. cbn [c_aud S]. rewrite put_member_mid; [reflexivity| |].
  - destruct bad; exact Hn.
  - destruct bad; reflexivity.
Qed.

Lemma run_interp_member A m B :
  mem_bytes (m_name m) (map m_name A) = false ->
  ident_ok (m_name m) = true ->
  run orc (print_interp m) (S (A ++ canon_member m :: B)) = Ok (S (A ++ canon2 m :: B)).
Proof.
  intros Hn Hid. unfold print_interp, canon2.
  destruct (m_expect m) as [fe|] eqn:Ee.
  2:{ cbn [run]. unfold canon_member. rewrite Ee. reflexivity. }
  cbn [run].
  pose proof (apply_interp_clause A (canon_member m) B (m_foulbad m) true Hn Hid) as H1.
  cbn [canon_member m_name] in H1. rewrite H1. cbn [obind].
  pose proof (apply_interp_clause A (set_foul true (m_foulbad m) (canon_member m)) B (m_foulgood m) false Hn Hid) as H2.
  cbn [set_foul set_foulbad canon_member m_name] in H2. cbn [set_foul set_foulbad canon_member]. rewrite H2. cbn [obind].
  unfold set_foul, set_foulgood. cbn. rewrite Ee. reflexivity.
Qed.

Lemma canon_member_name m : m_name (canon_member m) = m_name m. Proof. reflexivity. Qed.
Lemma canon2_name m : m_name (canon2 m) = m_name m. Proof. reflexivity. Qed.

Lemma map_name_canon l : map m_name (map canon_member l) = map m_name l.
Proof. rewrite map_map. reflexivity. Qed.
Lemma map_name_canon2 l : map m_name (map canon2 l) = map m_name l.
Proof. rewrite map_map. reflexivity. Qed.

Lemma run_interp aud : forall done,
  nodup_b (map m_name (done ++ aud)) = true ->
  forallb (fun m => ident_ok (m_name m)) aud = true ->
  run orc (flat_map print_interp aud) (S (map canon2 done ++ map canon_member aud))
  = Ok (S (map canon2 (done ++ aud))).
Proof.
  induction aud as [|m aud IH]; intros done Hnd Hid; cbn [flat_map map].
  - cbn. rewrite !app_nil_r. reflexivity.
  - cbn [forallb] in Hid. apply andb_prop in Hid as [Hm Hid].
    rewrite run_app. rewrite run_interp_member; auto.
    2:{ rewrite map_name_canon2. rewrite map_app in Hnd. cbn in Hnd. apply (nodup_b_mid _ _ _ Hnd). }
    cbn [obind].
    replace (map canon2 done ++ canon2 m :: map canon_member aud) with (map canon2 (done ++ [m]) ++ map canon_member aud)
      by (rewrite map_app; cbn; rewrite <- app_assoc; reflexivity).
    rewrite IH; auto.
    + rewrite <- app_assoc. reflexivity.
    + rewrite <- app_assoc. exact Hnd.
Qed.

End Aud3.
