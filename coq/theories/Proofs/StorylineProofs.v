(** Proofs about the storyline string functions (property C06), part 1:
    shapes of acts, [extract_action], [combine_acts], [combine_storylines]
    against the denotation of Model/Denote.v.  All by induction on the
    strings; no length bound anywhere. *)
From Shk Require Import Base.Prelude Model.Storyline Model.Compile Model.Denote.

Local Open Scope nat_scope.

(** * Bytes *)
Lemma is_plus_true c : is_plus c = true <-> c = b_plus.
Proof. apply byte_eqb_eq. Qed.
Lemma is_plus_false c : is_plus c = false <-> c <> b_plus.
Proof.
  unfold is_plus. split.
  - intros H E. apply byte_eqb_eq in E. congruence.
  - intros H. destruct (Byte.eqb c b_plus) eqn:E; [apply byte_eqb_eq in E; contradiction | reflexivity].
Qed.
Lemma eqb_false c d : Byte.eqb c d = false <-> c <> d.
Proof.
  split.
  - intros H E. apply byte_eqb_eq in E. congruence.
  - intros H. destruct (Byte.eqb c d) eqn:E; [apply byte_eqb_eq in E; contradiction | reflexivity].
Qed.
Lemma eqb_refl c : Byte.eqb c c = true.
Proof. apply byte_eqb_eq. reflexivity. Qed.

(** * Groups and shaped acts

    [grp g]: one scene group as written: a non-`+` byte followed by any number
    of (`+`, non-`+` byte) pairs.  [shaped s]: one or more groups. *)
Inductive grp : bytes -> Prop :=
| grp_one c : c <> b_plus -> grp [c]
| grp_more c g : c <> b_plus -> grp g -> grp (c :: b_plus :: g).

Inductive shaped : bytes -> Prop :=
| sh_one g : grp g -> shaped g
| sh_cons g r : grp g -> shaped r -> shaped (g ++ r).

(** "empty or shaped": what is left of an act after some groups. *)
Definition rest_ok (r : bytes) : Prop := r = [] \/ shaped r.

(** first byte is not `+` (or there is none) *)
Definition head_ok (r : bytes) : Prop := match r with [] => True | c :: _ => c <> b_plus end.

Lemma grp_head g : grp g -> exists c tl, g = c :: tl /\ c <> b_plus.
Proof. intros [c H | c g' H _]; eauto. Qed.

Lemma shaped_head s : shaped s -> exists c tl, s = c :: tl /\ c <> b_plus.
Proof.
  intros [g H | g r H _]; destruct (grp_head g H) as (c & tl & -> & Hc); cbn; eauto.
Qed.

Lemma rest_ok_head r : rest_ok r -> head_ok r.
Proof.
  intros [-> | H]; cbn; auto. destruct (shaped_head r H) as (c & tl & -> & Hc). exact Hc.
Qed.

Lemma shaped_nonempty s : shaped s -> s <> [].
Proof. intros H. destruct (shaped_head s H) as (c & tl & -> & _). discriminate. Qed.

Lemma shaped_plus c t : c <> b_plus -> shaped t -> shaped (c :: b_plus :: t).
Proof.
  intros Hc [g H | g r H Hr].
  - apply sh_one. constructor; assumption.
  - change (shaped ((c :: b_plus :: g) ++ r)). apply sh_cons; [constructor|]; assumption.
Qed.

Lemma shaped_next c t : c <> b_plus -> shaped t -> shaped (c :: t).
Proof. intros Hc H. change (shaped ([c] ++ t)). apply sh_cons; [constructor|]; assumption. Qed.

(** * The boolean shape test and [Denote.wf_act] *)
Fixpoint okb (after_plus : bool) (s : bytes) : bool :=
  match s with
  | [] => negb after_plus
  | c :: tl => if Byte.eqb c c_plus then negb after_plus && okb true tl else okb false tl
  end.

Lemma pieces_okb s : forall cur,
  forallb nonempty (pieces c_plus s cur) = okb (match cur with [] => true | _ => false end) s.
Proof.
  induction s as [|c tl IH]; intros cur; cbn.
  - rewrite andb_true_r. destruct cur as [|x cur]; cbn; [reflexivity|].
    destruct (rev cur ++ [x]) eqn:E; [|reflexivity]. destruct (rev cur); discriminate.
  - destruct (Byte.eqb c c_plus) eqn:E.
    + cbn. rewrite IH. f_equal. destruct cur as [|x cur]; cbn; [reflexivity|].
      destruct (rev cur ++ [x]) eqn:E'; [|reflexivity]. destruct (rev cur); discriminate.
    + rewrite IH. reflexivity.
Qed.

Lemma okb_shaped_aux s :
  (okb true s = true -> shaped s) /\
  (okb false s = true -> s = [] \/ (exists tl, s = b_plus :: tl /\ shaped tl) \/ shaped s).
Proof.
  induction s as [|c tl [IH1 IH2]]; cbn.
  - split; [discriminate | auto].
  - destruct (Byte.eqb c c_plus) eqn:E.
    + apply byte_eqb_eq in E. subst c. cbn. split; [discriminate|].
      intros H. right; left. exists tl. split; [reflexivity | apply IH1, H].
    + apply eqb_false in E.
      assert (G : okb false tl = true -> shaped (c :: tl)).
      { intros H. destruct (IH2 H) as [-> | [(tl' & -> & Hs) | Hs]].
        - apply sh_one, grp_one, E.
        - apply shaped_plus; assumption.
        - apply shaped_next; assumption. }
      split; [exact G | intros H; right; right; exact (G H)].
Qed.

Lemma okb_shaped s : okb true s = true -> shaped s.
Proof. apply okb_shaped_aux. Qed.

Lemma grp_okb g : grp g -> forall b, okb b g = true.
Proof.
  induction 1 as [c Hc | c g Hc Hg IH]; intros b; cbn.
  - apply eqb_false in Hc. unfold c_plus; unfold b_plus in Hc. rewrite Hc. reflexivity.
  - apply eqb_false in Hc. unfold c_plus; unfold b_plus in Hc. rewrite Hc.
    change (Byte.eqb b_plus c_plus) with true. cbn. apply IH.
Qed.

Lemma okb_app_grp g : grp g -> forall r b, okb true r = true -> okb b (g ++ r) = true.
Proof.
  induction 1 as [c Hc | c g Hc Hg IH]; intros r b Hr; cbn.
  - apply eqb_false in Hc. unfold c_plus; unfold b_plus in Hc. rewrite Hc.
    destruct r as [|x r]; [discriminate|]. cbn in *.
    destruct (Byte.eqb x c_plus); [discriminate | exact Hr].
  - apply eqb_false in Hc. unfold c_plus; unfold b_plus in Hc. rewrite Hc.
    change (Byte.eqb b_plus c_plus) with true. cbn. apply IH, Hr.
Qed.

Lemma shaped_okb s : shaped s -> okb true s = true.
Proof.
  induction 1 as [g H | g r H Hr IH].
  - apply grp_okb, H.
  - apply okb_app_grp; assumption.
Qed.

Lemma wf_act_shaped dfn a : wf_act dfn a = true -> shaped a.
Proof.
  unfold wf_act. rewrite !andb_true_iff. intros [[_ H] _].
  rewrite pieces_okb in H. apply okb_shaped, H.
Qed.

(** * extractAction on a group followed by the rest of the act *)
Lemma extract_more_grp g : grp g -> forall r, head_ok r ->
  extract_more (List.tl g ++ r) = (List.tl g, r).
Proof.
  induction 1 as [c Hc | c g Hc Hg IH]; intros r Hr.
  - cbn. destruct r as [|x [|y r]]; cbn; try reflexivity.
    cbn in Hr. apply is_plus_false in Hr. rewrite Hr. reflexivity.
  - destruct (grp_head g Hg) as (d & tl & E & Hd). subst g.
    cbn [List.tl app]. cbn [extract_more]. change (is_plus b_plus) with true. cbn iota.
    specialize (IH r Hr). cbn [List.tl] in IH. rewrite IH. reflexivity.
Qed.

Lemma extract_grp g r : grp g -> head_ok r -> extract_action (g ++ r) = (g, r).
Proof.
  intros Hg Hr. assert (H := extract_more_grp g Hg r Hr).
  destruct (grp_head g Hg) as (c & tl & -> & Hc).
  cbn in *. rewrite H. reflexivity.
Qed.

Lemma extract_grp_only g : grp g -> extract_action g = (g, []).
Proof. intros H. rewrite <- (app_nil_r g) at 1. apply extract_grp; [assumption | exact I]. Qed.

(** A shaped act is a group followed by the empty string or a shaped act. *)
Lemma shaped_split s : shaped s -> exists g r, s = g ++ r /\ grp g /\ rest_ok r.
Proof.
  intros [g H | g r H Hr].
  - exists g, []. rewrite app_nil_r. repeat split; [assumption | left; reflexivity].
  - exists g, r. repeat split; [assumption | right; assumption].
Qed.

(** * columns of a group *)
Definition gcol (g : bytes) : column :=
  flat_map scenes_of (filter (fun c => negb (Byte.eqb c c_plus)) g).

Lemma columns_plus s : columns (b_plus :: s) = columns s.
Proof. reflexivity. Qed.

Lemma columns_cons_plus c tl : c <> b_plus ->
  columns (c :: b_plus :: tl) =
  match columns tl with g :: r => (scenes_of c ++ g) :: r | [] => [scenes_of c] end.
Proof.
  intros Hc. apply eqb_false in Hc. cbn. unfold c_plus. unfold b_plus in Hc. rewrite Hc. reflexivity.
Qed.

Lemma columns_cons_next c tl : c <> b_plus -> head_ok tl ->
  columns (c :: tl) = scenes_of c :: columns tl.
Proof.
  intros Hc Ht. apply eqb_false in Hc. unfold b_plus in Hc.
  destruct tl as [|x tl]; cbn; unfold c_plus; rewrite Hc; [reflexivity|].
  cbn in Ht. apply eqb_false in Ht. unfold b_plus in Ht. rewrite Ht. reflexivity.
Qed.

Lemma gcol_cons c g : c <> b_plus -> gcol (c :: g) = scenes_of c ++ gcol g.
Proof.
  intros Hc. apply eqb_false in Hc. unfold b_plus in Hc. unfold gcol. cbn. unfold c_plus. rewrite Hc. reflexivity.
Qed.

Lemma gcol_plus g : gcol (b_plus :: g) = gcol g.
Proof. reflexivity. Qed.

Lemma columns_grp g : grp g -> forall r, head_ok r -> columns (g ++ r) = gcol g :: columns r.
Proof.
  induction 1 as [c Hc | c g Hc Hg IH]; intros r Hr.
  - cbn [app]. rewrite (columns_cons_next c r Hc Hr), (gcol_cons c [] Hc). cbn. rewrite app_nil_r. reflexivity.
  - change ((c :: b_plus :: g) ++ r) with (c :: b_plus :: (g ++ r)).
    rewrite (columns_cons_plus c (g ++ r) Hc), (IH r Hr), (gcol_cons c _ Hc), gcol_plus. reflexivity.
Qed.

Lemma columns_grp_only g : grp g -> columns g = [gcol g].
Proof. intros H. rewrite <- (app_nil_r g) at 1. apply (columns_grp g H []). exact I. Qed.

Lemma gcol_app a b : gcol (a ++ b) = gcol a ++ gcol b.
Proof. unfold gcol. rewrite filter_app, flat_map_app. reflexivity. Qed.

Lemma grp_join g1 g2 : grp g1 -> grp g2 -> grp (g1 ++ b_plus :: g2).
Proof.
  induction 1 as [c Hc | c g Hc Hg IH]; intros H2; cbn.
  - constructor; assumption.
  - constructor; [assumption | apply IH, H2].
Qed.

(** * One iteration of combineActs *)
Lemma is_dot_str_true s : is_dot_str s = true <-> s = [b_dot].
Proof. apply bytes_eqb_eq. Qed.

Lemma combine_group_grp g1 g2 :
  grp g1 -> (g2 = [] \/ grp g2) ->
  grp (combine_group g1 g2) /\ gcol (combine_group g1 g2) = gcol g1 ++ gcol g2.
Proof.
  intros H1 H2. unfold combine_group.
  destruct (is_dot_str g1) eqn:D1.
  - apply is_dot_str_true in D1. subst g1.
    destruct H2 as [-> | H2]; cbn.
    + split; [constructor; discriminate | reflexivity].
    + destruct (grp_head g2 H2) as (c & tl & -> & _). cbn. split; [assumption | reflexivity].
  - destruct H2 as [-> | H2].
    + cbn. rewrite !app_nil_r. split; [assumption | reflexivity].
    + assert (En : is_empty g2 = false) by (destruct (grp_head g2 H2) as (c & tl & -> & _); reflexivity).
      rewrite En. cbn [negb andb].
      destruct (is_dot_str g2) eqn:D2.
      * apply is_dot_str_true in D2. subst g2. cbn. rewrite !app_nil_r. split; [assumption | reflexivity].
      * cbn [negb]. split; [apply grp_join; assumption|].
        rewrite gcol_app, gcol_plus. reflexivity.
Qed.

(** bytes of the result come from the arguments, or are `+` / `.` *)
Definition from (r a1 a2 : bytes) : Prop :=
  forall c, In c r -> In c a1 \/ In c a2 \/ c = b_plus \/ c = b_dot.

Lemma combine_group_from g1 g2 : from (combine_group g1 g2) g1 g2.
Proof.
  unfold from, combine_group. intros c.
  destruct (is_dot_str g1).
  - destruct (negb (is_empty g2)); cbn; intuition.
  - rewrite in_app_iff. destruct (negb (is_empty g2) && negb (is_dot_str g2)); cbn; intuition.
Qed.

(** * combineActs *)
Lemma zip_pad_nil_r {A} (f : A -> A -> A) l : zip_pad f l [] = l.
Proof. destruct l; reflexivity. Qed.

Lemma extract_length g r s : extract_action s = (g, r) -> s <> [] -> List.length r < List.length s.
Proof.
  destruct s as [|c tl]; [congruence|]. intros H _. cbn in H.
  destruct (extract_more tl) as [m r'] eqn:E. inversion H; subst. clear H.
  assert (G : forall tl m r', extract_more tl = (m, r') -> List.length r' <= List.length tl).
  { clear. fix IH 1. intros tl m r' E. destruct tl as [|p [|d tl']]; cbn in E.
    - inversion E; subst; cbn; lia.
    - inversion E; subst; cbn; lia.
    - destruct (is_plus p).
      + destruct (extract_more tl') as [s r] eqn:E'. inversion E; subst. apply IH in E'. cbn. lia.
      + inversion E; subst. cbn. lia. }
  apply G in E. cbn. lia.
Qed.

Lemma combine_acts_fuel_spec : forall fuel a1 a2,
  List.length a1 < fuel -> rest_ok a1 -> rest_ok a2 ->
  exists r, combine_acts_fuel fuel a1 a2 = Ok r
            /\ columns r = union_act (columns a1) (columns a2)
            /\ rest_ok r /\ (shaped a1 \/ shaped a2 -> shaped r)
            /\ from r a1 a2.
Proof.
  induction fuel as [|fuel IH]; intros a1 a2 Hlen H1 H2; [lia|].
  destruct H1 as [-> | H1].
  - (* act1 exhausted: the rest of act2 is copied *)
    exists a2. cbn. repeat split; auto.
    + intros [H | H]; [apply shaped_nonempty in H; congruence | assumption].
    + intros c Hc; auto.
  - destruct (shaped_split a1 H1) as (g1 & r1 & -> & Hg1 & Hr1).
    destruct (grp_head g1 Hg1) as (c1 & t1 & Eg1 & _).
    assert (Hx1 := extract_grp g1 r1 Hg1 (rest_ok_head r1 Hr1)).
    assert (exists g2 r2, a2 = g2 ++ r2 /\ extract_action a2 = (g2, r2) /\ (g2 = [] \/ grp g2) /\ rest_ok r2
                          /\ columns a2 = match g2 with [] => [] | _ => gcol g2 :: columns r2 end
                          /\ (g2 = [] -> r2 = []))
      as (g2 & r2 & E2 & Hx2 & Hg2 & Hr2 & Hc2 & Hn2).
    { destruct H2 as [-> | H2].
      - exists [], []. repeat split; auto. left; reflexivity.
      - destruct (shaped_split a2 H2) as (g2 & r2 & -> & Hg2 & Hr2).
        exists g2, r2. repeat split; auto.
        + apply extract_grp; [assumption | apply rest_ok_head, Hr2].
        + rewrite (columns_grp g2 Hg2 r2 (rest_ok_head r2 Hr2)).
          destruct (grp_head g2 Hg2) as (c & tl & -> & _). reflexivity.
        + intros ->. inversion Hg2. }
    destruct (IH r1 r2) as (rest & Erest & Crest & Orest & Srest & Frest); auto.
    { rewrite app_length in Hlen. rewrite Eg1 in Hlen. cbn in Hlen. lia. }
    destruct (combine_group_grp g1 g2 Hg1 Hg2) as [Gcg Ccg].
    exists (combine_group g1 g2 ++ rest).
    assert (Ecall : combine_acts_fuel (S fuel) (g1 ++ r1) a2 = Ok (combine_group g1 g2 ++ rest)).
    { cbn [combine_acts_fuel]. rewrite Eg1. cbn [app]. rewrite <- Eg1.
      change (c1 :: t1 ++ r1) with ((c1 :: t1) ++ r1). rewrite <- Eg1.
      rewrite Hx1, Hx2, Erest. reflexivity. }
    split; [exact Ecall|].
    assert (Hsh : shaped (combine_group g1 g2 ++ rest)).
    { destruct Orest as [-> | Orest]; [rewrite app_nil_r; apply sh_one | apply sh_cons]; assumption. }
    repeat split.
    + rewrite (columns_grp _ Gcg rest (rest_ok_head rest Orest)), Ccg, Crest.
      rewrite (columns_grp g1 Hg1 r1 (rest_ok_head r1 Hr1)), Hc2.
      destruct g2 as [|x g2].
      * rewrite (Hn2 eq_refl). cbn. rewrite app_nil_r. unfold union_act. rewrite !zip_pad_nil_r. reflexivity.
      * reflexivity.
    + right. exact Hsh.
    + intros _. exact Hsh.
    + intros c Hc. apply in_app_iff in Hc. destruct Hc as [Hc | Hc].
      * destruct (combine_group_from g1 g2 c Hc) as [H | [H | H]]; auto.
        -- left. apply in_app_iff. auto.
        -- right; left. rewrite E2. apply in_app_iff. auto.
      * destruct (Frest c Hc) as [H | [H | H]]; auto.
        -- left. apply in_app_iff. auto.
        -- right; left. rewrite E2. apply in_app_iff. auto.
Qed.

Theorem combine_acts_spec a1 a2 :
  rest_ok a1 -> rest_ok a2 ->
  exists r, combine_acts a1 a2 = Ok r
            /\ columns r = union_act (columns a1) (columns a2)
            /\ rest_ok r /\ (shaped a1 \/ shaped a2 -> shaped r)
            /\ from r a1 a2.
Proof. intros. apply combine_acts_fuel_spec; auto. Qed.

(** * combineStoryLines *)
Definition from_story (r l1 l2 : list bytes) : Prop :=
  forall a c, In a r -> In c a ->
    (exists a1, In a1 l1 /\ In c a1) \/ (exists a2, In a2 l2 /\ In c a2) \/ c = b_plus \/ c = b_dot.

Theorem combine_storylines_spec : forall l1 l2,
  Forall shaped l1 -> Forall shaped l2 ->
  exists r, combine_storylines l1 l2 = Ok r
            /\ map columns r = union_story (map columns l1) (map columns l2)
            /\ Forall shaped r /\ from_story r l1 l2.
Proof.
  induction l1 as [|a1 t1 IH]; intros l2 H1 H2.
  - exists l2. cbn. repeat split; auto.
    intros a c Ha Hc. right; left. eauto.
  - destruct l2 as [|a2 t2].
    + exists (a1 :: t1). cbn. repeat split; auto.
      intros a c Ha Hc. left. eauto.
    + inversion H1 as [|? ? Ha1 Ht1]; inversion H2 as [|? ? Ha2 Ht2]; subst.
      destruct (combine_acts_spec a1 a2) as (a & Ea & Ca & _ & Sa & Fa); [right; assumption | right; assumption |].
      destruct (IH t2 Ht1 Ht2) as (r & Er & Cr & Sr & Fr).
      exists (a :: r). cbn [combine_storylines]. rewrite Ea. cbn [obind]. rewrite Er. cbn [obind].
      repeat split.
      * cbn. rewrite Ca, Cr. reflexivity.
      * constructor; auto.
      * intros x c [<- | Hx] Hc.
        -- destruct (Fa c Hc) as [H | [H | H]]; auto.
           ++ left. exists a1. split; [left; reflexivity | assumption].
           ++ right; left. exists a2. split; [left; reflexivity | assumption].
        -- destruct (Fr x c Hx Hc) as [(y & Hy & Hcy) | [(y & Hy & Hcy) | H]]; auto.
           ++ left. exists y. split; [right|]; assumption.
           ++ right; left. exists y. split; [right|]; assumption.
Qed.
