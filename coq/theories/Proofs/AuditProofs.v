(** Every output sequence of the audition round machine (Model/Audit.v)
    satisfies the period specification of Model/AuditSpec.v — for every
    configuration, every event history, every auditor. *)
From Shk Require Import Base.Prelude Model.Value Model.Functions Model.Expr Model.Fsm Model.Audit Model.AuditSpec.
Open Scope list_scope.

(** * Bookkeeping about the per-auditor state map *)

Definition core (m : mstate) : bool * nat := (ms_auditing m, ms_fsm m).

Lemma get_ms_upd_same a f l :
  get_ms a (upd_ms a f l) = option_map f (get_ms a l).
Proof.
  induction l as [|[b m] l IH]; cbn; [reflexivity|].
  destruct (String.eqb a b) eqn:E; cbn; rewrite E; [reflexivity | exact IH].
Qed.

Lemma get_ms_upd_other a b f l :
  String.eqb a b = false -> get_ms a (upd_ms b f l) = get_ms a l.
Proof.
  intros Hab. induction l as [|[x m] l IH]; cbn; [reflexivity|].
  destruct (String.eqb b x) eqn:Eb; cbn.
  - apply String.eqb_eq in Eb. subst x. rewrite Hab. reflexivity.
  - destruct (String.eqb a x); [reflexivity | exact IH].
Qed.

Lemma get_ms_wake a ws l ms :
  get_ms a l = Some ms ->
  exists ms', get_ms a (wake ws l) = Some ms' /\ core ms' = core ms.
Proof.
  unfold wake. induction l as [|[x m] l IH]; cbn; [discriminate|].
  destruct (existsb (String.eqb x) ws); cbn; destruct (String.eqb a x).
  - intros H; inversion H; subst. eexists; split; reflexivity.
  - exact IH.
  - intros H; inversion H; subst. eexists; split; reflexivity.
  - exact IH.
Qed.

Lemma get_ms_wake_none a ws l : get_ms a l = None -> get_ms a (wake ws l) = None.
Proof.
  unfold wake. induction l as [|[x m] l IH]; cbn; [reflexivity|].
  destruct (existsb (String.eqb x) ws); cbn; destruct (String.eqb a x); try discriminate; exact IH.
Qed.

Lemma get_ms_reset a l ms :
  get_ms a l = Some ms ->
  exists ms', get_ms a (map (fun '(b, m) => (b, {| ms_woken := false; ms_auditing := ms_auditing m; ms_fsm := ms_fsm m |})) l) = Some ms'
              /\ core ms' = core ms.
Proof.
  induction l as [|[x m] l IH]; cbn; [discriminate|].
  destruct (String.eqb a x).
  - intros H; inversion H; subst. eexists; split; reflexivity.
  - exact IH.
Qed.

(** * Outputs that are only observations *)

Definition is_obs (o : out) : bool := match o with OObs _ _ _ => true | _ => false end.

Lemma trace_run_app a tbl p l1 l2 :
  trace_run a tbl p (l1 ++ l2) =
  match trace_run a tbl p l1 with Some p' => trace_run a tbl p' l2 | None => None end.
Proof.
  revert p. induction l1 as [|o l1 IH]; intros p; cbn; [reflexivity|].
  destruct (trace_step a tbl p o); [apply IH | reflexivity].
Qed.

Lemma trace_run_obs a tbl p l : forallb is_obs l = true -> trace_run a tbl p l = Some p.
Proof.
  induction l as [|o l IH]; cbn; [reflexivity|]. intros H.
  apply andb_true_iff in H. destruct H as [Ho Hl].
  destruct o; try discriminate. cbn. apply IH; assumption.
Qed.

Lemma trace_run_obs_app a tbl p l1 l2 :
  forallb is_obs l1 = true -> trace_run a tbl p (l1 ++ l2) = trace_run a tbl p l2.
Proof. intros H. rewrite trace_run_app, (trace_run_obs _ _ _ _ H). reflexivity. Qed.

(** set_var: only observations; the auditor's core state is untouched. *)
Lemma set_var_spec c s x v ts s' o a ms :
  set_var c s x v ts = (s', o) -> get_ms a (s_ms s) = Some ms ->
  forallb is_obs o = true /\ exists ms', get_ms a (s_ms s') = Some ms' /\ core ms' = core ms.
Proof.
  unfold set_var. destruct (is_nil v).
  - intros H Hg; inversion H; subst. split; [reflexivity|]. eexists; split; [eassumption|reflexivity].
  - intros H Hg; inversion H; subst; clear H. cbn [s_ms]. split.
    + destruct (watchers_of x (c_watchers c)); [reflexivity|].
      destruct (String.eqb (fst x) "" && negb (value_eqb v (lookup_val x (s_vals s)))); reflexivity.
    + apply get_ms_wake; assumption.
Qed.

Lemma forallb_app {A} (f : A -> bool) l1 l2 : forallb f (l1 ++ l2) = forallb f l1 && forallb f l2.
Proof. induction l1; cbn; [reflexivity|]. rewrite IHl1. apply andb_assoc. Qed.

Lemma do_assigns_spec c ts l : forall s s' o stt a ms,
  do_assigns c s ts l = (s', o, stt) -> get_ms a (s_ms s) = Some ms ->
  forallb is_obs o = true /\ exists ms', get_ms a (s_ms s') = Some ms' /\ core ms' = core ms.
Proof.
  induction l as [|x l IH]; intros s s' o stt a ms; cbn [do_assigns].
  - intros H Hg; inversion H; subst. split; [reflexivity|]. eexists; split; [eassumption|reflexivity].
  - destruct (negb (has_deps s (as_expr x))); [apply IH|].
    destruct (eval (env_of s) (as_expr x)) as [v|];
      [|intros H Hg; inversion H; subst; split; [reflexivity|]; eexists; split; [eassumption|reflexivity]].
    match goal with |- context [match ?nv with Some _ => _ | None => _ end] => destruct nv as [[w|]|] end;
      try (intros H Hg; inversion H; subst; split; [reflexivity|]; eexists; split; [eassumption|reflexivity]).
    destruct (set_var c s ("", as_target x) w ts) as [s1 o1] eqn:E1.
    destruct (do_assigns c s1 ts l) as [[s2 o2] st2] eqn:E2.
    intros H Hg; inversion H; subst; clear H.
    destruct (set_var_spec _ _ _ _ _ _ _ _ _ E1 Hg) as (Ho1 & ms1 & Hg1 & Hc1).
    destruct (IH _ _ _ _ _ _ E2 Hg1) as (Ho2 & ms2 & Hg2 & Hc2).
    split; [rewrite forallb_app, Ho1, Ho2; reflexivity|].
    exists ms2. split; [assumption | congruence].
Qed.

(** * One visit of the auditor itself *)

Definition tbl_of (m : member) : option fsm_table := option_map fst (m_expect m).

Definition rel (tbl : option fsm_table) (ms : mstate) (p : pstate) : Prop :=
  match p with
  | PClosed => ms_auditing ms = false
  | POpen q ended => ms_auditing ms = true /\ ended = false /\ (tbl <> None -> ms_fsm ms = q)
  end.

Lemma rel_core tbl ms ms' p : core ms' = core ms -> rel tbl ms p -> rel tbl ms' p.
Proof.
  unfold core, rel. intros H. inversion H as [[Ha Hf]]. destruct p; rewrite ?Ha, ?Hf; auto.
Qed.

Lemma check_expect_trace m s1 q0 q1 o2 :
  check_expect m s1 q0 = (q1, o2, true) ->
  trace_run (m_name m) (tbl_of m) (POpen q0 false) o2 = Some (POpen q1 false)
  /\ (tbl_of m = None -> q1 = q0).
Proof.
  unfold check_expect, tbl_of. destruct (m_expect m) as [[tbl p]|]; cbn [option_map fst].
  - destruct (negb (has_deps s1 p)); [intros H; inversion H; subst; split; [reflexivity|discriminate]|].
    destruct (truthy (eval (env_of s1) p)) as [b|].
    + destruct (fsm_report tbl q0 (lbl b)) as [[q' code]|] eqn:E; [|discriminate].
      intros H; inversion H; subst; clear H. split; [|discriminate].
      cbn [trace_run trace_step]. rewrite String.eqb_refl.
      assert (El : String.eqb (lbl b) "err" = false) by (destruct b; reflexivity).
      assert (Ee : String.eqb (lbl b) "end" = false) by (destruct b; reflexivity).
      rewrite El, E, Z.eqb_refl, Ee. reflexivity.
    + intros H; inversion H; subst; clear H. split; [|discriminate].
      cbn [trace_run trace_step]. rewrite String.eqb_refl. reflexivity.
  - intros H; inversion H; subst. split; reflexivity.
Qed.

Lemma period_end_trace m closing q1 q2 o3 :
  period_end m closing q1 = (q2, o3, true) ->
  trace_run (m_name m) (tbl_of m) (POpen q1 false) o3 =
    Some (if closing then PClosed else POpen q1 false)
  /\ (closing = false -> q2 = q1).
Proof.
  unfold period_end, tbl_of. destruct closing.
  - destruct (m_expect m) as [[tbl p]|]; cbn [option_map fst].
    + destruct (fsm_report tbl q1 "end") as [[q' code]|] eqn:E; [|discriminate].
      intros H; inversion H; subst; clear H. split; [|discriminate].
      cbn [trace_run trace_step]. rewrite String.eqb_refl.
      replace (String.eqb "end" "err") with false by reflexivity.
      rewrite E, Z.eqb_refl. replace (String.eqb "end" "end") with true by reflexivity.
      reflexivity.
    + intros H; inversion H; subst; clear H. split; [|discriminate].
      cbn [trace_run trace_step]. rewrite String.eqb_refl. reflexivity.
  - intros H; inversion H; subst. split; reflexivity.
Qed.

Lemma get_ms_set_ms_same s a au q ms :
  get_ms a (s_ms s) = Some ms ->
  get_ms a (s_ms (set_ms s a au q)) = Some {| ms_woken := ms_woken ms; ms_auditing := au; ms_fsm := q |}.
Proof. intros H. unfold set_ms, with_ms. cbn [s_ms]. rewrite get_ms_upd_same, H. reflexivity. Qed.

Lemma get_ms_set_ms_other s a b au q :
  String.eqb a b = false -> get_ms a (s_ms (set_ms s b au q)) = get_ms a (s_ms s).
Proof. intros H. unfold set_ms, with_ms. cbn [s_ms]. apply get_ms_upd_other; assumption. Qed.

(** The visit of auditor [m] extends a well-formed trace of [m] by a
    well-formed piece, keeps the model's auditing flag / FSM state in step
    with the specification's period state, and in the final round closes the
    period. *)
Lemma visit_own c final s ts m s' o stt ms p :
  visit c final s ts m = (s', o, stt) -> stt <> Panicked ->
  get_ms (m_name m) (s_ms s) = Some ms -> rel (tbl_of m) ms p ->
  exists p' ms',
    trace_run (m_name m) (tbl_of m) p o = Some p' /\
    get_ms (m_name m) (s_ms s') = Some ms' /\ rel (tbl_of m) ms' p' /\
    (final = true -> stt = Running -> p' = PClosed).
Proof.
  intros Hv Hnp Hg Hrel. unfold visit in Hv. rewrite Hg in Hv.
  destruct (wanted final s m) as [[w|]|] eqn:Ew.
  2:{ inversion Hv; subst. exists p, ms. repeat split; auto.
      intros Hf. unfold wanted in Ew. rewrite Hf in Ew. discriminate. }
  2:{ inversion Hv; subst. exists p, ms. repeat split; auto. intros _ H; discriminate. }
  assert (Hfinal : final = true -> w = false).
  { intros Hf. unfold wanted in Ew. rewrite Hf in Ew. inversion Ew; reflexivity. }
  destruct (ms_auditing ms) eqn:Ea.
  - (* currently auditing: p = POpen q false *)
    destruct p as [|q ended]; [cbn in Hrel; congruence|]. destruct Hrel as (_ & -> & Hq).
    rewrite andb_false_r in Hv. cbn [andb negb orb] in Hv. rewrite andb_true_r in Hv.
    destruct (do_assigns c (set_ms s (m_name m) true (ms_fsm ms)) ts (m_assigns m)) as [[s1 o1] st1] eqn:Ed.
    pose proof (get_ms_set_ms_same s (m_name m) true (ms_fsm ms) ms Hg) as Hg0.
    destruct (do_assigns_spec _ _ _ _ _ _ _ _ _ Ed Hg0) as (Ho1 & ms1 & Hg1 & Hc1).
    assert (Hq0 : trace_run (m_name m) (tbl_of m) (POpen q false) o1 = Some (POpen q false))
      by (apply trace_run_obs; assumption).
    destruct st1.
    + destruct (check_expect m s1 (ms_fsm ms)) as [[q1 o2] ok2] eqn:Ec.
      destruct ok2; cbn [negb] in Hv; [|inversion Hv; subst; congruence].
      destruct (period_end m (negb w) q1) as [[q2 o3] ok3] eqn:Ep.
      destruct ok3; cbn [negb] in Hv; [|inversion Hv; subst; congruence].
      inversion Hv; subst; clear Hv.
      (* the specification's q and the model's FSM state agree when there is a table *)
      assert (Hqq : tbl_of m <> None -> ms_fsm ms = q) by exact Hq.
      destruct (check_expect_trace _ _ _ _ _ Ec) as (Ht2 & Hn2).
      destruct (period_end_trace _ _ _ _ _ Ep) as (Ht3 & Hn3).
      (* replace q by ms_fsm ms where a table exists; otherwise q is irrelevant *)
      destruct (tbl_of m) as [tbl|] eqn:Et.
      * assert (ms_fsm ms = q) by (apply Hqq; discriminate). subst q.
        exists (if negb w then PClosed else POpen q1 false).
        eexists. cbn [app]. rewrite trace_run_app, Hq0, trace_run_app, Ht2, Ht3.
        split; [reflexivity|]. split; [apply get_ms_set_ms_same; eassumption|].
        split.
        -- destruct w; cbn [negb rel ms_auditing ms_fsm].
           ++ repeat split; auto.
           ++ reflexivity.
        -- intros Hf _. rewrite (Hfinal Hf). reflexivity.
      * (* no expects: no reports at all *)
        assert (Eo2 : o2 = [] /\ q1 = ms_fsm ms).
        { unfold check_expect in Ec. unfold tbl_of in Et. destruct (m_expect m); [discriminate|].
          inversion Ec; auto. }
        destruct Eo2 as [-> ->].
        assert (Eo3 : o3 = if negb w then [OStop (m_name m)] else []).
        { unfold period_end in Ep. unfold tbl_of in Et. destruct (m_expect m); [discriminate|].
          destruct (negb w); inversion Ep; reflexivity. }
        subst o3.
        exists (if negb w then PClosed else POpen q false). eexists.
        cbn [app]. rewrite trace_run_app, Hq0. cbn [app].
        split.
        { destruct (negb w); cbn [trace_run trace_step]; [rewrite String.eqb_refl|]; reflexivity. }
        split; [apply get_ms_set_ms_same; eassumption|].
        split.
        -- destruct w; cbn [negb rel ms_auditing ms_fsm]; [|reflexivity].
           repeat split; auto. intros H; congruence.
        -- intros Hf _. rewrite (Hfinal Hf). reflexivity.
    + (* aborted inside the assignments *)
      inversion Hv; subst; clear Hv. exists (POpen q false), ms1. cbn [app].
      split; [exact Hq0|]. split; [exact Hg1|]. split.
      * eapply rel_core; [exact Hc1|]. cbn. repeat split; auto.
      * intros _ H; discriminate.
    + inversion Hv; subst. congruence.
  - (* currently not auditing: p = PClosed *)
    destruct p as [|q ended]; [|cbn in Hrel; destruct Hrel; congruence].
    rewrite andb_false_r in Hv. cbn [negb orb] in Hv. rewrite andb_true_r in Hv.
    destruct w.
    + (* starting a period *)
      cbn [andb] in Hv.
      destruct (start_ok m) eqn:Es; cbn [negb] in Hv; [|inversion Hv; subst; congruence].
      cbn [negb] in Hv.
      set (q0 := match m_expect m with Some (tbl, _) => f_start tbl | None => ms_fsm ms end) in *.
      destruct (do_assigns c (set_ms s (m_name m) true q0) ts (m_assigns m)) as [[s1 o1] st1] eqn:Ed.
      pose proof (get_ms_set_ms_same s (m_name m) true q0 ms Hg) as Hg0.
      destruct (do_assigns_spec _ _ _ _ _ _ _ _ _ Ed Hg0) as (Ho1 & ms1 & Hg1 & Hc1).
      assert (Hstart : trace_step (m_name m) (tbl_of m) PClosed (OStart (m_name m)) =
                       Some (POpen (start_of (tbl_of m)) false)).
      { cbn [trace_step]. rewrite String.eqb_refl. reflexivity. }
      assert (Hq0s : tbl_of m <> None -> q0 = start_of (tbl_of m)).
      { unfold tbl_of, q0, start_of. destruct (m_expect m) as [[t e]|]; cbn; [reflexivity|congruence]. }
      assert (Hfinal' : final = false) by (destruct final; [specialize (Hfinal eq_refl); discriminate | reflexivity]).
      destruct st1.
      * destruct (check_expect m s1 q0) as [[q1 o2] ok2] eqn:Ec.
        destruct ok2; cbn [negb] in Hv; [|inversion Hv; subst; congruence].
        destruct (period_end m false q1) as [[q2 o3] ok3] eqn:Ep.
        destruct ok3; cbn [negb] in Hv; [|inversion Hv; subst; congruence].
        inversion Hv; subst; clear Hv.
        destruct (check_expect_trace _ _ _ _ _ Ec) as (Ht2 & Hn2).
        destruct (period_end_trace _ _ _ _ _ Ep) as (Ht3 & Hn3).
        destruct (tbl_of m) as [tbl|] eqn:Et.
        -- assert (Eq0 : q0 = start_of (Some tbl)) by (apply Hq0s; discriminate).
           exists (POpen q1 false). eexists. cbn [app trace_run]. rewrite Hstart.
           rewrite <- Eq0. rewrite trace_run_app, (trace_run_obs _ _ _ _ Ho1), trace_run_app, Ht2, Ht3.
           split; [reflexivity|]. split; [apply get_ms_set_ms_same; eassumption|].
           split; [cbn; repeat split; auto; intros _; symmetry; apply Hn3; reflexivity|].
           intros Hf; congruence.
        -- assert (Eo2 : o2 = []).
           { unfold check_expect in Ec. unfold tbl_of in Et. destruct (m_expect m); [discriminate|]. inversion Ec; auto. }
           assert (Eo3 : o3 = []) by (unfold period_end in Ep; inversion Ep; reflexivity).
           subst o2 o3.
           exists (POpen (start_of None) false). eexists. cbn [app trace_run]. rewrite Hstart.
           rewrite app_nil_r, (trace_run_obs _ _ _ _ Ho1).
           split; [reflexivity|]. split; [apply get_ms_set_ms_same; eassumption|].
           split; [cbn; repeat split; auto; intros H; congruence|].
           intros Hf; congruence.
      * inversion Hv; subst; clear Hv. exists (POpen (start_of (tbl_of m)) false), ms1.
        cbn [app trace_run]. rewrite Hstart. split; [apply trace_run_obs; assumption|].
        split; [exact Hg1|]. split.
        -- eapply rel_core; [exact Hc1|]. cbn. repeat split; auto.
        -- intros _ H; discriminate.
      * inversion Hv; subst. congruence.
    + (* stays closed *)
      cbn [andb negb] in Hv. inversion Hv; subst; clear Hv.
      exists PClosed. eexists. split; [reflexivity|].
      split; [apply get_ms_set_ms_same; eassumption|]. split; [reflexivity|]. auto.
Qed.

(** * Visits of other auditors, and whole rounds *)

Definition not_about (a : string) (o : out) : bool :=
  match o with
  | OObs _ _ _ => true
  | OStart b | OStop b | OReport b _ _ => negb (String.eqb a b)
  end.

Lemma trace_run_not_about a tbl p l : forallb (not_about a) l = true -> trace_run a tbl p l = Some p.
Proof.
  induction l as [|o l IH]; cbn; [reflexivity|]. intros H.
  apply andb_true_iff in H. destruct H as [Ho Hl].
  destruct o; cbn in Ho |- *; try (apply negb_true_iff in Ho; rewrite Ho); apply IH; assumption.
Qed.

Lemma obs_not_about a l : forallb is_obs l = true -> forallb (not_about a) l = true.
Proof.
  induction l as [|o l IH]; cbn; [reflexivity|]. intros H.
  apply andb_true_iff in H. destruct H as [Ho Hl]. destruct o; try discriminate. cbn. auto.
Qed.

Lemma visit_other c final s ts m s' o stt a ms :
  String.eqb a (m_name m) = false ->
  visit c final s ts m = (s', o, stt) -> get_ms a (s_ms s) = Some ms ->
  forallb (not_about a) o = true /\ exists ms', get_ms a (s_ms s') = Some ms' /\ core ms' = core ms.
Proof.
  intros Hab Hv Hg. unfold visit in Hv.
  assert (Hself : forall s0, get_ms a (s_ms s0) = Some ms ->
            forallb (not_about a) [] = true /\ exists ms', get_ms a (s_ms s0) = Some ms' /\ core ms' = core ms)
    by (intros s0 H0; split; [reflexivity|]; eexists; split; [eassumption|reflexivity]).
  destruct (get_ms (m_name m) (s_ms s)) as [mm|]; [|inversion Hv; subst; apply Hself; assumption].
  destruct (wanted final s m) as [[w|]|]; try (inversion Hv; subst; apply Hself; assumption).
  assert (Hstart : forallb (not_about a) [OStart (m_name m)] = true) by (cbn; rewrite Hab; reflexivity).
  destruct (w && negb (ms_auditing mm) && negb (start_ok m)).
  { inversion Hv; subst. split; [exact Hstart|]. eexists; split; [eassumption|reflexivity]. }
  set (os := if w && negb (ms_auditing mm) then [OStart (m_name m)] else []) in *.
  assert (Hos : forallb (not_about a) os = true) by (subst os; destruct (w && negb (ms_auditing mm)); [exact Hstart|reflexivity]).
  set (q0 := if w && negb (ms_auditing mm) then match m_expect m with Some (tbl, _) => f_start tbl | None => ms_fsm mm end else ms_fsm mm) in *.
  set (au := ms_auditing mm || w && negb (ms_auditing mm)) in *.
  assert (Hg0 : get_ms a (s_ms (set_ms s (m_name m) au q0)) = Some ms)
    by (rewrite get_ms_set_ms_other; assumption).
  destruct (negb au).
  { inversion Hv; subst. split; [exact Hos|]. eexists; split; [eassumption|reflexivity]. }
  destruct (do_assigns c (set_ms s (m_name m) au q0) ts (m_assigns m)) as [[s1 o1] st1] eqn:Ed.
  destruct (do_assigns_spec _ _ _ _ _ _ _ _ _ Ed Hg0) as (Ho1 & ms1 & Hg1 & Hc1).
  pose proof (obs_not_about a _ Ho1) as Ho1'.
  destruct st1.
  - destruct (check_expect m s1 q0) as [[q1 o2] ok2] eqn:Ec.
    assert (Ho2 : forallb (not_about a) o2 = true).
    { unfold check_expect in Ec. destruct (m_expect m) as [[tbl pe]|]; [|inversion Ec; reflexivity].
      destruct (negb (has_deps s1 pe)); [inversion Ec; reflexivity|].
      destruct (truthy (eval (env_of s1) pe)) as [b|]; [|inversion Ec; cbn; rewrite Hab; reflexivity].
      destruct (fsm_report tbl q0 (lbl b)) as [[q' code]|]; inversion Ec; cbn; rewrite ?Hab; reflexivity. }
    destruct (negb ok2).
    { inversion Hv; subst. split; [rewrite !forallb_app, Hos, Ho1', Ho2; reflexivity|].
      exists ms1; split; assumption. }
    destruct (period_end m (negb w && ms_auditing mm) q1) as [[q2 o3] ok3] eqn:Ep.
    assert (Ho3 : forallb (not_about a) o3 = true).
    { unfold period_end in Ep. destruct (negb w && ms_auditing mm); [|inversion Ep; reflexivity].
      destruct (m_expect m) as [[tbl pe]|]; [|inversion Ep; cbn; rewrite Hab; reflexivity].
      destruct (fsm_report tbl q1 "end") as [[q' code]|]; inversion Ep; cbn; rewrite ?Hab; reflexivity. }
    destruct (negb ok3).
    { inversion Hv; subst. split; [rewrite !forallb_app, Hos, Ho1', Ho2, Ho3; reflexivity|].
      exists ms1; split; assumption. }
    inversion Hv; subst. split; [rewrite !forallb_app, Hos, Ho1', Ho2, Ho3; reflexivity|].
    exists ms1. split; [rewrite get_ms_set_ms_other; assumption | assumption].
  - inversion Hv; subst. split; [rewrite forallb_app, Hos, Ho1'; reflexivity|]. exists ms1; split; assumption.
  - inversion Hv; subst. split; [rewrite forallb_app, Hos, Ho1'; reflexivity|]. exists ms1; split; assumption.
Qed.

Lemma name_inj (l : list member) m1 m2 :
  NoDup (map m_name l) -> In m1 l -> In m2 l -> m_name m1 = m_name m2 -> m1 = m2.
Proof.
  induction l as [|x l IH]; cbn; [tauto|]. intros Hnd H1 H2 He. inversion Hnd as [|? ? Hx Hl]; subst.
  destruct H1 as [->|H1], H2 as [->|H2]; auto.
  - exfalso. apply Hx. rewrite He. apply in_map; assumption.
  - exfalso. apply Hx. rewrite <- He. apply in_map; assumption.
Qed.

(** All the visits of one round. *)
Lemma visit_all_trace c final ts ma l : forall s s' o stt ms p,
  NoDup (map m_name l) -> (In ma l \/ ~ In (m_name ma) (map m_name l)) ->
  visit_all c final s ts l = (s', o, stt) -> stt <> Panicked ->
  get_ms (m_name ma) (s_ms s) = Some ms -> rel (tbl_of ma) ms p ->
  exists p' ms',
    trace_run (m_name ma) (tbl_of ma) p o = Some p' /\
    get_ms (m_name ma) (s_ms s') = Some ms' /\ rel (tbl_of ma) ms' p' /\
    (final = true -> stt = Running -> In ma l -> p' = PClosed) /\
    (~ In (m_name ma) (map m_name l) -> p' = p).
Proof.
  induction l as [|m l IH]; intros s s' o stt ms p Hnd Hin Hv Hnp Hg Hrel; cbn [visit_all] in Hv.
  - inversion Hv; subst. exists p, ms. cbn. repeat split; auto. intros _ _ [].
  - inversion Hnd as [|? ? Hm Hl]; subst.
    destruct (visit c final s ts m) as [[s1 o1] st1] eqn:E1.
    destruct (String.eqb (m_name ma) (m_name m)) eqn:Eab.
    + (* this is the auditor itself (names are unique) *)
      apply String.eqb_eq in Eab.
      assert (Hmm : m = ma).
      { destruct Hin as [[->|Hin]|Hin]; [reflexivity| |].
        - exfalso. apply Hm. rewrite <- Eab. apply in_map; assumption.
        - exfalso. apply Hin. cbn. left. symmetry; assumption. }
      subst m.
      assert (Hnotin : ~ In (m_name ma) (map m_name l)) by exact Hm.
      destruct st1.
      * destruct (visit_all c final s1 ts l) as [[s2 o2] st2] eqn:E2. inversion Hv; subst; clear Hv.
        destruct (visit_own _ _ _ _ _ _ _ _ _ _ E1 ltac:(discriminate) Hg Hrel) as (p1 & ms1 & Ht1 & Hg1 & Hr1 & Hf1).
        destruct (IH _ _ _ _ _ _ Hl (or_intror Hnotin) E2 Hnp Hg1 Hr1) as (p2 & ms2 & Ht2 & Hg2 & Hr2 & _ & Hsame).
        exists p2, ms2. rewrite trace_run_app, Ht1, Ht2.
        split; [reflexivity|]. split; [assumption|]. split; [assumption|]. split.
        -- intros Hf Hs _. rewrite (Hsame Hnotin). apply Hf1; [assumption|reflexivity].
        -- intros Hn. exfalso. apply Hn. cbn. left; reflexivity.
      * inversion Hv; subst; clear Hv.
        destruct (visit_own _ _ _ _ _ _ _ _ _ _ E1 ltac:(discriminate) Hg Hrel) as (p1 & ms1 & Ht1 & Hg1 & Hr1 & Hf1).
        exists p1, ms1. split; [assumption|]. split; [assumption|]. split; [assumption|]. split.
        -- intros _ H; discriminate.
        -- intros Hn. exfalso. apply Hn. cbn. left; reflexivity.
      * inversion Hv; subst. congruence.
    + destruct (visit_other _ _ _ _ _ _ _ _ _ _ Eab E1 Hg) as (Ho1 & ms1 & Hg1 & Hc1).
      pose proof (rel_core _ _ _ _ Hc1 Hrel) as Hr1.
      assert (Hin' : In ma l \/ ~ In (m_name ma) (map m_name l)).
      { destruct Hin as [[->|Hin]|Hin]; [rewrite String.eqb_refl in Eab; discriminate | left; assumption |].
        right. intros H. apply Hin. cbn. right; assumption. }
      assert (Hneq : m_name m <> m_name ma) by (intros H; rewrite H, String.eqb_refl in Eab; discriminate).
      destruct st1.
      * destruct (visit_all c final s1 ts l) as [[s2 o2] st2] eqn:E2. inversion Hv; subst; clear Hv.
        destruct (IH _ _ _ _ _ _ Hl Hin' E2 Hnp Hg1 Hr1) as (p2 & ms2 & Ht2 & Hg2 & Hr2 & Hf2 & Hsame).
        exists p2, ms2. rewrite trace_run_app, (trace_run_not_about _ _ _ _ Ho1), Ht2.
        split; [reflexivity|]. split; [assumption|]. split; [assumption|]. split.
        -- intros Hf Hs [->|Hi]; [congruence|]. apply Hf2; assumption.
        -- intros Hn. apply Hsame. intros H. apply Hn. cbn. right; assumption.
      * inversion Hv; subst; clear Hv. exists p, ms1.
        rewrite (trace_run_not_about _ _ _ _ Ho1).
        split; [reflexivity|]. split; [assumption|]. split; [assumption|]. split; [intros _ H; discriminate | reflexivity].
      * inversion Hv; subst. congruence.
Qed.

Lemma set_signals_spec c ts vs : forall s s' o a ms,
  set_signals c s ts vs = (s', o) -> get_ms a (s_ms s) = Some ms ->
  forallb is_obs o = true /\ (exists ms', get_ms a (s_ms s') = Some ms' /\ core ms' = core ms)
  /\ s_mood_start s' = s_mood_start s.
Proof.
  induction vs as [|[x v] vs IH]; intros s s' o a ms; cbn [set_signals].
  - intros H Hg; inversion H; subst. split; [reflexivity|]. split; [eexists; split; [eassumption|reflexivity]|reflexivity].
  - destruct (set_var c s x v ts) as [s1 o1] eqn:E1. destruct (set_signals c s1 ts vs) as [s2 o2] eqn:E2.
    intros H Hg; inversion H; subst; clear H.
    destruct (set_var_spec _ _ _ _ _ _ _ _ _ E1 Hg) as (Ho1 & ms1 & Hg1 & Hc1).
    destruct (IH _ _ _ _ _ E2 Hg1) as (Ho2 & (ms2 & Hg2 & Hc2) & Hm2).
    split; [rewrite forallb_app, Ho1; cbn; exact Ho2|]. split; [exists ms2; split; [assumption|congruence]|].
    rewrite Hm2. unfold set_var in E1. destruct (is_nil v); inversion E1; reflexivity.
Qed.

Lemma set_var_mood_start c s x v ts s' o : set_var c s x v ts = (s', o) -> s_mood_start s' = s_mood_start s /\ s_mood s' = s_mood s.
Proof. unfold set_var. destruct (is_nil v); intros H; inversion H; split; reflexivity. Qed.

Lemma do_assigns_mood_start c ts l : forall s s' o stt,
  do_assigns c s ts l = (s', o, stt) -> s_mood_start s' = s_mood_start s.
Proof.
  induction l as [|x l IH]; intros s s' o stt; cbn [do_assigns]; [intros H; inversion H; reflexivity|].
  destruct (negb (has_deps s (as_expr x))); [apply IH|].
  destruct (eval (env_of s) (as_expr x)) as [v|]; [|intros H; inversion H; reflexivity].
  match goal with |- context [match ?nv with Some _ => _ | None => _ end] => destruct nv as [[w|]|] end;
    try (intros H; inversion H; reflexivity).
  destruct (set_var c s ("", as_target x) w ts) as [s1 o1] eqn:E1.
  destruct (do_assigns c s1 ts l) as [[s2 o2] st2] eqn:E2.
  intros H; inversion H; subst. rewrite (IH _ _ _ _ E2). apply (set_var_mood_start _ _ _ _ _ _ _ E1).
Qed.

Lemma visit_mood_start c final s ts m s' o stt :
  visit c final s ts m = (s', o, stt) -> s_mood_start s' = s_mood_start s.
Proof.
  unfold visit. destruct (get_ms (m_name m) (s_ms s)) as [mm|]; [|intros H; inversion H; reflexivity].
  destruct (wanted final s m) as [[w|]|]; try (intros H; inversion H; reflexivity).
  destruct (w && negb (ms_auditing mm) && negb (start_ok m)); [intros H; inversion H; reflexivity|].
  match goal with |- context [negb ?au] => destruct (negb au) end; [intros H; inversion H; reflexivity|].
  match goal with |- context [do_assigns c ?s0 ts ?l] => destruct (do_assigns c s0 ts l) as [[s1 o1] st1] eqn:Ed end.
  pose proof (do_assigns_mood_start _ _ _ _ _ _ _ Ed) as Hm. cbn in Hm.
  destruct st1; try (intros H; inversion H; subst; exact Hm).
  match goal with |- context [check_expect m s1 ?q] => destruct (check_expect m s1 q) as [[q1 o2] ok2] end.
  destruct (negb ok2); [intros H; inversion H; subst; exact Hm|].
  match goal with |- context [period_end m ?cl q1] => destruct (period_end m cl q1) as [[q2 o3] ok3] end.
  destruct (negb ok3); intros H; inversion H; subst; exact Hm.
Qed.

Lemma visit_all_mood_start c final ts l : forall s s' o stt,
  visit_all c final s ts l = (s', o, stt) -> s_mood_start s' = s_mood_start s.
Proof.
  induction l as [|m l IH]; intros s s' o stt; cbn [visit_all]; [intros H; inversion H; reflexivity|].
  destruct (visit c final s ts m) as [[s1 o1] st1] eqn:E1.
  pose proof (visit_mood_start _ _ _ _ _ _ _ _ E1) as H1.
  destruct st1; try (intros H; inversion H; subst; exact H1).
  destruct (visit_all c final s1 ts l) as [[s2 o2] st2] eqn:E2.
  intros H; inversion H; subst. rewrite (IH _ _ _ _ E2). exact H1.
Qed.

(** One audit round. *)
Lemma round_trace c final s ts vs s' o stt ma ms p :
  NoDup (map m_name (c_members c)) -> In ma (c_members c) ->
  round c final s ts vs = (s', o, stt) -> stt <> Panicked ->
  get_ms (m_name ma) (s_ms s) = Some ms -> rel (tbl_of ma) ms p ->
  (exists p' ms',
    trace_run (m_name ma) (tbl_of ma) p o = Some p' /\
    get_ms (m_name ma) (s_ms s') = Some ms' /\ rel (tbl_of ma) ms' p' /\
    (final = true -> stt = Running -> p' = PClosed))
  /\ s_mood_start s' = s_mood_start s.
Proof.
  intros Hnd Hin Hr Hnp Hg Hrel. unfold round in Hr.
  match type of Hr with context [set_var c ?sx t_var _ ts] => set (s0 := sx) in * end.
  destruct (get_ms_reset _ _ _ Hg) as (ms0 & Hg0 & Hc0).
  destruct (set_var c s0 t_var (VNum ts) ts) as [s1 o1] eqn:E1.
  destruct (set_var c s1 mood_var (VStr (s_mood s1)) ts) as [s2 o2] eqn:E2.
  destruct (set_var c s2 moodt_var _ ts) as [s3 o3] eqn:E3.
  destruct (set_signals c s3 ts vs) as [s4 o4] eqn:E4.
  destruct (visit_all c final s4 ts (c_members c)) as [[s5 o5] st5] eqn:E5.
  inversion Hr; subst; clear Hr.
  assert (Hg0' : get_ms (m_name ma) (s_ms s0) = Some ms0) by exact Hg0.
  destruct (set_var_spec _ _ _ _ _ _ _ _ _ E1 Hg0') as (Ho1 & ms1 & Hg1 & Hc1).
  destruct (set_var_spec _ _ _ _ _ _ _ _ _ E2 Hg1) as (Ho2 & ms2 & Hg2 & Hc2).
  destruct (set_var_spec _ _ _ _ _ _ _ _ _ E3 Hg2) as (Ho3 & ms3 & Hg3 & Hc3).
  destruct (set_signals_spec _ _ _ _ _ _ _ _ E4 Hg3) as (Ho4 & (ms4 & Hg4 & Hc4) & Hm4).
  assert (Hrel4 : rel (tbl_of ma) ms4 p).
  { eapply rel_core; [|exact Hrel]. congruence. }
  destruct (visit_all_trace _ _ _ _ _ _ _ _ _ _ _ Hnd (or_introl Hin) E5 Hnp Hg4 Hrel4)
    as (p5 & ms5 & Ht5 & Hg5 & Hr5 & Hf5 & _).
  split.
  - exists p5, ms5.
    rewrite (trace_run_obs_app _ _ _ _ _ Ho1), (trace_run_obs_app _ _ _ _ _ Ho2),
            (trace_run_obs_app _ _ _ _ _ Ho3), (trace_run_obs_app _ _ _ _ _ Ho4), Ht5.
    split; [reflexivity|]. split; [assumption|]. split; [assumption|].
    intros Hf Hs. apply Hf5; assumption.
  - rewrite (visit_all_mood_start _ _ _ _ _ _ _ _ E5), Hm4.
    rewrite (proj1 (set_var_mood_start _ _ _ _ _ _ _ E3)), (proj1 (set_var_mood_start _ _ _ _ _ _ _ E2)),
            (proj1 (set_var_mood_start _ _ _ _ _ _ _ E1)). reflexivity.
Qed.

Lemma mood_change_trace c s at_end ts mo s' o stt ma ms p :
  NoDup (map m_name (c_members c)) -> In ma (c_members c) ->
  mood_change c s at_end ts mo = (s', o, stt) -> stt <> Panicked ->
  get_ms (m_name ma) (s_ms s) = Some ms -> rel (tbl_of ma) ms p ->
  (exists p' ms',
    trace_run (m_name ma) (tbl_of ma) p o = Some p' /\
    get_ms (m_name ma) (s_ms s') = Some ms' /\ rel (tbl_of ma) ms' p' /\
    (at_end = true -> s_mood_start s <> None -> stt = Running -> p' = PClosed))
  /\ (at_end = false -> stt = Running -> s_mood_start s' <> None)
  /\ (s_mood_start s <> None -> s_mood_start s' <> None).
Proof.
  intros Hnd Hin Hm Hnp Hg Hrel. unfold mood_change in Hm.
  destruct (s_mood_start s) as [m0|] eqn:Ems.
  - (* not at the beginning: the round that ends the old mood *)
    destruct (round c at_end s ts []) as [[s1 o1] st1] eqn:E1.
    destruct st1.
    + destruct (round_trace _ _ _ _ _ _ _ _ _ _ _ Hnd Hin E1 ltac:(discriminate) Hg Hrel)
        as ((p1 & ms1 & Ht1 & Hg1 & Hr1 & Hf1) & Hms1).
      destruct at_end.
      * inversion Hm; subst; clear Hm. split; [|split].
        -- exists p1, ms1. split; [assumption|]. split; [assumption|]. split; [assumption|].
           intros _ _ _. apply Hf1; reflexivity.
        -- discriminate.
        -- intros _. rewrite Hms1, Ems. discriminate.
      * destruct (round c false (with_mood s1 mo ts) ts []) as [[s2 o2] st2] eqn:E2.
        inversion Hm; subst; clear Hm.
        assert (Hg1' : get_ms (m_name ma) (s_ms (with_mood s1 mo ts)) = Some ms1) by exact Hg1.
        destruct (round_trace _ _ _ _ _ _ _ _ _ _ _ Hnd Hin E2 Hnp Hg1' Hr1)
          as ((p2 & ms2 & Ht2 & Hg2 & Hr2 & _) & Hms2).
        split; [|split].
        -- exists p2, ms2. rewrite trace_run_app, Ht1, Ht2.
           split; [reflexivity|]. split; [assumption|]. split; [assumption|]. discriminate.
        -- intros _ _. rewrite Hms2. cbn. discriminate.
        -- intros _. rewrite Hms2. cbn. discriminate.
    + inversion Hm; subst; clear Hm.
      destruct (round_trace _ _ _ _ _ _ _ _ _ _ _ Hnd Hin E1 ltac:(discriminate) Hg Hrel)
        as ((p1 & ms1 & Ht1 & Hg1 & Hr1 & Hf1) & Hms1).
      split; [|split].
      * exists p1, ms1. split; [assumption|]. split; [assumption|]. split; [assumption|].
        intros _ _ H; discriminate.
      * intros _ H; discriminate.
      * intros _. rewrite Hms1, Ems. discriminate.
    + inversion Hm; subst. congruence.
  - (* at the beginning *)
    destruct at_end.
    + inversion Hm; subst; clear Hm. split; [|split].
      * exists p, ms. split; [reflexivity|]. split; [assumption|]. split; [assumption|].
        intros _ H; congruence.
      * discriminate.
      * intros H; congruence.
    + destruct (round c false (with_mood s mo ts) ts []) as [[s2 o2] st2] eqn:E2.
      inversion Hm; subst; clear Hm.
      assert (Hg' : get_ms (m_name ma) (s_ms (with_mood s mo ts)) = Some ms) by exact Hg.
      destruct (round_trace _ _ _ _ _ _ _ _ _ _ _ Hnd Hin E2 Hnp Hg' Hrel)
        as ((p2 & ms2 & Ht2 & Hg2 & Hr2 & _) & Hms2).
      split; [|split].
      * exists p2, ms2. cbn [app].
        split; [assumption|]. split; [assumption|]. split; [assumption|]. discriminate.
      * intros _ _. rewrite Hms2. cbn. discriminate.
      * intros _. rewrite Hms2. cbn. discriminate.
Qed.

Lemma step_event_trace c s e s' o stt ma ms p :
  NoDup (map m_name (c_members c)) -> In ma (c_members c) ->
  step_event c s e = (s', o, stt) -> stt <> Panicked ->
  get_ms (m_name ma) (s_ms s) = Some ms -> rel (tbl_of ma) ms p -> s_mood_start s <> None ->
  (exists p' ms',
    trace_run (m_name ma) (tbl_of ma) p o = Some p' /\
    get_ms (m_name ma) (s_ms s') = Some ms' /\ rel (tbl_of ma) ms' p' /\
    (is_final_event e = true -> stt = Running -> p' = PClosed))
  /\ s_mood_start s' <> None.
Proof.
  intros Hnd Hin He Hnp Hg Hrel Hms. destruct e as [ts mo|ts vs|ts]; cbn [step_event] in He.
  - destruct (String.eqb mo (s_mood s)).
    + inversion He; subst. split; [|assumption].
      exists p, ms. split; [reflexivity|]. split; [assumption|]. split; [assumption|]. discriminate.
    + destruct (mood_change_trace _ _ _ _ _ _ _ _ _ _ _ Hnd Hin He Hnp Hg Hrel) as ((p1 & ms1 & H1 & H2 & H3 & _) & _ & H5).
      split; [|auto]. exists p1, ms1. split; [assumption|]. split; [assumption|]. split; [assumption|]. discriminate.
  - destruct (round_trace _ _ _ _ _ _ _ _ _ _ _ Hnd Hin He Hnp Hg Hrel) as ((p1 & ms1 & H1 & H2 & H3 & _) & H5).
    split; [|rewrite H5; assumption].
    exists p1, ms1. split; [assumption|]. split; [assumption|]. split; [assumption|]. discriminate.
  - destruct (mood_change_trace _ _ _ _ _ _ _ _ _ _ _ Hnd Hin He Hnp Hg Hrel) as ((p1 & ms1 & H1 & H2 & H3 & H4) & _ & H5).
    split; [|auto]. exists p1, ms1. split; [assumption|]. split; [assumption|]. split; [assumption|].
    intros _ Hs. apply H4; auto.
Qed.

Lemma run_events_aborted_not_running c es : forall s os s' stt,
  run_events c s Aborted es = (os, s', stt) -> stt <> Running.
Proof.
  induction es as [|e es IH]; intros s os s' stt; cbn [run_events].
  - intros H; inversion H; discriminate.
  - destruct e as [ts mo|ts vs|ts].
    + destruct (run_events c s Aborted es) as [[os2 s2] st2] eqn:E. intros H; inversion H; subst. eapply IH; eassumption.
    + destruct (run_events c s Aborted es) as [[os2 s2] st2] eqn:E. intros H; inversion H; subst. eapply IH; eassumption.
    + destruct (step_event c s (EFinal ts)) as [[s1 o1] st1].
      destruct st1.
      * destruct (run_events c s1 Aborted es) as [[os2 s2] st2] eqn:E. intros H; inversion H; subst. eapply IH; eassumption.
      * destruct (run_events c s1 Aborted es) as [[os2 s2] st2] eqn:E. intros H; inversion H; subst. eapply IH; eassumption.
      * destruct es as [|e2 es2]; cbn [run_events]; intros H; inversion H; discriminate.
Qed.

Lemma run_events_panicked c es s : run_events c s Panicked es = ([], s, Panicked) \/ es = [].
Proof. destruct es; [right; reflexivity | left; reflexivity]. Qed.

(** The whole event loop. *)
Lemma run_events_trace c ma :
  NoDup (map m_name (c_members c)) -> In ma (c_members c) ->
  forall es s st0 os s' stt ms p,
  run_events c s st0 es = (os, s', stt) -> stt <> Panicked ->
  get_ms (m_name ma) (s_ms s) = Some ms -> rel (tbl_of ma) ms p -> s_mood_start s <> None ->
  exists p',
    trace_run (m_name ma) (tbl_of ma) p (List.concat os) = Some p' /\
    (stt = Running -> ends_final es = true -> p' = PClosed).
Proof.
  intros Hnd Hin. induction es as [|e es IH]; intros s st0 os s' stt ms p Hr Hnp Hg Hrel Hms; pose proof Hr as Hr0; cbn [run_events] in Hr.
  - inversion Hr; subst. exists p. split; [reflexivity|]. intros _ H; discriminate.
  - destruct st0.
    + (* running *)
      destruct (step_event c s e) as [[s1 o1] st1] eqn:E1.
      destruct (run_events c s1 st1 es) as [[os2 s2] st2] eqn:E2.
      inversion Hr; subst; clear Hr.
      assert (Hst1 : st1 <> Panicked).
      { intros ->. destruct es; cbn in E2; inversion E2; subst; congruence. }
      destruct (step_event_trace _ _ _ _ _ _ _ _ _ Hnd Hin E1 Hst1 Hg Hrel Hms)
        as ((p1 & ms1 & Ht1 & Hg1 & Hr1 & Hf1) & Hms1).
      destruct (IH _ _ _ _ _ _ _ E2 Hnp Hg1 Hr1 Hms1) as (p2 & Ht2 & Hf2).
      exists p2. cbn [List.concat]. rewrite trace_run_app, Ht1. split; [exact Ht2|].
      intros Hs He. destruct es as [|e2 es2].
      * cbn in E2. inversion E2; subst. cbn in Ht2. inversion Ht2; subst.
        apply Hf1; [exact He | reflexivity].
      * apply Hf2; [assumption|exact He].
    + (* aborted: only the final event is still processed *)
      assert (Hnr : stt <> Running).
      { intros Hs. subst stt. exact (run_events_aborted_not_running c (e :: es) _ _ _ _ Hr0 eq_refl). }
      destruct e as [ts mo|ts vs|ts].
      * destruct (run_events c s Aborted es) as [[os2 s2] st2] eqn:E2. inversion Hr; subst; clear Hr.
        destruct (IH _ _ _ _ _ _ _ E2 Hnp Hg Hrel Hms) as (p2 & Ht2 & _).
        exists p2. cbn [List.concat app]. split; [exact Ht2|]. intros H; congruence.
      * destruct (run_events c s Aborted es) as [[os2 s2] st2] eqn:E2. inversion Hr; subst; clear Hr.
        destruct (IH _ _ _ _ _ _ _ E2 Hnp Hg Hrel Hms) as (p2 & Ht2 & _).
        exists p2. cbn [List.concat app]. split; [exact Ht2|]. intros H; congruence.
      * destruct (step_event c s (EFinal ts)) as [[s1 o1] st1] eqn:E1.
        destruct (run_events c s1 (match st1 with Running => Aborted | x => x end) es) as [[os2 s2] st2] eqn:E2.
        inversion Hr; subst; clear Hr.
        assert (Hst1 : st1 <> Panicked).
        { intros ->. destruct es; cbn in E2; inversion E2; subst; congruence. }
        destruct (step_event_trace _ _ _ _ _ _ _ _ _ Hnd Hin E1 Hst1 Hg Hrel Hms)
          as ((p1 & ms1 & Ht1 & Hg1 & Hr1 & Hf1) & Hms1).
        destruct (IH _ _ _ _ _ _ _ E2 Hnp Hg1 Hr1 Hms1) as (p2 & Ht2 & _).
        exists p2. cbn [List.concat]. rewrite trace_run_app, Ht1. split; [exact Ht2|]. intros H; congruence.
    + destruct es; inversion Hr; subst; congruence.
Qed.

Lemma get_ms_init (l : list member) ma :
  In ma l ->
  exists ms, get_ms (m_name ma) (map (fun m => (m_name m, {| ms_woken := false; ms_auditing := false; ms_fsm := 0 |})) l) = Some ms
             /\ ms_auditing ms = false.
Proof.
  induction l as [|x l IH]; cbn; [tauto|]. intros [->|H].
  - rewrite String.eqb_refl. eexists; split; reflexivity.
  - destruct (String.eqb (m_name ma) (m_name x)); [eexists; split; reflexivity | apply IH; assumption].
Qed.

(** ** The C02 theorems about the model *)

(** For every configuration with distinct member names, every auditor and every
    event history (any length, any interleaving of mood changes and samples):
    the outputs follow the period grammar of Model/AuditSpec.v. *)
Theorem audition_periods_well_formed c es ma os s stt :
  NoDup (map m_name (c_members c)) -> In ma (c_members c) ->
  run_audition c es = (os, s, stt) -> stt <> Panicked ->
  periods_well_formed (m_name ma) (tbl_of ma) os.
Proof.
  intros Hnd Hin Hr Hnp. unfold run_audition in Hr.
  destruct (mood_change c (init_st c) false 0 "clear") as [[s1 o0] st0] eqn:E0.
  destruct (get_ms_init (c_members c) ma Hin) as (ms0 & Hg0 & Ha0).
  assert (Hrel0 : rel (tbl_of ma) ms0 PClosed) by exact Ha0.
  destruct st0.
  - destruct (run_events c s1 Running es) as [[os2 s2] st2] eqn:E1. inversion Hr; subst; clear Hr.
    destruct (mood_change_trace _ _ _ _ _ _ _ _ ma ms0 PClosed Hnd Hin E0 ltac:(discriminate) Hg0 Hrel0)
      as ((p1 & ms1 & Ht1 & Hg1 & Hr1 & _) & Hms1 & _).
    destruct (run_events_trace c ma Hnd Hin _ _ _ _ _ _ _ _ E1 Hnp Hg1 Hr1 (Hms1 eq_refl eq_refl)) as (p2 & Ht2 & _).
    exists p2. cbn [List.concat]. rewrite trace_run_app, Ht1. exact Ht2.
  - (* the initial round itself was aborted: the audition ends there *)
    inversion Hr; subst; clear Hr.
    destruct (mood_change_trace _ _ _ _ _ _ _ _ ma ms0 PClosed Hnd Hin E0 ltac:(discriminate) Hg0 Hrel0)
      as ((p1 & ms1 & Ht1 & _) & _).
    exists p1. cbn [List.concat]. rewrite app_nil_r. exact Ht1.
  - inversion Hr; subst. congruence.
Qed.

(** ... and when the history ends with the end of the play and no evaluation
    error aborted the audition, every period has been closed: each received
    exactly one end-of-period judgement (the grammar allows a Stop only right
    after the end report). *)
Theorem audition_periods_closed c es ma os s :
  NoDup (map m_name (c_members c)) -> In ma (c_members c) ->
  ends_final es = true ->
  run_audition c es = (os, s, Running) ->
  all_periods_closed (m_name ma) (tbl_of ma) os.
Proof.
  intros Hnd Hin Hef Hr. unfold run_audition in Hr.
  destruct (mood_change c (init_st c) false 0 "clear") as [[s1 o0] st0] eqn:E0.
  destruct (get_ms_init (c_members c) ma Hin) as (ms0 & Hg0 & Ha0).
  assert (Hrel0 : rel (tbl_of ma) ms0 PClosed) by exact Ha0.
  destruct st0; try (inversion Hr; discriminate).
  destruct (run_events c s1 Running es) as [[os2 s2] st2] eqn:E1. inversion Hr; subst; clear Hr.
  destruct (mood_change_trace _ _ _ _ _ _ _ _ ma ms0 PClosed Hnd Hin E0 ltac:(discriminate) Hg0 Hrel0)
    as ((p1 & ms1 & Ht1 & Hg1 & Hr1 & _) & Hms1 & _).
  destruct (run_events_trace c ma Hnd Hin _ _ _ _ _ _ _ _ E1 ltac:(discriminate) Hg1 Hr1 (Hms1 eq_refl eq_refl))
    as (p2 & Ht2 & Hf2).
  unfold all_periods_closed. cbn [List.concat]. rewrite trace_run_app, Ht1, Ht2.
  f_equal. apply Hf2; [reflexivity | assumption].
Qed.

(** ** What decides a period's boundaries, and what happens outside periods *)

(** When the dependencies of the activation condition are fresh, the auditor
    is auditing after its visit iff the condition evaluated to true: a period
    is a maximal stretch over which the sampled condition holds. *)
Lemma visit_tracks_condition c s ts m s' o ms b :
  visit c false s ts m = (s', o, Running) ->
  get_ms (m_name m) (s_ms s) = Some ms ->
  has_deps s (m_cond m) = true -> truthy (eval (env_of s) (m_cond m)) = Some b ->
  exists ms', get_ms (m_name m) (s_ms s') = Some ms' /\ ms_auditing ms' = b.
Proof.
  intros Hv Hg Hd Hb. unfold visit in Hv. rewrite Hg in Hv. unfold wanted in Hv. rewrite Hd, Hb in Hv.
  destruct (b && negb (ms_auditing ms) && negb (start_ok m)); [discriminate|].
  set (q0 := if b && negb (ms_auditing ms) then match m_expect m with Some (tbl, _) => f_start tbl | None => ms_fsm ms end else ms_fsm ms) in *.
  set (au := ms_auditing ms || b && negb (ms_auditing ms)) in *.
  assert (Hau : au = ms_auditing ms || b) by (subst au; destruct (ms_auditing ms), b; reflexivity).
  destruct (negb au) eqn:Ena.
  - inversion Hv; subst. eexists. split; [apply get_ms_set_ms_same; eassumption|]. cbn.
    apply negb_true_iff in Ena. rewrite Hau in Ena |- *.
    destruct (ms_auditing ms), b; cbn in *; congruence.
  - destruct (do_assigns c (set_ms s (m_name m) au q0) ts (m_assigns m)) as [[s1 o1] st1] eqn:Ed.
    pose proof (get_ms_set_ms_same s (m_name m) au q0 ms Hg) as Hg0.
    destruct (do_assigns_spec _ _ _ _ _ _ _ _ _ Ed Hg0) as (_ & ms1 & Hg1 & _).
    destruct st1; try discriminate.
    destruct (check_expect m s1 q0) as [[q1 o2] ok2]. destruct (negb ok2); [discriminate|].
    destruct (period_end m (negb b && ms_auditing ms) q1) as [[q2 o3] ok3]. destruct (negb ok3); [discriminate|].
    inversion Hv; subst. eexists. split; [apply get_ms_set_ms_same; eassumption|]. cbn.
    apply negb_false_iff in Ena. rewrite Hau in Ena |- *.
    destruct (ms_auditing ms), b; cbn in *; congruence.
Qed.

(** When they are not fresh (and it is not the final round), nothing at all
    happens for this auditor. *)
Lemma visit_stale_condition c s ts m :
  has_deps s (m_cond m) = false -> visit c false s ts m = (s, [], Running).
Proof.
  intros Hd. unfold visit. destruct (get_ms (m_name m) (s_ms s)); [|reflexivity].
  unfold wanted. rewrite Hd. reflexivity.
Qed.

(** Outside a period — the auditor is not auditing and its condition does not
    (re)start a period now — nothing is judged, computed or collected: no
    output, no variable written. *)
Lemma visit_outside_period c final s ts m ms s' o stt :
  get_ms (m_name m) (s_ms s) = Some ms -> ms_auditing ms = false ->
  wanted final s m <> Some (Some true) ->
  visit c final s ts m = (s', o, stt) ->
  o = [] /\ s_vals s' = s_vals s /\ s_act s' = s_act s /\ stt <> Panicked.
Proof.
  intros Hg Ha Hw Hv. unfold visit in Hv. rewrite Hg in Hv.
  destruct (wanted final s m) as [[w|]|]; try (inversion Hv; subst; repeat split; discriminate).
  destruct w; [congruence|]. rewrite Ha in Hv. cbn in Hv. inversion Hv; subst.
  repeat split; discriminate.
Qed.

(** ** Aborted auditions *)

(** Also when an evaluation error aborted the audit loop: the deferred final
    round still closes every period — unless that final round itself hits an
    evaluation error (the loop then stops visiting auditors, in the code as in
    the model). *)
Definition final_round_aborted (c : acfg) : Prop :=
  exists sb ts s1 o1, step_event c sb (EFinal ts) = (s1, o1, Aborted).

Lemma run_events_closed_or_final_aborted c ma :
  NoDup (map m_name (c_members c)) -> In ma (c_members c) ->
  forall es s st0 os s' stt ms p,
  run_events c s st0 es = (os, s', stt) -> stt <> Panicked ->
  get_ms (m_name ma) (s_ms s) = Some ms -> rel (tbl_of ma) ms p -> s_mood_start s <> None ->
  ends_final es = true ->
  exists p', trace_run (m_name ma) (tbl_of ma) p (List.concat os) = Some p' /\
             (p' = PClosed \/ final_round_aborted c).
Proof.
  intros Hnd Hin. induction es as [|e es IH]; intros s st0 os s' stt ms p Hr Hnp Hg Hrel Hms Hef;
    [discriminate|]. cbn [run_events] in Hr.
  destruct st0.
  - destruct (step_event c s e) as [[s1 o1] st1] eqn:E1.
    destruct (run_events c s1 st1 es) as [[os2 s2] st2] eqn:E2.
    inversion Hr; subst; clear Hr.
    assert (Hst1 : st1 <> Panicked).
    { intros ->. destruct es; cbn in E2; inversion E2; subst; congruence. }
    destruct (step_event_trace _ _ _ _ _ _ _ _ _ Hnd Hin E1 Hst1 Hg Hrel Hms)
      as ((p1 & ms1 & Ht1 & Hg1 & Hr1 & Hf1) & Hms1).
    destruct es as [|e2 es2].
    + cbn [ends_final] in Hef.
      destruct st1; [| |congruence]; cbn in E2; inversion E2; subst; cbn [List.concat]; rewrite app_nil_r;
        exists p1; (split; [exact Ht1|]).
      * left. apply Hf1; [exact Hef|reflexivity].
      * right. destruct e; try discriminate. eexists _, _, _, _. exact E1.
    + destruct (IH _ _ _ _ _ _ _ E2 Hnp Hg1 Hr1 Hms1 Hef) as (p2 & Ht2 & Hc).
      exists p2. cbn [List.concat]. rewrite trace_run_app, Ht1. split; [exact Ht2 | exact Hc].
  - destruct e as [ts mo|ts vs|ts].
    + destruct (run_events c s Aborted es) as [[os2 s2] st2] eqn:E2. inversion Hr; subst; clear Hr.
      destruct es as [|e2 es2]; [discriminate|].
      destruct (IH _ _ _ _ _ _ _ E2 Hnp Hg Hrel Hms Hef) as (p2 & Ht2 & Hc).
      exists p2. cbn [List.concat app]. split; assumption.
    + destruct (run_events c s Aborted es) as [[os2 s2] st2] eqn:E2. inversion Hr; subst; clear Hr.
      destruct es as [|e2 es2]; [discriminate|].
      destruct (IH _ _ _ _ _ _ _ E2 Hnp Hg Hrel Hms Hef) as (p2 & Ht2 & Hc).
      exists p2. cbn [List.concat app]. split; assumption.
    + destruct (step_event c s (EFinal ts)) as [[s1 o1] st1] eqn:E1.
      destruct (run_events c s1 (match st1 with Running => Aborted | x => x end) es) as [[os2 s2] st2] eqn:E2.
      inversion Hr; subst; clear Hr.
      assert (Hst1 : st1 <> Panicked).
      { intros ->. destruct es; cbn in E2; inversion E2; subst; congruence. }
      destruct (step_event_trace _ _ _ _ _ _ _ _ _ Hnd Hin E1 Hst1 Hg Hrel Hms)
        as ((p1 & ms1 & Ht1 & Hg1 & Hr1 & Hf1) & Hms1).
      destruct es as [|e2 es2].
      * destruct st1; [| |congruence]; cbn in E2; inversion E2; subst; cbn [List.concat]; rewrite app_nil_r;
          exists p1; (split; [exact Ht1|]).
        -- left. apply Hf1; reflexivity.
        -- right. eexists _, _, _, _. exact E1.
      * destruct (IH _ _ _ _ _ _ _ E2 Hnp Hg1 Hr1 Hms1 Hef) as (p2 & Ht2 & Hc).
        exists p2. cbn [List.concat]. rewrite trace_run_app, Ht1. split; [exact Ht2 | exact Hc].
  - destruct es; inversion Hr; subst; congruence.
Qed.

(** The audition got past its initial round (an error there ends it before the
    final round is even registered). *)
Theorem audition_periods_closed_even_when_aborted c es ma os s stt :
  NoDup (map m_name (c_members c)) -> In ma (c_members c) ->
  ends_final es = true ->
  (exists s1 o0, mood_change c (init_st c) false 0 "clear" = (s1, o0, Running)) ->
  run_audition c es = (os, s, stt) -> stt <> Panicked ->
  all_periods_closed (m_name ma) (tbl_of ma) os \/ final_round_aborted c.
Proof.
  intros Hnd Hin Hef (s1 & o0 & E0) Hr Hnp. unfold run_audition in Hr. rewrite E0 in Hr.
  destruct (run_events c s1 Running es) as [[os2 s2] st2] eqn:E1. inversion Hr; subst; clear Hr.
  destruct (get_ms_init (c_members c) ma Hin) as (ms0 & Hg0 & Ha0).
  assert (Hrel0 : rel (tbl_of ma) ms0 PClosed) by exact Ha0.
  destruct (mood_change_trace _ _ _ _ _ _ _ _ ma ms0 PClosed Hnd Hin E0 ltac:(discriminate) Hg0 Hrel0)
    as ((p1 & ms1 & Ht1 & Hg1 & Hr1 & _) & Hms1 & _).
  destruct (run_events_closed_or_final_aborted c ma Hnd Hin _ _ _ _ _ _ _ _ E1 Hnp Hg1 Hr1 (Hms1 eq_refl eq_refl) Hef)
    as (p2 & Ht2 & [Hc|Hc]); [left | right; exact Hc].
  unfold all_periods_closed. cbn [List.concat]. rewrite trace_run_app, Ht1, Ht2. congruence.
Qed.

(** * What is observed is the predicate's own value

    The label of a report that is not the end-of-period judgement is the value
    of the auditor's predicate in that very round, evaluated after the
    auditor's own assignments of the round, and only when the predicate's
    dependencies are fresh.  Together with the period grammar above (which
    follows the reported labels through the table from its start state) this
    is the plain meaning: a period's verdicts are those of its modality over
    the predicate's values during that period. *)
Lemma check_expect_label m s1 q0 q1 o2 ok tbl p a l code :
  check_expect m s1 q0 = (q1, o2, ok) -> m_expect m = Some (tbl, p) -> In (OReport a l code) o2 ->
  a = m_name m /\ has_deps s1 p = true /\
  ((l = "err"%string /\ truthy (eval (env_of s1) p) = None) \/
   (exists b, truthy (eval (env_of s1) p) = Some b /\ l = lbl b)).
Proof.
  unfold check_expect. intros H Hm. rewrite Hm in H.
  destruct (has_deps s1 p) eqn:Hd; cbn [negb] in H; [|inversion H; subst; intros []].
  destruct (truthy (eval (env_of s1) p)) as [b|] eqn:Hb.
  - destruct (fsm_report tbl q0 (lbl b)) as [[q' c]|]; inversion H; subst; [|intros []].
    intros [E|[]]. inversion E; subst. split; [reflexivity|]. split; [reflexivity|]. right. exists b. split; reflexivity.
  - inversion H; subst. intros [E|[]]. inversion E; subst. split; [reflexivity|]. split; [reflexivity|]. left. split; reflexivity.
Qed.

Lemma is_obs_not_report o a l code : forallb is_obs o = true -> ~ In (OReport a l code) o.
Proof.
  intros H Hin. rewrite forallb_forall in H. specialize (H _ Hin). discriminate.
Qed.

Lemma period_end_label m closing q1 q2 o3 ok a l code :
  period_end m closing q1 = (q2, o3, ok) -> In (OReport a l code) o3 -> l = "end"%string.
Proof.
  unfold period_end. destruct closing; [|intros H; inversion H; subst; intros []].
  destruct (m_expect m) as [[tbl p]|]; [|intros H; inversion H; subst; intros [E|[]]; discriminate].
  destruct (fsm_report tbl q1 "end") as [[q' c]|]; intros H; inversion H; subst; [|intros []].
  intros [E|[E|[]]]; [inversion E; reflexivity | discriminate].
Qed.

Theorem visit_reports_the_predicate_value c final s ts m s' o stt tbl p a l code :
  visit c final s ts m = (s', o, stt) -> m_expect m = Some (tbl, p) ->
  In (OReport a l code) o -> l <> "end"%string ->
  a = m_name m /\
  exists s0 s1 o1, do_assigns c s0 ts (m_assigns m) = (s1, o1, Running) /\ has_deps s1 p = true /\
    ((l = "err"%string /\ truthy (eval (env_of s1) p) = None) \/
     (exists b, truthy (eval (env_of s1) p) = Some b /\ l = lbl b)).
Proof.
  unfold visit. intros H Hm Hin Hl.
  destruct (get_ms (m_name m) (s_ms s)) as [ms|] eqn:Hg; [|inversion H; subst; destruct Hin].
  destruct (wanted final s m) as [[w|]|]; try (inversion H; subst; destruct Hin; fail).
  set (starting := w && negb (ms_auditing ms)) in *.
  set (closing := negb w && ms_auditing ms) in *.
  set (q0 := if starting then match m_expect m with Some (tbl0, _) => f_start tbl0 | None => ms_fsm ms end else ms_fsm ms) in *.
  set (auditing := ms_auditing ms || starting) in *.
  destruct (starting && negb (start_ok m)).
  { inversion H; subst. destruct Hin as [E|[]]; discriminate. }
  set (o_start := if starting then [OStart (m_name m)] else []) in *.
  assert (Hos : ~ In (OReport a l code) o_start).
  { unfold o_start. destruct starting; [intros [E|[]]; discriminate | intros []]. }
  destruct (negb auditing).
  { inversion H; subst. contradiction. }
  destruct (do_assigns c (set_ms s (m_name m) auditing q0) ts (m_assigns m)) as [[s1 o1] st1] eqn:Ea.
  assert (Ho1 : ~ In (OReport a l code) o1).
  { assert (Hg0 : get_ms (m_name m) (s_ms (set_ms s (m_name m) auditing q0)) <> None).
    { rewrite (get_ms_set_ms_same s (m_name m) auditing q0 ms Hg). discriminate. }
    destruct (get_ms (m_name m) (s_ms (set_ms s (m_name m) auditing q0))) as [ms0|] eqn:Hg1; [|contradiction].
    destruct (do_assigns_spec _ _ _ _ _ _ _ _ _ Ea Hg1) as (Hobs & _). apply is_obs_not_report, Hobs. }
  destruct st1; try (inversion H; subst; apply in_app_or in Hin; destruct Hin; contradiction).
  destruct (check_expect m s1 q0) as [[q1 o2] ok2] eqn:Ec.
  destruct ok2; cbn [negb] in H.
  - destruct (period_end m closing q1) as [[q2 o3] ok3] eqn:Ep.
    assert (Hin' : In (OReport a l code) (o_start ++ o1 ++ o2 ++ o3)).
    { destruct ok3; cbn [negb] in H; inversion H; subst; exact Hin. }
    apply in_app_or in Hin'. destruct Hin' as [Hin'|Hin']; [contradiction|].
    apply in_app_or in Hin'. destruct Hin' as [Hin'|Hin']; [contradiction|].
    apply in_app_or in Hin'. destruct Hin' as [Hin'|Hin'].
    + destruct (check_expect_label _ _ _ _ _ _ _ _ _ _ _ Ec Hm Hin') as (Ha & Hd & Hv).
      split; [exact Ha|]. exists (set_ms s (m_name m) auditing q0), s1, o1. split; [exact Ea|]. split; assumption.
    + exfalso. apply Hl. eapply period_end_label; eassumption.
  - assert (Hin2 : In (OReport a l code) (o_start ++ o1 ++ o2)).
    { inversion H; subst; exact Hin. }
    clear Hin. rename Hin2 into Hin.
    apply in_app_or in Hin. destruct Hin as [Hin|Hin]; [contradiction|].
    apply in_app_or in Hin. destruct Hin as [Hin|Hin]; [contradiction|].
    destruct (check_expect_label _ _ _ _ _ _ _ _ _ _ _ Ec Hm Hin) as (Ha & Hd & Hv).
    split; [exact Ha|]. exists (set_ms s (m_name m) auditing q0), s1, o1. split; [exact Ea|]. split; assumption.
Qed.
