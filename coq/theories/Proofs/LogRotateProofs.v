(** Proofs about rotation and garbage collection of log files. *)
From Shk Require Import Base.Prelude Model.LogRotate.
From Coq Require Import Sorting.Permutation Sorting.Sorted.
Open Scope Z_scope.

(** * selectFiles: a permutation, newest first *)
Lemma insert_desc_perm f l : Permutation (insert_desc f l) (f :: l).
Proof.
  induction l as [|g tl IH]; cbn; [apply Permutation_refl|].
  destruct (f_stamp g <? f_stamp f); [apply Permutation_refl|].
  eapply Permutation_trans; [apply perm_skip, IH | apply perm_swap].
Qed.

Lemma sort_desc_perm l : Permutation (sort_desc l) l.
Proof.
  induction l as [|f tl IH]; cbn; [constructor|].
  eapply Permutation_trans; [apply insert_desc_perm | apply perm_skip, IH].
Qed.

Definition newer_eq (a b : lfile) : Prop := f_stamp b <= f_stamp a.
Definition newer (a b : lfile) : Prop := f_stamp b < f_stamp a.

Lemma insert_desc_sorted f l : StronglySorted newer_eq l -> StronglySorted newer_eq (insert_desc f l).
Proof.
  induction 1 as [|g tl Hs IH Hg]; cbn.
  - constructor; constructor.
  - destruct (f_stamp g <? f_stamp f) eqn:E.
    + constructor; [constructor; assumption|].
      constructor; [unfold newer_eq; lia|].
      eapply Forall_impl; [|exact Hg]. unfold newer_eq; intros; lia.
    + constructor; [assumption|].
      eapply Permutation_Forall; [apply Permutation_sym, insert_desc_perm|].
      constructor; [unfold newer_eq; lia | assumption].
Qed.

Lemma sort_desc_sorted l : StronglySorted newer_eq (sort_desc l).
Proof. induction l; cbn; [constructor | apply insert_desc_sorted; assumption]. Qed.

Lemma sort_desc_id l : StronglySorted newer l -> sort_desc l = l.
Proof.
  induction 1 as [|f tl Hs IH Hf]; cbn; [reflexivity|].
  rewrite IH. destruct tl as [|g tl']; [reflexivity|].
  cbn. inversion Hf; subst. unfold newer in *. replace (f_stamp g <? f_stamp f) with true by lia.
  reflexivity.
Qed.

(** * gcOldFiles *)
Lemma gc_loop_incl b l : forall sum f, In f (gc_loop b sum l) -> In f l.
Proof.
  induction l as [|g tl IH]; intros sum f H; cbn in *; [assumption|].
  destruct (sum + f_size g <? b); [destruct H as [-> | H]; [left; reflexivity|]|]; right; eapply IH; eassumption.
Qed.

Lemma gc_incl b l f : In f (gc b l) -> In f l.
Proof.
  unfold gc, gc_select. intros H.
  eapply Permutation_in; [apply sort_desc_perm|].
  destruct (sort_desc l) as [|n tl]; [assumption|].
  destruct H as [-> | H]; [left; reflexivity | right; eapply gc_loop_incl; eassumption].
Qed.

Lemma sum_sizes_app a b : sum_sizes (a ++ b) = sum_sizes a + sum_sizes b.
Proof. induction a as [|x a IH]; [reflexivity|]. unfold sum_sizes in *. cbn [app fold_right]. rewrite IH. lia. Qed.

Lemma gc_loop_spec b l1 : forall sum f l2,
  NoDup (map f_stamp (l1 ++ f :: l2)) ->
  (In f (gc_loop b sum (l1 ++ f :: l2)) <-> sum + sum_sizes (l1 ++ [f]) < b).
Proof.
  induction l1 as [|g l1 IH]; intros sum f l2 ND.
  - cbn in *. inversion ND as [|? ? Hnin ND']; subst.
    destruct (sum + f_size f <? b) eqn:E.
    + split; [intros _; lia | intros _; left; reflexivity].
    + split; [|lia]. intros H. apply gc_loop_incl in H.
      exfalso; apply Hnin. apply in_map; assumption.
  - cbn [app map] in ND. inversion ND as [|? ? Hnin ND']; subst.
    assert (f <> g) as Hfg.
    { intros ->. apply Hnin. rewrite map_app. apply in_or_app; right; left; reflexivity. }
    cbn [app gc_loop sum_sizes fold_right].
    specialize (IH (sum + f_size g) f l2 ND').
    fold (sum_sizes (l1 ++ [f])).
    destruct (sum + f_size g <? b).
    + split.
      * intros [H | H]; [congruence|]. apply IH in H. lia.
      * intros H. right. apply IH. lia.
    + split; intros H; [apply IH in H; lia | apply IH; lia].
Qed.

(** The newest file always survives ... *)
Theorem gc_keeps_newest b l n tl : sort_desc l = n :: tl ->
  In n l /\ (forall f, In f l -> f_stamp f <= f_stamp n) /\ exists rest, gc b l = n :: rest.
Proof.
  intros E. pose proof (sort_desc_perm l) as P. pose proof (sort_desc_sorted l) as S.
  rewrite E in *. repeat split.
  - eapply Permutation_in; [exact P | left; reflexivity].
  - intros f Hf. apply (Permutation_in _ (Permutation_sym P)) in Hf.
    destruct Hf as [-> | Hf]; [lia|].
    inversion S as [|? ? _ Hall]; subst. rewrite Forall_forall in Hall. apply Hall; assumption.
  - unfold gc, gc_select. rewrite E. eexists; reflexivity.
Qed.

(** ... and any other file survives exactly when the sizes of the files from the
    newest down to and including it add up to less than the bound. *)
Theorem gc_keeps_only_within_bound b l n l1 f l2 :
  NoDup (map f_stamp l) ->
  sort_desc l = n :: l1 ++ f :: l2 ->
  (In f (gc b l) <-> sum_sizes (n :: l1 ++ [f]) < b).
Proof.
  intros ND E.
  assert (NoDup (map f_stamp (n :: l1 ++ f :: l2))) as ND'.
  { rewrite <- E. eapply Permutation_NoDup; [|exact ND].
    apply Permutation_map, Permutation_sym, sort_desc_perm. }
  unfold gc, gc_select. rewrite E.
  cbn [map] in ND'. inversion ND' as [|? ? Hnin ND'']; subst.
  assert (f <> n) as Hfn.
  { intros ->. apply Hnin. rewrite map_app. apply in_or_app; right; left; reflexivity. }
  pose proof (gc_loop_spec b l1 (f_size n) f l2 ND'') as S.
  cbn [sum_sizes fold_right]. fold (sum_sizes (l1 ++ [f])).
  split.
  - intros [H | H]; [congruence | apply S; assumption].
  - intros H. right. apply S. assumption.
Qed.

(** With non-negative sizes the survivors are a prefix of the newest-first
    list: GC only ever removes the oldest files. *)
Lemma gc_loop_nil b l : forall sum, b <= sum -> Forall (fun f => 0 <= f_size f) l -> gc_loop b sum l = [].
Proof.
  induction l as [|g tl IH]; intros sum H F; cbn; [reflexivity|].
  inversion F; subst. replace (sum + f_size g <? b) with false by lia. apply IH; [lia | assumption].
Qed.

Lemma gc_loop_prefix b l : forall sum, Forall (fun f => 0 <= f_size f) l ->
  exists k, gc_loop b sum l = firstn k l.
Proof.
  induction l as [|g tl IH]; intros sum F; [exists 0%nat; reflexivity|].
  inversion F; subst. cbn [gc_loop]. destruct (sum + f_size g <? b) eqn:E.
  - destruct (IH (sum + f_size g)) as [k Hk]; [assumption|]. exists (S k). cbn. rewrite Hk. reflexivity.
  - exists 0%nat. apply gc_loop_nil; [lia | assumption].
Qed.

(** * Histories *)
Record Inv (s : lstate) : Prop := {
  inv_sorted : StronglySorted newer (dir s);
  inv_sizes : Forall (fun f => 0 <= f_size f) (dir s);
  inv_open : is_open s = true -> exists f tl, dir s = f :: tl /\ f_stamp f = last_rot s;
  inv_closed : is_open s = false -> last_rot s = 0
}.

(** What a history must satisfy: message sizes are not negative, and when the
    file is (re-)opened the clock is positive and not behind the name of the
    newest file in the directory. *)
Definition op_ok (s : lstate) (o : rop) : Prop :=
  match o with
  | RLog n1 _ _ len =>
      0 <= len /\ (is_open s = false -> 0 < n1 /\ Forall (fun f => f_stamp f <= n1) (dir s))
  | _ => True
  end.

Fixpoint run_ok (h : Z) (s : lstate) (ops : list rop) : Prop :=
  match ops with
  | [] => True
  | o :: tl => op_ok s o /\ run_ok h (rstep h s o) tl
  end.

Lemma readback_of_cons f tl : readback_of (f :: tl) = readback_of tl ++ f_msgs f.
Proof. unfold readback_of. cbn [rev]. rewrite map_app, concat_app. cbn. rewrite app_nil_r. reflexivity. Qed.

Lemma sorted_head_bound f tl : StronglySorted newer (f :: tl) -> Forall (fun g => f_stamp g <= f_stamp f) (f :: tl).
Proof.
  intros S. inversion S as [|? ? _ H]; subst. constructor; [lia|].
  eapply Forall_impl; [|exact H]. unfold newer. intros; lia.
Qed.

Lemma do_rotate_spec now h s :
  0 <= h -> Inv s ->
  (is_open s = false -> 0 < now /\ Forall (fun f => f_stamp f <= now) (dir s)) ->
  Inv (do_rotate now h s) /\ readback (do_rotate now h s) = readback s /\ is_open (do_rotate now h s) = true.
Proof.
  intros Hh [Srt Z1 O C] Hc. unfold do_rotate.
  set (st := if now <=? last_rot s then last_rot s + 1 else now).
  assert (Forall (fun f => f_stamp f <= st) (dir s) /\ (is_open s = true -> Forall (fun f => f_stamp f < st) (dir s))) as [B Bo].
  { destruct (is_open s) eqn:E.
    - destruct (O eq_refl) as (f & tl & D & Hf).
      assert (last_rot s < st) as L by (subst st; destruct (now <=? last_rot s) eqn:E2; lia).
      rewrite D in *. pose proof (sorted_head_bound f tl Srt) as HB.
      split; [|intros _]; (eapply Forall_impl; [|exact HB]); cbn; intros; lia.
    - destruct (Hc eq_refl) as [Hn HF]. pose proof (C eq_refl) as L0.
      assert (st = now) as -> by (subst st; rewrite L0; destruct (now <=? 0) eqn:E2; lia).
      split; [exact HF | discriminate]. }
  destruct (dir s) as [|f tl] eqn:D.
  - repeat split; cbn [dir is_open last_rot].
    + constructor; constructor.
    + constructor; [cbn; lia | constructor].
    + intros _. eexists _, _. split; reflexivity.
    + discriminate.
    + unfold readback. cbn [dir]. rewrite D. reflexivity.
  - inversion Srt as [|? ? Stl Hf]; subst. inversion Z1 as [|? ? Zf Ztl]; subst.
    inversion B as [|? ? Bf Btl]; subst.
    destruct (f_stamp f =? st) eqn:E.
    + apply Z.eqb_eq in E. repeat split; cbn [dir is_open last_rot].
      * constructor; [assumption|]. eapply Forall_impl; [|exact Hf]. unfold newer; cbn; intros; lia.
      * constructor; [cbn; lia | assumption].
      * intros _. eexists _, _. split; reflexivity.
      * discriminate.
      * unfold readback. cbn [dir]. rewrite D, !readback_of_cons. reflexivity.
    + apply Z.eqb_neq in E. repeat split; cbn [dir is_open last_rot].
      * constructor; [constructor; assumption|]. constructor; [unfold newer; cbn; lia|].
        eapply Forall_impl; [|exact Hf]. unfold newer; cbn; intros; lia.
      * constructor; [cbn; lia | constructor; assumption].
      * intros _. eexists _, _. split; reflexivity.
      * discriminate.
      * unfold readback. cbn [dir]. rewrite D, readback_of_cons. cbn. apply app_nil_r.
Qed.

Lemma append_msg_inv id len s : 0 <= len -> Inv s -> Inv (append_msg id len s).
Proof.
  intros Hl [Srt Z1 O C]. unfold append_msg. destruct (dir s) as [|f tl] eqn:D.
  - constructor; rewrite ?D; auto.
  - constructor; cbn [dir is_open last_rot].
    + inversion Srt; subst. constructor; assumption.
    + inversion Z1; subst. constructor; [cbn; lia | assumption].
    + intros E. destruct (O E) as (f' & tl' & D' & Hf). inversion D'; subst. eexists _, _. split; [reflexivity | exact Hf].
    + exact C.
Qed.

Lemma append_msg_readback id len s : dir s <> [] -> readback (append_msg id len s) = readback s ++ [id].
Proof.
  intros H. unfold append_msg. destruct (dir s) as [|f tl] eqn:D; [congruence|].
  unfold readback. cbn [dir]. rewrite D, !readback_of_cons. cbn [f_msgs]. apply app_assoc.
Qed.

Lemma do_flush_inv s : Inv s -> Inv (do_flush s).
Proof. intros [A B C D]. constructor; assumption. Qed.

Lemma do_flush_readback s : readback (do_flush s) = readback s.
Proof. reflexivity. Qed.

Lemma do_log_spec n1 n2 h id len s :
  0 <= h -> op_ok s (RLog n1 n2 id len) -> Inv s ->
  Inv (do_log n1 n2 h id len s) /\ readback (do_log n1 n2 h id len s) = readback s ++ [id].
Proof.
  intros Hh [Hl Hc] I. unfold do_log.
  set (s1 := if is_open s then s else do_rotate n1 h s).
  assert (Inv s1 /\ readback s1 = readback s /\ is_open s1 = true) as (I1 & R1 & O1).
  { subst s1. destruct (is_open s) eqn:O; [auto|]. apply do_rotate_spec; auto. }
  set (s2 := if maxsz s1 <=? nbytes s1 + len then do_rotate n2 h s1 else s1).
  assert (Inv s2 /\ readback s2 = readback s /\ is_open s2 = true) as (I2 & R2 & O2).
  { subst s2. destruct (maxsz s1 <=? nbytes s1 + len); [|auto].
    destruct (do_rotate_spec n2 h s1 Hh I1) as (A & B & C); [intros E; congruence|].
    rewrite B. auto. }
  assert (Inv (append_msg id len s2) /\ readback (append_msg id len s2) = readback s ++ [id]) as [I3 R3].
  { split; [apply append_msg_inv; assumption|].
    rewrite append_msg_readback, R2; [reflexivity|].
    destruct (inv_open _ I2 O2) as (f & tl & D & _). rewrite D. discriminate. }
  destruct (syncw (append_msg id len s2)); [|auto].
  split; [apply do_flush_inv; assumption | rewrite do_flush_readback; assumption].
Qed.

Lemma firstn_sorted {A} (R : A -> A -> Prop) k : forall l, StronglySorted R l -> StronglySorted R (firstn k l).
Proof.
  induction k as [|k IH]; intros l S; [constructor|].
  destruct l as [|a l]; [constructor|]. cbn. inversion S; subst.
  constructor; [apply IH; assumption|].
  rewrite Forall_forall in *. intros x Hx. apply H2. eapply (In_nth_error) in Hx.
  destruct Hx as [n Hn]. clear -Hn. revert k n Hn. induction l as [|b l IHl]; intros k n Hn.
  - destruct k; destruct n; discriminate.
  - destruct k; [destruct n; discriminate|]. destruct n; cbn in Hn.
    + inversion Hn; left; reflexivity.
    + right. eapply IHl; eassumption.
Qed.

Lemma firstn_Forall {A} (P : A -> Prop) k : forall l, Forall P l -> Forall P (firstn k l).
Proof.
  induction k; intros l F; [constructor|]. destruct F; cbn; constructor; auto.
Qed.

Lemma do_gc_spec b s : Inv s ->
  Inv (do_gc b s) /\ exists dropped, dropped ++ readback (do_gc b s) = readback s.
Proof.
  intros [Srt Z1 O C]. unfold do_gc, gc. rewrite sort_desc_id by assumption.
  unfold gc_select. destruct (dir s) as [|n tl] eqn:D.
  - split; [constructor; cbn; rewrite ?D; auto|]. exists []. unfold readback, readback_of; cbn. rewrite D. reflexivity.
  - inversion Z1 as [|? ? Zn Ztl]; subst.
    destruct (gc_loop_prefix b tl (f_size n) Ztl) as [k Hk]. rewrite Hk.
    change (n :: firstn k tl) with (firstn (S k) (n :: tl)).
    split.
    + constructor; cbn [dir is_open last_rot].
      * apply firstn_sorted; assumption.
      * apply firstn_Forall; assumption.
      * intros E. destruct (O E) as (f & tl' & D' & Hf). inversion D'; subst.
        eexists _, _. split; [reflexivity | exact Hf].
      * exact C.
    + exists (concat (map f_msgs (rev (skipn (S k) (n :: tl))))).
      unfold readback, readback_of. cbn [dir]. rewrite D.
      rewrite <- concat_app, <- map_app, <- rev_app_distr, firstn_skipn. reflexivity.
Qed.

Lemma rstep_spec h s o : 0 <= h -> op_ok s o -> Inv s ->
  Inv (rstep h s o) /\
  exists dropped, dropped ++ readback (rstep h s o) = readback s ++ logged [o] /\
                  (no_gc [o] = true -> dropped = []).
Proof.
  intros Hh G I. destruct o as [n1 n2 id len | m | b | sy | | |]; cbn [rstep logged no_gc].
  - destruct (do_log_spec n1 n2 h id len s Hh G I) as [I' R].
    split; [assumption|]. exists []. split; [exact R | reflexivity].
  - split; [destruct I; constructor; assumption|]. exists []. rewrite app_nil_r. split; reflexivity.
  - destruct (do_gc_spec b s I) as [I' [d R]]. split; [assumption|].
    exists d. rewrite app_nil_r. split; [assumption | discriminate].
  - split; [destruct I; destruct sy; constructor; assumption|].
    exists []. rewrite app_nil_r. split; [destruct sy|]; reflexivity.
  - split; [destruct I; constructor; cbn; auto; discriminate|].
    exists []. rewrite app_nil_r. split; reflexivity.
  - split; [apply do_flush_inv; assumption|]. exists []. rewrite app_nil_r. split; reflexivity.
  - split; [assumption|]. exists []. rewrite app_nil_r. split; reflexivity.
Qed.

Lemma logged_app a b : logged (a ++ b) = logged a ++ logged b.
Proof. induction a as [|o a IH]; [reflexivity|]. destruct o; cbn; rewrite ?IH; reflexivity. Qed.

(** Every message logged so far is read back exactly once and in order across
    rotations, closes and re-opens, for every sequence of sizes, thresholds and
    clocks; GC runs drop a prefix (the oldest files) and nothing else. *)
Theorem rotation_gc_history h : 0 <= h -> forall ops s,
  run_ok h s ops -> Inv s ->
  Inv (rrun h s ops) /\
  exists dropped, dropped ++ readback (rrun h s ops) = readback s ++ logged ops /\
                  (no_gc ops = true -> dropped = []).
Proof.
  intros Hh ops. induction ops as [|o ops IH]; intros s G I.
  - split; [assumption|]. exists []. rewrite app_nil_r. split; reflexivity.
  - destruct G as [Go Gops].
    destruct (rstep_spec h s o Hh Go I) as (I1 & d1 & R1 & N1).
    destruct (IH (rstep h s o) Gops I1) as (I2 & d2 & R2 & N2).
    split; [exact I2|].
    exists (d1 ++ d2). split.
    + cbn [rrun fold_left]. fold (rrun h (rstep h s o) ops).
      rewrite <- app_assoc, R2, app_assoc, R1, <- app_assoc.
      change (o :: ops) with ([o] ++ ops). rewrite logged_app. reflexivity.
    + intros NG. assert (no_gc [o] = true /\ no_gc ops = true) as [A B].
      { destruct o; cbn in NG |- *; auto; discriminate. }
      rewrite (N1 A), (N2 B). reflexivity.
Qed.

Lemma init_inv planted m :
  StronglySorted newer planted -> Forall (fun f => 0 <= f_size f) planted -> Inv (init_state planted m).
Proof. intros S Z1. constructor; cbn; auto; discriminate. Qed.

(** ** Buffering: Flush leaves nothing behind; sync mode writes through. *)
Lemma on_disk_flushed s : ubytes s = 0 -> ucount s = 0%nat -> on_disk s = dir s.
Proof.
  intros B C. unfold on_disk. rewrite B, C. destruct (dir s) as [|f tl]; [reflexivity|].
  rewrite Nat.sub_0_r, firstn_all, Z.sub_0_r. destruct f; reflexivity.
Qed.

Theorem flush_leaves_nothing_buffered s :
  on_disk (do_flush s) = dir s /\ readback_disk (do_flush s) = readback s.
Proof.
  assert (on_disk (do_flush s) = dir s) as E by exact (on_disk_flushed (do_flush s) eq_refl eq_refl).
  split; [exact E|]. unfold readback_disk. rewrite E. reflexivity.
Qed.

Definition SyncInv (s : lstate) : Prop := syncw s = true -> ubytes s = 0 /\ ucount s = 0%nat.

Lemma syncw_do_rotate now h s : syncw (do_rotate now h s) = syncw s.
Proof. unfold do_rotate. destruct (dir s) as [|f tl]; [reflexivity|]. destruct (f_stamp f =? _); reflexivity. Qed.
Lemma syncw_append id len s : syncw (append_msg id len s) = syncw s.
Proof. unfold append_msg. destruct (dir s); reflexivity. Qed.

Lemma rstep_sync h s o : SyncInv s -> SyncInv (rstep h s o).
Proof.
  intros I. destruct o as [n1 n2 id len | m | b | sy | | |]; cbn [rstep].
  - unfold do_log.
    match goal with |- SyncInv (if syncw ?x then _ else _) => destruct (syncw x) eqn:E end.
    + intros _. split; reflexivity.
    + intros C. congruence.
  - exact I.
  - exact I.
  - destruct sy; [intros _; split; reflexivity | intros C; discriminate C].
  - intros _. split; reflexivity.
  - intros _. split; reflexivity.
  - exact I.
Qed.

(** In sync mode every write is on disk as soon as the logging call returns. *)
Theorem sync_mode_writes_through h ops : forall s, SyncInv s ->
  SyncInv (rrun h s ops) /\ (syncw (rrun h s ops) = true -> on_disk (rrun h s ops) = dir (rrun h s ops)).
Proof.
  induction ops as [|o ops IH]; intros s I.
  - split; [exact I|]. intros E. destruct (I E). apply on_disk_flushed; assumption.
  - cbn [rrun fold_left]. apply IH. apply rstep_sync. exact I.
Qed.

Theorem rotation_lossless h m ops :
  0 <= h -> run_ok h (init_state [] m) ops -> no_gc ops = true ->
  readback (rrun h (init_state [] m) ops) = logged ops.
Proof.
  intros Hh G NG.
  destruct (rotation_gc_history h Hh ops (init_state [] m) G) as (_ & d & R & N).
  - apply init_inv; constructor.
  - rewrite (N NG) in R. exact R.
Qed.

(** The property's wording: after a flush, what a reader of the files finds. *)
Theorem rotation_lossless_after_flush h m ops :
  0 <= h -> run_ok h (init_state [] m) ops -> no_gc ops = true ->
  readback_disk (do_flush (rrun h (init_state [] m) ops)) = logged ops.
Proof.
  intros Hh G NG. destruct (flush_leaves_nothing_buffered (rrun h (init_state [] m) ops)) as [_ ->].
  apply rotation_lossless; assumption.
Qed.

(** GC never removes the file being written. *)
Theorem gc_keeps_current b s : Inv s -> is_open s = true ->
  exists cur rest rest', dir s = cur :: rest /\ dir (do_gc b s) = cur :: rest'.
Proof.
  intros I O. destruct (inv_open _ I O) as (cur & rest & D & _).
  exists cur, rest. unfold do_gc, gc. cbn [dir]. rewrite D.
  rewrite sort_desc_id by (rewrite <- D; apply (inv_sorted _ I)).
  eexists; split; reflexivity.
Qed.

(** A file that is closed and re-opened under the name it already has (same
    second) keeps its content: the header and the new messages come after. *)
Theorem reopen_same_name_appends now h f tl s :
  dir s = f :: tl -> is_open s = false -> last_rot s = 0 -> 0 < now -> f_stamp f = now ->
  dir (do_rotate now h s) = mkFile now (f_size f + h) (f_msgs f) :: tl.
Proof.
  intros D O L Hn Hf. unfold do_rotate. rewrite D, L.
  replace (now <=? 0) with false by lia. rewrite Hf, Z.eqb_refl. reflexivity.
Qed.

(** * Several loggers in one directory *)
Lemma filter_filter_imp {A} (f g : A -> bool) l :
  (forall x, f x = true -> g x = true) -> filter f (filter g l) = filter f l.
Proof.
  intros H. induction l as [|x l IH]; [reflexivity|]. cbn.
  destruct (g x) eqn:G; cbn.
  - destruct (f x); rewrite IH; reflexivity.
  - destruct (f x) eqn:F; [rewrite (H x F) in G; discriminate | exact IH].
Qed.

Lemma is_prog_both p q x : is_prog p x = true -> is_prog q x = true -> p = q.
Proof. unfold is_prog. intros A B. apply bytes_eqb_eq in A, B. congruence. Qed.

(** A program name that properly extends [p] is not [p]: the main logger does
    not list "<program>-audit" files, nor "audit" those of "audit-x". *)
Lemma is_prog_extension p c r f : is_prog p (mkD (p ++ c :: r) f) = false.
Proof.
  unfold is_prog. cbn. destruct (bytes_eqb (p ++ c :: r) p) eqn:E; [|reflexivity].
  apply bytes_eqb_eq in E. apply (f_equal (@length byte)) in E.
  rewrite app_length in E. cbn in E. lia.
Qed.

(** GC of one logger leaves every file of every other program where it is. *)
Theorem gc_dir_other_programs_untouched p b d :
  filter (fun x => negb (is_prog p x)) (gc_dir p b d) = filter (fun x => negb (is_prog p x)) d.
Proof.
  unfold gc_dir. apply filter_filter_imp. intros x H. rewrite H. reflexivity.
Qed.

Corollary gc_dir_keeps_other_file p b d x : In x d -> is_prog p x = false -> In x (gc_dir p b d).
Proof.
  intros I H. unfold gc_dir. apply filter_In. split; [assumption|]. rewrite H. reflexivity.
Qed.

Lemma list_files_gc_dir_other p q b d : p <> q -> list_files q (gc_dir p b d) = list_files q d.
Proof.
  intros N. unfold list_files, gc_dir. f_equal. apply filter_filter_imp.
  intros x Q. destruct (is_prog p x) eqn:P; [|reflexivity].
  exfalso. apply N. eapply is_prog_both; eassumption.
Qed.

Lemma NoDup_map_inj {A B} (h : A -> B) l a b :
  NoDup (map h l) -> In a l -> In b l -> h a = h b -> a = b.
Proof.
  induction l as [|x l IH]; intros ND Ia Ib E; [contradiction|].
  cbn in ND. inversion ND as [|? ? Hn ND']; subst.
  destruct Ia as [-> | Ia], Ib as [-> | Ib]; auto.
  - exfalso. apply Hn. rewrite E. apply in_map; assumption.
  - exfalso. apply Hn. rewrite <- E. apply in_map; assumption.
Qed.

(** ... and among the logger's own files exactly those survive that its GC
    selects (so the newest-file and cumulative-size theorems apply to the files
    of THIS logger, whatever else the directory holds). *)
Theorem gc_dir_own_files p b d : NoDup (map f_stamp (list_files p d)) ->
  forall f, In f (list_files p (gc_dir p b d)) <-> In f (gc b (list_files p d)).
Proof.
  intros ND f. unfold list_files at 1. rewrite in_map_iff. split.
  - intros (x & <- & Hx). apply filter_In in Hx. destruct Hx as [Hx P].
    unfold gc_dir in Hx. apply filter_In in Hx. destruct Hx as [Hd K].
    rewrite P in K. cbn in K. unfold stamp_in in K. apply existsb_exists in K.
    destruct K as (g & Hg & E). apply Z.eqb_eq in E.
    assert (In (d_file x) (list_files p d)) as I1.
    { unfold list_files. apply in_map. apply filter_In. split; assumption. }
    assert (In g (list_files p d)) as I2 by (eapply gc_incl; eassumption).
    rewrite <- (NoDup_map_inj f_stamp _ _ _ ND I2 I1 E). exact Hg.
  - intros K. pose proof (gc_incl _ _ _ K) as I. unfold list_files in I.
    apply in_map_iff in I. destruct I as (x & <- & Hx). apply filter_In in Hx. destruct Hx as [Hd P].
    exists x. split; [reflexivity|]. apply filter_In. split; [|exact P].
    unfold gc_dir. apply filter_In. split; [exact Hd|].
    rewrite P. cbn. unfold stamp_in. apply existsb_exists. exists (d_file x). split; [exact K | apply Z.eqb_refl].
Qed.

(** The files of logger [q] in the common directory are its own [dir]. *)
Lemma filter_is_prog_map q p l :
  filter (is_prog q) (map (mkD p) l) = if bytes_eqb p q then map (mkD p) l else [].
Proof.
  destruct (bytes_eqb p q) eqn:E; induction l as [|f l IH]; try reflexivity;
    cbn [map filter]; change (is_prog q (mkD p f)) with (bytes_eqb p q); rewrite E, IH; reflexivity.
Qed.

Lemma list_files_flat_absent q ms : ~ In q (map fst ms) -> list_files q (flat_dir ms) = [].
Proof.
  induction ms as [|[p s] ms IH]; intros H; [reflexivity|].
  unfold list_files, flat_dir in *. cbn [map concat fst snd]. rewrite filter_app, map_app, filter_is_prog_map.
  destruct (bytes_eqb p q) eqn:E.
  - apply bytes_eqb_eq in E. exfalso. apply H. left. exact E.
  - cbn. apply IH. intros C. apply H. right. exact C.
Qed.

Lemma list_files_flat q s ms : NoDup (map fst ms) -> In (q, s) ms -> list_files q (flat_dir ms) = dir s.
Proof.
  induction ms as [|[p s'] ms IH]; intros ND I; [contradiction|].
  cbn in ND. inversion ND as [|? ? Hn ND']; subst.
  unfold list_files, flat_dir in *. cbn [map concat fst snd]. rewrite filter_app, map_app, filter_is_prog_map.
  destruct I as [E | I].
  - inversion E; subst. replace (bytes_eqb q q) with true by (symmetry; apply bytes_eqb_eq; reflexivity).
    rewrite map_map. cbn. rewrite map_id.
    fold (flat_dir ms). fold (list_files q (flat_dir ms)).
    rewrite (list_files_flat_absent q ms Hn). apply app_nil_r.
  - destruct (bytes_eqb p q) eqn:E.
    + apply bytes_eqb_eq in E. subst. exfalso. apply Hn. apply (in_map fst) in I. exact I.
    + cbn. apply IH; assumption.
Qed.

(** A GC run of logger [p] in a process with several loggers changes no other
    logger's files. *)
Theorem mgc_other_loggers_unchanged h p b q s ms :
  NoDup (map fst ms) -> In (q, s) ms -> q <> p -> In (q, s) (mstep h ms (MGc p b)).
Proof.
  intros ND I N. cbn [mstep]. apply in_map_iff. exists (q, s). split; [|exact I].
  cbn [fst snd]. rewrite list_files_gc_dir_other by congruence.
  rewrite (list_files_flat q s ms ND I). destruct s; reflexivity.
Qed.

(** GC does not look at the host, user and process id in the file names: files
    left by another process (or machine, or user) of the same program count and
    go like the logger's own. *)
Lemma map_filter_comp {A B} (f : A -> B) (g : B -> bool) l :
  map f (filter (fun x => g (f x)) l) = filter g (map f l).
Proof. induction l as [|x l IH]; [reflexivity|]. cbn. destruct (g (f x)); cbn; rewrite IH; reflexivity. Qed.

Theorem gc_ignores_host_user_pid p b l : map n_d (gc_names p b l) = gc_dir p b (map n_d l).
Proof.
  unfold gc_names, gc_dir.
  exact (map_filter_comp n_d (fun x => negb (is_prog p x) || stamp_in (gc b (list_files p (map n_d l))) (d_file x)) l).
Qed.
