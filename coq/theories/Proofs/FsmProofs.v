(** From a successful reflective check of a (translated) table against the
    modality's monitor to the statement of C01 for traces of every length. *)
From Shk Require Import Base.Prelude Base.Dfa Model.Fsm Model.Meaning Proofs.Monitors.
From Coq Require Import String.

(** The table as a deterministic machine over observations: states are
    (table state, already disappointed?) or [None] once the Go code has
    panicked; the end-of-word output is (disappointed, disappointed or
    satisfied-at-end). *)
Definition mstate := option (nat * bool).
Definition m_init (tbl : fsm_table) : mstate :=
  match state_name tbl (f_start tbl) with None => None | Some _ => Some (f_start tbl, false) end.
Definition m_delta (tbl : fsm_table) (s : mstate) (b : bool) : mstate :=
  match s with
  | None => None
  | Some (q, d) => match step_report tbl q (lbl b) with
                   | Some (q', v) => Some (q', d || is_bad v)
                   | None => None
                   end
  end.
Definition m_out (tbl : fsm_table) (s : mstate) : bool * bool :=
  match s with
  | None => (false, false)
  | Some (q, d) => match step_report tbl q "end" with
                   | Some (_, v) => (d || is_bad v, (d || is_bad v) || is_good v)
                   | None => (false, false)
                   end
  end.

Definition mon_out (m : modality) (q : nat) : bool * bool := (mon_viol m q, true).

Definition mstate_eqb (a b : mstate) : bool :=
  match a, b with
  | None, None => true
  | Some (q, d), Some (q', d') => Nat.eqb q q' && Bool.eqb d d'
  | _, _ => false
  end.
Definition out_eqb (a b : bool * bool) : bool := Bool.eqb (fst a) (fst b) && Bool.eqb (snd a) (snd b).

Lemma mstate_eqb_sound a b : mstate_eqb a b = true -> a = b.
Proof.
  destruct a as [[q d]|], b as [[q' d']|]; cbn; try discriminate; auto.
  intros H. apply andb_true_iff in H. destruct H as [Hq Hd].
  apply Nat.eqb_eq in Hq. apply Bool.eqb_prop in Hd. subst. reflexivity.
Qed.
Lemma nat_eqb_sound a b : Nat.eqb a b = true -> a = b.
Proof. apply Nat.eqb_eq. Qed.
Lemma out_eqb_sound a b : out_eqb a b = true -> a = b.
Proof.
  destruct a, b; unfold out_eqb; cbn. intros H. apply andb_true_iff in H. destruct H as [H1 H2].
  apply Bool.eqb_prop in H1. apply Bool.eqb_prop in H2. subst. reflexivity.
Qed.

Definition table_check (tbl : fsm_table) (m : modality) (fuel : nat) : bool :=
  equiv_check mstate nat (bool * bool) mstate_eqb Nat.eqb out_eqb
    (m_init tbl) (m_delta tbl) (m_out tbl)
    (mon_init m) (mon_delta m) (mon_out m) fuel.

Definition table_counterexample (tbl : fsm_table) (m : modality) (fuel : nat) : option (list bool) :=
  counterexample mstate nat (bool * bool) mstate_eqb Nat.eqb out_eqb
    (m_init tbl) (m_delta tbl) (m_out tbl)
    (mon_init m) (mon_delta m) (mon_out m) fuel.

Lemma run_from_nonempty tbl tr : forall q vs, run_from tbl q tr = Some vs -> vs <> [].
Proof.
  induction tr as [|c tr IH]; intros q vs; cbn [run_from].
  - destruct (step_report tbl q "end") as [[? ?]|]; [|discriminate].
    intros H; inversion H; discriminate.
  - destruct (step_report tbl q (lbl c)) as [[q' v]|]; [|discriminate].
    destruct (run_from tbl q' tr); cbn; [|discriminate]. intros H; inversion H; discriminate.
Qed.

Lemma last_cons_nonempty {A} (v : A) vs d : vs <> [] -> last (v :: vs) d = last vs d.
Proof. destruct vs; [congruence | reflexivity]. Qed.

Lemma fold_none tbl w : fold_left (m_delta tbl) w None = None.
Proof. induction w; cbn; auto. Qed.

(** The machine's output is what [run_from] reports. *)
Lemma m_out_run_from tbl tr : forall q d,
  m_out tbl (fold_left (m_delta tbl) tr (Some (q, d))) =
  match run_from tbl q tr with
  | Some vs => (d || disappointed vs, (d || disappointed vs) || ends_satisfied vs)
  | None => (false, false)
  end.
Proof.
  induction tr as [|b tr IH]; intros q d; cbn [fold_left run_from].
  - cbn [m_out]. destruct (step_report tbl q "end") as [[q' v]|]; [|reflexivity].
    unfold disappointed, ends_satisfied. cbn. rewrite orb_false_r. reflexivity.
  - cbn [m_delta]. destruct (step_report tbl q (lbl b)) as [[q' v]|].
    + rewrite IH. destruct (run_from tbl q' tr) as [vs|] eqn:Er; cbn [option_map]; [|reflexivity].
      unfold disappointed, ends_satisfied. cbn [existsb].
      rewrite (last_cons_nonempty v vs VInfo (run_from_nonempty _ _ _ _ Er)).
      rewrite <- orb_assoc. reflexivity.
    + rewrite fold_none. reflexivity.
Qed.

Lemma m_out_run_period tbl tr :
  m_out tbl (fold_left (m_delta tbl) tr (m_init tbl)) =
  match run_period tbl tr with
  | Some vs => (disappointed vs, disappointed vs || ends_satisfied vs)
  | None => (false, false)
  end.
Proof.
  unfold m_init, run_period. destruct (state_name tbl (f_start tbl)).
  - rewrite m_out_run_from. destruct (run_from _ _ _); reflexivity.
  - rewrite fold_none. reflexivity.
Qed.

(** One table, checked against its modality's monitor: the statement of C01. *)
Theorem table_check_correct tbl m fuel :
  table_check tbl m fuel = true ->
  forall tr, exists vs,
    run_period tbl tr = Some vs /\
    disappointed vs = negb (meaning m tr) /\
    (disappointed vs = false -> ends_satisfied vs = true).
Proof.
  intros Hc tr.
  pose proof (equiv_check_sound mstate nat (bool * bool) mstate_eqb Nat.eqb out_eqb
                mstate_eqb_sound nat_eqb_sound out_eqb_sound
                (m_init tbl) (m_delta tbl) (m_out tbl)
                (mon_init m) (mon_delta m) (mon_out m) fuel Hc tr) as H.
  unfold runA, runB in H. rewrite m_out_run_period in H.
  unfold mon_out in H. fold (mon_run m tr) in H. rewrite monitor_meaning in H.
  destruct (run_period tbl tr) as [vs|]; [|discriminate].
  exists vs. injection H as H1 H2. split; [reflexivity|]. split; [exact H1|].
  intros Hd. rewrite Hd in H2. exact H2.
Qed.

(** The whole registry: every one of the ten modality names is registered with
    a table that passes, and nothing else is registered. *)
Definition name_known (n : string) : bool :=
  existsb (fun m => String.eqb (name_of m) n) all_modalities.

Definition check_registered (reg : list fsm_table) (fuel : nat) : bool :=
  forallb (fun m => match lookup reg (name_of m) with
                    | Some tbl => table_check tbl m fuel
                    | None => false
                    end) all_modalities
  && forallb (fun t => name_known (f_name t)) reg.

Lemma lookup_last_some n reg : forall found t,
  lookup_last n reg found = Some t -> found = Some t \/ (In t reg /\ f_name t = n).
Proof.
  induction reg as [|x reg IH]; intros found t; cbn [lookup_last]; [auto|].
  intros H. apply IH in H. destruct H as [H|[H1 H2]]; [|right; split; [right|]; assumption].
  destruct (String.eqb (f_name x) n) eqn:E; [|left; exact H].
  inversion H; subst. right. split; [left; reflexivity | apply String.eqb_eq; exact E].
Qed.

Theorem registry_correct reg fuel :
  check_registered reg fuel = true ->
  (forall m, exists tbl, lookup reg (name_of m) = Some tbl /\
     forall tr, exists vs,
       run_period tbl tr = Some vs /\
       disappointed vs = negb (meaning m tr) /\
       (disappointed vs = false -> ends_satisfied vs = true))
  /\ (forall n tbl, lookup reg n = Some tbl -> exists m, n = name_of m).
Proof.
  unfold check_registered. intros H. apply andb_true_iff in H. destruct H as [H1 H2].
  rewrite forallb_forall in H1, H2. split.
  - intros m. assert (Hin : In m all_modalities) by (destruct m; cbn; tauto).
    specialize (H1 m Hin). destruct (lookup reg (name_of m)) as [tbl|]; [|discriminate].
    exists tbl. split; [reflexivity|]. apply (table_check_correct tbl m fuel H1).
  - intros n tbl Hl. unfold lookup in Hl. apply lookup_last_some in Hl.
    destruct Hl as [Hl|[Hin Hn]]; [discriminate|].
    specialize (H2 tbl Hin). unfold name_known in H2. rewrite existsb_exists in H2.
    destruct H2 as (m & _ & Hm). apply String.eqb_eq in Hm. exists m. congruence.
Qed.
