(** Liveness of Stop in the drained situation: once every task goroutine has
    finished (refused, or runPostlude done) and every worker has called
    stop.Done(), each remaining step of the goroutine that called Stop is
    enabled -- the mutex is free or its own, the condition variable does not
    hold it back, the WaitGroup is at zero -- and its own steps lead to
    "stopped" and to its return.  (Partial: termination under general fair
    scheduling, with task goroutines still on their way, is not proved; what
    is proved for those is that none of their steps can be blocked for ever by
    the Stopper: [quiesce_waiter_has_task], [release_never_blocks].) *)
From Shk Require Import Base.Prelude Model.Stopper Proofs.StopperProofs.
Open Scope nat_scope.

Definition task_settled (t : task) : bool :=
  match pc t with TDone | TRefused => true | _ => false end.
Definition worker_gone (w : worker) : bool :=
  match wp w with WDone => true | _ => false end.

(** every task goroutine and every worker has finished *)
Definition drained (s : st) : Prop :=
  Forall (fun t => task_settled t = true) (tasks s) /\
  Forall (fun w => worker_gone w = true) (workers s).

Lemma count_all_false {A} (f : A -> bool) l : Forall (fun x => f x = false) l -> count f l = 0.
Proof.
  induction 1 as [|x l Hx _ IH]; [reflexivity|]. rewrite count_cons, Hx, IH. reflexivity.
Qed.

Lemma drained_counts caps s : Inv caps s -> drained s -> num_tasks s = 0%Z /\ wg s = 0%Z.
Proof.
  intros I (Ht & Hw). split.
  - rewrite (i_num _ _ _ I), count_all_false; [reflexivity|].
    eapply Forall_impl'; [exact Ht|]. intros t. unfold task_settled, in_flight. destruct (pc t); congruence.
  - rewrite (i_wg _ _ _ I), count_all_false; [reflexivity|].
    eapply Forall_impl'; [exact Hw|]. intros w. unfold worker_gone, worker_live. destruct (wp w); congruence.
Qed.

(** What "Stop call j has run to its end" means. *)
Definition stop_done (s : st) (j : nat) : Prop :=
  stopped_ch s = true /\ nth_error (sthreads s) j = Some {| s_is_stop := true; sp := SReturned |}.

Definition finishes (s : st) (j : nat) : Prop :=
  exists ls s', steps s ls = Some s' /\ stop_done s' j.

Lemma finishes_step s l s1 j : step s l = Next s1 -> finishes s1 j -> finishes s j.
Proof. intros E (ls & s' & H & D). exists (l :: ls), s'. cbn. rewrite E. auto. Qed.

Section Live.
Variable caps : list nat.

Ltac thread_facts R Ej Ep :=
  let I := fresh "I" in
  pose proof (reachable_inv caps _ R) as I;
  let F := fresh "F" in
  pose proof (stop_thread_facts caps _ _ _ _ I Ej) as F; rewrite Ep in F; specialize (F Logic.I);
  destruct F as (Hst & Ha & Hle & Hsc & P).

Lemma live_stopped s j th :
  reachable caps s -> nth_error (sthreads s) j = Some th -> sp th = SStopped -> finishes s j.
Proof.
  intros R Ej Ep. thread_facts R Ej Ep. destruct P as (_ & Pd & _).
  destruct (i_ghost _ _ _ I) as (_ & _ & GC & _). rewrite Pd in GC. cbn in GC.
  exists [LStoppedClose j]. eexists. split.
  - cbn. unfold step; cbn [step0]; unfold with_thread. rewrite Ej, Ep, GC. reflexivity.
  - split; [reflexivity|]. cbn. apply (nth_upd_same _ _ _ _ Ej).
Qed.

Lemma live_closers s j th :
  reachable caps s -> nth_error (sthreads s) j = Some th -> sp th = SClosers -> finishes s j.
Proof.
  intros R Ej Ep. thread_facts R Ej Ep. destruct P as (_ & _ & Pmu).
  assert (E : exists s1, step s (LClosersRun j) = Next s1 /\
                         nth_error (sthreads s1) j = Some {| s_is_stop := true; sp := SStopped |}).
  { eexists. split.
    - unfold step; cbn [step0]; unfold with_thread. rewrite Ej, Ep, Pmu. reflexivity.
    - cbn. apply (nth_upd_same _ _ _ _ Ej). }
  destruct E as (s1 & E1 & E2). eapply finishes_step; [exact E1|].
  eapply live_stopped; [eapply reach_step; eauto | exact E2 | reflexivity].
Qed.

Lemma live_wgwait s j th :
  reachable caps s -> drained s -> nth_error (sthreads s) j = Some th -> sp th = SWgWait -> finishes s j.
Proof.
  intros R D Ej Ep. thread_facts R Ej Ep.
  destruct (drained_counts caps s I D) as (_ & Hwg).
  assert (E : exists s1, step s (LWgWaitDone j) = Next s1 /\
                         nth_error (sthreads s1) j = Some {| s_is_stop := true; sp := SClosers |}).
  { eexists. split.
    - unfold step; cbn [step0]; unfold with_thread. rewrite Ej, Ep, Hwg. reflexivity.
    - cbn. apply (nth_upd_same _ _ _ _ Ej). }
  destruct E as (s1 & E1 & E2). eapply finishes_step; [exact E1|].
  eapply live_closers; [eapply reach_step; eauto | exact E2 | reflexivity].
Qed.

Lemma live_stopclose s j th :
  reachable caps s -> drained s -> nth_error (sthreads s) j = Some th -> sp th = SStopClose -> finishes s j.
Proof.
  intros R D Ej Ep. thread_facts R Ej Ep. destruct P as (_ & Ps & Pmu).
  destruct (i_ghost _ _ _ I) as (_ & GB & _). rewrite Ps in GB. cbn in GB.
  assert (E : exists s1, step s (LStopClose j) = Next s1 /\ drained s1 /\
                         nth_error (sthreads s1) j = Some {| s_is_stop := true; sp := SWgWait |}).
  { eexists. split; [|split].
    - unfold step; cbn [step0]; unfold with_thread. rewrite Ej, Ep, Pmu, GB. reflexivity.
    - exact D.
    - cbn. apply (nth_upd_same _ _ _ _ Ej). }
  destruct E as (s1 & E1 & D1 & E2). eapply finishes_step; [exact E1|].
  eapply live_wgwait; [eapply reach_step; eauto | exact D1 | exact E2 | reflexivity].
Qed.

(** Quiesce's test finds numTasks = 0: the Stop caller goes on. *)
Lemma quiesce_test_drained s0 j :
  num_tasks s0 = 0%Z ->
  quiesce_test s0 j true = put_thread (set_gh s0 (g_set_drained (gh s0) (clock s0))) j true SStopClose.
Proof. intros H. unfold quiesce_test, quiesce_finish. rewrite H. reflexivity. Qed.

Lemma live_quiesce s j th :
  reachable caps s -> drained s -> nth_error (sthreads s) j = Some th -> s_is_stop th = true ->
  sp th = SQuiesce \/ sp th = SQWoken \/ sp th = SQWait -> finishes s j.
Proof.
  intros R D Ej Hst Hp. pose proof (reachable_inv caps _ R) as I.
  destruct (drained_counts caps s I D) as (Hn & _).
  assert (Ha : active th = true) by (unfold active; rewrite Hst; destruct Hp as [->|[->| ->]]; reflexivity).
  pose proof (i_phase _ _ _ I j th Ej Ha) as P.
  assert (Pmu : mu_held s = false) by (destruct Hp as [E|[E|E]]; rewrite E in P; apply P).
  destruct Hp as [Ep|[Ep|Ep]].
  - assert (E : exists s1, step s (LQuiesceSet j) = Next s1 /\ drained s1 /\
                           nth_error (sthreads s1) j = Some {| s_is_stop := true; sp := SStopClose |}).
    { eexists. split; [|split].
      - unfold step; cbn [step0]; unfold with_thread. rewrite Ej, Ep, Pmu, Hst.
        rewrite quiesce_test_drained by exact Hn. reflexivity.
      - exact D.
      - cbn. apply (nth_upd_same _ _ _ _ Ej). }
    destruct E as (s1 & E1 & D1 & E2). eapply finishes_step; [exact E1|].
    eapply live_stopclose; [eapply reach_step; eauto | exact D1 | exact E2 | reflexivity].
  - assert (E : exists s1, step s (LQRecheck j) = Next s1 /\ drained s1 /\
                           nth_error (sthreads s1) j = Some {| s_is_stop := true; sp := SStopClose |}).
    { eexists. split; [|split].
      - unfold step; cbn [step0]; unfold with_thread. rewrite Ej, Ep, Pmu, Hst.
        rewrite quiesce_test_drained by exact Hn. reflexivity.
      - exact D.
      - cbn. apply (nth_upd_same _ _ _ _ Ej). }
    destruct E as (s1 & E1 & D1 & E2). eapply finishes_step; [exact E1|].
    eapply live_stopclose; [eapply reach_step; eauto | exact D1 | exact E2 | reflexivity].
  - (* asleep in Cond.Wait with no task left: impossible (no lost wake-up) *)
    destruct (i_wait _ _ _ I j th Ej) as (W & _). specialize (W Ep). lia.
Qed.

(** The Stop call that does the work runs to "stopped" and returns. *)
Theorem stop_returns s j th :
  reachable caps s -> drained s -> nth_error (sthreads s) j = Some th -> s_is_stop th = true ->
  (sp th = SEnter -> stop_called s = false /\ mu_held s = false) ->
  sp th <> SReturned ->
  finishes s j.
Proof.
  intros R D Ej Hst Hent Hnr. destruct (sp th) eqn:Ep; try congruence.
  - destruct (Hent eq_refl) as (Hsc & Hmu).
    assert (E : exists s1, step s (LStopEnter j) = Next s1 /\ drained s1 /\
                           nth_error (sthreads s1) j = Some {| s_is_stop := true; sp := SQuiesce |}).
    { eexists. split; [|split].
      - unfold step; cbn [step0]; unfold with_thread. rewrite Ej, Ep, Hmu, Hsc. reflexivity.
      - exact D.
      - cbn. apply (nth_upd_same _ _ _ _ Ej). }
    destruct E as (s1 & E1 & D1 & E2). eapply finishes_step; [exact E1|].
    eapply live_quiesce; [eapply reach_step; eauto | exact D1 | exact E2 | reflexivity | left; reflexivity].
  - eapply live_quiesce; eauto.
  - eapply live_quiesce; eauto.
  - eapply live_quiesce; eauto.
  - eapply live_stopclose; eauto.
  - eapply live_wgwait; eauto.
  - eapply live_closers; eauto.
  - eapply live_stopped; eauto.
Qed.

(** A later Stop caller returns at once (when the mutex is free). *)
Theorem later_stop_returns s j th :
  reachable caps s -> nth_error (sthreads s) j = Some th -> sp th = SEnter ->
  stop_called s = true -> mu_held s = false ->
  exists s', step s (LStopEnter j) = Next s' /\
             nth_error (sthreads s') j = Some {| s_is_stop := true; sp := SReturned |}.
Proof.
  intros R Ej Ep Hsc Hmu. eexists. split.
  - unfold step; cbn [step0]; unfold with_thread. rewrite Ej, Ep, Hmu, Hsc. reflexivity.
  - cbn. apply (nth_upd_same _ _ _ _ Ej).
Qed.

End Live.
