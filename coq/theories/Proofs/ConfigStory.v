(** The storyline of a reachable state is printable, from the C06 theorems (C10). *)
From Coq Require Import String Permutation.
From Shk Require Import Base.Prelude Model.Storyline Model.Config Model.Denote.
From Shk Require Import Proofs.StorylineProofs Proofs.StoryScriptProofs.
From Shk Require Import Proofs.ConfigText Proofs.ConfigRoles Proofs.ConfigCast Proofs.ConfigExpr Proofs.ConfigHyps Proofs.ConfigInvariant Proofs.ConfigInvRoles Proofs.ConfigInvScenes.
Open Scope Z_scope.

(** * The storyline of a reachable state is printable (with C06's theorems,
    under C06's domain assumption: no white space but ' ' in storyline texts
    and edit results) *)

Section Story.
Variable orc : oracles.

Definition story_wf (s : cstate) : Prop := wf_story (scene_defined s) (c_story s) = true.

Definition clause_nc (s : cstate) (c : clause) : Prop :=
  match c with
  | CStoryline t => no_ctl t
  | CEdit p r => no_ctl (o_re_replace orc p r (join_sp (c_story s)))
  | _ => True
  end.

Fixpoint clauses_nc (cl : list clause) (s : cstate) : Prop :=
  match cl with
  | [] => True
  | c :: tl => clause_nc s c /\ match apply orc s c with Ok s' => clauses_nc tl s' | _ => True end
  end.

Lemma story_wf_printable s : story_wf s -> story_printable s = true.
Proof.
  intros H. unfold story_printable, do_storyline. rewrite join_print.
  rewrite (print_reread (scene_defined s) (c_story s) H). cbn [obind combine_storylines outcome_is].
  apply (list_eqb_eq bytes_eqb bytes_eqb_eq). reflexivity.
Qed.

Lemma update_repeat_story s :
  c_story (update_repeat orc s) = c_story s /\ c_scenes (update_repeat orc s) = c_scenes s.
Proof.
  unfold update_repeat. destruct (c_from s); [|auto]. destruct (first_match _ _ _); destruct s; auto.
Qed.

Lemma scene_defined_upd s c f x :
  (forall sc, s_char (f sc) = s_char sc) ->
  scene_defined s x = true -> scene_defined (set_scenes s (upd_scene c f (c_scenes s))) x = true.
Proof.
  intros Hf. unfold scene_defined. destruct s as [pv ti au se ro ac sc te st fr an to co aud]. cbn [c_scenes set_scenes].
  induction sc as [|y sc IH]; cbn; [discriminate|].
  destruct (Byte.eqb c (s_char y)) eqn:E; cbn.
  - rewrite Hf. auto.
  - destruct (Byte.eqb x (s_char y)); cbn; auto.
Qed.

Ltac inv_all H :=
  repeat (match type of H with
          | obind (of_opt ?x _) _ = Ok _ => let E := fresh "E" in destruct x eqn:E; cbn [of_opt obind] in H; try discriminate H
          | obind ?o _ = Ok _ => let E := fresh "E" in destruct o eqn:E; cbn [obind] in H; try discriminate H
          | check ?b _ _ = Ok _ => let E := fresh "E" in unfold check at 1 in H; destruct b eqn:E; try discriminate H
          | (if ?b then _ else _) = Ok _ => let E := fresh "E" in destruct b eqn:E; try discriminate H
          | of_opt ?o _ = Ok _ => let E := fresh "E" in destruct o eqn:E; cbn [of_opt] in H; try discriminate H
          | match ?x with _ => _ end = Ok _ => let E := fresh "E" in destruct x eqn:E; try discriminate H
          | (let '(_, _) := ?x in _) = Ok _ => let E := fresh "E" in destruct x eqn:E
          end).

Lemma apply_keeps_story s c s' :
  apply orc s c = Ok s' ->
  match c with CStoryline _ | CEdit _ _ | CEntails _ _ _ | CMoodStart _ _ | CMoodEnd _ _ => False | _ => True end ->
  c_story s' = c_story s /\ c_scenes s' = c_scenes s.
Proof.
  intros H Hk. destruct c; try contradiction; cbn [apply] in H;
    unfold apply_role, apply_cast, apply_assign in H; cbn zeta in H.
  all: try (inv_all H; inversion H; subst; try (destruct (update_repeat_story (set_from s (Some re))) as [U1 U2]; rewrite U1, U2);
            destruct s; split; reflexivity).
  (* watches *)
  unfold check in H. destruct (ident_ok m); [|discriminate]. destruct (ident_ok sig); [|discriminate].
  destruct (select_actors s tg) as [[r found]| | |]; try discriminate. cbn [obind] in H.
  destruct found as [|a0 found]; [inversion H; subst; auto|].
  match type of H with obind ?o _ = _ => destruct o as [m1| | |]; try discriminate end.
  cbn [obind] in H. inversion H; subst. destruct s; split; reflexivity.
Qed.

Lemma story_wf_same s s' : c_story s' = c_story s -> c_scenes s' = c_scenes s -> story_wf s -> story_wf s'.
Proof. unfold story_wf, scene_defined. intros -> ->. auto. Qed.

Lemma story_wf_upd s c f :
  (forall sc, s_char (f sc) = s_char sc) -> story_wf s -> story_wf (set_scenes s (upd_scene c f (c_scenes s))).
Proof.
  intros Hf H. unfold story_wf in *.
  replace (c_story (set_scenes s (upd_scene c f (c_scenes s)))) with (c_story s) by (destruct s; reflexivity).
  eapply wf_story_mono; [|exact H]. intros x. apply scene_defined_upd. exact Hf.
Qed.

Lemma apply_story_wf s c s' :
  story_wf s -> clause_nc s c -> apply orc s c = Ok s' -> story_wf s'.
Proof.
  intros Hs Hnc H.
  destruct c; try (destruct (apply_keeps_story s _ s' H I) as [E1 E2]; exact (story_wf_same s s' E1 E2 Hs)).
  - (* entails *)
    cbn [apply] in H. unfold apply_entails in H.
    destruct (shorthand ch) as [c| | |]; try discriminate. cbn [obind] in H.
    destruct (select_actors s tg) as [[r found]| | |]; try discriminate. cbn [obind] in H.
    destruct found as [|a0 found]; [inversion H; subst; exact Hs|].
    unfold check in H. destruct (forallb _ actions); [|discriminate]. inversion H; subst.
    apply story_wf_upd; [reflexivity|exact Hs].
  - (* mood starts *)
    cbn [apply] in H. unfold apply_mood, check in H. destruct (ident_ok mood); [|discriminate].
    destruct (shorthand ch) as [c| | |]; try discriminate. cbn [obind] in H. inversion H; subst.
    apply story_wf_upd; [reflexivity|exact Hs].
  - cbn [apply] in H. unfold apply_mood, check in H. destruct (ident_ok mood); [|discriminate].
    destruct (shorthand ch) as [c| | |]; try discriminate. cbn [obind] in H. inversion H; subst.
    apply story_wf_upd; [reflexivity|exact Hs].
  - (* storyline *)
    cbn [apply] in H. cbn [clause_nc] in Hnc.
    destruct (do_storyline_spec (scene_defined s) (c_story s) t Hnc Hs) as [Hok Herr].
    destruct (wf_story (scene_defined s) (acts_of t)) eqn:Ew.
    + destruct (Hok eq_refl) as (new & En & Hw & _). rewrite En in H. cbn [obind] in H. inversion H; subst.
      destruct (update_repeat_story (set_story s new)) as [U1 U2].
      unfold story_wf, scene_defined. rewrite U1, U2. destruct s; exact Hw.
    + specialize (Herr eq_refl). destruct (do_storyline (scene_defined s) (c_story s) t); try contradiction; discriminate.
  - (* edit *)
    cbn [apply] in H. cbn [clause_nc] in Hnc. unfold check in H. destruct (o_re_ok orc pat); [|discriminate].
    rewrite join_print in Hnc.
    destruct (do_edit_spec (scene_defined s) (c_story s) (o_re_replace orc pat repl) Hnc) as [Hok Herr].
    destruct (wf_story (scene_defined s) (acts_of (o_re_replace orc pat repl (print_story (c_story s))))) eqn:Ew.
    + rewrite (Hok eq_refl) in H. cbn [obind] in H. inversion H; subst.
      destruct (update_repeat_story (set_story s (acts_of (o_re_replace orc pat repl (print_story (c_story s)))))) as [U1 U2].
      unfold story_wf, scene_defined. rewrite U1, U2. destruct s; exact Ew.
    + specialize (Herr eq_refl). destruct (do_edit (scene_defined s) (c_story s) (o_re_replace orc pat repl)); try contradiction; discriminate.
Qed.

Lemma run_story_wf cl : forall s s',
  story_wf s -> clauses_nc cl s -> run orc cl s = Ok s' -> story_wf s'.
Proof.
  induction cl as [|c cl IH]; intros s s' Hs Hnc H; cbn [run] in H.
  - inversion H; subst. exact Hs.
  - cbn [clauses_nc] in Hnc. destruct Hnc as [Hc Hrest].
    destruct (apply orc s c) as [s1| | |] eqn:E; try discriminate. cbn [obind] in H.
    apply (IH s1 s'); [eapply apply_story_wf; eauto|exact Hrest|exact H].
Qed.

Lemma story_wf_init defs : story_wf (init_state defs).
Proof. reflexivity. Qed.

End Story.
