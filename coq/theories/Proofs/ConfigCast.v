(** Replay of the printed cast and scene clauses (C10). *)
From Coq Require Import String Permutation.
From Shk Require Import Base.Prelude Model.Storyline Model.Config.
From Shk Require Import Proofs.ConfigText Proofs.ConfigRoles.
Open Scope Z_scope.

Section Phases2.
Variable orc : oracles.
Hypothesis Horc : oracle_ok orc.

(** * Phase: cast *)
Definition actor_ok (ro : list role) (a : actor) : bool :=
  ident_ok (a_name a) && ident_ok (a_role a) && inert (a_role a) && inert (a_env a)
  && mem_bytes (a_role a) (map r_name ro).

Lemma find_role_name n ro : mem_bytes n (map r_name ro) = true ->
  exists r, find_role n ro = Some r /\ r_name r = n.
Proof.
  intros H. rewrite find_role_eq. destruct (findk r_name n ro) as [r|] eqn:E.
  - exists r. split; [reflexivity|]. apply (findk_some_key r_name) in E. tauto.
  - apply (findk_none r_name) in E. congruence.
Qed.

Lemma apply_print_actor a : forall ti au se ro ac sc te st fr an to co aud,
  actor_ok ro a = true ->
  mem_bytes (a_name a) (map a_name ac) = false ->
  apply orc (mkState [] ti au se ro ac sc te st fr an to co aud) (print_actor a)
  = Ok (mkState [] ti au se ro (ac ++ [a]) sc te st fr an to co aud).
Proof.
  intros ti au se ro ac sc te st fr an to co aud H Hn. unfold actor_ok in H.
  apply andb_prop in H as [H Hro]. apply andb_prop in H as [H Henv]. apply andb_prop in H as [H Hin].
  apply andb_prop in H as [Hid Hrid].
  destruct (find_role_name _ _ Hro) as (r & Hf & Hrn).
  unfold print_actor. cbn [apply]. unfold apply_cast. cbn [c_pvars c_roles c_actors].
  rewrite (inert_preproc _ Hin). cbn [obind]. unfold check. rewrite Hrid, Hid. cbn [obind].
  rewrite Hf. cbn [obind]. rewrite (inert_preproc _ Henv). cbn [obind is_nil negb].
  unfold add_actor, check. cbn [a_name]. rewrite (existsb_key a_name), Hn. cbn [negb obind].
  unfold set_actors. cbn. rewrite Hrn. destruct a; reflexivity.
Qed.

Lemma run_actors acs : forall ti au se ro ac sc te st fr an to co aud,
  forallb (actor_ok ro) acs = true ->
  nodup_b (map a_name (ac ++ acs)) = true ->
  run orc (map print_actor acs) (mkState [] ti au se ro ac sc te st fr an to co aud)
  = Ok (mkState [] ti au se ro (ac ++ acs) sc te st fr an to co aud).
Proof.
  induction acs as [|a acs IH]; intros; cbn [map run].
  - rewrite app_nil_r. reflexivity.
  - cbn in H. apply andb_prop in H as [Ha Has].
    rewrite apply_print_actor; [|assumption|].
    2:{ rewrite map_app in H0. cbn in H0. apply (nodup_b_mid _ _ _ H0). }
    cbn [obind]. rewrite IH; [rewrite <- app_assoc; reflexivity|assumption|].
    rewrite <- app_assoc. exact H0.
Qed.

(** * Phase: script *)

(** ** scenes *)
Definition chars_of (l : list scenespec) : list bytes := map (fun sc => [s_char sc]) l.

Lemma byte_eqb_refl c : Byte.eqb c c = true.
Proof. apply byte_eqb_eq. reflexivity. Qed.

Lemma mem_char_false c l :
  mem_bytes [c] (chars_of l) = false -> forallb (fun sc => negb (Byte.eqb c (s_char sc))) l = true.
Proof.
  induction l as [|sc l IH]; cbn; [reflexivity|].
  intros H. apply orb_false_elim in H as [H1 H2]. rewrite (IH H2), andb_true_r.
  rewrite andb_true_r in H1. rewrite H1. reflexivity.
Qed.

Lemma upd_scene_absent c f l :
  mem_bytes [c] (chars_of l) = false -> upd_scene c f l = l ++ [f (mkScene c [] [] [])].
Proof.
  induction l as [|sc l IH]; cbn; [reflexivity|].
  intros H. apply orb_false_elim in H as [H1 H2]. rewrite andb_true_r in H1. rewrite H1, (IH H2). reflexivity.
Qed.

Lemma upd_scene_last c f l sc :
  mem_bytes [c] (chars_of l) = false -> s_char sc = c -> upd_scene c f (l ++ [sc]) = l ++ [f sc].
Proof.
  induction l as [|x l IH]; cbn.
  - intros _ <-. rewrite byte_eqb_refl. reflexivity.
  - intros H E. apply orb_false_elim in H as [H1 H2]. rewrite andb_true_r in H1. rewrite H1, (IH H2 E). reflexivity.
Qed.

(** it makes no difference to an update whether the (absent) scene was
    already there, empty *)
Lemma upd_scene_pad c f l :
  mem_bytes [c] (chars_of l) = false -> upd_scene c f l = upd_scene c f (l ++ [mkScene c [] [] []]).
Proof.
  intros H. rewrite upd_scene_absent by exact H. rewrite upd_scene_last by auto. reflexivity.
Qed.

Definition alnum (c : byte) : bool := is_alpha c || is_digit c.

Lemma shorthand_ok c : alnum c = true -> shorthand [c] = Ok c.
Proof. unfold shorthand, alnum. intros ->. reflexivity. Qed.

(** one entail line, the scene being the last one *)
Lemma apply_entail_last c e : forall ti au se ro ac pre en ms me te st fr an to co aud a r,
  alnum c = true ->
  mem_bytes [c] (chars_of pre) = false ->
  ident_ok (e_actor e) = true ->
  find_actor (e_actor e) ac = Some a ->
  find_role (a_role a) ro = Some r ->
  forallb (fun x => has_action (strip_qm x) r) (e_actions e) = true ->
  apply orc (mkState [] ti au se ro ac (pre ++ [mkScene c en ms me]) te st fr an to co aud)
        (CEntails [c] (TActor (e_actor e)) (e_actions e))
  = Ok (mkState [] ti au se ro ac (pre ++ [mkScene c (en ++ [e]) ms me]) te st fr an to co aud).
Proof.
  intros ti au se ro ac pre en ms me te st fr an to co aud a r Hc Hpre Hid Hfa Hfr Hacts.
  cbn [apply]. unfold apply_entails. rewrite (shorthand_ok _ Hc). cbn [obind].
  unfold select_actors, check. rewrite Hid. cbn [c_actors c_roles]. rewrite Hfa. cbn [obind of_opt]. rewrite Hfr.
  cbn [obind]. rewrite Hacts. cbn [c_scenes].
  rewrite upd_scene_last by auto. unfold set_scenes. cbn.
  apply find_some in Hfa. destruct Hfa as [_ Hfa]. apply bytes_eqb_eq in Hfa. rewrite <- Hfa.
  destruct e; reflexivity.
Qed.

Definition entail_ok (ro : list role) (ac : list actor) (e : entail) : bool :=
  ident_ok (e_actor e)
  && match find_actor (e_actor e) ac with
     | None => false
     | Some a =>
         match find_role (a_role a) ro with
         | None => false
         | Some r => forallb (fun x => has_action (strip_qm x) r) (e_actions e)
         end
     end.

Lemma run_entails c es : forall ti au se ro ac pre en ms me te st fr an to co aud,
  alnum c = true ->
  mem_bytes [c] (chars_of pre) = false ->
  forallb (entail_ok ro ac) es = true ->
  run orc (map (fun e => CEntails [c] (TActor (e_actor e)) (e_actions e)) es)
      (mkState [] ti au se ro ac (pre ++ [mkScene c en ms me]) te st fr an to co aud)
  = Ok (mkState [] ti au se ro ac (pre ++ [mkScene c (en ++ es) ms me]) te st fr an to co aud).
Proof.
  induction es as [|e es IH]; intros; cbn [map run].
  - rewrite app_nil_r. reflexivity.
  - cbn in H1. apply andb_prop in H1 as [He Hes]. unfold entail_ok in He.
    apply andb_prop in He as [Hid He].
    destruct (find_actor (e_actor e) ac) as [a|] eqn:Ea; [|discriminate].
    destruct (find_role (a_role a) ro) as [r|] eqn:Er; [|discriminate].
    rewrite (apply_entail_last c e _ _ _ _ _ _ _ _ _ _ _ _ _ _ _ _ a r) by assumption.
    cbn [obind]. rewrite IH by assumption. rewrite <- app_assoc. reflexivity.
Qed.

Lemma apply_mood_last c mood (starts : bool) : forall ti au se ro ac pre en ms me te st fr an to co aud,
  alnum c = true ->
  mem_bytes [c] (chars_of pre) = false ->
  ident_ok mood = true ->
  apply orc (mkState [] ti au se ro ac (pre ++ [mkScene c en ms me]) te st fr an to co aud)
        (if starts then CMoodStart [c] mood else CMoodEnd [c] mood)
  = Ok (mkState [] ti au se ro ac (pre ++ (if starts then mkScene c en mood me else mkScene c en ms mood) :: nil) te st fr an to co aud).
Proof.
  intros. destruct starts; cbn [apply]; unfold apply_mood, check; rewrite H1; cbn [obind];
    rewrite (shorthand_ok _ H); cbn [obind c_scenes]; rewrite upd_scene_last by auto; reflexivity.
Qed.

Definition scene_ok (ro : list role) (ac : list actor) (sc : scenespec) : bool :=
  alnum (s_char sc) && forallb (entail_ok ro ac) (s_entails sc)
  && (is_nil (s_mstart sc) || ident_ok (s_mstart sc))
  && (is_nil (s_mend sc) || ident_ok (s_mend sc))
  && (negb (is_nil (s_entails sc)) || negb (is_nil (s_mstart sc)) || negb (is_nil (s_mend sc))).

(** the first clause of a scene creates it *)
Lemma apply_entail_first c e : forall ti au se ro ac pre te st fr an to co aud a r,
  alnum c = true ->
  mem_bytes [c] (chars_of pre) = false ->
  ident_ok (e_actor e) = true ->
  find_actor (e_actor e) ac = Some a ->
  find_role (a_role a) ro = Some r ->
  forallb (fun x => has_action (strip_qm x) r) (e_actions e) = true ->
  apply orc (mkState [] ti au se ro ac pre te st fr an to co aud)
        (CEntails [c] (TActor (e_actor e)) (e_actions e))
  = Ok (mkState [] ti au se ro ac (pre ++ [mkScene c [e] [] []]) te st fr an to co aud).
Proof.
  intros ti au se ro ac pre te st fr an to co aud a r Hc Hpre Hid Hfa Hfr Hacts.
  cbn [apply]. unfold apply_entails. rewrite (shorthand_ok _ Hc). cbn [obind].
  unfold select_actors, check. rewrite Hid. cbn [c_actors c_roles]. rewrite Hfa. cbn [obind of_opt]. rewrite Hfr.
  cbn [obind]. rewrite Hacts. cbn [c_scenes].
  rewrite upd_scene_absent by auto. unfold set_scenes. cbn.
  apply find_some in Hfa. destruct Hfa as [_ Hfa]. apply bytes_eqb_eq in Hfa. rewrite <- Hfa.
  destruct e; reflexivity.
Qed.

Lemma apply_mood_first c mood (starts : bool) : forall ti au se ro ac pre te st fr an to co aud,
  alnum c = true ->
  mem_bytes [c] (chars_of pre) = false ->
  ident_ok mood = true ->
  apply orc (mkState [] ti au se ro ac pre te st fr an to co aud)
        (if starts then CMoodStart [c] mood else CMoodEnd [c] mood)
  = Ok (mkState [] ti au se ro ac (pre ++ (if starts then mkScene c [] mood [] else mkScene c [] [] mood) :: nil) te st fr an to co aud).
Proof.
  intros. destruct starts; cbn [apply]; unfold apply_mood, check; rewrite H1; cbn [obind];
    rewrite (shorthand_ok _ H); cbn [obind c_scenes]; rewrite upd_scene_absent by auto; reflexivity.
Qed.

Lemma run_moods_last c ms me : forall ti au se ro ac pre en te st fr an to co aud,
  alnum c = true ->
  mem_bytes [c] (chars_of pre) = false ->
  is_nil ms || ident_ok ms = true ->
  is_nil me || ident_ok me = true ->
  run orc ((if is_nil ms then [] else [CMoodStart [c] ms]) ++ (if is_nil me then [] else [CMoodEnd [c] me]))
      (mkState [] ti au se ro ac (pre ++ [mkScene c en [] []]) te st fr an to co aud)
  = Ok (mkState [] ti au se ro ac (pre ++ [mkScene c en ms me]) te st fr an to co aud).
Proof.
  intros ti au se ro ac pre en te st fr an to co aud Hc Hpre Hms Hme.
  destruct ms as [|m0 ms].
  - cbn [is_nil app].
    destruct me as [|m1 me]; cbn [is_nil run]; [reflexivity|].
    cbn [orb is_nil] in Hme.
    rewrite (apply_mood_last c (m1 :: me) false) by assumption. reflexivity.
  - cbn [is_nil app run]. cbn [orb is_nil] in Hms.
    rewrite (apply_mood_last c (m0 :: ms) true) by assumption. cbn [obind].
    destruct me as [|m1 me]; cbn [is_nil run]; [reflexivity|].
    cbn [orb is_nil] in Hme.
    rewrite (apply_mood_last c (m1 :: me) false) by assumption. reflexivity.
Qed.

Lemma run_scene sc : forall ti au se ro ac pre te st fr an to co aud,
  scene_ok ro ac sc = true ->
  mem_bytes [s_char sc] (chars_of pre) = false ->
  run orc (print_scene sc) (mkState [] ti au se ro ac pre te st fr an to co aud)
  = Ok (mkState [] ti au se ro ac (pre ++ [sc]) te st fr an to co aud).
Proof.
  intros ti au se ro ac pre te st fr an to co aud H Hpre. unfold scene_ok in H.
  apply andb_prop in H as [H Hne]. apply andb_prop in H as [H Hme]. apply andb_prop in H as [H Hms].
  apply andb_prop in H as [Hc Hes].
  destruct sc as [c en ms me]. cbn [s_char s_entails s_mstart s_mend] in *.
  unfold print_scene. cbn [s_char s_entails s_mstart s_mend].
  destruct en as [|e en].
  - (* no entails: a mood clause creates the scene *)
    cbn [map app].
    destruct ms as [|m0 ms].
    + destruct me as [|m1 me]; [discriminate Hne|].
      cbn [is_nil app run]. cbn [orb is_nil] in Hme.
      rewrite (apply_mood_first c (m1 :: me) false) by assumption. reflexivity.
    + cbn [is_nil app run]. cbn [orb is_nil] in Hms.
      rewrite (apply_mood_first c (m0 :: ms) true) by assumption. cbn [obind].
      destruct me as [|m1 me]; cbn [is_nil run]; [reflexivity|].
      cbn [orb is_nil] in Hme.
      rewrite (apply_mood_last c (m1 :: me) false) by assumption. reflexivity.
  - cbn [map app run]. cbn [forallb] in Hes. apply andb_prop in Hes as [He Hes].
    unfold entail_ok in He. apply andb_prop in He as [Hid He].
    destruct (find_actor (e_actor e) ac) as [a|] eqn:Ea; [|discriminate].
    destruct (find_role (a_role a) ro) as [r|] eqn:Er; [|discriminate].
    rewrite (apply_entail_first c e _ _ _ _ _ _ _ _ _ _ _ _ _ a r) by assumption.
    cbn [obind]. rewrite run_app.
    rewrite (run_entails c en) by assumption. cbn [obind app].
    apply run_moods_last; assumption.
Qed.

Lemma run_scenes scs : forall ti au se ro ac pre te st fr an to co aud,
  forallb (scene_ok ro ac) scs = true ->
  nodup_b (chars_of (pre ++ scs)) = true ->
  run orc (flat_map print_scene scs) (mkState [] ti au se ro ac pre te st fr an to co aud)
  = Ok (mkState [] ti au se ro ac (pre ++ scs) te st fr an to co aud).
Proof.
  induction scs as [|sc scs IH]; intros; cbn [flat_map run].
  - rewrite app_nil_r. reflexivity.
  - cbn in H. apply andb_prop in H as [Hs Hss].
    rewrite run_app, run_scene; [|assumption|].
    2:{ unfold chars_of in H0. rewrite map_app in H0. cbn in H0. apply (nodup_b_mid _ _ _ H0). }
    cbn [obind]. rewrite IH; [rewrite <- app_assoc; reflexivity|assumption|].
    rewrite <- app_assoc. exact H0.
Qed.

End Phases2.
