(** Proofs about the prompter model ([Model.Prompt]): the timed inequalities of
    C04 for every play, every duration and every non-negative latency, and the
    completeness / failure / tolerance statements of C05 for every play, repeat
    specification, oracle and timeout observation.  All by induction on the
    script; no bounds. *)
From Shk Require Import Base.Prelude Model.Prompt.
Open Scope Z_scope.

(** * Part 1: the timed prompter *)

(** [before e1 e2]: [e1] is performed before [e2] in script order, and the
    corresponding instants are ordered. *)
Definition before (e1 e2 : ev) : Prop :=
  ((e_act e1 < e_act e2)%nat /\ e_gend e1 <= e_act_start e2 /\ e_act_start e2 <= e_gstart e2) \/
  (e_act e1 = e_act e2 /\ (e_scene e1 < e_scene e2)%nat /\ e_gend e1 <= e_gstart e2) \/
  (e_act e1 = e_act e2 /\ e_scene e1 = e_scene e2 /\ (e_line e1 < e_line e2)%nat) \/
  (e_act e1 = e_act e2 /\ e_scene e1 = e_scene e2 /\ e_line e1 = e_line e2 /\
   (e_step e1 < e_step e2)%nat /\ e_gend e1 <= e_gstart e2).

(** What holds of every single event produced between instants [lo] and [hi]. *)
Definition ev_ok (lo hi : Z) (e : ev) : Prop :=
  lo <= e_gstart e /\ e_gstart e <= e_cstart e /\ e_cstart e <= e_cend e /\ e_cend e <= e_gend e /\ e_gend e <= hi.

Lemma FOP_app {A} (R : A -> A -> Prop) l1 l2 :
  ForallOrdPairs R l1 -> ForallOrdPairs R l2 -> (forall x y, In x l1 -> In y l2 -> R x y) ->
  ForallOrdPairs R (l1 ++ l2).
Proof.
  induction l1 as [|a l1 IH]; intros H1 H2 H; cbn; [assumption|].
  inversion H1; subst. constructor.
  - apply Forall_app. split; [assumption|]. apply Forall_forall. intros y Hy. apply H; cbn; auto.
  - apply IH; auto. intros x y Hx Hy. apply H; cbn; auto.
Qed.

Lemma ev_ok_weaken lo hi lo' hi' e : lo' <= lo -> hi <= hi' -> ev_ok lo hi e -> ev_ok lo' hi' e.
Proof. unfold ev_ok. intros; lia. Qed.

Section Steps.
  Variables (gap : nat -> Z) (tm : nat -> atime).
  Hypothesis gap_ok : forall k, 0 <= gap k.
  Hypothesis tm_ok : forall k, atime_ok (tm k).
  Variables (a i l : nat) (actor : N) (ast w : Z).
  Let mk := fun (k : nat) (action : N) gs cs ce ge => mkEv a i l k actor action ast w gs cs ce ge.

  Definition step_tags (k : nat) (e : ev) : Prop :=
    e_act e = a /\ e_scene e = i /\ e_line e = l /\ (k <= e_step e)%nat /\ e_act_start e = ast /\ e_wait e = w.

  Lemma steps_spec steps : forall now k evs t,
    run_steps gap tm mk now k steps = (evs, t) ->
    now <= t /\ Forall (fun e => step_tags k e /\ ev_ok now t e) evs /\ ForallOrdPairs before evs.
  Proof.
    induction steps as [|s steps IH]; intros now k evs t H; cbn in H.
    - inversion H; subst. repeat split; [lia | constructor | constructor].
    - destruct s as [action fo | mood].
      + pose proof (gap_ok k) as Hg. destruct (tm_ok k) as [Hs [Hd Hr]].
        set (gs := now + gap k) in *. set (cs := gs + a_spawn (tm k)) in *.
        set (ce := cs + a_dur (tm k)) in *. set (ge := ce + a_reap (tm k)) in *.
        destruct (run_steps gap tm mk ge (S k) steps) as [evs' t'] eqn:E.
        inversion H; subst evs t. clear H.
        destruct (IH _ _ _ _ E) as [Hle [Hall Hord]].
        split; [lia|]. split.
        * constructor.
          -- split; [unfold step_tags, mk; cbn; repeat split; lia | unfold ev_ok, mk; cbn; lia].
          -- eapply Forall_impl; [|exact Hall]. cbn. intros e [[? [? [? [? [? ?]]]]] Hok].
             split; [unfold step_tags; repeat split; auto; lia | eapply ev_ok_weaken; [| |exact Hok]; lia].
        * constructor; [|assumption].
          eapply Forall_impl; [|exact Hall]. cbn. intros e [[Ha [Hi [Hl [Hk _]]]] Hok].
          unfold before. right. right. right. unfold mk; cbn. unfold ev_ok in Hok.
          repeat split; auto; lia.
      + pose proof (gap_ok k) as Hg.
        destruct (IH _ _ _ _ H) as [Hle [Hall Hord]].
        split; [lia|]. split; [|assumption].
        eapply Forall_impl; [|exact Hall]. cbn. intros e [[? [? [? [? [? ?]]]]] Hok].
        split; [unfold step_tags; repeat split; auto; lia | eapply ev_ok_weaken; [| |exact Hok]; lia].
  Qed.
End Steps.

Section Lines.
  Variable st : sctime.
  Hypothesis st_ok : sctime_ok st.
  Variables (a i : nat) (ast w : Z).
  Let mk := fun (l : nat) (actor : N) (k : nat) (action : N) gs cs ce ge => mkEv a i l k actor action ast w gs cs ce ge.

  Definition line_tags (l : nat) (e : ev) : Prop :=
    e_act e = a /\ e_scene e = i /\ (l <= e_line e)%nat /\ e_act_start e = ast /\ e_wait e = w.

  Lemma lines_spec lines : forall t0 l evs t,
    run_lines st mk t0 l lines = (evs, t) ->
    t0 <= t /\ Forall (fun e => line_tags l e /\ ev_ok t0 t e) evs /\ ForallOrdPairs before evs.
  Proof.
    destruct st_ok as [_ [_ [Hgap Hact]]].
    induction lines as [|ln lines IH]; intros t0 l evs t H; cbn in H.
    - inversion H; subst. repeat split; [lia | constructor | constructor].
    - destruct (run_steps (sc_gap st l) (sc_act st l) (mk l (l_actor ln)) t0 0 (l_steps ln)) as [e1 t1] eqn:E1.
      destruct (run_lines st mk t0 (S l) lines) as [e2 t2] eqn:E2.
      inversion H; subst evs t. clear H.
      destruct (steps_spec (sc_gap st l) (sc_act st l) (Hgap l) (Hact l) a i l (l_actor ln) ast w _ _ _ _ _ E1)
        as [Hle1 [Hall1 Hord1]].
      destruct (IH _ _ _ _ E2) as [Hle2 [Hall2 Hord2]].
      split; [lia|]. split.
      + apply Forall_app. split.
        * eapply Forall_impl; [|exact Hall1]. cbn. intros e [[? [? [? [? [? ?]]]]] Hok].
          split; [unfold line_tags; repeat split; auto; lia | eapply ev_ok_weaken; [| |exact Hok]; lia].
        * eapply Forall_impl; [|exact Hall2]. cbn. intros e [[? [? [? [? ?]]]] Hok].
          split; [unfold line_tags; repeat split; auto; lia | eapply ev_ok_weaken; [| |exact Hok]; lia].
      + apply FOP_app; auto. intros x y Hx Hy.
        rewrite Forall_forall in Hall1, Hall2.
        destruct (Hall1 x Hx) as [[? [? [? _]]] _]. destruct (Hall2 y Hy) as [[? [? [? _]]] _].
        unfold before. right. right. left. repeat split; try congruence. lia.
  Qed.
End Lines.

Definition scene_tags (a : nat) (ast : Z) (i : nat) (e : ev) : Prop :=
  e_act e = a /\ (i <= e_scene e)%nat /\ e_act_start e = ast /\ ast + e_wait e <= e_gstart e.

Lemma scene_spec st a i ast now sc evs t :
  sctime_ok st -> run_scene st a i ast now sc = (evs, t) ->
  now <= t /\ ast + waitUntil sc <= t /\
  Forall (fun e => e_act e = a /\ e_scene e = i /\ e_act_start e = ast /\ ast + e_wait e <= e_gstart e /\ ev_ok now t e) evs /\
  ForallOrdPairs before evs.
Proof.
  intros Hok H. unfold run_scene in H.
  set (t0 := Z.max now (ast + waitUntil sc) + sc_lat st) in *.
  destruct (run_lines st _ t0 0 (s_lines sc)) as [e1 t1] eqn:E1.
  inversion H; subst evs t. clear H.
  destruct (lines_spec st Hok a i ast (waitUntil sc) _ _ _ _ _ E1) as [Hle [Hall Hord]].
  destruct Hok as [Hlat [Hjoin _]].
  repeat split; try lia; [|assumption].
  eapply Forall_impl; [|exact Hall]. cbn. intros e [[? [? [? [? Hw]]]] Hk].
  unfold ev_ok in *. rewrite Hw. repeat split; auto; lia.
Qed.

Lemma scenes_spec tm a ast scs : forall now i evs t,
  (forall i, sctime_ok (tm i)) -> ast <= now ->
  run_scenes tm a ast now i scs = (evs, t) ->
  now <= t /\
  Forall (fun e => scene_tags a ast i e /\ ev_ok now t e) evs /\ ForallOrdPairs before evs.
Proof.
  induction scs as [|sc scs IH]; intros now i evs t Hok Hast H; cbn in H.
  - inversion H; subst. repeat split; [lia | constructor | constructor].
  - destruct (run_scene (tm i) a i ast now sc) as [e1 t1] eqn:E1.
    destruct (run_scenes tm a ast t1 (S i) scs) as [e2 t2] eqn:E2.
    inversion H; subst evs t. clear H.
    destruct (scene_spec _ _ _ _ _ _ _ _ (Hok i) E1) as [Hle1 [_ [Hall1 Hord1]]].
    destruct (IH t1 (S i) e2 t2 Hok ltac:(lia) E2) as [Hle2 [Hall2 Hord2]].
    split; [lia|]. split.
    + apply Forall_app. split.
      * eapply Forall_impl; [|exact Hall1]. cbn. intros e [? [? [? [? Hk]]]].
        split; [unfold scene_tags; repeat split; auto; lia | eapply ev_ok_weaken; [| |exact Hk]; lia].
      * eapply Forall_impl; [|exact Hall2]. cbn. intros e [[? [? [? ?]]] Hk].
        split; [unfold scene_tags; repeat split; auto; lia | eapply ev_ok_weaken; [| |exact Hk]; lia].
    + apply FOP_app; auto. intros x y Hx Hy.
      rewrite Forall_forall in Hall1, Hall2.
      destruct (Hall1 x Hx) as [? [? [_ [_ Hkx]]]]. destruct (Hall2 y Hy) as [[? [? _]] Hky].
      unfold before, ev_ok in *. right. left. repeat split; try congruence; lia.
Qed.

Definition act_tags (a : nat) (lo : Z) (e : ev) : Prop :=
  (a <= e_act e)%nat /\ lo <= e_act_start e /\ e_act_start e <= e_gstart e /\
  e_act_start e + e_wait e <= e_gstart e.

Lemma acts_spec tm acts : forall now a evs t,
  ptime_ok tm -> run_acts tm now a acts = (evs, t) ->
  now <= t /\ Forall (fun e => act_tags a now e /\ ev_ok now t e) evs /\ ForallOrdPairs before evs.
Proof.
  induction acts as [|ac acts IH]; intros now a evs t Hok H; cbn in H.
  - inversion H; subst. repeat split; [lia | constructor | constructor].
  - destruct Hok as [Hlat Hsc].
    set (ast := now + p_actlat tm a) in *.
    destruct (run_scenes (p_scene tm a) a ast ast 0 ac) as [e1 t1] eqn:E1.
    destruct (run_acts tm t1 (S a) acts) as [e2 t2] eqn:E2.
    inversion H; subst evs t. clear H.
    pose proof (Hlat a) as Hl.
    destruct (scenes_spec (p_scene tm a) a ast ac ast 0%nat e1 t1 (Hsc a) ltac:(lia) E1) as [Hle1 [Hall1 Hord1]].
    destruct (IH _ _ _ _ (conj Hlat Hsc) E2) as [Hle2 [Hall2 Hord2]].
    split; [lia|]. split.
    + apply Forall_app. split.
      * eapply Forall_impl; [|exact Hall1]. cbn. intros e [[? [? [? ?]]] Hk].
        split; [unfold act_tags, ev_ok in *; repeat split; try lia | eapply ev_ok_weaken; [| |exact Hk]; lia].
      * eapply Forall_impl; [|exact Hall2]. cbn. intros e [[? [? [? ?]]] Hk].
        split; [unfold act_tags; repeat split; auto; lia | eapply ev_ok_weaken; [| |exact Hk]; lia].
    + apply FOP_app; auto. intros x y Hx Hy.
      rewrite Forall_forall in Hall1, Hall2.
      destruct (Hall1 x Hx) as [[? _] Hkx]. destruct (Hall2 y Hy) as [[? [? [? _]]] Hky].
      unfold before, ev_ok in *. left. repeat split; try lia.
Qed.

(** The three facts everything else follows from. *)
Lemma timed_play_spec tm t0 acts :
  ptime_ok tm ->
  ForallOrdPairs before (timed_play tm t0 acts) /\
  Forall (fun e => t0 <= e_act_start e /\ e_act_start e + e_wait e <= e_gstart e /\
                   e_gstart e <= e_cstart e /\ e_cstart e <= e_cend e /\ e_cend e <= e_gend e)
         (timed_play tm t0 acts).
Proof.
  intros Hok. unfold timed_play.
  destruct (run_acts tm t0 0 acts) as [evs t] eqn:E. cbn.
  destruct (acts_spec _ _ _ _ _ _ Hok E) as [_ [Hall Hord]].
  split; [assumption|].
  eapply Forall_impl; [|exact Hall]. cbn. unfold act_tags, ev_ok. intros e H. lia.
Qed.

Lemma before_irrefl e : ~ before e e.
Proof. unfold before. lia. Qed.

(** Any two events of a run are comparable by [before]. *)
Lemma timed_total tm t0 acts e1 e2 :
  ptime_ok tm -> In e1 (timed_play tm t0 acts) -> In e2 (timed_play tm t0 acts) ->
  e1 = e2 \/ before e1 e2 \/ before e2 e1.
Proof.
  intros Hok H1 H2. destruct (timed_play_spec tm t0 acts Hok) as [Hord _].
  apply (ForallOrdPairs_In Hord); assumption.
Qed.

Lemma acts_sequential tm t0 acts e1 e2 :
  ptime_ok tm -> In e1 (timed_play tm t0 acts) -> In e2 (timed_play tm t0 acts) ->
  (e_act e1 < e_act e2)%nat -> e_gend e1 <= e_act_start e2 /\ e_act_start e2 <= e_gstart e2.
Proof.
  intros Hok H1 H2 Hlt. destruct (timed_total tm t0 acts e1 e2 Hok H1 H2) as [E | [B | B]];
    [subst; lia | unfold before in B; lia | unfold before in B; lia].
Qed.

Lemma groups_sequential_with_barrier tm t0 acts e1 e2 :
  ptime_ok tm -> In e1 (timed_play tm t0 acts) -> In e2 (timed_play tm t0 acts) ->
  ((e_act e1 < e_act e2)%nat \/ (e_act e1 = e_act e2 /\ (e_scene e1 < e_scene e2)%nat)) ->
  e_gend e1 <= e_gstart e2.
Proof.
  intros Hok H1 H2 Hlt. destruct (timed_total tm t0 acts e1 e2 Hok H1 H2) as [E | [B | B]];
    [subst; lia | unfold before in B; lia | unfold before in B; lia].
Qed.

Lemma line_order tm t0 acts e1 e2 :
  ptime_ok tm -> In e1 (timed_play tm t0 acts) -> In e2 (timed_play tm t0 acts) ->
  e_act e1 = e_act e2 -> e_scene e1 = e_scene e2 -> e_line e1 = e_line e2 -> (e_step e1 < e_step e2)%nat ->
  e_gend e1 <= e_gstart e2.
Proof.
  intros Hok H1 H2 Ha Hs Hl Hlt. destruct (timed_total tm t0 acts e1 e2 Hok H1 H2) as [E | [B | B]];
    [subst; lia | unfold before in B; lia | unfold before in B; lia].
Qed.

Lemma not_ahead_of_tempo tm t0 acts e :
  ptime_ok tm -> In e (timed_play tm t0 acts) ->
  t0 <= e_act_start e /\ e_act_start e + e_wait e <= e_gstart e.
Proof.
  intros Hok H. destruct (timed_play_spec tm t0 acts Hok) as [_ Hall].
  rewrite Forall_forall in Hall. specialize (Hall e H). lia.
Qed.

Lemma report_brackets_command tm t0 acts e :
  ptime_ok tm -> In e (timed_play tm t0 acts) ->
  e_gstart e <= e_cstart e /\ e_cstart e <= e_cend e /\ e_cend e <= e_gstart e + (e_gend e - e_gstart e).
Proof.
  intros Hok H. destruct (timed_play_spec tm t0 acts Hok) as [_ Hall].
  rewrite Forall_forall in Hall. specialize (Hall e H). lia.
Qed.

(** The tags are what they claim: [e_wait] is the [waitUntil] of the scene the
    event belongs to (so the tempo statement is about the right number). *)
Lemma wait_is_scene_wait tm t0 acts e :
  In e (timed_play tm t0 acts) ->
  exists ac sc, nth_error acts (e_act e) = Some ac /\ nth_error ac (e_scene e) = Some sc /\ e_wait e = waitUntil sc.
Proof.
  unfold timed_play.
  assert (forall acts now a evs t, run_acts tm now a acts = (evs, t) -> forall e, In e evs ->
            exists ac sc, nth_error acts (e_act e - a) = Some ac /\ (a <= e_act e)%nat /\
                          nth_error ac (e_scene e) = Some sc /\ e_wait e = waitUntil sc) as K.
  { clear. induction acts as [|ac acts IH]; intros now a evs t H e Hin; cbn in H.
    - inversion H; subst. destruct Hin.
    - destruct (run_scenes (p_scene tm a) a (now + p_actlat tm a) (now + p_actlat tm a) 0 ac) as [e1 t1] eqn:E1.
      destruct (run_acts tm t1 (S a) acts) as [e2 t2] eqn:E2.
      inversion H; subst evs t. clear H. apply in_app_or in Hin. destruct Hin as [Hin|Hin].
      + assert (forall scs ast nw i evs t, run_scenes (p_scene tm a) a ast nw i scs = (evs, t) -> forall e, In e evs ->
                  e_act e = a /\ exists sc, nth_error scs (e_scene e - i) = Some sc /\ (i <= e_scene e)%nat /\ e_wait e = waitUntil sc) as KS.
        { clear. induction scs as [|sc scs IHs]; intros ast nw i evs t H e Hin; cbn in H.
          - inversion H; subst. destruct Hin.
          - destruct (run_scene (p_scene tm a i) a i ast nw sc) as [e1 t1] eqn:E1.
            destruct (run_scenes (p_scene tm a) a ast t1 (S i) scs) as [e2 t2] eqn:E2.
            inversion H; subst evs t. clear H. apply in_app_or in Hin. destruct Hin as [Hin|Hin].
            + unfold run_scene in E1.
              destruct (run_lines (p_scene tm a i) _ _ 0 (s_lines sc)) as [e3 t3] eqn:E3.
              inversion E1; subst e1 t1. clear E1.
              assert (forall lines st (t0 : Z) l evs t, run_lines st
                        (fun (l : nat) (actor : N) (k : nat) (action : N) gs cs ce ge =>
                           mkEv a i l k actor action ast (waitUntil sc) gs cs ce ge) t0 l lines = (evs, t) ->
                        forall e, In e evs -> e_act e = a /\ e_scene e = i /\ e_wait e = waitUntil sc) as KL.
              { clear. induction lines as [|ln lines IHl]; intros st t0 l evs t H e Hin; cbn in H.
                - inversion H; subst. destruct Hin.
                - destruct (run_steps (sc_gap st l) (sc_act st l) _ t0 0 (l_steps ln)) as [e1 t1] eqn:E1.
                  destruct (run_lines st _ t0 (S l) lines) as [e2 t2] eqn:E2.
                  inversion H; subst evs t. clear H. apply in_app_or in Hin. destruct Hin as [Hin|Hin].
                  + clear E2 IHl. revert t0 e1 t1 E1 Hin. generalize 0%nat as k.
                    induction (l_steps ln) as [|s steps IHs]; intros k t0 e1 t1 E1 Hin; cbn in E1.
                    * inversion E1; subst. destruct Hin.
                    * destruct s as [action fo|mood].
                      -- destruct (run_steps (sc_gap st l) (sc_act st l) _ _ (S k) steps) as [e4 t4] eqn:E4.
                         inversion E1; subst e1 t1. destruct Hin as [<-|Hin]; [cbn; auto|].
                         eapply IHs; eassumption.
                      -- eapply IHs; eassumption.
                  + eapply IHl; eassumption. }
              destruct (KL _ _ _ _ _ _ E3 e Hin) as [? [? ?]].
              split; [assumption|]. exists sc. subst. rewrite H1. rewrite Nat.sub_diag. cbn. repeat split; auto.
            + destruct (IHs _ _ _ _ _ E2 e Hin) as [? [sc' [Hn [Hle Hw]]]].
              split; [assumption|]. exists sc'. replace (e_scene e - i)%nat with (S (e_scene e - S i)) by lia.
              cbn. repeat split; auto. lia. }
        destruct (KS _ _ _ _ _ _ E1 e Hin) as [Ha [sc [Hn [_ Hw]]]].
        exists ac, sc. rewrite Ha, Nat.sub_diag. cbn. rewrite Nat.sub_0_r in Hn. repeat split; auto.
      + destruct (IH _ _ _ _ E2 e Hin) as [ac' [sc [Hn [Hle [Hs Hw]]]]].
        exists ac', sc. replace (e_act e - a)%nat with (S (e_act e - S a)) by lia. cbn. repeat split; auto. lia. }
  intros Hin. destruct (run_acts tm t0 0 acts) as [evs t] eqn:E. cbn in Hin.
  destruct (K _ _ _ _ _ E e Hin) as [ac [sc [Hn [_ [Hs Hw]]]]].
  exists ac, sc. rewrite Nat.sub_0_r in Hn. auto.
Qed.

(** * Part 2: the untimed prompter *)

(** A non-tolerated failure, or a command that could not be run. *)
Definition hard_failure (o : uoracle) (x : inst) : Prop :=
  (o (i_iter x) (i_act x) (i_scene x) (i_line x) (i_step x) = AFail /\ i_failok x = false).

(** ** No error => everything performed *)
Lemma perform_line_ok o mk steps : forall k p,
  perform_line o mk k steps = (p, false) -> p = line_insts mk k steps.
Proof.
  induction steps as [|s steps IH]; intros k p H; cbn in *.
  - inversion H; reflexivity.
  - destruct s as [a fo|m]; [|apply IH; assumption].
    destruct (o k).
    + destruct (perform_line o mk (S k) steps) as [p' e'] eqn:E. inversion H; subst. f_equal. apply IH. assumption.
    + destruct fo; [|discriminate].
      destruct (perform_line o mk (S k) steps) as [p' e'] eqn:E. inversion H; subst. f_equal. apply IH. assumption.
    + discriminate.
Qed.

Lemma perform_lines_ok o mk lines : forall l p,
  perform_lines o mk l lines = (p, false) -> p = lines_insts mk l lines.
Proof.
  induction lines as [|ln lines IH]; intros l p H; cbn in *.
  - inversion H; reflexivity.
  - destruct (perform_line (o l) (mk l (l_actor ln)) 0 (l_steps ln)) as [p1 e1] eqn:E1.
    destruct (perform_lines o mk (S l) lines) as [p2 e2] eqn:E2.
    inversion H; subst. apply orb_false_iff in H2. destruct H2 as [-> ->].
    rewrite (perform_line_ok _ _ _ _ _ E1), (IH _ _ E2). reflexivity.
Qed.

Lemma perform_scenes_ok o it a scs : forall i gs,
  perform_scenes o it a i scs = (gs, false) -> gs = scenes_groups it a i scs.
Proof.
  induction scs as [|sc scs IH]; intros i gs H; cbn in *.
  - inversion H; reflexivity.
  - destruct (perform_scene o it a i sc) as [g e] eqn:E1. destruct e; [discriminate|].
    destruct (perform_scenes o it a (S i) scs) as [gs' e'] eqn:E2.
    inversion H; subst. unfold perform_scene in E1. unfold scene_insts.
    rewrite (perform_lines_ok _ _ _ _ _ E1), (IH _ _ E2). reflexivity.
Qed.

Lemma perform_acts_ok o it acts : forall a gs,
  perform_acts o it a acts = (gs, false) -> gs = acts_groups it a acts.
Proof.
  induction acts as [|ac acts IH]; intros a gs H; cbn in *.
  - inversion H; reflexivity.
  - destruct (perform_scenes o it a 0 ac) as [g e] eqn:E1. destruct e; [discriminate|].
    destruct (perform_acts o it (S a) acts) as [gs' e'] eqn:E2.
    inversion H; subst. rewrite (perform_scenes_ok _ _ _ _ _ _ E1), (IH _ _ E2). reflexivity.
Qed.

Lemma repeat_loop_S f o r tmo p nr :
  repeat_loop (S f) o r tmo p nr =
  if do_repeat r tmo nr then
    match skipn (repeatActNum r - 1) p with
    | [] => Ok ([], PCompleted)
    | racts =>
        let '(gs, e) := perform_acts o (S nr) (repeatActNum r - 1) racts in
        if e then Ok (gs, PFailed)
        else match repeat_loop f o r tmo p (S nr) with
             | Ok (gs', st) => Ok (gs ++ gs', st)
             | other => other
             end
    end
  else Ok ([], PCompleted).
Proof. reflexivity. Qed.

Lemma repeat_loop_ok fuel o r tmo p : forall nr gs,
  repeat_loop fuel o r tmo p nr = Ok (gs, PCompleted) ->
  exists n, gs = repeated_groups p (repeatActNum r) (S nr) n /\
            (* the loop went round n times, then stopped *)
            (forall m, (m < n)%nat -> do_repeat r tmo (nr + m) = true) /\
            (do_repeat r tmo (nr + n) = false \/ skipn (repeatActNum r - 1) p = []).
Proof.
  induction fuel as [|f IH]; intros nr gs H; [discriminate|]. rewrite repeat_loop_S in H.
  destruct (do_repeat r tmo nr) eqn:Ed.
  - destruct (skipn (repeatActNum r - 1) p) as [|ac0 racts] eqn:Es.
    + inversion H; subst. exists 0%nat. cbn. repeat split; auto. intros m Hm; lia.
    + destruct (perform_acts o (S nr) (repeatActNum r - 1) (ac0 :: racts)) as [g e] eqn:Ea.
      destruct e; [discriminate|].
      destruct (repeat_loop f o r tmo p (S nr)) as [[gs' st]| | |] eqn:El; try discriminate.
      inversion H; subst. destruct (IH _ _ El) as [n [Hg [Hall Hend]]].
      exists (S n). cbn. rewrite Es. rewrite (perform_acts_ok _ _ _ _ _ Ea), Hg. split; [reflexivity|]. split.
      * intros m Hm. destruct m; [rewrite Nat.add_0_r; assumption|].
        replace (nr + S m)%nat with (S nr + m)%nat by lia. apply Hall. lia.
      * replace (nr + S n)%nat with (S nr + n)%nat by lia. destruct Hend as [Hend|Hend]; [left; assumption|].
        congruence.
  - inversion H; subst. exists 0%nat. cbn. rewrite Nat.add_0_r. repeat split; auto. intros m Hm; lia.
Qed.

(** [complete_unless_failed]: if the prompter reports no failure, it performed
    exactly what the script prescribes for some number K >= 1 of plays of the
    repeated part. *)
Lemma complete_unless_failed fuel p r tmo o gs :
  perform fuel p r tmo o = Ok (gs, PCompleted) ->
  exists K, (1 <= K)%nat /\ gs = prescribed p r K.
Proof.
  unfold perform. destruct (perform_acts o 0 0 p) as [g e] eqn:Ea. destruct e; [discriminate|].
  pose proof (perform_acts_ok _ _ _ _ _ Ea) as Hg.
  destruct p as [|ac p'].
  - intros H. inversion H; subst. exists 1%nat. split; [lia|]. unfold prescribed. cbn. reflexivity.
  - destruct (repeatActNum r) as [|ran'] eqn:Er.
    + intros H. inversion H; subst. exists 1%nat. split; [lia|]. unfold prescribed. cbn [repeated_groups Nat.sub].
      rewrite app_nil_r. reflexivity.
    + destruct (repeat_loop fuel o r tmo (ac :: p') 0) as [[gs' st]| | |] eqn:El; try discriminate.
      intros H. inversion H; subst. destruct (repeat_loop_ok _ _ _ _ _ _ _ El) as [n [Hn _]].
      exists (S n). split; [lia|]. unfold prescribed. rewrite Hn, Er. cbn [Nat.sub]. rewrite Nat.sub_0_r. reflexivity.
Qed.

(** `repeat N times` (N >= 1) without a time limit, the repeat point inside
    the play: the repeated acts are played exactly N times. *)
Lemma do_repeat_count r tmo nr N :
  repeatCount r = Z.of_nat N -> (1 <= N)%nat -> (forall n, tmo n = false) ->
  do_repeat r tmo nr = negb (N <=? S nr)%nat.
Proof.
  intros Hc HN Ht. unfold do_repeat. rewrite Ht, Hc. cbn [negb]. rewrite andb_true_r.
  replace (0 <? Z.of_nat N) with true by (symmetry; apply Z.ltb_lt; lia). cbn [andb].
  f_equal. destruct (N <=? S nr)%nat eqn:E.
  - apply Nat.leb_le in E. apply Z.leb_le. lia.
  - apply Nat.leb_gt in E. apply Z.leb_gt. lia.
Qed.

Lemma complete_repeat_n_times fuel p r tmo o gs N :
  perform fuel p r tmo o = Ok (gs, PCompleted) ->
  (1 <= repeatActNum r <= length p)%nat -> repeatCount r = Z.of_nat N -> (1 <= N)%nat ->
  (forall n, tmo n = false) ->
  gs = prescribed p r N.
Proof.
  intros H Hran Hc HN Ht.
  unfold perform in H. destruct (perform_acts o 0 0 p) as [g e] eqn:Ea. destruct e; [discriminate|].
  pose proof (perform_acts_ok _ _ _ _ _ Ea) as Hg.
  destruct p as [|ac p']; [cbn in Hran; lia|].
  destruct (repeatActNum r) as [|ran'] eqn:Er; [lia|].
  destruct (repeat_loop fuel o r tmo (ac :: p') 0) as [[gs' st]| | |] eqn:El; try discriminate.
  inversion H; subst. destruct (repeat_loop_ok _ _ _ _ _ _ _ El) as [n [Hn [Hall Hend]]].
  assert (n = N - 1)%nat as ->.
  { destruct Hend as [Hend|Hend].
    - rewrite (do_repeat_count r tmo _ N Hc HN Ht) in Hend. apply negb_false_iff, Nat.leb_le in Hend.
      destruct n as [|n']; [cbn in Hend; lia|].
      specialize (Hall n' ltac:(lia)). rewrite (do_repeat_count r tmo _ N Hc HN Ht) in Hall.
      apply negb_true_iff, Nat.leb_gt in Hall. cbn in *. lia.
    - exfalso. rewrite Er in Hend. cbn [Nat.sub] in Hend. rewrite Nat.sub_0_r in Hend.
      assert (length (skipn ran' (ac :: p')) = 0%nat) as L by (rewrite Hend; reflexivity).
      rewrite skipn_length in L. cbn [length] in *. lia. }
  unfold prescribed. rewrite Hn, Er. reflexivity.
Qed.

(** ** A non-tolerated failure stops the play *)

(** [failure_stops]: in the list of performed groups, a group that contains a
    hard failure is the last one, and the status is [PFailed].  First for one
    scene: if a performed instance is a hard failure the scene reports an error. *)
Lemma perform_line_hard o it a i l actor steps : forall k p e x,
  perform_line (o it a i l) (fun k action fo => mkInst it a i l k actor action fo) k steps = (p, e) ->
  In x p -> hard_failure o x -> e = true.
Proof.
  induction steps as [|s steps IH]; intros k p e x H Hin Hh; cbn in H.
  - inversion H; subst. destruct Hin.
  - destruct s as [act fo|m]; [|eapply IH; eassumption].
    destruct (o it a i l k) eqn:Eo.
    + destruct (perform_line _ _ (S k) steps) as [p' e'] eqn:E. inversion H; subst.
      destruct Hin as [<-|Hin]; [|eapply IH; eassumption].
      unfold hard_failure in Hh. cbn in Hh. rewrite Eo in Hh. destruct Hh; discriminate.
    + destruct fo.
      * destruct (perform_line _ _ (S k) steps) as [p' e'] eqn:E. inversion H; subst.
        destruct Hin as [<-|Hin]; [|eapply IH; eassumption].
        unfold hard_failure in Hh. cbn in Hh. destruct Hh; discriminate.
      * inversion H; subst. reflexivity.
    + inversion H; subst. destruct Hin.
Qed.

Lemma perform_lines_hard o it a i lines : forall l p e x,
  perform_lines (o it a i) (fun l actor k action fo => mkInst it a i l k actor action fo) l lines = (p, e) ->
  In x p -> hard_failure o x -> e = true.
Proof.
  induction lines as [|ln lines IH]; intros l p e x H Hin Hh; cbn in H.
  - inversion H; subst. destruct Hin.
  - destruct (perform_line _ _ 0 (l_steps ln)) as [p1 e1] eqn:E1.
    destruct (perform_lines _ _ (S l) lines) as [p2 e2] eqn:E2.
    inversion H; subst. apply in_app_or in Hin. destruct Hin as [Hin|Hin].
    + rewrite (perform_line_hard _ _ _ _ _ _ _ _ _ _ _ E1 Hin Hh). reflexivity.
    + rewrite (IH _ _ _ _ E2 Hin Hh). apply orb_true_r.
Qed.

Lemma perform_scenes_stop o it a scs : forall i gs e pre g post x,
  perform_scenes o it a i scs = (gs, e) -> gs = pre ++ g :: post -> In x g -> hard_failure o x ->
  post = [] /\ e = true.
Proof.
  induction scs as [|sc scs IH]; intros i gs e pre g post x H Hgs Hin Hh; cbn in H.
  - inversion H; subst. destruct pre; discriminate.
  - destruct (perform_scene o it a i sc) as [g1 e1] eqn:E1. destruct e1.
    + inversion H; subst. destruct pre as [|y pre]; cbn in H1.
      * inversion H1; subst. auto.
      * inversion H1. destruct pre; discriminate.
    + destruct (perform_scenes o it a (S i) scs) as [gs' e'] eqn:E2. inversion H; subst.
      destruct pre as [|y pre]; cbn in H1.
      * inversion H1; subst. unfold perform_scene in E1.
        pose proof (perform_lines_hard _ _ _ _ _ _ _ _ _ E1 Hin Hh) as Hf. discriminate.
      * inversion H1; subst. eapply IH; try eassumption. reflexivity.
Qed.

Lemma perform_acts_stop o it acts : forall a gs e pre g post x,
  perform_acts o it a acts = (gs, e) -> gs = pre ++ g :: post -> In x g -> hard_failure o x ->
  post = [] /\ e = true.
Proof.
  induction acts as [|ac acts IH]; intros a gs e pre g post x H Hgs Hin Hh; cbn in H.
  - inversion H; subst. destruct pre; discriminate.
  - destruct (perform_scenes o it a 0 ac) as [g1 e1] eqn:E1. destruct e1.
    + inversion H; subst. eapply perform_scenes_stop; eauto.
    + destruct (perform_acts o it (S a) acts) as [gs' e'] eqn:E2. inversion H; subst.
      (* the failing group is in g1 (impossible: no error there) or in gs' *)
      assert (forall (l1 l2 pre : list group) g post, l1 ++ l2 = pre ++ g :: post ->
                (exists post1, l1 = pre ++ g :: post1 /\ post = post1 ++ l2) \/
                (exists pre2, l2 = pre2 ++ g :: post /\ pre = l1 ++ pre2)) as Split.
      { clear. induction l1 as [|y l1 IHl]; intros l2 pre g post H; cbn in H.
        - right. exists pre. auto.
        - destruct pre as [|z pre]; cbn in H; inversion H; subst.
          + left. exists l1. auto.
          + destruct (IHl _ _ _ _ H2) as [[post1 [-> ->]]|[pre2 [-> ->]]].
            * left. exists post1. auto.
            * right. exists pre2. auto. }
      destruct (Split _ _ _ _ _ H1) as [[post1 [Hl1 Hp]]|[pre2 [Hl2 Hp]]].
      * destruct (perform_scenes_stop _ _ _ _ _ _ _ _ _ _ _ E1 Hl1 Hin Hh) as [_ Hf]. discriminate.
      * eapply IH; eauto.
Qed.

Lemma app_split_groups (l1 l2 pre : list group) g post :
  l1 ++ l2 = pre ++ g :: post ->
  (exists post1, l1 = pre ++ g :: post1 /\ post = post1 ++ l2) \/
  (exists pre2, l2 = pre2 ++ g :: post /\ pre = l1 ++ pre2).
Proof.
  revert l2 pre g post. induction l1 as [|y l1 IHl]; intros l2 pre g post H; cbn in H.
  - right. exists pre. auto.
  - destruct pre as [|z pre]; cbn in H; inversion H; subst.
    + left. exists l1. auto.
    + destruct (IHl _ _ _ _ H2) as [[post1 [-> ->]]|[pre2 [-> ->]]].
      * left. exists post1. auto.
      * right. exists pre2. auto.
Qed.

Lemma repeat_loop_stop fuel o r tmo p : forall nr gs st pre g post x,
  repeat_loop fuel o r tmo p nr = Ok (gs, st) -> gs = pre ++ g :: post -> In x g -> hard_failure o x ->
  post = [] /\ st = PFailed.
Proof.
  induction fuel as [|f IH]; intros nr gs st pre g post x H Hgs Hin Hh; [discriminate|]. rewrite repeat_loop_S in H.
  destruct (do_repeat r tmo nr).
  - destruct (skipn (repeatActNum r - 1) p) as [|ac0 racts] eqn:Es.
    + inversion H; subst. destruct pre; discriminate.
    + destruct (perform_acts o (S nr) (repeatActNum r - 1) (ac0 :: racts)) as [g1 e1] eqn:Ea. destruct e1.
      * inversion H; subst. destruct (perform_acts_stop _ _ _ _ _ _ _ _ _ _ Ea eq_refl Hin Hh). auto.
      * destruct (repeat_loop f o r tmo p (S nr)) as [[gs' st']| | |] eqn:El; try discriminate.
        inversion H; subst.
        destruct (app_split_groups _ _ _ _ _ H1) as [[post1 [Hl1 Hp]]|[pre2 [Hl2 Hp]]].
        -- destruct (perform_acts_stop _ _ _ _ _ _ _ _ _ _ Ea Hl1 Hin Hh) as [_ Hf]. discriminate.
        -- eapply IH; eauto.
  - inversion H; subst. destruct pre; discriminate.
Qed.

Lemma failure_stops fuel p r tmo o gs st pre g post x :
  perform fuel p r tmo o = Ok (gs, st) -> gs = pre ++ g :: post -> In x g -> hard_failure o x ->
  post = [] /\ st = PFailed.
Proof.
  unfold perform. destruct (perform_acts o 0 0 p) as [g1 e1] eqn:Ea. destruct e1.
  - intros H Hgs Hin Hh. inversion H; subst.
    destruct (perform_acts_stop _ _ _ _ _ _ _ _ _ _ Ea eq_refl Hin Hh). auto.
  - intros H Hgs Hin Hh.
    assert (forall gs' post', gs' = g1 -> gs' = pre ++ g :: post' -> False) as NotInFirst.
    { intros gs' post' -> Hx. destruct (perform_acts_stop _ _ _ _ _ _ _ _ _ _ Ea Hx Hin Hh) as [_ Hf]. discriminate. }
    destruct p as [|ac p'].
    + inversion H; subst. exfalso. eapply NotInFirst; eauto.
    + destruct (repeatActNum r) as [|ran'].
      * inversion H; subst. exfalso. eapply NotInFirst; eauto.
      * destruct (repeat_loop fuel o r tmo (ac :: p') 0) as [[gs' st']| | |] eqn:El; try discriminate.
        inversion H; subst.
        destruct (app_split_groups _ _ _ _ _ H1) as [[post1 [Hl1 Hp]]|[pre2 [Hl2 Hp]]].
        -- exfalso. eapply NotInFirst; eauto.
        -- eapply repeat_loop_stop; eauto.
Qed.

(** ** A tolerated failure changes nothing *)

(** Two oracles agree up to tolerated failures: wherever they differ, the step
    at that position is marked `?` and both say "ran" (ok or failed). *)
Definition step_at (p : play) (a i l k : nat) : option stepk :=
  match nth_error p a with
  | Some ac => match nth_error ac i with
               | Some sc => match nth_error (s_lines sc) l with
                            | Some ln => nth_error (l_steps ln) k
                            | None => None
                            end
               | None => None
               end
  | None => None
  end.

Definition ran (x : ares) : Prop := x = AOk \/ x = AFail.

Definition agree_step (s : option stepk) (x y : ares) : Prop :=
  x = y \/ (exists act, s = Some (SDo act true)) /\ ran x /\ ran y.

Lemma perform_line_agree o1 o2 mk steps : forall k,
  (forall j, agree_step (nth_error steps j) (o1 (k + j)%nat) (o2 (k + j)%nat)) ->
  perform_line o1 mk k steps = perform_line o2 mk k steps.
Proof.
  induction steps as [|s steps IH]; intros k H; cbn; [reflexivity|].
  assert (perform_line o1 mk (S k) steps = perform_line o2 mk (S k) steps) as R.
  { apply IH. intros j. specialize (H (S j)). cbn in H. replace (S k + j)%nat with (k + S j)%nat by lia. exact H. }
  destruct s as [act fo|m]; [|exact R].
  specialize (H 0%nat). rewrite Nat.add_0_r in H. cbn in H.
  destruct H as [->|[[act' Hs] [[-> | ->] [-> | ->]]]]; try (rewrite R; reflexivity);
    inversion Hs; subst; rewrite R; reflexivity.
Qed.

Lemma perform_lines_agree o1 o2 mk lines : forall l,
  (forall j ln k, nth_error lines j = Some ln ->
     agree_step (nth_error (l_steps ln) k) (o1 (l + j)%nat k) (o2 (l + j)%nat k)) ->
  perform_lines o1 mk l lines = perform_lines o2 mk l lines.
Proof.
  induction lines as [|ln lines IH]; intros l H; cbn; [reflexivity|].
  rewrite (perform_line_agree (o1 l) (o2 l) (mk l (l_actor ln)) (l_steps ln) 0).
  - rewrite (IH (S l)); [reflexivity|]. intros j ln' k Hn.
    replace (S l + j)%nat with (l + S j)%nat by lia. apply (H (S j)). exact Hn.
  - intros j. specialize (H 0%nat ln j eq_refl). rewrite Nat.add_0_r in H. exact H.
Qed.

Definition agree (p : play) (o1 o2 : uoracle) : Prop :=
  forall it a i l k, agree_step (step_at p a i l k) (o1 it a i l k) (o2 it a i l k).

Lemma perform_scenes_agree o1 o2 it a scs : forall i,
  (forall j sc l ln k, nth_error scs j = Some sc -> nth_error (s_lines sc) l = Some ln ->
     agree_step (nth_error (l_steps ln) k) (o1 it a (i + j)%nat l k) (o2 it a (i + j)%nat l k)) ->
  perform_scenes o1 it a i scs = perform_scenes o2 it a i scs.
Proof.
  induction scs as [|sc scs IH]; intros i H; cbn; [reflexivity|].
  assert (perform_scene o1 it a i sc = perform_scene o2 it a i sc) as R1.
  { unfold perform_scene. apply perform_lines_agree. intros j ln k Hn. cbn.
    specialize (H 0%nat sc j ln k eq_refl Hn). rewrite Nat.add_0_r in H. exact H. }
  rewrite R1. rewrite (IH (S i)); [reflexivity|].
  intros j sc' l ln k Hs Hl. replace (S i + j)%nat with (i + S j)%nat by lia. apply (H (S j) sc'); assumption.
Qed.

Lemma perform_acts_agree o1 o2 it acts : forall a,
  (forall j ac i sc l ln k, nth_error acts j = Some ac -> nth_error ac i = Some sc ->
     nth_error (s_lines sc) l = Some ln ->
     agree_step (nth_error (l_steps ln) k) (o1 it (a + j)%nat i l k) (o2 it (a + j)%nat i l k)) ->
  perform_acts o1 it a acts = perform_acts o2 it a acts.
Proof.
  induction acts as [|ac acts IH]; intros a H; cbn; [reflexivity|].
  rewrite (perform_scenes_agree o1 o2 it a ac 0).
  - rewrite (IH (S a)); [reflexivity|]. intros j ac' i sc l ln k Ha Hs Hl.
    replace (S a + j)%nat with (a + S j)%nat by lia. apply (H (S j) ac' i sc l ln k); assumption.
  - intros j sc l ln k Hs Hl. specialize (H 0%nat ac j sc l ln k eq_refl Hs Hl).
    rewrite Nat.add_0_r in H. exact H.
Qed.

Lemma nth_error_skipn' {A} (l : list A) : forall a j, nth_error (skipn a l) j = nth_error l (a + j).
Proof.
  induction l as [|x l IH]; intros a j.
  - rewrite skipn_nil. destruct j, a; reflexivity.
  - destruct a; cbn; [reflexivity|]. apply IH.
Qed.

Lemma agree_acts_from p o1 o2 it a :
  agree p o1 o2 ->
  perform_acts o1 it a (skipn a p) = perform_acts o2 it a (skipn a p).
Proof.
  intros Hag. apply perform_acts_agree. intros j ac i sc l ln k Ha Hs Hl.
  specialize (Hag it (a + j)%nat i l k). unfold step_at in Hag.
  rewrite nth_error_skipn' in Ha. unfold play, act in *. rewrite Ha, Hs, Hl in Hag. exact Hag.
Qed.

Lemma repeat_loop_agree fuel p r tmo o1 o2 : agree p o1 o2 -> forall nr,
  repeat_loop fuel o1 r tmo p nr = repeat_loop fuel o2 r tmo p nr.
Proof.
  intros Hag. induction fuel as [|f IH]; intros nr; [reflexivity|]. rewrite !repeat_loop_S.
  destruct (do_repeat r tmo nr); [|reflexivity].
  pose proof (agree_acts_from p o1 o2 (S nr) (repeatActNum r - 1) Hag) as R.
  destruct (skipn (repeatActNum r - 1) p) as [|ac0 racts]; [reflexivity|].
  rewrite R. rewrite IH. reflexivity.
Qed.

Lemma tolerated_ignored fuel p r tmo o1 o2 :
  agree p o1 o2 -> perform fuel p r tmo o1 = perform fuel p r tmo o2.
Proof.
  intros Hag. unfold perform.
  pose proof (agree_acts_from p o1 o2 0 0 Hag) as R. cbn [skipn] in R. rewrite R.
  rewrite (repeat_loop_agree fuel p r tmo o1 o2 Hag). reflexivity.
Qed.

(** In particular: making every tolerated failure a success changes neither
    what is performed nor the status. *)
Definition heal (p : play) (o : uoracle) : uoracle :=
  fun it a i l k =>
    match step_at p a i l k, o it a i l k with
    | Some (SDo _ true), AFail => AOk
    | _, x => x
    end.

Lemma heal_agree p o : agree p o (heal p o).
Proof.
  intros it a i l k. unfold heal, agree_step.
  destruct (step_at p a i l k) as [[act [|]|m]|] eqn:E; try (left; reflexivity).
  destruct (o it a i l k) eqn:Eo; try (left; reflexivity).
  right. split; [exists act; reflexivity|]. unfold ran. auto.
Qed.

Lemma tolerated_failures_as_successes fuel p r tmo o :
  perform fuel p r tmo o = perform fuel p r tmo (heal p o).
Proof. apply tolerated_ignored, heal_agree. Qed.

(** * Part 3: runScene's barrier always completes *)
Definition wg_inv (s : wgstate) : Prop :=
  wg_count s = Z.of_nat (wg_running s) /\ (wg_reported s + wg_running s = wg_launched s)%nat.

Lemma wstep_inv s l s' : wg_inv s -> wstep true s l = Some s' -> wg_inv s'.
Proof.
  unfold wg_inv. intros [Hc Hr] H. destruct l as [[|]|]; cbn in H.
  - inversion H; subst; cbn. split; lia.
  - inversion H; subst; cbn. split; lia.
  - destruct (wg_running s) eqn:E; [discriminate|]. inversion H; subst; cbn. split; lia.
Qed.

(** Whatever mixture of started and refused line tasks, in any interleaving
    with the tasks ending: the counter equals the number of tasks still
    running — so [wg.Wait] returns exactly when all started tasks have ended,
    also when every task was refused — and every line delivers exactly one
    value to errCh (never more than its capacity). *)
Lemma scene_barrier_completes ls s :
  wrun true wg_init ls = Some s ->
  wg_count s = Z.of_nat (wg_running s) /\ (wg_reported s + wg_running s = wg_launched s)%nat.
Proof.
  assert (forall ls s0 s, wg_inv s0 -> wrun true s0 ls = Some s -> wg_inv s) as K.
  { induction ls0 as [|l ls0 IH]; intros s0 s1 Hi H; cbn in H.
    - inversion H; subst; assumption.
    - destruct (wstep true s0 l) as [s2|] eqn:E; [|discriminate].
      eapply IH; [eapply wstep_inv; eassumption | exact H]. }
  intros H. apply (K ls wg_init s); [unfold wg_inv; cbn; split; lia | exact H].
Qed.

(** Without the compensating [wg.Done] of the refusal branch a single refused
    line leaves the counter at 1 with nothing running: [wg.Wait] never returns. *)
Lemma scene_barrier_without_done_stuck :
  exists ls s, wrun false wg_init ls = Some s /\ wg_running s = 0%nat /\ wg_count s > 0.
Proof. exists [WLaunch LRefused]. eexists. cbn. repeat split. Qed.

(** * Part 4: collectErrors never blocks at the end of a scene *)
Lemma collect_never_blocks ls : (1 <= errch_at_collect true ls)%nat.
Proof.
  destruct ls as [|l tl]; cbn; [lia|].
  destruct l as [[|]|o]; cbn; lia.
Qed.

Lemma collect_blocks_without_report_first :
  exists ls, errch_at_collect false ls = 0%nat.
Proof. exists [SLMood true]. reflexivity. Qed.
