(** Replay of the printed tempo, storyline and repeat clauses (C10). *)
From Coq Require Import String Permutation.
From Shk Require Import Base.Prelude Model.Storyline Model.Config.
From Shk Require Import Proofs.ConfigText Proofs.ConfigRoles Proofs.ConfigCast.
Open Scope Z_scope.

Section Phases3.
Variable orc : oracles.
Hypothesis Horc : oracle_ok orc.

Definition norm_neg (z : Z) : Z := if z <? 0 then -1 else z.
Definition match_act (re : bytes) (story : list bytes) : Z :=
  match first_match (o_re_match orc re) story 1 with Some n => n | None => 0 end.

Lemma apply_tempo te : forall ti au se ro ac sc te0 st fr an to co aud,
  apply orc (mkState [] ti au se ro ac sc te0 st fr an to co aud) (CTempo (o_dur_string orc te))
  = Ok (mkState [] ti au se ro ac sc te st fr an to co aud).
Proof.
  intros. destruct Horc as (Hrt & _ & _). cbn [apply]. rewrite Hrt. reflexivity.
Qed.

Lemma apply_storyline_fresh story : forall ti au se ro ac sc te an to co aud,
  outcome_is (list_eqb bytes_eqb)
     (do_storyline (fun c => existsb (fun x => Byte.eqb c (s_char x)) sc) [] (join_sp story)) story = true ->
  apply orc (mkState [] ti au se ro ac sc te [] None an to co aud) (CStoryline (join_sp story))
  = Ok (mkState [] ti au se ro ac sc te story None an to co aud).
Proof.
  intros. cbn [apply]. unfold scene_defined. cbn [c_scenes c_story].
  unfold outcome_is in H.
  destruct (do_storyline _ [] (join_sp story)) as [st'| | |]; try discriminate.
  apply (list_eqb_eq bytes_eqb bytes_eqb_eq) in H. subst st'. reflexivity.
Qed.

Lemma unconstrained_inert : preproc [] unconstrained = Ok unconstrained.
Proof. reflexivity. Qed.

Lemma run_repeat re story : forall ti au se ro ac sc te an0 to co aud,
  o_re_ok orc re = true ->
  run orc [CRepeatFrom re;
           CRepeatTime (if to <? 0 then unconstrained else o_dur_string orc to);
           (if 0 <=? co then CRepeatCount (itoa_z co) else CRepeatAlways)]
      (mkState [] ti au se ro ac sc te story None an0 (-1) (-1) aud)
  = Ok (mkState [] ti au se ro ac sc te story (Some re) (match_act re story) (norm_neg to) (norm_neg co) aud).
Proof.
  intros ti au se ro ac sc te an0 to co aud Hre. destruct Horc as (Hrt & Hin & Hnu).
  cbn [run apply]. unfold check. rewrite Hre. cbn [obind].
  unfold update_repeat, set_from. cbn [c_from c_story]. fold (match_act re story).
  assert (E1 : (match first_match (o_re_match orc re) story 1 with
                | Some n => set_actnum (mkState [] ti au se ro ac sc te story (Some re) an0 (-1) (-1) aud) n
                | None => set_actnum (mkState [] ti au se ro ac sc te story (Some re) an0 (-1) (-1) aud) 0
                end) = mkState [] ti au se ro ac sc te story (Some re) (match_act re story) (-1) (-1) aud).
  { unfold match_act. destruct (first_match (o_re_match orc re) story 1); reflexivity. }
  cbn [c_pvars c_titles c_authors c_seealso c_roles c_actors c_scenes c_tempo c_story c_from c_actnum c_timeout c_count c_aud] in *.
  rewrite E1. clear E1. cbn [c_pvars].
  assert (E2 : apply orc (mkState [] ti au se ro ac sc te story (Some re) (match_act re story) (-1) (-1) aud)
                 (CRepeatTime (if to <? 0 then unconstrained else o_dur_string orc to))
               = Ok (mkState [] ti au se ro ac sc te story (Some re) (match_act re story) (norm_neg to) (-1) aud)).
  { unfold norm_neg. destruct (to <? 0) eqn:E.
    - reflexivity.
    - cbn [apply c_pvars]. rewrite Hin. cbn [obind]. rewrite Hnu, Hrt. reflexivity. }
  cbn [apply] in E2. cbn [c_pvars] in E2. rewrite E2. clear E2. cbn [obind].
  unfold norm_neg. destruct (0 <=? co) eqn:E.
  - apply Z.leb_le in E. assert (co <? 0 = false) as -> by (apply Z.ltb_ge; lia).
    cbn [apply c_pvars]. rewrite (preproc_no_tilde _ _ (itoa_z_no_tilde _ E)). cbn [obind].
    rewrite (parse_int_itoa_z _ E). reflexivity.
  - apply Z.leb_gt in E. assert (co <? 0 = true) as -> by (apply Z.ltb_lt; lia). reflexivity.
Qed.

End Phases3.
