(** Liveness of Stop, second part: once every task FUNCTION and every worker
    FUNCTION has returned (or panicked) and no call is still on its way in,
    the deferred steps that remain in their goroutines ([<-sem], runPostlude,
    stop.Done()) are all enabled and finite in number; after them the
    situation is the drained one of StopperLive.v, so the Stop call that does
    the work reaches "stopped" and returns. *)
From Shk Require Import Base.Prelude Model.Stopper Proofs.StopperProofs Proofs.StopperLive Proofs.SemWf.
Open Scope nat_scope.

Definition task_body_over (t : task) : bool :=
  match pc t with TBodyDone | TPost | TDone | TRefused => true | _ => false end.
Definition worker_body_over (w : worker) : bool :=
  match wp w with WBody => false | _ => true end.

Definition bodies_over (s : st) : Prop :=
  Forall (fun t => task_body_over t = true) (tasks s) /\
  Forall (fun w => worker_body_over w = true) (workers s).

(** number of deferred steps still to be taken *)
Definition tmeas (t : task) : nat := match pc t with TBodyDone => 2 | TPost => 1 | _ => 0 end.
Definition wmeas (w : worker) : nat := match wp w with WBodyDone => 1 | _ => 0 end.
Fixpoint msum {A} (f : A -> nat) (l : list A) : nat :=
  match l with [] => 0 | x :: tl => f x + msum f tl end.
Definition meas (s : st) : nat := msum tmeas (tasks s) + msum wmeas (workers s).

Lemma msum_pos {A} (f : A -> nat) l : 0 < msum f l -> exists i x, nth_error l i = Some x /\ 0 < f x.
Proof.
  induction l as [|y l IH]; cbn; [lia|]. intros H. destruct (f y) eqn:E.
  - destruct (IH H) as (i & x & H1 & H2). exists (S i), x. auto.
  - exists 0, y. split; [reflexivity | lia].
Qed.

Lemma msum_upd {A} (f : A -> nat) l i old x :
  nth_error l i = Some old -> msum f (upd l i x) + f old = msum f l + f x.
Proof.
  revert i; induction l as [|y l IH]; intros [|i] H; cbn in H; try discriminate.
  - inversion H; subst. cbn. lia.
  - cbn. specialize (IH _ H). lia.
Qed.

Lemma msum_zero {A} (f : A -> nat) l : msum f l = 0 -> Forall (fun x => f x = 0) l.
Proof. induction l as [|y l IH]; cbn; intros H; constructor; [lia | apply IH; lia]. Qed.

(** how a Stop / Quiesce goroutine may have moved meanwhile: not at all, or
    woken from Cond.Wait *)
Definition th_rel (th th' : sthread) : Prop :=
  s_is_stop th' = s_is_stop th /\ (sp th' = sp th \/ (sp th = SQWait /\ sp th' = SQWoken)).

Lemma th_rel_refl th : th_rel th th.
Proof. split; auto. Qed.
Lemma th_rel_trans a b c : th_rel a b -> th_rel b c -> th_rel a c.
Proof.
  intros (A1 & A2) (B1 & B2). split; [congruence|].
  destruct A2 as [A2|[A2 A3]], B2 as [B2|[B2 B3]]; try (left; congruence); try (right; split; congruence).
Qed.
Lemma th_rel_wake th : th_rel th (wake th).
Proof.
  unfold th_rel. rewrite wake_is_stop, wake_sp. split; [reflexivity|]. destruct (sp th); auto.
Qed.

Definition threads_rel (s s' : st) : Prop :=
  forall j th, nth_error (sthreads s) j = Some th ->
               exists th', nth_error (sthreads s') j = Some th' /\ th_rel th th'.

Lemma threads_rel_trans a b c : threads_rel a b -> threads_rel b c -> threads_rel a c.
Proof.
  intros H1 H2 j th E. destruct (H1 j th E) as (th1 & E1 & R1). destruct (H2 j th1 E1) as (th2 & E2 & R2).
  exists th2. split; [exact E2 | eapply th_rel_trans; eauto].
Qed.

Section Flush.
Variable caps : list nat.

Lemma exists_of_count {A} (f : A -> bool) l : 1 <= count f l -> exists i x, nth_error l i = Some x /\ f x = true.
Proof.
  induction l as [|t l IH]; [cbn; lia|]. rewrite count_cons. destruct (f t) eqn:E.
  - intros _. exists 0, t. auto.
  - cbn. intros H. destruct (IH H) as (i & x & H1 & H2). exists (S i), x. auto.
Qed.

(** with a task still counted in numTasks, nobody is inside the closers
    region of Stop: the mutex is free *)
Lemma mu_free_if_in_flight s i t :
  Inv caps s -> nth_error (tasks s) i = Some t -> in_flight t = true -> mu_held s = false.
Proof.
  intros I Et Hf. destruct (mu_held s) eqn:Emu; [exfalso|reflexivity].
  destruct (stop_called s && negb (stopped_ch s)) eqn:Esc.
  - pose proof (i_active _ _ _ I) as Ha. rewrite Esc in Ha. cbn in Ha.
    destruct (exists_of_count active (sthreads s)) as (j & th & Ej & Hact); [lia|].
    pose proof (i_phase _ _ _ I j th Ej Hact) as P. rewrite Emu in P.
    assert (Hc : g_closers_at (gh s) <> None).
    { unfold active in Hact. destruct (sp th); cbn in P;
        try (rewrite andb_false_r in Hact; discriminate); intuition discriminate. }
    destruct (i_ghost _ _ _ I) as (_ & _ & _ & _ & _ & _ & GG & GH & GI & _).
    destruct (g_closers_at (gh s)) as [tc|] eqn:Ec; [|congruence].
    destruct (GI tc eq_refl) as (tw & Ew & _). destruct (GH tw Ew) as (ts & Es & _).
    destruct (GG ts Es) as (d & Ed & _). destruct (i_drained _ _ _ I d Ed) as (_ & N & _).
    pose proof (count_pos_of in_flight _ _ _ Et Hf). rewrite (i_num _ _ _ I) in N. lia.
  - destruct (i_idle _ _ _ I Esc) as (M & _). congruence.
Qed.

Lemma flush n : forall s, reachable caps s -> bodies_over s -> meas s <= n ->
  exists ls s', steps s ls = Some s' /\ reachable caps s' /\ drained s' /\ threads_rel s s' /\
                stop_called s' = stop_called s /\ mu_held s' = mu_held s.
Proof.
  induction n as [|n IH]; intros s R (Bt & Bw) Hm.
  - (* nothing left *)
    exists [], s. split; [reflexivity|]. split; [exact R|]. split; [|split; [|split; reflexivity]].
    + unfold meas in Hm. assert (Z1 : msum tmeas (tasks s) = 0) by lia. assert (Z2 : msum wmeas (workers s) = 0) by lia.
      split.
      * pose proof (msum_zero _ _ Z1) as F. rewrite Forall_forall in *. intros t Hin.
        specialize (F t Hin). specialize (Bt t Hin). unfold tmeas in F. unfold task_body_over in Bt. unfold task_settled.
        destruct (pc t); try discriminate; reflexivity.
      * pose proof (msum_zero _ _ Z2) as F. rewrite Forall_forall in *. intros w Hin.
        specialize (F w Hin). specialize (Bw w Hin). unfold wmeas in F. unfold worker_body_over in Bw. unfold worker_gone.
        destruct (wp w); try discriminate; reflexivity.
    + intros j th E. exists th. split; [exact E | apply th_rel_refl].
  - pose proof (reachable_inv caps s R) as I.
    assert (Hstep : forall l s1, step s l = Next s1 -> bodies_over s1 -> meas s1 <= n -> threads_rel s s1 ->
                                 stop_called s1 = stop_called s -> mu_held s1 = mu_held s ->
              exists ls s', steps s ls = Some s' /\ reachable caps s' /\ drained s' /\ threads_rel s s' /\
                            stop_called s' = stop_called s /\ mu_held s' = mu_held s).
    { intros l s1 E B1 M1 T1 C1 U1.
      destruct (IH s1 (reach_step caps s l s1 R E) B1 M1) as (ls & s' & H1 & H2 & H3 & H4 & H5 & H6).
      exists (l :: ls), s'. cbn. rewrite E. split; [exact H1|]. split; [exact H2|]. split; [exact H3|].
      split; [eapply threads_rel_trans; eauto|]. split; congruence. }
    destruct (Nat.eq_dec (msum tmeas (tasks s)) 0) as [Zt|Nt].
    + destruct (Nat.eq_dec (msum wmeas (workers s)) 0) as [Zw|Nw].
      * apply (IH s R (conj Bt Bw)). unfold meas. lia.
      * (* a worker has returned but not yet called stop.Done() *)
        destruct (msum_pos wmeas (workers s)) as (w & wk & Ew & Hw); [lia|].
        assert (Ep : wp wk = WBodyDone) by (unfold wmeas in Hw; destruct (wp wk); try lia; reflexivity).
        assert (L : worker_live wk = true) by (unfold worker_live; rewrite Ep; reflexivity).
        pose proof (count_pos_of worker_live _ _ _ Ew L) as Hc. pose proof (i_wg _ _ _ I) as Hwg.
        assert (Eg : (wg s <=? 0)%Z = false) by (apply Z.leb_gt; lia).
        eapply (Hstep (LWorkerDone w)).
        -- unfold step; cbn [step0]. rewrite Ew, Ep, Eg. reflexivity.
        -- split; [exact Bt|]. cbn. apply Forall_upd; [exact Bw | reflexivity].
        -- unfold meas in *. cbn.
           match goal with |- context [upd _ _ ?x] => set (x' := x); pose proof (msum_upd wmeas _ _ _ x' Ew) as Hu end.
           assert (A1 : wmeas wk = 1) by (unfold wmeas; rewrite Ep; reflexivity).
           assert (A2 : wmeas x' = 0) by reflexivity. rewrite A1, A2 in Hu. lia.
        -- intros j th E. exists th. split; [exact E | apply th_rel_refl].
        -- reflexivity.
        -- reflexivity.
    + destruct (msum_pos tmeas (tasks s)) as (i & t & Et & Ht); [lia|].
      pose proof (Forall_nth _ _ _ _ (i_tasks _ _ _ I) Et) as Hok.
      destruct (pc t) eqn:Ep; unfold tmeas in Ht; rewrite Ep in Ht; try lia.
      * (* f returned, the slot is still held: <-sem *)
        unfold task_ok in Hok; rewrite Ep in Hok. destruct Hok as (Hl & _).
        destruct (sem_of (tk t)) as [k|] eqn:Ek; [|destruct (tk t); discriminate].
        pose proof (Forall_nth _ _ _ _ (semswf_reachable caps s R) Et k Ek) as Hk.
        destruct (nth_error (sems s) k) as [[cap len]|] eqn:Es; [|apply nth_error_None in Es; lia].
        assert (Hh : holds_slot_of k t = true).
        { unfold holds_slot_of, holds_slot. rewrite Hl, Ep, Ek, Nat.eqb_refl. reflexivity. }
        destruct (release_never_blocks caps s i t k cap len R Et Hh Es) as (sm' & Ed).
        eapply (Hstep (LSemRelease i)).
        -- unfold step; cbn [step0]; unfold with_task. rewrite Et, Ep, Ek, Ed. reflexivity.
        -- split; [|exact Bw]. cbn. apply Forall_upd; [exact Bt | reflexivity].
        -- unfold meas in *. cbn.
           pose proof (msum_upd tmeas _ _ _ (with_pc t TPost) Et) as Hu.
           assert (A1 : tmeas t = 2) by (unfold tmeas; rewrite Ep; reflexivity).
           assert (A2 : tmeas (with_pc t TPost) = 1) by reflexivity. rewrite A1, A2 in Hu. lia.
        -- intros j th E. exists th. split; [exact E | apply th_rel_refl].
        -- reflexivity.
        -- reflexivity.
      * (* runPostlude *)
        assert (Hf : in_flight t = true) by (unfold in_flight; rewrite Ep; reflexivity).
        pose proof (mu_free_if_in_flight s i t I Et Hf) as Hmu.
        eapply (Hstep (LPostlude i)).
        -- unfold step; cbn [step0]; unfold with_task. rewrite Et, Ep, Hmu. reflexivity.
        -- split; [|exact Bw]. cbn. apply Forall_upd; [exact Bt | reflexivity].
        -- unfold meas in *. cbn.
           match goal with |- context [upd _ _ ?x] => set (x' := x); pose proof (msum_upd tmeas _ _ _ x' Et) as Hu end.
           assert (A1 : tmeas t = 1) by (unfold tmeas; rewrite Ep; reflexivity).
           assert (A2 : tmeas x' = 0) by reflexivity. rewrite A1, A2 in Hu. lia.
        -- intros j th E. cbn. exists (wake th). split; [|apply th_rel_wake].
           rewrite nth_error_map, E. reflexivity.
        -- reflexivity.
        -- reflexivity.
Qed.

(** Once every task function and every worker function has returned (or
    panicked) and no call is on its way in, the Stop call that does the work
    reaches "stopped" and returns. *)
Theorem stop_returns_when_bodies_over s j th :
  reachable caps s -> bodies_over s -> nth_error (sthreads s) j = Some th -> s_is_stop th = true ->
  (sp th = SEnter -> stop_called s = false /\ mu_held s = false) ->
  sp th <> SReturned ->
  finishes s j.
Proof.
  intros R B Ej Hst Hent Hnr.
  destruct (flush (meas s) s R B (le_n _)) as (ls & s1 & H1 & R1 & D1 & T1 & C1 & U1).
  destruct (T1 j th Ej) as (th1 & E1 & (S1 & S2)).
  assert (F : finishes s1 j).
  { eapply (stop_returns caps s1 j th1 R1 D1 E1); [congruence| |].
    - intros E. destruct S2 as [S2|[S2 S3]]; [|congruence].
      rewrite E in S2. destruct (Hent (eq_sym S2)). split; congruence.
    - intros E. destruct S2 as [S2|[S2 S3]]; congruence. }
  destruct F as (ls2 & s2 & H2 & D2). exists (ls ++ ls2), s2. split; [|exact D2].
  clear - H1 H2. revert s H1. induction ls as [|l ls IH]; intros s H1; cbn in *.
  - inversion H1; subst; exact H2.
  - destruct (step s l); try discriminate. apply IH; exact H1.
Qed.

End Flush.
