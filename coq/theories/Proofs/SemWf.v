From Shk Require Import Base.Prelude Model.Stopper Proofs.StopperProofs.
Open Scope nat_scope.

Definition sem_ok (n : nat) (t : task) : Prop :=
  forall k, sem_of (tk t) = Some k -> k < n.

Definition SemsWf (s : st) : Prop := Forall (sem_ok (length (sems s))) (tasks s).

Lemma sem_inc_len s k l : sem_inc s k = Some l -> length l = length (sems s).
Proof.
  unfold sem_inc. destruct (nth_error (sems s) k) as [[c n]|]; [|discriminate].
  destruct (n <? c); [|discriminate]. intros H; inversion H. apply length_upd.
Qed.
Lemma sem_dec_len s k l : sem_dec s k = Some l -> length l = length (sems s).
Proof.
  unfold sem_dec. destruct (nth_error (sems s) k) as [[c [|n]]|]; try discriminate.
  intros H; inversion H. apply length_upd.
Qed.

Lemma semswf_step0 s l s' : SemsWf s -> step0 s l = Next s' -> SemsWf s'.
Proof.
  unfold SemsWf. intros W E.
  assert (Hupd : forall n i t0 x, n = length (sems s) ->
                   nth_error (tasks s) i = Some t0 -> tk x = tk t0 ->
                   Forall (sem_ok n) (upd (tasks s) i x)).
  { intros n i t0 x -> E0 Etk. apply Forall_upd; [exact W|].
    pose proof (Forall_nth _ _ _ _ W E0) as H0. unfold sem_ok in *. rewrite Etk. exact H0. }
  destruct l; cbn [step0] in E; unfold with_task, with_thread, end_body in E;
    repeat match type of E with
           | context [match ?x with _ => _ end] => destruct x eqn:?; try discriminate
           end;
    inversion E; subst; clear E;
    try (unfold quiesce_test, quiesce_finish;
         repeat match goal with |- context [if ?b then _ else _] => destruct b end);
    simp_st; try exact W;
    try (eapply Hupd;
         [first [reflexivity | eapply sem_inc_len; eassumption | eapply sem_dec_len; eassumption]
         | eassumption | reflexivity]).
  all: try (apply Forall_app1; [exact W|]; unfold sem_ok, new_task; cbn; intros k0 Hk; inversion Hk; subst;
            apply nth_error_Some; congruence).
  all: try (apply Forall_app1; [exact W|]; unfold sem_ok, new_task; cbn; discriminate).

Qed.

Lemma semswf_reachable caps s : reachable caps s -> SemsWf s.
Proof.
  induction 1 as [|s l s' R IH E].
  - unfold SemsWf, init; cbn. constructor.
  - unfold step in E. destruct (step0 s l) as [s1| |] eqn:E0; try discriminate.
    inversion E; subst. pose proof (semswf_step0 _ _ _ IH E0) as W. exact W.
Qed.
