(** Lemmas about Model/Reader.v: the reader and the parse loop never panic,
    terminate within [fuel_bound], name only positions that exist, refuse an
    eleventh nested file, search includes next to the includer first, and
    deliver the lines of an included file in place of the clause. *)
From Shk Require Import Base.Prelude Model.ParseSmall Proofs.ParseSmallProofs Model.Reader.
Open Scope Z_scope.

(** * The continuation loop *)

(** The logical line denoted by a run of physical lines: every line but the
    last loses its backslash-newline for a newline; the last loses its
    newline. *)
Fixpoint join_cont (ls : list bs) : bs :=
  match ls with
  | [] => []
  | [l] => trim_suffix l s_nl
  | l :: tl => firstn (length l - 2) l ++ s_nl ++ join_cont tl
  end.

Lemma zslice_prefix (l : bs) : (2 <= length l)%nat -> zslice l 0 (zlen l - 2) = Some (firstn (length l - 2) l).
Proof.
  intros H. unfold zslice, zlen.
  destruct (0 <=? 0) eqn:A; [|lia]. destruct (0 <=? Z.of_nat (length l) - 2) eqn:B; [|lia].
  destruct (Z.of_nat (length l) - 2 <=? Z.of_nat (length l)) eqn:C; [|lia]. cbn [andb].
  replace (Z.to_nat 0) with 0%nat by reflexivity. cbn [skipn].
  replace (Z.to_nat (Z.of_nat (length l) - 2 - 0)) with (length l - 2)%nat by lia. reflexivity.
Qed.

(** What the loop does: it consumes a non-empty run [added] of physical lines
    (or records one empty line at end of file), appends them to [lines], and
    produces the logical line they denote. *)
Lemma rl_loop_spec : forall rest line lines lineno,
  match rl_loop rest line lines lineno with
  | LPanic => False
  | LDone l eof lines' lineno' rest' =>
      exists added, added <> [] /\ lines' = lines ++ added /\ lineno' = lineno + zlen added /\
        ((rest = [] /\ rest' = [] /\ added = [[]] /\ line = [] /\ l = [] /\ eof = true) \/
         (rest = added ++ rest' /\ l = line ++ join_cont added))
  | LEOFCont lines' lineno' rest' =>
      exists added, added <> [] /\ lines' = lines ++ added /\ lineno' = lineno + zlen added /\
        (line = [] -> rest <> [])
  end.
Proof.
  induction rest as [|l tl IH]; intros line lines lineno; cbn [rl_loop].
  - destruct line as [|c line'].
    + exists [[]]. repeat split; try discriminate; auto. left. auto 10.
    + exists [[]]. repeat split; try discriminate; auto.
  - destruct (has_suffix l s_bsnl) eqn:Hs.
    + pose proof (has_suffix_length _ _ Hs) as Hl. cbn in Hl.
      rewrite (zslice_prefix l Hl).
      specialize (IH (line ++ firstn (length l - 2) l ++ s_nl) (lines ++ [l]) (lineno + 1)).
      destruct (rl_loop tl (line ++ firstn (length l - 2) l ++ s_nl) (lines ++ [l]) (lineno + 1))
        as [l' eof lines' lineno' rest'|lines' lineno' rest'|]; [| |exact IH].
      * destruct IH as (added & Hne & -> & -> & Hc). exists (l :: added).
        split; [discriminate|]. split; [now rewrite <- app_assoc|]. split; [rewrite zlen_cons; lia|].
        right. destruct Hc as [(-> & -> & -> & Hline & _ & _)|(-> & ->)].
        -- exfalso. destruct line; cbn in Hline; [destruct (firstn _ l); discriminate|discriminate].
        -- split; [reflexivity|]. cbn [join_cont]. destruct added as [|a added']; [congruence|].
           now rewrite <- !app_assoc.
      * destruct IH as (added & Hne & -> & -> & _). exists (l :: added).
        split; [discriminate|]. split; [now rewrite <- app_assoc|]. split; [rewrite zlen_cons; lia|].
        discriminate.
    + destruct (negb (ends_nl l) && nonempty line) eqn:He.
      * exists [l]. split; [discriminate|]. split; [reflexivity|]. split; [reflexivity|]. discriminate.
      * exists [l]. split; [discriminate|]. split; [reflexivity|]. split; [reflexivity|].
        right. split; reflexivity.
Qed.

(** * pos.wrapErr *)

Lemma wrap_err_some k n r ps : 1 <= n <= zlen (sr_lines r) ->
  exists ctx, wrap_err k n r ps =
    Some {| d_kind := k; d_pos := Some (sr_file r, n); d_context := ctx; d_chain := chain_of r ps |}.
Proof.
  intros H. unfold wrap_err. set (lines := sr_lines r) in *. set (i := n - 1).
  set (cls := if 0 <? i then Z.max 0 (i - 2) else i).
  assert (0 <= cls <= i) as Hcls by (unfold cls; destruct (0 <? i) eqn:E; lia).
  assert (exists b, (if cls <? i then zslice lines cls i else Some []) = Some b) as [b ->].
  { destruct (cls <? i); [apply zslice_some; lia|eauto]. }
  destruct (zidx_some lines i ltac:(unfold i; lia)) as [cur ->].
  set (cle := if i <? zlen lines - 1 then Z.min (zlen lines - 1) (i + 2) else i).
  assert (i <= cle <= zlen lines - 1) as Hcle by (unfold cle; destruct (i <? zlen lines - 1) eqn:E; unfold i in *; lia).
  assert (exists a, (if i <? cle then zslice lines (i + 1) (cle + 1) else Some []) = Some a) as [a ->].
  { destruct (i <? cle) eqn:E; [apply zslice_some; unfold i in *; lia|eauto]. }
  eauto.
Qed.

(** * Invariant of one subreader: line numbers count the recorded lines *)

Definition sr_ok (r : subreader) : Prop := sr_lineno r = zlen (sr_lines r) + 1.

Lemma mk_sub_ok f c d : sr_ok (mk_sub f c d).
Proof. reflexivity. Qed.

Lemma search_path_ok fs f ps r : search_path fs f ps = OpOk r -> sr_ok r /\ sr_lines r = [].
Proof.
  induction ps as [|p ps IH]; cbn; [discriminate|].
  destruct (fs_open fs (path_join p f)); try discriminate; auto; intros [= <-]; split; reflexivity.
Qed.

Lemma open_sub_ok fs f ps r : open_sub fs f ps = OpOk r -> sr_ok r /\ sr_lines r = [].
Proof.
  unfold open_sub. destruct (bytes_eqb f s_dash); [intros [= <-]; split; reflexivity|apply search_path_ok].
Qed.

(** What one call does to the top reader. *)
Definition same_source (r r' : subreader) : Prop :=
  sr_file r' = sr_file r /\ sr_isdir r' = sr_isdir r /\ sr_included_at r' = sr_included_at r.

Record advanced (r r' : subreader) (added : list bs) : Prop := {
  adv_src : same_source r r';
  adv_ok : sr_ok r';
  adv_lines : sr_lines r' = sr_lines r ++ added;
  adv_ne : added <> []
}.

Lemma advanced_pos r r' added : sr_ok r -> advanced r r' added -> 1 <= sr_lineno r <= zlen (sr_lines r').
Proof.
  intros Hok [_ _ Hl Hne]. rewrite Hl, zlen_app. unfold sr_ok in Hok. rewrite Hok.
  pose proof (zlen_nonneg (sr_lines r)). destruct added; [congruence|]. rewrite zlen_cons. pose proof (zlen_nonneg added). lia.
Qed.

(** The complete case analysis of [read_top], with everything later proofs
    need. *)
Lemma read_top_spec fs ip pv r ps : sr_ok r ->
  match read_top fs ip pv r ps with
  | TPanic => False
  | TLine l n r' =>
      n = sr_lineno r /\ sr_isdir r = false /\
      exists added, advanced r r' added /\ sr_rest r = added ++ sr_rest r' /\
                    l = trim_space (join_cont added) /\ ignore_line l = false
  | TSkip r' =>
      sr_isdir r = false /\
      exists added, advanced r r' added /\ sr_rest r = added ++ sr_rest r'
  | TPop => sr_isdir r = false /\ ps <> []
  | TStop r' =>
      sr_isdir r = false /\ ps = [] /\
      exists added, advanced r r' added /\
        ((sr_rest r = [] /\ sr_rest r' = [] /\ added = [[]]) \/ sr_rest r = added ++ sr_rest r')
  | TPush r' c =>
      sr_isdir r = false /\ zlen (r :: ps) < max_depth /\
      exists added, advanced r r' added /\ sr_rest r = added ++ sr_rest r' /\
        exists fname0 fname c0,
          strip_prefix kw_include (trim_space (join_cont added)) = Some fname0 /\
          preproc pv fname0 = PpOk fname /\
          open_sub fs fname (path_dir (sr_file r) :: ip) = OpOk c0 /\
          c = set_included_at c0 (sr_lineno r)
  | TErr k n r' =>
      n = sr_lineno r /\ exists added, advanced r r' added /\
        ((k = EReadError /\ sr_isdir r = true /\ added = [[]]) \/
         (k <> EReadError /\ sr_isdir r = false /\ sr_rest r <> [] /\
          (k = EDepth -> max_depth <= zlen (r :: ps))))
  end.
Proof.
  intros Hok. unfold read_top.
  destruct (sr_isdir r) eqn:Hd.
  - split; [reflexivity|]. exists [[]]. split.
    + constructor; cbn; [repeat split; auto| |reflexivity|discriminate].
      unfold sr_ok in *. cbn. rewrite zlen_app, Hok. reflexivity.
    + left. auto.
  - pose proof (rl_loop_spec (sr_rest r) [] (sr_lines r) (sr_lineno r)) as L.
    destruct (rl_loop (sr_rest r) [] (sr_lines r) (sr_lineno r)) as [l eof lines' lineno' rest'|lines' lineno' rest'|];
      [| |exact L].
    + destruct L as (added & Hne & -> & -> & Hc).
      set (r' := {| sr_file := sr_file r; sr_lineno := sr_lineno r + zlen added; sr_lines := sr_lines r ++ added;
                    sr_rest := rest'; sr_isdir := false; sr_included_at := sr_included_at r |}).
      assert (advanced r r' added) as Hadv.
      { constructor; cbn; [repeat split; auto| |reflexivity|exact Hne].
        unfold sr_ok in *. cbn. rewrite zlen_app, Hok. lia. }
      destruct Hc as [(Hr & -> & -> & _ & -> & ->)|(Hr & ->)].
      * (* end of file, nothing read *)
        cbn [app]. change (trim_space []) with (@nil byte). cbn [andb ignore_line].
        destruct ps as [|p ps']; [|split; [reflexivity|discriminate]].
        split; [reflexivity|]. split; [reflexivity|]. exists [[]]. split; [exact Hadv|]. left. auto.
      * cbn [app].
        destruct (eof && ignore_line (trim_space (join_cont added))) eqn:E1.
        -- destruct ps as [|p ps']; [|split; [reflexivity|discriminate]].
           split; [reflexivity|]. split; [reflexivity|]. exists added. split; [exact Hadv|]. right. exact Hr.
        -- destruct (ignore_line (trim_space (join_cont added))) eqn:E2.
           ++ split; [reflexivity|]. exists added. split; [exact Hadv|]. exact Hr.
           ++ destruct (strip_prefix kw_include (trim_space (join_cont added))) as [fname0|] eqn:Ei.
              ** destruct (max_depth <=? zlen (r :: ps)) eqn:Ed.
                 --- split; [reflexivity|]. exists added. split; [exact Hadv|]. right.
                     split; [discriminate|]. split; [reflexivity|]. split; [rewrite Hr; destruct added; [congruence|discriminate]|]. intros _. lia.
                 --- destruct (preproc pv fname0) as [fname|ns|] eqn:Ep.
                     +++ destruct (open_sub fs fname _) as [c0| |] eqn:Eo.
                         *** split; [reflexivity|]. split; [lia|]. exists added. split; [exact Hadv|]. split; [exact Hr|].
                             exists fname0, fname, c0. repeat split; auto.
                         *** split; [reflexivity|]. exists added. split; [exact Hadv|]. right.
                             split; [discriminate|]. split; [reflexivity|]. split; [rewrite Hr; destruct added; [congruence|discriminate]|]. discriminate.
                         *** split; [reflexivity|]. exists added. split; [exact Hadv|]. right.
                             split; [discriminate|]. split; [reflexivity|]. split; [rewrite Hr; destruct added; [congruence|discriminate]|]. discriminate.
                     +++ split; [reflexivity|]. exists added. split; [exact Hadv|]. right.
                         split; [discriminate|]. split; [reflexivity|]. split; [rewrite Hr; destruct added; [congruence|discriminate]|]. discriminate.
                     +++ exact (preproc_no_panic _ _ Ep).
              ** split; [reflexivity|]. split; [reflexivity|]. exists added. auto.
    + destruct L as (added & Hne & -> & -> & Hc).
      split; [reflexivity|]. exists added. split.
      * constructor; cbn; [repeat split; auto| |reflexivity|exact Hne].
        unfold sr_ok in *. cbn. rewrite zlen_app, Hok. lia.
      * right. split; [discriminate|]. split; [reflexivity|]. split; [auto|discriminate].
Qed.

(** * What a position must name *)

Definition line_exists (fs : fsys) (f : bs) (n : Z) : Prop :=
  exists content, fs_open fs f = OFile content /\ 1 <= n <= zlen (phys_lines content).

(** A reader's recorded lines are the physical lines of its file read so
    far (plus one empty entry per read at end of file); a directory reader has
    read nothing yet. *)
Definition sr_src (fs : fsys) (r : subreader) : Prop :=
  if sr_isdir r then fs_open fs (sr_file r) = ODir /\ sr_lines r = []
  else exists content consumed j,
      (content = [] \/ fs_open fs (sr_file r) = OFile content) /\
      phys_lines content = consumed ++ sr_rest r /\
      sr_lines r = consumed ++ repeat [] j /\ (sr_rest r <> [] -> j = 0%nat).

Lemma sr_src_line fs r : sr_ok r -> sr_src fs r -> sr_isdir r = false -> sr_rest r <> [] ->
  line_exists fs (sr_file r) (sr_lineno r).
Proof.
  intros Hok Hs Hd Hr. unfold sr_src in Hs. rewrite Hd in Hs.
  destruct Hs as (content & consumed & j & Hc & Hp & Hl & Hj). specialize (Hj Hr). subst j.
  cbn in Hl. rewrite app_nil_r in Hl.
  destruct Hc as [->|Hc].
  - cbn in Hp. destruct consumed; [|discriminate]. cbn in Hp. congruence.
  - exists content. split; [exact Hc|]. unfold sr_ok in Hok. rewrite Hok, Hl, Hp, zlen_app.
    pose proof (zlen_nonneg consumed). destruct (sr_rest r) as [|x xs]; [congruence|]. rewrite zlen_cons. pose proof (zlen_nonneg xs). lia.
Qed.

Lemma sr_src_advance fs r r' added : sr_src fs r -> sr_isdir r = false -> advanced r r' added ->
  sr_rest r = added ++ sr_rest r' -> sr_src fs r'.
Proof.
  intros Hs Hd [(Hf & Hd' & _) _ Hl Hne] Hr. unfold sr_src in *. rewrite Hd', Hd. rewrite Hd in Hs.
  destruct Hs as (content & consumed & j & Hc & Hp & Hl0 & Hj).
  assert (sr_rest r <> []) as Hrne by (rewrite Hr; destruct added; [congruence|discriminate]).
  specialize (Hj Hrne). subst j. cbn in Hl0. rewrite app_nil_r in Hl0.
  exists content, (consumed ++ added), 0%nat. rewrite Hf. split; [exact Hc|]. split; [rewrite Hp, Hr, app_assoc; reflexivity|].
  split; [rewrite Hl, Hl0; cbn; now rewrite app_nil_r|reflexivity].
Qed.

Lemma sr_src_eof fs r r' : sr_src fs r -> sr_isdir r = false -> advanced r r' [[]] ->
  sr_rest r = [] -> sr_rest r' = [] -> sr_src fs r'.
Proof.
  intros Hs Hd [(Hf & Hd' & _) _ Hl _] Hr Hr'. unfold sr_src in *. rewrite Hd', Hd. rewrite Hd in Hs.
  destruct Hs as (content & consumed & j & Hc & Hp & Hl0 & Hj).
  exists content, consumed, (S j). rewrite Hf, Hr'. rewrite Hr in Hp. split; [exact Hc|]. split; [exact Hp|].
  split; [|congruence]. rewrite Hl, Hl0, <- app_assoc. f_equal.
  clear. induction j; cbn; [reflexivity|]. now rewrite IHj.
Qed.

Lemma phys_lines_aux_length s : forall cur, (length (phys_lines_aux s cur) <= length s + (match cur with [] => 0 | _ => 1 end))%nat.
Proof.
  induction s as [|c s IH]; intros cur; cbn.
  - destruct cur; cbn; lia.
  - destruct (Byte.eqb c x_nl).
    + cbn. specialize (IH []). cbn in IH. destruct cur; lia.
    + specialize (IH (c :: cur)). cbn in IH. destruct cur; lia.
Qed.

Lemma phys_lines_length s : (length (phys_lines s) <= length s)%nat.
Proof. unfold phys_lines. pose proof (phys_lines_aux_length s []). cbn in H. lia. Qed.

Lemma assoc_bs_in {A} (l : list (bs * A)) k v : assoc_bs l k = Some v -> exists k', In (k', v) l.
Proof.
  induction l as [|[k' v'] l IH]; cbn; [discriminate|].
  destruct (bytes_eqb k' k); [intros [= ->]; eauto|]. intros H. destruct (IH H) as [k'' Hin]. eauto.
Qed.

Lemma fs_walk_file fs : forall comps cur c, fs_walk fs cur comps = OFile c -> exists k, In (k, c) (fs_files fs).
Proof.
  induction comps as [|x comps IH]; intros cur c; cbn; [discriminate|].
  destruct (255 <? zlen x); [discriminate|].
  unfold fs_node. destruct (assoc_bs (fs_files fs) (child_path cur x)) as [content|] eqn:A.
  - destruct comps; [|discriminate]. intros [= ->]. eapply assoc_bs_in; eauto.
  - destruct (existsb (bytes_eqb (child_path cur x)) (fs_dirs fs)); [|discriminate]. apply IH.
Qed.

Lemma fs_open_file_len fs p c : fs_open fs p = OFile c -> (length c <= max_file_len fs)%nat.
Proof.
  unfold fs_open. destruct (byte_in x00 p); [discriminate|]. destruct (4096 <=? zlen p); [discriminate|].
  destruct (is_rooted p); [|discriminate]. intros H. apply fs_walk_file in H as [k Hin].
  unfold max_file_len. induction (fs_files fs) as [|[k' c'] l IH]; [destruct Hin|].
  cbn. destruct Hin as [[= -> ->]|Hin]; [lia|]. specialize (IH Hin). lia.
Qed.

Definition units (r : subreader) : nat := S (length (sr_rest r)).

Definition fresh (fs : fsys) (c : subreader) : Prop :=
  sr_ok c /\ sr_lines c = [] /\ sr_src fs c /\ (units c <= 2 + max_file_len fs)%nat.

Lemma search_path_fresh fs f ps r : search_path fs f ps = OpOk r -> fresh fs r.
Proof.
  induction ps as [|p ps IH]; cbn; [discriminate|].
  destruct (fs_open fs (path_join p f)) as [content| | |] eqn:E; try discriminate; auto.
  - intros [= <-]. split; [reflexivity|]. split; [reflexivity|]. split.
    + unfold sr_src. cbn. exists content, [], 0%nat. auto.
    + unfold units. cbn. pose proof (phys_lines_length content). pose proof (fs_open_file_len _ _ _ E). lia.
  - intros [= <-]. split; [reflexivity|]. split; [reflexivity|]. split.
    + unfold sr_src. cbn. auto.
    + unfold units. cbn. lia.
Qed.

Lemma open_sub_fresh fs f ps r : open_sub fs f ps = OpOk r -> fresh fs r.
Proof.
  unfold open_sub. destruct (bytes_eqb f s_dash); [|apply search_path_fresh].
  intros [= <-]. split; [reflexivity|]. split; [reflexivity|]. split.
  - unfold sr_src. cbn. exists [], [], 0%nat. auto.
  - unfold units. cbn. lia.
Qed.

Lemma fresh_included fs c n : fresh fs c -> fresh fs (set_included_at c n).
Proof. intros (A & B & C & D). repeat split; auto. Qed.

(** * The stack of readers *)

Fixpoint chain_ok (fs : fsys) (stack : list subreader) : Prop :=
  match stack with
  | r :: ((p :: _) as ps) => line_exists fs (sr_file p) (sr_included_at r) /\ chain_ok fs ps
  | _ => True
  end.

Lemma chain_ok_chain fs r ps : chain_ok fs (r :: ps) ->
  Forall (fun e => line_exists fs (fst e) (snd e)) (chain_of r ps).
Proof.
  revert r; induction ps as [|p ps IH]; intros r H; cbn; [constructor|].
  destruct H as [H1 H2]. constructor; [exact H1|]. apply IH. exact H2.
Qed.

Lemma chain_ok_top fs r r' ps : sr_included_at r' = sr_included_at r -> chain_ok fs (r :: ps) -> chain_ok fs (r' :: ps).
Proof. intros E. destruct ps; cbn; [auto|]. now rewrite E. Qed.

Lemma chain_ok_parent fs c r r' ps : sr_file r' = sr_file r -> sr_included_at r' = sr_included_at r ->
  line_exists fs (sr_file r) (sr_included_at c) -> chain_ok fs (r :: ps) -> chain_ok fs (c :: r' :: ps).
Proof.
  intros Ef Ei Hl Hc. cbn [chain_ok]. rewrite Ef. split; [exact Hl|]. eapply chain_ok_top; eauto.
Qed.

Fixpoint phi (L : nat) (stack : list subreader) : nat :=
  match stack with
  | [] => 0
  | r :: ps => units r * weight L (10 - length stack) + phi L ps
  end.

Record st_inv (fs : fsys) (stack : list subreader) : Prop := {
  inv_ne : stack <> [];
  inv_ok : Forall sr_ok stack;
  inv_depth : (length stack <= 10)%nat;
  inv_units : Forall (fun r => (units r <= 2 + max_file_len fs)%nat) stack;
  inv_src : Forall (sr_src fs) stack;
  inv_chain : chain_ok fs stack
}.

Lemma weight_pos L k : (1 <= weight L k)%nat.
Proof. destruct k; cbn; lia. Qed.

(** A diagnostic names only positions that exist. *)
Definition diag_truthful (fs : fsys) (d : diag) : Prop :=
  (forall f n, d_pos d = Some (f, n) ->
     line_exists fs f n \/ (d_kind d = EReadError /\ fs_open fs f = ODir /\ n = 1))
  /\ Forall (fun e => line_exists fs (fst e) (snd e)) (d_chain d).

(** Everything about one call of readLine. *)
Lemma read_line_master fs ip pv stack : st_inv fs stack ->
  let L := (2 + max_file_len fs)%nat in
  match read_line fs ip pv stack with
  | (RLPanic, _) => False
  | (RLErr d, _) => diag_truthful fs d
  | (RLLine l n, stack') =>
      st_inv fs stack' /\ (phi L stack' < phi L stack)%nat /\
      exists r' ps, stack' = r' :: ps /\ 1 <= n <= zlen (sr_lines r') /\ line_exists fs (sr_file r') n
  | (RLSkip, stack') => st_inv fs stack' /\ (phi L stack' < phi L stack)%nat
  | (RLStop, stack') => st_inv fs stack' /\ (phi L stack' <= phi L stack)%nat
  end.
Proof.
  intros [Hne Hok Hdep Hun Hsrc Hch] L. unfold read_line.
  destruct stack as [|r ps]; [congruence|].
  inversion Hok as [|? ? Hokr Hokps]; subst. inversion Hun as [|? ? Hunr Hunps]; subst.
  inversion Hsrc as [|? ? Hsrcr Hsrcps]; subst.
  pose proof (read_top_spec fs ip pv r ps Hokr) as T.
  assert (forall r' added, advanced r r' added -> sr_rest r = added ++ sr_rest r' ->
            (units r' < units r)%nat) as Hshrink.
  { intros r' added [_ _ _ Ha] Hr. unfold units. rewrite Hr, app_length. destruct added; [congruence|]. cbn. lia. }
  assert (forall r', (units r' < units r)%nat ->
            (phi L (r' :: ps) < phi L (r :: ps))%nat) as Hphi.
  { intros r' Hu. cbn [phi length]. pose proof (weight_pos L (10 - S (length ps))).
    apply Nat.add_lt_mono_r. apply Nat.mul_lt_mono_pos_r; lia. }
  assert (forall r' added, advanced r r' added -> sr_isdir r = false -> sr_rest r = added ++ sr_rest r' ->
            st_inv fs (r' :: ps)) as Hinv.
  { intros r' added Hadv Hd Hr. pose proof (Hshrink _ _ Hadv Hr). pose proof Hadv as [Hsrc' Hok' Hl' Hne'].
    constructor; [discriminate| | | | |].
    - constructor; auto.
    - exact Hdep.
    - constructor; [lia|auto].
    - constructor; [|auto]. eapply sr_src_advance; eauto.
    - destruct Hsrc' as (_ & _ & Ei). eapply chain_ok_top; eauto. }
  destruct (read_top fs ip pv r ps) as [l n r'|r'| |r'|r' c|k n r'|].
  - (* line *)
    destruct T as (-> & Hd & added & Hadv & Hr & -> & Hig).
    split; [eauto|]. split; [eauto|]. exists r', ps. split; [reflexivity|].
    split; [eapply advanced_pos; eauto|].
    destruct Hadv as [(Ef & _) _ _ Hne']. rewrite Ef. apply sr_src_line; auto.
    rewrite Hr. destruct added; [congruence|discriminate].
  - destruct T as (Hd & added & Hadv & Hr). split; eauto.
  - (* pop *)
    destruct T as (Hd & Hps). split.
    + constructor; auto.
      * cbn in Hdep. lia.
      * destruct ps as [|p ps']; [congruence|]. exact (proj2 Hch).
    + cbn [phi]. pose proof (weight_pos L (10 - length (r :: ps))). unfold units. nia.
  - (* stop *)
    destruct T as (Hd & -> & added & Hadv & [(Hr & Hr' & ->)|Hr]).
    + split.
      * pose proof Hadv as [Hsrc' Hok' Hl' Hne']. constructor; [discriminate| | | | |exact I].
        -- constructor; auto.
        -- exact Hdep.
        -- constructor; [|auto]. unfold units in *. rewrite Hr'. rewrite Hr in Hunr. exact Hunr.
        -- constructor; [|auto]. eapply sr_src_eof; eauto.
      * cbn [phi length]. unfold units. rewrite Hr, Hr'. lia.
    + split; [eauto|]. apply Nat.lt_le_incl. eauto.
  - (* push *)
    destruct T as (Hd & Hlt & added & Hadv & Hr & fname0 & fname & c0 & _ & _ & Ho & ->).
    pose proof (fresh_included fs c0 (sr_lineno r) (open_sub_fresh _ _ _ _ Ho)) as (Fok & Fl & Fsrc & Fu).
    pose proof (Hinv _ _ Hadv Hd Hr) as [_ Hok' _ Hun' Hsrc' Hch'].
    assert (length ps < 9)%nat as Hlen.
    { unfold max_depth in Hlt. rewrite zlen_cons in Hlt. unfold zlen in Hlt. lia. }
    split.
    + constructor; [discriminate| | | | |].
      * constructor; auto.
      * cbn. lia.
      * constructor; auto.
      * constructor; auto.
      * destruct Hadv as [(Ef & _ & Ei) _ _ Hne']. eapply chain_ok_parent; eauto.
        cbn. apply sr_src_line; auto. rewrite Hr. destruct added; [congruence|discriminate].
    + pose proof (Hshrink _ _ Hadv Hr) as Hu.
      cbn [phi length].
      replace (10 - S (length ps))%nat with (S (10 - S (S (length ps))))%nat by lia.
      set (k := (10 - S (S (length ps)))%nat). cbn [weight]. fold L.
      set (W := weight L k).
      set (c := set_included_at c0 (sr_lineno r)) in *.
      assert (units c * W <= L * W)%nat by (apply Nat.mul_le_mono_r; exact Fu).
      assert (units r' * (1 + L * W) + (1 + L * W) <= units r * (1 + L * W))%nat.
      { replace (units r' * (1 + L * W) + (1 + L * W))%nat with (S (units r') * (1 + L * W))%nat by lia.
        apply Nat.mul_le_mono_r. lia. }
      lia.
  - (* error *)
    destruct T as (-> & added & Hadv & Hk).
    pose proof (advanced_pos _ _ _ Hokr Hadv) as Hpos.
    unfold werr. destruct (wrap_err_some k (sr_lineno r) r' ps Hpos) as [ctx ->].
    destruct Hadv as [(Ef & _ & Ei) _ _ _].
    split; cbn.
    + intros f n [= <- <-]. rewrite Ef. destruct Hk as [(-> & Hd & _)|(Hk & Hd & Hr & _)].
      * right. split; [reflexivity|]. unfold sr_src in Hsrcr. rewrite Hd in Hsrcr. destruct Hsrcr as [Ho Hl].
        split; [exact Ho|]. unfold sr_ok in Hokr. rewrite Hokr, Hl. reflexivity.
      * left. apply sr_src_line; auto.
    + apply chain_ok_chain. eapply chain_ok_top; eauto.
  - exact T.
Qed.

(** * parseCfg / parseSection *)

Definition mu (fs : fsys) (st : dstate) : nat :=
  (2 * phi (2 + max_file_len fs) (ds_stack st) + (if ds_insec st then 1 else 0))%nat.

Lemma nopos_truthful fs k : diag_truthful fs (nopos_diag k).
Proof. split; cbn; [discriminate|constructor]. Qed.

Lemma derr_truthful fs k n r' ps :
  st_inv fs (r' :: ps) -> 1 <= n <= zlen (sr_lines r') -> line_exists fs (sr_file r') n ->
  exists d, derr k n (r' :: ps) = SErr d /\ diag_truthful fs d /\
            d_kind d = k /\ d_pos d = Some (sr_file r', n) /\ d_chain d = chain_of r' ps.
Proof.
  intros Hinv Hn Hl. unfold derr, werr. destruct (wrap_err_some k n r' ps Hn) as [ctx ->].
  eexists; split; [reflexivity|]. split; [|auto]. split; cbn.
  - intros f m [= <- <-]. left. exact Hl.
  - apply chain_ok_chain. apply Hinv.
Qed.

Lemma parse_step_master fs ip jd st : st_inv fs (ds_stack st) ->
  match parse_step fs ip jd st with
  | SPanic => False
  | SErr d => diag_truthful fs d
  | SGo st' => st_inv fs (ds_stack st') /\ (mu fs st' < mu fs st)%nat
  | SDone st' => st_inv fs (ds_stack st')
  end.
Proof.
  intros Hinv. unfold parse_step. pose proof (read_line_master fs ip (ds_pv st) (ds_stack st) Hinv) as M. cbv zeta in M.
  destruct (read_line fs ip (ds_pv st) (ds_stack st)) as [res stk].
  destruct res as [l n| | |d|]; [| | |exact M|exact M].
  - (* a logical line *)
    destruct M as (Hinv' & Hphi & r' & ps & -> & Hn & Hl).
    assert (forall pv' b, st_inv fs (ds_stack {| ds_stack := r' :: ps; ds_pv := pv'; ds_insec := b |}) /\
                          (mu fs {| ds_stack := r' :: ps; ds_pv := pv'; ds_insec := b |} < mu fs st)%nat) as Hgo.
    { intros pv' b. split; [exact Hinv'|]. unfold mu. cbn [ds_stack ds_insec]. destruct b, (ds_insec st); lia. }
    assert (forall k, exists d, derr k n (r' :: ps) = SErr d /\ diag_truthful fs d) as Hderr.
    { intros k. destruct (derr_truthful fs k n r' ps Hinv' Hn Hl) as (d & E & Ht & _). eauto. }
    Ltac use_derr H := match goal with |- context [derr ?k _ _] => destruct (H k) as (? & -> & ?); assumption end.
    destruct (ds_insec st) eqn:Hsec.
    + destruct (bytes_eqb l kw_end).
      * destruct (jd _); [apply Hgo|apply nopos_truthful|apply nopos_truthful].
      * destruct (jd _); [apply Hgo|use_derr Hderr|use_derr Hderr].
    + destruct (strip_prefix kw_title l) as [t|].
      * destruct (preproc (ds_pv st) (trim_space t)) eqn:Ep; [apply Hgo|use_derr Hderr|exact (preproc_no_panic _ _ Ep)].
      * destruct (strip_prefix kw_attention l) as [t|].
        -- destruct (preproc (ds_pv st) (trim_space t)) eqn:Ep; [apply Hgo|use_derr Hderr|exact (preproc_no_panic _ _ Ep)].
        -- destruct (has_prefix l kw_author); [apply Hgo|].
           destruct (param_match l) as [[name val]|].
           ++ destruct (jd _); [apply Hgo|use_derr Hderr|use_derr Hderr].
           ++ destruct (is_section_header l); [apply Hgo|].
              destruct (jd _); [apply Hgo|use_derr Hderr|apply nopos_truthful].
  - (* skip *)
    destruct M as (Hinv' & Hphi). split; [exact Hinv'|]. unfold mu. cbn [ds_stack ds_insec]. lia.
  - (* stop *)
    destruct M as (Hinv' & Hphi). destruct (ds_insec st) eqn:Hsec.
    + destruct (jd _); [|apply nopos_truthful|apply nopos_truthful].
      split; [exact Hinv'|]. unfold mu. rewrite Hsec. cbn [ds_stack ds_insec]. lia.
    + exact Hinv'.
Qed.

Lemma parse_loop_master fs ip jd : forall fuel st, st_inv fs (ds_stack st) ->
  match parse_loop fuel fs ip jd st with
  | RPanic => False
  | RErr d => diag_truthful fs d
  | ROk st' => st_inv fs (ds_stack st')
  | ROutOfFuel => (fuel <= mu fs st)%nat
  end.
Proof.
  induction fuel as [|f IH]; intros st Hinv; cbn [parse_loop]; [lia|].
  pose proof (parse_step_master fs ip jd st Hinv) as M.
  destruct (parse_step fs ip jd st) as [st'|st'|d|]; [|exact M|exact M|exact M].
  destruct M as [Hinv' Hmu]. specialize (IH st' Hinv').
  destruct (parse_loop f fs ip jd st'); auto. lia.
Qed.

Lemma open_main_inv fs ip main stk : open_main fs ip main = ROk stk -> st_inv fs stk /\
  (phi (2 + max_file_len fs) stk <= (2 + max_file_len fs) * weight (2 + max_file_len fs) 9)%nat.
Proof.
  unfold open_main. destruct (open_sub fs main ip) as [r| |] eqn:E; try discriminate. intros [= <-].
  destruct (open_sub_fresh _ _ _ _ E) as (Hok & Hl & Hs & Hu). split.
  - constructor; [discriminate| | | | |exact I]; try (constructor; [assumption|constructor]). cbn. lia.
  - cbn [phi length]. replace (10 - 1)%nat with 9%nat by reflexivity.
    rewrite Nat.add_0_r. apply Nat.mul_le_mono_r. exact Hu.
Qed.

Lemma parse_config_master fs ip defs main jd fuel :
  match parse_config fuel fs ip defs main jd with
  | RPanic => False
  | RErr d => diag_truthful fs d
  | ROk st' => st_inv fs (ds_stack st')
  | ROutOfFuel => (fuel < fuel_bound fs)%nat
  end.
Proof.
  unfold parse_config. destruct (parse_defines_no_panic defs) as [pv ->].
  destruct (open_main fs ip main) as [stk|d| |] eqn:Eo.
  - destruct (open_main_inv _ _ _ _ Eo) as [Hinv Hphi].
    pose proof (parse_loop_master fs ip jd fuel {| ds_stack := stk; ds_pv := pv; ds_insec := false |} Hinv) as M.
    destruct (parse_loop fuel fs ip jd _); auto.
    unfold mu in M. cbn [ds_stack ds_insec] in M. unfold fuel_bound. cbv zeta. lia.
  - unfold open_main in Eo. destruct (open_sub fs main ip); try discriminate; injection Eo as <-; apply nopos_truthful.
  - unfold open_main in Eo. destruct (open_sub fs main ip); discriminate.
  - unfold open_main in Eo. destruct (open_sub fs main ip); discriminate.
Qed.

(** The theorems of C09 about the reader. *)
Theorem reader_no_panic : forall fuel fs ip defs main jd, parse_config fuel fs ip defs main jd <> RPanic.
Proof. intros. pose proof (parse_config_master fs ip defs main jd fuel) as M. intros E. now rewrite E in M. Qed.

Theorem reader_total : forall fs ip defs main jd,
  exists fuel, (fuel <= fuel_bound fs)%nat /\ parse_config fuel fs ip defs main jd <> ROutOfFuel.
Proof.
  intros. exists (fuel_bound fs). split; [lia|].
  pose proof (parse_config_master fs ip defs main jd (fuel_bound fs)) as M. intros E. rewrite E in M. lia.
Qed.

Theorem reader_total_any_more_fuel : forall fs ip defs main jd fuel,
  (fuel_bound fs <= fuel)%nat -> parse_config fuel fs ip defs main jd <> ROutOfFuel.
Proof.
  intros. pose proof (parse_config_master fs ip defs main jd fuel) as M. intros E. rewrite E in M. lia.
Qed.

Theorem position_truthful : forall fuel fs ip defs main jd d,
  parse_config fuel fs ip defs main jd = RErr d -> diag_truthful fs d.
Proof. intros. pose proof (parse_config_master fs ip defs main jd fuel) as M. now rewrite H in M. Qed.

(** * A rejected clause is reported at its own file and line *)

Lemma read_top_err_kind fs ip pv r ps k n r' : read_top fs ip pv r ps = TErr k n r' ->
  k <> EClause /\ k <> EClauseNoPos.
Proof.
  unfold read_top.
  repeat match goal with
         | |- context [match ?x with _ => _ end] => destruct x
         | |- context [if ?x then _ else _] => destruct x
         end; intros [= <- _ _]; split; discriminate || (intros ?; discriminate).
Qed.

(** [logical_at fs f n l]: [l] is the logical line that starts at physical
    line [n] of file [f]: the trimmed join of that line and its continuation
    lines. *)
Definition logical_at (fs : fsys) (f : bs) (n : Z) (l : bs) : Prop :=
  exists content consumed added rest,
    fs_open fs f = OFile content /\ phys_lines content = consumed ++ added ++ rest /\
    n = zlen consumed + 1 /\ added <> [] /\ l = trim_space (join_cont added).

Lemma read_line_line fs ip pv r ps l n stack' : st_inv fs (r :: ps) ->
  read_line fs ip pv (r :: ps) = (RLLine l n, stack') ->
  exists r', stack' = r' :: ps /\ sr_file r' = sr_file r /\ chain_of r' ps = chain_of r ps /\
             logical_at fs (sr_file r) n l.
Proof.
  intros [_ Hok _ _ Hsrc _] E. inversion Hok as [|? ? Hokr _]; subst. inversion Hsrc as [|? ? Hsrcr _]; subst.
  unfold read_line in E. pose proof (read_top_spec fs ip pv r ps Hokr) as T.
  destruct (read_top fs ip pv r ps) as [l0 n0 r'|r'| |r'|r' c|k n0 r'|]; try discriminate.
  - injection E as <- <- <-. destruct T as (-> & Hd & added & Hadv & Hr & -> & _).
    exists r'. destruct Hadv as [(Ef & _ & Ei) _ _ Hne]. split; [reflexivity|]. split; [exact Ef|]. split.
    + destruct ps; cbn; [reflexivity|]. now rewrite Ei.
    + unfold sr_src in Hsrcr. rewrite Hd in Hsrcr. destruct Hsrcr as (content & consumed & j & Hc & Hp & Hl & Hj).
      assert (sr_rest r <> []) as Hrne by (rewrite Hr; destruct added; [congruence|discriminate]).
      specialize (Hj Hrne). subst j. cbn in Hl. rewrite app_nil_r in Hl.
      exists content, consumed, added, (sr_rest r'). split.
      * destruct Hc as [->|Hc]; [|exact Hc]. cbn in Hp. destruct consumed; [|discriminate]. cbn in Hp. congruence.
      * split; [rewrite Hp, Hr; reflexivity|]. split; [|auto]. unfold sr_ok in Hokr. rewrite Hokr, Hl. reflexivity.
  - unfold werr in E. destruct (wrap_err k n0 r' ps); discriminate.
Qed.

Theorem clause_at_own_line : forall fs ip jd st d,
  st_inv fs (ds_stack st) -> parse_step fs ip jd st = SErr d -> d_kind d = EClause ->
  exists r ps l n,
    ds_stack st = r :: ps /\ logical_at fs (sr_file r) n l /\
    d_pos d = Some (sr_file r, n) /\ d_chain d = chain_of r ps /\
    exists j, j_line j = l /\ j_file j = sr_file r /\ j_lineno j = n /\ j_chain j = chain_of r ps /\ jd j <> VAccept.
Proof.
  intros fs ip jd st d Hinv E Hk. unfold parse_step in E.
  pose proof (read_line_master fs ip (ds_pv st) (ds_stack st) Hinv) as M. cbv zeta in M.
  destruct (ds_stack st) as [|r ps] eqn:Es; [destruct Hinv; congruence|].
  destruct (read_line fs ip (ds_pv st) (r :: ps)) as [res stk] eqn:Er.
  destruct res as [l n| | |d0|].
  - destruct (read_line_line _ _ _ _ _ _ _ _ Hinv Er) as (r' & -> & Ef & Ec & Hlog).
    destruct M as (Hinv' & _ & r'' & ps'' & [= <- <-] & Hn & Hl).
    exists r, ps, l, n. split; [reflexivity|]. split; [exact Hlog|].
    assert (forall k, k = EClause -> derr k n (r' :: ps) = SErr d ->
              d_pos d = Some (sr_file r, n) /\ d_chain d = chain_of r ps) as Hd.
    { intros k _ Ed. destruct (derr_truthful fs k n r' ps Hinv' Hn Hl) as (d' & Ed' & _ & _ & Hp & Hc).
      rewrite Ed in Ed'. injection Ed' as <-. rewrite Hp, Hc, Ef, Ec. auto. }
    assert (forall k, k <> EClause -> derr k n (r' :: ps) = SErr d -> False) as Hnd.
    { intros k Hne Ed. destruct (derr_truthful fs k n r' ps Hinv' Hn Hl) as (d' & Ed' & _ & Hk' & _).
      rewrite Ed in Ed'. injection Ed' as <-. congruence. }
    cbn [top_file top_chain] in E. rewrite Ef, Ec in E.
    destruct (ds_insec st).
    + destruct (bytes_eqb l kw_end).
      * destruct (jd _); [discriminate| |]; injection E as <-; discriminate.
      * match type of E with context [jd ?j] => set (jj := j) in * end.
        destruct (jd jj) eqn:Ej; [discriminate| |]; (destruct (Hd _ eq_refl E) as [Hp Hc]; split; [exact Hp|]; split; [exact Hc|];
          exists jj; repeat split; auto; congruence).
    + destruct (strip_prefix kw_title l) as [t|].
      * destruct (preproc (ds_pv st) (trim_space t)); [discriminate| |discriminate]. exfalso. eapply Hnd; [|exact E]. discriminate.
      * destruct (strip_prefix kw_attention l) as [t|].
        -- destruct (preproc (ds_pv st) (trim_space t)); [discriminate| |discriminate]. exfalso. eapply Hnd; [|exact E]. discriminate.
        -- destruct (has_prefix l kw_author); [discriminate|].
           destruct (param_match l) as [[name val]|].
           ++ match type of E with context [jd ?j] => set (jj := j) in * end.
              destruct (jd jj) eqn:Ej; [discriminate| |]; (destruct (Hd _ eq_refl E) as [Hp Hc]; split; [exact Hp|]; split; [exact Hc|];
                exists jj; repeat split; auto; congruence).
           ++ destruct (is_section_header l); [discriminate|].
              match type of E with context [jd ?j] => set (jj := j) in * end.
              destruct (jd jj) eqn:Ej; [discriminate| |].
              ** destruct (Hd _ eq_refl E) as [Hp Hc]. split; [exact Hp|]. split; [exact Hc|].
                 exists jj. repeat split; auto; congruence.
              ** injection E as <-. discriminate.
  - discriminate.
  - destruct (ds_insec st); [|discriminate]. destruct (jd _); [discriminate| |]; injection E as <-; discriminate.
  - injection E as <-. exfalso.
    unfold read_line in Er. destruct (read_top fs ip (ds_pv st) r ps) as [? ? ?|?| |?|? ?|k n r'|] eqn:Et; try discriminate.
    destruct (read_top_err_kind _ _ _ _ _ _ _ _ Et) as [Hne _].
    unfold werr in Er. destruct (wrap_err k n r' ps) as [d'|] eqn:Ew; [|discriminate].
    injection Er as <- _. unfold wrap_err in Ew.
    repeat match type of Ew with
           | context [match ?x with _ => _ end] => destruct x; try discriminate
           end.
    injection Ew as <-. cbn in Hk. congruence.
  - discriminate.
Qed.

(** * Nesting deeper than ten files is refused *)

Inductive reach (fs : fsys) (ip : list bs) (jd : judge) : dstate -> dstate -> Prop :=
| reach_refl st : reach fs ip jd st st
| reach_step st st' st'' : parse_step fs ip jd st = SGo st' -> reach fs ip jd st' st'' -> reach fs ip jd st st''.

Lemma reach_inv fs ip jd st st' : reach fs ip jd st st' -> st_inv fs (ds_stack st) -> st_inv fs (ds_stack st').
Proof.
  induction 1 as [|st st' st'' E _ IH]; [auto|]. intros Hinv. apply IH.
  pose proof (parse_step_master fs ip jd st Hinv) as M. rewrite E in M. apply M.
Qed.

Theorem include_depth_bounded : forall fs ip defs main jd pv stk st,
  parse_defines defs = Ok pv -> open_main fs ip main = ROk stk ->
  reach fs ip jd {| ds_stack := stk; ds_pv := pv; ds_insec := false |} st ->
  (1 <= length (ds_stack st) <= 10)%nat.
Proof.
  intros fs ip defs main jd pv stk st _ Eo R.
  destruct (open_main_inv _ _ _ _ Eo) as [Hinv _].
  pose proof (reach_inv _ _ _ _ _ R Hinv) as [Hne _ Hd _ _ _]. split; [|exact Hd].
  destruct (ds_stack st); [congruence|cbn; lia].
Qed.

(** ... and the clause that would open the eleventh is an error there. *)
Theorem include_depth_refused : forall fs ip pv r ps line,
  sr_ok r -> sr_isdir r = false -> (10 <= length (r :: ps))%nat ->
  (exists eof lines lineno rest,
     rl_loop (sr_rest r) [] (sr_lines r) (sr_lineno r) = LDone line eof lines lineno rest /\
     ignore_line (trim_space line) = false /\ has_prefix (trim_space line) kw_include = true) ->
  exists r', read_top fs ip pv r ps = TErr EDepth (sr_lineno r) r'.
Proof.
  intros fs ip pv r ps line Hok Hd Hlen (eof & lines & lineno & rest & El & Hig & Hinc).
  unfold read_top. rewrite Hd, El. rewrite Hig. rewrite andb_false_r.
  unfold has_prefix in Hinc. destruct (strip_prefix kw_include (trim_space line)); [|discriminate].
  assert ((max_depth <=? zlen (r :: ps)) = true) as ->; [|eauto].
  unfold max_depth, zlen. apply Z.leb_le. lia.
Qed.

Lemma read_top_push_depth fs ip pv r ps r' c : sr_ok r -> read_top fs ip pv r ps = TPush r' c -> (length (r :: ps) < 10)%nat.
Proof.
  intros Hok E. pose proof (read_top_spec fs ip pv r ps Hok) as T. rewrite E in T.
  destruct T as (_ & Hlt & _). unfold max_depth, zlen in Hlt. lia.
Qed.

(** * Where an included file is looked for *)

Definition not_there (fs : fsys) (f : bs) (q : bs) : Prop := fs_open fs (path_join q f) = ONotExist.

Lemma search_path_order fs f : forall ps r, search_path fs f ps = OpOk r ->
  exists pre p post, ps = pre ++ p :: post /\ Forall (not_there fs f) pre /\
    sr_file r = path_join p f /\
    ((exists c, fs_open fs (path_join p f) = OFile c /\ sr_rest r = phys_lines c /\ sr_isdir r = false) \/
     (fs_open fs (path_join p f) = ODir /\ sr_isdir r = true)).
Proof.
  induction ps as [|p ps IH]; intros r; cbn; [discriminate|].
  destruct (fs_open fs (path_join p f)) as [c| | |] eqn:E.
  - intros [= <-]. exists [], p, ps. repeat split; auto. left. exists c. auto.
  - intros [= <-]. exists [], p, ps. repeat split; auto.
  - intros H. destruct (IH _ H) as (pre & p' & post & -> & Hpre & Hrest).
    exists (p :: pre), p', post. split; [reflexivity|]. split; [constructor; assumption|exact Hrest].
  - discriminate.
Qed.

Lemma search_path_not_found fs f : forall ps, search_path fs f ps = OpNotFound -> Forall (not_there fs f) ps.
Proof.
  induction ps as [|p ps IH]; cbn; [constructor|].
  destruct (fs_open fs (path_join p f)) eqn:E; try discriminate. intros H. constructor; auto.
Qed.

(** An include clause opens the first of: the includer's directory, then the
    -I directories in order, in which the name exists. *)
Theorem include_search_order : forall fs ip pv r ps r' c,
  sr_ok r -> read_top fs ip pv r ps = TPush r' c ->
  exists fname,
    (fname = s_dash /\ sr_file c = s_stdin) \/
    exists pre p post,
      path_dir (sr_file r) :: ip = pre ++ p :: post /\ Forall (not_there fs fname) pre /\
      sr_file c = path_join p fname /\
      ((exists content, fs_open fs (path_join p fname) = OFile content /\ sr_rest c = phys_lines content) \/
       fs_open fs (path_join p fname) = ODir).
Proof.
  intros fs ip pv r ps r' c Hok E. pose proof (read_top_spec fs ip pv r ps Hok) as T. rewrite E in T.
  destruct T as (_ & _ & added & _ & _ & fname0 & fname & c0 & _ & _ & Ho & ->).
  exists fname. unfold open_sub in Ho. destruct (bytes_eqb fname s_dash) eqn:Ed.
  - left. apply bytes_eqb_eq in Ed. injection Ho as <-. auto.
  - right. destruct (search_path_order _ _ _ _ Ho) as (pre & p & post & Hs & Hpre & Hf & Hc).
    exists pre, p, post. repeat split; auto. destruct Hc as [(content & Hc & Hr & _)|[Hc _]]; [left; eauto|right; auto].
Qed.

Theorem include_not_found : forall fs ip pv r ps n r',
  sr_ok r -> read_top fs ip pv r ps = TErr ENotFound n r' ->
  exists fname, Forall (not_there fs fname) (path_dir (sr_file r) :: ip).
Proof.
  intros fs ip pv r ps n r' Hok. unfold read_top.
  destruct (sr_isdir r); [discriminate|].
  destruct (rl_loop _ _ _ _) as [l eof lines lineno rest| |]; try discriminate.
  destruct (eof && _); [destruct ps; discriminate|]. destruct (ignore_line _); [discriminate|].
  destruct (strip_prefix kw_include _) as [fname0|]; [|discriminate].
  destruct (max_depth <=? _); [discriminate|].
  destruct (preproc pv fname0) as [fname| |]; try discriminate.
  cbn [sr_file]. destruct (open_sub fs fname _) eqn:Eo; try discriminate. intros _.
  exists fname. unfold open_sub in Eo. destruct (bytes_eqb fname s_dash); [discriminate|].
  apply search_path_not_found. exact Eo.
Qed.

(** * `include` reads the named file as if its text stood in place of the clause *)

(** The stack machine [read_all] computes what the recursive descent
    [read_file] computes: whenever reading a file (with everything it
    includes) to its end yields [ls], the stack machine started on that reader
    yields [ls] followed by whatever it yields on the readers below. *)
Lemma read_all_refines_read_file fs ip pv : forall f r ps ls e,
  read_file f fs ip pv r ps = (ls, e) ->
  match e with
  | FFuel => True
  | FPopped => forall g, exists f', read_all (f' + g) fs ip pv (r :: ps) =
                                     (ls ++ fst (read_all g fs ip pv ps), snd (read_all g fs ip pv ps))
  | FStopped => exists f', read_all f' fs ip pv (r :: ps) = (ls, ROk tt)
  | FErr d => exists f', read_all f' fs ip pv (r :: ps) = (ls, RErr d)
  | FPanic => exists f', read_all f' fs ip pv (r :: ps) = (ls, RPanic)
  end.
Proof.
  induction f as [|f IH]; intros r ps ls e; cbn [read_file]; [intros [= <- <-]; exact I|].
  destruct (read_top fs ip pv r ps) as [l n r'|r'| |r'|r' c|k n r'|] eqn:Et.
  - (* a line, then the rest of the file *)
    destruct (read_file f fs ip pv r' ps) as [ls0 e0] eqn:Er. intros [= <- <-].
    specialize (IH _ _ _ _ Er).
    assert (forall x, read_all (S x) fs ip pv (r :: ps) =
                      (mk_lline l n r' ps :: fst (read_all x fs ip pv (r' :: ps)), snd (read_all x fs ip pv (r' :: ps)))) as Hs.
    { intros x. cbn [read_all]. unfold read_line. rewrite Et. destruct (read_all x fs ip pv (r' :: ps)). reflexivity. }
    destruct e0; [| | | |exact I].
    + intros g. destruct (IH g) as [f' E']. exists (S f'). cbn [Nat.add]. rewrite Hs, E'. reflexivity.
    + destruct IH as [f' E']. exists (S f'). rewrite Hs, E'. reflexivity.
    + destruct IH as [f' E']. exists (S f'). rewrite Hs, E'. reflexivity.
    + destruct IH as [f' E']. exists (S f'). rewrite Hs, E'. reflexivity.
  - (* blank or comment *)
    intros Er. specialize (IH _ _ _ _ Er).
    assert (forall x, read_all (S x) fs ip pv (r :: ps) = read_all x fs ip pv (r' :: ps)) as Hs.
    { intros x. cbn [read_all]. unfold read_line. rewrite Et. reflexivity. }
    destruct e; [| | | |exact I].
    + intros g. destruct (IH g) as [f' E']. exists (S f'). cbn [Nat.add]. rewrite Hs. exact E'.
    + destruct IH as [f' E']. exists (S f'). rewrite Hs. exact E'.
    + destruct IH as [f' E']. exists (S f'). rewrite Hs. exact E'.
    + destruct IH as [f' E']. exists (S f'). rewrite Hs. exact E'.
  - (* end of an included file *)
    intros [= <- <-] g. exists 1%nat. cbn [Nat.add read_all]. unfold read_line. rewrite Et.
    destruct (read_all g fs ip pv ps). reflexivity.
  - (* end of the outermost file *)
    intros [= <- <-]. exists 1%nat. cbn [read_all]. unfold read_line. rewrite Et. reflexivity.
  - (* include: the whole file c, then the rest of r *)
    destruct (read_file f fs ip pv c (r' :: ps)) as [ls1 e1] eqn:E1.
    assert (forall x, read_all (S x) fs ip pv (r :: ps) = read_all x fs ip pv (c :: r' :: ps)) as Hs.
    { intros x. cbn [read_all]. unfold read_line. rewrite Et. reflexivity. }
    pose proof (IH _ _ _ _ E1) as IH1.
    destruct e1.
    + destruct (read_file f fs ip pv r' ps) as [ls2 e2] eqn:E2. intros [= <- <-].
      pose proof (IH _ _ _ _ E2) as IH2.
      destruct e2; [| | | |exact I].
      * intros g. destruct (IH2 g) as [f2 X2]. destruct (IH1 (f2 + g)%nat) as [f1 X1].
        exists (S (f1 + f2)). cbn [Nat.add]. rewrite Hs. rewrite <- Nat.add_assoc, X1, X2. cbn [fst snd].
        now rewrite app_assoc.
      * destruct IH2 as [f2 X2]. destruct (IH1 f2) as [f1 X1]. exists (S (f1 + f2)). rewrite Hs, X1, X2. reflexivity.
      * destruct IH2 as [f2 X2]. destruct (IH1 f2) as [f1 X1]. exists (S (f1 + f2)). rewrite Hs, X1, X2. reflexivity.
      * destruct IH2 as [f2 X2]. destruct (IH1 f2) as [f1 X1]. exists (S (f1 + f2)). rewrite Hs, X1, X2. reflexivity.
    + intros [= <- <-]. destruct IH1 as [f1 X1]. exists (S f1). rewrite Hs. exact X1.
    + intros [= <- <-]. destruct IH1 as [f1 X1]. exists (S f1). rewrite Hs. exact X1.
    + intros [= <- <-]. destruct IH1 as [f1 X1]. exists (S f1). rewrite Hs. exact X1.
    + intros [= <- <-]. exact I.
  - (* error *)
    destruct (wrap_err k n r' ps) as [d|] eqn:Ew; intros [= <- <-]; exists 1%nat; cbn [read_all]; unfold read_line; rewrite Et;
      unfold werr; rewrite Ew; reflexivity.
  - intros [= <- <-]. exists 1%nat. cbn [read_all]. unfold read_line. rewrite Et. reflexivity.
Qed.

(** The splice: from an include clause on, the reader delivers the lines of
    the included file — read on its own, with all it includes — and then what
    it delivers from after the clause. *)
Theorem include_is_splice : forall fs ip pv r ps r' c f ls,
  read_top fs ip pv r ps = TPush r' c ->
  read_file f fs ip pv c (r' :: ps) = (ls, FPopped) ->
  forall g, exists f',
    read_all (f' + g) fs ip pv (r :: ps) =
      (ls ++ fst (read_all g fs ip pv (r' :: ps)), snd (read_all g fs ip pv (r' :: ps))).
Proof.
  intros fs ip pv r ps r' c f ls Et Ef g.
  destruct (read_all_refines_read_file fs ip pv f c (r' :: ps) ls FPopped Ef g) as [f' X].
  exists (S f'). cbn [Nat.add read_all]. unfold read_line. rewrite Et. exact X.
Qed.

(** The lines of an included file carry the include chain of the clause. *)
Lemma read_file_positions fs ip pv : forall f r ps ls e,
  read_file f fs ip pv r ps = (ls, e) -> sr_ok r ->
  Forall (fun l => exists k, (length ps <= k)%nat /\ length (ll_chain l) = k) ls.
Proof.
  induction f as [|f IH]; intros r ps ls e; cbn [read_file]; [intros [= <- <-]; constructor|].
  intros E Hok. pose proof (read_top_spec fs ip pv r ps Hok) as T.
  assert (forall r0 ps0, length (chain_of r0 ps0) = length ps0) as Hlen.
  { intros r0 ps0; revert r0; induction ps0; intros; cbn; auto. }
  destruct (read_top fs ip pv r ps) as [l n r'|r'| |r'|r' c|k n r'|] eqn:Et.
  - destruct (read_file f fs ip pv r' ps) as [ls0 e0] eqn:Er. injection E as <- <-.
    destruct T as (_ & _ & added & [_ Hok' _ _] & _). constructor; [|eapply IH; eauto].
    exists (length ps). split; [lia|]. cbn. apply Hlen.
  - destruct T as (_ & added & [_ Hok' _ _] & _). eapply IH; eauto.
  - injection E as <- <-. constructor.
  - injection E as <- <-. constructor.
  - destruct T as (_ & _ & added & [_ Hok' _ _] & _ & fname0 & fname & c0 & _ & _ & Ho & ->).
    destruct (open_sub_ok _ _ _ _ Ho) as [Hokc _].
    destruct (read_file f fs ip pv _ (r' :: ps)) as [ls1 e1] eqn:E1.
    pose proof (IH _ _ _ _ E1 Hokc) as H1.
    assert (Forall (fun l => exists k, (length ps <= k)%nat /\ length (ll_chain l) = k) ls1) as H1'.
    { eapply Forall_impl; [|exact H1]. intros a (k & Hk & Hl). exists k. cbn in Hk. split; [lia|exact Hl]. }
    destruct e1; try (injection E as <- <-; exact H1').
    destruct (read_file f fs ip pv r' ps) as [ls2 e2] eqn:E2. injection E as <- <-.
    apply Forall_app. split; [exact H1'|]. eapply IH; eauto.
  - destruct (wrap_err k n r' ps); injection E as <- <-; constructor.
  - injection E as <- <-. constructor.
Qed.

(** * The clauses the model dispatches itself: which fields are substituted *)

Lemma step_title_attention fs ip jd st l n stk t :
  st_inv fs (ds_stack st) -> ds_insec st = false ->
  read_line fs ip (ds_pv st) (ds_stack st) = (RLLine l n, stk) ->
  (strip_prefix kw_title l = Some t \/ (strip_prefix kw_title l = None /\ strip_prefix kw_attention l = Some t)) ->
  match preproc (ds_pv st) (trim_space t) with
  | PpOk _ => parse_step fs ip jd st = SGo {| ds_stack := stk; ds_pv := ds_pv st; ds_insec := false |}
  | PpUndefined ns => exists d, parse_step fs ip jd st = SErr d /\ d_kind d = EUndefined ns /\
                                d_pos d = Some (top_file stk, n) /\ d_chain d = top_chain stk
  | PpPanic => False
  end.
Proof.
  intros Hinv Hsec Er Ht. unfold parse_step. rewrite Er, Hsec.
  pose proof (read_line_master fs ip (ds_pv st) (ds_stack st) Hinv) as M. cbv zeta in M. rewrite Er in M.
  destruct M as (Hinv' & _ & r' & ps & -> & Hn & Hl).
  assert (match strip_prefix kw_title l, strip_prefix kw_attention l with
          | Some t0, _ | None, Some t0 => t0 = t
          | None, None => False end) as Hm.
  { destruct Ht as [->|[-> ->]]; [|reflexivity]. destruct (strip_prefix kw_attention l); reflexivity. }
  destruct (strip_prefix kw_title l) as [t0|]; [subst t0|destruct (strip_prefix kw_attention l) as [t0|]; [subst t0|destruct Hm]].
  - destruct (preproc (ds_pv st) (trim_space t)) as [o|ns|] eqn:Ep; [reflexivity| |exact (preproc_no_panic _ _ Ep)].
    destruct (derr_truthful fs (EUndefined ns) n r' ps Hinv' Hn Hl) as (d & -> & _ & Hk & Hp & Hc). eauto.
  - destruct (preproc (ds_pv st) (trim_space t)) as [o|ns|] eqn:Ep; [reflexivity| |exact (preproc_no_panic _ _ Ep)].
    destruct (derr_truthful fs (EUndefined ns) n r' ps Hinv' Hn Hl) as (d & -> & _ & Hk & Hp & Hc). eauto.
Qed.

(** An author string is taken as it is: whatever it holds, whatever is defined. *)
Lemma step_author fs ip jd st l n stk :
  ds_insec st = false -> read_line fs ip (ds_pv st) (ds_stack st) = (RLLine l n, stk) ->
  has_prefix l kw_author = true ->
  parse_step fs ip jd st = SGo {| ds_stack := stk; ds_pv := ds_pv st; ds_insec := false |}.
Proof.
  intros Hsec Er Ha. unfold parse_step. rewrite Er, Hsec.
  unfold has_prefix in Ha. destruct (strip_prefix kw_author l) as [a|] eqn:Ea; [|discriminate].
  apply strip_prefix_app in Ea. subst l.
  assert (strip_prefix kw_title (kw_author ++ a) = None) as -> by reflexivity.
  assert (strip_prefix kw_attention (kw_author ++ a) = None) as -> by reflexivity.
  assert (has_prefix (kw_author ++ a) kw_author = true) as ->; [|reflexivity].
  unfold has_prefix. assert (strip_prefix kw_author (kw_author ++ a) = Some a) as -> by (apply strip_prefix_app; reflexivity).
  reflexivity.
Qed.

(** A `parameter` clause defines the name only when it is not defined yet. *)
Lemma step_parameter fs ip jd st l n stk name val :
  ds_insec st = false -> read_line fs ip (ds_pv st) (ds_stack st) = (RLLine l n, stk) ->
  param_match l = Some (name, val) ->
  jd {| j_kind := JParamName; j_line := l; j_file := top_file stk; j_lineno := n; j_chain := top_chain stk; j_pv := ds_pv st |} = VAccept ->
  parse_step fs ip jd st = SGo {| ds_stack := stk; ds_pv := pv_define (ds_pv st) name val; ds_insec := false |}.
Proof.
  intros Hsec Er Hp Hj. unfold parse_step. rewrite Er, Hsec.
  unfold param_match in Hp. destruct (strip_prefix kw_parameter l) as [r1|] eqn:E1; [|discriminate].
  apply strip_prefix_app in E1. subst l.
  assert (strip_prefix kw_title (kw_parameter ++ r1) = None) as -> by reflexivity.
  assert (strip_prefix kw_attention (kw_parameter ++ r1) = None) as -> by reflexivity.
  assert (has_prefix (kw_parameter ++ r1) kw_author = false) as -> by reflexivity.
  assert (param_match (kw_parameter ++ r1) = Some (name, val)) as ->.
  { unfold param_match. assert (strip_prefix kw_parameter (kw_parameter ++ r1) = Some r1) as -> by (apply strip_prefix_app; reflexivity). exact Hp. }
  rewrite Hj. reflexivity.
Qed.

Lemma invariant_reachable : forall fs ip defs main jd pv stk st,
  parse_defines defs = Ok pv -> open_main fs ip main = ROk stk ->
  reach fs ip jd {| ds_stack := stk; ds_pv := pv; ds_insec := false |} st -> st_inv fs (ds_stack st).
Proof.
  intros fs ip defs main jd pv stk st _ Eo R. exact (reach_inv _ _ _ _ _ R (proj1 (open_main_inv _ _ _ _ Eo))).
Qed.
