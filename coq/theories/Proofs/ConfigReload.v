(** The printed configuration loads to the canonical state (C10). *)
From Coq Require Import String Permutation.
From Shk Require Import Base.Prelude Model.Storyline Model.Config.
From Shk Require Import Proofs.ConfigText Proofs.ConfigRoles Proofs.ConfigCast Proofs.ConfigScript Proofs.ConfigExpr Proofs.ConfigMember Proofs.ConfigAudience Proofs.ConfigHyps Proofs.ConfigHypsAud.
Open Scope Z_scope.

(** The state the printed configuration loads to. *)
Definition canon_state (orc : oracles) (s : cstate) : cstate :=
  let rep :=
    match c_story s, c_from s with
    | _ :: _, Some re => (Some re, match_act orc re (c_story s), norm_neg (c_timeout s), norm_neg (c_count s))
    | _, _ => (None, 0, -1, -1)
    end in
  mkState [] (c_titles s) (c_authors s) (c_seealso s) (c_roles s) (c_actors s) (c_scenes s) (c_tempo s) (c_story s)
          (fst (fst (fst rep))) (snd (fst (fst rep))) (snd (fst rep)) (snd rep) (map canon2 (c_aud s)).

Section Main.
Variable orc : oracles.
Hypothesis Horc : oracle_ok orc.
Variable s : cstate.
Hypothesis Hwf : wf_state orc s = true.
Hypothesis Hpr : printable s = true.

Lemma forallb_app' {A} (f : A -> bool) l1 l2 : forallb f (l1 ++ l2) = true -> forallb f l1 = true /\ forallb f l2 = true.
Proof. rewrite ConfigMember.forallb_app. apply andb_prop. Qed.

Theorem reload_canon : reload orc s = Ok (canon_state orc s).
Proof.
  destruct (wf_parts orc s Hwf) as (Hau & Hrw & Hrn & Haw & Han & Hsw & Hsn & Hrep & Hmw & Hmn & Hvn).
  destruct (pr_parts s Hpr) as (Htx & Hrin & Henv & Hexin & Hre & Hord & Hst).
  apply forallb_app' in Htx as [Hti Hse].
  unfold reload, print, init_state. cbn [parse_defines fold_left].
  (* titles, authors, attention *)
  rewrite (run_ok_app _ _ _ _ _ (run_titles orc (c_titles s) [] [] [] [] [] [] 1000000000 [] None 0 (-1) (-1) [] Hti)).
  rewrite (run_ok_app _ _ _ _ _ (run_authors orc (c_authors s) _ [] [] [] [] [] 1000000000 [] None 0 (-1) (-1) [] Hau)).
  rewrite (run_ok_app _ _ _ _ _ (run_seealso orc (c_seealso s) _ _ [] [] [] [] 1000000000 [] None 0 (-1) (-1) [] Hse)).
  cbn [app].
  (* roles *)
  rewrite (run_ok_app _ _ _ _ _ (run_roles orc (c_roles s) _ _ _ [] [] [] 1000000000 [] None 0 (-1) (-1) [] (roles_ok orc s Hwf Hpr) Hrn)).
  (* cast *)
  rewrite (run_ok_app _ _ _ _ _ (run_actors orc (c_actors s) _ _ _ _ [] [] 1000000000 [] None 0 (-1) (-1) [] (actors_ok orc s Hwf Hpr) Han)).
  cbn [app].
  (* script *)
  unfold print_script. cbn [app run].
  rewrite (apply_tempo orc Horc (c_tempo s)). cbn [obind].
  rewrite <- app_assoc.
  rewrite (run_ok_app _ _ _ _ _ (run_scenes orc (c_scenes s) _ _ _ _ _ [] _ [] None 0 (-1) (-1) [] (scenes_ok orc s Hwf) Hsn)).
  cbn [app].
  assert (Hname : forallb (fun m => ident_ok (m_name m)) (c_aud s) = true).
  { eapply forallb_impl; [|exact Hmw]. intros m _ H. unfold member_wf in H. repeat (apply andb_prop in H as [H ?]). exact H. }
  pose proof (fun ti au se sc te st fr an to co =>
     aud_ok_of orc s ti au se sc te st fr an to co (c_aud s) [] Hmn Hmw Hexin Hord Hvn) as Haud.
  cbn [map] in Haud.
  unfold canon_state.
  destruct (c_story s) as [|a0 story] eqn:Est.
  - (* no storyline: nothing else in the script *)
    cbn [app fst snd].
    rewrite (run_ok_app _ _ _ _ _ (run_audience orc _ _ _ _ _ _ _ _ _ _ _ _ (c_aud s) [] (Haud _ _ _ _ _ _ _ _ _ _))).
    cbn [app].
    pose proof (run_interp orc (c_titles s) (c_authors s) (c_seealso s) (c_roles s) (c_actors s) (c_scenes s) (c_tempo s) [] None 0 (-1) (-1) (c_aud s) [] Hmn Hname) as Hi.
    cbn [map app] in Hi. unfold ConfigExpr.S in *. rewrite Hi. reflexivity.
  - rewrite <- Est.
    assert (Hst' : apply orc (mkState [] (c_titles s) (c_authors s) (c_seealso s) (c_roles s) (c_actors s) (c_scenes s) (c_tempo s) [] None 0 (-1) (-1) [])
                     (CStoryline (join_sp (c_story s)))
                   = Ok (mkState [] (c_titles s) (c_authors s) (c_seealso s) (c_roles s) (c_actors s) (c_scenes s) (c_tempo s) (c_story s) None 0 (-1) (-1) [])).
    { apply apply_storyline_fresh. unfold story_printable, scene_defined in Hst. exact Hst. }
    cbn [app run]. rewrite Hst'. cbn [obind].
    unfold print_repeat. unfold repeat_wf in Hrep.
    destruct (c_from s) as [re|] eqn:Efr.
    + apply andb_prop in Hrep as [Hre_ok Hact].
      change ([CRepeatFrom re;
               CRepeatTime (if c_timeout s <? 0 then unconstrained else o_dur_string orc (c_timeout s));
               if 0 <=? c_count s then CRepeatCount (itoa_z (c_count s)) else CRepeatAlways]
              ++ flat_map print_member (c_aud s) ++ flat_map print_interp (c_aud s))
        with (([CRepeatFrom re;
               CRepeatTime (if c_timeout s <? 0 then unconstrained else o_dur_string orc (c_timeout s));
               if 0 <=? c_count s then CRepeatCount (itoa_z (c_count s)) else CRepeatAlways])
              ++ (flat_map print_member (c_aud s) ++ flat_map print_interp (c_aud s))).
      rewrite (run_ok_app _ _ _ _ _ (run_repeat orc Horc re (c_story s) _ _ _ _ _ _ _ 0 (c_timeout s) (c_count s) [] Hre_ok)).
      rewrite (run_ok_app _ _ _ _ _ (run_audience orc _ _ _ _ _ _ _ _ _ _ _ _ (c_aud s) [] (Haud _ _ _ _ _ _ _ _ _ _))).
      cbn [app].
      pose proof (run_interp orc (c_titles s) (c_authors s) (c_seealso s) (c_roles s) (c_actors s) (c_scenes s) (c_tempo s) (c_story s)
                    (Some re) (match_act orc re (c_story s)) (norm_neg (c_timeout s)) (norm_neg (c_count s)) (c_aud s) [] Hmn Hname) as Hi.
      cbn [map app] in Hi. unfold ConfigExpr.S in *. rewrite Hi. rewrite Est. reflexivity.
    + cbn [app].
      rewrite (run_ok_app _ _ _ _ _ (run_audience orc _ _ _ _ _ _ _ _ _ _ _ _ (c_aud s) [] (Haud _ _ _ _ _ _ _ _ _ _))).
      cbn [app].
      pose proof (run_interp orc (c_titles s) (c_authors s) (c_seealso s) (c_roles s) (c_actors s) (c_scenes s) (c_tempo s) (c_story s)
                    None 0 (-1) (-1) (c_aud s) [] Hmn Hname) as Hi.
      cbn [map app] in Hi. unfold ConfigExpr.S in *. rewrite Hi. rewrite Est. reflexivity.
Qed.

End Main.
