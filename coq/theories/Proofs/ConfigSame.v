(** The canonical state is the same play and prints the same up to the order of watches (C10). *)
From Coq Require Import String Permutation.
From Shk Require Import Base.Prelude Model.Storyline Model.Config.
From Shk Require Import Proofs.ConfigText Proofs.ConfigRoles Proofs.ConfigCast Proofs.ConfigScript Proofs.ConfigExpr Proofs.ConfigMember Proofs.ConfigAudience Proofs.ConfigHyps Proofs.ConfigHypsAud Proofs.ConfigReload.
Open Scope Z_scope.

(** * The canonical state is the same play *)

Lemma existsb_vname_In v l : existsb (vname_eqb v) l = true <-> In v l.
Proof.
  rewrite existsb_exists. split.
  - intros (x & Hin & E). apply vname_eqb_eq in E. subst. exact Hin.
  - intros H. exists v. split; [exact H|apply vname_eqb_refl].
Qed.

Lemma nodup_v_NoDup l : nodup_v l = true -> NoDup l.
Proof.
  induction l as [|x l IH]; cbn; [constructor|].
  intros H. apply andb_prop in H as [H1 H2]. constructor; auto.
  intros Hin. apply existsb_vname_In in Hin. rewrite Hin in H1. discriminate.
Qed.

Lemma add_obs_In o v x : In x (add_obs o v) <-> In x o \/ x = v.
Proof.
  unfold add_obs. destruct (existsb (vname_eqb v) o) eqn:E.
  - apply existsb_vname_In in E. split; [auto|]. intros [H| ->]; auto.
  - rewrite in_app_iff. cbn. intuition.
Qed.

Lemma NoDup_snoc {A} (l : list A) x : NoDup l -> ~ In x l -> NoDup (l ++ [x]).
Proof.
  induction 1 as [|y l Hy Hl IH]; cbn; intros Hx.
  - constructor; [tauto|constructor].
  - constructor.
    + rewrite in_app_iff. cbn. intros [H|[H|[]]]; [tauto|subst; tauto].
    + apply IH. tauto.
Qed.

Lemma add_obs_NoDup o v : NoDup o -> NoDup (add_obs o v).
Proof.
  intros H. unfold add_obs. destruct (existsb (vname_eqb v) o) eqn:E; [exact H|].
  apply NoDup_snoc; auto. intros Hin. apply existsb_vname_In in Hin. congruence.
Qed.

Lemma fold_add_obs_In l : forall o x, In x (fold_left add_obs l o) <-> In x o \/ In x l.
Proof.
  induction l as [|v l IH]; intros o x; cbn; [tauto|].
  rewrite IH, add_obs_In. intuition.
Qed.

Lemma fold_add_obs_NoDup l : forall o, NoDup o -> NoDup (fold_left add_obs l o).
Proof. induction l; intros o H; cbn; auto using add_obs_NoDup. Qed.

Lemma reg1_In o d x : In x (reg1 o d) -> In x o \/ (x = d /\ is_nil (fst d) = false).
Proof.
  unfold reg1. destruct (is_nil (fst d)) eqn:E; [auto|].
  rewrite add_obs_In. intuition.
Qed.

Lemma reg1_NoDup o d : NoDup o -> NoDup (reg1 o d).
Proof. unfold reg1. destruct (is_nil (fst d)); auto using add_obs_NoDup. Qed.

Lemma reg_In deps : forall o x, In x (reg o deps) -> In x o \/ (In x deps /\ is_nil (fst x) = false).
Proof.
  unfold reg. induction deps as [|d deps IH]; intros o x; cbn; [auto|].
  intros H. apply IH in H. destruct H as [H|[H1 H2]]; [|auto].
  apply reg1_In in H. destruct H as [H|[-> H]]; auto.
Qed.

Lemma reg_NoDup deps : forall o, NoDup o -> NoDup (reg o deps).
Proof. unfold reg. induction deps; intros o H; cbn; auto using reg1_NoDup. Qed.

Lemma reg_assigns_In l : forall o x,
  In x (reg_assigns o l) -> In x o \/ exists a, In a l /\ In x (sig_deps (as_expr a)).
Proof.
  induction l as [|a l IH]; intros o x; cbn; [auto|].
  intros H. apply IH in H. destruct H as [H|(a' & Ha & Hx)].
  - apply reg_In in H. destruct H as [H|[H1 H2]]; [auto|].
    right. exists a. split; [auto|]. unfold sig_deps. apply filter_In. split; [exact H1|].
    destruct x as [xa xg]. cbn [fst] in *. rewrite H2. reflexivity.
  - right. exists a'. auto.
Qed.

Lemma reg_assigns_NoDup l : forall o, NoDup o -> NoDup (reg_assigns o l).
Proof. induction l; intros o H; cbn; auto using reg_NoDup. Qed.

Lemma sig_deps_In e x : In x (x_deps e) -> is_nil (fst x) = false -> In x (sig_deps e).
Proof.
  intros H1 H2. unfold sig_deps. apply filter_In. split; [exact H1|].
  destruct x as [xa xg]. cbn [fst] in *. rewrite H2. reflexivity.
Qed.

Lemma canon_obs_perm orc s m :
  member_wf orc s m = true -> Permutation (m_obs m) (canon_obs m).
Proof.
  intros Hw. unfold member_wf in Hw.
  apply andb_prop in Hw as [Hw _]. apply andb_prop in Hw as [Hw Hsub]. apply andb_prop in Hw as [Hw _].
  apply andb_prop in Hw as [Hw Hnd]. clear Hw.
  apply nodup_v_NoDup in Hnd.
  assert (Hsub' : forall e x, In e (member_exprs m) -> In x (sig_deps e) -> In x (m_obs m)).
  { intros e x He Hx. rewrite forallb_forall in Hsub. specialize (Hsub e He).
    rewrite forallb_forall in Hsub. apply existsb_vname_In. apply Hsub. exact Hx. }
  unfold canon_obs.
  set (o1 := match m_cond m with Some e => reg [] (x_deps e) | None => [] end).
  set (o2 := reg_assigns o1 (m_assigns m)).
  set (o3 := match m_expect m with Some fe => reg o2 (x_deps (snd fe)) | None => o2 end).
  assert (N1 : NoDup o1) by (unfold o1; destruct (m_cond m); [apply reg_NoDup|]; constructor).
  assert (N2 : NoDup o2) by (apply reg_assigns_NoDup; exact N1).
  assert (N3 : NoDup o3) by (unfold o3; destruct (m_expect m); [apply reg_NoDup|]; exact N2).
  assert (I1 : forall x, In x o1 -> In x (m_obs m)).
  { intros x Hx. unfold o1 in Hx. destruct (m_cond m) as [e|] eqn:Ec; [|destruct Hx].
    apply reg_In in Hx. destruct Hx as [[]|[H1 H2]].
    apply (Hsub' e); [unfold member_exprs; rewrite Ec; cbn; auto|apply sig_deps_In; auto]. }
  assert (I2 : forall x, In x o2 -> In x (m_obs m)).
  { intros x Hx. apply reg_assigns_In in Hx. destruct Hx as [Hx|(a & Ha & Hx)]; [auto|].
    apply (Hsub' (as_expr a)); [|exact Hx]. unfold member_exprs. apply in_or_app. right. apply in_or_app. left.
    apply in_map. exact Ha. }
  assert (I3 : forall x, In x o3 -> In x (m_obs m)).
  { intros x Hx. unfold o3 in Hx. destruct (m_expect m) as [fe|] eqn:Ee; [|auto].
    apply reg_In in Hx. destruct Hx as [Hx|[H1 H2]]; [auto|].
    apply (Hsub' (snd fe)); [|apply sig_deps_In; auto]. unfold member_exprs. rewrite Ee.
    apply in_or_app. right. apply in_or_app. right. cbn. auto. }
  apply NoDup_Permutation; [exact Hnd|apply fold_add_obs_NoDup; exact N3|].
  intros x. rewrite fold_add_obs_In. split; [auto|]. intros [H|H]; auto.
Qed.

Lemma norm_neg_idem z : norm_neg (norm_neg z) = norm_neg z.
Proof. unfold norm_neg. destruct (z <? 0) eqn:E; [reflexivity|]. rewrite E. reflexivity. Qed.

Lemma same_play_canon orc s : wf_state orc s = true -> same_play s (canon_state orc s).
Proof.
  intros Hwf. destruct (wf_parts orc s Hwf) as (_ & _ & _ & _ & _ & _ & _ & Hrep & Hmw & _).
  unfold same_play, canon_state.
  cbn [c_titles c_authors c_seealso c_roles c_actors c_scenes c_tempo c_story c_aud].
  repeat (split; [reflexivity|]). split.
  - (* effective repetition *)
    unfold eff_repeat, repeat_wf in *.
    cbn [c_actnum c_timeout c_count].
    destruct (c_from s) as [re|] eqn:Ef.
    + apply andb_prop in Hrep as [_ Hact]. apply Z.eqb_eq in Hact. fold (match_act orc re (c_story s)) in Hact.
      destruct (c_story s) as [|a0 st] eqn:Est.
      * cbn [fst snd]. rewrite Hact. unfold match_act. cbn. reflexivity.
      * cbn [fst snd]. rewrite Hact.
        destruct (0 <? match_act orc re (a0 :: st)); [|reflexivity].
        fold (norm_neg (c_timeout s)) (norm_neg (c_count s)).
        fold (norm_neg (norm_neg (c_timeout s))) (norm_neg (norm_neg (c_count s))). rewrite !norm_neg_idem. reflexivity.
    + apply Z.eqb_eq in Hrep. rewrite Hrep. destruct (c_story s); reflexivity.
  - (* audience *)
    clear Hrep. induction (c_aud s) as [|m l IH]; cbn [map]; [constructor|].
    cbn [forallb] in Hmw. apply andb_prop in Hmw as [Hm Hl].
    constructor; [|apply IH; exact Hl].
    unfold same_member, canon2. cbn [m_name m_cond m_assigns m_expect m_obs m_ylabel m_noplot m_foulbad m_foulgood].
    repeat (split; [reflexivity|]). split; [apply (canon_obs_perm orc s); exact Hm|].
    repeat (split; [reflexivity|]).
    destruct (m_expect m); [auto|congruence].
Qed.

(** * The canonical state prints the same up to the order of watches *)
Lemma pe_refl l : print_equiv l l.
Proof. induction l; constructor; auto. Qed.

Lemma pe_app_l p l l' : print_equiv l l' -> print_equiv (p ++ l) (p ++ l').
Proof. intros H. induction p; cbn; [exact H|constructor; auto]. Qed.

Lemma pe_app_r q l l' : print_equiv l l' -> print_equiv (l ++ q) (l' ++ q).
Proof.
  induction 1; cbn.
  - apply pe_refl.
  - constructor; auto.
  - eapply pe_swap; eauto.
  - eapply pe_trans; eauto.
Qed.

Lemma pe_app l1 l1' l2 l2' : print_equiv l1 l1' -> print_equiv l2 l2' -> print_equiv (l1 ++ l2) (l1' ++ l2').
Proof. intros H1 H2. eapply pe_trans; [apply pe_app_r; exact H1|apply pe_app_l; exact H2]. Qed.

Lemma watch_of_print n v : watch_of (print_watch n v) = Some n.
Proof. unfold print_watch. destruct (fst v); reflexivity. Qed.

Lemma pe_perm n o o' : Permutation o o' -> print_equiv (map (print_watch n) o) (map (print_watch n) o').
Proof.
  induction 1; cbn.
  - constructor.
  - constructor; auto.
  - eapply pe_swap; apply watch_of_print.
  - eapply pe_trans; eauto.
Qed.

Lemma pe_sym l l' : print_equiv l l' -> print_equiv l' l.
Proof.
  induction 1.
  - constructor.
  - constructor; auto.
  - eapply pe_swap; eauto.
  - eapply pe_trans; eauto.
Qed.

Lemma print_member_canon orc s m :
  member_wf orc s m = true -> print_equiv (print_member (canon2 m)) (print_member m).
Proof.
  intros Hw. unfold print_member, canon2.
  cbn [m_name m_cond m_assigns m_expect m_obs m_ylabel m_noplot].
  apply pe_app_l. apply pe_app_l. apply pe_app_l. apply pe_app_r.
  apply pe_perm. apply Permutation_sym. apply (canon_obs_perm orc s). exact Hw.
Qed.

Lemma print_interp_canon m : print_interp (canon2 m) = print_interp m.
Proof. unfold print_interp, canon2. cbn. destruct (m_expect m); reflexivity. Qed.

Lemma print_script_canon orc s : print_script orc (canon_state orc s) = print_script orc s.
Proof.
  unfold print_script, canon_state. cbn [c_tempo c_scenes c_story]. f_equal. f_equal.
  destruct (c_story s) as [|a0 st] eqn:Est; [reflexivity|]. f_equal.
  unfold print_repeat. cbn [c_from c_timeout c_count].
  destruct (c_from s) as [re|]; [|reflexivity]. cbn [fst snd].
  f_equal. f_equal.
  - f_equal. unfold norm_neg. destruct (c_timeout s <? 0) eqn:E; [reflexivity|]. rewrite E. reflexivity.
  - f_equal. unfold norm_neg. destruct (c_count s <? 0) eqn:E.
    + apply Z.ltb_lt in E. assert (0 <=? c_count s = false) as -> by (apply Z.leb_gt; lia). reflexivity.
    + reflexivity.
Qed.

Lemma print_equiv_canon orc s :
  wf_state orc s = true -> print_equiv (print orc (canon_state orc s)) (print orc s).
Proof.
  intros Hwf. destruct (wf_parts orc s Hwf) as (_ & _ & _ & _ & _ & _ & _ & _ & Hmw & _).
  unfold print. rewrite print_script_canon.
  unfold canon_state at 1 2 3 4 5 6 7. cbn [c_titles c_authors c_seealso c_roles c_actors c_aud].
  do 6 apply pe_app_l.
  assert (E : flat_map print_interp (map canon2 (c_aud s)) = flat_map print_interp (c_aud s)).
  { clear. induction (c_aud s) as [|m l IH]; cbn [map flat_map]; [reflexivity|]. rewrite IH, print_interp_canon. reflexivity. }
  unfold canon_state. cbn [c_aud]. rewrite E. apply pe_app_r. clear E.
  induction (c_aud s) as [|m l IH]; cbn [map flat_map]; [constructor|].
  cbn [forallb] in Hmw. apply andb_prop in Hmw as [Hm Hl].
  apply pe_app; [apply (print_member_canon orc s); exact Hm|apply IH; exact Hl].
Qed.
