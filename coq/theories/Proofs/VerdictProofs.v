(** Proofs about Model/Verdict.v (property C03). *)
From Shk Require Import Base.Prelude Model.Verdict.
From Coq Require Import String.
Open Scope list_scope.

(** * Interpretation: per (auditor, result) pair the last applicable clause decides *)

(** The setting of one (auditor, result) pair followed through the file:
    [None] until the auditor is first mentioned, then the default, then
    whatever the latest applicable clause says. *)
Definition track1 (a : string) (r : res) (cur : option fcond) (i : item) : option fcond :=
  match i with
  | IMember b => if String.eqb a b then match cur with None => Some (get_res r default_fc) | _ => cur end else cur
  | IIgnoreAll r' => if res_eqb r r' then match cur with Some _ => Some FIgnore | None => None end else cur
  | ISet m b r' => if String.eqb a b && res_eqb r r' then match cur with Some _ => Some m | None => None end else cur
  end.
Definition track (a : string) (r : res) (is : list item) : option fcond := fold_left (track1 a r) is None.

Definition setting (a : string) (r : res) (cfg : list (string * fc)) : option fcond :=
  option_map (get_res r) (assoc_get a cfg).

Lemma get_set_res r r' m x : get_res r (set_res r' m x) = if res_eqb r r' then m else get_res r x.
Proof. destruct r, r', x; reflexivity. Qed.

Lemma assoc_get_app_other a b x l : String.eqb a b = false -> assoc_get a (l ++ [(b, x)]) = assoc_get a l.
Proof.
  intros H. induction l as [|[c y] l IH]; cbn; [rewrite H; reflexivity|].
  destruct (String.eqb a c); [reflexivity | exact IH].
Qed.
Lemma assoc_get_app_new a x l : assoc_get a l = None -> assoc_get a (l ++ [(a, x)]) = Some x.
Proof.
  induction l as [|[c y] l IH]; cbn; [rewrite String.eqb_refl; reflexivity|].
  destruct (String.eqb a c); [discriminate | exact IH].
Qed.
Lemma assoc_get_map a f l :
  assoc_get a (map (fun '(b, x) => (b, f x)) l) = option_map f (assoc_get a l).
Proof.
  induction l as [|[c y] l IH]; cbn; [reflexivity|]. destruct (String.eqb a c); [reflexivity | exact IH].
Qed.
Lemma assoc_set_get a b f l l' :
  assoc_set b f l = Some l' ->
  assoc_get a l' = if String.eqb a b then option_map f (assoc_get a l) else assoc_get a l.
Proof.
  revert l'. induction l as [|[c y] l IH]; intros l'; cbn; [discriminate|].
  destruct (String.eqb b c) eqn:Ebc.
  - intros H; inversion H; subst; clear H. apply String.eqb_eq in Ebc. subst c. cbn.
    destruct (String.eqb a b); reflexivity.
  - destruct (assoc_set b f l) as [r|] eqn:Es; [|discriminate]. intros H; inversion H; subst; clear H. cbn.
    destruct (String.eqb a c) eqn:Eac.
    + apply String.eqb_eq in Eac. subst c. rewrite String.eqb_sym in Ebc. rewrite Ebc. reflexivity.
    + apply IH. reflexivity.
Qed.
Lemma assoc_set_defined b f l l' : assoc_set b f l = Some l' -> assoc_get b l <> None.
Proof.
  revert l'. induction l as [|[c y] l IH]; intros l'; cbn; [discriminate|].
  destruct (String.eqb b c); [discriminate|].
  destruct (assoc_set b f l) as [r|] eqn:Es; [|discriminate]. intros _. eapply IH; reflexivity.
Qed.

Lemma apply_item_track a r l i l' :
  apply_item l i = Some l' -> setting a r l' = track1 a r (setting a r l) i.
Proof.
  unfold setting. destruct i as [b|r'|m b r']; cbn [apply_item track1].
  - destruct (assoc_get b l) as [x|] eqn:Eb.
    + intros H; inversion H; subst. destruct (String.eqb a b) eqn:E; [|reflexivity].
      apply String.eqb_eq in E. subst b. rewrite Eb. reflexivity.
    + intros H; inversion H; subst. destruct (String.eqb a b) eqn:E.
      * apply String.eqb_eq in E. subst b. rewrite (assoc_get_app_new _ _ _ Eb), Eb. reflexivity.
      * rewrite (assoc_get_app_other _ _ _ _ E). reflexivity.
  - intros H; inversion H; subst. rewrite assoc_get_map.
    destruct (assoc_get a l) as [x|]; cbn; [|destruct (res_eqb r r'); reflexivity].
    rewrite get_set_res. destruct (res_eqb r r'); reflexivity.
  - intros H. rewrite (assoc_set_get a b _ _ _ H).
    destruct (String.eqb a b) eqn:E; cbn [andb]; [|reflexivity].
    destruct (assoc_get a l) as [x|]; cbn; [|destruct (res_eqb r r'); reflexivity].
    rewrite get_set_res. destruct (res_eqb r r'); reflexivity.
Qed.

Lemma interp_track_from a r is : forall l cfg,
  interp l is = Some cfg -> setting a r cfg = fold_left (track1 a r) is (setting a r l).
Proof.
  induction is as [|i is IH]; intros l cfg; cbn [interp fold_left].
  - intros H; inversion H; reflexivity.
  - destruct (apply_item l i) as [l'|] eqn:E; [|discriminate]. intros H.
    rewrite (IH _ _ H), (apply_item_track _ _ _ _ _ E). reflexivity.
Qed.

Theorem interp_tracks a r is cfg :
  interp [] is = Some cfg -> setting a r cfg = track a r is.
Proof. intros H. apply (interp_track_from a r is [] cfg H). Qed.

(** "Last wins", spelled out on [track]. *)
Lemma track_app a r is i : track a r (is ++ [i]) = track1 a r (track a r is) i.
Proof. unfold track. rewrite fold_left_app. reflexivity. Qed.

Theorem last_clause_wins a r is m :
  track a r is <> None -> track a r (is ++ [ISet m a r]) = Some m.
Proof.
  intros H. rewrite track_app. cbn. rewrite String.eqb_refl. destruct r; cbn; destruct (track a _ is); congruence.
Qed.
Theorem last_shorthand_wins a r is :
  track a r is <> None -> track a r (is ++ [IIgnoreAll r]) = Some FIgnore.
Proof. intros H. rewrite track_app. cbn. destruct r; cbn; destruct (track a _ is); congruence. Qed.
Theorem other_pair_untouched a r is m b r' :
  (a, r) <> (b, r') -> track a r (is ++ [ISet m b r']) = track a r is.
Proof.
  intros H. rewrite track_app. cbn.
  destruct (String.eqb a b) eqn:E1, (res_eqb r r') eqn:E2; cbn; try reflexivity.
  exfalso. apply H. apply String.eqb_eq in E1. destruct r, r'; try discriminate; subst; reflexivity.
Qed.
Theorem shorthand_spares_later_members a r is is' :
  track a r is = None -> track a r (is ++ [IIgnoreAll r] ++ [IMember a] ++ is') = fold_left (track1 a r) is' (Some (get_res r default_fc)).
Proof.
  intros H. unfold track in *. rewrite !fold_left_app, H. cbn. rewrite String.eqb_refl.
  destruct r; reflexivity.
Qed.

(** * The verdict is exactly the documented rule *)

Lemma assoc_get_in a l x : assoc_get a l = Some x -> In (a, x) l.
Proof.
  induction l as [|[c y] l IH]; cbn; [discriminate|]. destruct (String.eqb a c) eqn:E.
  - intros H; inversion H; subst. apply String.eqb_eq in E. subst. left; reflexivity.
  - intros H. right. apply IH; assumption.
Qed.

Definition documented_foul (cfg : list (string * fc)) (t : tally) : Prop :=
  0 < t_errors t \/
  exists a x, In (a, x) cfg /\ assoc_get a cfg = Some x /\ has_data a t = true /\
    ( (fst x = FNonZero /\ 0 < count_of a (t_bad t)) \/ (fst x = FZero /\ count_of a (t_bad t) = 0)
   \/ (snd x = FNonZero /\ 0 < count_of a (t_good t)) \/ (snd x = FZero /\ count_of a (t_good t) = 0)).

Lemma fouled_by_true m cnt : fouled_by m cnt true = true <-> (m = FNonZero /\ 0 < cnt) \/ (m = FZero /\ cnt = 0).
Proof.
  destruct m; unfold fouled_by.
  - split; [discriminate | intros [[H _]|[H _]]; discriminate].
  - rewrite Nat.ltb_lt. split; [auto | intros [[_ H]|[H _]]; [assumption|discriminate]].
  - rewrite andb_true_r, Nat.eqb_eq. split; [auto | intros [[H _]|[_ H]]; [discriminate|assumption]].
Qed.

Theorem fouled_iff_documented cfg t :
  NoDup (map fst cfg) -> (fouled cfg t = true <-> documented_foul cfg t).
Proof.
  intros Hnd. unfold fouled, documented_foul. rewrite orb_true_iff, Nat.ltb_lt, existsb_exists. split.
  - intros [H|[[a x] [Hin H]]]; [left; assumption|]. right.
    apply andb_true_iff in H. destruct H as [Hd Hm]. unfold member_fouls in Hm.
    destruct (assoc_get a cfg) as [y|] eqn:Ea; [|discriminate].
    exists a, y. split; [apply assoc_get_in; assumption|]. split; [exact Ea|]. split; [assumption|].
    apply orb_true_iff in Hm. rewrite !fouled_by_true in Hm. tauto.
  - intros [H|(a & x & Hin & Hg & Hd & H)]; [left; assumption|]. right.
    exists (a, x). split; [assumption|]. rewrite Hd. cbn. unfold member_fouls. rewrite Hg.
    apply orb_true_iff. rewrite !fouled_by_true. tauto.
Qed.

(** * -S never turns a foul into a success (nor a success into a foul) *)

Lemma count_incr_same a l : count_of a (incr a l) = S (count_of a l).
Proof. induction l as [|[b n] l IH]; cbn; [rewrite String.eqb_refl; reflexivity|].
  destruct (String.eqb a b) eqn:E; cbn; rewrite E; [reflexivity | exact IH]. Qed.
Lemma count_incr_other a b l : String.eqb a b = false -> count_of a (incr b l) = count_of a l.
Proof.
  intros H. induction l as [|[c n] l IH]; cbn; [rewrite H; reflexivity|].
  destruct (String.eqb b c) eqn:E; cbn.
  - apply String.eqb_eq in E. subst c. rewrite H. reflexivity.
  - destruct (String.eqb a c); [reflexivity | exact IH].
Qed.
Lemma count_incr_le a b l : count_of a l <= count_of a (incr b l).
Proof.
  destruct (String.eqb a b) eqn:E.
  - apply String.eqb_eq in E. subst. rewrite count_incr_same. lia.
  - rewrite count_incr_other by assumption. lia.
Qed.

Definition tally_le (t1 t2 : tally) : Prop :=
  t_errors t1 <= t_errors t2 /\
  (forall a, count_of a (t_bad t1) <= count_of a (t_bad t2)) /\
  (forall a, count_of a (t_good t1) <= count_of a (t_good t2)) /\
  (forall a, has_data a t1 = true -> has_data a t2 = true).

Lemma tally_le_refl t : tally_le t t.
Proof. repeat split; auto. Qed.
Lemma tally_le_trans t1 t2 t3 : tally_le t1 t2 -> tally_le t2 t3 -> tally_le t1 t3.
Proof. intros (A1 & B1 & C1 & D1) (A2 & B2 & C2 & D2). repeat split; intros; eauto using Nat.le_trans. Qed.

Lemma has_data_add a t r : has_data a t = true -> has_data a (add_report t r) = true.
Proof.
  destruct r as [b code]. unfold add_report, has_data at 2.
  intros H.
  assert (Hx : existsb (String.eqb a) (if has_data b t then t_hasdata t else t_hasdata t ++ [b]) = true).
  { destruct (has_data b t); [exact H|]. rewrite existsb_app. unfold has_data in H. rewrite H. reflexivity. }
  destruct (Z.eqb code 1); [exact Hx|]. destruct (Z.eqb code 0); [exact Hx|]. destruct (Z.eqb code 2); exact Hx.
Qed.
Lemma has_data_added a code t : has_data a (add_report t (a, code)) = true.
Proof.
  unfold add_report.
  assert (Hx : existsb (String.eqb a) (if has_data a t then t_hasdata t else t_hasdata t ++ [a]) = true).
  { destruct (has_data a t) eqn:E; [exact E|]. rewrite existsb_app. cbn. rewrite String.eqb_refl, orb_true_r. reflexivity. }
  destruct (Z.eqb code 1); [exact Hx|]. destruct (Z.eqb code 0); [exact Hx|]. destruct (Z.eqb code 2); exact Hx.
Qed.

Lemma add_report_le t r : tally_le t (add_report t r).
Proof.
  destruct r as [b code]. unfold tally_le. split; [|split; [|split]].
  - unfold add_report. destruct (Z.eqb code 1); cbn; [lia|]. destruct (Z.eqb code 0); cbn; [lia|]. destruct (Z.eqb code 2); cbn; lia.
  - intros a. unfold add_report. destruct (Z.eqb code 1); cbn; [lia|]. destruct (Z.eqb code 0); cbn; [lia|].
    destruct (Z.eqb code 2); cbn; [apply count_incr_le | lia].
  - intros a. unfold add_report. destruct (Z.eqb code 1); cbn; [lia|]. destruct (Z.eqb code 0); cbn; [apply count_incr_le|].
    destruct (Z.eqb code 2); cbn; lia.
  - intros a. apply has_data_add.
Qed.

Lemma collector_run_le cfg early rs : forall t t' st, collector_run cfg early t rs = (t', st) -> tally_le t t'.
Proof.
  induction rs as [|r rs IH]; intros t t' st; cbn [collector_run].
  - intros H; inversion H; apply tally_le_refl.
  - destruct (early && early_stop cfg (add_report t r) r).
    + intros H; inversion H; subst. apply add_report_le.
    + intros H. eapply tally_le_trans; [apply add_report_le | eapply IH; eassumption].
Qed.

(** an ACTIVE foul (error recorded, or a `foul upon` count above zero for an
    auditor that has data) stays one when the tallies grow *)
Definition active_foul (cfg : list (string * fc)) (t : tally) : Prop :=
  0 < t_errors t \/
  exists a x, assoc_get a cfg = Some x /\ has_data a t = true /\
    ((fst x = FNonZero /\ 0 < count_of a (t_bad t)) \/ (snd x = FNonZero /\ 0 < count_of a (t_good t))).

Lemma active_foul_mono cfg t1 t2 : tally_le t1 t2 -> active_foul cfg t1 -> active_foul cfg t2.
Proof.
  intros (A & B & C & D) [H|(a & x & Hg & Hd & H)]; [left; lia|]. right. exists a, x.
  split; [assumption|]. split; [auto|]. destruct H as [[H1 H2]|[H1 H2]]; [left|right]; split; auto.
  - specialize (B a). lia.
  - specialize (C a). lia.
Qed.

Lemma active_foul_fouled cfg t : active_foul cfg t -> fouled cfg t = true.
Proof.
  unfold fouled. intros [H|(a & x & Hg & Hd & H)]; apply orb_true_iff; [left; apply Nat.ltb_lt; assumption|].
  right. apply existsb_exists. exists (a, x). split; [apply assoc_get_in; assumption|].
  rewrite Hd. cbn. unfold member_fouls. rewrite Hg. apply orb_true_iff.
  destruct H as [[H1 H2]|[H1 H2]]; [left|right]; rewrite H1; unfold fouled_by; apply Nat.ltb_lt; assumption.
Qed.

Lemma early_stop_active cfg t r : early_stop cfg (add_report t r) r = true -> active_foul cfg (add_report t r).
Proof.
  destruct r as [a code]. unfold early_stop. destruct (Z.eqb code 3) eqn:E3; [discriminate|].
  destruct (Z.eqb code 1) eqn:E1.
  - intros _. left. unfold add_report. rewrite E1. cbn. lia.
  - unfold member_fouls. destruct (assoc_get a cfg) as [x|] eqn:Eg; [|discriminate].
    intros H. right. exists a, x. split; [exact Eg|]. split; [apply has_data_added|].
    apply orb_true_iff in H. destruct H as [H|H]; [left|right];
      (destruct x as [mb mg]; cbn [fst snd] in *;
       match type of H with fouled_by ?m _ _ = true => destruct m; unfold fouled_by in H; try discriminate end;
       [split; [reflexivity | apply Nat.ltb_lt; assumption] | rewrite andb_false_r in H; discriminate]).
Qed.

(** The theorem: with -S the collector either stops early, and then both the
    truncated and the full run are fouled; or it does not, and then it computes
    exactly the same tallies. *)
Theorem early_exit_never_changes_the_verdict cfg rs t_full t_early stopped stx :
  collector_run cfg false tally0 rs = (t_full, stx) ->
  collector_run cfg true tally0 rs = (t_early, stopped) ->
  (stopped = true -> fouled cfg t_early = true /\ fouled cfg t_full = true) /\
  (stopped = false -> t_early = t_full).
Proof.
  generalize tally0 as t. revert t_full t_early stopped stx.
  induction rs as [|r rs IH]; intros t_full t_early stopped stx t; cbn [collector_run andb].
  - intros H1 H2; inversion H1; inversion H2; subst. split; [discriminate | reflexivity].
  - destruct (early_stop cfg (add_report t r) r) eqn:Es.
    + intros H1 H2; inversion H2; subst; clear H2. split; [|discriminate]. intros _.
      pose proof (early_stop_active _ _ _ Es) as Ha. split; [apply active_foul_fouled; assumption|].
      apply active_foul_fouled. eapply active_foul_mono; [|exact Ha]. eapply collector_run_le; eassumption.
    + intros H1 H2. eapply IH; eassumption.
Qed.

(** * The error funnel of conduct *)

Lemma exit_nonzero_app_l a b : exit_nonzero a = true -> exit_nonzero (combine a b) = true.
Proof. destruct a; [discriminate | reflexivity]. Qed.
Lemma exit_nonzero_app_r a b : exit_nonzero b = true -> exit_nonzero (combine a b) = true.
Proof. destruct a; cbn; auto. Qed.
Lemma exit_nonzero_app a b : exit_nonzero (combine a b) = exit_nonzero a || exit_nonzero b.
Proof. destruct a; reflexivity. Qed.

Lemma ign_keeps e : is_last KCancel e = false -> ign_cancel e = e.
Proof. unfold ign_cancel. intros ->. reflexivity. Qed.

(** ** The shutdown stages: every component is read exactly once *)

Lemma comp_eqb_spec a b : comp_eqb a b = true <-> a = b.
Proof. destruct a, b; cbn; split; intros H; try reflexivity; try discriminate. Qed.
Lemma comp_eqb_refl a : comp_eqb a a = true.
Proof. destruct a; reflexivity. Qed.
Lemma cmem_In x l : cmem x l = true <-> In x l.
Proof.
  unfold cmem. rewrite existsb_exists. split.
  - intros (y & Hy & E). apply comp_eqb_spec in E. subst. assumption.
  - intros H. exists x. split; [assumption | apply comp_eqb_refl].
Qed.
Lemma cmem_false x l : cmem x l = false <-> ~ In x l.
Proof. rewrite <- cmem_In. destruct (cmem x l); split; intros H; try reflexivity; try discriminate; try (intros H'; discriminate). exfalso; apply H; reflexivity. Qed.

Definition read_value (o : outcome) (r : comp * bool) : err :=
  if snd r then ign_cancel (comp_err o (fst r)) else comp_err o (fst r).
(** finalErr as a function of the reads: the latest read comes first *)
Definition fin_of (o : outcome) (rs : list (comp * bool)) : err := List.concat (rev (map (read_value o) rs)).

Definition shut_inv (o : outcome) (s : shut) : Prop :=
  sh_consumed s = rev (map fst (sh_reads s)) /\ NoDup (sh_consumed s) /\ sh_fin s = fin_of o (sh_reads s).

Lemma shut0_inv o : shut_inv o shut0.
Proof. repeat split; constructor. Qed.

Lemma fin_of_snoc o rs r : fin_of o (rs ++ [r]) = combine (read_value o r) (fin_of o rs).
Proof. unfold fin_of, combine. rewrite map_app, rev_app_distr. reflexivity. Qed.

Lemma do_read_inv o x ig s : shut_inv o s -> shut_inv o (fst (do_read o x ig s)).
Proof.
  intros (Hc & Hn & Hf). unfold do_read. destruct (cmem x (sh_consumed s)) eqn:E; cbn [fst]; [repeat split; assumption|].
  apply cmem_false in E. repeat split; cbn [sh_consumed sh_reads sh_fin].
  - rewrite map_app, rev_app_distr. cbn. rewrite Hc. reflexivity.
  - constructor; assumption.
  - rewrite fin_of_snoc, Hf. reflexivity.
Qed.
Lemma do_read_consumes o x ig s : In x (sh_consumed (fst (do_read o x ig s))).
Proof.
  unfold do_read. destruct (cmem x (sh_consumed s)) eqn:E; cbn [fst sh_consumed].
  - apply cmem_In; assumption.
  - left; reflexivity.
Qed.
Lemma do_read_consumed_mono o x ig s y : In y (sh_consumed s) -> In y (sh_consumed (fst (do_read o x ig s))).
Proof. unfold do_read. destruct (cmem x (sh_consumed s)); cbn [fst sh_consumed]; [auto | right; assumption]. Qed.
Lemma do_read_cancelled o x ig s : sh_cancelled (fst (do_read o x ig s)) = sh_cancelled s.
Proof. unfold do_read. destruct (cmem x (sh_consumed s)); reflexivity. Qed.
(** the value a read returns is nil for a closed channel, the component's value otherwise *)
Lemma do_read_value o x ig s : snd (do_read o x ig s) = [] \/ snd (do_read o x ig s) = comp_err o x.
Proof. unfold do_read. destruct (cmem x (sh_consumed s)); cbn [snd]; auto. Qed.

Lemma cancel_and_read_inv o s x : shut_inv o s -> shut_inv o (cancel_and_read o s x).
Proof.
  intros H. unfold cancel_and_read. apply do_read_inv.
  destruct (cmem x (sh_consumed s)); [assumption|]. destruct H as (Hc & Hn & Hf). repeat split; assumption.
Qed.
Lemma cancel_and_read_consumes o s x : In x (sh_consumed (cancel_and_read o s x)).
Proof. apply do_read_consumes. Qed.
Lemma cancel_and_read_mono o s x y : In y (sh_consumed s) -> In y (sh_consumed (cancel_and_read o s x)).
Proof.
  intros H. unfold cancel_and_read. apply do_read_consumed_mono. destruct (cmem x (sh_consumed s)); assumption.
Qed.
Lemma cancel_and_read_cancelled o s x y :
  In y (sh_cancelled (cancel_and_read o s x)) -> In y (sh_cancelled s) \/ (y = x /\ ~ In x (sh_consumed s)).
Proof.
  unfold cancel_and_read. rewrite do_read_cancelled. destruct (cmem x (sh_consumed s)) eqn:E; [auto|].
  cbn [sh_cancelled]. intros H. apply in_app_or in H. destruct H as [H|[H|[]]]; [left; assumption|].
  right. split; [symmetry; assumption | apply cmem_false; assumption].
Qed.

Lemma interrupt_block_inv o l : forall s, shut_inv o s -> shut_inv o (interrupt_block o l s).
Proof. unfold interrupt_block. induction l as [|x l IH]; cbn [fold_left]; intros s H; [assumption|]. apply IH, cancel_and_read_inv, H. Qed.
Lemma interrupt_block_mono o l y : forall s, In y (sh_consumed s) -> In y (sh_consumed (interrupt_block o l s)).
Proof. unfold interrupt_block. induction l as [|x l IH]; cbn [fold_left]; intros s H; [assumption|]. apply IH, cancel_and_read_mono, H. Qed.
Lemma interrupt_block_consumes o l y : forall s, In y l -> In y (sh_consumed (interrupt_block o l s)).
Proof.
  unfold interrupt_block. induction l as [|x l IH]; cbn [fold_left]; intros s H; [destruct H|].
  destruct H as [->|H]; [|apply IH, H]. apply (interrupt_block_mono o l y), cancel_and_read_consumes.
Qed.
Lemma interrupt_block_cancelled o l y : forall s,
  In y (sh_cancelled (interrupt_block o l s)) -> In y (sh_cancelled s) \/ (In y l /\ ~ In y (sh_consumed s)).
Proof.
  unfold interrupt_block. induction l as [|x l IH]; cbn [fold_left]; intros s H; [left; assumption|].
  apply IH in H. destruct H as [H|[H1 H2]].
  - apply cancel_and_read_cancelled in H. destruct H as [H|[-> H]]; [left; assumption | right; split; [left; reflexivity | assumption]].
  - right. split; [right; assumption|]. intros Hc. apply H2, cancel_and_read_mono, Hc.
Qed.

Lemma stage_inv fixed o own cl : forall fuel watched ch s,
  shut_inv o s -> shut_inv o (fst (fst (stage fixed fuel o own cl watched ch s))).
Proof.
  induction fuel as [|fuel IH]; intros watched ch s H; cbn [stage].
  - cbn [fst]. apply do_read_inv, H.
  - destruct (choose ch own watched) as [x ch']. destruct (comp_eqb x own); [cbn [fst]; apply do_read_inv, H|].
    pose proof (do_read_inv o x false s H) as H1. destruct (do_read o x false s) as [s' v]. cbn [fst] in H1.
    destruct v as [|k v]; [destruct fixed|]; try (cbn [fst]; apply interrupt_block_inv, H1). apply IH, H1.
Qed.
(** a stage ends with its own component read, provided its interrupt block names it *)
Lemma stage_consumes_own fixed o own cl : In own cl -> forall fuel watched ch s,
  In own (sh_consumed (fst (fst (stage fixed fuel o own cl watched ch s)))).
Proof.
  intros Hcl. induction fuel as [|fuel IH]; intros watched ch s; cbn [stage].
  - cbn [fst]. apply do_read_consumes.
  - destruct (choose ch own watched) as [x ch']. destruct (comp_eqb x own); [cbn [fst]; apply do_read_consumes|].
    destruct (do_read o x false s) as [s' v].
    destruct v as [|k v]; [destruct fixed|]; try (cbn [fst]; apply interrupt_block_consumes, Hcl). apply IH.
Qed.
Lemma stage_mono fixed o own cl y : forall fuel watched ch s,
  In y (sh_consumed s) -> In y (sh_consumed (fst (fst (stage fixed fuel o own cl watched ch s)))).
Proof.
  induction fuel as [|fuel IH]; intros watched ch s H; cbn [stage].
  - cbn [fst]. apply do_read_consumed_mono, H.
  - destruct (choose ch own watched) as [x ch']. destruct (comp_eqb x own); [cbn [fst]; apply do_read_consumed_mono, H|].
    pose proof (do_read_consumed_mono o x false s y H) as H1. destruct (do_read o x false s) as [s' v]. cbn [fst] in H1.
    destruct v as [|k v]; [destruct fixed|]; try (cbn [fst]; apply interrupt_block_mono, H1). apply IH, H1.
Qed.

Lemma stage3_inv o ch s : shut_inv o s -> shut_inv o (fst (stage3 o ch s)).
Proof.
  intros H. unfold stage3. destruct (choose ch CA [CC]) as [x ch']. destruct (comp_eqb x CA); cbn [fst].
  - apply do_read_inv, H.
  - apply interrupt_block_inv, do_read_inv, H.
Qed.
Lemma stage3_consumes o ch s : In CA (sh_consumed (fst (stage3 o ch s))).
Proof.
  unfold stage3. destruct (choose ch CA [CC]) as [x ch']. destruct (comp_eqb x CA); cbn [fst].
  - apply do_read_consumes.
  - apply interrupt_block_consumes. left; reflexivity.
Qed.
Lemma stage3_mono o ch s y : In y (sh_consumed s) -> In y (sh_consumed (fst (stage3 o ch s))).
Proof.
  intros H. unfold stage3. destruct (choose ch CA [CC]) as [x ch']. destruct (comp_eqb x CA); cbn [fst].
  - apply do_read_consumed_mono, H.
  - apply interrupt_block_mono, do_read_consumed_mono, H.
Qed.

Lemma conduct_run_inv fixed ch o : shut_inv o (conduct_run fixed ch o).
Proof.
  unfold conduct_run.
  pose proof (stage_inv fixed o CP [CP; CS; CA; CC] 4 [CS; CA; CC] ch shut0 (shut0_inv o)) as H1.
  destruct (stage fixed 4 o CP [CP; CS; CA; CC] [CS; CA; CC] ch shut0) as [[s1 w1] ch1]. cbn [fst] in H1.
  pose proof (stage_inv fixed o CS [CS; CA; CC] 3 (cremove CS w1) ch1 s1 H1) as H2.
  destruct (stage fixed 3 o CS [CS; CA; CC] (cremove CS w1) ch1 s1) as [[s2 w2] ch2]. cbn [fst] in H2.
  pose proof (stage3_inv o ch2 s2 H2) as H3. destruct (stage3 o ch2 s2) as [s3 ch3]. cbn [fst] in H3.
  apply do_read_inv, H3.
Qed.

Lemma conduct_run_consumes_all fixed ch o x : In x (sh_consumed (conduct_run fixed ch o)).
Proof.
  unfold conduct_run.
  pose proof (stage_consumes_own fixed o CP [CP; CS; CA; CC] (or_introl eq_refl) 4 [CS; CA; CC] ch shut0) as P1.
  destruct (stage fixed 4 o CP [CP; CS; CA; CC] [CS; CA; CC] ch shut0) as [[s1 w1] ch1]. cbn [fst] in P1.
  pose proof (stage_consumes_own fixed o CS [CS; CA; CC] (or_introl eq_refl) 3 (cremove CS w1) ch1 s1) as S2.
  pose proof (stage_mono fixed o CS [CS; CA; CC] CP 3 (cremove CS w1) ch1 s1 P1) as P2.
  destruct (stage fixed 3 o CS [CS; CA; CC] (cremove CS w1) ch1 s1) as [[s2 w2] ch2]. cbn [fst] in S2, P2.
  pose proof (stage3_consumes o ch2 s2) as A3.
  pose proof (stage3_mono o ch2 s2 CP P2) as P3. pose proof (stage3_mono o ch2 s2 CS S2) as S3.
  destruct (stage3 o ch2 s2) as [s3 ch3]. cbn [fst] in A3, P3, S3.
  destruct x; [apply do_read_consumed_mono, P3 | apply do_read_consumed_mono, S3 | apply do_read_consumed_mono, A3 | apply do_read_consumes].
Qed.

(** Every component's channel is read exactly once that finds its value,
    whatever the selects choose. *)
Theorem conduct_reads_each_component_once fixed ch o :
  NoDup (map fst (sh_reads (conduct_run fixed ch o))) /\ forall x, In x (map fst (sh_reads (conduct_run fixed ch o))).
Proof.
  destruct (conduct_run_inv fixed ch o) as (Hc & Hn & _). rewrite Hc in Hn. split.
  - apply NoDup_rev in Hn. rewrite rev_involutive in Hn. exact Hn.
  - intros x. pose proof (conduct_run_consumes_all fixed ch o x) as H. rewrite Hc in H. apply in_rev in H. exact H.
Qed.

Lemma exit_nonzero_concat l : exit_nonzero (List.concat l) = existsb exit_nonzero l.
Proof.
  induction l as [|r rs IH]; cbn; [reflexivity|]. fold (combine r (List.concat rs)). rewrite exit_nonzero_app, IH. reflexivity.
Qed.
Lemma stages_nonzero fixed ch o :
  exit_nonzero (stages fixed ch o) = existsb (fun r => exit_nonzero (read_value o r)) (sh_reads (conduct_run fixed ch o)).
Proof.
  unfold stages. destruct (conduct_run_inv fixed ch o) as (_ & _ & ->). unfold fin_of.
  rewrite exit_nonzero_concat.
  generalize (sh_reads (conduct_run fixed ch o)). intros l.
  assert (G : forall (f : err -> bool) (m : list err), existsb f (rev m) = existsb f m).
  { intros f m. induction m as [|a m IH]; cbn; [reflexivity|]. rewrite existsb_app, IH. cbn. rewrite orb_false_r. apply orb_comm. }
  rewrite G. induction l as [|r l IH]; cbn; [reflexivity|]. rewrite IH. reflexivity.
Qed.

(** F1: a non-nil audit verdict always reaches conduct's return value. *)
Theorem funnel_keeps_audit_verdict fixed ch o verdict cleanup :
  exit_nonzero verdict = true -> exit_nonzero (conduct_result fixed ch o verdict cleanup) = true.
Proof.
  intros Hv. unfold conduct_result. apply exit_nonzero_app_l.
  destruct (is_last KAudit (stages fixed ch o)) eqn:E.
  - destruct (stages fixed ch o); [discriminate | reflexivity].
  - apply exit_nonzero_app_r; assumption.
Qed.

(** F2: a cleanup failure always does. *)
Theorem funnel_keeps_cleanup_failure fixed ch o verdict cleanup :
  exit_nonzero cleanup = true -> exit_nonzero (conduct_result fixed ch o verdict cleanup) = true.
Proof. intros H. unfold conduct_result. apply exit_nonzero_app_r; assumption. Qed.

(** F3: so does the error of any component, for every choice of the selects,
    unless that error presents itself as a cancellation (its last cause is a
    context cancellation). *)
Theorem funnel_keeps_component_errors fixed ch o verdict cleanup x :
  exit_nonzero (comp_err o x) = true -> is_last KCancel (comp_err o x) = false ->
  exit_nonzero (conduct_result fixed ch o verdict cleanup) = true.
Proof.
  intros Hn Hc. unfold conduct_result. apply exit_nonzero_app_l.
  assert (Hs : exit_nonzero (stages fixed ch o) = true).
  { rewrite stages_nonzero. apply existsb_exists.
    destruct (conduct_reads_each_component_once fixed ch o) as (_ & Hall). specialize (Hall x).
    apply in_map_iff in Hall. destruct Hall as ([y ig] & E & Hin). cbn in E. subst y.
    exists (x, ig). split; [assumption|]. unfold read_value. cbn [fst snd]. destruct ig; [rewrite (ign_keeps _ Hc)|]; assumption. }
  destruct (is_last KAudit (stages fixed ch o)); [assumption | apply exit_nonzero_app_l; assumption].
Qed.

(** F4: and nothing else does: a non-zero status has a cause. *)
Theorem funnel_no_spurious_foul fixed ch o verdict cleanup :
  exit_nonzero (conduct_result fixed ch o verdict cleanup) = true ->
  exit_nonzero verdict = true \/ exit_nonzero cleanup = true \/
  exists x, exit_nonzero (comp_err o x) = true.
Proof.
  unfold conduct_result. rewrite exit_nonzero_app. intros H. apply orb_true_iff in H.
  destruct H as [H|H]; [|right; left; assumption].
  assert (Hs : exit_nonzero (stages fixed ch o) = true -> exists x, exit_nonzero (comp_err o x) = true).
  { rewrite stages_nonzero. intros Hx. apply existsb_exists in Hx. destruct Hx as ([x ig] & _ & Hx).
    exists x. unfold read_value in Hx. cbn [fst snd] in Hx. destruct ig; [|assumption].
    unfold ign_cancel in Hx. destruct (is_last KCancel (comp_err o x)); [discriminate | assumption]. }
  destruct (is_last KAudit (stages fixed ch o)).
  - right; right. apply Hs; assumption.
  - rewrite exit_nonzero_app in H. apply orb_true_iff in H. destruct H as [H|H]; [right; right; apply Hs; assumption | left; assumption].
Qed.

(** The weak point of the funnel, stated: a component error whose last cause
    is a cancellation is dropped when it is not the first to be delivered —
    even if it carries a real cause.  (In the code the collector builds such
    values, [audit violation; cancellation]; the deferred re-check of F1 is
    what restores the verdict.) *)
Theorem funnel_drops_cancel_last_refuted :
  exists ch o, exit_nonzero (o_a o) = true /\ existsb (fun k => match k with KReal => true | _ => false end) (o_a o) = true /\
               conduct_result true ch o [] [] = [].
Proof.
  exists [CP; CS; CC], {| o_p := []; o_s := []; o_a := [KReal; KCancel]; o_c := [] |}. vm_compute. repeat split.
Qed.

(** ** The collector is never cancelled in a play without failures

    conduct cancels a component's context in the interrupt block of a stage.
    For the collector that drops the reports still queued for it, and with
    them the verdict.  In the code as it is now, that only happens when
    another component has delivered an error. *)
Lemma stage_cancelled_cc o own cl : forall fuel watched ch s,
  In CC (sh_cancelled (fst (fst (stage true fuel o own cl watched ch s)))) ->
  In CC (sh_cancelled s) \/ exists x, x <> CC /\ comp_err o x <> [].
Proof.
  induction fuel as [|fuel IH]; intros watched ch s; cbn [stage].
  - cbn [fst]. rewrite do_read_cancelled. auto.
  - destruct (choose ch own watched) as [x ch']. destruct (comp_eqb x own); [cbn [fst]; rewrite do_read_cancelled; auto|].
    pose proof (do_read_cancelled o x false s) as Hk. pose proof (do_read_value o x false s) as Hv.
    pose proof (do_read_consumes o x false s) as Hx.
    destruct (do_read o x false s) as [s' v]. cbn [fst snd] in Hk, Hv, Hx.
    destruct v as [|k v].
    + intros H. apply IH in H. rewrite Hk in H. exact H.
    + cbn [fst]. intros H. apply interrupt_block_cancelled in H. rewrite Hk in H. destruct H as [H|[_ H]]; [left; exact H|].
      right. exists x. split.
      * intros ->. apply H, Hx.
      * destruct Hv as [Hv|Hv]; [discriminate|]. rewrite <- Hv. discriminate.
Qed.
Lemma stage3_cancelled_cc o ch s : In CC (sh_cancelled (fst (stage3 o ch s))) -> In CC (sh_cancelled s).
Proof.
  unfold stage3. destruct (choose ch CA [CC]) as [x ch']. destruct (comp_eqb x CA); cbn [fst].
  - rewrite do_read_cancelled. auto.
  - intros H. apply interrupt_block_cancelled in H. rewrite do_read_cancelled in H. destruct H as [H|[_ H]]; [exact H|].
    exfalso. apply H, do_read_consumes.
Qed.

Theorem collector_cancelled_only_after_a_failure ch o :
  In CC (sh_cancelled (conduct_run true ch o)) -> exists x, x <> CC /\ comp_err o x <> [].
Proof.
  unfold conduct_run.
  pose proof (stage_cancelled_cc o CP [CP; CS; CA; CC] 4 [CS; CA; CC] ch shut0) as H1.
  destruct (stage true 4 o CP [CP; CS; CA; CC] [CS; CA; CC] ch shut0) as [[s1 w1] ch1]. cbn [fst] in H1.
  pose proof (stage_cancelled_cc o CS [CS; CA; CC] 3 (cremove CS w1) ch1 s1) as H2.
  destruct (stage true 3 o CS [CS; CA; CC] (cremove CS w1) ch1 s1) as [[s2 w2] ch2]. cbn [fst] in H2.
  pose proof (stage3_cancelled_cc o ch2 s2) as H3. destruct (stage3 o ch2 s2) as [s3 ch3]. cbn [fst] in H3.
  rewrite do_read_cancelled. intros H. apply H3 in H. apply H2 in H. destruct H as [H|H]; [|exact H].
  apply H1 in H. destruct H as [[]|H]. exact H.
Qed.

(** In the pinned code this was false: the audition ending (without error)
    before the spotlight supervisor had reported made the second stage cancel
    the collector. *)
Theorem pinned_code_cancelled_the_collector_refuted :
  exists ch o, o_p o = [] /\ o_s o = [] /\ o_a o = [] /\ In CC (sh_cancelled (conduct_run false ch o)).
Proof. exists [CP; CA], {| o_p := []; o_s := []; o_a := []; o_c := [] |}. vm_compute. repeat split. right. left. reflexivity. Qed.

(** End to end, for a play whose commands do not fail: whatever the selects
    choose, the collector is left to process every report and the exit status
    is the verdict over all of them. *)
Definition verdict_err (cfg : list (string * fc)) (t : tally) : err := if fouled cfg t then [KAudit] else [].
Theorem failure_free_play_exits_by_the_verdict ch cfg rs t st :
  collector_run cfg false tally0 rs = (t, st) ->
  let o := {| o_p := []; o_s := []; o_a := []; o_c := verdict_err cfg t |} in
  ~ In CC (sh_cancelled (conduct_run true ch o)) /\
  exit_nonzero (conduct_result true ch o (verdict_err cfg t) []) = fouled cfg t.
Proof.
  intros _ o. split.
  - intros H. apply collector_cancelled_only_after_a_failure in H. destruct H as (x & Hx & Hv).
    destruct x; cbn in Hv; congruence.
  - unfold verdict_err in *. destruct (fouled cfg t) eqn:F.
    + apply funnel_keeps_audit_verdict. reflexivity.
    + destruct (exit_nonzero (conduct_result true ch o [] [])) eqn:E; [|reflexivity].
      apply funnel_no_spurious_foul in E. destruct E as [E|[E|(x & E)]]; try discriminate.
      destruct x; cbn in E; try discriminate; try (subst o; cbn in E; rewrite F in E; discriminate).
Qed.

(** collectErrors drops no failure: the combined error is non-nil iff some
    result is, whatever the completion order and the number of nil results
    before it. *)
Theorem collect_errors_keeps_failures rs :
  exit_nonzero (collect_errors rs) = existsb exit_nonzero rs.
Proof.
  unfold collect_errors. induction rs as [|r rs IH]; cbn; [reflexivity|].
  fold (combine r (List.concat rs)). rewrite exit_nonzero_app, IH. reflexivity.
Qed.
