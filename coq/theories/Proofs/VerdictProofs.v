(** Proofs about Model/Verdict.v (property C03). *)
From Shk Require Import Base.Prelude Model.Verdict.
From Coq Require Import String.
Open Scope list_scope.

(** * Interpretation: per (auditor, result) pair the last applicable clause decides *)

(** The setting of one (auditor, result) pair followed through the file:
    [None] until the auditor is first mentioned, then the default, then
    whatever the latest applicable clause says. *)
Definition track1 (a : string) (r : res) (cur : option fcond) (i : item) : option fcond :=
  match i with
  | IMember b => if String.eqb a b then match cur with None => Some (get_res r default_fc) | _ => cur end else cur
  | IIgnoreAll r' => if res_eqb r r' then match cur with Some _ => Some FIgnore | None => None end else cur
  | ISet m b r' => if String.eqb a b && res_eqb r r' then match cur with Some _ => Some m | None => None end else cur
  end.
Definition track (a : string) (r : res) (is : list item) : option fcond := fold_left (track1 a r) is None.

Definition setting (a : string) (r : res) (cfg : list (string * fc)) : option fcond :=
  option_map (get_res r) (assoc_get a cfg).

Lemma get_set_res r r' m x : get_res r (set_res r' m x) = if res_eqb r r' then m else get_res r x.
Proof. destruct r, r', x; reflexivity. Qed.

Lemma assoc_get_app_other a b x l : String.eqb a b = false -> assoc_get a (l ++ [(b, x)]) = assoc_get a l.
Proof.
  intros H. induction l as [|[c y] l IH]; cbn; [rewrite H; reflexivity|].
  destruct (String.eqb a c); [reflexivity | exact IH].
Qed.
Lemma assoc_get_app_new a x l : assoc_get a l = None -> assoc_get a (l ++ [(a, x)]) = Some x.
Proof.
  induction l as [|[c y] l IH]; cbn; [rewrite String.eqb_refl; reflexivity|].
  destruct (String.eqb a c); [discriminate | exact IH].
Qed.
Lemma assoc_get_map a f l :
  assoc_get a (map (fun '(b, x) => (b, f x)) l) = option_map f (assoc_get a l).
Proof.
  induction l as [|[c y] l IH]; cbn; [reflexivity|]. destruct (String.eqb a c); [reflexivity | exact IH].
Qed.
Lemma assoc_set_get a b f l l' :
  assoc_set b f l = Some l' ->
  assoc_get a l' = if String.eqb a b then option_map f (assoc_get a l) else assoc_get a l.
Proof.
  revert l'. induction l as [|[c y] l IH]; intros l'; cbn; [discriminate|].
  destruct (String.eqb b c) eqn:Ebc.
  - intros H; inversion H; subst; clear H. apply String.eqb_eq in Ebc. subst c. cbn.
    destruct (String.eqb a b); reflexivity.
  - destruct (assoc_set b f l) as [r|] eqn:Es; [|discriminate]. intros H; inversion H; subst; clear H. cbn.
    destruct (String.eqb a c) eqn:Eac.
    + apply String.eqb_eq in Eac. subst c. rewrite String.eqb_sym in Ebc. rewrite Ebc. reflexivity.
    + apply IH. reflexivity.
Qed.
Lemma assoc_set_defined b f l l' : assoc_set b f l = Some l' -> assoc_get b l <> None.
Proof.
  revert l'. induction l as [|[c y] l IH]; intros l'; cbn; [discriminate|].
  destruct (String.eqb b c); [discriminate|].
  destruct (assoc_set b f l) as [r|] eqn:Es; [|discriminate]. intros _. eapply IH; reflexivity.
Qed.

Lemma apply_item_track a r l i l' :
  apply_item l i = Some l' -> setting a r l' = track1 a r (setting a r l) i.
Proof.
  unfold setting. destruct i as [b|r'|m b r']; cbn [apply_item track1].
  - destruct (assoc_get b l) as [x|] eqn:Eb.
    + intros H; inversion H; subst. destruct (String.eqb a b) eqn:E; [|reflexivity].
      apply String.eqb_eq in E. subst b. rewrite Eb. reflexivity.
    + intros H; inversion H; subst. destruct (String.eqb a b) eqn:E.
      * apply String.eqb_eq in E. subst b. rewrite (assoc_get_app_new _ _ _ Eb), Eb. reflexivity.
      * rewrite (assoc_get_app_other _ _ _ _ E). reflexivity.
  - intros H; inversion H; subst. rewrite assoc_get_map.
    destruct (assoc_get a l) as [x|]; cbn; [|destruct (res_eqb r r'); reflexivity].
    rewrite get_set_res. destruct (res_eqb r r'); reflexivity.
  - intros H. rewrite (assoc_set_get a b _ _ _ H).
    destruct (String.eqb a b) eqn:E; cbn [andb]; [|reflexivity].
    destruct (assoc_get a l) as [x|]; cbn; [|destruct (res_eqb r r'); reflexivity].
    rewrite get_set_res. destruct (res_eqb r r'); reflexivity.
Qed.

Lemma interp_track_from a r is : forall l cfg,
  interp l is = Some cfg -> setting a r cfg = fold_left (track1 a r) is (setting a r l).
Proof.
  induction is as [|i is IH]; intros l cfg; cbn [interp fold_left].
  - intros H; inversion H; reflexivity.
  - destruct (apply_item l i) as [l'|] eqn:E; [|discriminate]. intros H.
    rewrite (IH _ _ H), (apply_item_track _ _ _ _ _ E). reflexivity.
Qed.

Theorem interp_tracks a r is cfg :
  interp [] is = Some cfg -> setting a r cfg = track a r is.
Proof. intros H. apply (interp_track_from a r is [] cfg H). Qed.

(** "Last wins", spelled out on [track]. *)
Lemma track_app a r is i : track a r (is ++ [i]) = track1 a r (track a r is) i.
Proof. unfold track. rewrite fold_left_app. reflexivity. Qed.

Theorem last_clause_wins a r is m :
  track a r is <> None -> track a r (is ++ [ISet m a r]) = Some m.
Proof.
  intros H. rewrite track_app. cbn. rewrite String.eqb_refl. destruct r; cbn; destruct (track a _ is); congruence.
Qed.
Theorem last_shorthand_wins a r is :
  track a r is <> None -> track a r (is ++ [IIgnoreAll r]) = Some FIgnore.
Proof. intros H. rewrite track_app. cbn. destruct r; cbn; destruct (track a _ is); congruence. Qed.
Theorem other_pair_untouched a r is m b r' :
  (a, r) <> (b, r') -> track a r (is ++ [ISet m b r']) = track a r is.
Proof.
  intros H. rewrite track_app. cbn.
  destruct (String.eqb a b) eqn:E1, (res_eqb r r') eqn:E2; cbn; try reflexivity.
  exfalso. apply H. apply String.eqb_eq in E1. destruct r, r'; try discriminate; subst; reflexivity.
Qed.
Theorem shorthand_spares_later_members a r is is' :
  track a r is = None -> track a r (is ++ [IIgnoreAll r] ++ [IMember a] ++ is') = fold_left (track1 a r) is' (Some (get_res r default_fc)).
Proof.
  intros H. unfold track in *. rewrite !fold_left_app, H. cbn. rewrite String.eqb_refl.
  destruct r; reflexivity.
Qed.

(** * The verdict is exactly the documented rule *)

Lemma assoc_get_in a l x : assoc_get a l = Some x -> In (a, x) l.
Proof.
  induction l as [|[c y] l IH]; cbn; [discriminate|]. destruct (String.eqb a c) eqn:E.
  - intros H; inversion H; subst. apply String.eqb_eq in E. subst. left; reflexivity.
  - intros H. right. apply IH; assumption.
Qed.

Definition documented_foul (cfg : list (string * fc)) (t : tally) : Prop :=
  0 < t_errors t \/
  exists a x, In (a, x) cfg /\ assoc_get a cfg = Some x /\ has_data a t = true /\
    ( (fst x = FNonZero /\ 0 < count_of a (t_bad t)) \/ (fst x = FZero /\ count_of a (t_bad t) = 0)
   \/ (snd x = FNonZero /\ 0 < count_of a (t_good t)) \/ (snd x = FZero /\ count_of a (t_good t) = 0)).

Lemma fouled_by_true m cnt : fouled_by m cnt true = true <-> (m = FNonZero /\ 0 < cnt) \/ (m = FZero /\ cnt = 0).
Proof.
  destruct m; unfold fouled_by.
  - split; [discriminate | intros [[H _]|[H _]]; discriminate].
  - rewrite Nat.ltb_lt. split; [auto | intros [[_ H]|[H _]]; [assumption|discriminate]].
  - rewrite andb_true_r, Nat.eqb_eq. split; [auto | intros [[H _]|[_ H]]; [discriminate|assumption]].
Qed.

Theorem fouled_iff_documented cfg t :
  NoDup (map fst cfg) -> (fouled cfg t = true <-> documented_foul cfg t).
Proof.
  intros Hnd. unfold fouled, documented_foul. rewrite orb_true_iff, Nat.ltb_lt, existsb_exists. split.
  - intros [H|[[a x] [Hin H]]]; [left; assumption|]. right.
    apply andb_true_iff in H. destruct H as [Hd Hm]. unfold member_fouls in Hm.
    destruct (assoc_get a cfg) as [y|] eqn:Ea; [|discriminate].
    exists a, y. split; [apply assoc_get_in; assumption|]. split; [exact Ea|]. split; [assumption|].
    apply orb_true_iff in Hm. rewrite !fouled_by_true in Hm. tauto.
  - intros [H|(a & x & Hin & Hg & Hd & H)]; [left; assumption|]. right.
    exists (a, x). split; [assumption|]. rewrite Hd. cbn. unfold member_fouls. rewrite Hg.
    apply orb_true_iff. rewrite !fouled_by_true. tauto.
Qed.

(** * -S never turns a foul into a success (nor a success into a foul) *)

Lemma count_incr_same a l : count_of a (incr a l) = S (count_of a l).
Proof. induction l as [|[b n] l IH]; cbn; [rewrite String.eqb_refl; reflexivity|].
  destruct (String.eqb a b) eqn:E; cbn; rewrite E; [reflexivity | exact IH]. Qed.
Lemma count_incr_other a b l : String.eqb a b = false -> count_of a (incr b l) = count_of a l.
Proof.
  intros H. induction l as [|[c n] l IH]; cbn; [rewrite H; reflexivity|].
  destruct (String.eqb b c) eqn:E; cbn.
  - apply String.eqb_eq in E. subst c. rewrite H. reflexivity.
  - destruct (String.eqb a c); [reflexivity | exact IH].
Qed.
Lemma count_incr_le a b l : count_of a l <= count_of a (incr b l).
Proof.
  destruct (String.eqb a b) eqn:E.
  - apply String.eqb_eq in E. subst. rewrite count_incr_same. lia.
  - rewrite count_incr_other by assumption. lia.
Qed.

Definition tally_le (t1 t2 : tally) : Prop :=
  t_errors t1 <= t_errors t2 /\
  (forall a, count_of a (t_bad t1) <= count_of a (t_bad t2)) /\
  (forall a, count_of a (t_good t1) <= count_of a (t_good t2)) /\
  (forall a, has_data a t1 = true -> has_data a t2 = true).

Lemma tally_le_refl t : tally_le t t.
Proof. repeat split; auto. Qed.
Lemma tally_le_trans t1 t2 t3 : tally_le t1 t2 -> tally_le t2 t3 -> tally_le t1 t3.
Proof. intros (A1 & B1 & C1 & D1) (A2 & B2 & C2 & D2). repeat split; intros; eauto using Nat.le_trans. Qed.

Lemma has_data_add a t r : has_data a t = true -> has_data a (add_report t r) = true.
Proof.
  destruct r as [b code]. unfold add_report, has_data at 2.
  intros H.
  assert (Hx : existsb (String.eqb a) (if has_data b t then t_hasdata t else t_hasdata t ++ [b]) = true).
  { destruct (has_data b t); [exact H|]. rewrite existsb_app. unfold has_data in H. rewrite H. reflexivity. }
  destruct (Z.eqb code 1); [exact Hx|]. destruct (Z.eqb code 0); [exact Hx|]. destruct (Z.eqb code 2); exact Hx.
Qed.
Lemma has_data_added a code t : has_data a (add_report t (a, code)) = true.
Proof.
  unfold add_report.
  assert (Hx : existsb (String.eqb a) (if has_data a t then t_hasdata t else t_hasdata t ++ [a]) = true).
  { destruct (has_data a t) eqn:E; [exact E|]. rewrite existsb_app. cbn. rewrite String.eqb_refl, orb_true_r. reflexivity. }
  destruct (Z.eqb code 1); [exact Hx|]. destruct (Z.eqb code 0); [exact Hx|]. destruct (Z.eqb code 2); exact Hx.
Qed.

Lemma add_report_le t r : tally_le t (add_report t r).
Proof.
  destruct r as [b code]. unfold tally_le. split; [|split; [|split]].
  - unfold add_report. destruct (Z.eqb code 1); cbn; [lia|]. destruct (Z.eqb code 0); cbn; [lia|]. destruct (Z.eqb code 2); cbn; lia.
  - intros a. unfold add_report. destruct (Z.eqb code 1); cbn; [lia|]. destruct (Z.eqb code 0); cbn; [lia|].
    destruct (Z.eqb code 2); cbn; [apply count_incr_le | lia].
  - intros a. unfold add_report. destruct (Z.eqb code 1); cbn; [lia|]. destruct (Z.eqb code 0); cbn; [apply count_incr_le|].
    destruct (Z.eqb code 2); cbn; lia.
  - intros a. apply has_data_add.
Qed.

Lemma collector_run_le cfg early rs : forall t t' st, collector_run cfg early t rs = (t', st) -> tally_le t t'.
Proof.
  induction rs as [|r rs IH]; intros t t' st; cbn [collector_run].
  - intros H; inversion H; apply tally_le_refl.
  - destruct (early && early_stop cfg (add_report t r) r).
    + intros H; inversion H; subst. apply add_report_le.
    + intros H. eapply tally_le_trans; [apply add_report_le | eapply IH; eassumption].
Qed.

(** an ACTIVE foul (error recorded, or a `foul upon` count above zero for an
    auditor that has data) stays one when the tallies grow *)
Definition active_foul (cfg : list (string * fc)) (t : tally) : Prop :=
  0 < t_errors t \/
  exists a x, assoc_get a cfg = Some x /\ has_data a t = true /\
    ((fst x = FNonZero /\ 0 < count_of a (t_bad t)) \/ (snd x = FNonZero /\ 0 < count_of a (t_good t))).

Lemma active_foul_mono cfg t1 t2 : tally_le t1 t2 -> active_foul cfg t1 -> active_foul cfg t2.
Proof.
  intros (A & B & C & D) [H|(a & x & Hg & Hd & H)]; [left; lia|]. right. exists a, x.
  split; [assumption|]. split; [auto|]. destruct H as [[H1 H2]|[H1 H2]]; [left|right]; split; auto.
  - specialize (B a). lia.
  - specialize (C a). lia.
Qed.

Lemma active_foul_fouled cfg t : active_foul cfg t -> fouled cfg t = true.
Proof.
  unfold fouled. intros [H|(a & x & Hg & Hd & H)]; apply orb_true_iff; [left; apply Nat.ltb_lt; assumption|].
  right. apply existsb_exists. exists (a, x). split; [apply assoc_get_in; assumption|].
  rewrite Hd. cbn. unfold member_fouls. rewrite Hg. apply orb_true_iff.
  destruct H as [[H1 H2]|[H1 H2]]; [left|right]; rewrite H1; unfold fouled_by; apply Nat.ltb_lt; assumption.
Qed.

Lemma early_stop_active cfg t r : early_stop cfg (add_report t r) r = true -> active_foul cfg (add_report t r).
Proof.
  destruct r as [a code]. unfold early_stop. destruct (Z.eqb code 3) eqn:E3; [discriminate|].
  destruct (Z.eqb code 1) eqn:E1.
  - intros _. left. unfold add_report. rewrite E1. cbn. lia.
  - unfold member_fouls. destruct (assoc_get a cfg) as [x|] eqn:Eg; [|discriminate].
    intros H. right. exists a, x. split; [exact Eg|]. split; [apply has_data_added|].
    apply orb_true_iff in H. destruct H as [H|H]; [left|right];
      (destruct x as [mb mg]; cbn [fst snd] in *;
       match type of H with fouled_by ?m _ _ = true => destruct m; unfold fouled_by in H; try discriminate end;
       [split; [reflexivity | apply Nat.ltb_lt; assumption] | rewrite andb_false_r in H; discriminate]).
Qed.

(** The theorem: with -S the collector either stops early, and then both the
    truncated and the full run are fouled; or it does not, and then it computes
    exactly the same tallies. *)
Theorem early_exit_never_changes_the_verdict cfg rs t_full t_early stopped stx :
  collector_run cfg false tally0 rs = (t_full, stx) ->
  collector_run cfg true tally0 rs = (t_early, stopped) ->
  (stopped = true -> fouled cfg t_early = true /\ fouled cfg t_full = true) /\
  (stopped = false -> t_early = t_full).
Proof.
  generalize tally0 as t. revert t_full t_early stopped stx.
  induction rs as [|r rs IH]; intros t_full t_early stopped stx t; cbn [collector_run andb].
  - intros H1 H2; inversion H1; inversion H2; subst. split; [discriminate | reflexivity].
  - destruct (early_stop cfg (add_report t r) r) eqn:Es.
    + intros H1 H2; inversion H2; subst; clear H2. split; [|discriminate]. intros _.
      pose proof (early_stop_active _ _ _ Es) as Ha. split; [apply active_foul_fouled; assumption|].
      apply active_foul_fouled. eapply active_foul_mono; [|exact Ha]. eapply collector_run_le; eassumption.
    + intros H1 H2. eapply IH; eassumption.
Qed.

(** * The error funnel of conduct *)

Lemma exit_nonzero_app_l a b : exit_nonzero a = true -> exit_nonzero (combine a b) = true.
Proof. destruct a; [discriminate | reflexivity]. Qed.
Lemma exit_nonzero_app_r a b : exit_nonzero b = true -> exit_nonzero (combine a b) = true.
Proof. destruct a; cbn; auto. Qed.
Lemma exit_nonzero_app a b : exit_nonzero (combine a b) = exit_nonzero a || exit_nonzero b.
Proof. destruct a; reflexivity. Qed.

Lemma ign_keeps e : is_last KCancel e = false -> ign_cancel e = e.
Proof. unfold ign_cancel. intros ->. reflexivity. Qed.

(** F1: a non-nil audit verdict always reaches conduct's return value. *)
Theorem funnel_keeps_audit_verdict sc o verdict cleanup :
  exit_nonzero verdict = true -> exit_nonzero (conduct_result sc o verdict cleanup) = true.
Proof.
  intros Hv. unfold conduct_result. apply exit_nonzero_app_l.
  destruct (is_last KAudit (stages sc o)) eqn:E.
  - destruct (stages sc o); [discriminate | reflexivity].
  - apply exit_nonzero_app_r; assumption.
Qed.

(** F2: a cleanup failure always does. *)
Theorem funnel_keeps_cleanup_failure sc o verdict cleanup :
  exit_nonzero cleanup = true -> exit_nonzero (conduct_result sc o verdict cleanup) = true.
Proof. intros H. unfold conduct_result. apply exit_nonzero_app_r; assumption. Qed.

Definition comp_err (o : outcome) (x : comp) : err :=
  match x with CP => o_p o | CS => o_s o | CA => o_a o | CC => o_c o end.

(** F3: so does the error of any component, for every order in which the
    components finish, unless that error presents itself as a cancellation
    (its last cause is a context cancellation). *)
Theorem funnel_keeps_component_errors sc o verdict cleanup x :
  exit_nonzero (comp_err o x) = true -> is_last KCancel (comp_err o x) = false ->
  exit_nonzero (conduct_result sc o verdict cleanup) = true.
Proof.
  intros Hn Hc. unfold conduct_result. apply exit_nonzero_app_l.
  assert (Hs : exit_nonzero (stages sc o) = true).
  { destruct x; cbn [comp_err] in *; destruct sc; cbn [stages];
      rewrite ?exit_nonzero_app, ?(ign_keeps _ Hc), ?Hn, ?orb_true_r; reflexivity. }
  destruct (is_last KAudit (stages sc o)); [assumption | apply exit_nonzero_app_l; assumption].
Qed.

(** F4: and nothing else does: a non-zero status has a cause. *)
Theorem funnel_no_spurious_foul sc o verdict cleanup :
  exit_nonzero (conduct_result sc o verdict cleanup) = true ->
  exit_nonzero verdict = true \/ exit_nonzero cleanup = true \/
  exists x, exit_nonzero (comp_err o x) = true.
Proof.
  unfold conduct_result. rewrite exit_nonzero_app. intros H. apply orb_true_iff in H.
  destruct H as [H|H]; [|right; left; assumption].
  assert (Hs : exit_nonzero (stages sc o) = true -> exists x, exit_nonzero (comp_err o x) = true).
  { assert (Hi : forall e, exit_nonzero (ign_cancel e) = true -> exit_nonzero e = true).
    { intros e. unfold ign_cancel. destruct (is_last KCancel e); [discriminate | auto]. }
    destruct sc; cbn [stages]; rewrite !exit_nonzero_app; intros Hx;
      repeat (apply orb_true_iff in Hx; destruct Hx as [Hx|Hx]);
      try apply Hi in Hx;
      first [ exists CP; exact Hx | exists CS; exact Hx | exists CA; exact Hx | exists CC; exact Hx ]. }
  destruct (is_last KAudit (stages sc o)).
  - right; right. apply Hs; assumption.
  - rewrite exit_nonzero_app in H. apply orb_true_iff in H. destruct H as [H|H]; [right; right; apply Hs; assumption | left; assumption].
Qed.

(** The weak point of the funnel, stated: a component error whose last cause
    is a cancellation is dropped when it is not the first to be delivered —
    even if it carries a real cause.  (In the code the collector builds such
    values, [audit violation; cancellation]; the deferred re-check of F1 is
    what restores the verdict.) *)
Theorem funnel_drops_cancel_last_refuted :
  exists sc o, exit_nonzero (o_a o) = true /\ existsb (fun k => match k with KReal => true | _ => false end) (o_a o) = true /\
               conduct_result sc o [] [] = [].
Proof.
  exists SchS, {| o_p := []; o_s := []; o_a := [KReal; KCancel]; o_c := [] |}. vm_compute. repeat split.
Qed.

(** collectErrors drops no failure: the combined error is non-nil iff some
    result is, whatever the completion order and the number of nil results
    before it. *)
Theorem collect_errors_keeps_failures rs :
  exit_nonzero (collect_errors rs) = existsb exit_nonzero rs.
Proof.
  unfold collect_errors. induction rs as [|r rs IH]; cbn; [reflexivity|].
  fold (combine r (List.concat rs)). rewrite exit_nonzero_app, IH. reflexivity.
Qed.
