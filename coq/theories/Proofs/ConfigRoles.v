(** Oracle assumptions, lookups in lists with unique names; replay of the printed title / author / attention and role clauses (C10). *)
From Coq Require Import String Permutation.
From Shk Require Import Base.Prelude Model.Storyline Model.Config.
From Shk Require Import Proofs.ConfigText.
Open Scope Z_scope.

(** What the theorems assume of the time library. *)
Definition oracle_ok (orc : oracles) : Prop :=
  (forall d, o_dur_parse orc (o_dur_string orc d) = Some d)
  /\ (forall d, preproc [] (o_dur_string orc d) = Ok (o_dur_string orc d))
  /\ (forall d, bytes_eqb (o_dur_string orc d) unconstrained = false).

(** * Lookups in lists with unique names *)
Lemma nodup_b_app_r l x : nodup_b (l ++ [x]) = nodup_b l && negb (mem_bytes x l).
Proof.
  induction l as [|y l IH]; cbn; [reflexivity|].
  rewrite mem_bytes_app, IH. cbn. rewrite orb_false_r.
  destruct (mem_bytes y l) eqn:E1; cbn; [reflexivity|].
  destruct (bytes_eqb y x) eqn:E2.
  - apply bytes_eqb_eq in E2. subst. rewrite bytes_eqb_refl. cbn. rewrite andb_false_r. reflexivity.
  - assert (bytes_eqb x y = false).
    { destruct (bytes_eqb x y) eqn:E3; [|reflexivity]. apply bytes_eqb_eq in E3. subst. rewrite bytes_eqb_refl in E2. discriminate. }
    rewrite H. cbn. reflexivity.
Qed.

Lemma bytes_eqb_sym a b : bytes_eqb a b = bytes_eqb b a.
Proof.
  destruct (bytes_eqb a b) eqn:E.
  - apply bytes_eqb_eq in E. subst. symmetry. apply bytes_eqb_refl.
  - destruct (bytes_eqb b a) eqn:E2; [|reflexivity]. apply bytes_eqb_eq in E2. subst. rewrite bytes_eqb_refl in E. discriminate.
Qed.

Section Find.
  Context {A : Type} (key : A -> bytes).
  Definition findk (n : bytes) (l : list A) := find (fun x => bytes_eqb n (key x)) l.

  Lemma findk_app_new n l x :
    mem_bytes n (map key l) = false -> findk n (l ++ [x]) = if bytes_eqb n (key x) then Some x else None.
  Proof.
    unfold findk. induction l as [|y l IH]; cbn; [reflexivity|].
    intros H. apply orb_false_elim in H. destruct H as [H1 H2]. rewrite H1. auto.
  Qed.

  Lemma findk_app_old n l x y :
    findk n l = Some y -> findk n (l ++ [x]) = Some y.
  Proof.
    unfold findk. induction l as [|z l IH]; cbn; [discriminate|].
    destruct (bytes_eqb n (key z)); auto.
  Qed.

  Lemma findk_none n l : findk n l = None <-> mem_bytes n (map key l) = false.
  Proof.
    unfold findk. induction l as [|z l IH]; cbn; [tauto|].
    destruct (bytes_eqb n (key z)); cbn; [split; discriminate|exact IH].
  Qed.

  Lemma findk_some_key n l y : findk n l = Some y -> key y = n /\ In y l.
  Proof.
    unfold findk. intros H. apply find_some in H. destruct H as [H1 H2].
    apply bytes_eqb_eq in H2. auto.
  Qed.

  Lemma findk_self l x : mem_bytes (key x) (map key l) = false -> findk (key x) (l ++ [x]) = Some x.
  Proof. intros H. rewrite findk_app_new by exact H. rewrite bytes_eqb_refl. reflexivity. Qed.

  Lemma existsb_key n l : existsb (fun x => bytes_eqb n (key x)) l = mem_bytes n (map key l).
  Proof. induction l; cbn; [reflexivity|]. rewrite IHl. reflexivity. Qed.
End Find.

Lemma find_role_eq n l : find_role n l = findk r_name n l. Proof. reflexivity. Qed.
Lemma find_actor_eq n l : find_actor n l = findk a_name n l. Proof. reflexivity. Qed.
Lemma find_member_eq n l : find_member n l = findk m_name n l. Proof. reflexivity. Qed.
Lemma find_sig_eq n l : find_sig n l = findk sg_name n l. Proof. reflexivity. Qed.

(** * Phase: titles, authors, attention *)
Section Phases.
Variable orc : oracles.

Definition text_ok (t : bytes) : bool := inert t && negb (is_nil t).

Lemma run_titles ts : forall ti au se ro ac sc te st fr an to co aud,
  forallb text_ok ts = true ->
  run orc (map CTitle ts) (mkState [] ti au se ro ac sc te st fr an to co aud)
  = Ok (mkState [] (ti ++ ts) au se ro ac sc te st fr an to co aud).
Proof.
  induction ts as [|t ts IH]; intros; cbn.
  - rewrite app_nil_r. reflexivity.
  - cbn in H. apply andb_prop in H as [Ht Hts]. unfold text_ok in Ht. apply andb_prop in Ht as [Hi Hn].
    unfold check. rewrite Hn. cbn. rewrite (inert_preproc _ Hi). cbn.
    unfold set_titles. cbn. rewrite IH by assumption. rewrite <- app_assoc. reflexivity.
Qed.

Lemma run_seealso ts : forall ti au se ro ac sc te st fr an to co aud,
  forallb text_ok ts = true ->
  run orc (map CAttention ts) (mkState [] ti au se ro ac sc te st fr an to co aud)
  = Ok (mkState [] ti au (se ++ ts) ro ac sc te st fr an to co aud).
Proof.
  induction ts as [|t ts IH]; intros; cbn.
  - rewrite app_nil_r. reflexivity.
  - cbn in H. apply andb_prop in H as [Ht Hts]. unfold text_ok in Ht. apply andb_prop in Ht as [Hi Hn].
    unfold check. rewrite Hn. cbn. rewrite (inert_preproc _ Hi). cbn.
    unfold set_seealso. cbn. rewrite IH by assumption. rewrite <- app_assoc. reflexivity.
Qed.

Lemma run_authors ts : forall ti au se ro ac sc te st fr an to co aud,
  forallb (fun t => negb (is_nil t)) ts = true ->
  run orc (map CAuthor ts) (mkState [] ti au se ro ac sc te st fr an to co aud)
  = Ok (mkState [] ti (au ++ ts) se ro ac sc te st fr an to co aud).
Proof.
  induction ts as [|t ts IH]; intros; cbn.
  - rewrite app_nil_r. reflexivity.
  - cbn in H. apply andb_prop in H as [Ht Hts]. unfold check. rewrite Ht. cbn.
    unfold set_authors. cbn. rewrite IH by assumption. rewrite <- app_assoc. reflexivity.
Qed.

(** * Phase: roles *)
Lemma role_lines_app st l1 l2 :
  role_lines orc st (l1 ++ l2) = obind (role_lines orc st l1) (fun st' => role_lines orc st' l2).
Proof.
  revert st; induction l1 as [|l l1 IH]; intros st; cbn; [reflexivity|].
  destruct (role_line_step orc st l); cbn; auto.
Qed.

Definition sig_line (g : sigp) : role_line := RSignal (sg_name g) (typ_text (sg_typ g)) (sg_re g).
Definition act_line (a : bytes * bytes) : role_line := RAction (fst a) (snd a).

Lemma decode_typ_text t : decode_typ (typ_text t) = Some t.
Proof. destruct t; reflexivity. Qed.

Definition sig_ok (g : sigp) : bool :=
  sig_wf orc g && bytes_eqb (expand_ts (sg_re g)) (sg_re g).

Lemma role_lines_sigs n c sp acts sigs : forall done,
  forallb sig_ok sigs = true ->
  nodup_b (map sg_name (done ++ sigs)) = true ->
  role_lines orc (mkRole n c sp done acts, map sg_name done) (map sig_line sigs)
  = Ok (mkRole n c sp (done ++ sigs) acts, map sg_name (done ++ sigs)).
Proof.
  induction sigs as [|g sigs IH]; intros done Hok Hnd; cbn [map role_lines].
  - rewrite app_nil_r. reflexivity.
  - unfold sig_line at 1. cbn [role_line_step].
    cbn [forallb] in Hok. apply andb_prop in Hok as [Hg Hsigs]. unfold sig_ok, sig_wf in Hg.
    apply andb_prop in Hg as [Hg Hexp]. apply andb_prop in Hg as [Hid Hgr].
    apply bytes_eqb_eq in Hexp. rewrite Hexp.
    destruct (o_re_groups orc (sg_re g)) as [gs|] eqn:Eg; [|discriminate].
    apply andb_prop in Hgr as [Hty Hts]. unfold check. rewrite Hid. cbn.
    assert (Hnm : mem_bytes (sg_name g) (map sg_name done) = false).
    { replace (done ++ g :: sigs) with ((done ++ [g]) ++ sigs) in Hnd by (rewrite <- app_assoc; reflexivity).
      rewrite map_app in Hnd.
      assert (Hp : nodup_b (map sg_name (done ++ [g])) = true).
      { clear - Hnd. revert Hnd. generalize (map sg_name (done ++ [g])) as l1. generalize (map sg_name sigs) as l2.
        intros l2 l1. induction l1 as [|x l1 IH]; cbn; [reflexivity|].
        rewrite mem_bytes_app. intros H. apply andb_prop in H. destruct H as [Ha Hb].
        rewrite (IH Hb), andb_true_r. apply negb_true_iff in Ha. apply orb_false_elim in Ha. destruct Ha as [Ha _].
        rewrite Ha. reflexivity. }
      rewrite map_app in Hp. cbn in Hp. rewrite nodup_b_app_r in Hp. apply andb_prop in Hp. destruct Hp as [_ Hp].
      apply negb_true_iff in Hp. exact Hp. }
    rewrite Hnm. cbn. rewrite decode_typ_text. cbn. rewrite Hty, Hts. cbn.
    replace (map sg_name done ++ [sg_name g]) with (map sg_name (done ++ [g])) by (rewrite map_app; reflexivity).
    replace (mkSig (sg_name g) (sg_typ g) (sg_re g)) with g by (destruct g; reflexivity).
    rewrite IH.
    + rewrite <- app_assoc. reflexivity.
    + assumption.
    + rewrite <- app_assoc. exact Hnd.
Qed.

Lemma has_action_mem n r : has_action n r = mem_bytes n (map fst (r_actions r)).
Proof. unfold has_action. apply (existsb_key (fun a : bytes * bytes => fst a)). Qed.

Lemma nodup_b_app_inv l1 l2 : nodup_b (l1 ++ l2) = true -> nodup_b l1 = true.
Proof.
  induction l1 as [|x l1 IH]; cbn; [reflexivity|].
  rewrite mem_bytes_app. intros H. apply andb_prop in H. destruct H as [Ha Hb].
  rewrite (IH Hb), andb_true_r. apply negb_true_iff in Ha. apply orb_false_elim in Ha. destruct Ha as [Ha _].
  rewrite Ha. reflexivity.
Qed.

Lemma nodup_b_mid l1 x l2 : nodup_b (l1 ++ x :: l2) = true -> mem_bytes x l1 = false.
Proof.
  intros H. replace (l1 ++ x :: l2) with ((l1 ++ [x]) ++ l2) in H by (rewrite <- app_assoc; reflexivity).
  apply nodup_b_app_inv in H. rewrite nodup_b_app_r in H. apply andb_prop in H. destruct H as [_ H].
  apply negb_true_iff in H. exact H.
Qed.

Lemma role_lines_actions n c sp sigs own acts : forall done,
  forallb (fun a => ident_ok (fst a)) acts = true ->
  nodup_b (map fst (done ++ acts)) = true ->
  role_lines orc (mkRole n c sp sigs done, own) (map act_line acts)
  = Ok (mkRole n c sp sigs (done ++ acts), own).
Proof.
  induction acts as [|a acts IH]; intros done Hok Hnd; cbn [map role_lines].
  - rewrite app_nil_r. reflexivity.
  - unfold act_line at 1. cbn [role_line_step].
    cbn [forallb] in Hok. apply andb_prop in Hok as [Hid Hacts]. unfold check. rewrite Hid.
    rewrite has_action_mem. cbn [r_actions r_name r_cleanup r_spotlight r_sigs].
    rewrite map_app in Hnd. cbn in Hnd. rewrite (nodup_b_mid _ _ _ Hnd). cbn.
    replace (fst a, snd a) with a by (destruct a; reflexivity).
    rewrite IH; [rewrite <- app_assoc; reflexivity|assumption|].
    rewrite <- app_assoc. rewrite map_app. exact Hnd.
Qed.

Definition role_ok (r : role) : bool :=
  role_wf orc r && inert (r_name r)
  && forallb (fun g => bytes_eqb (expand_ts (sg_re g)) (sg_re g)) (r_sigs r).

Lemma forallb_and {A} (f g : A -> bool) l :
  forallb (fun x => f x && g x) l = forallb f l && forallb g l.
Proof.
  induction l; cbn; [reflexivity|]. rewrite IHl.
  destruct (f a), (g a), (forallb f l), (forallb g l); reflexivity.
Qed.

Lemma apply_print_role r : forall ti au se ro ac sc te st fr an to co aud,
  role_ok r = true ->
  mem_bytes (r_name r) (map r_name ro) = false ->
  apply orc (mkState [] ti au se ro ac sc te st fr an to co aud) (print_role r)
  = Ok (mkState [] ti au se (ro ++ [r]) ac sc te st fr an to co aud).
Proof.
  intros ti au se ro ac sc te st fr an to co aud H H0. unfold role_ok, role_wf in H.
  apply andb_prop in H as [H Hre]. apply andb_prop in H as [H Hin].
  apply andb_prop in H as [H Hspot]. apply andb_prop in H as [H Hsnd]. apply andb_prop in H as [H Hsig].
  apply andb_prop in H as [H Hand]. apply andb_prop in H as [Hid Haid].
  unfold print_role. cbn [apply]. unfold apply_role. cbn [c_pvars c_roles].
  rewrite (inert_preproc _ Hin). cbn [obind]. unfold check. rewrite Hid. cbn [obind].
  rewrite (existsb_key r_name), H0. cbn [negb obind is_nil map r_sigs].
  rewrite role_lines_app.
  (* cleanup *)
  assert (Hc : role_lines orc (mkRole (r_name r) [] [] [] [], []) (if is_nil (r_cleanup r) then [] else [RCleanup (r_cleanup r)])
               = Ok (mkRole (r_name r) (r_cleanup r) [] [] [], [])).
  { destruct (r_cleanup r); reflexivity. }
  rewrite Hc. cbn [obind]. rewrite role_lines_app.
  assert (Hs : role_lines orc (mkRole (r_name r) (r_cleanup r) [] [] [], []) (if is_nil (r_spotlight r) then [] else [RSpotlight (r_spotlight r)])
               = Ok (mkRole (r_name r) (r_cleanup r) (r_spotlight r) [] [], [])).
  { destruct (r_spotlight r); reflexivity. }
  rewrite Hs. cbn [obind]. rewrite role_lines_app.
  pose proof (role_lines_sigs (r_name r) (r_cleanup r) (r_spotlight r) [] (r_sigs r) []) as Hg.
  cbn [map app] in Hg. unfold sig_line in Hg. rewrite Hg; clear Hg.
  2:{ unfold sig_ok. rewrite forallb_and. rewrite Hsig, Hre. reflexivity. }
  2:{ assumption. }
  cbn [obind].
  pose proof (role_lines_actions (r_name r) (r_cleanup r) (r_spotlight r) (r_sigs r) (map sg_name (r_sigs r)) (r_actions r) []) as Ha.
  cbn [app] in Ha. unfold act_line in Ha. rewrite Ha by assumption. clear Ha.
  cbn [obind fst r_sigs r_spotlight]. rewrite Hspot. cbn [obind].
  unfold set_roles. cbn. destruct r; reflexivity.
Qed.

Lemma run_roles rs : forall ti au se ro ac sc te st fr an to co aud,
  forallb role_ok rs = true ->
  nodup_b (map r_name (ro ++ rs)) = true ->
  run orc (map print_role rs) (mkState [] ti au se ro ac sc te st fr an to co aud)
  = Ok (mkState [] ti au se (ro ++ rs) ac sc te st fr an to co aud).
Proof.
  induction rs as [|r rs IH]; intros; cbn [map run].
  - rewrite app_nil_r. reflexivity.
  - cbn in H. apply andb_prop in H as [Hr Hrs].
    rewrite apply_print_role; [|assumption|].
    2:{ rewrite map_app in H0. cbn in H0. apply (nodup_b_mid _ _ _ H0). }
    cbn [obind]. rewrite IH; [rewrite <- app_assoc; reflexivity|assumption|].
    rewrite <- app_assoc. exact H0.
Qed.

End Phases.
