(** Proofs for property C11, part 2: what the audition round machine of
    Model/Audit.v does with `computes` / `collects` clauses: one collect step
    per produced value, on the variable's current array; nil results leave the
    variable alone; a value assigned by a member is visible — value and
    activation — to every later member of the same round and to nobody
    earlier; nothing but an auditing owner ever changes a variable, so values
    persist across activation periods. *)
From Shk Require Import Base.Prelude Model.Value Model.Functions Model.Expr Model.Fsm Model.Audit
  Model.AuditSpec Model.FunctionsSpec Proofs.AuditProofs Proofs.FunctionsProofs.
Open Scope list_scope.

(** * Variables, values, activation flags *)

Lemma var_eqb_eq a b : var_eqb a b = true <-> a = b.
Proof.
  unfold var_eqb. destruct a as [a1 a2], b as [b1 b2]. cbn [fst snd].
  rewrite andb_true_iff, !String.eqb_eq. split; [intros [-> ->]; reflexivity | intros H; inversion H; auto].
Qed.

Lemma var_eqb_refl a : var_eqb a a = true.
Proof. apply var_eqb_eq. reflexivity. Qed.

Lemma var_eqb_sym a b : var_eqb a b = var_eqb b a.
Proof.
  destruct (var_eqb a b) eqn:E1, (var_eqb b a) eqn:E2; try reflexivity.
  - apply var_eqb_eq in E1. subst. rewrite var_eqb_refl in E2. discriminate.
  - apply var_eqb_eq in E2. subst. rewrite var_eqb_refl in E1. discriminate.
Qed.

Lemma lookup_set_same x v l : lookup_val x (set_val x v l) = v.
Proof.
  induction l as [|[y w] l IH]; cbn [set_val lookup_val].
  - rewrite var_eqb_refl. reflexivity.
  - destruct (var_eqb x y) eqn:E; cbn [lookup_val]; rewrite E; [reflexivity | exact IH].
Qed.

Lemma lookup_set_other z x v l : var_eqb z x = false -> lookup_val z (set_val x v l) = lookup_val z l.
Proof.
  intros Hzx. induction l as [|[y w] l IH]; cbn [set_val lookup_val].
  - rewrite Hzx. reflexivity.
  - destruct (var_eqb x y) eqn:E; cbn [lookup_val].
    + apply var_eqb_eq in E. subst y. rewrite Hzx. reflexivity.
    + destruct (var_eqb z y); [reflexivity | exact IH].
Qed.

Lemma mem_var_app y l1 l2 : mem_var y (l1 ++ l2) = mem_var y l1 || mem_var y l2.
Proof. induction l1 as [|x l1 IH]; cbn; [reflexivity|]. rewrite IH. apply orb_assoc. Qed.

Lemma mem_add_same x l : mem_var x (add_var x l) = true.
Proof.
  unfold add_var. destruct (mem_var x l) eqn:E; [exact E|].
  rewrite mem_var_app. cbn. rewrite var_eqb_refl. rewrite orb_true_r. reflexivity.
Qed.

Lemma mem_add_mono y x l : mem_var y l = true -> mem_var y (add_var x l) = true.
Proof.
  intros H. unfold add_var. destruct (mem_var x l); [exact H|]. rewrite mem_var_app, H. reflexivity.
Qed.

Lemma mem_add_other y x l : var_eqb y x = false -> mem_var y (add_var x l) = mem_var y l.
Proof.
  intros H. unfold add_var. destruct (mem_var x l); [reflexivity|].
  rewrite mem_var_app. cbn. rewrite H. rewrite !orb_false_r. reflexivity.
Qed.

(** * setAndActivateVar *)

Lemma set_var_vals c s x v ts :
  s_vals (fst (set_var c s x v ts)) = if is_nil v then s_vals s else set_val x v (s_vals s).
Proof. unfold set_var. destruct (is_nil v); reflexivity. Qed.

Lemma set_var_act c s x v ts :
  s_act (fst (set_var c s x v ts)) = if is_nil v then s_act s else add_var x (s_act s).
Proof. unfold set_var. destruct (is_nil v); reflexivity. Qed.

(** A nil value leaves the variable alone; any other value becomes its value. *)
Lemma set_var_lookup_same c s x v ts :
  lookup_val x (s_vals (fst (set_var c s x v ts))) = if is_nil v then lookup_val x (s_vals s) else v.
Proof. rewrite set_var_vals. destruct (is_nil v); [reflexivity | apply lookup_set_same]. Qed.

Lemma set_var_lookup_other c s x v ts z :
  var_eqb z x = false -> lookup_val z (s_vals (fst (set_var c s x v ts))) = lookup_val z (s_vals s).
Proof. intros H. rewrite set_var_vals. destruct (is_nil v); [reflexivity | apply lookup_set_other; exact H]. Qed.

Lemma set_var_act_mono c s x v ts y :
  mem_var y (s_act s) = true -> mem_var y (s_act (fst (set_var c s x v ts))) = true.
Proof. intros H. rewrite set_var_act. destruct (is_nil v); [exact H | apply mem_add_mono; exact H]. Qed.

Lemma set_var_activates c s x v ts :
  is_nil v = false -> mem_var x (s_act (fst (set_var c s x v ts))) = true.
Proof. intros H. rewrite set_var_act, H. apply mem_add_same. Qed.

Lemma set_var_act_other c s x v ts y :
  var_eqb y x = false -> mem_var y (s_act (fst (set_var c s x v ts))) = mem_var y (s_act s).
Proof. intros H. rewrite set_var_act. destruct (is_nil v); [reflexivity | apply mem_add_other; exact H]. Qed.

(** * computes: the latest non-nil value *)

Lemma last_cons {A} (x : A) l d : last (x :: l) d = last l x.
Proof. revert x. induction l as [|y l IH]; intros x; [reflexivity|]. cbn [last] in *. destruct l; [reflexivity|]. apply IH. Qed.

Theorem computes_latest c y ts xs : forall s,
  lookup_val y (s_vals (set_seq c s y xs ts)) = last (non_nil xs) (lookup_val y (s_vals s)).
Proof.
  unfold set_seq. induction xs as [|x xs IH]; intros s; cbn [fold_left].
  - reflexivity.
  - rewrite IH, set_var_lookup_same. destruct (is_nil x) eqn:E.
    + rewrite (non_nil_cons_nil _ _ E). reflexivity.
    + rewrite (non_nil_cons _ _ E), last_cons. reflexivity.
Qed.

(** * processAssignments, clause by clause *)

Lemma do_assigns_cons c s ts a tl :
  do_assigns c s ts (a :: tl) =
  if negb (has_deps s (as_expr a)) then do_assigns c s ts tl else
  match eval (env_of s) (as_expr a) with
  | EErr => (s, [], Aborted)
  | EV x =>
      match assigned_value a (lookup_val (target_of a) (s_vals s)) x with
      | None => (s, [], Panicked)
      | Some None => (s, [], Aborted)
      | Some (Some v) =>
          let '(s1, o1) := set_var c s (target_of a) v ts in
          let '(s2, o2, stt) := do_assigns c s1 ts tl in
          (s2, o1 ++ o2, stt)
      end
  end.
Proof.
  cbn [do_assigns]. destruct (negb (has_deps s (as_expr a))); [reflexivity|].
  destruct (eval (env_of s) (as_expr a)) as [x|]; [|reflexivity].
  unfold assigned_value, target_of, cur_array.
  destruct (as_mode a); [reflexivity|..];
    destruct (lookup_val (""%string, as_target a) (s_vals s)); reflexivity.
Qed.

(** A clause whose dependencies are not all activated in this round is
    skipped (the dependency gate). *)
Theorem assignment_skipped c s ts a tl :
  has_deps s (as_expr a) = false -> do_assigns c s ts (a :: tl) = do_assigns c s ts tl.
Proof. intros H. rewrite do_assigns_cons, H. reflexivity. Qed.

(** A `computes` clause that is evaluated: the variable becomes the value,
    unless the value is nil. *)
Theorem computes_step c s ts a tl x :
  as_mode a = ASingle -> has_deps s (as_expr a) = true -> eval (env_of s) (as_expr a) = EV x ->
  do_assigns c s ts (a :: tl) =
  (let '(s1, o1) := set_var c s (target_of a) x ts in
   let '(s2, o2, stt) := do_assigns c s1 ts tl in (s2, o1 ++ o2, stt))
  /\ lookup_val (target_of a) (s_vals (fst (set_var c s (target_of a) x ts)))
     = (if is_nil x then lookup_val (target_of a) (s_vals s) else x).
Proof.
  intros Hm Hd He. rewrite do_assigns_cons, Hd, He. unfold assigned_value. rewrite Hm. cbn [negb].
  split; [reflexivity | apply set_var_lookup_same].
Qed.

(** A `collects` clause that is evaluated: exactly one collect step on the
    variable's current array, with the value the expression produced. *)
Theorem collects_step c s ts a tl x :
  as_mode a <> ASingle -> has_deps s (as_expr a) = true -> eval (env_of s) (as_expr a) = EV x ->
  do_assigns c s ts (a :: tl) =
  match collect (as_mode a) (cur_array (lookup_val (target_of a) (s_vals s))) (as_n a) x with
  | COk r => let '(s1, o1) := set_var c s (target_of a) (VArr r) ts in
             let '(s2, o2, stt) := do_assigns c s1 ts tl in (s2, o1 ++ o2, stt)
  | CErr => (s, [], Aborted)
  | CPanic => (s, [], Panicked)
  end.
Proof.
  intros Hm Hd He. rewrite do_assigns_cons, Hd, He. unfold assigned_value. cbn [negb].
  destruct (as_mode a); [congruence| | | |];
    match goal with |- context [collect ?m ?arr ?n x] => destruct (collect m arr n x) end; reflexivity.
Qed.

(** * Relations preserved by assignments and visits *)

Section Rel.
  Variable c : acfg.
  Variable ts : Q.
  Variable R : st -> st -> Prop.
  Variable okvar : var -> Prop.
  Hypothesis R_refl : forall s, R s s.
  Hypothesis R_trans : forall a b d, R a b -> R b d -> R a d.
  Hypothesis R_set : forall s x v, okvar x -> R s (fst (set_var c s x v ts)).

  Lemma do_assigns_rel l : Forall (fun a => okvar (target_of a)) l ->
    forall s s' o stt, do_assigns c s ts l = (s', o, stt) -> R s s'.
  Proof.
    induction l as [|a l IH]; intros Hok s s' o stt.
    - cbn. intros H; inversion H; subst. apply R_refl.
    - inversion Hok as [|? ? Ha Hl]; subst. rewrite do_assigns_cons.
      destruct (negb (has_deps s (as_expr a))); [apply IH; assumption|].
      destruct (eval (env_of s) (as_expr a)) as [x|]; [|intros H; inversion H; subst; apply R_refl].
      destruct (assigned_value a _ x) as [[v|]|]; try (intros H; inversion H; subst; apply R_refl).
      pose proof (R_set s (target_of a) v Ha) as Hs.
      destruct (set_var c s (target_of a) v ts) as [s1 o1]. cbn [fst] in Hs.
      destruct (do_assigns c s1 ts l) as [[s2 o2] st2] eqn:E2.
      intros H; inversion H; subst. eapply R_trans; [exact Hs | eapply IH; eassumption].
  Qed.

  Variable m : member.
  Hypothesis R_setms : forall s au q, R s (set_ms s (m_name m) au q).

  Lemma visit_rel final : Forall (fun a => okvar (target_of a)) (m_assigns m) ->
    forall s s' o stt, visit c final s ts m = (s', o, stt) -> R s s'.
  Proof.
    intros Hok s s' o stt. unfold visit.
    destruct (get_ms (m_name m) (s_ms s)) as [mm|]; [|intros H; inversion H; subst; apply R_refl].
    destruct (wanted final s m) as [[w|]|]; try (intros H; inversion H; subst; apply R_refl).
    destruct (w && negb (ms_auditing mm) && negb (start_ok m)); [intros H; inversion H; subst; apply R_refl|].
    match goal with |- context [negb ?au] => destruct (negb au) end;
      [intros H; inversion H; subst; apply R_setms|].
    match goal with |- context [do_assigns c ?s0 ts ?l] => destruct (do_assigns c s0 ts l) as [[s1 o1] st1] eqn:Ed end.
    pose proof (do_assigns_rel _ Hok _ _ _ _ Ed) as Hd.
    assert (H01 : R s s1) by (eapply R_trans; [apply R_setms | exact Hd]).
    destruct st1; try (intros H; inversion H; subst; exact H01).
    match goal with |- context [check_expect m s1 ?q] => destruct (check_expect m s1 q) as [[q1 o2] ok2] end.
    destruct (negb ok2); [intros H; inversion H; subst; exact H01|].
    match goal with |- context [period_end m ?cl q1] => destruct (period_end m cl q1) as [[q2 o3] ok3] end.
    destruct (negb ok3); intros H; inversion H; subst; [exact H01|].
    eapply R_trans; [exact H01 | apply R_setms].
  Qed.
End Rel.

Lemma visit_all_rel c ts (R : st -> st -> Prop) (okvar : var -> Prop) final l :
  (forall s, R s s) -> (forall a b d, R a b -> R b d -> R a d) ->
  (forall s x v, okvar x -> R s (fst (set_var c s x v ts))) ->
  (forall m s au q, In m l -> R s (set_ms s (m_name m) au q)) ->
  (forall m, In m l -> Forall (fun a => okvar (target_of a)) (m_assigns m)) ->
  forall s s' o stt, visit_all c final s ts l = (s', o, stt) -> R s s'.
Proof.
  intros Hr Ht Hs Hm Hok. induction l as [|m l IH]; intros s s' o stt; cbn [visit_all].
  - intros H; inversion H; subst. apply Hr.
  - destruct (visit c final s ts m) as [[s1 o1] st1] eqn:E1.
    assert (H1 : R s s1).
    { eapply (visit_rel c ts R okvar Hr Ht Hs m); [|apply Hok; left; reflexivity|exact E1].
      intros s0 au q. apply Hm. left; reflexivity. }
    destruct st1; try (intros H; inversion H; subst; exact H1).
    destruct (visit_all c final s1 ts l) as [[s2 o2] st2] eqn:E2.
    intros H; inversion H; subst. eapply Ht; [exact H1|].
    eapply IH; [| |exact E2].
    + intros m0 s0 au q Hin. apply Hm. right; assumption.
    + intros m0 Hin. apply Hok. right; assumption.
Qed.

(** ** Instance 1: a variable nobody here assigns keeps its value *)

Lemma assigns_var_false m y :
  assigns_var m y = false -> Forall (fun a => var_eqb y (target_of a) = false) (m_assigns m).
Proof.
  unfold assigns_var. induction (m_assigns m) as [|a l IH]; cbn [existsb]; [constructor|].
  intros H. apply orb_false_iff in H. destruct H as [Ha Hl]. constructor; [|apply IH; exact Hl].
  rewrite var_eqb_sym. exact Ha.
Qed.

Lemma set_ms_vals s a au q : s_vals (set_ms s a au q) = s_vals s.
Proof. reflexivity. Qed.
Lemma set_ms_act s a au q : s_act (set_ms s a au q) = s_act s.
Proof. reflexivity. Qed.

Theorem visit_keeps_unassigned c final s ts m s' o stt y :
  assigns_var m y = false -> visit c final s ts m = (s', o, stt) ->
  lookup_val y (s_vals s') = lookup_val y (s_vals s).
Proof.
  intros Ha Hv.
  apply (visit_rel c ts (fun s s' => lookup_val y (s_vals s') = lookup_val y (s_vals s))
           (fun x => var_eqb y x = false)) with (m := m) (final := final) (o := o) (stt := stt); try assumption.
  - reflexivity.
  - intros a b d H1 H2. congruence.
  - intros s0 x v Hx. apply set_var_lookup_other. exact Hx.
  - reflexivity.
  - apply assigns_var_false. exact Ha.
Qed.

Theorem visit_all_keeps_unassigned c final ts y l : forall s s' o stt,
  (forall m, In m l -> assigns_var m y = false) -> visit_all c final s ts l = (s', o, stt) ->
  lookup_val y (s_vals s') = lookup_val y (s_vals s).
Proof.
  intros s s' o stt Ha Hv.
  apply (visit_all_rel c ts (fun s s' => lookup_val y (s_vals s') = lookup_val y (s_vals s))
           (fun x => var_eqb y x = false) final l) with (o := o) (stt := stt); try assumption.
  - reflexivity.
  - intros a b d H1 H2. congruence.
  - intros s0 x v Hx. apply set_var_lookup_other. exact Hx.
  - reflexivity.
  - intros m Hin. apply assigns_var_false. apply Ha. exact Hin.
Qed.

(** ** Instance 2: within a round, activation flags are only ever set *)

Definition act_mono (s s' : st) : Prop := forall y, mem_var y (s_act s) = true -> mem_var y (s_act s') = true.

Theorem visit_act_mono c final s ts m s' o stt :
  visit c final s ts m = (s', o, stt) -> act_mono s s'.
Proof.
  intros Hv.
  apply (visit_rel c ts act_mono (fun _ => True)) with (m := m) (final := final) (o := o) (stt := stt); try assumption.
  - intros s0 y H. exact H.
  - intros a b d H1 H2 y H. apply H2, H1, H.
  - intros s0 x v _ y H. apply set_var_act_mono. exact H.
  - intros s0 au q y H. exact H.
  - apply Forall_forall. intros; exact I.
Qed.

Theorem visit_all_act_mono c final ts l s s' o stt :
  visit_all c final s ts l = (s', o, stt) -> act_mono s s'.
Proof.
  intros Hv.
  apply (visit_all_rel c ts act_mono (fun _ => True) final l) with (o := o) (stt := stt); try assumption.
  - intros s0 y H. exact H.
  - intros a b d H1 H2 y H. apply H2, H1, H.
  - intros s0 x v _ y H. apply set_var_act_mono. exact H.
  - intros m s0 au q _ y H. exact H.
  - intros m _. apply Forall_forall. intros; exact I.
Qed.

(** ** Instance 3: only its own visit changes whether an auditor is auditing *)

Lemma auditing_in_wake s ws a :
  auditing_in (with_ms s (wake ws (s_ms s))) a = auditing_in s a.
Proof.
  unfold auditing_in, with_ms. cbn [s_ms]. destruct (get_ms a (s_ms s)) as [ms|] eqn:E.
  - destruct (get_ms_wake a ws _ _ E) as (ms' & -> & Hc). unfold core in Hc. inversion Hc. reflexivity.
  - rewrite (get_ms_wake_none a ws _ E). reflexivity.
Qed.

Lemma auditing_in_set_var c s x v ts a : auditing_in (fst (set_var c s x v ts)) a = auditing_in s a.
Proof.
  unfold set_var. destruct (is_nil v); [reflexivity|]. cbn [fst].
  unfold auditing_in. cbn [s_ms]. destruct (get_ms a (s_ms s)) as [ms|] eqn:E.
  - destruct (get_ms_wake a (watchers_of x (c_watchers c)) _ _ E) as (ms' & -> & Hc).
    unfold core in Hc. inversion Hc. reflexivity.
  - rewrite (get_ms_wake_none a _ _ E). reflexivity.
Qed.

Lemma auditing_in_set_ms_other s a b au q :
  String.eqb a b = false -> auditing_in (set_ms s b au q) a = auditing_in s a.
Proof. intros H. unfold auditing_in. rewrite get_ms_set_ms_other by exact H. reflexivity. Qed.

Theorem visit_other_auditing c final s ts m s' o stt a :
  String.eqb a (m_name m) = false -> visit c final s ts m = (s', o, stt) ->
  auditing_in s' a = auditing_in s a.
Proof.
  intros Hab Hv.
  apply (visit_rel c ts (fun s s' => auditing_in s' a = auditing_in s a) (fun _ => True))
    with (m := m) (final := final) (o := o) (stt := stt); try assumption.
  - reflexivity.
  - intros x y z H1 H2. congruence.
  - intros s0 x v _. apply auditing_in_set_var.
  - intros s0 au q. apply auditing_in_set_ms_other. exact Hab.
  - apply Forall_forall. intros; exact I.
Qed.

Theorem visit_all_other_auditing c final ts l a : forall s s' o stt,
  ~ In a (map m_name l) -> visit_all c final s ts l = (s', o, stt) ->
  auditing_in s' a = auditing_in s a.
Proof.
  intros s s' o stt Hn Hv.
  apply (visit_all_rel c ts (fun s s' => auditing_in s' a = auditing_in s a) (fun _ => True) final l)
    with (o := o) (stt := stt); try assumption.
  - reflexivity.
  - intros x y z H1 H2. congruence.
  - intros s0 x v _. apply auditing_in_set_var.
  - intros m s0 au q Hin. apply auditing_in_set_ms_other.
    destruct (String.eqb a (m_name m)) eqn:E; [|reflexivity].
    apply String.eqb_eq in E. exfalso. apply Hn. rewrite E. apply in_map. exact Hin.
  - intros m _. apply Forall_forall. intros; exact I.
Qed.

(** * Visible in the same round, to later members only *)

(** The members of a round are visited one after the other, each from the
    state the previous ones left: the first ones never see what the later
    ones do in this round. *)
Theorem visit_all_app c final ts l1 l2 s :
  visit_all c final s ts (l1 ++ l2) =
  let '(s1, o1, st1) := visit_all c final s ts l1 in
  match st1 with
  | Running => let '(s2, o2, st2) := visit_all c final s1 ts l2 in (s2, o1 ++ o2, st2)
  | stt => (s1, o1, stt)
  end.
Proof.
  revert s. induction l1 as [|m l1 IH]; intros s; cbn [app visit_all].
  - destruct (visit_all c final s ts l2) as [[s2 o2] st2]. reflexivity.
  - destruct (visit c final s ts m) as [[s1 o1] st1]. destruct st1; try reflexivity.
    rewrite IH. destruct (visit_all c final s1 ts l1) as [[s2 o2] st2].
    destruct st2; try reflexivity.
    destruct (visit_all c final s2 ts l2) as [[s3 o3] st3]. rewrite app_assoc. reflexivity.
Qed.

(** An executed assignment sets the variable and activates it; later clauses
    of the same member that do not assign it again leave both alone. *)
Theorem assignment_sets_and_activates c s ts a tl x v s' o stt :
  has_deps s (as_expr a) = true -> eval (env_of s) (as_expr a) = EV x ->
  assigned_value a (lookup_val (target_of a) (s_vals s)) x = Some (Some v) -> is_nil v = false ->
  Forall (fun a' => var_eqb (target_of a) (target_of a') = false) tl ->
  do_assigns c s ts (a :: tl) = (s', o, stt) ->
  lookup_val (target_of a) (s_vals s') = v /\ mem_var (target_of a) (s_act s') = true.
Proof.
  intros Hd He Hv Hn Htl. rewrite do_assigns_cons, Hd, He, Hv. cbn [negb].
  pose proof (set_var_lookup_same c s (target_of a) v ts) as H1.
  pose proof (set_var_activates c s (target_of a) v ts Hn) as H2. rewrite Hn in H1.
  destruct (set_var c s (target_of a) v ts) as [s1 o1]. cbn [fst] in H1, H2.
  destruct (do_assigns c s1 ts tl) as [[s2 o2] st2] eqn:E2. intros H; injection H as <- <- <-. split.
  - rewrite <- H1.
    apply (do_assigns_rel c ts (fun s s' => lookup_val (target_of a) (s_vals s') = lookup_val (target_of a) (s_vals s))
             (fun x => var_eqb (target_of a) x = false)) with (l := tl) (o := o2) (stt := st2); try assumption.
    + reflexivity.
    + intros p q r Hp Hq. congruence.
    + intros s0 y w Hy. apply set_var_lookup_other. exact Hy.
  - apply (do_assigns_rel c ts act_mono (fun _ => True)) with (l := tl) (s := s1) (o := o2) (stt := st2); try assumption.
    + intros s0 y H0. exact H0.
    + intros p q r Hp Hq y H0. apply Hq, Hp, H0.
    + intros s0 y w _ z H0. apply set_var_act_mono. exact H0.
    + apply Forall_forall. intros; exact I.
Qed.

(** Once a variable has a value and is activated in a round, every later
    member that does not itself assign it is visited in a state where it
    still has that value and is still activated. *)
Theorem visible_to_later c final ts y v l : forall s s' o stt,
  lookup_val y (s_vals s) = v -> mem_var y (s_act s) = true ->
  (forall m, In m l -> assigns_var m y = false) ->
  visit_all c final s ts l = (s', o, stt) ->
  lookup_val y (s_vals s') = v /\ mem_var y (s_act s') = true.
Proof.
  intros s s' o stt Hv Ha Hl Hr. split.
  - rewrite <- Hv. eapply visit_all_keeps_unassigned; eassumption.
  - eapply visit_all_act_mono; eassumption.
Qed.

(** The shape of a round around one member [m] and a later member [m']:
    [m'] (and everybody after it) runs from the state in which [m]'s
    assignment is in force. *)
Theorem visible_same_round c final ts s m l1 m' l2 y v s1 o1 s2 o2 :
  visit c final s ts m = (s1, o1, Running) ->
  lookup_val y (s_vals s1) = v -> mem_var y (s_act s1) = true ->
  (forall m0, In m0 l1 -> assigns_var m0 y = false) ->
  visit_all c final s1 ts l1 = (s2, o2, Running) ->
  lookup_val y (s_vals s2) = v /\ mem_var y (s_act s2) = true /\
  visit_all c final s ts (m :: l1 ++ m' :: l2) =
    (let '(s3, o3, st3) := visit_all c final s2 ts (m' :: l2) in (s3, o1 ++ o2 ++ o3, st3)).
Proof.
  intros Hm Hv Ha Hl H1.
  destruct (visible_to_later c final ts y v l1 s1 s2 o2 Running Hv Ha Hl H1) as [Hv2 Ha2].
  split; [exact Hv2|]. split; [exact Ha2|].
  remember (m' :: l2) as rest eqn:Erest.
  change (m :: l1 ++ rest) with ([m] ++ (l1 ++ rest)).
  rewrite visit_all_app. cbn [visit_all]. rewrite Hm. rewrite visit_all_app, H1.
  destruct (visit_all c final s2 ts rest) as [[s3 o3] st3]. rewrite app_nil_r. reflexivity.
Qed.

(** ... hence an expression of the later member that mentions the variable
    passes the dependency gate and evaluates on the new value. *)
Theorem later_member_reads_it s y v :
  lookup_val y (s_vals s) = v -> mem_var y (s_act s) = true ->
  has_deps s (EVar y) = true /\ eval (env_of s) (EVar y) = EV v.
Proof.
  intros Hv Ha. split.
  - unfold has_deps, deps. cbn [deps_acc add_var mem_var app forallb]. rewrite Ha. reflexivity.
  - cbn [eval]. unfold env_of. rewrite Hv. reflexivity.
Qed.

(** Earlier members: whatever precedes the owner of [y] in the round is
    visited while [y] still has the value the previous round left. *)
Theorem not_visible_to_earlier c final ts y l1 rest s :
  (forall m, In m l1 -> assigns_var m y = false) ->
  exists s1 o1 st1,
    visit_all c final s ts l1 = (s1, o1, st1) /\
    lookup_val y (s_vals s1) = lookup_val y (s_vals s) /\
    visit_all c final s ts (l1 ++ rest) =
      match st1 with
      | Running => let '(s2, o2, st2) := visit_all c final s1 ts rest in (s2, o1 ++ o2, st2)
      | stt => (s1, o1, stt)
      end.
Proof.
  intros Hl. destruct (visit_all c final s ts l1) as [[s1 o1] st1] eqn:E1.
  exists s1, o1, st1. split; [reflexivity|]. split.
  - eapply visit_all_keeps_unassigned; eassumption.
  - rewrite visit_all_app, E1. reflexivity.
Qed.

(** * Kept across activation periods *)

Lemma round_eq c final s ts vs :
  round c final s ts vs =
  let '(s4, o) := prelude c s ts vs in
  let '(s5, o5, stt) := visit_all c final s4 ts (c_members c) in (s5, o ++ o5, stt).
Proof.
  unfold round, prelude.
  destruct (set_var c _ t_var (VNum ts) ts) as [s1 o1].
  destruct (set_var c s1 mood_var _ ts) as [s2 o2].
  destruct (set_var c s2 moodt_var _ ts) as [s3 o3].
  destruct (set_signals c s3 ts vs) as [s4 o4].
  destruct (visit_all c final s4 ts (c_members c)) as [[s5 o5] stt].
  rewrite <- !app_assoc. reflexivity.
Qed.

Lemma set_signals_user c ts y vs : forall s s' o,
  (forall x v, In (x, v) vs -> var_eqb y x = false) ->
  set_signals c s ts vs = (s', o) ->
  lookup_val y (s_vals s') = lookup_val y (s_vals s) /\ mem_var y (s_act s') = mem_var y (s_act s)
  /\ forall a, auditing_in s' a = auditing_in s a.
Proof.
  induction vs as [|[x v] vs IH]; intros s s' o Hvs; cbn [set_signals].
  - intros H; inversion H; subst. repeat split; reflexivity.
  - pose proof (set_var_lookup_other c s x v ts y (Hvs x v (or_introl eq_refl))) as H1.
    pose proof (set_var_act_other c s x v ts y (Hvs x v (or_introl eq_refl))) as H2.
    pose proof (auditing_in_set_var c s x v ts) as H3.
    destruct (set_var c s x v ts) as [s1 o1]. cbn [fst] in H1, H2, H3.
    destruct (set_signals c s1 ts vs) as [s2 o2] eqn:E2. intros H; inversion H; subst.
    destruct (IH s1 s' o2 (fun x0 v0 Hin => Hvs x0 v0 (or_intror Hin)) E2) as (I1 & I2 & I3).
    split; [congruence|]. split; [congruence|]. intros a. rewrite I3. apply H3.
Qed.

Lemma mem_var_filter y (f : var -> bool) l :
  f y = true -> mem_var y (filter f l) = mem_var y l.
Proof.
  intros Hy. induction l as [|x l IH]; [reflexivity|]. cbn [filter mem_var].
  destruct (f x) eqn:E; cbn [mem_var]; rewrite IH; [reflexivity|].
  destruct (var_eqb y x) eqn:Ex; [|reflexivity]. apply var_eqb_eq in Ex. subst. congruence.
Qed.

Lemma auditing_in_reset s act a :
  auditing_in {| s_mood := s_mood s; s_mood_start := s_mood_start s; s_vals := s_vals s; s_act := act;
                 s_ms := map (fun '(b, m) => (b, {| ms_woken := false; ms_auditing := ms_auditing m; ms_fsm := ms_fsm m |})) (s_ms s) |} a
  = auditing_in s a.
Proof.
  unfold auditing_in. cbn [s_ms]. induction (s_ms s) as [|[b m] l IH]; [reflexivity|].
  cbn [map get_ms]. destruct (String.eqb a b); [reflexivity | exact IH].
Qed.

Lemma user_var_split y : user_var y = true ->
  fst y = ""%string /\ var_eqb y t_var = false /\ var_eqb y mood_var = false /\ var_eqb y moodt_var = false.
Proof.
  unfold user_var, var_eqb, t_var, mood_var, moodt_var. cbn [fst snd]. intros H.
  apply andb_true_iff in H. destruct H as [H H4]. apply andb_true_iff in H. destruct H as [H H3].
  apply andb_true_iff in H. destruct H as [H1 H2].
  apply String.eqb_eq in H1. apply negb_true_iff in H2, H3, H4.
  rewrite H2, H3, H4, !andb_false_r. auto.
Qed.

(** The beginning of a round (resetting the signals' activation flags,
    setting t, mood, moodt and the sampled signals) touches neither the value
    nor the activation flag of a computed / collected variable — a computed
    variable, once assigned, stays activated in every later round — nor who is
    auditing. *)
Theorem prelude_keeps c s ts vs y s4 o :
  user_var y = true -> (forall x v, In (x, v) vs -> fst x <> ""%string) ->
  prelude c s ts vs = (s4, o) ->
  lookup_val y (s_vals s4) = lookup_val y (s_vals s) /\ mem_var y (s_act s4) = mem_var y (s_act s)
  /\ forall a, auditing_in s4 a = auditing_in s a.
Proof.
  intros Hu Hvs. destruct (user_var_split y Hu) as (Hf & Ht & Hm & Hmt). unfold prelude.
  match goal with |- context [set_var c ?sx t_var _ ts] => set (s0 := sx) end.
  assert (A0 : lookup_val y (s_vals s0) = lookup_val y (s_vals s)) by reflexivity.
  assert (B0 : mem_var y (s_act s0) = mem_var y (s_act s)).
  { subst s0. cbn [s_act]. apply mem_var_filter. rewrite Hf. reflexivity. }
  assert (C0 : forall a, auditing_in s0 a = auditing_in s a) by (intros a; apply auditing_in_reset).
  pose proof (set_var_lookup_other c s0 t_var (VNum ts) ts y Ht) as A1.
  pose proof (set_var_act_other c s0 t_var (VNum ts) ts y Ht) as B1.
  pose proof (auditing_in_set_var c s0 t_var (VNum ts) ts) as C1.
  destruct (set_var c s0 t_var (VNum ts) ts) as [s1 o1]. cbn [fst] in A1, B1, C1.
  pose proof (set_var_lookup_other c s1 mood_var (VStr (s_mood s1)) ts y Hm) as A2.
  pose proof (set_var_act_other c s1 mood_var (VStr (s_mood s1)) ts y Hm) as B2.
  pose proof (auditing_in_set_var c s1 mood_var (VStr (s_mood s1)) ts) as C2.
  destruct (set_var c s1 mood_var (VStr (s_mood s1)) ts) as [s2 o2]. cbn [fst] in A2, B2, C2.
  match goal with |- context [set_var c s2 moodt_var ?mv ts] => set (mt := mv) end.
  pose proof (set_var_lookup_other c s2 moodt_var mt ts y Hmt) as A3.
  pose proof (set_var_act_other c s2 moodt_var mt ts y Hmt) as B3.
  pose proof (auditing_in_set_var c s2 moodt_var mt ts) as C3.
  destruct (set_var c s2 moodt_var mt ts) as [s3 o3]. cbn [fst] in A3, B3, C3.
  destruct (set_signals c s3 ts vs) as [s4' o4] eqn:E4. intros H; inversion H; subst.
  assert (Hvs' : forall x v, In (x, v) vs -> var_eqb y x = false).
  { intros x v Hin. destruct (var_eqb y x) eqn:E; [|reflexivity]. apply var_eqb_eq in E. subst x.
    exfalso. apply (Hvs y v Hin). exact Hf. }
  destruct (set_signals_user c ts y vs s3 s4 o4 Hvs' E4) as (A4 & B4 & C4).
  split; [congruence|]. split; [congruence|]. intros a. rewrite C4, C3, C2, C1. apply C0.
Qed.

(** A visit of an auditor that is not auditing before it and not after it
    changes no variable at all (it may not even have been looked at). *)
Lemma visit_inactive c final s ts m s' o stt :
  visit c final s ts m = (s', o, stt) ->
  auditing_in s (m_name m) = false -> auditing_in s' (m_name m) = false ->
  s_vals s' = s_vals s /\ s_act s' = s_act s.
Proof.
  unfold visit, auditing_in. destruct (get_ms (m_name m) (s_ms s)) as [mm|] eqn:Eg;
    [|intros H; inversion H; subst; auto].
  intros Hv Ha. cbn beta iota in Ha. revert Hv.
  destruct (wanted final s m) as [[w|]|];
    [|intros H; inversion H; subst; auto|intros H; inversion H; subst; auto].
  rewrite Ha. cbn [negb andb orb]. rewrite !andb_true_r, !andb_false_r. cbn [orb].
  destruct w; cbn [andb negb].
  - destruct (negb (start_ok m)); [intros H; inversion H; subst; auto|]. cbn [negb].
    match goal with |- context [do_assigns c ?s0 ts ?l] => destruct (do_assigns c s0 ts l) as [[s1 o1] st1] eqn:Ed end.
    match type of Ed with do_assigns c (set_ms s _ _ ?q) _ _ = _ => set (q0 := q) in * end.
    pose proof (get_ms_set_ms_same s (m_name m) true q0 mm Eg) as Hg0.
    destruct (do_assigns_spec _ _ _ _ _ _ _ _ _ Ed Hg0) as (_ & ms1 & Hg1 & Hc1).
    assert (Hau1 : ms_auditing ms1 = true) by (unfold core in Hc1; inversion Hc1; reflexivity).
    destruct st1.
    + destruct (check_expect m s1 q0) as [[q1 o2] ok2].
      destruct (negb ok2); [intros H; inversion H; subst; rewrite Hg1, Hau1; discriminate|].
      destruct (period_end m false q1) as [[q2 o3] ok3].
      destruct (negb ok3); intros H; inversion H; subst.
      * rewrite Hg1, Hau1. discriminate.
      * rewrite (get_ms_set_ms_same s1 (m_name m) true q2 ms1 Hg1). cbn. discriminate.
    + intros H; inversion H; subst. rewrite Hg1, Hau1. discriminate.
    + intros H; inversion H; subst. rewrite Hg1, Hau1. discriminate.
  - intros H; inversion H; subst. auto.
Qed.

Lemma visit_all_kept c final ts y l : NoDup (map m_name l) -> forall s s' o stt,
  visit_all c final s ts l = (s', o, stt) ->
  (forall m, In m l -> assigns_var m y = true ->
             auditing_in s (m_name m) = false /\ auditing_in s' (m_name m) = false) ->
  lookup_val y (s_vals s') = lookup_val y (s_vals s).
Proof.
  induction l as [|m l IH]; intros Hnd s s' o stt; cbn [visit_all].
  - intros H _; inversion H; subst. reflexivity.
  - inversion Hnd as [|? ? Hm Hl]; subst.
    destruct (visit c final s ts m) as [[s1 o1] st1] eqn:E1. intros Hr Hown.
    (* what the rest of the round does: *)
    assert (Hrest : exists o2, visit_all c final s1 ts l = (s', o2, stt) \/ (s' = s1 /\ st1 <> Running)).
    { destruct st1.
      - destruct (visit_all c final s1 ts l) as [[s2 o2] st2] eqn:E2. inversion Hr; subst. exists o2. left; reflexivity.
      - inversion Hr; subst. exists []. right. split; [reflexivity | discriminate].
      - inversion Hr; subst. exists []. right. split; [reflexivity | discriminate]. }
    destruct Hrest as (o2 & Hrest).
    (* m's own auditing flag is not touched by the rest *)
    assert (Hm1 : auditing_in s' (m_name m) = auditing_in s1 (m_name m)).
    { destruct Hrest as [E2|[-> _]]; [|reflexivity]. eapply visit_all_other_auditing; eassumption. }
    assert (Hstep : lookup_val y (s_vals s1) = lookup_val y (s_vals s)).
    { destruct (assigns_var m y) eqn:Ea.
      - destruct (Hown m (or_introl eq_refl) Ea) as [H0 H1]. rewrite Hm1 in H1.
        destruct (visit_inactive _ _ _ _ _ _ _ _ E1 H0 H1) as [Hv _]. rewrite Hv. reflexivity.
      - eapply visit_keeps_unassigned; eassumption. }
    destruct Hrest as [E2|[-> _]]; [|exact Hstep].
    rewrite <- Hstep. eapply IH; [exact Hl | exact E2|].
    intros m0 Hin Ha0. destruct (Hown m0 (or_intror Hin) Ha0) as [H0 H1]. split; [|exact H1].
    rewrite <- H0.
    assert (Hne : String.eqb (m_name m0) (m_name m) = false).
    { destruct (String.eqb (m_name m0) (m_name m)) eqn:E; [|reflexivity].
      apply String.eqb_eq in E. exfalso. apply Hm. rewrite <- E. apply in_map. exact Hin. }
    exact (visit_other_auditing _ _ _ _ _ _ _ _ _ Hne E1).
Qed.

(** Values persist: in a round in which no owner of [y] is auditing — neither
    before the round nor after it — [y] keeps its value (and its activation
    flag): stopping and later restarting to audit resets nothing. *)
Theorem kept_across_periods c final s ts vs s' o stt y :
  NoDup (map m_name (c_members c)) -> user_var y = true ->
  (forall x v, In (x, v) vs -> fst x <> ""%string) ->
  round c final s ts vs = (s', o, stt) ->
  (forall m, In m (c_members c) -> assigns_var m y = true ->
             auditing_in s (m_name m) = false /\ auditing_in s' (m_name m) = false) ->
  lookup_val y (s_vals s') = lookup_val y (s_vals s) /\
  (mem_var y (s_act s) = true -> mem_var y (s_act s') = true).
Proof.
  intros Hnd Hu Hvs Hr Hown. rewrite round_eq in Hr.
  destruct (prelude c s ts vs) as [s4 o4] eqn:Ep.
  destruct (prelude_keeps c s ts vs y s4 o4 Hu Hvs Ep) as (A & B & C).
  destruct (visit_all c final s4 ts (c_members c)) as [[s5 o5] st5] eqn:E5. inversion Hr; subst. split.
  - rewrite <- A. eapply visit_all_kept; [exact Hnd | exact E5|].
    intros m Hin Ha. destruct (Hown m Hin Ha) as [H0 H1]. split; [rewrite C; exact H0 | exact H1].
  - intros Hact. eapply visit_all_act_mono; [exact E5|]. rewrite B. exact Hact.
Qed.

