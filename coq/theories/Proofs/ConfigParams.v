(** Parameters: substitution and precedence of -D (C10). *)
From Coq Require Import String Permutation.
From Shk Require Import Base.Prelude Model.Storyline Model.Config.
From Shk Require Import Proofs.ConfigText.
Open Scope Z_scope.

(** * Substitution replaces exactly the references to defined parameters, by
    the value, which is not expanded again *)
Definition word (n : bytes) : Prop := n <> [] /\ Forall (fun c => is_word c = true) n.

Lemma tilde_not_word : is_word b_tilde = false.
Proof. reflexivity. Qed.

Lemma pp_word pv n : forall w rest,
  Forall (fun c => is_word c = true) n ->
  pp pv (Some w) (n ++ b_tilde :: rest) = pp pv (Some (rev n ++ w)) (b_tilde :: rest).
Proof.
  induction n as [|c n IH]; intros w rest H; [reflexivity|].
  inversion H; subst. cbn [app pp]. rewrite H2. rewrite IH by assumption.
  cbn [rev]. rewrite <- app_assoc. reflexivity.
Qed.

Lemma preproc_reference pv a n v b :
  no_tilde a -> word n -> lookup_b n pv = Some v ->
  preproc pv (a ++ b_tilde :: n ++ b_tilde :: b) = obind (preproc pv b) (fun b' => Ok (a ++ v ++ b')).
Proof.
  intros Ha [Hne Hw] Hl. unfold preproc.
  induction Ha as [|c a Hc Ha IH]; cbn [app].
  - cbn [pp]. assert (Byte.eqb b_tilde b_tilde = true) as -> by reflexivity.
    rewrite pp_word by assumption. rewrite app_nil_r.
    cbn [pp]. rewrite tilde_not_word. assert (Byte.eqb b_tilde b_tilde = true) as -> by reflexivity.
    rewrite rev_involutive.
    destruct (rev n) as [|x r] eqn:Er.
    { exfalso. apply Hne. rewrite <- (rev_involutive n), Er. reflexivity. }
    rewrite Hl. reflexivity.
  - cbn [pp]. rewrite Hc, IH. destruct (pp pv None b); reflexivity.
Qed.

Lemma preproc_undefined pv a n b :
  no_tilde a -> word n -> lookup_b n pv = None ->
  preproc pv (a ++ b_tilde :: n ++ b_tilde :: b) = Err 1%N.
Proof.
  intros Ha [Hne Hw] Hl. unfold preproc.
  induction Ha as [|c a Hc Ha IH]; cbn [app].
  - cbn [pp]. assert (Byte.eqb b_tilde b_tilde = true) as -> by reflexivity.
    rewrite pp_word by assumption. rewrite app_nil_r.
    cbn [pp]. rewrite tilde_not_word. assert (Byte.eqb b_tilde b_tilde = true) as -> by reflexivity.
    rewrite rev_involutive.
    destruct (rev n) as [|x r] eqn:Er.
    { exfalso. apply Hne. rewrite <- (rev_involutive n), Er. reflexivity. }
    rewrite Hl. reflexivity.
  - cbn [pp]. rewrite Hc, IH. reflexivity.
Qed.

(** a title holding a reference is stored, hence printed, substituted *)
Lemma title_substituted orc s a n v b b' :
  no_tilde a -> word n -> lookup_b n (c_pvars s) = Some v -> preproc (c_pvars s) b = Ok b' ->
  exists s', apply orc s (CTitle (a ++ b_tilde :: n ++ b_tilde :: b)) = Ok s'
             /\ c_titles s' = c_titles s ++ [a ++ v ++ b'].
Proof.
  intros Ha Hn Hl Hb. cbn [apply].
  assert (is_nil (a ++ b_tilde :: n ++ b_tilde :: b) = false) as -> by (destruct a; reflexivity).
  unfold check. cbn [negb]. rewrite (preproc_reference _ a n v b Ha Hn Hl), Hb. cbn [obind].
  eexists. split; [reflexivity|]. reflexivity.
Qed.

(** * -D definitions take precedence over in-file defaults; the first
    definition of a name wins *)
Lemma add_pvar_defined pv n v v' : lookup_b n pv = Some v -> add_pvar pv n v' = pv.
Proof. unfold add_pvar. intros ->. reflexivity. Qed.

Lemma lookup_app_new {A} n (pv : list (bytes * A)) v :
  lookup_b n pv = None -> lookup_b n (pv ++ [(n, v)]) = Some v.
Proof.
  induction pv as [|[k x] pv IH]; cbn.
  - rewrite bytes_eqb_refl. reflexivity.
  - destruct (bytes_eqb n k); [discriminate|]. exact IH.
Qed.

Lemma lookup_app_old {A} n (pv : list (bytes * A)) x v :
  lookup_b n pv = Some v -> lookup_b n (pv ++ x) = Some v.
Proof.
  induction pv as [|[k y] pv IH]; cbn; [discriminate|].
  destruct (bytes_eqb n k); auto.
Qed.

Lemma add_pvar_lookup pv n v v0 m :
  lookup_b m pv = Some v0 -> lookup_b m (add_pvar pv n v) = Some v0.
Proof.
  unfold add_pvar. destruct (lookup_b n pv); [auto|]. apply lookup_app_old.
Qed.

Lemma param_does_not_override orc s n v v' :
  ident_ok n = true -> lookup_b n (c_pvars s) = Some v ->
  exists s', apply orc s (CParam n v') = Ok s' /\ c_pvars s' = c_pvars s.
Proof.
  intros Hid Hl. cbn [apply]. unfold check. rewrite Hid. eexists. split; [reflexivity|].
  cbn. apply (add_pvar_defined _ _ _ _ Hl).
Qed.

Lemma parse_defines_keeps l : forall pv m v0,
  lookup_b m pv = Some v0 ->
  lookup_b m (fold_left (fun pv d => let '(n, v) := split_eq d in add_pvar pv n v) l pv) = Some v0.
Proof.
  induction l as [|d l IH]; intros pv m v0 H; cbn [fold_left]; [exact H|].
  apply IH. destruct (split_eq d) as [n v]. apply add_pvar_lookup. exact H.
Qed.

(** the first -D of a name is its value, whatever follows *)
Lemma first_define_wins n v rest :
  lookup_b n (parse_defines ((n ++ x3d :: v) :: rest)) = Some v \/ In x3d n.
Proof.
  destruct (in_dec Byte.byte_eq_dec x3d n) as [Hin|Hni]; [auto|left].
  unfold parse_defines. cbn [fold_left].
  assert (E : split_eq (n ++ x3d :: v) = (n, v)).
  { induction n as [|c n IH]; cbn; [reflexivity|].
    destruct (Byte.eqb c x3d) eqn:Ec.
    - apply byte_eqb_eq in Ec. subst. exfalso. apply Hni. left. reflexivity.
    - rewrite IH; [reflexivity|]. intros H. apply Hni. right. exact H. }
  rewrite E. apply parse_defines_keeps. unfold add_pvar. cbn. rewrite bytes_eqb_refl. reflexivity.
Qed.
