(** Proofs about Model/Ticker.v: the collector's flush ticker as a client of the
    Timer LTS (property C18, third anchor: pkg/cmd/collector.go). *)
From Shk Require Import Base.Prelude Model.Timeutil Model.Ticker Proofs.TimeutilProofs.
From Coq Require Import ZifyBool.
Open Scope Z_scope.
Open Scope list_scope.

(** ** [run] and [exec] *)

Lemma run_aux_exec ls : forall s n acc s' os,
  run_aux s ls n acc = RDone s' os ->
  exists os', exec s ls = Some (s', os') /\ os = rev acc ++ os'.
Proof.
  induction ls as [|l tl IH]; cbn [run_aux exec]; intros s n acc s' os H.
  - inversion H; subst. exists []. split; [reflexivity | now rewrite app_nil_r].
  - destruct (step s l) as [s1 o| |] eqn:E; try discriminate.
    apply IH in H. destruct H as (os' & He & ->). rewrite He.
    exists (o :: os'). split; [reflexivity|]. cbn [rev]. now rewrite <- app_assoc.
Qed.

Lemma exec_app l1 : forall s l2,
  exec s (l1 ++ l2) =
  match exec s l1 with
  | Some (s1, o1) => match exec s1 l2 with
                     | Some (s2, o2) => Some (s2, o1 ++ o2)
                     | None => None
                     end
  | None => None
  end.
Proof.
  induction l1 as [|l tl IH]; intros s l2; cbn [exec app].
  - destruct (exec s l2) as [[s2 o2]|]; reflexivity.
  - destruct (step s l) as [s1 o| |]; try reflexivity.
    rewrite IH. destruct (exec s1 tl) as [[s2 o2]|]; [|reflexivity].
    destruct (exec s2 l2) as [[s3 o3]|]; reflexivity.
Qed.

Lemma exec_reachable ls : forall s s' os,
  reachable s -> exec s ls = Some (s', os) -> reachable s'.
Proof.
  induction ls as [|l tl IH]; cbn [exec]; intros s s' os Hr H.
  - inversion H; subst; exact Hr.
  - destruct (step s l) as [s1 o| |] eqn:E; try discriminate.
    destruct (exec s1 tl) as [[s2 o2]|] eqn:E2; [|discriminate].
    inversion H; subst. eapply IH; [|exact E2]. econstructor; eassumption.
Qed.

(** No run of the Timer, by whatever label sequence, ends blocked. *)
Lemma run_aux_never_blocks ls : forall s n acc m,
  reachable s -> run_aux s ls n acc <> RBlocks m.
Proof.
  induction ls as [|l tl IH]; cbn [run_aux]; intros s n acc m Hr.
  - discriminate.
  - destruct (step s l) as [s1 o| |] eqn:E.
    + apply IH. econstructor; eassumption.
    + discriminate.
    + exfalso. eapply nothing_blocks; eassumption.
Qed.

Lemma run_never_blocks ls m : run ls <> RBlocks m.
Proof. unfold run. apply run_aux_never_blocks. constructor. Qed.

Lemma recv_times_app a b : recv_times (a ++ b) = recv_times a ++ recv_times b.
Proof.
  induction a as [|o tl IH]; [reflexivity|]. cbn [app recv_times].
  destruct o; rewrite ?IH; reflexivity.
Qed.

Lemma spacedb_spec P : forall ts last, spacedb P last ts = true <-> spaced P last ts.
Proof.
  induction ts as [|t tl IH]; intros last; cbn [spacedb spaced]; [tauto|].
  destruct (last + P <=? t) eqn:E; [rewrite IH; intuition lia | split; [discriminate | lia]].
Qed.

(** ** The loop invariant between two events of the select *)

Definition LoopInv (P : Z) (s : tstate) : Prop :=
  reachable s /\ g_d s = P /\ g_recvs s = 0%nat /\ exists i, tm s = Some i.

Lemma step_recv_shape s s' o :
  step s LRecv = Next s' o ->
  o = ORecv (now s) /\ now s' = now s /\ readf s' = true /\
  exists i, tm s' = Some i /\ full i = false.
Proof.
  cbn [step]. destruct (tm s) as [i|]; [|discriminate].
  destruct (full i); [|discriminate]. intros H; inversion H; subst; cbn.
  repeat split. eexists; split; reflexivity.
Qed.

Lemma step_reset_shape s d pick s' o :
  step s (LReset d pick) = Next s' o ->
  o = ONone /\ now s' = now s /\ g_reset_at s' = now s /\ g_d s' = d /\
  g_recvs s' = 0%nat /\ 0 <= d /\ exists i, tm s' = Some i.
Proof.
  cbn [step]. destruct (d <? 0) eqn:Ed; [discriminate|].
  destruct (tm s) as [i|].
  - destruct (negb (armed i) && negb (readf s) && negb (full i)); [discriminate|].
    intros H; inversion H; subst; cbn. repeat split; try lia. eexists; reflexivity.
  - destruct pick as [k|].
    + destruct (nth_error (pool s) k); [|discriminate].
      intros H; inversion H; subst; cbn. repeat split; try lia. eexists; reflexivity.
    + intros H; inversion H; subst; cbn. repeat split; try lia. eexists; reflexivity.
Qed.

Lemma step_tick_shape s dt s' o :
  step s (LTick dt) = Next s' o ->
  o = ONone /\ now s <= now s' /\ g_reset_at s' = g_reset_at s /\ g_d s' = g_d s /\
  g_recvs s' = g_recvs s /\ tm s' = tm s.
Proof.
  cbn [step]. destruct (dt <? 0) eqn:Ed; [discriminate|].
  intros H; inversion H; subst; cbn. repeat split; lia.
Qed.

Lemma step_fire_shape s s' o :
  step s LFire = Next s' o ->
  o = ONone /\ now s' = now s /\ g_reset_at s' = g_reset_at s /\ g_d s' = g_d s /\
  g_recvs s' = g_recvs s /\ exists i, tm s' = Some i.
Proof.
  cbn [step]. destruct (tm s) as [i|]; [|discriminate].
  destruct (armed i && (deadline i <=? now s)); [|discriminate].
  intros H; inversion H; subst; cbn. repeat split. eexists; reflexivity.
Qed.

(** One event of the loop: the invariant is kept, and either nothing was
    received and the arming instant is unchanged, or exactly one tick was
    received, at least [P] after the arming, and the timer was re-armed at that
    very instant. *)
Lemma loop_event P s e s' os :
  LoopInv P s -> exec s (cev_labels P e) = Some (s', os) ->
  LoopInv P s' /\ now s <= now s' /\
  ((recv_times os = [] /\ g_reset_at s' = g_reset_at s) \/
   (exists t, recv_times os = [t] /\ g_reset_at s + P <= t /\ g_reset_at s' = t)).
Proof.
  intros (Hr & Hd & Hn & Hi) H. destruct e as [dt| | |]; cbn [cev_labels exec] in H.
  - destruct (step s (LTick dt)) as [s1 o| |] eqn:E; try discriminate.
    inversion H; subst; clear H.
    destruct (step_tick_shape _ _ _ _ E) as (-> & Hnow & Hra & Hgd & Hrc & Htm).
    split; [|split; [exact Hnow | left; split; [reflexivity | exact Hra]]].
    split; [econstructor; eassumption|]. rewrite Hgd, Hrc, Htm. auto.
  - destruct (step s LFire) as [s1 o| |] eqn:E; try discriminate.
    inversion H; subst; clear H.
    destruct (step_fire_shape _ _ _ E) as (-> & Hnow & Hra & Hgd & Hrc & Htm).
    split; [|split; [lia | left; split; [reflexivity | exact Hra]]].
    split; [econstructor; eassumption|]. rewrite Hgd, Hrc. auto.
  - destruct (step s LRecv) as [s1 o1| |] eqn:E1; try discriminate.
    destruct (step s1 (LReset P None)) as [s2 o2| |] eqn:E2; try discriminate.
    inversion H; subst; clear H.
    destruct (step_recv_shape _ _ _ E1) as (-> & Hnow1 & _ & _).
    destruct (recv_once_not_early _ _ _ Hr E1) as (_ & _ & _ & Hlate).
    destruct (step_reset_shape _ _ _ _ _ E2) as (-> & Hnow2 & Hra & Hgd & Hrc & _ & Htm).
    assert (Hr1 : reachable s1) by (econstructor; eassumption).
    split; [|split; [lia|]].
    + split; [econstructor; eassumption|]. auto.
    + right. exists (now s). cbn [recv_times]. repeat split; lia.
  - inversion H; subst; clear H.
    split; [repeat split; auto | split; [lia | left; split; reflexivity]].
Qed.

(** Any number of events: all receives are at least [P] apart (the first at
    least [P] after the arming the loop started from), and they fit in the time
    elapsed. *)
Lemma loop_spaced P es : forall s s' os,
  LoopInv P s -> exec s (flat_map (cev_labels P) es) = Some (s', os) ->
  LoopInv P s' /\ now s <= now s' /\
  spaced P (g_reset_at s) (recv_times os) /\
  g_reset_at s + P * Z.of_nat (length (recv_times os)) <= g_reset_at s'.
Proof.
  induction es as [|e tl IH]; intros s s' os HI H.
  - cbn in H. inversion H; subst. split; [exact HI|]. cbn [recv_times spaced length].
    change (Z.of_nat 0) with 0. repeat split; lia.
  - cbn [flat_map] in H. rewrite exec_app in H.
    destruct (exec s (cev_labels P e)) as [[s1 o1]|] eqn:E1; [|discriminate].
    destruct (exec s1 (flat_map (cev_labels P) tl)) as [[s2 o2]|] eqn:E2; [|discriminate].
    inversion H; subst; clear H.
    destruct (loop_event _ _ _ _ _ HI E1) as (HI1 & Hnow1 & Hcase).
    destruct (IH _ _ _ HI1 E2) as (HI2 & Hnow2 & Hsp & Hcnt).
    split; [exact HI2 | split; [lia|]].
    rewrite recv_times_app, app_length, Nat2Z.inj_add, Z.mul_add_distr_l.
    destruct Hcase as [(-> & Hra) | (t & -> & Hlate & Hra)].
    + rewrite Hra in Hsp, Hcnt. cbn [app length]. split; [exact Hsp | cbn; lia].
    + rewrite Hra in Hsp, Hcnt. cbn [app spaced length].
      split; [split; [exact Hlate | exact Hsp]|].
      change (Z.of_nat 1) with 1. lia.
Qed.

(** ** The whole ticker, from NewTimer *)

Lemma ticker_start P es s os :
  run (ticker_labels P es) = RDone s os ->
  exists s0, step t_init (LReset P None) = Next s0 ONone /\ LoopInv P s0 /\
             g_reset_at s0 = 0 /\ now s0 = 0 /\ 0 <= P /\
             exists os', exec s0 (flat_map (cev_labels P) es) = Some (s, os') /\ os = ONone :: os'.
Proof.
  unfold run, ticker_labels. intros H. apply run_aux_exec in H.
  destruct H as (os' & He & ->). cbn [exec] in He.
  destruct (step t_init (LReset P None)) as [s0 o| |] eqn:E0; try discriminate.
  destruct (exec s0 (flat_map (cev_labels P) es)) as [[s1 o1]|] eqn:E1; [|discriminate].
  inversion He; subst; clear He.
  destruct (step_reset_shape _ _ _ _ _ E0) as (-> & Hnow & Hra & Hgd & Hrc & HP & Htm).
  exists s0. split; [reflexivity|]. split.
  - split; [econstructor; [constructor | eassumption]|]. auto.
  - cbn in Hnow, Hra. repeat split; try assumption. exists o1. split; [exact E1 | reflexivity].
Qed.

(** Every run of the collector's ticker loop: Reset never blocks ... *)
Lemma ticker_never_blocks P es m : run (ticker_labels P es) <> RBlocks m.
Proof. apply run_never_blocks. Qed.

(** ... the flushes are at least one period apart, the first one at least one
    period after the start, and there are at most [now / P] of them. *)
Lemma ticker_flushes_spaced P es s os :
  run (ticker_labels P es) = RDone s os ->
  spaced P 0 (recv_times os) /\ P * Z.of_nat (length (recv_times os)) <= now s.
Proof.
  intros H. destruct (ticker_start _ _ _ _ H) as (s0 & _ & HI & Hra & Hnow & HP & os' & He & ->).
  destruct (loop_spaced _ _ _ _ _ HI He) as (HI' & _ & Hsp & Hcnt).
  cbn [recv_times]. rewrite Hra in Hsp, Hcnt. split; [exact Hsp|].
  destruct HI' as (Hr & _ & _ & (i & Hi)). destruct (reachable_inv _ Hr) as [_ Ht].
  rewrite Hi in Ht.
  destruct Ht as (_ & _ & Hle & _). lia.
Qed.

(** ... and the next flush is never lost: once a period has elapsed since the
    last (re-)arming, the flush is enabled, directly (the tick is already in
    the channel) or after the runtime's fire, and the re-arming Reset in it
    does not block. *)
Lemma flush_enabled_when_full P s i :
  0 <= P -> tm s = Some i -> full i = true -> armed i = false ->
  exists s', exec s (cev_labels P CFlush) = Some (s', [ORecv (now s); ONone]).
Proof.
  intros HP Hi Hf Ha. cbn [cev_labels exec]. cbn [step]. rewrite Hi, Hf.
  cbn [step tm readf armed full now pool]. rewrite Ha.
  destruct (P <? 0) eqn:E; [lia|]. cbn. eexists; reflexivity.
Qed.

Lemma ticker_flush_available P es s os :
  run (ticker_labels P es) = RDone s os -> g_reset_at s + P <= now s ->
  exists pre s' os', (pre = [] \/ pre = [CFire]) /\
    exec s (flat_map (cev_labels P) (pre ++ [CFlush])) = Some (s', os') /\
    recv_times os' = [now s].
Proof.
  intros H Hlate. destruct (ticker_start _ _ _ _ H) as (s0 & _ & HI & _ & _ & HP & os' & He & _).
  destruct (loop_spaced _ _ _ _ _ HI He) as ((Hr & Hgd & Hrc & (i & Hi)) & _).
  destruct (reachable_inv _ Hr) as [_ Ht]. rewrite Hi in Ht.
  destruct Ht as (Hdl & _ & _ & [Hc|[Hc|Hc]]).
  - destruct Hc as (Ha & Hf & _).
    set (s1 := {| now := now s; tm := Some (inner_fire i); readf := readf s;
                  pool := pool s; g_reset_at := g_reset_at s; g_d := g_d s;
                  g_recvs := g_recvs s; g_stopped_ok := g_stopped_ok s |}).
    assert (Hfire : step s LFire = Next s1 ONone).
    { cbn [step]. rewrite Hi, Ha. destruct (deadline i <=? now s) eqn:E; [reflexivity | lia]. }
    destruct (flush_enabled_when_full P s1 (inner_fire i) HP eq_refl eq_refl eq_refl) as (s' & Hs').
    exists [CFire], s'. eexists. split; [right; reflexivity|].
    cbn [app flat_map cev_labels] in *. cbn [exec]. rewrite Hfire.
    cbn [exec] in Hs'. rewrite Hs'. split; reflexivity.
  - destruct Hc as (Ha & Hf & _).
    destruct (flush_enabled_when_full P s i HP Hi Hf Ha) as (s' & Hs').
    exists [], s'. eexists. split; [left; reflexivity|]. cbn [app flat_map]. rewrite app_nil_r.
    split; [exact Hs' | reflexivity].
  - destruct Hc as (_ & _ & _ & Hone & _). rewrite Hrc in Hone. discriminate.
Qed.
