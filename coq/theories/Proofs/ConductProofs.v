(** Proofs about the conductor LTS ([Model.Conduct]).

    The LTS is finite (errors are abstracted to four values, the prompter's
    scene starts are self-loops), so the invariants are established by a
    REFLECTIVE reachability certificate: an untrusted exploration proposes a
    set R of states (bucketed by a hash); the trusted check [closed R] verifies
    that R contains the initial states, is closed under EVERY label, and that
    the state / transition predicates hold on all of R.  [closed_sound] (proved
    once, by induction on runs) lifts this to every state reachable by ANY
    label sequence — all orders in which the components can finish, with and
    without a signal.  Too little fuel can only make [closed] false. *)
From Coq Require Import FSets.FMapPositive.
From Shk Require Import Base.Prelude Model.Conduct.

(** * Generic certificate checker *)
Section Reach.
  Variables St Lb : Type.
  Variable beq : St -> St -> bool.
  Hypothesis beq_sound : forall x y, beq x y = true -> x = y.
  Variable hash : St -> positive.
  Variable inits : list St.
  Variable labels : list Lb.
  Hypothesis labels_all : forall l, In l labels.
  Variable stepf : St -> Lb -> option St.
  Variable good : St -> bool.
  Variable tgood : St -> Lb -> St -> bool.

  Inductive reach : St -> Prop :=
  | r_init s : In s inits -> reach s
  | r_step s l s' : reach s -> stepf s l = Some s' -> reach s'.

  Definition cert := PositiveMap.t (list St).
  Definition bucket (R : cert) (s : St) : list St :=
    match PositiveMap.find (hash s) R with Some l => l | None => [] end.
  Definition memR (s : St) (R : cert) : bool := existsb (beq s) (bucket R s).
  Definition InR (s : St) (R : cert) : Prop :=
    exists k l, PositiveMap.find k R = Some l /\ In s l.

  Lemma memR_InR s R : memR s R = true -> InR s R.
  Proof.
    unfold memR, bucket. destruct (PositiveMap.find (hash s) R) as [l|] eqn:E; cbn; [|discriminate].
    rewrite existsb_exists. intros [y [Hy Hb]]. apply beq_sound in Hb. subst y.
    exists (hash s), l. split; assumption.
  Qed.

  Definition chk_state (R : cert) (s : St) : bool :=
    good s &&
    forallb (fun l => match stepf s l with
                      | Some s' => memR s' R && tgood s l s'
                      | None => true
                      end) labels.

  Definition closed (R : cert) : bool :=
    forallb (fun s => memR s R) inits &&
    forallb (fun kl => forallb (chk_state R) (snd kl)) (PositiveMap.elements R).

  Lemma closed_chk R : closed R = true -> forall s, InR s R -> chk_state R s = true.
  Proof.
    intros Hc s [k [l [Hf Hin]]].
    apply andb_true_iff in Hc. destruct Hc as [_ Hall].
    rewrite forallb_forall in Hall.
    specialize (Hall (k, l) (PositiveMap.elements_correct R k Hf)). cbn in Hall.
    rewrite forallb_forall in Hall. apply Hall; assumption.
  Qed.

  Theorem closed_sound R : closed R = true -> forall s, reach s -> InR s R.
  Proof.
    intros Hc s Hr. induction Hr as [s Hin | s l s' Hr IH Hs].
    - apply andb_true_iff in Hc. destruct Hc as [Hi _].
      rewrite forallb_forall in Hi. apply memR_InR, Hi, Hin.
    - pose proof (closed_chk R Hc s IH) as Hk. unfold chk_state in Hk.
      apply andb_true_iff in Hk. destruct Hk as [_ Hall].
      rewrite forallb_forall in Hall. specialize (Hall l (labels_all l)).
      rewrite Hs in Hall. apply andb_true_iff in Hall. apply memR_InR, Hall.
  Qed.

  Corollary reach_good R : closed R = true -> forall s, reach s -> good s = true.
  Proof.
    intros Hc s Hr. pose proof (closed_chk R Hc s (closed_sound R Hc s Hr)) as Hk.
    unfold chk_state in Hk. apply andb_true_iff in Hk. apply Hk.
  Qed.

  Corollary reach_tgood R : closed R = true ->
    forall s l s', reach s -> stepf s l = Some s' -> tgood s l s' = true.
  Proof.
    intros Hc s l s' Hr Hs. pose proof (closed_chk R Hc s (closed_sound R Hc s Hr)) as Hk.
    unfold chk_state in Hk. apply andb_true_iff in Hk. destruct Hk as [_ Hall].
    rewrite forallb_forall in Hall. specialize (Hall l (labels_all l)).
    rewrite Hs in Hall. apply andb_true_iff in Hall. apply Hall.
  Qed.

  (** Untrusted exploration. *)
  Fixpoint explore (fuel : nat) (todo : list St) (R : cert) : cert :=
    match fuel with
    | O => R
    | S f =>
        match todo with
        | [] => R
        | s :: tl =>
            if memR s R then explore f tl R
            else explore f
                   (flat_map (fun l => match stepf s l with Some s' => [s'] | None => [] end) labels ++ tl)
                   (PositiveMap.add (hash s) (s :: bucket R s) R)
        end
    end.
End Reach.

(** * Instantiation *)
Scheme Equality for comp.
Scheme Equality for err.
Scheme Equality for cst.
Scheme Equality for pc.
Scheme Equality for phase.
Scheme Equality for watch.
Scheme Equality for cstate.

Lemma all_labels_complete : forall l, In l all_labels.
Proof.
  intros l. unfold all_labels, all_err.
  destruct l as [[]| |[] []|[] []|[]| |[]|[]]; cbn; tauto.
Qed.

Definition b2n (b : bool) : N := if b then 1%N else 0%N.
Definition err_code (e : err) : N := match e with ENil => 0 | ECancel => 1 | EViol => 2 | EOther => 3 end%N.
Definition cst_code (x : cst) : N := match x with Run => 0 | Fin e => 1 + err_code e | Rcv => 5 end%N.
Definition pc_code (p : pc) : N :=
  match p with
  | Sel1 => 0 | I1P => 1 | I1S => 2 | I1A => 3 | I1K => 4 | Sel2 => 5 | I2S => 6 | I2A => 7 | I2K => 8
  | Sel3 => 9 | I3A => 10 | I3K => 11 | Sel4 => 12 | Defer => 13
  end%N.
Definition ph_code (p : phase) : N :=
  match p with PInit => 0 | PPlay p => 1 + pc_code p | PFinal => 15 | PRet e => 16 + err_code e end%N.
Definition hash_state (s : cstate) : positive :=
  N.succ_pos
    (((((((((ph_code (ph s) * 6 + cst_code (sP s)) * 6 + cst_code (sS s)) * 6 + cst_code (sA s)) * 6 + cst_code (sK s)) * 2
        + b2n (cP s)) * 2 + b2n (cS s)) * 2 + b2n (quiesce s)) * 4 + err_code (fe s)) * 8
       + b2n (wS (wt s)) * 4 + b2n (wA (wt s)) * 2 + b2n (wK (wt s)))%N.

Definition is_some {A} (o : option A) : bool := match o with Some _ => true | None => false end.
Definition is_ret (s : cstate) : bool := match ph s with PRet _ => true | _ => false end.

(** The invariant:
    - a nil return without a signal means the prompter completed its script;
    - the cleanups were never out of order (see [g_bad_order] in the model);
    - at the return the initial cleanup has run, and the final one has run iff
      the initial one succeeded;
    - a scene can start only after a successful initial cleanup, and never once
      the prompter is cancelled or the stopper quiesces;
    - progress: unless the prompter hangs in a command, some obliged label is
      enabled in every state that has not returned. *)
Definition good_state (s : cstate) : bool :=
  match ph s with PRet ENil => quiesce s || g_completed s | _ => true end
  && negb (g_bad_order s)
  && match ph s with PRet _ => g_cl1 s && Bool.eqb (g_cl2 s) (g_cl1_ok s) | _ => g_cl1_ok s || negb (g_cl2 s) end
  && (negb (is_some (step s LScene)) || (g_cl1_ok s && negb (cP s) && negb (quiesce s) && negb (g_cl2 s)))
  && (hang s || is_ret s || existsb (fun l => obliged s l && is_some (step s l)) all_labels).

Definition good_trans (s : cstate) (l : label) (s' : cstate) : bool :=
  match l with
  | LScene => Nat.eqb (measure s') (measure s)
  | _ => Nat.ltb (measure s') (measure s)
  end
  && Bool.eqb (hang s') (hang s).

Definition inits : list cstate := [init false; init true].

Definition conduct_cert : PositiveMap.t (list cstate) :=
  Eval vm_compute in
    explore cstate label cstate_beq hash_state all_labels step (400 * 500) inits (PositiveMap.empty _).

Lemma conduct_cert_closed :
  closed cstate label cstate_beq hash_state inits all_labels step good_state good_trans conduct_cert = true.
Proof. vm_compute. reflexivity. Qed.

Definition creach := reach cstate label inits step.

Lemma creach_good s : creach s -> good_state s = true.
Proof.
  apply (reach_good cstate label cstate_beq internal_cstate_dec_bl hash_state inits all_labels
           all_labels_complete step good_state good_trans conduct_cert conduct_cert_closed).
Qed.

Lemma creach_trans s l s' : creach s -> step s l = Some s' -> good_trans s l s' = true.
Proof.
  apply (reach_tgood cstate label cstate_beq internal_cstate_dec_bl hash_state inits all_labels
           all_labels_complete step good_state good_trans conduct_cert conduct_cert_closed).
Qed.

(** Runs. *)
Lemma run_reach s ls s' : creach s -> run s ls = Some s' -> creach s'.
Proof.
  revert s. induction ls as [|l ls IH]; intros s Hr; cbn.
  - intros E. inversion E. subst. assumption.
  - destruct (step s l) as [s1|] eqn:Es; [|discriminate].
    intros E. apply (IH s1); [|assumption]. eapply r_step; eassumption.
Qed.

Lemma init_reach h : creach (init h).
Proof. apply r_init. destruct h; cbn; auto. Qed.

Ltac split_ands G :=
  repeat (let H := fresh "G" in apply andb_true_iff in G; destruct G as [G H]).

(** ** C05: exit status 0 implies the prompter completed the script *)
Lemma exit0_implies_prompter_completed h ls s :
  run (init h) ls = Some s -> returned s = Some ENil -> quiesce s = false -> g_completed s = true.
Proof.
  intros Hrun Hret Hq.
  pose proof (creach_good s (run_reach _ _ _ (init_reach h) Hrun)) as G.
  unfold returned in Hret. destruct (ph s) as [| | |e] eqn:Eph; try discriminate.
  inversion Hret. subst e.
  unfold good_state in G. rewrite Eph in G. cbv beta iota in G. split_ands G.
  rewrite Hq in G. exact G.
Qed.

(** ** C07: the two cleanups, on all orders *)
Lemma cleanup_twice h ls s e :
  run (init h) ls = Some s -> returned s = Some e ->
  g_cl1 s = true /\ g_cl2 s = g_cl1_ok s /\ g_bad_order s = false.
Proof.
  intros Hrun Hret.
  pose proof (creach_good s (run_reach _ _ _ (init_reach h) Hrun)) as G.
  unfold returned in Hret. destruct (ph s) as [| | |e'] eqn:Eph; try discriminate.
  unfold good_state in G. rewrite Eph in G. cbv beta iota in G. split_ands G.
  apply andb_true_iff in G2. destruct G2 as [H1 H2].
  repeat split; [assumption | apply eqb_prop; assumption | apply negb_true_iff; assumption].
Qed.

(** a scene starts only between a successful initial cleanup and the final
    one, and not once the prompter is cancelled or the stopper quiesces *)
Lemma scene_only_in_play h ls s s' :
  run (init h) ls = Some s -> step s LScene = Some s' ->
  g_cl1_ok s = true /\ g_cl2 s = false /\ cP s = false /\ quiesce s = false.
Proof.
  intros Hrun Hs.
  pose proof (creach_good s (run_reach _ _ _ (init_reach h) Hrun)) as G.
  unfold good_state in G. split_ands G.
  rewrite Hs in G1. cbn in G1. split_ands G1.
  repeat split; try assumption; apply negb_true_iff; assumption.
Qed.

(** ** C07: termination.  Every step other than a scene start decreases
    [measure] (at most [measure (init h)] = 48 such steps in any run), and in
    every reachable state that has not returned an obliged label is enabled,
    unless the prompter hangs in a command that does not end. *)
Lemma step_decreases h ls s l s' :
  run (init h) ls = Some s -> step s l = Some s' -> l <> LScene -> (measure s' < measure s)%nat.
Proof.
  intros Hrun Hs Hl.
  pose proof (creach_trans s l s' (run_reach _ _ _ (init_reach h) Hrun) Hs) as G.
  unfold good_trans in G. apply andb_true_iff in G. destruct G as [G _].
  destruct l; try (apply Nat.ltb_lt; exact G). congruence.
Qed.

Lemma scene_keeps_measure h ls s s' :
  run (init h) ls = Some s -> step s LScene = Some s' -> measure s' = measure s.
Proof.
  intros Hrun Hs.
  pose proof (creach_trans s LScene s' (run_reach _ _ _ (init_reach h) Hrun) Hs) as G.
  unfold good_trans in G. apply andb_true_iff in G. destruct G as [G _].
  apply Nat.eqb_eq; exact G.
Qed.

Lemma hang_constant h ls s : run (init h) ls = Some s -> hang s = h.
Proof.
  revert ls s.
  assert (forall ls s0 s, creach s0 -> run s0 ls = Some s -> hang s = hang s0) as K.
  { induction ls as [|l ls IH]; intros s0 s Hr; cbn.
    - intros E; inversion E; reflexivity.
    - destruct (step s0 l) as [s1|] eqn:Es; [|discriminate]. intros E.
      rewrite (IH s1 s); [| eapply r_step; eassumption | assumption].
      pose proof (creach_trans s0 l s1 Hr Es) as G. unfold good_trans in G.
      apply andb_true_iff in G. destruct G as [_ G]. apply eqb_prop; exact G. }
  intros ls s Hrun. rewrite (K ls (init h) s (init_reach h) Hrun). destruct h; reflexivity.
Qed.

Lemma progress ls s :
  run (init false) ls = Some s -> returned s = None ->
  exists l s', obliged s l = true /\ step s l = Some s'.
Proof.
  intros Hrun Hret.
  pose proof (creach_good s (run_reach _ _ _ (init_reach false) Hrun)) as G.
  unfold good_state in G. split_ands G.
  rewrite (hang_constant _ _ _ Hrun) in G0. cbn [orb] in G0.
  assert (is_ret s = false) as Hr by (unfold is_ret; unfold returned in Hret; destruct (ph s); [reflexivity..|discriminate]).
  rewrite Hr in G0. cbn [orb] in G0.
  apply existsb_exists in G0. destruct G0 as [l [_ Hl]].
  apply andb_true_iff in Hl. destruct Hl as [Ho Hs].
  destruct (step s l) as [s'|] eqn:Es; [|discriminate]. exists l, s'. split; auto.
Qed.

(** With a command that never ends by itself (the known finding
    "running-action-or-cleanup-not-interruptible") conduct can wait for ever:
    a reachable state that has not returned and in which NO label is enabled. *)
Lemma conduct_stuck_when_command_hangs :
  exists ls s, run (init true) ls = Some s /\ returned s = None /\ forall l, step s l = None.
Proof.
  exists [LCleanup1 true; LQuiesce; LFin CS ENil; LFin CA ENil; LFin CK ENil; LPick CS; LPick CA; LPick CK].
  eexists. split; [vm_compute; reflexivity|]. split; [reflexivity|].
  intros l. destruct l as [[]| |[] []|[] []|[]| |[]|[]]; vm_compute; reflexivity.
Qed.

(** ** The kill protocol *)
Lemma forallb_map_kill g : forallb (fun p => negb (p_alive p)) (kill_group g) = true.
Proof. induction g as [|p g IH]; cbn; auto. Qed.

Lemma any_alive_false_iff g : any_alive g = false <-> forall p, In p g -> p_alive p = false.
Proof.
  unfold any_alive. split.
  - intros H p Hin. destruct (p_alive p) eqn:E; auto.
    assert (existsb p_alive g = true) by (apply existsb_exists; exists p; auto). congruence.
  - intros H. destruct (existsb p_alive g) eqn:E; auto.
    apply existsb_exists in E. destruct E as [p [Hin Hp]]. rewrite (H p Hin) in Hp. discriminate.
Qed.

Lemma kill_group_dead g : any_alive (kill_group g) = false.
Proof. apply any_alive_false_iff. intros p Hin. unfold kill_group in Hin. apply in_map_iff in Hin.
  destruct Hin as [q [<- _]]. reflexivity. Qed.

Lemma apply_deaths_dead g dies : any_alive g = false -> any_alive (apply_deaths g dies) = false.
Proof.
  revert dies. induction g as [|p g IH]; intros dies H; cbn; auto.
  destruct dies as [|d dl]; [exact H|]. unfold any_alive in *. cbn in *.
  apply orb_false_iff in H. destruct H as [Hp Hg]. rewrite (IH dl Hg).
  destruct d; cbn; [reflexivity | rewrite Hp; reflexivity].
Qed.

Lemma hup_no_ignorer_dead g :
  (forall p, In p g -> p_ign_hup p = false) -> any_alive (hup_group g) = false.
Proof.
  intros H. apply any_alive_false_iff. intros p Hin. unfold hup_group in Hin. apply in_map_iff in Hin.
  destruct Hin as [q [<- Hq]]. rewrite (H q Hq). reflexivity.
Qed.

Lemma leader_alive_kill_group g : leader_alive (kill_group g) = false.
Proof. destruct g; reflexivity. Qed.

Definition leader_holds_pipe (g : pgroup) : bool := match g with [] => false | p :: _ => p_pipe p end.

Lemma leader_pipe_after g dies :
  leader_holds_pipe (apply_deaths (hup_group g) dies) = leader_holds_pipe g.
Proof.
  destruct g as [|p g]; cbn; [reflexivity|].
  destruct dies as [|d dl]; cbn; destruct (p_ign_hup p); try destruct d; reflexivity.
Qed.

Lemma leader_alive_pipe_open g :
  leader_alive g = true -> leader_holds_pipe g = true -> pipe_open g = true.
Proof. destruct g as [|p g]; cbn; [discriminate|]. intros -> ->. reflexivity. Qed.

(** Every INTERRUPTED command (the cancellation was observed: its pipe was
    open) whose leader holds the pipe while it lives — a shell script that did
    not redirect its own output, i.e. every spotlight — leaves no process of
    its group behind, whichever processes ignore SIGHUP and whichever die by
    themselves, and [cmd.Wait] returns. *)
Lemma no_survivor_in_group g dies :
  pipe_open g = true -> leader_holds_pipe g = true ->
  any_alive (fst (cancel_cmd g dies)) = false /\ snd (cancel_cmd g dies) = true.
Proof.
  intros Hp Hl. unfold cancel_cmd. rewrite Hp.
  set (g1 := apply_deaths (hup_group g) dies).
  assert (leader_holds_pipe g1 = true) as Hl1 by (unfold g1; rewrite leader_pipe_after; exact Hl).
  destruct (leader_alive g1) eqn:La.
  - rewrite (leader_alive_pipe_open g1 La Hl1). cbn [andb].
    rewrite leader_alive_kill_group. cbn. split; [apply kill_group_dead | reflexivity].
  - rewrite andb_false_r. rewrite La. cbn. split; [apply kill_group_dead | reflexivity].
Qed.

(** Refuted for redirected commands: a command whose pipe is at EOF (every
    action and cleanup: the generated script redirects its output) never
    observes the cancellation: nothing is signalled and Wait does not return
    unless the leader ends by itself (known finding
    "running-action-or-cleanup-not-interruptible"). *)
Lemma redirected_command_not_interruptible :
  exists g, pipe_open g = false /\ any_alive (fst (cancel_cmd g [])) = true
            /\ snd (cancel_cmd g []) = false.
Proof. exists [mkProc true false false; mkProc true false false]. vm_compute. repeat split. Qed.

Lemma redirected_command_untouched g dies :
  pipe_open g = false -> fst (cancel_cmd g dies) = apply_deaths g dies.
Proof. intros H. unfold cancel_cmd. rewrite H. reflexivity. Qed.

(** ... and it leaves nothing behind once it has ended by itself together
    with its group (the hypothesis under which the positive statement holds
    for actions and cleanups). *)
Lemma redirected_command_ends_by_itself g dies :
  pipe_open g = false -> any_alive (apply_deaths g dies) = false ->
  any_alive (fst (cancel_cmd g dies)) = false /\ snd (cancel_cmd g dies) = true.
Proof.
  intros H D. unfold cancel_cmd. rewrite H. cbn. split; [exact D|].
  destruct (apply_deaths g dies) as [|p tl]; cbn; auto.
  unfold any_alive in D. cbn in D. apply orb_false_iff in D. destruct D as [-> _]. reflexivity.
Qed.
