(** wf_state is an invariant of the construction: generalities, the simple clauses, storyline / edit / repeat (C10). *)
From Coq Require Import String Permutation.
From Shk Require Import Base.Prelude Model.Storyline Model.Config.
From Shk Require Import Proofs.ConfigText Proofs.ConfigRoles Proofs.ConfigCast Proofs.ConfigExpr Proofs.ConfigHyps.
Open Scope Z_scope.

(** * wf_state is an invariant of the construction *)

(** ** generalities *)
Lemma nodup_b_NoDup l : nodup_b l = true <-> NoDup l.
Proof.
  induction l as [|x l IH]; cbn; [split; [constructor|reflexivity]|].
  rewrite andb_true_iff, IH, negb_true_iff, mem_bytes_false. split.
  - intros [H1 H2]. constructor; auto.
  - intros H. inversion H; auto.
Qed.

Lemma nodup_b_perm l l' : Permutation l l' -> nodup_b l = true -> nodup_b l' = true.
Proof. intros P H. apply nodup_b_NoDup. apply nodup_b_NoDup in H. eapply Permutation_NoDup; eauto. Qed.

Lemma nodup_b_snoc l x : nodup_b l = true -> mem_bytes x l = false -> nodup_b (l ++ [x]) = true.
Proof. intros H1 H2. rewrite nodup_b_app_r, H1, H2. reflexivity. Qed.

Lemma find_app_some {A} (f : A -> bool) l l' x : find f l = Some x -> find f (l ++ l') = Some x.
Proof. induction l as [|y l IH]; cbn; [discriminate|]. destruct (f y); auto. Qed.

Lemma existsb_find {A} (f : A -> bool) l : existsb f l = true <-> exists x, find f l = Some x.
Proof.
  induction l as [|y l IH]; cbn.
  - split; [discriminate|intros [x H]; discriminate].
  - destruct (f y); cbn; [split; eauto|exact IH].
Qed.


Lemma forallb_app2 {A} (f : A -> bool) l1 l2 : forallb f (l1 ++ l2) = forallb f l1 && forallb f l2.
Proof. induction l1; cbn; [reflexivity|]. rewrite IHl1, andb_assoc. reflexivity. Qed.

(** ** the references of a state stay valid when roles and actors are added *)
Definition grows (s s' : cstate) : Prop :=
  (forall n r, find_role n (c_roles s) = Some r -> find_role n (c_roles s') = Some r)
  /\ (forall n a, find_actor n (c_actors s) = Some a -> find_actor n (c_actors s') = Some a).

Lemma grows_refl_on s s' : c_roles s' = c_roles s -> c_actors s' = c_actors s -> grows s s'.
Proof. intros H1 H2. split; intros; [rewrite H1|rewrite H2]; auto. Qed.

Lemma actor_wf_grows s s' a : grows s s' -> actor_wf s a = true -> actor_wf s' a = true.
Proof.
  intros [Hr _] H. unfold actor_wf in *. apply andb_prop in H as [H1 H2]. rewrite H1. cbn.
  apply existsb_find in H2. destruct H2 as [r H2]. apply existsb_find. exists r. apply (Hr (a_role a) r H2).
Qed.

Lemma entail_wf_grows s s' e : grows s s' -> entail_wf s e = true -> entail_wf s' e = true.
Proof.
  intros [Hr Ha] H. unfold entail_wf in *.
  destruct (find_actor (e_actor e) (c_actors s)) as [a|] eqn:Ea; [|discriminate].
  rewrite (Ha _ _ Ea).
  destruct (find_role (a_role a) (c_roles s)) as [r|] eqn:Er; [|discriminate].
  rewrite (Hr _ _ Er). exact H.
Qed.

Lemma scene_wf_grows s s' sc : grows s s' -> scene_wf s sc = true -> scene_wf s' sc = true.
Proof.
  intros G H. unfold scene_wf in *.
  apply andb_prop in H as [H H5]. apply andb_prop in H as [H H4]. apply andb_prop in H as [H H3]. apply andb_prop in H as [H1 H2].
  rewrite H1, H3, H4, H5. cbn. rewrite !andb_true_r.
  eapply forallb_impl; [|exact H2]. intros e _. apply entail_wf_grows. exact G.
Qed.

Lemma dep_wf_grows s s' d : grows s s' -> dep_wf s d = true -> dep_wf s' d = true.
Proof.
  intros [Hr Ha] H. unfold dep_wf, sigref_wf in *. destruct (is_nil (fst d)); [exact H|].
  apply andb_prop in H as [H1 H2]. rewrite H1. cbn.
  destruct (find_actor (fst d) (c_actors s)) as [a|] eqn:Ea; [|discriminate].
  rewrite (Ha _ _ Ea).
  destruct (find_role (a_role a) (c_roles s)) as [r|] eqn:Er; [|discriminate].
  rewrite (Hr _ _ Er). exact H2.
Qed.

Lemma expr_wf_grows orc s s' e : grows s s' -> expr_wf orc s e = true -> expr_wf orc s' e = true.
Proof.
  intros G H. unfold expr_wf in *. destruct (o_expr_vars orc (x_src e)); [|discriminate].
  apply andb_prop in H as [H1 H2]. rewrite H1. cbn.
  eapply forallb_impl; [|exact H2]. intros d _. apply dep_wf_grows. exact G.
Qed.

(** member_wf = its core (all but the last conjunct) and "prints something" *)
Definition member_core (orc : oracles) (s : cstate) (m : member) : bool :=
  ident_ok (m_name m)
  && forallb (expr_wf orc s) (member_exprs m)
  && forallb assign_wf (m_assigns m)
  && (match m_expect m with None => true | Some fe => mem_bytes (fst fe) modalities end)
  && (match m_cond m with Some _ => true | None => is_nil (m_assigns m) && match m_expect m with None => true | Some _ => false end end)
  && nodup_v (m_obs m)
  && forallb (dep_wf s) (m_obs m)
  && forallb (fun e => forallb (fun d => existsb (vname_eqb d) (m_obs m)) (sig_deps e)) (member_exprs m).

Definition member_ne (m : member) : bool :=
  match m_cond m with Some _ => true | None => false end
  || negb (is_nil (m_obs m)) || negb (is_nil (m_ylabel m)) || m_noplot m.

Lemma member_wf_split orc s m : member_wf orc s m = member_core orc s m && member_ne m.
Proof. reflexivity. Qed.

Lemma member_core_grows orc s s' m : grows s s' -> member_core orc s m = true -> member_core orc s' m = true.
Proof.
  intros G H. unfold member_core in *.
  apply andb_prop in H as [H H8]. apply andb_prop in H as [H H7]. apply andb_prop in H as [H H6].
  apply andb_prop in H as [H H5]. apply andb_prop in H as [H H4]. apply andb_prop in H as [H H3].
  apply andb_prop in H as [H1 H2].
  rewrite H1, H3, H4, H5, H6, H8. cbn. rewrite !andb_true_r.
  apply andb_true_intro. split.
  - eapply forallb_impl; [|exact H2]. intros e _. apply expr_wf_grows. exact G.
  - eapply forallb_impl; [|exact H7]. intros d _. apply dep_wf_grows. exact G.
Qed.

Lemma member_wf_grows orc s s' m : grows s s' -> member_wf orc s m = true -> member_wf orc s' m = true.
Proof.
  rewrite !member_wf_split. intros G H. apply andb_prop in H as [H1 H2].
  rewrite (member_core_grows orc s s' m G H1), H2. reflexivity.
Qed.

(** ** wf_state from its components *)
Lemma wf_intro orc s :
  forallb (fun t => negb (is_nil t)) (c_authors s) = true ->
  forallb (role_wf orc) (c_roles s) = true -> nodup_b (map r_name (c_roles s)) = true ->
  forallb (actor_wf s) (c_actors s) = true -> nodup_b (map a_name (c_actors s)) = true ->
  forallb (scene_wf s) (c_scenes s) = true -> nodup_b (map (fun sc => [s_char sc]) (c_scenes s)) = true ->
  repeat_wf orc s = true ->
  forallb (member_wf orc s) (c_aud s) = true -> nodup_b (map m_name (c_aud s)) = true ->
  nodup_b (builtin_vars ++ vars_of (c_aud s)) = true ->
  wf_state orc s = true.
Proof.
  intros H1 H2 H3 H4 H5 H6 H7 H8 H9 H10 H11. unfold wf_state.
  rewrite H1, H2, H3, H4, H5, H6, H7, H8, H9, H10, H11. reflexivity.
Qed.

Lemma wf_elim orc s : wf_state orc s = true ->
  forallb (fun t => negb (is_nil t)) (c_authors s) = true
  /\ forallb (role_wf orc) (c_roles s) = true /\ nodup_b (map r_name (c_roles s)) = true
  /\ forallb (actor_wf s) (c_actors s) = true /\ nodup_b (map a_name (c_actors s)) = true
  /\ forallb (scene_wf s) (c_scenes s) = true /\ nodup_b (map (fun sc => [s_char sc]) (c_scenes s)) = true
  /\ repeat_wf orc s = true
  /\ forallb (member_wf orc s) (c_aud s) = true /\ nodup_b (map m_name (c_aud s)) = true
  /\ nodup_b (builtin_vars ++ vars_of (c_aud s)) = true.
Proof.
  intros Hwf. unfold wf_state in Hwf.
  repeat (apply andb_prop in Hwf as [Hwf ?]). repeat split; assumption.
Qed.

(** a state that differs only in fields wf_state does not read, or whose
    read fields are given *)
Lemma wf_same orc s s' :
  c_authors s' = c_authors s -> c_roles s' = c_roles s -> c_actors s' = c_actors s -> c_scenes s' = c_scenes s ->
  c_story s' = c_story s -> c_from s' = c_from s -> c_actnum s' = c_actnum s -> c_aud s' = c_aud s ->
  wf_state orc s = true -> wf_state orc s' = true.
Proof.
  intros E1 E2 E3 E4 E5 E6 E7 E8 H. destruct s, s'. cbn in *. subst. exact H.
Qed.

Lemma forallb_forall_In {A} (f : A -> bool) l : (forall x, In x l -> f x = true) -> forallb f l = true.
Proof. intros H. apply forallb_forall. exact H. Qed.

(** rebuild wf_state after a step: old elements stay well-formed because
    references only grow *)
Lemma wf_rebuild orc s s' :
  wf_state orc s = true -> grows s s' ->
  forallb (fun t => negb (is_nil t)) (c_authors s') = true ->
  forallb (role_wf orc) (c_roles s') = true -> nodup_b (map r_name (c_roles s')) = true ->
  (forall a, In a (c_actors s') -> In a (c_actors s) \/ actor_wf s' a = true) ->
  nodup_b (map a_name (c_actors s')) = true ->
  (forall sc, In sc (c_scenes s') -> In sc (c_scenes s) \/ scene_wf s' sc = true) ->
  nodup_b (map (fun sc => [s_char sc]) (c_scenes s')) = true ->
  repeat_wf orc s' = true ->
  (forall m, In m (c_aud s') -> In m (c_aud s) \/ member_wf orc s' m = true) ->
  nodup_b (map m_name (c_aud s')) = true ->
  nodup_b (builtin_vars ++ vars_of (c_aud s')) = true ->
  wf_state orc s' = true.
Proof.
  intros Hwf G Hau Hro Hrn Hac Han Hsc Hsn Hrep Hmem Hmn Hvn.
  destruct (wf_elim orc s Hwf) as (_ & _ & _ & Wa & _ & Ws & _ & _ & Wm & _ & _).
  apply wf_intro; auto.
  - apply forallb_forall_In. intros a Ha. destruct (Hac a Ha) as [Hold|Hnew]; [|exact Hnew].
    apply (actor_wf_grows s s' a G). apply (forallb_In _ _ _ Wa Hold).
  - apply forallb_forall_In. intros sc Hs. destruct (Hsc sc Hs) as [Hold|Hnew]; [|exact Hnew].
    apply (scene_wf_grows s s' sc G). apply (forallb_In _ _ _ Ws Hold).
  - apply forallb_forall_In. intros m Hm. destruct (Hmem m Hm) as [Hold|Hnew]; [|exact Hnew].
    apply (member_wf_grows orc s s' m G). apply (forallb_In _ _ _ Wm Hold).
Qed.

Ltac inv_ok H :=
  repeat (match type of H with
          | obind (of_opt ?x _) _ = Ok _ => let E := fresh "E" in destruct x eqn:E; cbn [of_opt obind] in H; try discriminate H
          | obind ?o _ = Ok _ => let E := fresh "E" in destruct o eqn:E; cbn [obind] in H; try discriminate H
          | check ?b _ _ = Ok _ => let E := fresh "E" in unfold check at 1 in H; destruct b eqn:E; try discriminate H
          | (if ?b then _ else _) = Ok _ => let E := fresh "E" in destruct b eqn:E; try discriminate H
          | of_opt ?o _ = Ok _ => let E := fresh "E" in destruct o eqn:E; cbn [of_opt] in H; try discriminate H
          end).

(** ** the simple clauses *)
Section Inv.
Variable orc : oracles.

Lemma wf_init defs : wf_state orc (init_state defs) = true.
Proof. reflexivity. Qed.

Lemma inv_title s t s' : wf_state orc s = true -> apply orc s (CTitle t) = Ok s' -> wf_state orc s' = true.
Proof. intros Hwf H. cbn [apply] in H. inv_ok H. inversion H; subst. revert Hwf. apply wf_same; reflexivity. Qed.

Lemma inv_attention s t s' : wf_state orc s = true -> apply orc s (CAttention t) = Ok s' -> wf_state orc s' = true.
Proof. intros Hwf H. cbn [apply] in H. inv_ok H. inversion H; subst. revert Hwf. apply wf_same; reflexivity. Qed.

Lemma inv_param s n v s' : wf_state orc s = true -> apply orc s (CParam n v) = Ok s' -> wf_state orc s' = true.
Proof. intros Hwf H. cbn [apply] in H. inv_ok H. inversion H; subst. revert Hwf. apply wf_same; reflexivity. Qed.

Lemma inv_tempo s d s' : wf_state orc s = true -> apply orc s (CTempo d) = Ok s' -> wf_state orc s' = true.
Proof. intros Hwf H. cbn [apply] in H. inv_ok H. inversion H; subst. revert Hwf. apply wf_same; reflexivity. Qed.

Lemma inv_count s n s' : wf_state orc s = true -> apply orc s (CRepeatCount n) = Ok s' -> wf_state orc s' = true.
Proof. intros Hwf H. cbn [apply] in H. inv_ok H. inversion H; subst. revert Hwf. apply wf_same; reflexivity. Qed.

Lemma inv_always s s' : wf_state orc s = true -> apply orc s CRepeatAlways = Ok s' -> wf_state orc s' = true.
Proof. intros Hwf H. cbn [apply] in H. inversion H; subst. revert Hwf. apply wf_same; reflexivity. Qed.

Lemma inv_time s d s' : wf_state orc s = true -> apply orc s (CRepeatTime d) = Ok s' -> wf_state orc s' = true.
Proof. intros Hwf H. cbn [apply] in H. inv_ok H; inversion H; subst; revert Hwf; apply wf_same; reflexivity. Qed.

Lemma inv_author s t s' : wf_state orc s = true -> apply orc s (CAuthor t) = Ok s' -> wf_state orc s' = true.
Proof.
  intros Hwf H. cbn [apply] in H. inv_ok H. inversion H; subst. clear H.
  destruct (wf_elim orc s Hwf) as (W1 & W2 & W3 & W4 & W5 & W6 & W7 & W8 & W9 & W10 & W11).
  destruct s. cbn in *. apply wf_intro; cbn; auto.
  rewrite forallb_app2, W1. cbn. rewrite E. reflexivity.
Qed.

(** ** the clauses that change the storyline or the repetition point *)
Lemma wf_same_but_repeat s s' :
  c_authors s' = c_authors s -> c_roles s' = c_roles s -> c_actors s' = c_actors s -> c_scenes s' = c_scenes s ->
  c_aud s' = c_aud s -> repeat_wf orc s' = true ->
  wf_state orc s = true -> wf_state orc s' = true.
Proof.
  intros E1 E2 E3 E4 E5 Hrep Hwf.
  destruct (wf_elim orc s Hwf) as (W1 & W2 & W3 & W4 & W5 & W6 & W7 & W8 & W9 & W10 & W11).
  apply (wf_rebuild orc s s' Hwf); try (rewrite ?E1, ?E2, ?E3, ?E4, ?E5; assumption).
  - apply grows_refl_on; assumption.
  - rewrite E3. auto.
  - rewrite E4. auto.
  - rewrite E5. auto.
Qed.

Lemma repeat_wf_update s :
  match c_from s with None => c_actnum s = 0 | Some re => o_re_ok orc re = true end ->
  repeat_wf orc (update_repeat orc s) = true.
Proof.
  unfold update_repeat, repeat_wf. destruct (c_from s) as [re|] eqn:Ef.
  - intros Hok. destruct (first_match (o_re_match orc re) (c_story s) 1) as [n|] eqn:Em;
      destruct s; cbn in *; subst; rewrite Hok, Em; cbn; try apply Z.eqb_refl; reflexivity.
  - intros ->. rewrite Ef. reflexivity.
Qed.

Lemma update_repeat_fields s :
  c_authors (update_repeat orc s) = c_authors s /\ c_roles (update_repeat orc s) = c_roles s
  /\ c_actors (update_repeat orc s) = c_actors s /\ c_scenes (update_repeat orc s) = c_scenes s
  /\ c_aud (update_repeat orc s) = c_aud s.
Proof.
  unfold update_repeat. destruct (c_from s); [|repeat split].
  destruct (first_match _ _ _); destruct s; repeat split.
Qed.

Lemma repeat_wf_from s : repeat_wf orc s = true ->
  match c_from s with None => c_actnum s = 0 | Some re => o_re_ok orc re = true end.
Proof.
  unfold repeat_wf. destruct (c_from s).
  - intros H. apply andb_prop in H as [H _]. exact H.
  - apply Z.eqb_eq.
Qed.

Lemma inv_story_step s s1 :
  wf_state orc s = true ->
  c_authors s1 = c_authors s -> c_roles s1 = c_roles s -> c_actors s1 = c_actors s -> c_scenes s1 = c_scenes s ->
  c_aud s1 = c_aud s ->
  match c_from s1 with None => c_actnum s1 = 0 | Some re => o_re_ok orc re = true end ->
  wf_state orc (update_repeat orc s1) = true.
Proof.
  intros Hwf E1 E2 E3 E4 E5 Hf.
  destruct (update_repeat_fields s1) as (F1 & F2 & F3 & F4 & F5).
  apply (wf_same_but_repeat s); try congruence.
  apply repeat_wf_update. exact Hf.
Qed.

Lemma inv_storyline s t s' : wf_state orc s = true -> apply orc s (CStoryline t) = Ok s' -> wf_state orc s' = true.
Proof.
  intros Hwf H. cbn [apply] in H. inv_ok H. inversion H; subst. clear H.
  destruct (wf_elim orc s Hwf) as (_ & _ & _ & _ & _ & _ & _ & W8 & _).
  apply (inv_story_step s); try (destruct s; reflexivity); auto.
  apply repeat_wf_from in W8. destruct s; exact W8.
Qed.

Lemma inv_edit s p r s' : wf_state orc s = true -> apply orc s (CEdit p r) = Ok s' -> wf_state orc s' = true.
Proof.
  intros Hwf H. cbn [apply] in H. inv_ok H. inversion H; subst. clear H.
  destruct (wf_elim orc s Hwf) as (_ & _ & _ & _ & _ & _ & _ & W8 & _).
  apply (inv_story_step s); try (destruct s; reflexivity); auto.
  apply repeat_wf_from in W8. destruct s; exact W8.
Qed.

Lemma inv_repeatfrom s re s' : wf_state orc s = true -> apply orc s (CRepeatFrom re) = Ok s' -> wf_state orc s' = true.
Proof.
  intros Hwf H. cbn [apply] in H. inv_ok H. inversion H; subst. clear H.
  apply (inv_story_step s); try (destruct s; reflexivity); auto.
Qed.

End Inv.
