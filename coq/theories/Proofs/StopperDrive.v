(** The harness driver of Corr/C15.v only ever takes steps of the model: every
    state it visits is reachable, so every theorem of StopperProofs applies
    to the states the correspondence check compares with the real Stopper. *)
From Shk Require Import Base.Prelude Model.Stopper Corr.C15 Proofs.StopperProofs.
Open Scope nat_scope.
Opaque fuel0.

Lemma first_enabled_reachable caps s ls s' :
  reachable caps s -> first_enabled s ls = Some s' -> reachable caps s'.
Proof.
  intros R. induction ls as [|l ls IH]; cbn; [discriminate|].
  destruct (step s l) as [s1| |] eqn:E; auto.
  intros H; inversion H; subst. eapply reach_step; eauto.
Qed.

Lemma advance_reachable caps fuel s : reachable caps s -> reachable caps (advance fuel s).
Proof.
  revert s; induction fuel as [|f IH]; intros s R; cbn; [exact R|].
  destruct (first_enabled s (candidates s)) as [s'|] eqn:E; [|exact R].
  apply IH. eapply first_enabled_reachable; eauto.
Qed.

Lemma apply_label_reachable caps s l s' :
  reachable caps s -> apply_label s l = Some s' -> reachable caps s'.
Proof.
  unfold apply_label. intros R. destruct (step s l) as [s1| |] eqn:E; try discriminate.
  intros H. assert (Es : s' = advance fuel0 s1) by congruence. rewrite Es.
  apply (advance_reachable caps fuel0 s1). eapply reach_step; eauto.
Qed.

Theorem apply_op_reachable caps s o s' :
  reachable caps s -> apply_op s o = Some s' -> reachable caps s'.
Proof.
  intros R H. destruct o; cbn [apply_op] in H;
    try (eapply apply_label_reachable; [exact R | exact H]).
  - destruct (apply_label s LCallStop) as [s1|] eqn:E1; [|discriminate].
    eapply apply_label_reachable; [eapply apply_label_reachable; [exact R | exact E1] | exact H].
  - destruct (apply_label s LCallStop) as [s1|] eqn:E1; [|discriminate].
    eapply apply_label_reachable; [eapply apply_label_reachable; [exact R | exact E1] | exact H].
Qed.

(** All states visited while replaying a controlled case are reachable. *)
Fixpoint visited (s : st) (ops : list hop) : list st :=
  match ops with
  | [] => []
  | o :: tl => match apply_op s o with Some s' => s' :: visited s' tl | None => [] end
  end.

Theorem visited_reachable caps ops : forall s, reachable caps s -> Forall (reachable caps) (visited s ops).
Proof.
  induction ops as [|o tl IH]; intros s R; cbn; [constructor|].
  destruct (apply_op s o) as [s'|] eqn:E; [|constructor].
  assert (R' : reachable caps s') by (eapply apply_op_reachable; eauto).
  constructor; [exact R' | apply IH; exact R'].
Qed.
