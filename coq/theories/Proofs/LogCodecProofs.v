(** Proofs about the log codec model: a formatted well-formed entry, alone or
    inside any concatenation of formatted well-formed entries, is decoded back
    to itself. *)
From Shk Require Import Base.Prelude Model.LogCodec.
From Coq Require Import ZifyBool.
Open Scope Z_scope.
Ltac Zify.zify_post_hook ::= Z.div_mod_to_equations.

(** * Digits *)
Lemma digit_val_byte d : 0 <= d < 10 -> digit_val (digit_byte d) = Some d.
Proof.
  intros H.
  assert (d = 0 \/ d = 1 \/ d = 2 \/ d = 3 \/ d = 4 \/ d = 5 \/ d = 6 \/ d = 7 \/ d = 8 \/ d = 9) as E by lia.
  repeat (destruct E as [-> | E]; [reflexivity|]). subst; reflexivity.
Qed.

Lemma is_digit_byte d : 0 <= d < 10 -> is_digit (digit_byte d) = true.
Proof. intros H; unfold is_digit; rewrite digit_val_byte; auto. Qed.

Lemma dv_byte d : 0 <= d < 10 -> dv (digit_byte d) = d.
Proof. intros H; unfold dv; rewrite digit_val_byte; auto. Qed.

Definition all_digits (l : list byte) : Prop := Forall (fun c => is_digit c = true) l.

Definition dval (l : list byte) (acc : Z) : Z := fold_left (fun a c => a * 10 + dv c) l acc.

Lemma dval_snoc l c acc : dval (l ++ [c]) acc = dval l acc * 10 + dv c.
Proof. unfold dval; rewrite fold_left_app; reflexivity. Qed.

Lemma take_digits_app l : all_digits l -> forall r acc,
  take_digits (length l) (l ++ r) acc = Some (dval l acc, r).
Proof.
  induction 1 as [|c l Hc Hl IH]; intros r acc; cbn; [reflexivity|].
  rewrite Hc. apply IH.
Qed.

Lemma span_digits_app l : all_digits l -> forall r acc n,
  span_digits (l ++ r) acc n = span_digits r (dval l acc) (n + Z.of_nat (length l)).
Proof.
  induction 1 as [|c l Hc Hl IH]; intros r acc n.
  - cbn. f_equal. lia.
  - cbn [app span_digits]. rewrite Hc, IH. cbn [dval fold_left length]. f_equal. lia.
Qed.

Lemma span_digits_stop c r acc n : is_digit c = false -> span_digits (c :: r) acc n = (acc, n, c :: r).
Proof. intros H; cbn; rewrite H; reflexivity. Qed.

Lemma ndigits_length n : forall d, length (ndigits n d) = n.
Proof. induction n; intros d; cbn; [reflexivity|]. rewrite app_length, IHn; cbn; lia. Qed.

Lemma ndigits_digits n : forall d, all_digits (ndigits n d).
Proof.
  induction n; intros d; cbn; [constructor|].
  apply Forall_app; split; [apply IHn|]. constructor; [|constructor].
  apply is_digit_byte. lia.
Qed.

Lemma ndigits_val n : forall d, 0 <= d < 10 ^ Z.of_nat n -> dval (ndigits n d) 0 = d.
Proof.
  induction n; intros d H.
  - cbn in *. lia.
  - cbn [ndigits]. rewrite dval_snoc, dv_byte by lia.
    rewrite Nat2Z.inj_succ, Z.pow_succ_r in H by lia.
    rewrite IHn by lia. lia.
Qed.

Lemma take_ndigits n d r : 0 <= d < 10 ^ Z.of_nat n ->
  take_digits n (ndigits n d ++ r) 0 = Some (d, r).
Proof.
  intros H. pose proof (take_digits_app _ (ndigits_digits n d) r 0) as T.
  rewrite ndigits_length, ndigits_val in T by assumption. exact T.
Qed.

Lemma some_digits_aux_spec fuel : forall d acc,
  0 <= d < 10 ^ Z.of_nat fuel -> (0 < fuel)%nat ->
  exists l, some_digits_aux fuel d acc = l ++ acc /\ all_digits l /\ l <> [] /\ dval l 0 = d.
Proof.
  induction fuel as [|f IH]; intros d acc H Hf; [lia|].
  cbn [some_digits_aux].
  rewrite Nat2Z.inj_succ, Z.pow_succ_r in H by lia.
  destruct (d / 10 =? 0) eqn:E.
  - exists [digit_byte (d mod 10)]. repeat split.
    + constructor; [apply is_digit_byte; lia | constructor].
    + discriminate.
    + cbn. rewrite dv_byte by lia. lia.
  - assert (0 < f)%nat as Hf'.
    { destruct f; [|lia]. cbn in H. lia. }
    destruct (IH (d / 10) (digit_byte (d mod 10) :: acc)) as (l & E1 & D & N & V); [lia | assumption |].
    exists (l ++ [digit_byte (d mod 10)]). repeat split.
    + rewrite E1, <- app_assoc. reflexivity.
    + apply Forall_app; split; [assumption|]. constructor; [apply is_digit_byte; lia | constructor].
    + intros C; apply app_eq_nil in C; destruct C; discriminate.
    + rewrite dval_snoc, V, dv_byte by lia. lia.
Qed.

Lemma some_digits_spec d : 0 <= d <= max_int ->
  exists l, some_digits d = l /\ all_digits l /\ l <> [] /\ dval l 0 = d.
Proof.
  intros H. destruct (some_digits_aux_spec 20 d []) as (l & E & D & N & V).
  - unfold max_int in H. change (10 ^ Z.of_nat 20) with 100000000000000000000. lia.
  - lia.
  - exists l. rewrite app_nil_r in E. auto.
Qed.

(** [\d+] on a number printed by someDigits followed by a non-digit. *)
Lemma span_some_digits d c r : 0 <= d <= max_int -> is_digit c = false ->
  exists n, 0 < n /\ span_digits (some_digits d ++ c :: r) 0 0 = (d, n, c :: r).
Proof.
  intros H Hc. destruct (some_digits_spec d H) as (l & -> & D & N & V).
  exists (Z.of_nat (length l)). split.
  - destruct l; [congruence | cbn; lia].
  - rewrite span_digits_app by assumption. rewrite V. apply span_digits_stop; assumption.
Qed.

(** * File names *)
Lemma span_noncolon_app f r : no_byte colon f ->
  span_noncolon (f ++ colon :: r) = (f, colon :: r).
Proof.
  unfold no_byte. induction f as [|c f IH]; intros H.
  - reflexivity.
  - cbn [app span_noncolon]. destruct (Byte.eqb c colon) eqn:E.
    + apply byte_eqb_eq in E. subst. exfalso; apply H; left; reflexivity.
    + rewrite IH; [reflexivity|]. intros C; apply H; right; assumption.
Qed.

Lemma file_line_ok f l c r :
  f <> [] -> no_byte colon f -> 0 <= l <= max_int -> is_digit c = false ->
  file_line (f ++ colon :: some_digits l ++ c :: r) = Some (f, l, c :: r).
Proof.
  intros Hf Hc Hl Hd. unfold file_line. rewrite span_noncolon_app by assumption.
  destruct f as [|x f]; [congruence|].
  destruct (span_some_digits l c r Hl Hd) as (n & Hn & ->).
  replace (0 <? n) with true by lia. reflexivity.
Qed.

Lemma span_digits_app_stop f : forall c t acc n, is_digit c = false ->
  span_digits (f ++ c :: t) acc n =
  let '(v, n', r) := span_digits f acc n in (v, n', r ++ c :: t).
Proof.
  induction f as [|x f IH]; intros c t acc n Hc.
  - cbn. rewrite Hc. reflexivity.
  - cbn [app span_digits]. destruct (is_digit x); [apply IH; assumption | reflexivity].
Qed.

(** * The header *)
Lemma header_k_app e k : header_k e k = format_header e ++ k.
Proof.
  unfold format_header, header_k. cbn [app].
  f_equal. repeat (rewrite <- app_assoc; cbn [app]).
  repeat f_equal.
Qed.

Definition hdr_of (e : entry) : hdr :=
  mkHdr (e_sev e) (e_year e - 2000) (e_month e) (e_day e) (e_hour e) (e_min e) (e_sec e)
        x2e (e_micro e) (if 0 <? e_gid e then Some (e_gid e) else None) (e_file e) (e_line e).

Lemma days_in_le y m : days_in y m <= 31.
Proof.
  unfold days_in. destruct (leap y);
  repeat match goal with |- context [match ?x with _ => _ end] => destruct x end; lia.
Qed.

Lemma sev_char_ok s : 1 <= s <= 4 -> is_sev (sev_char s) = true /\ sev_of (sev_char s) = s.
Proof.
  intros H. assert (s = 1 \/ s = 2 \/ s = 3 \/ s = 4) as E by lia.
  destruct E as [-> | [-> | [-> | ->]]]; split; reflexivity.
Qed.

Lemma not_digit_sp : is_digit sp = false. Proof. reflexivity. Qed.
Lemma not_digit_colon : is_digit colon = false. Proof. reflexivity. Qed.

Lemma span_digits_suffix f : forall a m v n r,
  span_digits f a m = (v, n, r) -> exists p, f = p ++ r.
Proof.
  induction f as [|x f IH]; intros a m v n r E.
  - cbn in E. inversion E; subst. exists []; reflexivity.
  - cbn in E. destruct (is_digit x).
    + destruct (IH _ _ _ _ _ E) as [p ->]. exists (x :: p); reflexivity.
    + inversion E; subst. exists []; reflexivity.
Qed.

(** The goroutine-less alternative is the only one that matches when the
    goroutine field is absent and the file name is not of the ambiguous shape. *)
Lemma alt_a_none f t :
  f <> [] -> no_byte colon f -> ambiguous_file f = false ->
  (let '(g, n, r) := span_digits (f ++ colon :: t) 0 0 in
   if 0 <? n then
     match r with
     | x :: r' => if Byte.eqb x sp then file_line r' else None
     | [] => None
     end
   else None) = None.
Proof.
  intros Hf Hc Ha. rewrite span_digits_app_stop by reflexivity.
  unfold ambiguous_file in Ha.
  destruct (span_digits f 0 0) as [[v n] r] eqn:E.
  destruct (0 <? n) eqn:En; [|reflexivity].
  cbn [andb] in Ha.
  destruct (span_digits_suffix _ _ _ _ _ _ E) as [p Hp].
  assert (no_byte colon r) as Hr.
  { intros C. apply Hc. rewrite Hp. apply in_or_app; right; assumption. }
  destruct r as [|x [|y r]].
  - cbn. reflexivity.
  - cbn [app]. destruct (Byte.eqb x sp); [|reflexivity]. reflexivity.
  - cbn [app]. rewrite Ha. reflexivity.
Qed.

Lemma match_at_format e k :
  wf e ->
  match_at (header_k e k) =
  Some (hdr_of e, sp :: sp :: k).
Proof.
  intros W. destruct W as [Ws Wy Wc Wg Wl Wfn Wfc Wfl Wu Wmn Wmt].
  destruct Wc as (Hmo & Hdd & Hhh & Hmi & Hss & Hus).
  pose proof (days_in_le (e_year e) (e_month e)) as Hd31.
  destruct (sev_char_ok _ Ws) as [Hs1 Hs2].
  unfold header_k, match_at.
  replace (e_year e <? 2000) with false by lia.
  replace (e_line e <? 0) with false by lia.
  rewrite Hs1.
  rewrite take_ndigits by (change (10 ^ Z.of_nat 2) with 100; lia).
  rewrite take_ndigits by (change (10 ^ Z.of_nat 2) with 100; lia).
  rewrite take_ndigits by (change (10 ^ Z.of_nat 2) with 100; lia).
  cbn [expect]. change (Byte.eqb sp sp) with true. cbv iota.
  rewrite take_ndigits by (change (10 ^ Z.of_nat 2) with 100; lia).
  cbn [expect]. change (Byte.eqb colon colon) with true. cbv iota.
  rewrite take_ndigits by (change (10 ^ Z.of_nat 2) with 100; lia).
  cbn [expect]. change (Byte.eqb colon colon) with true. cbv iota.
  rewrite take_ndigits by (change (10 ^ Z.of_nat 2) with 100; lia).
  change (Byte.eqb x2e nl) with false. cbv iota.
  rewrite take_ndigits by (change (10 ^ Z.of_nat 6) with 1000000; lia).
  cbn [expect]. change (Byte.eqb sp sp) with true. cbv iota.
  rewrite Hs2. unfold hdr_of.
  destruct (0 <? e_gid e) eqn:G.
  - (* goroutine printed *)
    rewrite <- app_assoc. cbn [app].
    destruct (span_some_digits (e_gid e) sp (e_file e ++ colon :: some_digits (e_line e) ++ sp :: sp :: k) Wg not_digit_sp) as (n & Hn & ->).
    replace (0 <? n) with true by lia.
    change (Byte.eqb sp sp) with true. cbv iota.
    rewrite file_line_ok by (auto using not_digit_sp). reflexivity.
  - (* goroutine omitted *)
    cbn [app].
    assert (ambiguous_file (e_file e) = false) as Ha.
    { destruct (ambiguous_file (e_file e)) eqn:A; [|reflexivity].
      exfalso; apply Wu; split; [lia | reflexivity]. }
    pose proof (alt_a_none (e_file e) (some_digits (e_line e) ++ sp :: sp :: k) Wfn Wfc Ha) as AN.
    destruct (span_digits (e_file e ++ colon :: some_digits (e_line e) ++ sp :: sp :: k) 0 0) as [[g n] r].
    rewrite AN.
    rewrite file_line_ok by (auto using not_digit_sp). reflexivity.
Qed.

(** * strings.TrimSpace on "  " ++ msg ++ "\n" *)
Lemma strip1_shorter s r : strip1 s = Some r -> (length r < length s)%nat.
Proof.
  unfold strip1. destruct s as [|c1 r1]; [discriminate|].
  destruct (ascii_space c1); [inversion 1; subst; cbn; lia|].
  destruct r1 as [|c2 r2]; [discriminate|].
  destruct (beq c1 xc2 && (beq c2 x85 || beq c2 xa0)); [inversion 1; subst; cbn; lia|].
  destruct r2 as [|c3 r3]; [discriminate|].
  match goal with |- (if ?b then _ else _) = _ -> _ => destruct b end; [inversion 1; subst; cbn; lia | discriminate].
Qed.

Lemma strip1r_shorter s r : strip1r s = Some r -> (length r < length s)%nat.
Proof.
  unfold strip1r. destruct s as [|c1 r1]; [discriminate|].
  destruct (ascii_space c1); [inversion 1; subst; cbn; lia|].
  destruct r1 as [|c2 r2]; [discriminate|].
  destruct (beq c2 xc2 && (beq c1 x85 || beq c1 xa0)); [inversion 1; subst; cbn; lia|].
  destruct r2 as [|c3 r3]; [discriminate|].
  match goal with |- (if ?b then _ else _) = _ -> _ => destruct b end; [inversion 1; subst; cbn; lia | discriminate].
Qed.

Section StripAll.
  Variable strip : list byte -> option (list byte).
  Hypothesis shorter : forall s r, strip s = Some r -> (length r < length s)%nat.

  Lemma strip_all_le fuel : forall s, (length (strip_all strip fuel s) <= length s)%nat.
  Proof.
    induction fuel as [|f IH]; intros s; cbn; [lia|].
    destruct (strip s) as [r|] eqn:E; [|lia].
    specialize (IH r). apply shorter in E. lia.
  Qed.

  Lemma strip_all_lt fuel s r : strip s = Some r -> (0 < fuel)%nat ->
    (length (strip_all strip fuel s) < length s)%nat.
  Proof.
    intros E Hf. destruct fuel as [|f]; [lia|]. cbn. rewrite E.
    pose proof (strip_all_le f r). apply shorter in E. lia.
  Qed.

  Lemma strip_all_none fuel s : strip s = None -> strip_all strip fuel s = s.
  Proof. intros E; destruct fuel; cbn; [|rewrite E]; reflexivity. Qed.
End StripAll.

Lemma trimmed_inv m : trim_space m = m ->
  m = [] \/ (strip1 m = None /\ strip1r (rev m) = None).
Proof.
  intros T. destruct m as [|c m']; [left; reflexivity|]. right.
  set (m := c :: m') in *.
  assert (length (trim_space m) = length m) as L by (rewrite T; reflexivity).
  unfold trim_space, trim_right in L. rewrite rev_length in L.
  pose proof (strip_all_le strip1r strip1r_shorter (length (trim_left m)) (rev (trim_left m))) as L1.
  rewrite rev_length in L1.
  pose proof (strip_all_le strip1 strip1_shorter (length m) m) as L2. fold (trim_left m) in L2.
  assert (strip1 m = None) as S1.
  { destruct (strip1 m) as [r|] eqn:E; [|reflexivity].
    pose proof (strip_all_lt strip1 strip1_shorter (length m) m r E) as L3.
    fold (trim_left m) in L3. cbn [length m] in *. lia. }
  split; [assumption|].
  assert (trim_left m = m) as TL by (apply strip_all_none; assumption).
  rewrite TL in *.
  destruct (strip1r (rev m)) as [r|] eqn:E; [|reflexivity].
  pose proof (strip_all_lt strip1r strip1r_shorter (length m) (rev m) r E) as L3.
  rewrite rev_length in L3. cbn [length m] in *. lia.
Qed.

Lemma strip1_snoc_nl m : m <> [] -> strip1 m = None -> strip1 (m ++ [nl]) = None.
Proof.
  intros Hm S. unfold strip1 in *.
  destruct m as [|c1 [|c2 [|c3 r3]]]; [congruence| | |]; cbn [app] in *.
  - destruct (ascii_space c1); [discriminate|].
    replace (beq nl x85) with false by reflexivity. replace (beq nl xa0) with false by reflexivity.
    rewrite andb_false_r. reflexivity.
  - destruct (ascii_space c1); [discriminate|].
    destruct (beq c1 xc2 && (beq c2 x85 || beq c2 xa0)); [discriminate|].
    replace (beq nl x80) with false by reflexivity. replace (beq nl x9f) with false by reflexivity.
    replace (e280_space nl) with false by reflexivity.
    rewrite !andb_false_r. reflexivity.
  - destruct (ascii_space c1); [discriminate|].
    destruct (beq c1 xc2 && (beq c2 x85 || beq c2 xa0)); [discriminate|].
    match goal with |- (if ?b then _ else _) = _ => destruct b end; [discriminate | reflexivity].
Qed.

Lemma trim_space_region m : no_byte nl m -> trim_space m = m ->
  trim_space (sp :: sp :: m ++ [nl]) = m.
Proof.
  intros _ T. apply trimmed_inv in T.
  unfold trim_space.
  assert (trim_left (sp :: sp :: m ++ [nl]) = strip_all strip1 (length (m ++ [nl])) (m ++ [nl])) as E by reflexivity.
  rewrite E. clear E.
  destruct T as [-> | [S1 S2]]; [reflexivity|].
  destruct m as [|c m']; [reflexivity|]. set (m := c :: m') in *.
  rewrite strip_all_none by (apply strip1_snoc_nl; [discriminate | assumption]).
  unfold trim_right. rewrite rev_app_distr. cbn [rev app].
  rewrite app_length. cbn [length]. rewrite Nat.add_1_r. cbn [strip_all strip1r].
  change (ascii_space nl) with true. cbv iota.
  rewrite strip_all_none by assumption. apply rev_involutive.
Qed.

(** * Shape of a formatted well-formed entry *)
Definition header_pre (e : entry) : list byte :=
  let year := if e_year e <? 2000 then 2000 else e_year e in
  let line := if e_line e <? 0 then 0 else e_line e in
  sev_char (e_sev e) ::
  ndigits 2 (year - 2000) ++ ndigits 2 (e_month e) ++ ndigits 2 (e_day e) ++
  sp :: ndigits 2 (e_hour e) ++ colon :: ndigits 2 (e_min e) ++ colon :: ndigits 2 (e_sec e) ++
  x2e :: ndigits 6 (e_micro e) ++ sp ::
  (if 0 <? e_gid e then some_digits (e_gid e) ++ [sp] else []) ++
  e_file e ++ colon :: some_digits line.

Lemma header_k_pre e k : header_k e k = header_pre e ++ sp :: sp :: k.
Proof.
  unfold header_pre, header_k. cbn [app].
  f_equal. repeat (rewrite <- app_assoc; cbn [app]).
  repeat f_equal.
Qed.

Definition not_nl (c : byte) : Prop := c <> nl.

Lemma digits_not_nl l : all_digits l -> Forall not_nl l.
Proof.
  intros H. eapply Forall_impl; [|exact H]. intros c Hc E. subst. discriminate.
Qed.

Lemma no_byte_Forall l : no_byte nl l -> Forall not_nl l.
Proof.
  unfold no_byte. intros H. apply Forall_forall. intros c Hc E. subst. contradiction.
Qed.

Lemma some_digits_not_nl d : 0 <= d <= max_int -> Forall not_nl (some_digits d).
Proof. intros H. destruct (some_digits_spec d H) as (l & -> & D & _). apply digits_not_nl; assumption. Qed.

Lemma ends_nl_false l : Forall not_nl l -> ends_nl l = false.
Proof.
  induction 1 as [|c l Hc Hl IH]; [reflexivity|].
  cbn [ends_nl]. destruct l as [|c' l'].
  - destruct (Byte.eqb c nl) eqn:E; [apply byte_eqb_eq in E; contradiction | reflexivity].
  - exact IH.
Qed.

Lemma sev_char_not_nl s : sev_char s <> nl.
Proof.
  unfold sev_char. destruct ((4 <? s) || (s <=? 0)); [discriminate|].
  repeat match goal with |- context [match ?x with _ => _ end] => destruct x end; discriminate.
Qed.

Lemma body_not_nl e : wf e -> Forall not_nl (header_k e (e_msg e)).
Proof.
  intros W. destruct W as [Ws Wy Wc Wg Wl Wfn Wfc Wfl Wu Wmn Wmt].
  unfold header_k.
  replace (e_line e <? 0) with false by lia.
  constructor; [apply sev_char_not_nl|].
  destruct (0 <? e_gid e);
  repeat first
    [ apply Forall_nil
    | apply digits_not_nl, ndigits_digits
    | apply some_digits_not_nl; assumption
    | apply no_byte_Forall; assumption
    | apply Forall_cons; [unfold not_nl; discriminate|]
    | apply Forall_app; split ].
Qed.

Lemma format_wf e : wf e -> format e = header_k e (e_msg e ++ [nl]).
Proof.
  intros W. unfold format. rewrite ends_nl_false by (apply body_not_nl; assumption).
  rewrite (header_k_app e (e_msg e)), (header_k_app e (e_msg e ++ [nl])), app_assoc. reflexivity.
Qed.

Lemma is_sev_digit d : is_sev (digit_byte d) = false.
Proof.
  unfold digit_byte.
  repeat match goal with |- context [match ?x with _ => _ end] => destruct x end; reflexivity.
Qed.

(** A formatted entry is: severity letter, a digit, bytes other than newline, newline. *)
Lemma format_shape e : wf e ->
  exists c0 d0 l2, format e = c0 :: d0 :: l2 ++ [nl] /\ is_sev d0 = false /\ d0 <> nl /\ Forall not_nl l2.
Proof.
  intros W. pose proof (body_not_nl e W) as B.
  unfold format. rewrite ends_nl_false by assumption.
  unfold header_k in *. cbn [ndigits app] in *.
  match type of B with Forall _ (?c :: ?d :: ?l) => exists c, d, l end.
  inversion B as [|? ? _ B1]; subst. inversion B1 as [|? ? Hd B2]; subst.
  repeat split; [apply is_sev_digit | assumption | assumption].
Qed.

(** * split *)
Lemma split_go_line l : Forall not_nl l -> forall cur rest,
  split_go false cur (l ++ rest) = split_go false (rev l ++ cur) rest.
Proof.
  induction 1 as [|c l Hc Hl IH]; intros cur rest; [reflexivity|].
  cbn [app split_go andb].
  assert (is_nl c = false) as E.
  { unfold is_nl. destruct (Byte.eqb c nl) eqn:E; [apply byte_eqb_eq in E; contradiction | reflexivity]. }
  rewrite E, IH. cbn [rev]. rewrite <- app_assoc. reflexivity.
Qed.

Lemma match_at_not_sev c s : is_sev c = false -> is_match (c :: s) = false.
Proof. intros H. unfold is_match, match_at. rewrite H. reflexivity. Qed.

Lemma is_match_format e R : wf e -> is_match (format e ++ R) = true.
Proof.
  intros W. rewrite format_wf by assumption.
  rewrite (header_k_app e (e_msg e ++ [nl])), <- app_assoc, <- header_k_app.
  unfold is_match. rewrite match_at_format by assumption. reflexivity.
Qed.

Lemma split_go_inside e c0 t R : wf e -> format e = c0 :: t ->
  split_go true [c0] (t ++ R) = split_go true (rev (format e)) R.
Proof.
  intros W E. destruct (format_shape e W) as (c0' & d0 & l2 & F & Hd & Hn & Hl).
  rewrite F in E. inversion E; subst c0' t. clear E.
  rewrite F. cbn [app split_go].
  rewrite match_at_not_sev by assumption. cbn [andb].
  assert (is_nl d0 = false) as E.
  { unfold is_nl. destruct (Byte.eqb d0 nl) eqn:E; [apply byte_eqb_eq in E; contradiction | reflexivity]. }
  rewrite E. rewrite <- app_assoc. rewrite split_go_line by assumption.
  cbn [app split_go andb]. change (is_nl nl) with true.
  f_equal. cbn [rev]. rewrite rev_app_distr. cbn [rev app]. rewrite <- !app_assoc. reflexivity.
Qed.

Lemma split_go_entry e cur R : wf e ->
  split_go true cur (format e ++ R) = rev cur :: split_go true (rev (format e)) R.
Proof.
  intros W. pose proof (is_match_format e R W) as M.
  destruct (format e) as [|c0 t] eqn:F.
  - destruct (format_shape e W) as (? & ? & ? & F' & _). congruence.
  - cbn [app split_go]. cbn [app] in M. rewrite M. cbn [andb].
    f_equal. rewrite <- F. apply split_go_inside; assumption.
Qed.

Lemma split_go_concat es : Forall wf es -> forall cur,
  split_go true cur (concat (map format es)) = rev cur :: map format es.
Proof.
  induction 1 as [|e es W Hes IH]; intros cur; [reflexivity|].
  cbn [map concat]. rewrite split_go_entry by assumption.
  rewrite IH, rev_involutive. reflexivity.
Qed.

Lemma split_tokens_concat es : Forall wf es ->
  split_tokens (concat (map format es)) = map format es.
Proof.
  intros H. destruct H as [|e es W Hes]; [reflexivity|].
  cbn [map concat]. unfold split_tokens.
  destruct (format e) as [|c0 t] eqn:F.
  - destruct (format_shape e W) as (? & ? & ? & F' & _). congruence.
  - cbn [app]. rewrite (split_go_inside e c0 t _ W F).
    rewrite split_go_concat by assumption. rewrite F, rev_involutive. reflexivity.
Qed.

(** * Decode of one formatted entry *)
Lemma time_ok_hdr_of e : wf e -> time_ok (hdr_of e) = true.
Proof.
  intros W. destruct W as [Ws Wy Wc Wg Wl Wfn Wfc Wfl Wu Wmn Wmt].
  destruct Wc as (Hmo & Hdd & Hhh & Hmi & Hss & Hus).
  unfold time_ok, hdr_of. cbn [h_sep h_mo h_dd h_yy h_hh h_mi h_ss].
  assert (year_of_yy (e_year e - 2000) = e_year e) as Y.
  { unfold year_of_yy. replace (69 <=? e_year e - 2000) with false by lia. lia. }
  rewrite Y. change (beq x2e x2e) with true. cbn [orb andb].
  repeat (apply andb_true_intro; split); lia.
Qed.

Lemma decode_token_format e : wf e -> decode_token (format e) = TEntry e.
Proof.
  intros W. unfold decode_token, find_match.
  rewrite format_wf by assumption.
  assert (header_k e (e_msg e ++ [nl]) <> []) as NE by (unfold header_k; discriminate).
  destruct (header_k e (e_msg e ++ [nl])) as [|c s] eqn:F; [congruence|].
  cbn [find_match_aux]. rewrite <- F. rewrite match_at_format by assumption.
  rewrite time_ok_hdr_of by assumption. cbn [negb].
  pose proof W as W'. destruct W' as [Ws Wy Wc Wg Wl Wfn Wfc Wfl Wu Wmn Wmt].
  unfold hdr_of. cbn [h_gid h_line h_sev h_yy h_mo h_dd h_hh h_mi h_ss h_us h_file].
  assert ((match (if 0 <? e_gid e then Some (e_gid e) else None) with Some g => g | None => 0 end) = e_gid e) as G.
  { destruct (0 <? e_gid e) eqn:E; lia. }
  rewrite G.
  replace (max_int <? e_gid e) with false by lia.
  replace (max_int <? e_line e) with false by lia.
  rewrite trim_space_region by assumption.
  assert (year_of_yy (e_year e - 2000) = e_year e) as Y.
  { unfold year_of_yy. replace (69 <=? e_year e - 2000) with false by lia. lia. }
  rewrite Y. destruct e; reflexivity.
Qed.

(** * The round trip *)
Theorem decode_concat es : Forall wf es -> decode_stream (concat (map format es)) = (es, 0).
Proof.
  intros H. unfold decode_stream. rewrite split_tokens_concat by assumption.
  induction H as [|e es W Hes IH]; [reflexivity|].
  cbn [map decode_tokens]. rewrite decode_token_format by assumption. rewrite IH. reflexivity.
Qed.

Theorem decode_format e : wf e -> decode_stream (format e) = ([e], 0).
Proof.
  intros W. pose proof (decode_concat [e] (Forall_cons _ W (Forall_nil _))) as H.
  cbn [map concat] in H. rewrite app_nil_r in H. exact H.
Qed.

(** * Header-like text inside a message *)
Definition set_msg (e : entry) (m : list byte) : entry :=
  mkEntry (e_sev e) (e_year e) (e_month e) (e_day e) (e_hour e) (e_min e) (e_sec e) (e_micro e)
          (e_gid e) (e_file e) (e_line e) m.

Lemma wf_set_msg e m : wf e -> no_byte nl m -> trim_space m = m -> wf (set_msg e m).
Proof. intros [] Hn Ht. constructor; cbn; assumption. Qed.

(** Whatever single-line, trimmed text a message holds — in particular the
    complete header of another entry [h], with anything before and after it —
    the entry is decoded back to itself, wherever it stands in a stream. *)
Theorem header_like_text_harmless es1 e es2 pre h post :
  Forall wf es1 -> wf e -> Forall wf es2 ->
  let m := pre ++ format_header h ++ post in
  no_byte nl m -> trim_space m = m ->
  decode_stream (concat (map format (es1 ++ set_msg e m :: es2))) = (es1 ++ set_msg e m :: es2, 0).
Proof.
  intros H1 W H2 m Hn Ht. apply decode_concat.
  apply Forall_app; split; [assumption|]. constructor; [apply wf_set_msg; assumption | assumption].
Qed.

(** * The statement without the extra guards is false *)
Record wf_stated (e : entry) : Prop := {
  ws_sev : 1 <= e_sev e <= 4;
  ws_year : 2000 <= e_year e <= 2068;
  ws_civil : valid_civil e;
  ws_gid : 0 <= e_gid e <= max_int;
  ws_line : 0 <= e_line e <= max_int;
  ws_msg_nl : no_byte nl (e_msg e)
}.

(** I190304 05:06:07.123456 12 a.go:12  hello — goroutine 0, file "12 a.go" *)
Definition witness : entry :=
  mkEntry 1 2019 3 4 5 6 7 123456 0 [x31; x32; x20; x61; x2e; x67; x6f] 12 [x68; x65; x6c; x6c; x6f].

Ltac no_byte_tac := unfold no_byte; let H := fresh in intro H; cbn in H; repeat (destruct H as [H | H]; [discriminate H|]); exact H.

Lemma witness_stated : wf_stated witness.
Proof.
  constructor; cbn; try (unfold max_int; lia).
  - unfold valid_civil; cbn; lia.
  - no_byte_tac.
Qed.

Lemma witness_decodes_wrong :
  decode_stream (format witness) =
  ([mkEntry 1 2019 3 4 5 6 7 123456 12 [x61; x2e; x67; x6f] 12 [x68; x65; x6c; x6c; x6f]], 0).
Proof. vm_compute. reflexivity. Qed.

Theorem round_trip_refuted :
  exists e, wf_stated e /\ e_file e <> [] /\ no_byte colon (e_file e) /\ no_byte nl (e_file e) /\
            trim_space (e_msg e) = e_msg e /\
            decode_stream (format e) <> ([e], 0).
Proof.
  exists witness. split; [exact witness_stated|].
  split; [discriminate|]. split; [no_byte_tac|]. split; [no_byte_tac|].
  split; [vm_compute; reflexivity|].
  rewrite witness_decodes_wrong. discriminate.
Qed.
