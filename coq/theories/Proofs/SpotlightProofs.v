(** Proofs for C08: the rows of csv/<observer>.<actor>.<signal>.csv computed
    by the models (Model/Spotlight.v detect + Model/Audit.v rounds + the
    collector's fan-out) are exactly the points of the plain-meaning
    specification [spec_rows], for every configuration, every cast, every
    sequence of lines / mood changes, every observer. *)
From Shk Require Import Base.Prelude Model.Value Model.Functions Model.Expr Model.Fsm Model.Audit
  Model.AuditSpec Proofs.AuditProofs Model.Spotlight.
From Coq Require Import String QArith Permutation.
Open Scope list_scope.

(** * Variables *)

Lemma var_eqb_eq x y : var_eqb x y = true <-> x = y.
Proof.
  destruct x as [a b], y as [c d]. unfold var_eqb. cbn.
  rewrite andb_true_iff, !String.eqb_eq. split; [intros [-> ->]; reflexivity | intros H; inversion H; auto].
Qed.

Lemma var_eqb_refl x : var_eqb x x = true.
Proof. apply var_eqb_eq. reflexivity. Qed.

Lemma var_eqb_neq x y : x <> y -> var_eqb x y = false.
Proof. intros H. destruct (var_eqb x y) eqn:E; [apply var_eqb_eq in E; contradiction | reflexivity]. Qed.

Lemma var_eqb_false_neq x y : var_eqb x y = false -> x <> y.
Proof. intros E ->. rewrite var_eqb_refl in E. discriminate. Qed.

(** * Part 1: what the audition forwards for a signal variable *)

Definition obs_of (x : var) (o : out) : list (Q * value) :=
  match o with
  | OObs y v ts => if var_eqb x y then [(ts, v)] else []
  | _ => []
  end.
Definition obs_in (x : var) (l : list out) : list (Q * value) := flat_map (obs_of x) l.

Lemma obs_in_app x l1 l2 : obs_in x (l1 ++ l2) = obs_in x l1 ++ obs_in x l2.
Proof. apply flat_map_app. Qed.

Definition samples_in (x : var) (ts : Q) (vs : list (var * value)) : list (Q * value) :=
  flat_map (fun yv => if var_eqb x (fst yv) then [(ts, snd yv)] else []) vs.

Definition samples_of (x : var) (e : event) : list (Q * value) :=
  match e with
  | ESig ts vs => samples_in x ts vs
  | _ => []
  end.

Section SignalVar.
Variable x : var.
Hypothesis Hx : fst x <> ""%string.

Lemma set_var_obs c s y v ts s' o : set_var c s y v ts = (s', o) -> obs_in x o = [].
Proof.
  unfold set_var. destruct (is_nil v); [intros H; inversion H; reflexivity|].
  intros H; inversion H; subst; clear H.
  destruct (watchers_of y (c_watchers c)); [reflexivity|].
  destruct (String.eqb (fst y) "") eqn:E; cbn [andb]; [|reflexivity].
  destruct (negb (value_eqb v (lookup_val y (s_vals s)))); [|reflexivity].
  cbn. apply String.eqb_eq in E.
  rewrite var_eqb_neq; [reflexivity|]. intros ->. contradiction.
Qed.

Lemma do_assigns_obs c ts l : forall s s' o stt, do_assigns c s ts l = (s', o, stt) -> obs_in x o = [].
Proof.
  induction l as [|a l IH]; intros s s' o stt; cbn [do_assigns].
  - intros H; inversion H; reflexivity.
  - destruct (negb (has_deps s (as_expr a))); [apply IH|].
    destruct (eval (env_of s) (as_expr a)) as [v|]; [|intros H; inversion H; reflexivity].
    cbv zeta.
    match goal with |- (match ?nv with Some _ => _ | None => _ end) = _ -> _ => destruct nv as [[w|]|] end;
      try (intros H; inversion H; reflexivity).
    destruct (set_var c s (""%string, as_target a) w ts) as [s1 o1] eqn:E1.
    destruct (do_assigns c s1 ts l) as [[s2 o2] st2] eqn:E2.
    intros H; inversion H; subst. rewrite obs_in_app, (set_var_obs _ _ _ _ _ _ _ E1), (IH _ _ _ _ E2). reflexivity.
Qed.

Lemma check_expect_obs m s q q' o ok : check_expect m s q = (q', o, ok) -> obs_in x o = [].
Proof.
  unfold check_expect. destruct (m_expect m) as [[tbl p]|]; [|intros H; inversion H; reflexivity].
  destruct (negb (has_deps s p)); [intros H; inversion H; reflexivity|].
  destruct (truthy (eval (env_of s) p)) as [b|]; [|intros H; inversion H; reflexivity].
  destruct (fsm_report tbl q (lbl b)) as [[q2 code]|]; intros H; inversion H; reflexivity.
Qed.

Lemma period_end_obs m closing q q' o ok : period_end m closing q = (q', o, ok) -> obs_in x o = [].
Proof.
  unfold period_end. destruct closing; [|intros H; inversion H; reflexivity].
  destruct (m_expect m) as [[tbl p]|]; [|intros H; inversion H; reflexivity].
  destruct (fsm_report tbl q "end") as [[q2 code]|]; intros H; inversion H; reflexivity.
Qed.

Lemma visit_obs c final s ts m s' o stt : visit c final s ts m = (s', o, stt) -> obs_in x o = [].
Proof.
  unfold visit. destruct (get_ms (m_name m) (s_ms s)) as [ms|]; [|intros H; inversion H; reflexivity].
  destruct (wanted final s m) as [[w|]|]; try (intros H; inversion H; reflexivity).
  set (starting := w && negb (ms_auditing ms)).
  set (closing := negb w && ms_auditing ms).
  destruct (starting && negb (start_ok m)); [intros H; inversion H; reflexivity|].
  assert (Hst : obs_in x (if starting then [OStart (m_name m)] else []) = []) by (destruct starting; reflexivity).
  destruct (negb (ms_auditing ms || starting)); [intros H; inversion H; subst; exact Hst|].
  match goal with |- context [do_assigns c ?s0 ts (m_assigns m)] => destruct (do_assigns c s0 ts (m_assigns m)) as [[s1 o1] st1] eqn:E1 end.
  pose proof (do_assigns_obs _ _ _ _ _ _ _ E1) as H1.
  destruct st1; try (intros H; inversion H; subst; rewrite obs_in_app, Hst, H1; reflexivity).
  match goal with |- context [check_expect m s1 ?q0] => destruct (check_expect m s1 q0) as [[q1 o2] ok2] eqn:E2 end.
  pose proof (check_expect_obs _ _ _ _ _ _ E2) as H2.
  destruct (negb ok2); [intros H; inversion H; subst; rewrite !obs_in_app, Hst, H1, H2; reflexivity|].
  destruct (period_end m closing q1) as [[q2 o3] ok3] eqn:E3.
  pose proof (period_end_obs _ _ _ _ _ _ E3) as H3.
  destruct (negb ok3); intros H; inversion H; subst; rewrite !obs_in_app, Hst, H1, H2, H3; reflexivity.
Qed.

Lemma visit_all_obs c final ts l : forall s s' o stt, visit_all c final s ts l = (s', o, stt) -> obs_in x o = [].
Proof.
  induction l as [|m l IH]; intros s s' o stt; cbn [visit_all].
  - intros H; inversion H; reflexivity.
  - destruct (visit c final s ts m) as [[s1 o1] st1] eqn:E1.
    pose proof (visit_obs _ _ _ _ _ _ _ _ E1) as H1.
    destruct st1; try (intros H; inversion H; subst; exact H1).
    destruct (visit_all c final s1 ts l) as [[s2 o2] st2] eqn:E2.
    intros H; inversion H; subst. rewrite obs_in_app, H1, (IH _ _ _ _ E2). reflexivity.
Qed.

(** checkEvent forwards every received sample, once. *)
Lemma set_signals_obs c ts vs : forall s s' o, set_signals c s ts vs = (s', o) -> obs_in x o = samples_in x ts vs.
Proof.
  induction vs as [|[y v] vs IH]; intros s s' o; cbn [set_signals].
  - intros H; inversion H; reflexivity.
  - destruct (set_var c s y v ts) as [s1 o1] eqn:E1.
    destruct (set_signals c s1 ts vs) as [s2 o2] eqn:E2.
    intros H; inversion H; subst.
    rewrite obs_in_app, (set_var_obs _ _ _ _ _ _ _ E1). cbn [app obs_in flat_map obs_of samples_in fst snd].
    fold (obs_in x o2). rewrite (IH _ _ _ E2). reflexivity.
Qed.

Lemma round_obs c final s ts vs s' o stt : round c final s ts vs = (s', o, stt) -> obs_in x o = samples_in x ts vs.
Proof.
  unfold round.
  match goal with |- context [set_var c ?s0 t_var (VNum ts) ts] => destruct (set_var c s0 t_var (VNum ts) ts) as [s1 o1] eqn:E1 end.
  destruct (set_var c s1 mood_var (VStr (s_mood s1)) ts) as [s2 o2] eqn:E2.
  match goal with |- context [set_var c s2 moodt_var ?mv ts] => destruct (set_var c s2 moodt_var mv ts) as [s3 o3] eqn:E3 end.
  destruct (set_signals c s3 ts vs) as [s4 o4] eqn:E4.
  destruct (visit_all c final s4 ts (c_members c)) as [[s5 o5] st5] eqn:E5.
  intros H; inversion H; subst.
  rewrite !obs_in_app, (set_var_obs _ _ _ _ _ _ _ E1), (set_var_obs _ _ _ _ _ _ _ E2), (set_var_obs _ _ _ _ _ _ _ E3),
    (set_signals_obs _ _ _ _ _ _ E4), (visit_all_obs _ _ _ _ _ _ _ _ E5).
  cbn [app]. apply app_nil_r.
Qed.

Lemma mood_change_obs c s at_end ts m s' o stt : mood_change c s at_end ts m = (s', o, stt) -> obs_in x o = [].
Proof.
  unfold mood_change.
  match goal with |- context [if ?b then (s, [], Running) else round c at_end s ts []] =>
    destruct (if b then (s, [], Running) else round c at_end s ts []) as [[s1 o1] st1] eqn:E1; destruct b eqn:Eb end.
  - inversion E1; subst. destruct at_end; [intros H; inversion H; reflexivity|].
    destruct (round c false (with_mood s1 m ts) ts []) as [[s2 o2] st2] eqn:E2.
    intros H; inversion H; subst. cbn [app]. exact (round_obs _ _ _ _ _ _ _ _ E2).
  - pose proof (round_obs _ _ _ _ _ _ _ _ E1) as H1. cbn in H1.
    destruct st1; try (intros H; inversion H; subst; exact H1).
    destruct at_end; [intros H; inversion H; subst; exact H1|].
    destruct (round c false (with_mood s1 m ts) ts []) as [[s2 o2] st2] eqn:E2.
    intros H; inversion H; subst. rewrite obs_in_app, H1. exact (round_obs _ _ _ _ _ _ _ _ E2).
Qed.

Lemma step_event_obs c s e s' o stt : step_event c s e = (s', o, stt) -> obs_in x o = samples_of x e.
Proof.
  destruct e as [ts m|ts vs|ts]; cbn [step_event samples_of].
  - destruct (String.eqb m (s_mood s)); [intros H; inversion H; reflexivity | apply mood_change_obs].
  - apply round_obs.
  - apply mood_change_obs.
Qed.

(** A play whose audition is still running at the end has executed every
    event: what was forwarded for [x] is what the events carried for [x]. *)
Lemma run_events_obs c es : forall s os s',
  run_events c s Running es = (os, s', Running) ->
  obs_in x (List.concat os) = flat_map (samples_of x) es.
Proof.
  induction es as [|e es IH]; intros s os s'; cbn [run_events].
  - intros H; inversion H; reflexivity.
  - destruct (step_event c s e) as [[s1 o1] st1] eqn:E1.
    destruct (run_events c s1 st1 es) as [[os2 s2] st2] eqn:E2.
    intros H; inversion H; subst.
    destruct st1.
    + cbn [List.concat flat_map]. rewrite obs_in_app, (step_event_obs _ _ _ _ _ _ E1), (IH _ _ _ E2). reflexivity.
    + exfalso. exact (run_events_aborted_not_running _ _ _ _ _ _ E2 eq_refl).
    + exfalso. destruct (run_events_panicked c es s1) as [Hp| ->]; [rewrite Hp in E2 | cbn in E2]; inversion E2.
Qed.

Lemma run_audition_obs c es os s : run_audition c es = (os, s, Running) ->
  obs_in x (List.concat os) = flat_map (samples_of x) es.
Proof.
  unfold run_audition.
  destruct (mood_change c (init_st c) false 0 "clear") as [[s1 o0] st0] eqn:E0.
  destruct st0; try (intros H; inversion H; fail).
  destruct (run_events c s1 Running es) as [[os1 s2] st2] eqn:E1.
  intros H; inversion H; subst.
  cbn [List.concat]. rewrite obs_in_app, (mood_change_obs _ _ _ _ _ _ _ _ E0). cbn [app].
  exact (run_events_obs _ _ _ _ _ E1).
Qed.

End SignalVar.

(** * Part 2: the collector's fan-out *)

Lemma one_copy (w : string) (r : Q * value) (ws : list string) :
  NoDup ws -> In w ws ->
  flat_map (fun w' => if String.eqb w w' then [r] else []) ws = [r].
Proof.
  induction ws as [|u ws IH]; intros Hnd Hin; [destruct Hin|].
  inversion Hnd as [|? ? Hni Hnd']; subst. cbn [flat_map].
  destruct (String.eqb w u) eqn:E.
  - apply String.eqb_eq in E. subst u. cbn [app]. f_equal.
    clear IH Hin Hnd Hnd'. induction ws as [|v ws IH]; [reflexivity|].
    cbn [flat_map]. destruct (String.eqb w v) eqn:E2.
    + apply String.eqb_eq in E2. subst v. exfalso. apply Hni. left. reflexivity.
    + cbn [app]. apply IH. intros H. apply Hni. right. exact H.
  - cbn [app]. apply IH; [assumption|]. destruct Hin as [->|H]; [rewrite String.eqb_refl in E; discriminate | exact H].
Qed.

Lemma no_copy (w : string) (r : Q * value) (ws : list string) :
  ~ In w ws -> flat_map (fun w' => if String.eqb w w' then [r] else []) ws = [].
Proof.
  induction ws as [|u ws IH]; intros Hni; [reflexivity|]. cbn [flat_map].
  destruct (String.eqb w u) eqn:E.
  - apply String.eqb_eq in E. subst u. exfalso. apply Hni. left. reflexivity.
  - cbn [app]. apply IH. intros H. apply Hni. right. exact H.
Qed.

Definition pick_file (w : string) (x : var) (e : string * var * (Q * value)) : list (Q * value) :=
  let '(w', y, r) := e in if (String.eqb w w' && var_eqb x y)%bool then [r] else [].

Lemma file_rows_unfold c outs w x :
  file_rows c outs w x = flat_map (pick_file w x) (flat_map (fanout c) outs).
Proof. unfold file_rows. apply flat_map_ext. intros [[w' y] r]. reflexivity. Qed.

Lemma fanout_pick c o w x :
  flat_map (pick_file w x) (fanout c o) =
  flat_map (fun r => flat_map (fun w' => if String.eqb w w' then [r] else []) (watchers_of x (c_watchers c))) (obs_of x o).
Proof.
  destruct o as [y v ts| | |]; try reflexivity.
  cbn [fanout obs_of]. destruct (var_eqb x y) eqn:E.
  - apply var_eqb_eq in E. subst y. cbn [flat_map]. rewrite app_nil_r.
    induction (watchers_of x (c_watchers c)) as [|u ws IH]; [reflexivity|].
    cbn [map flat_map pick_file]. rewrite var_eqb_refl, andb_true_r. rewrite IH. reflexivity.
  - cbn [flat_map]. induction (watchers_of y (c_watchers c)) as [|u ws IH]; [reflexivity|].
    cbn [map flat_map pick_file]. rewrite E, andb_false_r. exact IH.
Qed.

(** One row per observation for a watcher (watcherNames holds every name
    once), none for anybody else. *)
Lemma file_rows_watcher c outs w x :
  NoDup (watchers_of x (c_watchers c)) -> In w (watchers_of x (c_watchers c)) ->
  file_rows c outs w x = obs_in x outs.
Proof.
  intros Hnd Hin. rewrite file_rows_unfold. induction outs as [|o outs IH]; [reflexivity|].
  cbn [flat_map]. rewrite flat_map_app, IH, fanout_pick. unfold obs_in at 2. cbn [flat_map]. f_equal.
  induction (obs_of x o) as [|r l IHl]; [reflexivity|].
  cbn [flat_map]. rewrite (one_copy w r _ Hnd Hin), IHl. reflexivity.
Qed.

Lemma file_rows_stranger c outs w x :
  ~ In w (watchers_of x (c_watchers c)) -> file_rows c outs w x = [].
Proof.
  intros Hni. rewrite file_rows_unfold. induction outs as [|o outs IH]; [reflexivity|].
  cbn [flat_map]. rewrite flat_map_app, IH, fanout_pick, app_nil_r.
  induction (obs_of x o) as [|r l IHl]; [reflexivity|].
  cbn [flat_map]. rewrite (no_copy w r _ Hni), IHl. reflexivity.
Qed.

(** * Part 3: detectSignals *)

Definition triples (g : groups) : list (var * value * Z) :=
  flat_map (fun e => map (fun yv => (fst yv, snd yv, fst e)) (snd e)) g.

(** The samples for [x] among triples, with their time stamps. *)
Definition pick (x : var) (l : list (var * value * Z)) : list (Z * value) :=
  flat_map (fun t => if var_eqb x (fst (fst t)) then [(snd t, snd (fst t))] else []) l.

Lemma pick_app x l1 l2 : pick x (l1 ++ l2) = pick x l1 ++ pick x l2.
Proof. apply flat_map_app. Qed.

Lemma pick_perm x l l' : Permutation l l' -> Permutation (pick x l) (pick x l').
Proof.
  induction 1 as [|t l l' H IH|t u l|l l' l'' H1 IH1 H2 IH2].
  - constructor.
  - unfold pick. cbn [flat_map]. apply Permutation_app_head. exact IH.
  - unfold pick. cbn [flat_map]. rewrite !app_assoc. apply Permutation_app_tail. apply Permutation_app_comm.
  - eapply perm_trans; eassumption.
Qed.

Lemma triples_add_some ts y v g :
  Permutation (triples (add_group ts (Some (y, v)) g)) ((y, v, ts) :: triples g).
Proof.
  induction g as [|[t vs] g IH]; cbn [add_group opt_list].
  - unfold triples. cbn. constructor. constructor.
  - destruct (Z.eqb t ts) eqn:E.
    + apply Z.eqb_eq in E. subst t. unfold triples. cbn [flat_map fst snd].
      rewrite map_app. cbn [map fst snd]. rewrite <- app_assoc. cbn [app].
      apply Permutation_sym. apply Permutation_middle.
    + unfold triples in *. cbn [flat_map fst snd].
      eapply perm_trans; [apply Permutation_app_head; exact IH|].
      apply Permutation_sym. apply Permutation_middle.
Qed.

Lemma triples_add_none ts g : triples (add_group ts None g) = triples g.
Proof.
  induction g as [|[t vs] g IH]; cbn [add_group opt_list].
  - reflexivity.
  - destruct (Z.eqb t ts).
    + unfold triples. cbn [flat_map fst snd]. rewrite app_nil_r. reflexivity.
    + unfold triples in *. cbn [flat_map fst snd]. rewrite IH. reflexivity.
Qed.

Lemma triples_insert e g : Permutation (triples (insert_group e g)) (triples (e :: g)).
Proof.
  induction g as [|h g IH]; cbn [insert_group]; [apply Permutation_refl|].
  destruct (Z.leb (fst e) (fst h)); [apply Permutation_refl|].
  unfold triples in *. cbn [flat_map] in *.
  eapply perm_trans; [apply Permutation_app_head; exact IH|].
  rewrite !app_assoc. apply Permutation_app_tail. apply Permutation_app_comm.
Qed.

Lemma triples_sort g : Permutation (triples (sort_groups g)) (triples g).
Proof.
  induction g as [|e g IH]; [apply Permutation_refl|].
  unfold sort_groups. cbn [fold_right]. fold (sort_groups g).
  eapply perm_trans; [apply triples_insert|].
  unfold triples in *. cbn [flat_map]. apply Permutation_app_head. exact IH.
Qed.

Lemma get_set_last_same x q lv : get_last x (set_last x q lv) = q.
Proof.
  induction lv as [|[y r] lv IH]; cbn [set_last get_last].
  - rewrite var_eqb_refl. reflexivity.
  - destruct (var_eqb x y) eqn:E; cbn [get_last]; rewrite E; [reflexivity | exact IH].
Qed.

Lemma get_set_last_other x y q lv : x <> y -> get_last x (set_last y q lv) = get_last x lv.
Proof.
  intros Hne. induction lv as [|[z r] lv IH]; cbn [set_last get_last].
  - rewrite (var_eqb_neq _ _ Hne). reflexivity.
  - destruct (var_eqb y z) eqn:E; cbn [get_last].
    + apply var_eqb_eq in E. subst z. rewrite (var_eqb_neq _ _ Hne). reflexivity.
    + destruct (var_eqb x z); [reflexivity | exact IH].
Qed.

(** What one line contributes for parser [p], given sink.lastVal. *)
Definition pt_of (p : parser) (l : line) (last : Q) : list (Z * value) * Q :=
  match good_point p l with
  | Some (ts, r) => ([(ts, point_value (p_kind p) last r)], new_last (p_kind p) last r)
  | None => ([], last)
  end.

Lemma capture_delta_num f r : capture_of KDelta f = Some r -> exists q, r = RNum q.
Proof. cbn. destruct (parse_decimal (f_val f)); cbn; intros H; inversion H. eexists; reflexivity. Qed.

(** A variable that is none of the remaining parsers' is left alone. *)
Lemma detect_loop_other a l x ps : forall lv g g' lv',
  detect_loop a ps l lv g = (g', lv') ->
  (forall p, In p ps -> x <> (a, p_name p)) ->
  Permutation (pick x (triples g')) (pick x (triples g)) /\ get_last x lv' = get_last x lv.
Proof.
  induction ps as [|p0 ps IH]; intros lv g g' lv' Hd Hall.
  - cbn in Hd. inversion Hd; subst. split; [apply Permutation_refl | reflexivity].
  - assert (Hall' : forall p, In p ps -> x <> (a, p_name p)) by (intros p Hp; apply Hall; right; exact Hp).
    assert (Hne : x <> (a, p_name p0)) by (apply Hall; left; reflexivity).
    cbn [detect_loop] in Hd.
    destruct (p_sink p0); cbn [negb] in Hd; [|eapply IH; eassumption].
    destruct (f_match (fact_of l (p_name p0))); cbn [negb] in Hd; [|eapply IH; eassumption].
    destruct (time_of (p_group p0) (l_now l) (fact_of l (p_name p0))) as [ts|]; [|eapply IH; eassumption].
    destruct (capture_of (p_kind p0) (fact_of l (p_name p0))) as [r|].
    + destruct (IH _ _ _ _ Hd Hall') as [P1 L1]. split.
      * eapply perm_trans; [exact P1|]. eapply perm_trans; [apply pick_perm; apply triples_add_some|].
        unfold pick at 1. cbn [flat_map fst snd]. rewrite (var_eqb_neq _ _ Hne). apply Permutation_refl.
      * rewrite L1. destruct (p_kind p0); try reflexivity. apply get_set_last_other. exact Hne.
    + destruct (IH _ _ _ _ Hd Hall') as [P1 L1]. rewrite triples_add_none in P1. split; assumption.
Qed.

(** The variable of one of the parsers (names are distinct within a role)
    receives that parser's point, if the line is good for it. *)
Lemma detect_loop_own a l ps : forall lv g g' lv' p,
  detect_loop a ps l lv g = (g', lv') ->
  NoDup (map p_name ps) -> In p ps ->
  let x := (a, p_name p) in
  Permutation (pick x (triples g')) (pick x (triples g) ++ fst (pt_of p l (get_last x lv)))
  /\ get_last x lv' = snd (pt_of p l (get_last x lv)).
Proof.
  induction ps as [|p0 ps IH]; intros lv g g' lv' p Hd Hnd Hin x; [destruct Hin|].
  inversion Hnd as [|? ? Hni Hnd']; subst.
  (* is p this parser, or a later one (then this one is another variable) *)
  assert (Hcases : p = p0 /\ (forall p', In p' ps -> x <> (a, p_name p')) \/ In p ps /\ x <> (a, p_name p0)).
  { destruct Hin as [->|Hp].
    - left. split; [reflexivity|]. intros p' Hp' Heq. inversion Heq as [Hn]. apply Hni. rewrite Hn. apply in_map. exact Hp'.
    - right. split; [exact Hp|]. intros Heq. inversion Heq as [Hn]. apply Hni. rewrite <- Hn. apply in_map. exact Hp. }
  cbn [detect_loop] in Hd.
  assert (Hskip : detect_loop a ps l lv g = (g', lv') -> good_point p0 l = None ->
      Permutation (pick x (triples g')) (pick x (triples g) ++ fst (pt_of p l (get_last x lv)))
      /\ get_last x lv' = snd (pt_of p l (get_last x lv))).
  { intros Hd' Hgp. destruct Hcases as [[-> Hoth]|[Hp Hne]].
    - unfold pt_of. rewrite Hgp. cbn [fst snd]. rewrite app_nil_r. eapply detect_loop_other; eassumption.
    - eapply IH; eassumption. }
  destruct (p_sink p0) eqn:Esink; cbn [negb] in Hd;
    [|apply Hskip; [exact Hd | unfold good_point; rewrite Esink; reflexivity]].
  destruct (f_match (fact_of l (p_name p0))) eqn:Ematch; cbn [negb] in Hd;
    [|apply Hskip; [exact Hd | unfold good_point; rewrite Esink, Ematch; reflexivity]].
  destruct (time_of (p_group p0) (l_now l) (fact_of l (p_name p0))) as [ts|] eqn:Etime;
    [|apply Hskip; [exact Hd | unfold good_point; rewrite Esink, Ematch, Etime; reflexivity]].
  destruct (capture_of (p_kind p0) (fact_of l (p_name p0))) as [r|] eqn:Ecap.
  - (* a point *)
    assert (Hgp : good_point p0 l = Some (ts, r)) by (unfold good_point; rewrite Esink, Ematch, Etime, Ecap; reflexivity).
    destruct Hcases as [[-> Hoth]|[Hp Hne]].
    + destruct (detect_loop_other _ _ x _ _ _ _ _ Hd Hoth) as [P1 L1].
      unfold pt_of. rewrite Hgp. cbn [fst snd]. fold x in P1, L1. split.
      * eapply perm_trans; [exact P1|]. eapply perm_trans; [apply pick_perm; apply triples_add_some|].
        unfold pick at 1. cbn [flat_map fst snd]. fold x. rewrite var_eqb_refl. cbn [app].
        apply Permutation_cons_append.
      * rewrite L1. destruct (p_kind p0) eqn:Ek; try reflexivity.
        fold x. rewrite get_set_last_same. reflexivity.
    + destruct (IH _ _ _ _ p Hd Hnd' Hp) as [P2 L2]. fold x in P2, L2.
      match type of L2 with context [get_last x ?lv1] =>
        assert (Hl : get_last x lv1 = get_last x lv)
          by (destruct (p_kind p0); try reflexivity; apply get_set_last_other; exact Hne) end.
      rewrite Hl in P2, L2. split; [|exact L2].
      eapply perm_trans; [exact P2|]. apply Permutation_app_tail.
      eapply perm_trans; [apply pick_perm; apply triples_add_some|].
      unfold pick at 1. cbn [flat_map fst snd]. rewrite (var_eqb_neq _ _ Hne). apply Permutation_refl.
  - (* time stamp fine, number not: an empty event, no sample *)
    assert (Hgp : good_point p0 l = None) by (unfold good_point; rewrite Esink, Ematch, Etime, Ecap; reflexivity).
    destruct Hcases as [[-> Hoth]|[Hp Hne]].
    + unfold pt_of. rewrite Hgp. cbn [fst snd]. rewrite app_nil_r.
      destruct (detect_loop_other _ _ x _ _ _ _ _ Hd Hoth) as [P1 L1]. rewrite triples_add_none in P1. split; assumption.
    + destruct (IH _ _ _ _ p Hd Hnd' Hp) as [P2 L2]. rewrite triples_add_none in P2. split; assumption.
Qed.

Lemma perm_short {A} (l : list A) (s : list A) : (List.length s <= 1)%nat -> Permutation l s -> l = s.
Proof.
  intros Hlen H. destruct s as [|a [|b s]].
  - apply Permutation_sym in H. apply Permutation_nil in H. exact H.
  - apply Permutation_sym in H. apply Permutation_length_1_inv in H. exact H.
  - cbn in Hlen. lia.
Qed.

Lemma pt_of_short p l last : (List.length (fst (pt_of p l last)) <= 1)%nat.
Proof. unfold pt_of. destruct (good_point p l) as [[ts r]|]; cbn; lia. Qed.

(** The sigEvents of one line, seen from one (actor, signal): the point of
    that signal's parser if the line is good for it, nothing otherwise —
    whatever the other parsers do, whatever the grouping and the sorting. *)
Lemma detect_own a ps l lv evs lv' p :
  detect a ps l lv = (evs, lv') -> NoDup (map p_name ps) -> In p ps ->
  pick (a, p_name p) (triples evs) = fst (pt_of p l (get_last (a, p_name p) lv))
  /\ get_last (a, p_name p) lv' = snd (pt_of p l (get_last (a, p_name p) lv)).
Proof.
  unfold detect. destruct (detect_loop a ps l lv []) as [g lv1] eqn:E. intros H Hnd Hin. inversion H; subst.
  destruct (detect_loop_own a l ps _ _ _ _ p E Hnd Hin) as [P L]. split; [|exact L].
  apply perm_short; [apply pt_of_short|].
  eapply perm_trans; [apply pick_perm; apply triples_sort|]. exact P.
Qed.

(** ... and another actor's variables are not concerned at all. *)
Lemma detect_foreign a ps l lv evs lv' x :
  detect a ps l lv = (evs, lv') -> fst x <> a ->
  pick x (triples evs) = [] /\ get_last x lv' = get_last x lv.
Proof.
  unfold detect. destruct (detect_loop a ps l lv []) as [g lv1] eqn:E. intros H Hne. inversion H; subst.
  destruct (detect_loop_other a l x ps _ _ _ _ E) as [P L].
  { intros p _ Heq. apply Hne. rewrite Heq. reflexivity. }
  split; [|exact L].
  apply perm_short; [cbn; lia|].
  eapply perm_trans; [apply pick_perm; apply triples_sort|]. exact P.
Qed.

(** * Part 4: from lines to the audition's events *)

Lemma samples_of_sig_events x evs :
  flat_map (samples_of x) (map sig_event evs) =
  map (fun tv => (secs (fst tv), snd tv)) (pick x (triples evs)).
Proof.
  induction evs as [|[ts vs] evs IH]; [reflexivity|].
  cbn [map flat_map]. rewrite IH. unfold triples at 2. cbn [flat_map fst snd]. fold (triples evs).
  rewrite pick_app, map_app. f_equal.
  unfold sig_event, samples_of. cbn [fst snd]. unfold samples_in.
  induction vs as [|[y v] vs IHv]; [reflexivity|].
  cbn [flat_map map fst snd]. rewrite IHv. unfold pick at 2. cbn [flat_map fst snd].
  destruct (var_eqb x y); reflexivity.
Qed.

(** [spec_rows] from an arbitrary lastVal. *)
Definition spec_from (k : sig_kind) (last : Q) (pts : list (Z * raw)) : list (Q * value) :=
  combine (map (fun pt => secs (fst pt)) pts) (values_of k last pts).

Lemma spec_rows_from a p items : spec_rows a p items = spec_from (p_kind p) 0 (good_lines a p items).
Proof. reflexivity. Qed.

Lemma feed_samples cs a p :
  NoDup (map p_name (parsers_of cs a)) -> In p (parsers_of cs a) ->
  forall items lv,
  flat_map (samples_of (a, p_name p)) (feed cs lv items) =
  spec_from (p_kind p) (get_last (a, p_name p) lv) (good_lines a p items).
Proof.
  intros Hnd Hin. induction items as [|it items IH]; intros lv; [reflexivity|].
  destruct it as [b l|ts m|ts]; cbn [feed].
  - destruct (detect b (parsers_of cs b) l lv) as [evs lv'] eqn:E.
    rewrite flat_map_app, samples_of_sig_events, IH.
    unfold good_lines. cbn [lines_of].
    destruct (String.eqb b a) eqn:Eb.
    + apply String.eqb_eq in Eb. subst b.
      destruct (detect_own _ _ _ _ _ _ p E Hnd Hin) as [P L]. rewrite P, L.
      cbn [flat_map]. unfold pt_of. destruct (good_point p l) as [[ts r]|]; cbn [fst snd opt_list app map]; reflexivity.
    + destruct (detect_foreign _ _ _ _ _ _ (a, p_name p) E) as [P L].
      { cbn [fst]. intros ->. rewrite String.eqb_refl in Eb. discriminate. }
      rewrite P, L. reflexivity.
  - cbn [flat_map samples_of app]. apply IH.
  - cbn [flat_map samples_of app]. apply IH.
Qed.

(** * Part 5: the rows of a file *)

Theorem rows_are_spec c cs items a p w os s :
  a <> ""%string ->
  NoDup (map p_name (parsers_of cs a)) -> In p (parsers_of cs a) ->
  NoDup (watchers_of (a, p_name p) (c_watchers c)) -> In w (watchers_of (a, p_name p) (c_watchers c)) ->
  play c cs items = (os, s, Running) ->
  rows c cs items w (a, p_name p) = spec_rows a p items.
Proof.
  intros Ha Hnd Hin Hwnd Hw Hplay. unfold rows. rewrite Hplay.
  rewrite (file_rows_watcher _ _ _ _ Hwnd Hw).
  unfold play in Hplay. rewrite (run_audition_obs (a, p_name p) Ha _ _ _ _ Hplay).
  rewrite (feed_samples cs a p Hnd Hin). reflexivity.
Qed.

Theorem rows_of_stranger c cs items w x :
  ~ In w (watchers_of x (c_watchers c)) -> rows c cs items w x = [].
Proof.
  intros Hni. unfold rows. destruct (play c cs items) as [[os s] stt]. apply file_rows_stranger. exact Hni.
Qed.

(** * Part 6: reading the specification *)

Lemma values_of_length k : forall pts last, List.length (values_of k last pts) = List.length pts.
Proof. induction pts as [|[ts r] pts IH]; intros last; cbn; [reflexivity | rewrite IH; reflexivity]. Qed.

Lemma spec_from_length k last pts : List.length (spec_from k last pts) = List.length pts.
Proof. unfold spec_from. rewrite combine_length, map_length, values_of_length. apply Nat.min_id. Qed.

Lemma nth_error_combine {A B} : forall (l1 : list A) (l2 : list B) i a b,
  nth_error (combine l1 l2) i = Some (a, b) -> nth_error l1 i = Some a /\ nth_error l2 i = Some b.
Proof.
  induction l1 as [|x l1 IH]; intros l2 i a b; [destruct i; discriminate|].
  destruct l2 as [|y l2]; [destruct i; discriminate|].
  destruct i; cbn; [intros H; inversion H; auto | apply IH].
Qed.

Lemma nth_error_map_inv {A B} (f : A -> B) : forall l i b,
  nth_error (map f l) i = Some b -> exists a, nth_error l i = Some a /\ b = f a.
Proof.
  induction l as [|x l IH]; intros i b; [destruct i; discriminate|].
  destruct i; cbn; [intros H; inversion H; eexists; split; reflexivity | apply IH].
Qed.

(** The datum of a good point has the shape of its signal's kind. *)
Definition raw_ok (k : sig_kind) (r : raw) : Prop :=
  match k, r with
  | KEvent, RText _ => True
  | (KScalar | KDelta), RNum _ => True
  | _, _ => False
  end.

Lemma good_point_raw_ok p l ts r : good_point p l = Some (ts, r) -> raw_ok (p_kind p) r.
Proof.
  unfold good_point. destruct (p_sink p && f_match (fact_of l (p_name p)))%bool; [|discriminate].
  destruct (time_of _ _ _); [|discriminate].
  destruct (capture_of (p_kind p) (fact_of l (p_name p))) as [r'|] eqn:E; [|discriminate].
  intros H; inversion H; subst. unfold capture_of in E.
  destruct (p_kind p); cbn; try (inversion E; exact I);
    destruct (parse_decimal _); inversion E; exact I.
Qed.

Lemma good_lines_in a p items pt :
  In pt (good_lines a p items) -> exists l, In l (lines_of a items) /\ good_point p l = Some pt.
Proof.
  unfold good_lines. rewrite in_flat_map. intros [l [Hl Hp]]. exists l. split; [exact Hl|].
  destruct (good_point p l) as [pt'|]; cbn in Hp; [destruct Hp as [->|[]]; reflexivity | destruct Hp].
Qed.

Lemma good_lines_raw_ok a p items : Forall (fun pt => raw_ok (p_kind p) (snd pt)) (good_lines a p items).
Proof.
  apply Forall_forall. intros [ts r] Hin. destruct (good_lines_in _ _ _ _ Hin) as [l [_ Hg]].
  exact (good_point_raw_ok _ _ _ _ Hg).
Qed.

(** The number of the point before the i-th (0 before the first: sink.lastVal
    starts at 0). *)
Definition prev_num (last : Q) (pts : list (Z * raw)) (i : nat) : Q :=
  match i with
  | O => last
  | S j => match nth_error pts j with Some (_, RNum q) => q | _ => 0%Q end
  end.

Lemma values_of_delta_nth : forall pts last i ts q,
  Forall (fun pt => raw_ok KDelta (snd pt)) pts ->
  nth_error pts i = Some (ts, RNum q) ->
  nth_error (values_of KDelta last pts) i = Some (VNum (q - prev_num last pts i)).
Proof.
  induction pts as [|[t0 r0] pts IH]; intros last i ts q Hall Hn; [destruct i; discriminate|].
  inversion Hall as [|? ? H0 Hall']; subst. cbn [snd] in H0.
  destruct r0 as [s0|q0]; [destruct H0|].
  cbn [values_of point_value new_last].
  destruct i as [|i]; cbn [nth_error] in *.
  - inversion Hn; subst. reflexivity.
  - rewrite (IH q0 i ts q Hall' Hn). f_equal. f_equal. f_equal.
    destruct i; reflexivity.
Qed.

Lemma values_of_plain_nth k : k <> KDelta -> forall pts last i ts r,
  nth_error pts i = Some (ts, r) ->
  nth_error (values_of k last pts) i = Some (point_value k 0 r).
Proof.
  intros Hk. induction pts as [|[t0 r0] pts IH]; intros last i ts r Hn; [destruct i; discriminate|].
  cbn [values_of]. destruct i as [|i]; cbn [nth_error] in *.
  - inversion Hn; subst. f_equal. destruct k, r; try reflexivity; contradiction.
  - assert (Hl : new_last k last r0 = last) by (destruct k, r0; try reflexivity; contradiction).
    rewrite Hl. exact (IH last i ts r Hn).
Qed.

(** The i-th row of the specification, spelled out. *)
Lemma spec_rows_nth a p items i t v :
  nth_error (spec_rows a p items) i = Some (t, v) ->
  exists ts r, nth_error (good_lines a p items) i = Some (ts, r) /\ t = secs ts /\
    match p_kind p, r with
    | KEvent, RText s => v = VStr s
    | KScalar, RNum q => v = VNum q
    | KDelta, RNum q => v = VNum (q - prev_num 0 (good_lines a p items) i)
    | _, _ => False
    end.
Proof.
  rewrite spec_rows_from. unfold spec_from. intros H.
  apply nth_error_combine in H. destruct H as [Ht Hv].
  apply nth_error_map_inv in Ht. destruct Ht as [[ts r] [Hn ->]].
  exists ts, r. split; [exact Hn|]. split; [reflexivity|].
  pose proof (good_lines_raw_ok a p items) as Hok.
  assert (Hr : raw_ok (p_kind p) r).
  { rewrite Forall_forall in Hok. apply (Hok (ts, r)). eapply nth_error_In. exact Hn. }
  destruct (p_kind p) eqn:Ek.
  - destruct r as [s|q]; [|destruct Hr].
    rewrite (values_of_plain_nth KEvent ltac:(discriminate) _ _ _ _ _ Hn) in Hv. inversion Hv. reflexivity.
  - destruct r as [s|q]; [destruct Hr|].
    rewrite (values_of_plain_nth KScalar ltac:(discriminate) _ _ _ _ _ Hn) in Hv. inversion Hv. reflexivity.
  - destruct r as [s|q]; [destruct Hr|].
    rewrite (values_of_delta_nth _ _ _ _ _ Hok Hn) in Hv. inversion Hv. reflexivity.
Qed.

(** What the time stamp of a good point is, by group. *)
Lemma good_point_time p l ts r : good_point p l = Some (ts, r) ->
  let f := fact_of l (p_name p) in
  p_sink p = true /\ f_match f = true /\
  match p_group p with
  | GNow => ts = l_now l
  | GDeltaSecs => exists q, parse_decimal (f_ts f) = Some q /\ ts = trunc_ns q
  | GRfc3339 | GLog => f_date f = Some ts
  end.
Proof.
  unfold good_point. destruct (p_sink p); [|discriminate]. destruct (f_match (fact_of l (p_name p))); [|discriminate].
  cbn [andb]. destruct (time_of (p_group p) (l_now l) (fact_of l (p_name p))) as [t|] eqn:E; [|discriminate].
  destruct (capture_of _ _); [|discriminate]. intros H; inversion H; subst. cbn zeta.
  split; [reflexivity|]. split; [reflexivity|].
  unfold time_of in E. destruct (p_group p).
  - inversion E; reflexivity.
  - destruct (parse_decimal _) as [q|]; inversion E. exists q. split; reflexivity.
  - exact E.
  - exact E.
Qed.

(** * Lines that yield nothing *)

Lemma lines_of_app a l1 l2 : lines_of a (l1 ++ l2) = lines_of a l1 ++ lines_of a l2.
Proof.
  induction l1 as [|[b l|ts m|ts] l1 IH]; cbn [app lines_of]; try exact IH; [reflexivity|].
  destruct (String.eqb b a); [cbn [app]; f_equal; exact IH | exact IH].
Qed.

Lemma spec_rows_drop a p items1 l items2 :
  good_point p l = None ->
  spec_rows a p (items1 ++ ILine a l :: items2) = spec_rows a p (items1 ++ items2).
Proof.
  intros Hg. unfold spec_rows, good_lines. rewrite !lines_of_app. cbn [lines_of]. rewrite String.eqb_refl.
  rewrite !flat_map_app. cbn [flat_map]. rewrite Hg. reflexivity.
Qed.

Lemma detect_loop_no_match a l ps : forall lv g,
  (forall p, In p ps -> p_sink p = true -> f_match (fact_of l (p_name p)) = false) ->
  detect_loop a ps l lv g = (g, lv).
Proof.
  induction ps as [|p ps IH]; intros lv g H; [reflexivity|].
  cbn [detect_loop]. destruct (p_sink p) eqn:E; cbn [negb].
  - rewrite (H p (or_introl eq_refl) E). cbn [negb]. apply IH. intros q Hq. apply H. right. exact Hq.
  - apply IH. intros q Hq. apply H. right. exact Hq.
Qed.

(** A line that matches no watched signal does not reach the audition at all. *)
Theorem no_match_no_event cs lv a l rest :
  (forall p, In p (parsers_of cs a) -> p_sink p = true -> f_match (fact_of l (p_name p)) = false) ->
  feed cs lv (ILine a l :: rest) = feed cs lv rest.
Proof.
  intros H. cbn [feed]. unfold detect. rewrite (detect_loop_no_match _ _ _ _ _ H). reflexivity.
Qed.

(** * Audiences made of observers only never stop the audition *)

Lemma round_observers c final s ts vs : c_members c = [] -> snd (round c final s ts vs) = Running.
Proof.
  intros Hm. unfold round.
  repeat match goal with |- context [set_var ?c ?s ?x ?v ?t] => destruct (set_var c s x v t) end.
  match goal with |- context [set_signals ?c ?s ?t ?v] => destruct (set_signals c s t v) end.
  rewrite Hm. reflexivity.
Qed.

Lemma mood_change_observers c s at_end ts m : c_members c = [] -> snd (mood_change c s at_end ts m) = Running.
Proof.
  intros Hm. unfold mood_change.
  destruct (s_mood_start s).
  - pose proof (round_observers c at_end s ts [] Hm) as H1.
    destruct (round c at_end s ts []) as [[s1 o1] st1]. cbn in H1. subst st1.
    destruct at_end; [reflexivity|].
    pose proof (round_observers c false (with_mood s1 m ts) ts [] Hm) as H2.
    destruct (round c false (with_mood s1 m ts) ts []) as [[s2 o2] st2]. exact H2.
  - destruct at_end; [reflexivity|].
    pose proof (round_observers c false (with_mood s m ts) ts [] Hm) as H2.
    destruct (round c false (with_mood s m ts) ts []) as [[s2 o2] st2]. exact H2.
Qed.

Lemma step_event_observers c s e : c_members c = [] -> snd (step_event c s e) = Running.
Proof.
  intros Hm. destruct e as [ts m|ts vs|ts]; cbn [step_event].
  - destruct (String.eqb m (s_mood s)); [reflexivity | apply mood_change_observers; exact Hm].
  - apply round_observers; exact Hm.
  - apply mood_change_observers; exact Hm.
Qed.

Lemma run_events_observers c es : c_members c = [] -> forall s, snd (run_events c s Running es) = Running.
Proof.
  intros Hm. induction es as [|e es IH]; intros s; [reflexivity|].
  cbn [run_events]. pose proof (step_event_observers c s e Hm) as H1.
  destruct (step_event c s e) as [[s1 o1] st1]. cbn in H1. subst st1.
  pose proof (IH s1) as H2. destruct (run_events c s1 Running es) as [[os2 s2] st2]. exact H2.
Qed.

Theorem observers_never_stop c cs items : c_members c = [] -> snd (play c cs items) = Running.
Proof.
  intros Hm. unfold play, run_audition.
  pose proof (mood_change_observers c (init_st c) false 0 "clear" Hm) as H0.
  destruct (mood_change c (init_st c) false 0 "clear") as [[s1 o0] st0]. cbn in H0. subst st0.
  pose proof (run_events_observers c (feed cs [] items) Hm s1) as H1.
  destruct (run_events c s1 Running (feed cs [] items)) as [[os s2] st2]. exact H1.
Qed.

(** * The statements of Properties/C08.v *)

Lemma one_point_per_match c cs items a p w os s :
  a <> ""%string ->
  NoDup (map p_name (parsers_of cs a)) -> In p (parsers_of cs a) ->
  NoDup (watchers_of (a, p_name p) (c_watchers c)) -> In w (watchers_of (a, p_name p) (c_watchers c)) ->
  play c cs items = (os, s, Running) ->
  rows c cs items w (a, p_name p) = spec_rows a p items
  /\ List.length (rows c cs items w (a, p_name p)) = List.length (good_lines a p items).
Proof.
  intros Ha Hnd Hin Hwnd Hw Hplay.
  rewrite (rows_are_spec c cs items a p w os s Ha Hnd Hin Hwnd Hw Hplay).
  split; [reflexivity|]. rewrite spec_rows_from. apply spec_from_length.
Qed.

Lemma value_correct c cs items a p w os s i t v :
  a <> ""%string ->
  NoDup (map p_name (parsers_of cs a)) -> In p (parsers_of cs a) ->
  NoDup (watchers_of (a, p_name p) (c_watchers c)) -> In w (watchers_of (a, p_name p) (c_watchers c)) ->
  play c cs items = (os, s, Running) ->
  nth_error (rows c cs items w (a, p_name p)) i = Some (t, v) ->
  exists ts r, nth_error (good_lines a p items) i = Some (ts, r) /\
    match p_kind p, r with
    | KEvent, RText txt => v = VStr txt
    | KScalar, RNum q => v = VNum q
    | KDelta, RNum q => v = VNum (q - prev_num 0 (good_lines a p items) i)
    | _, _ => False
    end.
Proof.
  intros Ha Hnd Hin Hwnd Hw Hplay.
  rewrite (rows_are_spec c cs items a p w os s Ha Hnd Hin Hwnd Hw Hplay). intros H.
  destruct (spec_rows_nth _ _ _ _ _ _ H) as [ts [r [Hn [_ Hv]]]]. exists ts, r. split; assumption.
Qed.

Lemma time_correct c cs items a p w os s i t v :
  a <> ""%string ->
  NoDup (map p_name (parsers_of cs a)) -> In p (parsers_of cs a) ->
  NoDup (watchers_of (a, p_name p) (c_watchers c)) -> In w (watchers_of (a, p_name p) (c_watchers c)) ->
  play c cs items = (os, s, Running) ->
  nth_error (rows c cs items w (a, p_name p)) i = Some (t, v) ->
  exists ts r l, nth_error (good_lines a p items) i = Some (ts, r) /\ t = secs ts /\
    In l (lines_of a items) /\ good_point p l = Some (ts, r).
Proof.
  intros Ha Hnd Hin Hwnd Hw Hplay.
  rewrite (rows_are_spec c cs items a p w os s Ha Hnd Hin Hwnd Hw Hplay). intros H.
  destruct (spec_rows_nth _ _ _ _ _ _ H) as [ts [r [Hn [Ht _]]]].
  destruct (good_lines_in a p items (ts, r) (nth_error_In _ _ Hn)) as [l [Hl Hg]].
  exists ts, r, l. repeat split; assumption.
Qed.

Lemma unparsable_drops_point_only c cs items1 items2 a p l w os s os' s' :
  a <> ""%string ->
  NoDup (map p_name (parsers_of cs a)) -> In p (parsers_of cs a) ->
  NoDup (watchers_of (a, p_name p) (c_watchers c)) -> In w (watchers_of (a, p_name p) (c_watchers c)) ->
  good_point p l = None ->
  play c cs (items1 ++ ILine a l :: items2) = (os, s, Running) ->
  play c cs (items1 ++ items2) = (os', s', Running) ->
  rows c cs (items1 ++ ILine a l :: items2) w (a, p_name p) = rows c cs (items1 ++ items2) w (a, p_name p).
Proof.
  intros Ha Hnd Hin Hwnd Hw Hg H1 H2.
  rewrite (rows_are_spec _ _ _ _ _ _ _ _ Ha Hnd Hin Hwnd Hw H1), (rows_are_spec _ _ _ _ _ _ _ _ Ha Hnd Hin Hwnd Hw H2).
  apply spec_rows_drop. exact Hg.
Qed.

(** The facts of another signal do not matter for [p]: a line differing only
    there yields the same point. *)
Lemma good_point_own_facts p l l' :
  l_now l' = l_now l -> fact_of l' (p_name p) = fact_of l (p_name p) -> good_point p l' = good_point p l.
Proof. intros Hn Hf. unfold good_point. rewrite Hn, Hf. reflexivity. Qed.

(** Every watcher of a signal gets the same rows: what the collector writes
    for a watcher does not depend on who the watcher is - observer or auditor,
    auditing at that moment or not - only on what the audition forwarded for
    the variable.  (No condition on how the audition ended.) *)
Lemma all_watchers_same_rows c cs items w1 w2 x :
  NoDup (watchers_of x (c_watchers c)) ->
  In w1 (watchers_of x (c_watchers c)) -> In w2 (watchers_of x (c_watchers c)) ->
  rows c cs items w1 x = rows c cs items w2 x.
Proof.
  intros Hnd H1 H2. unfold rows. destruct (play c cs items) as [[os s] stt].
  rewrite (file_rows_watcher _ _ _ _ Hnd H1), (file_rows_watcher _ _ _ _ Hnd H2). reflexivity.
Qed.
