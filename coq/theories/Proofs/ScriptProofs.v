(** C13 — proofs about Model/Script.v: the state of the mini-shell at the
    point where the user's command starts. *)
From Shk Require Import Base.Prelude Model.Dirs Model.Script Proofs.DirsProofs.
From Coq Require Import Strings.String DecimalN.

(** * Bytes and character classes *)




Lemma name_char_harmless c : is_name_char c = true -> harmless c = true.
Proof. unfold harmless; intros ->; reflexivity. Qed.

Lemma harmless_not_sep c : harmless c = true -> is_sep c = false.
Proof. destruct c; vm_compute; congruence. Qed.
Lemma harmless_not_dollar c : harmless c = true -> Byte.eqb c x24 = false.
Proof. destruct c; vm_compute; congruence. Qed.
Lemma harmless_not_gt c : harmless c = true -> c <> x3e.
Proof. destruct c; vm_compute; congruence. Qed.
Lemma harmless_not_quote c : harmless c = true -> Byte.eqb c x27 = false.
Proof. destruct c; vm_compute; congruence. Qed.
Lemma name_char_not_eq c : is_name_char c = true -> Byte.eqb c x3d = false.
Proof. destruct c; vm_compute; congruence. Qed.
Lemma alpha_name_char c : is_alpha c = true -> is_name_char c = true.
Proof. unfold is_name_char; intros ->; reflexivity. Qed.
Lemma alpha_not_hash c : is_alpha c = true -> c <> x23.
Proof. destruct c; vm_compute; congruence. Qed.
Lemma eq_not_name_char : is_name_char x3d = false.
Proof. reflexivity. Qed.

Lemma is_name_chars n : is_name n = true -> forallb is_name_char n = true.
Proof.
  destruct n as [|c tl]; cbn; [discriminate|].
  intros H; apply andb_true_iff in H as [H1 H2]. rewrite (alpha_name_char _ H1), H2; reflexivity.
Qed.

Lemma is_name_nonempty n : is_name n = true -> n <> [].
Proof. destruct n; cbn; congruence. Qed.

(** * strip_prefix / strip_suffix *)
Lemma strip_prefix_app p r : strip_prefix p (p ++ r) = Some r.
Proof. induction p as [|a p IH]; cbn; [reflexivity|]. rewrite byte_eqb_refl; exact IH. Qed.

Lemma strip_prefix_some p : forall l r, strip_prefix p l = Some r -> l = p ++ r.
Proof.
  induction p as [|a p IH]; cbn; intros l r H; [congruence|].
  destruct l as [|b l]; [discriminate|].
  destruct (Byte.eqb a b) eqn:E; [|discriminate].
  apply byte_eqb_eq in E; subst b. f_equal; auto.
Qed.

Lemma strip_suffix_app s a : strip_suffix s (a ++ s) = Some a.
Proof. unfold strip_suffix. rewrite rev_app_distr, strip_prefix_app; cbn. rewrite rev_involutive; reflexivity. Qed.

(** * Structured `with` clauses *)

(** One assignment of a `with` clause and how it is separated from the one
    before it: a blank, or a semicolon and a blank (what the multi-actor
    expansion writes after i=<k>). *)
Record witem := { w_semi : bool; w_name : bytes; w_val : bytes }.

Definition wf_item (i : witem) : Prop :=
  is_name (w_name i) = true /\ forallb harmless (w_val i) = true.

Definition render_item (i : witem) : bytes := w_name i ++ x3d :: w_val i.
Fixpoint render_rest (l : list witem) : bytes :=
  match l with
  | [] => []
  | i :: tl => (if w_semi i then bs "; " else bs " ") ++ render_item i ++ render_rest tl
  end.
Definition render_with (l : list witem) : bytes :=
  match l with
  | [] => []
  | i :: tl => render_item i ++ render_rest tl
  end.

Lemma item_no_sep i : wf_item i -> forallb (fun c => negb (is_sep c)) (render_item i) = true.
Proof.
  intros [Hn Hv]. unfold render_item. rewrite forallb_app. apply andb_true_iff; split.
  - apply is_name_chars in Hn. rewrite forallb_forall in *. intros c Hc.
    rewrite harmless_not_sep; auto using name_char_harmless.
  - cbn. rewrite forallb_forall in *. intros c Hc. rewrite harmless_not_sep; auto.
Qed.

Lemma item_nonempty i : wf_item i -> render_item i <> [].
Proof. intros [Hn _]. unfold render_item. destruct (w_name i); cbn in *; congruence. Qed.

Lemma fields_aux_skips sep s r : forallb sep s = true -> fields_aux sep [] (s ++ r) = fields_aux sep [] r.
Proof.
  induction s as [|c s IH]; cbn; intros H; [reflexivity|].
  apply andb_true_iff in H as [H1 H2]. rewrite H1; auto.
Qed.

Lemma fields_aux_first sep w r :
  w <> [] -> forallb (fun c => negb (sep c)) w = true ->
  (r = [] \/ exists c r', r = c :: r' /\ sep c = true) ->
  fields_aux sep [] (w ++ r) = w :: fields_aux sep [] r.
Proof.
  intros Hne Hw [->|(c & r' & -> & Hc)].
  - rewrite app_nil_r. rewrite fields_aux_end by assumption. reflexivity.
  - rewrite fields_aux_sep by assumption. rewrite fields_aux_skip by assumption. reflexivity.
Qed.

Definition sep_bytes (i : witem) : bytes := if w_semi i then [x3b; x20] else [x20].

Lemma render_rest_cons i l : render_rest (i :: l) = sep_bytes i ++ render_item i ++ render_rest l.
Proof. cbn. unfold sep_bytes. destruct (w_semi i); reflexivity. Qed.

Lemma render_rest_starts l : render_rest l = [] \/ exists c r', render_rest l = c :: r' /\ is_sep c = true.
Proof.
  destruct l as [|i l]; [left; reflexivity|right].
  rewrite render_rest_cons. unfold sep_bytes. destruct (w_semi i); cbn; eauto.
Qed.

Lemma fields_render_rest l : Forall wf_item l ->
  fields_aux is_sep [] (render_rest l) = map render_item l.
Proof.
  induction 1 as [|i l Hi Hl IH]; [reflexivity|].
  rewrite render_rest_cons. rewrite fields_aux_skips by (unfold sep_bytes; destruct (w_semi i); reflexivity).
  rewrite fields_aux_first; auto using item_nonempty, item_no_sep, render_rest_starts.
  cbn [map]. f_equal. exact IH.
Qed.

Lemma tokens_render_with l : Forall wf_item l -> tokens (render_with l) = map render_item l.
Proof.
  destruct l as [|i l]; [reflexivity|]. intros H; inversion H; subst.
  unfold tokens, fields, render_with.
  rewrite fields_aux_first; auto using item_nonempty, item_no_sep, render_rest_starts.
  cbn [map]. f_equal. apply fields_render_rest; assumption.
Qed.

(** * Assignments *)
Lemma split_eq_aux_name n : forall acc v,
  forallb is_name_char n = true ->
  split_eq_aux acc (n ++ x3d :: v) = Some (rev acc ++ n, v).
Proof.
  induction n as [|c n IH]; cbn; intros acc v H.
  - rewrite app_nil_r; reflexivity.
  - apply andb_true_iff in H as [H1 H2]. rewrite (name_char_not_eq _ H1).
    rewrite IH by exact H2. cbn. rewrite <- app_assoc; reflexivity.
Qed.

Lemma split_eq_item n v : forallb is_name_char n = true -> split_eq (n ++ x3d :: v) = Some (n, v).
Proof. intros H; unfold split_eq; rewrite split_eq_aux_name by exact H; reflexivity. Qed.

Lemma expand_literal st v : forallb harmless v = true -> expand_aux st None v = Some v.
Proof.
  induction v as [|c v IH]; cbn; intros H; [reflexivity|].
  apply andb_true_iff in H as [H1 H2].
  rewrite (harmless_not_dollar _ H1), H1, (IH H2); reflexivity.
Qed.

Lemma exec_assign_item st i : wf_item i ->
  exec_assign st (render_item i) = Some (set_var (w_name i) (w_val i) st).
Proof.
  intros [Hn Hv]. unfold exec_assign, render_item.
  rewrite split_eq_item by (apply is_name_chars; exact Hn).
  rewrite Hn. unfold expand. rewrite expand_literal by exact Hv. reflexivity.
Qed.

Definition assign_all (st : sh_state) (l : list witem) : sh_state :=
  fold_left (fun s i => set_var (w_name i) (w_val i) s) l st.

Lemma exec_assigns_items l : Forall wf_item l -> forall st,
  exec_assigns st (map render_item l) = Some (assign_all st l).
Proof.
  induction 1 as [|i l Hi Hl IH]; intros st; [reflexivity|].
  cbn [map exec_assigns]. rewrite exec_assign_item by exact Hi. apply IH.
Qed.

(** [assign_all] touches nothing but the variables. *)
Lemma assign_all_frame l : forall st,
  cwd (assign_all st l) = cwd st /\ allexport (assign_all st l) = allexport st /\
  out (assign_all st l) = out st /\ err (assign_all st l) = err st.
Proof.
  induction l as [|i l IH]; intros st; [cbn; auto|].
  change (assign_all st (i :: l)) with (assign_all (set_var (w_name i) (w_val i) st) l).
  destruct (IH (set_var (w_name i) (w_val i) st)) as (A & B & C & D).
  rewrite A, B, C, D. cbn. auto.
Qed.

(** The value the clause gives to [n]: that of its last assignment to [n]. *)
Fixpoint last_assigned (n : bytes) (l : list witem) : option bytes :=
  match l with
  | [] => None
  | i :: tl =>
      match last_assigned n tl with
      | Some v => Some v
      | None => if bytes_eqb n (w_name i) then Some (w_val i) else None
      end
  end.

Lemma lookup_set_var_same n v st : lookup_var n (set_var n v st) = Some (v, allexport st || match lookup_var n st with Some (_, e) => e | None => false end).
Proof. unfold lookup_var, set_var; cbn. rewrite bytes_eqb_refl. reflexivity. Qed.

Lemma lookup_set_var_other n m v st : bytes_eqb n m = false -> lookup_var n (set_var m v st) = lookup_var n st.
Proof. intros H. unfold lookup_var, set_var; cbn. rewrite H. reflexivity. Qed.

Lemma lookup_assign_all n l : forall st, allexport st = true ->
  lookup_var n (assign_all st l) =
  match last_assigned n l with Some v => Some (v, true) | None => lookup_var n st end.
Proof.
  induction l as [|i l IH]; intros st Hx; [reflexivity|].
  change (assign_all st (i :: l)) with (assign_all (set_var (w_name i) (w_val i) st) l).
  cbn [last_assigned]. rewrite IH by exact Hx.
  destruct (last_assigned n l); [reflexivity|].
  destruct (bytes_eqb n (w_name i)) eqn:E.
  - apply bytes_eqb_eq in E; subst n. rewrite lookup_set_var_same, Hx. reflexivity.
  - apply lookup_set_var_other; exact E.
Qed.

(** * The lines of a prepared script *)
Lemma span_name_aux_run n : forall acc c r,
  forallb is_name_char n = true -> is_name_char c = false ->
  span_name_aux acc (n ++ c :: r) = (rev acc ++ n, c :: r).
Proof.
  induction n as [|d n IH]; cbn; intros acc c r Hn Hc.
  - rewrite Hc, app_nil_r; reflexivity.
  - apply andb_true_iff in Hn as [H1 H2]. rewrite H1, IH by assumption. cbn. rewrite <- app_assoc; reflexivity.
Qed.

Lemma exec_line_comment st r : exec_line st (x23 :: r) = Some st.
Proof. reflexivity. Qed.

Lemma exec_line_setopts st :
  exec_line st (bs "set -euao pipefail") =
  Some {| cwd := cwd st; vars := vars st; allexport := true; out := out st; err := err st |}.
Proof. reflexivity. Qed.

Lemma exec_line_setx st : exec_line st (bs "set -x") = Some st.
Proof. reflexivity. Qed.

Lemma exec_line_cd st d : quotable d = true -> is_abs d = true ->
  exec_line st (bs "cd '" ++ d ++ bs "'") = Some (do_cd st d).
Proof.
  intros Hq Ha. unfold exec_line.
  change (bs "cd '" ++ d ++ bs "'") with (x63 :: x64 :: x20 :: x27 :: (d ++ bs "'")).
  change (head_is x23 (x63 :: x64 :: x20 :: x27 :: d ++ bs "'")) with false.
  change (snd (span_name (x63 :: x64 :: x20 :: x27 :: d ++ bs "'"))) with (x20 :: x27 :: d ++ bs "'").
  change (head_is x3d (x20 :: x27 :: d ++ bs "'")) with false.
  change (bytes_eqb (x63 :: x64 :: x20 :: x27 :: d ++ bs "'") (bs "set -euao pipefail")) with false.
  change (bytes_eqb (x63 :: x64 :: x20 :: x27 :: d ++ bs "'") (bs "set -x")) with false.
  change (strip_prefix (bs "cd '") (x63 :: x64 :: x20 :: x27 :: d ++ bs "'")) with (Some (d ++ bs "'")).
  cbv beta iota. rewrite strip_suffix_app, Hq, Ha. reflexivity.
Qed.

Lemma exec_line_exec st f : plain_word f = true ->
  exec_line st (bs "exec >>" ++ f ++ bs " 2>&1") =
  Some {| cwd := cwd st; vars := vars st; allexport := allexport st;
          out := TAppend (resolve_file st f); err := TAppend (resolve_file st f) |}.
Proof.
  intros Hf. unfold exec_line.
  change (bs "exec >>" ++ f ++ bs " 2>&1") with (x65 :: x78 :: x65 :: x63 :: x20 :: x3e :: x3e :: (f ++ bs " 2>&1")).
  set (l := x65 :: x78 :: x65 :: x63 :: x20 :: x3e :: x3e :: (f ++ bs " 2>&1")).
  change (head_is x23 l) with false.
  change (snd (span_name l)) with (x20 :: x3e :: x3e :: (f ++ bs " 2>&1")).
  change (head_is x3d (x20 :: x3e :: x3e :: (f ++ bs " 2>&1"))) with false.
  change (bytes_eqb l (bs "set -euao pipefail")) with false.
  change (bytes_eqb l (bs "set -x")) with false.
  change (strip_prefix (bs "cd '") l) with (@None bytes).
  change (strip_prefix (bs "exec >>") l) with (Some (f ++ bs " 2>&1")).
  cbv beta iota. rewrite strip_suffix_app, Hf. reflexivity.
Qed.

Lemma exec_line_date st f : plain_word f = true -> exec_line st (date_prefix ++ f) = Some st.
Proof.
  intros Hf. unfold exec_line.
  change (head_is x23 (date_prefix ++ f)) with false.
  change (snd (span_name (date_prefix ++ f))) with (x3d :: (skipn 3 date_prefix ++ f)).
  change (head_is x3d (x3d :: (skipn 3 date_prefix ++ f))) with true.
  cbv beta iota. rewrite strip_prefix_app, Hf. reflexivity.
Qed.

Lemma exec_line_echo st r : plain_text r = true -> exec_line st (bs "echo " ++ r) = Some st.
Proof.
  intros Hr. unfold exec_line.
  change (bs "echo " ++ r) with (x65 :: x63 :: x68 :: x6f :: x20 :: r).
  set (l := x65 :: x63 :: x68 :: x6f :: x20 :: r).
  change (head_is x23 l) with false.
  change (snd (span_name l)) with (x20 :: r).
  change (head_is x3d (x20 :: r)) with false.
  change (bytes_eqb l (bs "set -euao pipefail")) with false.
  change (bytes_eqb l (bs "set -x")) with false.
  change (strip_prefix (bs "cd '") l) with (@None bytes).
  change (strip_prefix (bs "exec >>") l) with (@None bytes).
  change (strip_prefix (bs "echo ") l) with (Some r).
  cbv beta iota. rewrite Hr. reflexivity.
Qed.

(** A line that starts NAME= and contains no '>' is a list of assignments. *)
Lemma exec_line_assign_line st n rest :
  is_name n = true -> ~ In x3e (n ++ x3d :: rest) -> has_quote (n ++ x3d :: rest) = false ->
  exec_line st (n ++ x3d :: rest) = exec_assigns st (tokens (n ++ x3d :: rest)).
Proof.
  intros Hn Hgt Hq. unfold exec_line, exec_assign_line. rewrite Hq.
  assert (Hc : forallb is_name_char n = true) by (apply is_name_chars; exact Hn).
  assert (H0 : head_is x23 (n ++ x3d :: rest) = false).
  { destruct n as [|c n]; [discriminate|]. cbn in Hn |- *. apply andb_true_iff in Hn as [Ha _].
    apply byte_eqb_neq. apply alpha_not_hash; exact Ha. }
  assert (E : snd (span_name (n ++ x3d :: rest)) = x3d :: rest).
  { unfold span_name. rewrite span_name_aux_run; [reflexivity|exact Hc|reflexivity]. }
  assert (D : strip_prefix date_prefix (n ++ x3d :: rest) = None).
  { destruct (strip_prefix date_prefix (n ++ x3d :: rest)) eqn:S; [|reflexivity].
    apply strip_prefix_some in S. exfalso. apply Hgt. rewrite S.
    apply in_or_app; left. vm_compute. tauto. }
  rewrite H0, E. cbn [head_is]. rewrite byte_eqb_refl, D. reflexivity.
Qed.

Lemma var_value_set_other n m v st : bytes_eqb n m = false -> var_value n (set_var m v st) = var_value n st.
Proof. intros H; unfold var_value; rewrite lookup_set_var_other by exact H; reflexivity. Qed.
Lemma var_value_set_same n v st : var_value n (set_var n v st) = Some v.
Proof. unfold var_value; rewrite lookup_set_var_same; reflexivity. Qed.

Lemma exec_line_tmpdir st d : var_value (bs "PWD") st = Some d ->
  exec_line st (bs "TMPDIR=$PWD HOME=$PWD/..") =
  Some (set_var (bs "HOME") (d ++ bs "/..") (set_var (bs "TMPDIR") d st)).
Proof.
  intros Hp.
  change (bs "TMPDIR=$PWD HOME=$PWD/..") with (bs "TMPDIR" ++ x3d :: bs "$PWD HOME=$PWD/..").
  rewrite exec_line_assign_line; [|reflexivity|vm_compute; intuition discriminate|reflexivity].
  change (tokens (bs "TMPDIR" ++ x3d :: bs "$PWD HOME=$PWD/..")) with [bs "TMPDIR=$PWD"; bs "HOME=$PWD/.."].
  cbn [exec_assigns].
  assert (E1 : exec_assign st (bs "TMPDIR=$PWD") = Some (set_var (bs "TMPDIR") d st)).
  { unfold exec_assign. change (split_eq (bs "TMPDIR=$PWD")) with (Some (bs "TMPDIR", bs "$PWD")).
    cbv beta iota. change (is_name (bs "TMPDIR")) with true. cbv beta iota.
    unfold expand. change (bs "$PWD") with [x24; x50; x57; x44].
    cbn [expand_aux Byte.eqb]. change (Byte.eqb x24 x24) with true. cbv beta iota.
    change (is_name_char x50) with true. change (is_name_char x57) with true. change (is_name_char x44) with true.
    cbv beta iota. cbn [flush]. change (is_name (rev [x44; x57; x50])) with true. cbv beta iota.
    change (rev [x44; x57; x50]) with (bs "PWD"). rewrite Hp. reflexivity. }
  rewrite E1.
  set (st1 := set_var (bs "TMPDIR") d st).
  assert (Hp1 : var_value (bs "PWD") st1 = Some d).
  { unfold st1. rewrite var_value_set_other by reflexivity. exact Hp. }
  unfold exec_assign. change (split_eq (bs "HOME=$PWD/..")) with (Some (bs "HOME", bs "$PWD/..")).
  cbv beta iota. change (is_name (bs "HOME")) with true. cbv beta iota.
  unfold expand. change (bs "$PWD/..") with [x24; x50; x57; x44; x2f; x2e; x2e].
  cbn [expand_aux]. change (Byte.eqb x24 x24) with true. cbv beta iota.
  change (is_name_char x50) with true. change (is_name_char x57) with true. change (is_name_char x44) with true.
  change (is_name_char x2f) with false.
  cbv beta iota. cbn [flush]. change (is_name (rev [x44; x57; x50])) with true. cbv beta iota.
  change (rev [x44; x57; x50]) with (bs "PWD"). rewrite Hp1.
  change (Byte.eqb x2f x24) with false. change (Byte.eqb x2e x24) with false.
  change (harmless x2f) with true. change (harmless x2e) with true.
  cbv beta iota. cbn [option_map]. reflexivity.
Qed.

(** * The state after the fixed part of the prefix *)
Definition with_allexport (st : sh_state) : sh_state :=
  {| cwd := cwd st; vars := vars st; allexport := true; out := out st; err := err st |}.
Definition with_out (st : sh_state) (t : target) : sh_state :=
  {| cwd := cwd st; vars := vars st; allexport := allexport st; out := t; err := t |}.

Definition log_file (workDir name : bytes) : bytes := workDir ++ bs "/" ++ name ++ bs ".log".

(** State after `#!`, `set -euao pipefail`, `cd`, `TMPDIR= HOME=`, the three
    redirection lines (if any) and `set -x`. *)
Definition st_fixed (caller : sh_state) (workDir name : bytes) (redirect : bool) : sh_state :=
  let s3 := set_var (bs "HOME") (workDir ++ bs "/..")
              (set_var (bs "TMPDIR") workDir (do_cd (with_allexport caller) workDir)) in
  if redirect then with_out s3 (TAppend (log_file workDir name)) else s3.

(** What the theorems ask of a work directory and of a script name.  The
    directory goes between single quotes after `cd` (so: no single quote) and
    unquoted after `echo` (so, when there is a redirection: only characters
    the shell leaves alone, and blanks). *)
Definition dir_ok (workDir : bytes) (redirect : bool) : Prop :=
  is_abs workDir = true /\ quotable workDir = true /\ (redirect = true -> plain_text workDir = true).
Definition name_ok (name : bytes) : Prop :=
  plain_word name = true /\ forallb (fun c => negb (is_slash c)) name = true.

Lemma plain_word_app a b : plain_word a = true -> forallb harmless b = true -> plain_word (a ++ b) = true.
Proof.
  destruct a as [|c a]; [discriminate|]. cbn. intros H Hb.
  apply andb_true_iff in H as [H1 H2]. rewrite H1, forallb_app, H2, Hb. reflexivity.
Qed.

Lemma plain_word_text a : plain_word a = true -> plain_text a = true.
Proof.
  destruct a as [|c a]; [discriminate|]. unfold plain_word, plain_text. intros H.
  rewrite forallb_forall in *. intros x Hx. rewrite (H x Hx). reflexivity.
Qed.

Lemma plain_text_app a b : plain_text a = true -> plain_text b = true -> plain_text (a ++ b) = true.
Proof. unfold plain_text. intros; rewrite forallb_app; apply andb_true_iff; auto. Qed.

Lemma name_not_abs name : name_ok name -> is_abs (name ++ bs ".log") = false.
Proof.
  intros [Hp Hs]. destruct name as [|c name]; [discriminate|]. cbn in *.
  apply andb_true_iff in Hs as [Hs _]. apply negb_true_iff in Hs. exact Hs.
Qed.

Lemma exec_prefix_app a : forall st b,
  exec_prefix st (a ++ b) = match exec_prefix st a with Some st' => exec_prefix st' b | None => None end.
Proof.
  induction a as [|l a IH]; intros st b; cbn; [reflexivity|].
  destruct (exec_line st l); [apply IH|reflexivity].
Qed.

Lemma fixed_prefix_state caller shell workDir name redirect :
  dir_ok workDir redirect -> (redirect = true -> name_ok name) ->
  exec_prefix caller (prefix_lines shell workDir name [] redirect) = Some (st_fixed caller workDir name redirect).
Proof.
  intros (Ha & Hq & Hp) Hn. unfold prefix_lines.
  cbn [app exec_prefix]. change (bs "#!" ++ shell) with (x23 :: x21 :: shell).
  rewrite exec_line_comment, exec_line_setopts.
  change {| cwd := cwd caller; vars := vars caller; allexport := true; out := out caller; err := err caller |}
    with (with_allexport caller).
  rewrite exec_line_cd by assumption.
  rewrite (exec_line_tmpdir _ workDir) by (unfold do_cd; apply var_value_set_same).
  unfold st_fixed.
  set (s3 := set_var (bs "HOME") (workDir ++ bs "/..") (set_var (bs "TMPDIR") workDir (do_cd (with_allexport caller) workDir))).
  destruct redirect.
  - specialize (Hp eq_refl). destruct (Hn eq_refl) as [Hw Hs].
    cbn [app exec_prefix].
    change (bs "TZ=UTC date +%Y-%m-%dT%H:%M:%SZ >>" ++ name ++ bs ".log") with (date_prefix ++ (name ++ bs ".log")).
    rewrite exec_line_date by (apply plain_word_app; [exact Hw|reflexivity]).
    change (bs "echo output redirected to " ++ workDir ++ bs "/" ++ name ++ bs ".log")
      with (bs "echo " ++ (bs "output redirected to " ++ workDir ++ bs "/" ++ name ++ bs ".log")).
    rewrite exec_line_echo.
    2:{ apply plain_text_app; [reflexivity|]. apply plain_text_app; [exact Hp|].
        apply plain_text_app; [reflexivity|]. apply plain_text_app; [apply plain_word_text; exact Hw|reflexivity]. }
    replace (bs "exec >>" ++ name ++ bs ".log 2>&1") with (bs "exec >>" ++ (name ++ bs ".log") ++ bs " 2>&1")
      by (rewrite <- app_assoc; reflexivity).
    rewrite exec_line_exec by (apply plain_word_app; [exact Hw|reflexivity]).
    rewrite exec_line_setx. f_equal. unfold with_out, resolve_file.
    rewrite name_not_abs by (split; assumption). reflexivity.
  - cbn [app exec_prefix]. rewrite exec_line_setx. reflexivity.
Qed.

(** * The whole prefix, with the `with` clause *)
Lemma render_with_nil_iff ws : Forall wf_item ws -> (render_with ws = [] <-> ws = []).
Proof.
  intros H; split; [|intros ->; reflexivity].
  destruct ws as [|i l]; [reflexivity|]. inversion H; subst.
  cbn. intros E. apply app_eq_nil in E as [E _]. exfalso. eapply item_nonempty; eauto.
Qed.

Lemma render_rest_chars l : Forall wf_item l -> forall c, In c (render_rest l) -> harmless c = true \/ is_sep c = true.
Proof.
  induction 1 as [|i l Hi Hl IH]; intros c Hc; [destruct Hc|].
  rewrite render_rest_cons in Hc. apply in_app_or in Hc as [Hc|Hc].
  - right. unfold sep_bytes in Hc. destruct (w_semi i); cbn in Hc; intuition (subst; reflexivity).
  - apply in_app_or in Hc as [Hc|Hc]; [|auto].
    left. destruct Hi as [Hn Hv]. unfold render_item in Hc. apply in_app_or in Hc as [Hc|Hc].
    + apply name_char_harmless. apply is_name_chars in Hn. rewrite forallb_forall in Hn; auto.
    + destruct Hc as [<-|Hc]; [reflexivity|]. rewrite forallb_forall in Hv; auto.
Qed.

Lemma render_with_chars i l : Forall wf_item (i :: l) ->
  forall c, In c (render_with (i :: l)) -> harmless c = true \/ is_sep c = true.
Proof.
  intros H c Hin. inversion H as [|? ? Hi Hl]; subst.
  cbn in Hin. apply in_app_or in Hin as [Hin|Hin].
  - left. destruct Hi as [Hn Hv]. unfold render_item in Hin. apply in_app_or in Hin as [Hin|Hin].
    + apply name_char_harmless. apply is_name_chars in Hn. rewrite forallb_forall in Hn; auto.
    + destruct Hin as [<-|Hin]; [reflexivity|]. rewrite forallb_forall in Hv; auto.
  - eapply render_rest_chars; eauto.
Qed.

Lemma harmless_or_sep_plain c : harmless c = true \/ is_sep c = true ->
  c <> x3e /\ (Byte.eqb c x27 || Byte.eqb c x22) = false.
Proof. destruct c; vm_compute; intros [H|H]; try discriminate H; split; congruence. Qed.

Lemma exec_with_line st i l : Forall wf_item (i :: l) ->
  exec_line st (render_with (i :: l)) = Some (assign_all st (i :: l)).
Proof.
  intros H. pose proof H as H'. inversion H as [|? ? Hi Hl]; subst.
  assert (E : render_with (i :: l) = w_name i ++ x3d :: (w_val i ++ render_rest l)).
  { cbn. unfold render_item. rewrite <- app_assoc. reflexivity. }
  rewrite E. rewrite exec_line_assign_line.
  - rewrite <- E. rewrite tokens_render_with by exact H'. apply exec_assigns_items; exact H'.
  - apply Hi.
  - rewrite <- E. intros Hin. apply (render_with_chars i l H') in Hin.
    apply harmless_or_sep_plain in Hin as [X _]. congruence.
  - rewrite <- E. unfold has_quote. apply not_true_is_false. intros Hq.
    apply existsb_exists in Hq as (c & Hin & Hc). apply (render_with_chars i l H') in Hin.
    apply harmless_or_sep_plain in Hin as [_ X]. congruence.
Qed.

Theorem state_at_command caller shell workDir name ws redirect :
  dir_ok workDir redirect -> (redirect = true -> name_ok name) -> Forall wf_item ws ->
  exec_prefix caller (prefix_lines shell workDir name (render_with ws) redirect)
  = Some (assign_all (st_fixed caller workDir name redirect) ws).
Proof.
  intros Hd Hn Hw.
  assert (E : prefix_lines shell workDir name (render_with ws) redirect =
              prefix_lines shell workDir name [] redirect ++ match ws with [] => [] | _ => [render_with ws] end).
  { assert (D : match render_with ws with [] => [] | _ => [render_with ws] end
                 = match ws with [] => @nil bytes | _ => [render_with ws] end).
    { destruct ws as [|i l]; [reflexivity|].
      destruct (render_with (i :: l)) eqn:R; [|reflexivity].
      apply render_with_nil_iff in R; [discriminate|exact Hw]. }
    unfold prefix_lines. rewrite D. rewrite <- !app_assoc. reflexivity. }
  rewrite E, exec_prefix_app, fixed_prefix_state by assumption.
  destruct ws as [|i l]; [reflexivity|].
  cbn [exec_prefix]. rewrite exec_with_line by exact Hw. reflexivity.
Qed.

(** Components of the state at the command. *)
Lemma st_fixed_frame caller workDir name redirect :
  let st := st_fixed caller workDir name redirect in
  cwd st = workDir /\ allexport st = true /\
  out st = (if redirect then TAppend (log_file workDir name) else out caller) /\
  err st = (if redirect then TAppend (log_file workDir name) else err caller).
Proof. unfold st_fixed; destruct redirect; cbn; auto. Qed.

Lemma st_fixed_lookup caller workDir name redirect n :
  lookup_var n (st_fixed caller workDir name redirect) =
  if bytes_eqb n (bs "HOME") then Some (workDir ++ bs "/..", true)
  else if bytes_eqb n (bs "TMPDIR") then Some (workDir, true)
  else if bytes_eqb n (bs "PWD") then Some (workDir, true)
  else if bytes_eqb n (bs "OLDPWD")
       then Some (match var_value (bs "PWD") caller with Some p => p | None => cwd caller end, true)
  else lookup_var n caller.
Proof.
  assert (X : forall st t, lookup_var n (with_out st t) = lookup_var n st) by reflexivity.
  unfold st_fixed. destruct redirect; rewrite ?X; unfold lookup_var, set_var, do_cd, with_allexport; cbn;
    destruct (bytes_eqb n (bs "HOME")); try reflexivity;
    destruct (bytes_eqb n (bs "TMPDIR")); try reflexivity;
    destruct (bytes_eqb n (bs "PWD")); try reflexivity;
    destruct (bytes_eqb n (bs "OLDPWD")); reflexivity.
Qed.

(** * Decimal strings *)
Lemma uint_round d : uint_of_bytes (bytes_of_uint d) = Some d.
Proof. induction d; cbn; rewrite ?IHd; reflexivity. Qed.

Lemma atoi_itoa k : atoi (itoa k) = Some k.
Proof. unfold atoi, itoa. rewrite uint_round. cbn. rewrite DecimalN.Unsigned.of_to. reflexivity. Qed.

Lemma itoa_inj a b : itoa a = itoa b -> a = b.
Proof. intros H. apply (f_equal atoi) in H. rewrite !atoi_itoa in H. congruence. Qed.

Lemma uint_digits d : forallb harmless (bytes_of_uint d) = true.
Proof. induction d; cbn; rewrite ?IHd; reflexivity. Qed.

Lemma itoa_harmless k : forallb harmless (itoa k) = true.
Proof. apply uint_digits. Qed.

(** * Multi-actor definitions *)
Definition i_item (k : N) : witem := {| w_semi := false; w_name := bs "i"; w_val := itoa k |}.
Definition with_i (k : N) (ws : list witem) : list witem :=
  i_item k :: match ws with
              | [] => []
              | j :: tl => {| w_semi := true; w_name := w_name j; w_val := w_val j |} :: tl
              end.

Lemma multi_env_render k ws : Forall wf_item ws -> multi_env k (render_with ws) = render_with (with_i k ws).
Proof.
  intros H. destruct ws as [|j tl].
  - cbn. rewrite app_nil_r. reflexivity.
  - unfold multi_env. destruct (render_with (j :: tl)) eqn:R.
    + apply render_with_nil_iff in R; [discriminate|exact H].
    + rewrite <- R. cbn. unfold render_item at 1. cbn. rewrite <- !app_assoc. reflexivity.
Qed.

Lemma with_i_wf k ws : Forall wf_item ws -> Forall wf_item (with_i k ws).
Proof.
  intros H. unfold with_i. constructor.
  - split; [reflexivity|apply itoa_harmless].
  - destruct H as [|j tl Hj Htl]; constructor; auto.
Qed.

Lemma last_assigned_with_i n k ws :
  last_assigned n (with_i k ws) =
  match last_assigned n ws with
  | Some v => Some v
  | None => if bytes_eqb n (bs "i") then Some (itoa k) else None
  end.
Proof. unfold with_i. destruct ws as [|j tl]; cbn; reflexivity. Qed.

(** * HOME lies inside the run directory *)
Definition actor_name_ok (a : bytes) : Prop :=
  a <> [] /\ forallb (fun c => negb (is_slash c)) a = true /\ regular a = true.
(** The run directory as filepath.Abs returns it: absolute, and clean. *)
Definition run_dir_ok (runDir : bytes) : Prop :=
  is_abs runDir = true /\ forallb regular (fields is_slash runDir) = true.

Lemma is_abs_app a b : is_abs a = true -> is_abs (a ++ b) = true.
Proof. destruct a; cbn; [discriminate|auto]. Qed.

Lemma path_abs_is_abs b : p_abs (path_of_bytes b) = is_abs b.
Proof. destruct b; reflexivity. Qed.

Lemma path_of_bytes_eq b : path_of_bytes b = {| p_abs := is_abs b; p_comps := fields is_slash b |}.
Proof. destruct b; reflexivity. Qed.

Lemma home_inside runDir a : run_dir_ok runDir -> actor_name_ok a ->
  let home := work_dir runDir a ++ bs "/.." in
  clean (path_of_bytes home) = path_of_bytes (runDir ++ bs "/artifacts") /\
  strictly_inside (path_of_bytes runDir) (clean (path_of_bytes home)) = true.
Proof.
  intros [Ha Hr] (Hne & Hs & Hreg). cbv zeta.
  set (cs := fields is_slash runDir) in *.
  assert (F1 : fields is_slash (work_dir runDir a ++ bs "/..") = cs ++ [bs "artifacts"; a; dotdot]).
  { unfold work_dir.
    replace ((runDir ++ bs "/artifacts/" ++ a) ++ bs "/..")
      with (runDir ++ x2f :: (bs "artifacts" ++ x2f :: (a ++ x2f :: dotdot))).
    2:{ rewrite <- !app_assoc. reflexivity. }
    rewrite !fields_split by reflexivity.
    rewrite (fields_one is_slash a) by assumption. reflexivity. }
  assert (F2 : fields is_slash (runDir ++ bs "/artifacts") = cs ++ [bs "artifacts"]).
  { change (bs "/artifacts") with (x2f :: bs "artifacts"). rewrite fields_split by reflexivity. reflexivity. }
  assert (C : clean (path_of_bytes (work_dir runDir a ++ bs "/..")) = path_of_bytes (runDir ++ bs "/artifacts")).
  { assert (A1 : is_abs (work_dir runDir a ++ bs "/..") = true)
      by (apply is_abs_app; unfold work_dir; apply is_abs_app; exact Ha).
    assert (A2 : is_abs (runDir ++ bs "/artifacts") = true) by (apply is_abs_app; exact Ha).
    rewrite !path_of_bytes_eq. unfold clean. cbn [p_abs p_comps].
    rewrite A1, A2, F1, F2. f_equal.
    rewrite clean_aux_stack.
    change (cs ++ [bs "artifacts"; a; dotdot]) with (cs ++ [bs "artifacts"] ++ [a; dotdot]).
    rewrite app_assoc, clean_stack_app.
    rewrite clean_stack_down_up by exact Hreg.
    rewrite clean_stack_regular.
    - rewrite app_nil_r, rev_involutive. reflexivity.
    - rewrite forallb_app, Hr. reflexivity. }
  split; [exact C|]. rewrite C.
  rewrite !path_of_bytes_eq. unfold strictly_inside, inside. cbn [p_abs p_comps].
  rewrite Ha, (is_abs_app runDir _ Ha). fold cs. rewrite F2.
  rewrite prefix_comps_app, app_length. cbn. apply Nat.ltb_lt. lia.
Qed.

(** * The prefix does not depend on who invokes the script *)
Definition assigns (n : bytes) (ws : list witem) : Prop :=
  (exists v, last_assigned n ws = Some v) \/ In n [bs "HOME"; bs "TMPDIR"; bs "PWD"].

Theorem prefix_ignores_caller c1 c2 shell workDir name ws redirect :
  dir_ok workDir redirect -> (redirect = true -> name_ok name) -> Forall wf_item ws ->
  exists s1 s2,
    exec_prefix c1 (prefix_lines shell workDir name (render_with ws) redirect) = Some s1 /\
    exec_prefix c2 (prefix_lines shell workDir name (render_with ws) redirect) = Some s2 /\
    cwd s1 = cwd s2 /\ allexport s1 = allexport s2 /\
    (forall n, assigns n ws -> lookup_var n s1 = lookup_var n s2) /\
    (redirect = true -> out s1 = out s2 /\ err s1 = err s2) /\
    (redirect = false -> out s1 = out c1 /\ err s1 = err c1 /\ out s2 = out c2 /\ err s2 = err c2).
Proof.
  intros Hd Hn Hw.
  exists (assign_all (st_fixed c1 workDir name redirect) ws), (assign_all (st_fixed c2 workDir name redirect) ws).
  rewrite !state_at_command by assumption.
  destruct (assign_all_frame ws (st_fixed c1 workDir name redirect)) as (A1 & B1 & C1 & D1).
  destruct (assign_all_frame ws (st_fixed c2 workDir name redirect)) as (A2 & B2 & C2 & D2).
  destruct (st_fixed_frame c1 workDir name redirect) as (E1 & F1 & G1 & H1).
  destruct (st_fixed_frame c2 workDir name redirect) as (E2 & F2 & G2 & H2).
  split; [reflexivity|]. split; [reflexivity|].
  split; [congruence|]. split; [congruence|].
  split.
  { intros n Hn'. rewrite !lookup_assign_all by assumption.
    destruct Hn' as [[v ->]|Hin]; [reflexivity|].
    destruct (last_assigned n ws); [reflexivity|].
    rewrite !st_fixed_lookup.
    cbn in Hin. destruct Hin as [<-|[<-|[<-|[]]]]; reflexivity. }
  split.
  { intros ->. split; congruence. }
  intros ->. repeat split; congruence.
Qed.

(** * Roles and casts *)
Lemma add_actions_ok l : forall acc r, add_actions acc l = Ok r -> r = acc ++ l.
Proof.
  induction l as [|[n c] l IH]; cbn; intros acc r H.
  - inversion H; rewrite app_nil_r; reflexivity.
  - destruct (amem n acc); [discriminate|]. apply IH in H. rewrite <- app_assoc in H. exact H.
Qed.

(** A role that extends another has the parent's actions followed by its own,
    and the parent's spotlight / cleanup unless it defines one. *)
Lemma resolve_role_extends known d p r :
  rd_extends d = Some p -> resolve_role known d = Ok r ->
  exists pr, alookup p known = Some pr /\
    r_actions r = r_actions pr ++ rd_actions d /\
    r_spot r = or_else (rd_spot d) (r_spot pr) /\ r_clean r = or_else (rd_clean d) (r_clean pr).
Proof.
  unfold resolve_role. intros -> H.
  destruct (amem (rd_name d) known); [discriminate|].
  destruct (alookup p known) as [pr|]; [|discriminate]. cbn in H.
  destruct (add_actions (r_actions pr) (rd_actions d)) eqn:A; try discriminate.
  cbn in H. inversion H; subst; cbn. apply add_actions_ok in A. eauto.
Qed.

Definition multi_actor (base : bytes) (r : role) (env : bytes) (k : nat) : bytes * actor :=
  (multi_name base (N.of_nat k),
   {| a_name := multi_name base (N.of_nat k); a_role := r; a_env := multi_env (N.of_nat k) env;
      a_index := Some (N.of_nat k) |}).

Lemma add_multi_ok base r env ks : forall acc acc',
  add_multi acc base r env ks = Ok acc' -> acc' = acc ++ map (multi_actor base r env) ks.
Proof.
  induction ks as [|k ks IH]; cbn; intros acc acc' H.
  - inversion H; rewrite app_nil_r; reflexivity.
  - destruct (amem (multi_name base (N.of_nat k)) acc); [discriminate|].
    apply IH in H. rewrite <- app_assoc in H. exact H.
Qed.

(** How an actor relates to the line of the cast section it comes from. *)
Definition from_def (roles : list (bytes * role)) (d : actor_def) (a : actor) : Prop :=
  match ad_mul d with
  | None =>
      find_role roles false (ad_role d) = Some (a_role a) /\
      a_name a = ad_name d /\ a_env a = ad_env d /\ a_index a = None
  | Some n =>
      find_role roles true (ad_role d) = Some (a_role a) /\
      exists k, (k < n)%nat /\ a_name a = multi_name (ad_name d) (N.of_nat k) /\
                a_env a = multi_env (N.of_nat k) (ad_env d) /\ a_index a = Some (N.of_nat k)
  end.

Lemma add_actor_def_ok roles acc d acc' :
  add_actor_def roles acc d = Ok acc' ->
  exists new, acc' = acc ++ new /\
    (forall na, In na new -> fst na = a_name (snd na) /\ from_def roles d (snd na)) /\
    match ad_mul d with
    | None => List.length new = 1%nat
    | Some n => map fst new = map (fun k => multi_name (ad_name d) (N.of_nat k)) (seq 0 n)
    end.
Proof.
  unfold add_actor_def, from_def. intros H.
  destruct (ad_mul d) as [n|] eqn:M.
  - destruct (find_role roles true (ad_role d)) as [r|] eqn:F; [|discriminate].
    apply add_multi_ok in H. eexists; split; [exact H|]. split.
    + intros na Hin. apply in_map_iff in Hin as (k & <- & Hk). apply in_seq in Hk. cbn.
      split; [reflexivity|]. split; [reflexivity|]. exists k. repeat split; try reflexivity. lia.
    + rewrite map_map. reflexivity.
  - destruct (find_role roles false (ad_role d)) as [r|] eqn:F; [|discriminate].
    destruct (amem (ad_name d) acc); [discriminate|]. inversion H; subst.
    eexists; split; [reflexivity|]. split; [|reflexivity].
    intros na [<-|[]]. cbn. auto.
Qed.

Lemma expand_cast_ok roles ds : forall acc acc',
  expand_cast roles acc ds = Ok acc' ->
  exists new, acc' = acc ++ new /\
    forall na, In na new -> fst na = a_name (snd na) /\ exists d, In d ds /\ from_def roles d (snd na).
Proof.
  induction ds as [|d ds IH]; cbn; intros acc acc' H.
  - inversion H. exists []. rewrite app_nil_r. split; [reflexivity|]. intros ? [].
  - destruct (add_actor_def roles acc d) as [acc1| | |] eqn:A; try discriminate. cbn in H.
    apply add_actor_def_ok in A as (n1 & -> & H1 & _).
    apply IH in H as (n2 & -> & H2).
    exists (n1 ++ n2). rewrite app_assoc. split; [reflexivity|].
    intros na Hin. apply in_app_or in Hin as [Hin|Hin].
    + destruct (H1 na Hin) as [X Y]. split; [exact X|]. exists d. auto.
    + destruct (H2 na Hin) as [X (d' & Hd' & Y)]. split; [exact X|]. exists d'. auto.
Qed.

(** Every actor of a cast comes from one line of the cast section: with the
    line's role; for `name* play n role` as the k-th of n with k < n, named
    name<k+1> and with i=<k> put in front of the environment. *)
Theorem cast_actor_from_def rds ads actors :
  cast_of rds ads = Ok actors ->
  exists roles, resolve_roles [] rds = Ok roles /\
  forall na, In na actors -> fst na = a_name (snd na) /\ exists d, In d ads /\ from_def roles d (snd na).
Proof.
  unfold cast_of. intros H.
  destruct (resolve_roles [] rds) as [roles| | |] eqn:R; try discriminate. cbn in H.
  exists roles. split; [reflexivity|].
  apply expand_cast_ok in H as (new & -> & Hn). exact Hn.
Qed.

(** ... and every k < n is there (the expansion loses no actor). *)
Lemma expand_cast_complete roles ds : forall acc acc' d,
  expand_cast roles acc ds = Ok acc' -> In d ds ->
  forall n k, ad_mul d = Some n -> (k < n)%nat ->
  exists na, In na acc' /\ fst na = multi_name (ad_name d) (N.of_nat k) /\ from_def roles d (snd na).
Proof.
  induction ds as [|d0 ds IH]; cbn; intros acc acc' d H Hin n k Hm Hk; [destruct Hin|].
  destruct (add_actor_def roles acc d0) as [acc1| | |] eqn:A; try discriminate. cbn in H.
  destruct Hin as [->|Hin]; [|eapply IH; eauto].
  apply add_actor_def_ok in A as (n1 & -> & H1 & H3). rewrite Hm in H3.
  apply expand_cast_ok in H as (n2 & -> & _).
  assert (Hi : In (multi_name (ad_name d) (N.of_nat k)) (map fst n1)).
  { rewrite H3. apply in_map_iff. exists k. split; [reflexivity|]. apply in_seq. lia. }
  apply in_map_iff in Hi as (na & E & Hna).
  exists na. split; [apply in_or_app; left; apply in_or_app; right; exact Hna|].
  split; [exact E|]. apply H1; exact Hna.
Qed.

(** * Every script of every actor *)

(** The scripts prepareActionCommands creates for an actor carry that actor's
    own directory and environment, whichever role the commands come from. *)
Lemma script_prefix_eq shell runDir a s :
  script_prefix shell runDir a s =
  prefix_lines shell (work_dir runDir (a_name a)) (s_name s) (a_env a) (kind_redirect (s_kind s)).
Proof. reflexivity. Qed.

Lemma script_text_eq shell runDir a s :
  script_text shell runDir a s =
  render_lines (script_prefix shell runDir a s ++ [s_cmd s]).
Proof. reflexivity. Qed.

Definition actor_clause (a : actor) (ws : list witem) : list witem :=
  match a_index a with Some k => with_i k ws | None => ws end.

Lemma actor_env_render roles d a ws :
  from_def roles d a -> Forall wf_item ws -> ad_env d = render_with ws ->
  a_env a = render_with (actor_clause a ws) /\ Forall wf_item (actor_clause a ws).
Proof.
  unfold from_def, actor_clause. intros H Hw He.
  destruct (ad_mul d).
  - destruct H as (_ & k & _ & _ & E & ->). rewrite E, He. split; [apply multi_env_render; exact Hw|apply with_i_wf; exact Hw].
  - destruct H as (_ & _ & E & ->). rewrite E, He. auto.
Qed.

(** * The headline statements *)
Definition state_ok (caller st : sh_state) (workDir name : bytes) (ws : list witem) (redirect : bool) : Prop :=
  cwd st = workDir /\ allexport st = true /\
  (forall n v, last_assigned n ws = Some v -> lookup_var n st = Some (v, true)) /\
  (last_assigned (bs "TMPDIR") ws = None -> lookup_var (bs "TMPDIR") st = Some (workDir, true)) /\
  (last_assigned (bs "HOME") ws = None -> lookup_var (bs "HOME") st = Some (workDir ++ bs "/..", true)) /\
  (forall n, last_assigned n ws = None -> ~ In n [bs "HOME"; bs "TMPDIR"; bs "PWD"; bs "OLDPWD"] ->
             lookup_var n st = lookup_var n caller) /\
  out st = (if redirect then TAppend (log_file workDir name) else out caller) /\
  err st = (if redirect then TAppend (log_file workDir name) else err caller).

Theorem command_state caller shell workDir name ws redirect :
  dir_ok workDir redirect -> (redirect = true -> name_ok name) -> Forall wf_item ws ->
  exists st,
    exec_prefix caller (prefix_lines shell workDir name (render_with ws) redirect) = Some st /\
    state_ok caller st workDir name ws redirect.
Proof.
  intros Hd Hn Hw. eexists. split; [apply state_at_command; assumption|].
  destruct (assign_all_frame ws (st_fixed caller workDir name redirect)) as (A & B & C & D).
  destruct (st_fixed_frame caller workDir name redirect) as (E & F & G & H).
  unfold state_ok. rewrite A, B, C, D, E, F, G, H.
  repeat (split; [reflexivity|]).
  split; [|split; [|split; [|split; [|split]]]]; try reflexivity.
  - intros n v L. rewrite lookup_assign_all, L by assumption. reflexivity.
  - intros L. rewrite lookup_assign_all, L, st_fixed_lookup by assumption. reflexivity.
  - intros L. rewrite lookup_assign_all, L, st_fixed_lookup by assumption. reflexivity.
  - intros n L Hin. rewrite lookup_assign_all, L, st_fixed_lookup by assumption.
    destruct (bytes_eqb n (bs "HOME")) eqn:E1;
      [apply bytes_eqb_eq in E1; exfalso; apply Hin; rewrite E1; left; reflexivity|].
    destruct (bytes_eqb n (bs "TMPDIR")) eqn:E2;
      [apply bytes_eqb_eq in E2; exfalso; apply Hin; rewrite E2; right; left; reflexivity|].
    destruct (bytes_eqb n (bs "PWD")) eqn:E3;
      [apply bytes_eqb_eq in E3; exfalso; apply Hin; rewrite E3; right; right; left; reflexivity|].
    destruct (bytes_eqb n (bs "OLDPWD")) eqn:E4;
      [apply bytes_eqb_eq in E4; exfalso; apply Hin; rewrite E4; right; right; right; left; reflexivity|].
    reflexivity.
Qed.

(** The value of [i]: for the k-th actor of a multi-actor definition whose
    `with` clause does not itself assign i, a decimal string denoting k. *)
Lemma i_of_kth k ws st caller workDir name redirect :
  state_ok caller st workDir name (with_i k ws) redirect ->
  last_assigned (bs "i") ws = None ->
  lookup_var (bs "i") st = Some (itoa k, true) /\ atoi (itoa k) = Some k.
Proof.
  intros (_ & _ & H & _) L. split; [|apply atoi_itoa].
  apply H. rewrite last_assigned_with_i, L. reflexivity.
Qed.

(** The assignments of the definition's own `with` clause survive the i=<k>
    put in front of them. *)
Lemma with_i_keeps k ws n v : last_assigned n ws = Some v -> last_assigned n (with_i k ws) = Some v.
Proof. intros L. rewrite last_assigned_with_i, L. reflexivity. Qed.

Theorem every_actor_every_script rds ads actors :
  cast_of rds ads = Ok actors ->
  exists roles, resolve_roles [] rds = Ok roles /\
  forall na, In na actors ->
  exists d, In d ads /\ from_def roles d (snd na) /\
  forall ws, Forall wf_item ws -> ad_env d = render_with ws ->
  forall caller shell runDir s, In s (actor_scripts (snd na)) ->
    let a := snd na in
    let wd := work_dir runDir (a_name a) in
    let redirect := kind_redirect (s_kind s) in
    dir_ok wd redirect -> (redirect = true -> name_ok (s_name s)) ->
    script_text shell runDir a s = render_lines (script_prefix shell runDir a s ++ [s_cmd s]) /\
    exists st,
      exec_prefix caller (script_prefix shell runDir a s) = Some st /\
      state_ok caller st wd (s_name s) (actor_clause a ws) redirect /\
      (forall n v, last_assigned n ws = Some v -> lookup_var n st = Some (v, true)) /\
      (forall k, a_index a = Some k -> last_assigned (bs "i") ws = None ->
                 lookup_var (bs "i") st = Some (itoa k, true) /\ atoi (itoa k) = Some k).
Proof.
  intros H. apply cast_actor_from_def in H as (roles & R & Hall).
  exists roles. split; [exact R|]. intros na Hin.
  destruct (Hall na Hin) as (_ & d & Hd & Hf). exists d. split; [exact Hd|]. split; [exact Hf|].
  intros ws Hw He caller shell runDir s Hs a wd redirect Hdir Hname.
  split; [reflexivity|].
  destruct (actor_env_render roles d a ws Hf Hw He) as [Ea Wa].
  rewrite script_prefix_eq. fold a. rewrite Ea.
  destruct (command_state caller shell wd (s_name s) (actor_clause a ws) redirect Hdir Hname Wa) as (st & X & Y).
  exists st. split; [exact X|]. split; [exact Y|]. split.
  - intros n v L. destruct Y as (_ & _ & Y & _). apply Y.
    unfold actor_clause. destruct (a_index a); [apply with_i_keeps|]; exact L.
  - intros k Hk L. unfold actor_clause in Y. rewrite Hk in Y. eapply i_of_kth; eauto.
Qed.

(** From conditions on the run directory and the actor's name to [dir_ok]. *)
Lemma work_dir_ok runDir a redirect :
  is_abs runDir = true -> plain_text runDir = true -> plain_word a = true -> dir_ok (work_dir runDir a) redirect.
Proof.
  intros Ha Hp Hw. unfold dir_ok, work_dir.
  assert (P : plain_text (runDir ++ bs "/artifacts/" ++ a) = true).
  { apply plain_text_app; [exact Hp|]. apply plain_text_app; [reflexivity|apply plain_word_text; exact Hw]. }
  split; [apply is_abs_app; exact Ha|]. split; [|intros _; exact P].
  unfold quotable, plain_text in *. rewrite forallb_forall in *. intros c Hc.
  specialize (P c Hc). apply orb_true_iff in P as [P|P].
  - rewrite (harmless_not_quote _ P). reflexivity.
  - apply byte_eqb_eq in P; subst c. reflexivity.
Qed.
