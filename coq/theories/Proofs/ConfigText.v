(** Parameter substitution on inert texts; decimal numbers (C10). *)
From Coq Require Import String DecimalString DecimalN Permutation Ascii.
From Shk Require Import Base.Prelude Model.Storyline Model.Config.
Open Scope Z_scope.

Ltac split_andb :=
  repeat match goal with
         | H : (_ && _)%bool = true |- _ => apply andb_prop in H; destruct H
         end.

Lemma bytes_eqb_refl a : bytes_eqb a a = true.
Proof. apply bytes_eqb_eq; reflexivity. Qed.

Lemma mem_bytes_In x l : mem_bytes x l = true <-> In x l.
Proof.
  induction l as [|y l IH]; cbn; [split; [discriminate|tauto]|].
  rewrite orb_true_iff, IH, bytes_eqb_eq. split; intros [H|H]; auto.
Qed.

Lemma mem_bytes_false x l : mem_bytes x l = false <-> ~ In x l.
Proof.
  rewrite <- mem_bytes_In. destruct (mem_bytes x l); split; intros; try congruence; tauto.
Qed.

Lemma mem_bytes_app x l1 l2 : mem_bytes x (l1 ++ l2) = mem_bytes x l1 || mem_bytes x l2.
Proof. induction l1; cbn; [reflexivity|]. rewrite IHl1, orb_assoc. reflexivity. Qed.

Lemma run_app orc l1 l2 s : run orc (l1 ++ l2) s = obind (run orc l1 s) (run orc l2).
Proof.
  revert s; induction l1 as [|c l1 IH]; intros s; cbn; [reflexivity|].
  destruct (apply orc s c); cbn; auto.
Qed.

Lemma run_ok_app orc l1 l2 s s1 : run orc l1 s = Ok s1 -> run orc (l1 ++ l2) s = run orc l2 s1.
Proof. intros H. rewrite run_app, H. reflexivity. Qed.

(** * Parameter substitution leaves a text without `~` alone *)
Definition no_tilde (s : bytes) : Prop := Forall (fun c => Byte.eqb c b_tilde = false) s.

Lemma pp_no_tilde pv s : no_tilde s -> pp pv None s = Ok s.
Proof.
  induction 1 as [|c s Hc Hs IH]; cbn; [reflexivity|].
  rewrite Hc, IH. reflexivity.
Qed.

Lemma preproc_no_tilde pv s : no_tilde s -> preproc pv s = Ok s.
Proof. apply pp_no_tilde. Qed.

Lemma inert_preproc t : inert t = true -> preproc [] t = Ok t.
Proof.
  unfold inert. destruct (preproc [] t) as [t'| | |]; try discriminate.
  intros H. apply bytes_eqb_eq in H. subst. reflexivity.
Qed.

(** * Decimal numbers *)
Definition digit_byte (c : byte) : Prop := is_digit c = true.

Lemma lbs_string_of_uint_digits d :
  Forall digit_byte (list_byte_of_string (NilEmpty.string_of_uint d)).
Proof.
  induction d; cbn; constructor; auto; reflexivity.
Qed.

Lemma itoa_digits n : Forall digit_byte (itoa n).
Proof. apply lbs_string_of_uint_digits. Qed.

Lemma digit_no_tilde c : digit_byte c -> Byte.eqb c b_tilde = false.
Proof.
  unfold digit_byte, is_digit, byte_in. intros H.
  destruct (Byte.eqb c b_tilde) eqn:E; [|reflexivity].
  apply byte_eqb_eq in E. subst c. discriminate H.
Qed.

Lemma itoa_no_tilde n : no_tilde (itoa n).
Proof. eapply Forall_impl; [|apply itoa_digits]. apply digit_no_tilde. Qed.

Lemma to_uint_not_nil n : N.to_uint n <> Decimal.Nil.
Proof.
  destruct n; cbn; [discriminate|].
  unfold Pos.to_uint. intros H.
  pose proof (DecimalPos.Unsigned.to_uint_nonnil p) as Hn. auto.
Qed.

Lemma itoa_cons n : exists c tl, itoa n = c :: tl /\ digit_byte c.
Proof.
  pose proof (itoa_digits n) as H. unfold itoa in *.
  destruct (N.to_uint n) eqn:E; try (apply to_uint_not_nil in E; contradiction);
    cbn in *; inversion H; subst; eauto.
Qed.

Lemma atoi_itoa n : atoi_digits (itoa n) = Some n.
Proof.
  destruct (itoa_cons n) as (c & tl & E & _).
  unfold atoi_digits. rewrite E. rewrite <- E. unfold itoa.
  rewrite string_of_list_byte_of_string, NilEmpty.usu. cbn. rewrite DecimalN.Unsigned.of_to. reflexivity.
Qed.

Lemma parse_int_itoa_z z : 0 <= z -> parse_int (itoa_z z) = Some z.
Proof.
  intros Hz. unfold itoa_z. destruct (z <? 0) eqn:E; [apply Z.ltb_lt in E; lia|].
  destruct (itoa_cons (Z.to_N z)) as (c & tl & Ec & Hc).
  unfold parse_int. rewrite Ec.
  assert (Hm : c <> x2d /\ c <> x2b).
  { split; intros ->; discriminate Hc. }
  destruct Hm as [H1 H2].
  destruct c; try congruence; rewrite <- Ec, atoi_itoa; cbn; rewrite Z2N.id; auto.
Qed.

Lemma itoa_z_no_tilde z : 0 <= z -> no_tilde (itoa_z z).
Proof.
  intros Hz. unfold itoa_z. destruct (z <? 0) eqn:E; [apply Z.ltb_lt in E; lia|].
  apply itoa_no_tilde.
Qed.

Lemma atoi_itoa_z z : 1 <= z -> atoi_digits (itoa_z z) = Some (Z.to_N z).
Proof.
  intros Hz. unfold itoa_z. destruct (z <? 0) eqn:E; [apply Z.ltb_lt in E; lia|].
  apply atoi_itoa.
Qed.
