(** The reloaded state is printable again (C10). *)
From Coq Require Import String Permutation.
From Shk Require Import Base.Prelude Model.Storyline Model.Config.
From Shk Require Import Proofs.ConfigText Proofs.ConfigRoles Proofs.ConfigExpr Proofs.ConfigMember Proofs.ConfigAudience
  Proofs.ConfigHyps Proofs.ConfigReload Proofs.ConfigSame.
Open Scope Z_scope.

(** * The reloaded state is printable again: the printed configuration of the
    printed configuration reloads too *)

Lemma member_exprs_canon2 m : member_exprs (canon2 m) = member_exprs m.
Proof. reflexivity. Qed.

Lemma all_defined_perm defd l l' : Permutation l l' -> all_defined defd l = true -> all_defined defd l' = true.
Proof.
  unfold all_defined. intros P H. apply forallb_forall. intros x Hx.
  rewrite forallb_forall in H. apply H. eapply Permutation_in; [apply Permutation_sym; exact P|exact Hx].
Qed.

Lemma plain_obs_perm (o o' : list vname) :
  Permutation o o' ->
  Permutation (map snd (filter (fun d => is_nil (fst d)) o)) (map snd (filter (fun d => is_nil (fst d)) o')).
Proof.
  intros P. apply Permutation_map. induction P; cbn.
  - constructor.
  - destruct x as [xa xg]. cbn [fst]. destruct (is_nil xa); [apply perm_skip|]; assumption.
  - destruct x as [xa xg], y as [ya yg]. cbn [fst]. destruct (is_nil xa), (is_nil ya);
      try apply perm_swap; try (apply perm_skip; apply Permutation_refl); apply Permutation_refl.
  - eapply Permutation_trans; [exact IHP1|exact IHP2].
Qed.

Lemma member_ordered_canon2 orc s defd m :
  member_wf orc s m = true -> member_ordered defd m = true -> member_ordered defd (canon2 m) = true.
Proof.
  intros Hw H. unfold member_ordered in *. cbn [canon2 m_cond m_assigns m_expect].
  apply andb_prop in H as [H1 H2]. apply andb_prop in H2 as [H2 H3]. rewrite H1, H2. cbn [andb].
  unfold plain_obs in *. cbn [m_obs canon2].
  eapply all_defined_perm; [|exact H3]. apply plain_obs_perm. apply (canon_obs_perm orc s). exact Hw.
Qed.

Lemma aud_ordered_canon2 orc s aud : forall defd,
  forallb (member_wf orc s) aud = true -> aud_ordered defd aud = true -> aud_ordered defd (map canon2 aud) = true.
Proof.
  induction aud as [|m aud IH]; intros defd Hw H; [reflexivity|].
  cbn [map aud_ordered] in *. cbn [forallb] in Hw. apply andb_prop in Hw as [Hm Hw]. apply andb_prop in H as [H1 H2].
  rewrite (member_ordered_canon2 orc s defd m Hm H1). cbn [andb]. apply IH; assumption.
Qed.

Lemma printable_canon orc s : wf_state orc s = true -> printable s = true -> printable (canon_state orc s) = true.
Proof.
  intros Hwf Hpr. destruct (wf_parts orc s Hwf) as (_ & _ & _ & _ & _ & _ & _ & _ & Hmw & _).
  destruct (pr_parts s Hpr) as (Htx & Hrin & Henv & Hexin & Hre & Hord & Hst).
  unfold printable, texts_printable, regexps_printable, story_printable, scene_defined, canon_state.
  cbn [c_titles c_seealso c_roles c_actors c_aud c_scenes c_story].
  rewrite Htx, Hrin, Henv. unfold regexps_printable in Hre. rewrite Hre.
  unfold story_printable, scene_defined in Hst. rewrite Hst.
  rewrite (aud_ordered_canon2 orc s (c_aud s) [] Hmw Hord).
  assert (E : forallb (fun m => forallb (fun e => inert (x_src e)) (member_exprs m)) (map canon2 (c_aud s)) = true).
  { rewrite forallb_forall in *. intros m Hm. apply in_map_iff in Hm. destruct Hm as (m0 & <- & Hin).
    rewrite member_exprs_canon2. apply Hexin. exact Hin. }
  rewrite E. reflexivity.
Qed.
