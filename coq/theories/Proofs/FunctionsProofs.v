(** Proofs for property C11, part 1: the collect functions and the array /
    scalar functions of Model/Functions.v against the plain-meaning vocabulary
    of Model/FunctionsSpec.v.  Every statement is for sequences of any length,
    by induction. *)
From Shk Require Import Base.Prelude Model.Value Model.Functions Model.Expr Model.Audit Model.FunctionsSpec.
From Coq Require Import Sorting.Sorted Sorting.Permutation QArith Qabs Qround Morphisms.
Open Scope list_scope.

(** * first N *)

Lemma non_nil_cons_nil x xs : is_nil x = true -> non_nil (x :: xs) = non_nil xs.
Proof. intros H. unfold non_nil. cbn [filter]. rewrite H. reflexivity. Qed.

Lemma non_nil_cons x xs : is_nil x = false -> non_nil (x :: xs) = x :: non_nil xs.
Proof. intros H. unfold non_nil. cbn [filter]. rewrite H. reflexivity. Qed.

Lemma collect_seq_first n xs : forall a,
  collect_seq AFirst n a xs = COk (a ++ firstn (n - List.length a) (non_nil xs)).
Proof.
  induction xs as [|x xs IH]; intros a; cbn [collect_seq].
  - unfold non_nil. cbn [filter]. rewrite firstn_nil, app_nil_r. reflexivity.
  - unfold collect. destruct (is_nil x) eqn:En; cbn [orb].
    + rewrite IH, (non_nil_cons_nil _ _ En). reflexivity.
    + rewrite (non_nil_cons _ _ En). destruct (Nat.leb n (List.length a)) eqn:El.
      * rewrite IH. apply Nat.leb_le in El.
        replace (n - List.length a)%nat with 0%nat by lia. reflexivity.
      * rewrite IH. apply Nat.leb_gt in El. rewrite app_length. cbn [List.length].
        replace (n - List.length a)%nat with (S (n - (List.length a + 1)))%nat by lia.
        cbn [firstn]. rewrite <- app_assoc. reflexivity.
Qed.

Theorem first_spec n xs : collect_seq AFirst n [] xs = COk (firstn n (non_nil xs)).
Proof. rewrite collect_seq_first. cbn [List.length app]. rewrite Nat.sub_0_r. reflexivity. Qed.

(** * last N *)

Lemma lastn_all {A} n (l : list A) : (List.length l <= n)%nat -> lastn n l = l.
Proof. intros H. unfold lastn. replace (List.length l - n)%nat with 0%nat by lia. reflexivity. Qed.

Lemma lastn_length {A} n (l : list A) : List.length (lastn n l) = Nat.min n (List.length l).
Proof. unfold lastn. rewrite skipn_length. lia. Qed.

Lemma skipn_add {A} a b (l : list A) : skipn (a + b) l = skipn a (skipn b l).
Proof.
  revert l. induction b as [|b IH]; intros l.
  - rewrite Nat.add_0_r. reflexivity.
  - rewrite Nat.add_succ_r. destruct l as [|x l]; [rewrite !skipn_nil; reflexivity|].
    cbn [skipn]. apply IH.
Qed.

Lemma lastn_lastn_app {A} n (l r : list A) : lastn n (lastn n l ++ r) = lastn n (l ++ r).
Proof.
  destruct (Nat.le_gt_cases (List.length l) n) as [H|H].
  - rewrite (lastn_all n l H). reflexivity.
  - unfold lastn at 1 3. rewrite !app_length. fold (lastn n l). rewrite lastn_length.
    replace (Nat.min n (List.length l)) with n by lia.
    replace (n + List.length r - n)%nat with (List.length r) by lia.
    replace (List.length l + List.length r - n)%nat with (List.length r + (List.length l - n))%nat by lia.
    rewrite skipn_add. f_equal. unfold lastn.
    rewrite skipn_app. replace (List.length l - n - List.length l)%nat with 0%nat by lia.
    reflexivity.
Qed.

Lemma collect_last_step n a x :
  (1 <= n)%nat -> (List.length a <= n)%nat -> is_nil x = false ->
  collect ALast a n x = COk (lastn n (a ++ [x])).
Proof.
  intros Hn Ha Hx. unfold collect. rewrite Hx. f_equal.
  unfold lastn. rewrite app_length. cbn [List.length].
  destruct (Nat.leb n (List.length a)) eqn:El.
  - apply Nat.leb_le in El. replace (List.length a + 1 - n)%nat with 1%nat by lia.
    destruct a as [|y a]; [cbn in El; lia|]. reflexivity.
  - apply Nat.leb_gt in El. replace (List.length a + 1 - n)%nat with 0%nat by lia. reflexivity.
Qed.

Lemma collect_seq_last n xs : (1 <= n)%nat -> forall a, (List.length a <= n)%nat ->
  collect_seq ALast n a xs = COk (lastn n (a ++ non_nil xs)).
Proof.
  intros Hn. induction xs as [|x xs IH]; intros a Ha; cbn [collect_seq].
  - unfold non_nil. cbn [filter]. rewrite app_nil_r, lastn_all by assumption. reflexivity.
  - destruct (is_nil x) eqn:En.
    + unfold collect. rewrite En. rewrite (non_nil_cons_nil _ _ En). apply IH; assumption.
    + rewrite (collect_last_step n a x Hn Ha En), (non_nil_cons _ _ En).
      rewrite IH by (rewrite lastn_length; lia).
      rewrite lastn_lastn_app, <- app_assoc. reflexivity.
Qed.

Theorem last_spec n xs : (1 <= n)%nat -> collect_seq ALast n [] xs = COk (lastn n (non_nil xs)).
Proof. intros Hn. rewrite collect_seq_last by (cbn; lia). reflexivity. Qed.

(** N >= 1 is needed (the parser refuses N < 1): with N = 0 the code keeps
    the newest value. *)
Example last_zero_keeps_one :
  collect_seq ALast 0 [] [VNum 1; VNum 2] = COk [VNum 2].
Proof. reflexivity. Qed.

(** * top N / bottom N *)

Section InsBy.
  Variable keep : Q -> Q -> bool.

  Lemma insert_by_map l x : insert_by keep (map VNum l) x = Some (map VNum (ins_by keep x l)).
  Proof.
    induction l as [|y l IH]; cbn [map insert_by ins_by]; [reflexivity|].
    destruct (keep y x); [rewrite IH|]; reflexivity.
  Qed.

  Lemma firstn_cons_firstn {A} k (y : A) l : firstn k (y :: firstn k l) = firstn k (y :: l).
  Proof.
    destruct k as [|j]; [reflexivity|].
    change (firstn (S j) (y :: firstn (S j) l)) with (y :: firstn j (firstn (S j) l)).
    change (firstn (S j) (y :: l)) with (y :: firstn j l).
    f_equal. rewrite firstn_firstn. f_equal. lia.
  Qed.

  Lemma firstn_ins_firstn x : forall l n, firstn n (ins_by keep x (firstn n l)) = firstn n (ins_by keep x l).
  Proof.
    induction l as [|y l IH]; intros [|k]; try reflexivity.
    cbn [firstn ins_by]. destruct (keep y x); cbn [firstn]; f_equal.
    - apply IH.
    - apply (firstn_cons_firstn k y l).
  Qed.

  (** Truncating after every insertion = truncating once at the end. *)
  Lemma trunc_fold n qs : forall l,
    fold_left (fun acc q => firstn n (ins_by keep q acc)) qs (firstn n l)
    = firstn n (fold_left (fun acc q => ins_by keep q acc) qs l).
  Proof.
    induction qs as [|q qs IH]; intros l; cbn [fold_left]; [reflexivity|].
    rewrite firstn_ins_firstn. apply IH.
  Qed.

  Lemma nums_cons_nil x xs : is_nil x = true -> nums (x :: xs) = nums xs.
  Proof. destruct x; try discriminate. reflexivity. Qed.

  Lemma collect_seq_sorted m n xs :
    (match m with ATop => qge | _ => qle end) = keep -> (m = ATop \/ m = ABottom) ->
    forall l,
    collect_seq m n (map VNum l) xs =
    if forallb scalar_or_nil xs
    then COk (map VNum (fold_left (fun acc q => firstn n (ins_by keep q acc)) (nums xs) l))
    else CErr.
  Proof.
    intros Hk Hm. induction xs as [|x xs IH]; intros l; cbn [collect_seq forallb]; [reflexivity|].
    assert (Hc : collect m (map VNum l) n x =
                 if is_nil x then COk (map VNum l)
                 else match scalar_of x with
                      | None => CErr
                      | Some v => COk (map VNum (firstn n (ins_by keep v l)))
                      end).
    { unfold collect. destruct Hm as [-> | ->]; destruct (is_nil x); try reflexivity;
        destruct (scalar_of x); try reflexivity; rewrite Hk, insert_by_map, firstn_map; reflexivity. }
    rewrite Hc. destruct x as [|q|b|s|arr]; cbn [is_nil scalar_of scalar_or_nil andb].
    - apply IH.
    - rewrite IH. reflexivity.
    - destruct b; rewrite IH; reflexivity.
    - reflexivity.
    - reflexivity.
  Qed.

  (** ** What the stable insertion sort is *)

  Hypothesis keep_total : forall a b, keep a b = false -> keep b a = true.
  Hypothesis keep_trans : forall a b c, keep a b = true -> keep b c = true -> keep a c = true.
  Hypothesis keep_compat_r : forall y a b, Qeq_bool a b = true -> keep y a = keep y b.

  Let ord (a b : Q) : Prop := keep a b = true.

  Lemma keep_refl a : keep a a = true.
  Proof. pose proof (keep_total a a) as H. destruct (keep a a); [reflexivity | apply H; reflexivity]. Qed.

  Lemma ins_by_perm x l : Permutation (ins_by keep x l) (x :: l).
  Proof.
    induction l as [|y l IH]; cbn [ins_by]; [apply Permutation_refl|].
    destruct (keep y x); [|apply Permutation_refl].
    eapply Permutation_trans; [apply perm_skip; exact IH | apply perm_swap].
  Qed.

  Lemma sort_by_perm_acc l : forall acc, Permutation (fold_left (fun acc x => ins_by keep x acc) l acc) (acc ++ l).
  Proof.
    induction l as [|x l IH]; intros acc; cbn [fold_left].
    - rewrite app_nil_r. apply Permutation_refl.
    - eapply Permutation_trans; [apply IH|].
      eapply Permutation_trans; [apply Permutation_app_tail; apply ins_by_perm|].
      cbn [app]. apply Permutation_middle.
  Qed.

  Lemma sort_by_perm l : Permutation (sort_by keep l) l.
  Proof. unfold sort_by. apply (sort_by_perm_acc l []). Qed.

  Lemma Forall_ins (P : Q -> Prop) x l : P x -> Forall P l -> Forall P (ins_by keep x l).
  Proof.
    intros Hx Hl. eapply Permutation_Forall; [apply Permutation_sym; apply ins_by_perm|].
    constructor; assumption.
  Qed.

  Lemma ins_by_sorted x l : StronglySorted ord l -> StronglySorted ord (ins_by keep x l).
  Proof.
    induction l as [|y l IH]; intros Hs; cbn [ins_by].
    - constructor; constructor.
    - inversion Hs as [|? ? Hl Hy]; subst. destruct (keep y x) eqn:E.
      + constructor; [apply IH; assumption|]. apply Forall_ins; assumption.
      + constructor; [assumption|]. pose proof (keep_total _ _ E) as Hxy.
        constructor; [exact Hxy|].
        eapply Forall_impl; [|exact Hy]. intros z Hz. exact (keep_trans _ _ _ Hxy Hz).
  Qed.

  Lemma sort_by_sorted_acc l : forall acc, StronglySorted ord acc ->
    StronglySorted ord (fold_left (fun acc x => ins_by keep x acc) l acc).
  Proof.
    induction l as [|x l IH]; intros acc Ha; cbn [fold_left]; [assumption|].
    apply IH. apply ins_by_sorted. assumption.
  Qed.

  Lemma sort_by_sorted l : StronglySorted ord (sort_by keep l).
  Proof. apply sort_by_sorted_acc. constructor. Qed.

  (** Stability: the elements equal to [q] keep their order of arrival. *)
  Lemma Qeq_bool_trans_sym q x z : Qeq_bool q x = true -> Qeq_bool q z = true -> Qeq_bool z x = true.
  Proof.
    rewrite !Qeq_bool_iff. intros H1 H2. rewrite <- H2. exact H1.
  Qed.

  Lemma ins_by_stable q x l : StronglySorted ord l ->
    equal_to q (ins_by keep x l) = if Qeq_bool q x then equal_to q l ++ [x] else equal_to q l.
  Proof.
    unfold equal_to. induction l as [|y l IH]; intros Hs; cbn [ins_by filter].
    - destruct (Qeq_bool q x); reflexivity.
    - inversion Hs as [|? ? Hl Hy]; subst. destruct (keep y x) eqn:E.
      + cbn [filter]. rewrite (IH Hl). destruct (Qeq_bool q y), (Qeq_bool q x); reflexivity.
      + cbn [filter]. destruct (Qeq_bool q x) eqn:Eqx; [|reflexivity].
        (* nothing from y on is equal to x *)
        assert (Hnone : forall z, z = y \/ In z l -> Qeq_bool q z = false).
        { intros z Hz. destruct (Qeq_bool q z) eqn:Eqz; [|reflexivity]. exfalso.
          pose proof (Qeq_bool_trans_sym _ _ _ Eqx Eqz) as Hzx.
          assert (Hyz : keep y z = true).
          { destruct Hz as [->|Hz]; [apply keep_refl|]. rewrite Forall_forall in Hy. apply Hy; assumption. }
          rewrite (keep_compat_r y z x Hzx) in Hyz. congruence. }
        rewrite (Hnone y (or_introl eq_refl)).
        assert (Hf : filter (Qeq_bool q) l = []).
        { clear - Hnone. induction l as [|z l IH]; [reflexivity|]. cbn [filter].
          rewrite (Hnone z (or_intror (or_introl eq_refl))). apply IH.
          intros w [->|Hw]; apply Hnone; [left; reflexivity | right; right; assumption]. }
        rewrite Hf. reflexivity.
  Qed.

  Lemma sort_by_stable_acc q l : forall acc, StronglySorted ord acc ->
    equal_to q (fold_left (fun acc x => ins_by keep x acc) l acc) = equal_to q acc ++ equal_to q l.
  Proof.
    induction l as [|x l IH]; intros acc Ha; cbn [fold_left].
    - unfold equal_to at 3. cbn [filter]. rewrite app_nil_r. reflexivity.
    - rewrite IH by (apply ins_by_sorted; assumption). rewrite (ins_by_stable q x acc Ha).
      change (equal_to q (x :: l)) with (if Qeq_bool q x then x :: equal_to q l else equal_to q l).
      destruct (Qeq_bool q x); [rewrite <- app_assoc|]; reflexivity.
  Qed.

  Lemma sort_by_stable q l : equal_to q (sort_by keep l) = equal_to q l.
  Proof. unfold sort_by. rewrite sort_by_stable_acc by constructor. reflexivity. Qed.
End InsBy.

Lemma qge_total a b : qge a b = false -> qge b a = true.
Proof.
  unfold qge. intros H. apply Qle_bool_iff. destruct (Qlt_le_dec a b) as [L|L]; [apply Qlt_le_weak; exact L|].
  apply Qle_bool_iff in L. congruence.
Qed.
Lemma qge_trans a b c : qge a b = true -> qge b c = true -> qge a c = true.
Proof. unfold qge. rewrite !Qle_bool_iff. intros H1 H2. eapply Qle_trans; eassumption. Qed.
Lemma qge_compat y a b : Qeq_bool a b = true -> qge y a = qge y b.
Proof. unfold qge. rewrite Qeq_bool_iff. intros H. rewrite H. reflexivity. Qed.

Lemma qle_total a b : qle a b = false -> qle b a = true.
Proof.
  unfold qle. intros H. apply Qle_bool_iff. destruct (Qlt_le_dec b a) as [L|L]; [apply Qlt_le_weak; exact L|].
  apply Qle_bool_iff in L. congruence.
Qed.
Lemma qle_trans a b c : qle a b = true -> qle b c = true -> qle a c = true.
Proof. unfold qle. rewrite !Qle_bool_iff. intros H1 H2. eapply Qle_trans; eassumption. Qed.
Lemma qle_compat y a b : Qeq_bool a b = true -> qle y a = qle y b.
Proof. unfold qle. rewrite Qeq_bool_iff. intros H. rewrite H. reflexivity. Qed.

(** [top N]: on numeric / boolean / nil values, never an error or a panic,
    and the result is the N first of the stable descending sort; any other
    value (a string, an array) is an error — exactly then. *)
Theorem top_spec n xs :
  collect_seq ATop n [] xs =
  if forallb scalar_or_nil xs then COk (map VNum (firstn n (sort_desc (nums xs)))) else CErr.
Proof.
  pose proof (collect_seq_sorted qge ATop n xs eq_refl (or_introl eq_refl) []) as H.
  cbn [map] in H. rewrite H. clear H.
  destruct (forallb scalar_or_nil xs); [|reflexivity].
  pose proof (trunc_fold qge n (nums xs) []) as H. rewrite firstn_nil in H. rewrite H. reflexivity.
Qed.

Theorem bottom_spec n xs :
  collect_seq ABottom n [] xs =
  if forallb scalar_or_nil xs then COk (map VNum (firstn n (sort_asc (nums xs)))) else CErr.
Proof.
  pose proof (collect_seq_sorted qle ABottom n xs eq_refl (or_intror eq_refl) []) as H.
  cbn [map] in H. rewrite H. clear H.
  destruct (forallb scalar_or_nil xs); [|reflexivity].
  pose proof (trunc_fold qle n (nums xs) []) as H. rewrite firstn_nil in H. rewrite H. reflexivity.
Qed.

Theorem sort_desc_perm l : Permutation (sort_desc l) l.
Proof. apply sort_by_perm. Qed.
Theorem sort_asc_perm l : Permutation (sort_asc l) l.
Proof. apply sort_by_perm. Qed.

Theorem sort_desc_sorted l : StronglySorted (fun a b => (b <= a)%Q) (sort_desc l).
Proof.
  pose proof (sort_by_sorted qge qge_total qge_trans l) as H.
  eapply StronglySorted_ind with (P := StronglySorted (fun a b => (b <= a)%Q)); [constructor| |exact H].
  intros a l0 _ IH Hf. constructor; [exact IH|].
  eapply Forall_impl; [|exact Hf]. intros b Hb. unfold qge in Hb. apply Qle_bool_iff. exact Hb.
Qed.

Theorem sort_asc_sorted l : StronglySorted Qle (sort_asc l).
Proof.
  pose proof (sort_by_sorted qle qle_total qle_trans l) as H.
  eapply StronglySorted_ind with (P := StronglySorted Qle); [constructor| |exact H].
  intros a l0 _ IH Hf. constructor; [exact IH|].
  eapply Forall_impl; [|exact Hf]. intros b Hb. unfold qle in Hb. apply Qle_bool_iff. exact Hb.
Qed.

Theorem sort_desc_stable q l : equal_to q (sort_desc l) = equal_to q l.
Proof. apply (sort_by_stable qge qge_total qge_trans qge_compat). Qed.
Theorem sort_asc_stable q l : equal_to q (sort_asc l) = equal_to q l.
Proof. apply (sort_by_stable qle qle_total qle_trans qle_compat). Qed.

(** Splitting the value sequence into activation periods changes nothing:
    the array is simply carried from one period to the next. *)
Theorem collect_seq_app m n xs ys a :
  collect_seq m n a (xs ++ ys) =
  match collect_seq m n a xs with COk a' => collect_seq m n a' ys | r => r end.
Proof.
  revert a. induction xs as [|x xs IH]; intros a; cbn [app collect_seq]; [reflexivity|].
  destruct (collect m a n x); [apply IH | reflexivity | reflexivity].
Qed.

Theorem collect_seq_periods m n : forall (periods : list (list value)) a,
  collect_seq m n a (List.concat periods) =
  fold_left (fun r p => match r with COk a' => collect_seq m n a' p | r => r end) periods (COk a).
Proof.
  induction periods as [|p ps IH]; intros a; cbn [List.concat fold_left]; [reflexivity|].
  rewrite collect_seq_app. destruct (collect_seq m n a p) as [a'| |]; [apply IH| |].
  - clear. induction ps; [reflexivity | assumption].
  - clear. induction ps; [reflexivity | assumption].
Qed.

(** * Arrays built by collects never contain nil *)

Lemma nil_free_app a b : nil_free (a ++ b) = nil_free a && nil_free b.
Proof. unfold nil_free. induction a; cbn; [reflexivity|]. rewrite IHa. apply andb_assoc. Qed.

Lemma nil_free_firstn n a : nil_free a = true -> nil_free (firstn n a) = true.
Proof.
  unfold nil_free. revert n. induction a as [|x a IH]; intros [|n]; cbn; try reflexivity.
  intros H. apply andb_true_iff in H. destruct H as [Hx Ha]. rewrite Hx. apply IH; assumption.
Qed.

Lemma nil_free_tl a : nil_free a = true -> nil_free (tl a) = true.
Proof. destruct a; cbn; [reflexivity|]. intros H. apply andb_true_iff in H. apply H. Qed.

Lemma insert_by_nil_free keep a x r : nil_free a = true -> insert_by keep a x = Some r -> nil_free r = true.
Proof.
  revert r. induction a as [|y a IH]; intros r Ha; cbn [insert_by].
  - intros H; inversion H; reflexivity.
  - destruct y; try discriminate. cbn in Ha. destruct (keep q x).
    + destruct (insert_by keep a x) as [r'|]; [|discriminate]. intros H; inversion H; subst.
      cbn. apply (IH r' Ha eq_refl).
    + intros H; inversion H; subst. cbn. exact Ha.
Qed.

Theorem collect_never_nil m a n x r :
  nil_free a = true -> collect m a n x = COk r -> nil_free r = true.
Proof.
  intros Ha. unfold collect. destruct m.
  - intros H; inversion H; subst; assumption.
  - destruct (is_nil x || Nat.leb n (List.length a)) eqn:E; intros H; inversion H; subst; [assumption|].
    apply orb_false_iff in E. destruct E as [En _].
    rewrite nil_free_app, Ha. cbn. rewrite En. reflexivity.
  - destruct (is_nil x) eqn:En; intros H; inversion H; subst; [assumption|].
    rewrite nil_free_app. cbn. rewrite En. cbn. rewrite andb_true_r.
    destruct (Nat.leb n (List.length a)); [apply nil_free_tl|]; assumption.
  - destruct (is_nil x); [intros H; inversion H; subst; assumption|].
    destruct (scalar_of x); [|discriminate].
    destruct (insert_by qge a q) as [r'|] eqn:Ei; [|discriminate].
    intros H; inversion H; subst. apply nil_free_firstn. eapply insert_by_nil_free; eassumption.
  - destruct (is_nil x); [intros H; inversion H; subst; assumption|].
    destruct (scalar_of x); [|discriminate].
    destruct (insert_by qle a q) as [r'|] eqn:Ei; [|discriminate].
    intros H; inversion H; subst. apply nil_free_firstn. eapply insert_by_nil_free; eassumption.
Qed.

Theorem collected_never_nil m n xs : forall a r,
  nil_free a = true -> collect_seq m n a xs = COk r -> nil_free r = true.
Proof.
  induction xs as [|x xs IH]; intros a r Ha; cbn [collect_seq].
  - intros H; inversion H; subst; assumption.
  - destruct (collect m a n x) as [a'| |] eqn:E; try discriminate.
    apply IH. eapply collect_never_nil; eassumption.
Qed.

(** * The array functions *)

Lemma nums_non_nil xs : nums (non_nil xs) = nums xs.
Proof.
  induction xs as [|x xs IH]; [reflexivity|]. destruct (is_nil x) eqn:E.
  - rewrite (non_nil_cons_nil _ _ E). destruct x; try discriminate. exact IH.
  - rewrite (non_nil_cons _ _ E). unfold nums in *. cbn [flat_map]. rewrite IH. reflexivity.
Qed.

(** The Go loops skip nil and accept numbers and booleans; anything else is an
    error. *)
Lemma scalars_nums args :
  scalars args = if forallb scalar_or_nil args then Some (nums args) else None.
Proof.
  induction args as [|x args IH]; [reflexivity|].
  cbn [scalars forallb]. rewrite IH.
  destruct x as [|q|b|s|arr]; cbn [is_nil scalar_of scalar_or_nil andb]; try reflexivity.
  - destruct (forallb scalar_or_nil args); reflexivity.
  - destruct b; destruct (forallb scalar_or_nil args); reflexivity.
Qed.

(** ** sum, avg *)

Lemma fold_left_Qplus_acc l : forall a, (fold_left Qplus l a == a + fold_right Qplus 0 l)%Q.
Proof.
  induction l as [|x l IH]; intros a; cbn [fold_left fold_right].
  - ring.
  - rewrite IH. ring.
Qed.

Theorem qsum_is_sum l : (qsum l == qsum_r l)%Q.
Proof. unfold qsum, qsum_r. rewrite fold_left_Qplus_acc. ring. Qed.

Theorem qsum_r_perm l l' : Permutation l l' -> (qsum_r l == qsum_r l')%Q.
Proof.
  unfold qsum_r. induction 1; cbn [fold_right].
  - reflexivity.
  - rewrite IHPermutation. reflexivity.
  - ring.
  - rewrite IHPermutation1. exact IHPermutation2.
Qed.

Theorem sum_spec args :
  forallb scalar_or_nil args = true ->
  apply_fn "sum" args = match nums args with [] => FOk VNil | l => FOk (VNum (qsum l)) end.
Proof.
  intros H. change (apply_fn "sum" args) with
    (match scalars args with None => FErr | Some [] => FOk VNil | Some l => FOk (VNum (qsum l)) end).
  rewrite scalars_nums, H. destruct (nums args); reflexivity.
Qed.

Theorem avg_spec args :
  forallb scalar_or_nil args = true ->
  apply_fn "avg" args = match nums args with
                        | [] => FOk VNil
                        | l => FOk (VNum (qsum l / inject_Z (Z.of_nat (List.length l))))
                        end.
Proof.
  intros H. change (apply_fn "avg" args) with
    (match scalars args with None => FErr | Some [] => FOk VNil
                        | Some l => FOk (VNum (qsum l / inject_Z (Z.of_nat (List.length l)))) end).
  rewrite scalars_nums, H. destruct (nums args); reflexivity.
Qed.

(** A string or an array among the arguments: an error, for every one of the
    numeric array functions. *)
Theorem numeric_fn_error args f :
  forallb scalar_or_nil args = false ->
  In f ["sum"; "avg"; "average"; "med"; "median"; "min"; "max"]%string ->
  apply_fn f args = FErr.
Proof.
  intros H Hf. assert (Hs : scalars args = None) by (rewrite scalars_nums, H; reflexivity).
  cbn [In] in Hf.
  repeat (destruct Hf as [<-|Hf];
          [match goal with |- apply_fn ?g _ = _ =>
             let t := eval cbv beta iota delta [apply_fn String.eqb Ascii.eqb Bool.eqb orb] in (apply_fn g args) in
             change (apply_fn g args) with t end; rewrite Hs; reflexivity|]).
  destruct Hf.
Qed.

(** ** min, max *)

Lemma qmin_fold tl : forall x,
  let r := fold_left (fun m y => if Qlt_le_dec y m then y else m) tl x in
  (r = x \/ In r tl) /\ (r <= x)%Q /\ Forall (fun y => (r <= y)%Q) tl.
Proof.
  induction tl as [|y tl IH]; intros x; cbn [fold_left].
  - split; [left; reflexivity|]. split; [apply Qle_refl | constructor].
  - destruct (Qlt_le_dec y x) as [L|L].
    + destruct (IH y) as (Hin & Hle & Hall). cbn zeta in *. split; [|split].
      * destruct Hin as [->|Hin]; right; [left; reflexivity | right; assumption].
      * eapply Qle_trans; [exact Hle | apply Qlt_le_weak; exact L].
      * constructor; assumption.
    + destruct (IH x) as (Hin & Hle & Hall). cbn zeta in *. split; [|split].
      * destruct Hin as [->|Hin]; [left; reflexivity | right; right; assumption].
      * exact Hle.
      * constructor; [eapply Qle_trans; eassumption | assumption].
Qed.

Lemma qmax_fold tl : forall x,
  let r := fold_left (fun m y => if Qlt_le_dec m y then y else m) tl x in
  (r = x \/ In r tl) /\ (x <= r)%Q /\ Forall (fun y => (y <= r)%Q) tl.
Proof.
  induction tl as [|y tl IH]; intros x; cbn [fold_left].
  - split; [left; reflexivity|]. split; [apply Qle_refl | constructor].
  - destruct (Qlt_le_dec x y) as [L|L].
    + destruct (IH y) as (Hin & Hle & Hall). cbn zeta in *. split; [|split].
      * destruct Hin as [->|Hin]; right; [left; reflexivity | right; assumption].
      * eapply Qle_trans; [apply Qlt_le_weak; exact L | exact Hle].
      * constructor; assumption.
    + destruct (IH x) as (Hin & Hle & Hall). cbn zeta in *. split; [|split].
      * destruct Hin as [->|Hin]; [left; reflexivity | right; right; assumption].
      * exact Hle.
      * constructor; [eapply Qle_trans; eassumption | assumption].
Qed.

Theorem qmin_list_spec l : match qmin_list l with
                           | None => l = []
                           | Some m => is_min m l
                           end.
Proof.
  destruct l as [|x tl]; [reflexivity|]. cbn [qmin_list].
  destruct (qmin_fold tl x) as (Hin & Hle & Hall). cbn zeta in *. split.
  - destruct Hin as [->|Hin]; [left; reflexivity | right; assumption].
  - constructor; assumption.
Qed.

Theorem qmax_list_spec l : match qmax_list l with
                           | None => l = []
                           | Some m => is_max m l
                           end.
Proof.
  destruct l as [|x tl]; [reflexivity|]. cbn [qmax_list].
  destruct (qmax_fold tl x) as (Hin & Hle & Hall). cbn zeta in *. split.
  - destruct Hin as [->|Hin]; [left; reflexivity | right; assumption].
  - constructor; assumption.
Qed.

Theorem min_spec args :
  forallb scalar_or_nil args = true ->
  match nums args with
  | [] => apply_fn "min" args = FOk VNil
  | l => exists m, apply_fn "min" args = FOk (VNum m) /\ is_min m l
  end.
Proof.
  intros H. change (apply_fn "min" args) with
    (match scalars args with None => FErr | Some l => num_or_nil (qmin_list l) end).
  rewrite scalars_nums, H. pose proof (qmin_list_spec (nums args)) as Hm.
  destruct (nums args) as [|x tl]; [reflexivity|].
  destruct (qmin_list (x :: tl)) as [m|]; [|discriminate].
  exists m. split; [reflexivity | exact Hm].
Qed.

Theorem max_spec args :
  forallb scalar_or_nil args = true ->
  match nums args with
  | [] => apply_fn "max" args = FOk VNil
  | l => exists m, apply_fn "max" args = FOk (VNum m) /\ is_max m l
  end.
Proof.
  intros H. change (apply_fn "max" args) with
    (match scalars args with None => FErr | Some l => num_or_nil (qmax_list l) end).
  rewrite scalars_nums, H. pose proof (qmax_list_spec (nums args)) as Hm.
  destruct (nums args) as [|x tl]; [reflexivity|].
  destruct (qmax_list (x :: tl)) as [m|]; [|discriminate].
  exists m. split; [reflexivity | exact Hm].
Qed.

(** ** med *)

Lemma qinsert_perm x l : Permutation (qinsert x l) (x :: l).
Proof.
  induction l as [|y l IH]; cbn [qinsert]; [apply Permutation_refl|].
  destruct (Qle_bool x y); [apply Permutation_refl|].
  eapply Permutation_trans; [apply perm_skip; exact IH | apply perm_swap].
Qed.

Theorem qsort_perm l : Permutation (qsort l) l.
Proof.
  unfold qsort. induction l as [|x l IH]; cbn [fold_right]; [constructor|].
  eapply Permutation_trans; [apply qinsert_perm | apply perm_skip; exact IH].
Qed.

Lemma qinsert_sorted x l : Sorted Qle l -> Sorted Qle (qinsert x l).
Proof.
  induction l as [|y l IH]; intros Hs; cbn [qinsert].
  - constructor; constructor.
  - destruct (Qle_bool x y) eqn:E.
    + constructor; [assumption|]. constructor. apply Qle_bool_iff. exact E.
    + apply Sorted_inv in Hs. destruct Hs as [Hl Hy].
      assert (Hyx : (y <= x)%Q).
      { destruct (Qlt_le_dec y x) as [L|L]; [apply Qlt_le_weak; exact L|].
        apply Qle_bool_iff in L. congruence. }
      constructor; [apply IH; assumption|].
      destruct l as [|z l]; cbn [qinsert].
      * constructor. exact Hyx.
      * destruct (Qle_bool x z); constructor; [exact Hyx|]. inversion Hy; assumption.
Qed.

Theorem qsort_sorted l : sorted_le (qsort l).
Proof.
  unfold sorted_le, qsort. induction l as [|x l IH]; cbn [fold_right]; [constructor|].
  apply qinsert_sorted. exact IH.
Qed.

Lemma qsort_length l : List.length (qsort l) = List.length l.
Proof. apply Permutation_length. apply qsort_perm. Qed.

Theorem qmedian_spec l :
  match qmedian l with
  | None => l = []
  | Some r => median_of_sorted (qsort l) r
  end.
Proof.
  unfold qmedian, median_of_sorted. pose proof (qsort_length l) as Hlen.
  destruct (List.length (qsort l)) as [|k] eqn:En.
  - destruct l; [reflexivity | discriminate].
  - set (n := S k) in *. destruct (Nat.odd n) eqn:Eo.
    + destruct (nth_error (qsort l) ((n - 1) / 2)) as [r|] eqn:E1; [reflexivity|].
      exfalso. apply nth_error_None in E1. rewrite En in E1.
      assert ((n - 1) / 2 <= n - 1)%nat by (apply Nat.div_le_upper_bound; lia). lia.
    + assert (Hk : (2 <= n)%nat).
      { destruct k as [|k']; [subst n; discriminate | subst n; lia]. }
      assert (H2 : (n / 2 < n)%nat) by (apply Nat.div_lt; lia).
      destruct (nth_error (qsort l) (n / 2 - 1)) as [a|] eqn:E1.
      * destruct (nth_error (qsort l) (n / 2)) as [b|] eqn:E2.
        -- exists a, b. repeat split; reflexivity.
        -- exfalso. apply nth_error_None in E2. rewrite En in E2. lia.
      * exfalso. apply nth_error_None in E1. rewrite En in E1. lia.
Qed.

Theorem med_spec args :
  forallb scalar_or_nil args = true ->
  match nums args with
  | [] => apply_fn "med" args = FOk VNil
  | l => exists r, apply_fn "med" args = FOk (VNum r) /\ median_of_sorted (qsort l) r
  end.
Proof.
  intros H. change (apply_fn "med" args) with
    (match scalars args with None => FErr | Some l => num_or_nil (qmedian l) end).
  rewrite scalars_nums, H. pose proof (qmedian_spec (nums args)) as Hm.
  destruct (nums args) as [|x tl]; [reflexivity|].
  destruct (qmedian (x :: tl)) as [r|]; [|discriminate].
  exists r. split; [reflexivity | exact Hm].
Qed.

(** ** count, first, last, sorted: the code counts and returns nil elements *)

Theorem count_is_length args : apply_fn "count" args = FOk (VNum (inject_Z (Z.of_nat (List.length args)))).
Proof. reflexivity. Qed.

Lemma non_nil_id args : nil_free args = true -> non_nil args = args.
Proof.
  unfold nil_free, non_nil. induction args as [|x args IH]; [reflexivity|]. cbn [forallb filter].
  intros H. apply andb_true_iff in H. destruct H as [Hx Ha]. rewrite Hx, (IH Ha). reflexivity.
Qed.

Theorem count_partial args :
  nil_free args = true ->
  apply_fn "count" args = FOk (VNum (inject_Z (Z.of_nat (List.length (non_nil args))))).
Proof. intros H. rewrite (non_nil_id _ H). reflexivity. Qed.

Theorem count_refuted :
  exists args, apply_fn "count" args <> FOk (VNum (inject_Z (Z.of_nat (List.length (non_nil args))))).
Proof. exists [VNil; VNum 1]. vm_compute. discriminate. Qed.

Theorem first_partial args :
  nil_free args = true -> apply_fn "first" args = FOk (hd VNil (non_nil args)).
Proof. intros H. rewrite (non_nil_id _ H). destruct args; reflexivity. Qed.

Theorem first_refuted : exists args, apply_fn "first" args <> FOk (hd VNil (non_nil args)).
Proof. exists [VNil; VNum 1]. vm_compute. discriminate. Qed.

Theorem last_partial args :
  nil_free args = true -> apply_fn "last" args = FOk (last (non_nil args) VNil).
Proof. intros H. rewrite (non_nil_id _ H). reflexivity. Qed.

Theorem last_refuted : exists args, apply_fn "last" args <> FOk (last (non_nil args) VNil).
Proof. exists [VNum 1; VNil]. vm_compute. discriminate. Qed.

Definition sorted_result (l : list value) : value := match l with [] => VNil | _ => VArr (vsort l) end.

Theorem sorted_partial args :
  nil_free args = true -> apply_fn "sorted" args = FOk (sorted_result (non_nil args)).
Proof. intros H. rewrite (non_nil_id _ H). reflexivity. Qed.

Theorem sorted_refuted : exists args, apply_fn "sorted" args <> FOk (sorted_result (non_nil args)).
Proof. exists [VNil; VNum 1]. vm_compute. discriminate. Qed.

(** [vsort] is a sorted permutation for sortArray's order (nils, scalars by
    value with booleans as 0/1, strings, the rest): no element is strictly
    less than one standing before it. *)
Lemma vinsert_perm x l : Permutation (vinsert x l) (x :: l).
Proof.
  induction l as [|y l IH]; cbn [vinsert]; [apply Permutation_refl|].
  destruct (vless y x); [|apply Permutation_refl].
  eapply Permutation_trans; [apply perm_skip; exact IH | apply perm_swap].
Qed.

Theorem vsort_perm l : Permutation (vsort l) l.
Proof.
  unfold vsort. induction l as [|x l IH]; cbn [fold_right]; [constructor|].
  eapply Permutation_trans; [apply vinsert_perm | apply perm_skip; exact IH].
Qed.

Lemma string_compare_lt_asym a b : String.compare a b = Lt -> String.compare b a <> Lt.
Proof. intros H. rewrite String.compare_antisym, H. discriminate. Qed.

Lemma qlt_asym a b : negb (Qle_bool b a) = true -> negb (Qle_bool a b) = false.
Proof.
  intros H. apply negb_true_iff in H. apply negb_false_iff. apply Qle_bool_iff.
  destruct (Qlt_le_dec a b) as [L|L]; [apply Qlt_le_weak; exact L | apply Qle_bool_iff in L; congruence].
Qed.

Lemma vless_asym x y : vless x y = true -> vless y x = false.
Proof.
  destruct x as [|p|[|]|s|l], y as [|q|[|]|t|m]; cbn; try congruence; try apply qlt_asym.
  destruct (String.compare s t) eqn:E; try discriminate. intros _.
  rewrite String.compare_antisym, E. reflexivity.
Qed.

Lemma vinsert_sorted x l :
  Sorted (fun a b => vless b a = false) l -> Sorted (fun a b => vless b a = false) (vinsert x l).
Proof.
  induction l as [|y l IH]; intros Hs; cbn [vinsert].
  - constructor; constructor.
  - destruct (vless y x) eqn:E.
    + apply Sorted_inv in Hs. destruct Hs as [Hl Hy].
      constructor; [apply IH; assumption|].
      destruct l as [|z l]; cbn [vinsert].
      * constructor. apply vless_asym. exact E.
      * destruct (vless z x); constructor; [inversion Hy; assumption | apply vless_asym; exact E].
    + constructor; [assumption|]. constructor. exact E.
Qed.

Theorem vsort_sorted l : Sorted (fun a b => vless b a = false) (vsort l).
Proof.
  unfold vsort. induction l as [|x l IH]; cbn [fold_right]; [constructor|].
  apply vinsert_sorted. exact IH.
Qed.

(** Empty input: count 0, every other array function nil. *)
Theorem empty_input :
  apply_fn "count" [] = FOk (VNum 0) /\
  Forall (fun f => apply_fn f [] = FOk VNil)
         ["first"; "last"; "sorted"; "sum"; "avg"; "average"; "med"; "median"; "min"; "max";
          "abs"; "floor"; "ceil"; "round"]%string.
Proof. split; [reflexivity|]. repeat constructor. Qed.

(** An input with only nil elements behaves as the empty one for the numeric
    functions. *)
Theorem all_nil_input args f :
  forallb is_nil args = true ->
  In f ["sum"; "avg"; "average"; "med"; "median"; "min"; "max"]%string ->
  apply_fn f args = FOk VNil.
Proof.
  intros H Hf.
  assert (Hs : scalars args = Some []).
  { induction args as [|x args IH]; [reflexivity|]. cbn [forallb] in H. apply andb_true_iff in H.
    destruct H as [Hx Ha]. cbn [scalars]. rewrite Hx. apply IH. exact Ha. }
  cbn [In] in Hf.
  repeat (destruct Hf as [<-|Hf];
          [match goal with |- apply_fn ?g _ = _ =>
             let t := eval cbv beta iota delta [apply_fn String.eqb Ascii.eqb Bool.eqb orb] in (apply_fn g args) in
             change (apply_fn g args) with t end; rewrite Hs; reflexivity|]).
  destruct Hf.
Qed.

(** ** The scalar functions *)

Theorem scalar_fn_nil f : In f ["abs"; "floor"; "ceil"; "round"]%string ->
  apply_fn f [VNil] = FOk VNil /\ apply_fn f [] = FOk VNil.
Proof.
  cbn [In]. intros H. repeat (destruct H as [<-|H]; [split; reflexivity|]). destruct H.
Qed.

Theorem abs_spec x : apply_fn "abs" [VNum x] = FOk (VNum (Qabs x)).
Proof. reflexivity. Qed.

Theorem floor_spec x : exists z : Z,
  apply_fn "floor" [VNum x] = FOk (VNum (inject_Z z)) /\ (inject_Z z <= x < inject_Z (z + 1))%Q.
Proof.
  exists (Qfloor x). split; [reflexivity|]. split; [apply Qfloor_le | apply Qlt_floor].
Qed.

Theorem ceil_spec x : exists z : Z,
  apply_fn "ceil" [VNum x] = FOk (VNum (inject_Z z)) /\ (inject_Z (z - 1) < x <= inject_Z z)%Q.
Proof.
  exists (Qceiling x). split; [reflexivity|]. split; [apply Qceiling_lt | apply Qle_ceiling].
Qed.

(** math.Round: nearest integer, halves away from zero. *)
Theorem round_spec x : exists z : Z,
  apply_fn "round" [VNum x] = FOk (VNum (inject_Z z)) /\
  ((0 <= x)%Q -> (x - (1 # 2) < inject_Z z <= x + (1 # 2))%Q) /\
  ((x < 0)%Q -> (x - (1 # 2) <= inject_Z z < x + (1 # 2))%Q).
Proof.
  change (apply_fn "round" [VNum x]) with (FOk (VNum (qround x))). unfold qround.
  destruct (Qle_bool 0 x) eqn:E.
  - exists (Qfloor (x + (1 # 2))). split; [reflexivity|]. split.
    + intros _. split.
      * pose proof (Qlt_floor (x + (1 # 2))) as H. rewrite inject_Z_plus in H.
        apply Qplus_lt_l with (z := 1%Q). change (inject_Z 1) with 1%Q in H.
        eapply Qle_lt_trans; [|exact H]. ring_simplify. apply Qle_refl.
      * apply Qfloor_le.
    + intros Hx. apply Qle_bool_iff in E. exfalso. apply (Qlt_irrefl 0). eapply Qle_lt_trans; eassumption.
  - exists (Qceiling (x - (1 # 2))). split; [reflexivity|]. split.
    + intros Hx. apply Qle_bool_iff in Hx. congruence.
    + intros _. split.
      * apply Qle_ceiling.
      * pose proof (Qceiling_lt (x - (1 # 2))) as H. unfold Zminus in H. rewrite inject_Z_plus in H.
        change (inject_Z (-1)) with (-1)%Q in H.
        apply Qplus_lt_l with (z := (-1)%Q).
        eapply Qlt_le_trans; [exact H|]. ring_simplify. apply Qle_refl.
Qed.

(** A scalar function applied to anything but one number / one nil: an error. *)
Theorem scalar_fn_error f args :
  In f ["abs"; "floor"; "ceil"; "round"]%string ->
  (forall x, args <> [VNum x]) -> args <> [] -> args <> [VNil] ->
  apply_fn f args = FErr.
Proof.
  intros Hf H1 H2 H3. cbn [In] in Hf.
  repeat (destruct Hf as [<-|Hf];
    [match goal with |- apply_fn ?g _ = _ =>
       let t := eval cbv beta iota delta [apply_fn String.eqb Ascii.eqb Bool.eqb orb] in (apply_fn g args) in
       change (apply_fn g args) with t end;
     unfold scalar_fn; destruct args as [|[|q|b|s|l] [|y tl]]; try reflexivity; try congruence;
     exfalso; eapply H1; reflexivity|]).
  destruct Hf.
Qed.
