(** Proofs about Model/Retry.v (property C17). *)
From Shk Require Import Base.Prelude Model.Retry.
From Coq Require Import Qpower Lqa ZifyBool.
Open Scope Z_scope.

(** ** Back-off arithmetic *)

Lemma Qtrunc_floor x : (0 <= x)%Q -> Qtrunc x = Qfloor x.
Proof.
  destruct x as [n d]. unfold Qle, Qtrunc, Qfloor. cbn [Qnum Qden]. intros H.
  apply Z.quot_div_nonneg; lia.
Qed.

Lemma raw_backoff_eq o n :
  (raw_backoff o n == inject_Z (init_backoff o) * multiplier o ^ n)%Q.
Proof. unfold raw_backoff. reflexivity. Qed.

Lemma raw_backoff_nonneg o n : wf_opts o -> (0 <= raw_backoff o n)%Q.
Proof.
  intros (Hi & _ & Hm & _). rewrite raw_backoff_eq.
  apply Qmult_le_0_compat; [|apply Qpower_0_le; exact Hm].
  change 0%Q with (inject_Z 0). rewrite <- Zle_Qle. exact Hi.
Qed.

(** backoff n = min(Initial * Multiplier^n, Max) *)
Lemma backoff_is_min o n :
  (backoff o n == Qmin (inject_Z (init_backoff o) * multiplier o ^ n) (inject_Z (max_backoff o)))%Q.
Proof.
  unfold backoff. rewrite <- raw_backoff_eq.
  destruct (Qle_bool (raw_backoff o n) (inject_Z (max_backoff o))) eqn:E.
  - apply Qle_bool_iff in E. symmetry. apply Q.min_l. exact E.
  - assert (H : ~ (raw_backoff o n <= inject_Z (max_backoff o))%Q).
    { intros H. apply Qle_bool_iff in H. congruence. }
    symmetry. apply Q.min_r. apply Qlt_le_weak. apply Qnot_le_lt. exact H.
Qed.

Lemma backoff_le_max o n : (backoff o n <= inject_Z (max_backoff o))%Q.
Proof. rewrite backoff_is_min. apply Q.le_min_r. Qed.

Lemma backoff_nonneg o n : wf_opts o -> (0 <= backoff o n)%Q.
Proof.
  intros H. pose proof (raw_backoff_nonneg o n H) as Hr. destruct H as (_ & Hmx & _).
  unfold backoff. destruct (Qle_bool _ _); [exact Hr|].
  change 0%Q with (inject_Z 0). rewrite <- Zle_Qle. exact Hmx.
Qed.

(** The jitter formula stays inside [b - rf*b, b + rf*b + 1) and its floor
    inside the whole-nanosecond band. *)
Lemma jitter_band b rf u :
  (0 <= b)%Q -> (0 <= rf)%Q -> (rf <= 1)%Q -> (0 <= u)%Q -> (u < 1)%Q ->
  Qfloor (b - rf * b) <= jitter b rf u <= Qceiling (b + rf * b) /\
  (b - rf * b - 1 < inject_Z (jitter b rf u))%Q /\
  (inject_Z (jitter b rf u) < b + rf * b + 1)%Q /\
  0 <= jitter b rf u.
Proof.
  intros Hb Hrf Hrf1 Hu Hu1. unfold jitter, jitter_at.
  set (d := (rf * b)%Q).
  set (x := (b - d + u * ((2 # 1) * d + 1))%Q).
  assert (Hd : (0 <= d)%Q) by (unfold d; nra).
  assert (Hdb : (d <= b)%Q) by (unfold d; nra).
  assert (Hlo : (b - d <= x)%Q) by (unfold x; nra).
  assert (Hhi : (x < b + d + 1)%Q) by (unfold x; nra).
  assert (Hx : (0 <= x)%Q) by nra.
  rewrite (Qtrunc_floor x Hx).
  pose proof (Qfloor_le x) as F1. pose proof (Qlt_floor x) as F2.
  pose proof (Qle_ceiling (b + d)) as C1.
  assert (Hup : Qfloor x <= Qceiling (b + d)).
  { assert (H : (inject_Z (Qfloor x) < inject_Z (Qceiling (b + d) + 1))%Q).
    { rewrite inject_Z_plus. change (inject_Z 1) with 1%Q. nra. }
    rewrite <- Zlt_Qlt in H. lia. }
  repeat split.
  - apply Qfloor_resp_le. exact Hlo.
  - exact Hup.
  - rewrite inject_Z_plus in F2. change (inject_Z 1) with 1%Q in F2. nra.
  - nra.
  - change 0 with (Qfloor 0). apply Qfloor_resp_le. exact Hx.
Qed.

Lemma band o n u :
  wf_opts o -> (0 <= u)%Q -> (u < 1)%Q ->
  lo o n <= retry_in o n u <= hi o n.
Proof.
  intros H Hu Hu1. pose proof (backoff_nonneg o n H) as Hb.
  destruct H as (_ & _ & _ & Hrf & Hrf1).
  unfold lo, hi, retry_in. apply (jitter_band _ _ _ Hb Hrf Hrf1 Hu Hu1).
Qed.

Lemma band_Q o n u :
  wf_opts o -> (0 <= u)%Q -> (u < 1)%Q ->
  let b := backoff o n in let rf := rand_factor o in
  (b - rf * b - 1 < inject_Z (retry_in o n u))%Q /\ (inject_Z (retry_in o n u) < b + rf * b + 1)%Q.
Proof.
  intros H Hu Hu1. pose proof (backoff_nonneg o n H) as Hb.
  destruct H as (_ & _ & _ & Hrf & Hrf1). cbv zeta.
  unfold retry_in. split; apply (jitter_band _ _ _ Hb Hrf Hrf1 Hu Hu1).
Qed.

Lemma lo_nonneg o n : wf_opts o -> 0 <= lo o n.
Proof.
  intros H. pose proof (backoff_nonneg o n H) as Hb. destruct H as (_ & _ & _ & Hrf & Hrf1).
  unfold lo. change 0 with (Qfloor 0). apply Qfloor_resp_le. nra.
Qed.

Lemma lo_le_hi_cap o n : wf_opts o ->
  (inject_Z (hi o n) < inject_Z (max_backoff o) + rand_factor o * inject_Z (max_backoff o) + 1)%Q.
Proof.
  intros H. pose proof (backoff_nonneg o n H) as Hb. pose proof (backoff_le_max o n) as Hm.
  destruct H as (_ & _ & _ & Hrf & Hrf1). unfold hi.
  pose proof (Qceiling_lt (backoff o n + rand_factor o * backoff o n)) as C.
  unfold Z.sub in C. rewrite inject_Z_plus in C. change (inject_Z (- (1))) with (Qmake (-1) 1) in C.
  assert (P : (rand_factor o * backoff o n <= rand_factor o * inject_Z (max_backoff o))%Q).
  { rewrite !(Qmult_comm (rand_factor o)). apply Qmult_le_compat_r; assumption. }
  lra.
Qed.

(** The defaulting of StartWithCtx keeps an option set well formed. *)
Lemma normalize_wf o : wf_opts o -> wf_opts (normalize o).
Proof.
  intros (Hi & Hm & Hmu & Hrf & Hrf1). unfold wf_opts, normalize. cbn.
  repeat split.
  - destruct (init_backoff o =? 0); lia.
  - destruct (max_backoff o =? 0); lia.
  - destruct (q_is_zero (multiplier o)); [discriminate | exact Hmu].
  - destruct (q_is_zero (rand_factor o)); [discriminate | exact Hrf].
  - destruct (q_is_zero (rand_factor o)); [unfold default_rand_factor, Qle; cbn; lia | exact Hrf1].
Qed.
