(** wf_state is an invariant: replacing a member, checkExpr forwards (C10). *)
From Coq Require Import String Permutation.
From Shk Require Import Base.Prelude Model.Storyline Model.Config.
From Shk Require Import Proofs.ConfigText Proofs.ConfigRoles Proofs.ConfigCast Proofs.ConfigExpr Proofs.ConfigHyps Proofs.ConfigSame Proofs.ConfigInvariant Proofs.ConfigInvRoles Proofs.ConfigInvScenes.
Open Scope Z_scope.

(** * Audience clauses keep the state well-formed *)

Lemma NoDup_nodup_v l : NoDup l -> nodup_v l = true.
Proof.
  induction 1 as [|x l Hx Hl IH]; cbn; [reflexivity|]. rewrite IH, andb_true_r. apply negb_true_iff.
  destruct (existsb (vname_eqb x) l) eqn:E; [|reflexivity]. apply existsb_vname_In in E. contradiction.
Qed.

Lemma reg_In_rev deps : forall o x,
  (In x o \/ (In x deps /\ is_nil (fst x) = false)) -> In x (reg o deps).
Proof.
  unfold reg. induction deps as [|d deps IH]; intros o x H; cbn [fold_left].
  - destruct H as [H|[[] _]]. exact H.
  - apply IH. destruct H as [H|[[->|H] Hn]].
    + left. unfold reg1. destruct d as [da dg]. cbn [fst]. destruct (is_nil da); [exact H|]. apply add_obs_In. auto.
    + left. unfold reg1. destruct x as [xa xg]. cbn [fst] in *. rewrite Hn. apply add_obs_In. auto.
    + right. auto.
Qed.

Lemma put_member_names aud m :
  map m_name (put_member aud m) =
  if mem_bytes (m_name m) (map m_name aud) then map m_name aud else map m_name aud ++ [m_name m].
Proof.
  induction aud as [|x aud IH]; cbn; [reflexivity|].
  destruct (bytes_eqb (m_name m) (m_name x)) eqn:E; cbn.
  - apply bytes_eqb_eq in E. rewrite E. reflexivity.
  - rewrite IH. destruct (mem_bytes (m_name m) (map m_name aud)); reflexivity.
Qed.

Lemma put_member_nodup aud m : nodup_b (map m_name aud) = true -> nodup_b (map m_name (put_member aud m)) = true.
Proof.
  intros H. rewrite put_member_names. destruct (mem_bytes (m_name m) (map m_name aud)) eqn:E; [exact H|].
  apply nodup_b_snoc; assumption.
Qed.

Lemma put_member_In aud m x : In x (put_member aud m) -> In x aud \/ x = m.
Proof.
  induction aud as [|y aud IH]; cbn.
  - intros [<-|[]]. auto.
  - destruct (bytes_eqb (m_name m) (m_name y)); cbn.
    + intros [<-|H]; auto.
    + intros [<-|H]; auto. destruct (IH H); auto.
Qed.

Lemma get_member_cons x aud n :
  get_member (x :: aud) n = if bytes_eqb n (m_name x) then x else get_member aud n.
Proof. unfold get_member. cbn. destruct (bytes_eqb n (m_name x)); reflexivity. Qed.

Lemma vars_of_put aud m' extra :
  map as_var (m_assigns m') = map as_var (m_assigns (get_member aud (m_name m'))) ++ extra ->
  Permutation (vars_of (put_member aud m')) (vars_of aud ++ extra).
Proof.
  induction aud as [|x aud IH]; intros H.
  - cbn in *. rewrite app_nil_r. rewrite H. apply Permutation_refl.
  - rewrite get_member_cons in H. cbn [put_member].
    destruct (bytes_eqb (m_name m') (m_name x)) eqn:E.
    + cbn [vars_of flat_map]. rewrite H. rewrite <- !app_assoc. apply Permutation_app_head. apply Permutation_app_comm.
    + cbn [vars_of flat_map]. rewrite <- app_assoc. apply Permutation_app_head. apply IH. exact H.
Qed.

Lemma get_member_name aud n : m_name (get_member aud n) = n.
Proof.
  unfold get_member. destruct (find_member n aud) as [m|] eqn:E; [|reflexivity].
  apply find_some in E. destruct E as [_ E]. apply bytes_eqb_eq in E. auto.
Qed.

Section Inv4.
Variable orc : oracles.

Lemma core_get s n :
  wf_state orc s = true -> ident_ok n = true -> member_core orc s (get_member (c_aud s) n) = true.
Proof.
  intros Hwf Hid. unfold get_member. destruct (find_member n (c_aud s)) as [m|] eqn:E.
  - destruct (wf_elim orc s Hwf) as (_ & _ & _ & _ & _ & _ & _ & _ & W9 & _).
    apply find_some in E. destruct E as [Hin _]. pose proof (forallb_In _ _ _ W9 Hin) as H.
    rewrite member_wf_split in H. apply andb_prop in H as [H _]. exact H.
  - unfold member_core. cbn. rewrite Hid. reflexivity.
Qed.

(** the general step: one member is replaced (or appended) *)
Lemma wf_put s m' extra :
  wf_state orc s = true -> member_wf orc s m' = true ->
  map as_var (m_assigns m') = map as_var (m_assigns (get_member (c_aud s) (m_name m'))) ++ extra ->
  nodup_b (builtin_vars ++ vars_of (c_aud s) ++ extra) = true ->
  wf_state orc (with_member s m') = true.
Proof.
  intros Hwf Hm Hasg Hnd.
  destruct (wf_elim orc s Hwf) as (W1 & W2 & W3 & W4 & W5 & W6 & W7 & W8 & W9 & W10 & W11).
  assert (G : grows s (with_member s m')) by (apply grows_refl_on; destruct s; reflexivity).
  apply (wf_rebuild orc s _ Hwf G); try (destruct s; cbn in *; assumption); try (destruct s; cbn in *; auto; fail).
  - intros m Hin. unfold with_member in Hin. destruct s; cbn in *. apply put_member_In in Hin. destruct Hin as [Hin| ->]; [auto|].
    right. revert Hm. apply member_wf_grows. apply grows_refl_on; reflexivity.
  - unfold with_member. destruct s; cbn in *. apply put_member_nodup. exact W10.
  - change (c_aud (with_member s m')) with (put_member (c_aud s) m').
    eapply nodup_b_perm; [|exact Hnd]. apply Permutation_app_head. apply Permutation_sym. apply vars_of_put. exact Hasg.
Qed.

Lemma wf_put_same s m' :
  wf_state orc s = true -> member_wf orc s m' = true ->
  map as_var (m_assigns m') = map as_var (m_assigns (get_member (c_aud s) (m_name m'))) ->
  wf_state orc (with_member s m') = true.
Proof.
  intros Hwf Hm Hasg. apply (wf_put s m' []); auto.
  - rewrite app_nil_r. exact Hasg.
  - rewrite app_nil_r. destruct (wf_elim orc s Hwf) as (_ & _ & _ & _ & _ & _ & _ & _ & _ & _ & W11). exact W11.
Qed.

(** ** checkExpr, forwards *)
Lemma dep_steps_fwd s aud vs : forall m acc m' deps',
  dep_steps s aud (m, acc) vs = Ok (m', deps') ->
  exists deps, deps' = acc ++ deps /\ deps_match vs deps = true /\ forallb (dep_wf s) deps = true
               /\ m' = set_obs m (reg (m_obs m) deps).
Proof.
  induction vs as [|v vs IH]; intros m acc m' deps' H; cbn [dep_steps] in H.
  - inversion H; subst. exists []. rewrite app_nil_r. repeat split; auto. destruct m'; reflexivity.
  - destruct (dep_step s aud (m, acc) v) as [[m1 acc1]| | |] eqn:E; try discriminate. cbn [obind] in H.
    destruct (IH _ _ _ _ H) as (deps & E1 & E2 & E3 & E4).
    unfold dep_step in E.
    destruct (parse_dep v) as [d|] eqn:Ep; [|discriminate]. cbn [of_opt obind] in E.
    destruct d as [a g]. cbn [fst snd] in E.
    destruct a as [|a0 a].
    + inv_ok E. inversion E; subst; clear E.
      exists (([], g) :: deps). rewrite <- app_assoc. split; [reflexivity|]. split; [|split].
      * cbn [deps_match]. rewrite Ep. unfold ovname_eqb. rewrite vname_eqb_refl. exact E2.
      * cbn [forallb]. unfold dep_wf at 1. cbn [fst snd is_nil]. rewrite E0. exact E3.
      * reflexivity.
    + inv_ok E. destruct (find_role (a_role a1) (c_roles s)) as [r|] eqn:Er; [|discriminate].
      unfold add_signal_source in E. cbn [snd] in E.
      destruct (find_sig g (r_sigs r)) as [g0|] eqn:Eg; [|discriminate]. cbn [obind] in E. inversion E; subst; clear E.
      apply andb_prop in E0 as [Ha Hg].
      exists ((a0 :: a, g) :: deps). rewrite <- app_assoc. split; [reflexivity|]. split; [|split].
      * cbn [deps_match]. rewrite Ep. unfold ovname_eqb. rewrite vname_eqb_refl. exact E2.
      * cbn [forallb]. unfold dep_wf at 1, sigref_wf. cbn [fst snd is_nil]. rewrite Ha, Hg, E5, Er, Eg. exact E3.
      * destruct m; reflexivity.
Qed.

Lemma check_expr_fwd s aud m src m' e :
  check_expr orc s aud m src = Ok (m', e) ->
  expr_wf orc s e = true /\ m' = set_obs m (reg (m_obs m) (x_deps e)).
Proof.
  intros H. unfold check_expr in H.
  destruct (preproc (c_pvars s) src) as [src'| | |]; try discriminate. cbn [obind] in H.
  destruct (o_expr_vars orc src') as [vs|] eqn:Ev; [|discriminate]. cbn [of_opt obind] in H.
  destruct (dep_steps s aud (m, []) vs) as [[m1 deps]| | |] eqn:Ed; try discriminate. cbn [obind fst snd] in H.
  inversion H; subst; clear H.
  destruct (dep_steps_fwd s aud vs m [] m' deps Ed) as (deps0 & E2 & E3 & E4 & E5). cbn [app] in E2. subst deps0.
  split; [|exact E5].
  unfold expr_wf. cbn [x_src x_deps]. rewrite Ev, E3, E4. reflexivity.
Qed.

(** the observation list after a registration *)
Lemma reg_obs_facts s o deps :
  nodup_v o = true -> forallb (dep_wf s) o = true -> forallb (dep_wf s) deps = true ->
  nodup_v (reg o deps) = true /\ forallb (dep_wf s) (reg o deps) = true
  /\ (forall d, existsb (vname_eqb d) o = true -> existsb (vname_eqb d) (reg o deps) = true)
  /\ (forall d, In d deps -> is_nil (fst d) = false -> existsb (vname_eqb d) (reg o deps) = true).
Proof.
  intros Hnd Ho Hd. repeat split.
  - apply NoDup_nodup_v. apply reg_NoDup. apply nodup_v_NoDup. exact Hnd.
  - apply forallb_forall_In. intros x Hx. apply reg_In in Hx. destruct Hx as [Hx|[Hx _]].
    + apply (forallb_In _ _ _ Ho Hx).
    + apply (forallb_In _ _ _ Hd Hx).
  - intros d H. apply existsb_vname_In. apply reg_In_rev. left. apply existsb_vname_In. exact H.
  - intros d H1 H2. apply existsb_vname_In. apply reg_In_rev. right. auto.
Qed.

Lemma expr_wf_deps s e : expr_wf orc s e = true -> forallb (dep_wf s) (x_deps e) = true.
Proof.
  unfold expr_wf. destruct (o_expr_vars orc (x_src e)); [|discriminate]. intros H. apply andb_prop in H as [_ H]. exact H.
Qed.

Lemma sig_deps_covered o e :
  (forall d, In d (x_deps e) -> is_nil (fst d) = false -> existsb (vname_eqb d) o = true) ->
  forallb (fun d => existsb (vname_eqb d) o) (sig_deps e) = true.
Proof.
  intros H. apply forallb_forall_In. intros d Hd. unfold sig_deps in Hd. apply filter_In in Hd. destruct Hd as [H1 H2].
  apply H; [exact H1|]. destruct d as [a g]. cbn [fst] in *. destruct (is_nil a); [discriminate|reflexivity].
Qed.

Lemma covered_mono (o o' : list vname) (es : list expr) :
  (forall d, existsb (vname_eqb d) o = true -> existsb (vname_eqb d) o' = true) ->
  forallb (fun e => forallb (fun d => existsb (vname_eqb d) o) (sig_deps e)) es = true ->
  forallb (fun e => forallb (fun d => existsb (vname_eqb d) o') (sig_deps e)) es = true.
Proof.
  intros Hm H. eapply forallb_impl; [|exact H]. intros e _ He.
  eapply forallb_impl; [|exact He]. intros d _. apply Hm.
Qed.

(** the eight facts of member_core, as a record of propositions *)
Record core_facts (s : cstate) (m : member) : Prop := mkCore {
  cf_id : ident_ok (m_name m) = true;
  cf_exprs : forallb (expr_wf orc s) (member_exprs m) = true;
  cf_asg : forallb assign_wf (m_assigns m) = true;
  cf_mod : match m_expect m with None => true | Some fe => mem_bytes (fst fe) modalities end = true;
  cf_cond : match m_cond m with Some _ => true | None => is_nil (m_assigns m) && match m_expect m with None => true | Some _ => false end end = true;
  cf_nd : nodup_v (m_obs m) = true;
  cf_obs : forallb (dep_wf s) (m_obs m) = true;
  cf_cov : forallb (fun e => forallb (fun d => existsb (vname_eqb d) (m_obs m)) (sig_deps e)) (member_exprs m) = true
}.

Lemma core_iff s m : member_core orc s m = true <-> core_facts s m.
Proof.
  unfold member_core. split.
  - intros H. repeat (apply andb_prop in H as [H ?]). constructor; assumption.
  - intros [H1 H2 H3 H4 H5 H6 H7 H8]. rewrite H1, H2, H3, H4, H5, H6, H7, H8. reflexivity.
Qed.

(** a member after checkExpr: the expression is well-formed and covered, the
    old facts survive *)
Lemma core_after_check s aud m src m' e :
  core_facts s m -> check_expr orc s aud m src = Ok (m', e) ->
  core_facts s m' /\ expr_wf orc s e = true
  /\ forallb (fun d => existsb (vname_eqb d) (m_obs m')) (sig_deps e) = true
  /\ m_name m' = m_name m /\ m_cond m' = m_cond m /\ m_assigns m' = m_assigns m /\ m_expect m' = m_expect m
  /\ m_ylabel m' = m_ylabel m /\ m_noplot m' = m_noplot m /\ m_foulbad m' = m_foulbad m /\ m_foulgood m' = m_foulgood m.
Proof.
  intros [H1 H2 H3 H4 H5 H6 H7 H8] H. destruct (check_expr_fwd s aud m src m' e H) as [Hwf ->].
  destruct (reg_obs_facts s (m_obs m) (x_deps e) H6 H7 (expr_wf_deps s e Hwf)) as (R1 & R2 & R3 & R4).
  split; [|split; [exact Hwf|split]].
  - constructor; destruct m; cbn in *; auto. eapply covered_mono; [exact R3|exact H8].
  - destruct m; cbn. apply sig_deps_covered. exact R4.
  - destruct m; cbn. repeat split; reflexivity.
Qed.

End Inv4.
