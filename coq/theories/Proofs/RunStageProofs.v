(** Proofs about Model/RunStage.v (property C03: "... or a directory/upload
    operation failed"). *)
From Shk Require Import Base.Prelude Model.Verdict Model.RunStage.
Open Scope list_scope.

Lemma is_interrupted_app a b : is_interrupted (a ++ b) = is_interrupted a || is_interrupted b.
Proof. unfold is_interrupted. apply existsb_app. Qed.

Lemma is_interrupted_op fails d : is_interrupted (op_err fails d) = false.
Proof. unfold op_err. destruct (fails d); reflexivity. Qed.

Lemma is_nil_app a b : is_nil (a ++ b) = is_nil a && is_nil b.
Proof. destruct a; reflexivity. Qed.

Lemma is_nil_true e : is_nil e = true -> e = [].
Proof. destruct e; [reflexivity | discriminate]. Qed.

(** The returned error is exactly the play's own error followed by the failure
    of every operation that was executed and failed: nothing is dropped,
    nothing is invented. *)
Lemma run_result_exact f fails play :
  fst (run_stage f fails play) = play ++ flat_map (op_err fails) (snd (run_stage f fails play)).
Proof.
  unfold run_stage. cbn [fst snd].
  destruct f as [cl kp np]; cbn [f_clear f_keep f_noplot].
  destruct play as [|c play].
  - unfold op_err.
    destruct np, cl, kp, (fails DPlot) eqn:E1, (fails DRmArtifacts) eqn:E2, (fails DWriteResult) eqn:E3,
      (fails DWriteHtml) eqn:E4, (fails DUpload) eqn:E5, (fails DRmAll) eqn:E6;
      repeat (progress (cbn; rewrite ?E1, ?E2, ?E3, ?E4, ?E5, ?E6)); reflexivity.
  - (* the play failed: no removal of artifacts, no --clear *)
    assert (Hnn : forall l, is_nil ((c :: play) ++ l) = false) by reflexivity.
    destruct np; cbn [app is_nil andb].
    + rewrite ?flat_map_app. cbn [flat_map].
      destruct (is_interrupted _); cbn [negb orb andb app flat_map]; rewrite ?app_nil_r, <- ?app_assoc; reflexivity.
    + rewrite ?flat_map_app. cbn [flat_map].
      destruct (is_interrupted _); cbn [negb orb andb app flat_map]; rewrite ?app_nil_r, <- ?app_assoc; reflexivity.
Qed.

(** Exit status: non-zero exactly when the play returned an error or an
    executed directory / upload operation failed. *)
Lemma run_exit_iff f fails play :
  run_exit_nonzero f fails play = true <->
  play <> [] \/ exists d, In d (snd (run_stage f fails play)) /\ fails d = true.
Proof.
  unfold run_exit_nonzero. rewrite run_result_exact.
  set (xs := snd (run_stage f fails play)). clearbody xs.
  split.
  - intros H. destruct play as [|c p]; [|left; discriminate]. right.
    cbn [app] in H. induction xs as [|d tl IH]; [discriminate|].
    cbn [flat_map] in H. unfold op_err at 1 in H. destruct (fails d) eqn:E.
    + exists d. split; [left; reflexivity | exact E].
    + cbn [app] in H. destruct (IH H) as (d' & Hin & Hf). exists d'. split; [right; exact Hin | exact Hf].
  - intros [H | (d & Hin & Hf)].
    + destruct play; [congruence | reflexivity].
    + destruct play; [|reflexivity]. cbn [app].
      induction xs as [|d' tl IH]; [destruct Hin|].
      cbn [flat_map]. destruct Hin as [-> | Hin].
      * unfold op_err at 1. rewrite Hf. reflexivity.
      * unfold op_err at 1. destruct (fails d'); [reflexivity | cbn [app]; exact (IH Hin)].
Qed.

(** Which operations run. *)
Lemma interrupted_result f fails play :
  is_interrupted (fst (run_stage f fails play)) = is_interrupted play.
Proof.
  rewrite run_result_exact. rewrite is_interrupted_app.
  induction (snd (run_stage f fails play)) as [|d tl IH]; cbn [flat_map]; [apply orb_false_r|].
  rewrite is_interrupted_app, is_interrupted_op. exact IH.
Qed.

Lemma upload_iff_not_interrupted f fails play :
  In DUpload (snd (run_stage f fails play)) <-> is_interrupted play = false.
Proof.
  unfold run_stage. cbn [snd].
  destruct f as [cl kp np]; cbn [f_clear f_keep f_noplot].
  set (e1 := if np then play else play ++ op_err fails DPlot).
  set (rm := is_nil e1 && negb cl && negb kp).
  set (e2 := if rm then op_err fails DRmArtifacts else e1).
  set (e3 := (e2 ++ op_err fails DWriteResult) ++ op_err fails DWriteHtml).
  assert (Hi : is_interrupted e3 = is_interrupted play).
  { unfold e3. rewrite !is_interrupted_app, !is_interrupted_op, !orb_false_r.
    unfold e2. destruct rm eqn:Er.
    - rewrite is_interrupted_op. unfold rm in Er.
      destruct (is_nil e1) eqn:En; [|discriminate]. apply is_nil_true in En.
      unfold e1 in En. destruct np; [subst; reflexivity|].
      destruct play; [reflexivity | discriminate].
    - unfold e1. destruct np; [reflexivity|]. now rewrite is_interrupted_app, is_interrupted_op, orb_false_r. }
  assert (Hn : is_nil e3 = true -> is_interrupted e3 = false) by (intros H; apply is_nil_true in H; rewrite H; reflexivity).
  rewrite <- Hi.
  destruct (is_interrupted e3) eqn:Ei.
  - destruct (is_nil e3) eqn:En; [specialize (Hn eq_refl); discriminate|]. cbn [orb negb].
    split; [|discriminate]. intros H. exfalso.
    repeat (apply in_app_or in H; destruct H as [H|H]);
      repeat match goal with
             | H : In _ (if ?b then _ else _) |- _ => destruct b
             | H : In _ [] |- _ => destruct H
             | H : In _ (_ :: _) |- _ => destruct H as [H|H]; [discriminate|]
             end.
  - rewrite orb_true_r. split; [reflexivity|]. intros _.
    apply in_or_app; right. apply in_or_app; right. apply in_or_app; right.
    apply in_or_app; left. left; reflexivity.
Qed.

(** `--clear` removes the data directory only after a play without any error
    and when every earlier operation succeeded; the artifacts are removed only
    after a play (and plot) without error, and never with -k or --clear. *)
Lemma clear_only_on_success f fails play :
  In DRmAll (snd (run_stage f fails play)) ->
  f_clear f = true /\ play = [] /\
  forall d, d <> DRmAll -> In d (snd (run_stage f fails play)) -> fails d = false.
Proof.
  unfold run_stage. cbn [snd]. destruct f as [cl kp np]; cbn [f_clear f_keep f_noplot].
  unfold op_err.
  destruct play as [|c play].
  - destruct np, cl, kp, (fails DPlot) eqn:?, (fails DRmArtifacts) eqn:?, (fails DWriteResult) eqn:?,
      (fails DWriteHtml) eqn:?, (fails DUpload) eqn:?; cbn; intros H;
      repeat match goal with H : _ \/ _ |- _ => destruct H as [H|H]; try discriminate | H : False |- _ => destruct H end;
      (split; [reflexivity | split; [reflexivity|]]); intros d Hd Hin;
      repeat match goal with H : _ \/ _ |- _ => destruct H as [H|H] | H : False |- _ => destruct H end;
      subst; try congruence.
  - intros H. exfalso.
    destruct np; cbn [app is_nil andb] in H;
      match type of H with context [if ?u then [DUpload] else []] => destruct u end;
      cbn [app is_nil andb] in H;
      repeat (cbn in H; match type of H with _ \/ _ => destruct H as [H|H]; [discriminate|] | False => exact H end).
Qed.

Lemma artifacts_removed_iff f fails play :
  In DRmArtifacts (snd (run_stage f fails play)) <->
  play = [] /\ (f_noplot f = true \/ fails DPlot = false) /\ f_clear f = false /\ f_keep f = false.
Proof.
  unfold run_stage. cbn [snd]. destruct f as [cl kp np]; cbn [f_clear f_keep f_noplot].
  unfold op_err.
  destruct play as [|c play].
  - destruct np, cl, kp, (fails DPlot) eqn:?, (fails DRmArtifacts) eqn:?, (fails DWriteResult) eqn:?,
      (fails DWriteHtml) eqn:?, (fails DUpload) eqn:?; cbn; intuition (try discriminate; try congruence).
  - split; [|intros (H & _); discriminate]. intros H. exfalso.
    destruct np; cbn [app is_nil andb] in H;
      match type of H with context [if ?u then [DUpload] else []] => destruct u end;
      cbn [app is_nil andb] in H;
      match type of H with context [if ?u then [DRmAll] else []] => destruct u | _ => idtac end;
      repeat (cbn in H; match type of H with _ \/ _ => destruct H as [H|H]; [discriminate|] | False => exact H end).
Qed.

(** ** The two halves together: conduct's funnel (Model/Verdict.v) feeds the end
    of [run].  [lift_err] forgets which cause an element is, keeping only
    whether the play was interrupted by a signal. *)
Definition lift_err (intr : bool) (e : err) : rerr := map (fun _ => RPlay intr) e.

Lemma whole_exit_iff f fails intr e :
  run_exit_nonzero f fails (lift_err intr e) = true <->
  exit_nonzero e = true \/
  exists d, In d (snd (run_stage f fails (lift_err intr e))) /\ fails d = true.
Proof.
  rewrite run_exit_iff. split; (intros [H|H]; [left | right; exact H]).
  - destruct e; [exfalso; apply H; reflexivity | reflexivity].
  - destruct e; [discriminate | discriminate].
Qed.
