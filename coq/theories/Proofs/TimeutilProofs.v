(** Proofs about Model/Timeutil.v (property C18). *)
From Shk Require Import Base.Prelude Model.Timeutil.
From Coq Require Import ZifyBool.
Open Scope Z_scope.
Ltac Zify.zify_post_hook ::= Z.div_mod_to_equations.

(** ** Microsecond conversions *)

Lemma round_micro_spec s n :
  0 <= n < 1000000000 ->
  let t' := round_micro (s, n) in
  0 <= snd t' < 1000000000 /\ snd t' mod 1000 = 0 /\
  ns_of t' = ((s * 1000000000 + n + 500) / 1000) * 1000.
Proof.
  intros Hn. unfold round_micro, ns_of.
  destruct (n mod 1000 + n mod 1000 <? 1000) eqn:E1; cbn [fst snd].
  - lia.
  - destruct (n + 1000 - n mod 1000 >=? 1000000000) eqn:E2; cbn [fst snd]; lia.
Qed.

Lemma to_micros_nearest s n :
  0 <= n < 1000000000 -> to_micros (s, n) = nearest_micros (s, n).
Proof.
  intros Hn. pose proof (round_micro_spec s n Hn) as H.
  unfold to_micros, nearest_micros. unfold ns_of in *. cbn [fst snd] in *.
  destruct (round_micro (s, n)) as [s' n'] eqn:E. cbn [fst snd] in H.
  destruct H as (Hr & Hm & Hns).
  rewrite Z.quot_div_nonneg by lia. lia.
Qed.

Lemma nearest_is_nearest t :
  let m := nearest_micros t in
  m * 1000 - 500 <= ns_of t < m * 1000 + 500.
Proof. unfold nearest_micros. cbv zeta. lia. Qed.

Lemma nearest_unique t m :
  m * 1000 - 500 <= ns_of t < m * 1000 + 500 -> m = nearest_micros t.
Proof. unfold nearest_micros. lia. Qed.

Lemma to_micros_monotone t1 t2 :
  wf_instant t1 -> wf_instant t2 -> ns_of t1 <= ns_of t2 -> to_micros t1 <= to_micros t2.
Proof.
  destruct t1 as [s1 n1], t2 as [s2 n2]. unfold wf_instant; cbn [fst snd]; intros H1 H2 H.
  rewrite !to_micros_nearest by assumption. unfold nearest_micros.
  apply Z.div_le_mono; lia.
Qed.

Lemma from_micros_wf us : wf_instant (from_micros us).
Proof.
  unfold wf_instant, from_micros, go_unix.
  pose proof (Z.quot_rem' us 1000000) as Hqr.
  pose proof (Z.rem_bound_abs us 1000000 ltac:(lia)) as Hb.
  assert (Hq : Z.quot (Z.rem us 1000000 * 1000) 1000000000 = 0).
  { apply Z.quot_small_iff; lia. }
  destruct ((Z.rem us 1000000 * 1000 <? 0) || (Z.rem us 1000000 * 1000 >=? 1000000000)) eqn:E.
  - rewrite Hq. destruct (Z.rem us 1000000 * 1000 - 0 * 1000000000 <? 0) eqn:E2; cbn [fst snd]; lia.
  - cbn [fst snd]. lia.
Qed.

Lemma from_micros_ns us : ns_of (from_micros us) = us * 1000.
Proof.
  unfold from_micros, go_unix, ns_of.
  pose proof (Z.quot_rem' us 1000000) as Hqr.
  pose proof (Z.rem_bound_abs us 1000000 ltac:(lia)) as Hb.
  assert (Hq : Z.quot (Z.rem us 1000000 * 1000) 1000000000 = 0).
  { apply Z.quot_small_iff; lia. }
  destruct ((Z.rem us 1000000 * 1000 <? 0) || (Z.rem us 1000000 * 1000 >=? 1000000000)) eqn:E.
  - rewrite Hq. destruct (Z.rem us 1000000 * 1000 - 0 * 1000000000 <? 0) eqn:E2; cbn [fst snd]; lia.
  - cbn [fst snd]. lia.
Qed.

Lemma micros_round_trip us : to_micros (from_micros us) = us.
Proof.
  pose proof (from_micros_wf us) as Hwf. pose proof (from_micros_ns us) as Hns.
  destruct (from_micros us) as [s n] eqn:E. unfold wf_instant in Hwf; cbn [fst snd] in Hwf.
  rewrite to_micros_nearest by assumption. unfold nearest_micros. rewrite Hns. lia.
Qed.

(** ** Timer *)

Definition inner_ok (s : tstate) (i : inner) : Prop :=
  deadline i = g_reset_at s + g_d s /\
  0 <= g_d s /\ g_reset_at s <= now s /\
  ( (armed i = true /\ full i = false /\ readf s = false /\ g_recvs s = 0%nat)
    \/ (armed i = false /\ full i = true /\ readf s = false /\ g_recvs s = 0%nat
        /\ deadline i <= now s)
    \/ (armed i = false /\ full i = false /\ readf s = true /\ g_recvs s = 1%nat
        /\ deadline i <= now s) ).

Definition pool_ok (p : list inner) : Prop :=
  Forall (fun i => armed i = false /\ full i = false) p.

Definition Inv (s : tstate) : Prop :=
  pool_ok (pool s) /\
  match tm s with
  | Some i => inner_ok s i
  | None => readf s = false
  end.

Lemma inv_init : Inv t_init.
Proof. split; cbn; [constructor | reflexivity]. Qed.

Lemma pool_ok_remove k p : pool_ok p -> pool_ok (remove_nth k p).
Proof.
  unfold pool_ok. revert p; induction k as [|k IH]; intros [|x p] H; cbn; auto;
    inversion H; subst; auto.
Qed.

Lemma pool_ok_nth k p i : pool_ok p -> nth_error p k = Some i -> armed i = false /\ full i = false.
Proof.
  unfold pool_ok; intros H E. rewrite Forall_forall in H. apply H. eapply nth_error_In; eauto.
Qed.

Lemma step_inv s l s' o : Inv s -> step s l = Next s' o -> Inv s'.
Proof.
  intros [Hp Ht] Hs. destruct l as [d pick|dt| |k| |]; cbn [step] in Hs.
  - (* Reset *)
    destruct (d <? 0) eqn:Ed; [discriminate|].
    destruct (tm s) as [i|] eqn:Etm.
    + destruct (negb (armed i) && negb (readf s) && negb (full i)); [discriminate|].
      inversion Hs; subst; clear Hs. split; cbn; [assumption|].
      unfold inner_ok; cbn. repeat split; try lia. left; repeat split.
      destruct Ht as (_ & _ & _ & [H|[H|H]]); destruct H as (Ha & Hf & Hr & _);
        rewrite Ha, Hf, Hr; reflexivity.
    + destruct pick as [k|].
      * destruct (nth_error (pool s) k) as [i|] eqn:En; [|discriminate].
        inversion Hs; subst; clear Hs. split; cbn.
        -- apply pool_ok_remove; assumption.
        -- destruct (pool_ok_nth _ _ _ Hp En) as [Ha Hf].
           unfold inner_ok; cbn. repeat split; try lia. left; repeat split; assumption.
      * inversion Hs; subst; clear Hs. split; cbn; [assumption|].
        unfold inner_ok; cbn. repeat split; try lia. left; repeat split; assumption.
  - (* Tick *)
    destruct (dt <? 0) eqn:Ed; [discriminate|]. inversion Hs; subst; clear Hs.
    split; cbn; [assumption|]. destruct (tm s) as [i|]; [|assumption].
    unfold inner_ok in *; cbn. destruct Ht as (H1 & H2 & H3 & H4). repeat split; try lia.
    destruct H4 as [H|[H|H]]; [left|right;left|right;right]; intuition lia.
  - (* Fire *)
    destruct (tm s) as [i|] eqn:Etm; [|discriminate].
    destruct (armed i && (deadline i <=? now s)) eqn:E; [|discriminate].
    inversion Hs; subst; clear Hs. split; cbn; [assumption|].
    apply andb_true_iff in E; destruct E as [Ea Ed].
    unfold inner_ok in *; cbn. destruct Ht as (H1 & H2 & H3 & H4). repeat split; try lia.
    right; left. destruct H4 as [H|[H|H]]; destruct H as (Ha & ?); try congruence.
    intuition lia.
  - (* FirePool: never enabled under the invariant *)
    destruct (nth_error (pool s) k) as [i|] eqn:En; [|discriminate].
    destruct (pool_ok_nth _ _ _ Hp En) as [Ha _]. rewrite Ha in Hs. discriminate.
  - (* Recv *)
    destruct (tm s) as [i|] eqn:Etm; [|discriminate].
    destruct (full i) eqn:Ef; [|discriminate].
    inversion Hs; subst; clear Hs. split; cbn; [assumption|].
    unfold inner_ok in *; cbn. destruct Ht as (H1 & H2 & H3 & H4). repeat split; try lia.
    right; right. destruct H4 as [H|[H|H]]; destruct H as (Ha & Hf & ?); try congruence.
    rewrite Ha. intuition (try lia; try congruence).
  - (* Stop *)
    destruct (tm s) as [i|] eqn:Etm; inversion Hs; subst; clear Hs; split; cbn; auto.
    destruct (armed i) eqn:Ea; [|assumption].
    constructor; [|assumption]. cbn. split; [reflexivity|].
    destruct Ht as (_ & _ & _ & [H|[H|H]]); destruct H as (Ha & Hf & _); congruence.
Qed.

Lemma reachable_inv s : reachable s -> Inv s.
Proof. induction 1; [apply inv_init | eapply step_inv; eauto]. Qed.

(** Reset never blocks. *)
Lemma reset_never_blocks s d pick : reachable s -> step s (LReset d pick) <> Blocks.
Proof.
  intros Hr. destruct (reachable_inv s Hr) as [_ Ht]. cbn [step].
  destruct (d <? 0); [discriminate|].
  destruct (tm s) as [i|]; [|destruct pick as [k|]; [destruct (nth_error _ _)|]; discriminate].
  destruct Ht as (_ & _ & _ & [H|[H|H]]); destruct H as (Ha & Hf & Hr' & _);
    rewrite Ha, Hf, Hr'; cbn; discriminate.
Qed.

(** No operation of any kind blocks, in fact. *)
Lemma nothing_blocks s l : reachable s -> step s l <> Blocks.
Proof.
  intros Hr. destruct l; try (apply reset_never_blocks; assumption); cbn [step];
    repeat match goal with |- context [match ?x with _ => _ end] => destruct x end; discriminate.
Qed.

(** At most one receive per Reset, and a receive is possible only when the
    requested duration has elapsed since that Reset. *)
Lemma recv_once_not_early s s' t :
  reachable s -> step s LRecv = Next s' (ORecv t) ->
  g_recvs s = 0%nat /\ g_recvs s' = 1%nat /\ t = now s /\ g_reset_at s + g_d s <= t.
Proof.
  intros Hr Hs. destruct (reachable_inv s Hr) as [_ Ht]. cbn [step] in Hs.
  destruct (tm s) as [i|]; [|discriminate]. destruct (full i) eqn:Ef; [|discriminate].
  inversion Hs; subst; clear Hs. cbn.
  destruct Ht as (Hd & _ & _ & [H|[H|H]]); destruct H as (Ha & Hf & ?); try congruence.
  intuition lia.
Qed.

(** Exactly once: after a Reset, as long as neither Reset nor Stop intervenes,
    the fire is pending (armed), delivered (in the channel) or consumed (Read),
    never lost and never duplicated. *)
Lemma fire_pending_delivered_or_consumed s i :
  reachable s -> tm s = Some i ->
  (armed i = true /\ full i = false /\ g_recvs s = 0%nat) \/
  (armed i = false /\ full i = true /\ g_recvs s = 0%nat) \/
  (armed i = false /\ full i = false /\ g_recvs s = 1%nat).
Proof.
  intros Hr E. destruct (reachable_inv s Hr) as [_ Ht]. rewrite E in Ht.
  destruct Ht as (_ & _ & _ & [H|[H|H]]); intuition.
Qed.

(** The fire does become deliverable: an armed timer whose deadline has passed
    enables [LFire]. *)
Lemma fire_enabled_at_deadline s i :
  tm s = Some i -> armed i = true -> deadline i <= now s ->
  exists s', step s LFire = Next s' ONone.
Proof.
  intros E Ha Hd. cbn [step]. rewrite E, Ha.
  destruct (deadline i <=? now s) eqn:El; [|lia]. cbn. eexists; reflexivity.
Qed.

(** After a Stop no receive is enabled (t.C is nil) and the timer that went
    back to the pool can never fire into a later user's channel: every pooled
    timer is disarmed with an empty channel. *)
Lemma none_after_stop s s' ok :
  reachable s -> step s LStop = Next s' (OStop ok) ->
  step s' LRecv = NotEnabled /\ (forall k, step s' (LFirePool k) = NotEnabled) /\
  pool_ok (pool s').
Proof.
  intros Hr Hs. assert (Hr' : reachable s') by (eapply reach_step; eauto).
  destruct (reachable_inv s' Hr') as [Hp _].
  assert (Etm : tm s' = None).
  { cbn [step] in Hs. destruct (tm s); inversion Hs; reflexivity. }
  repeat split; [cbn [step]; rewrite Etm; reflexivity | | assumption].
  intros k. cbn [step]. destruct (nth_error (pool s') k) as [i|] eqn:En; [|reflexivity].
  destruct (pool_ok_nth _ _ _ Hp En) as [Ha _]. rewrite Ha. reflexivity.
Qed.

(** Stop returns true exactly when the fire had not happened yet; in that case
    it never happens. *)
Lemma stop_true_iff_armed s s' ok i :
  step s LStop = Next s' (OStop ok) -> tm s = Some i -> ok = armed i.
Proof. intros Hs E. cbn [step] in Hs. rewrite E in Hs. inversion Hs; reflexivity. Qed.
