(** wf_state is an invariant: audience and interpretation clauses; apply_wf, run_wf (C10). *)
From Coq Require Import String Permutation.
From Shk Require Import Base.Prelude Model.Storyline Model.Config.
From Shk Require Import Proofs.ConfigText Proofs.ConfigRoles Proofs.ConfigCast Proofs.ConfigExpr Proofs.ConfigHyps Proofs.ConfigSame Proofs.ConfigInvariant Proofs.ConfigInvRoles Proofs.ConfigInvScenes Proofs.ConfigInvExpr.
Open Scope Z_scope.

Section Inv5.
Variable orc : oracles.
Notation core_facts := (core_facts orc).

(** ** setters keep the core *)
Lemma exprs_set_cond (P : expr -> bool) m e :
  m_cond m = None -> forallb P (member_exprs m) = true -> P e = true ->
  forallb P (member_exprs (set_cond m (Some e))) = true.
Proof.
  unfold member_exprs. destruct m as [n0 c0 a0 e0 o0 y0 p0 fb fg]; cbn [m_cond m_assigns m_expect set_cond]. intros -> H He.
  cbn [app forallb] in *. rewrite He, H. reflexivity.
Qed.

Lemma exprs_set_expect (P : expr -> bool) m f e :
  m_expect m = None -> forallb P (member_exprs m) = true -> P e = true ->
  forallb P (member_exprs (set_expect m (Some (f, e)))) = true.
Proof.
  unfold member_exprs. destruct m as [n0 c0 a0 e0 o0 y0 p0 fb fg]; cbn [m_cond m_assigns m_expect set_expect]. intros -> H He.
  rewrite !forallb_app2 in *. cbn [forallb snd] in *. rewrite He.
  apply andb_prop in H as [H1 H]. apply andb_prop in H as [H2 _]. rewrite H1, H2. reflexivity.
Qed.

Lemma exprs_set_assign (P : expr -> bool) m a :
  forallb P (member_exprs m) = true -> P (as_expr a) = true ->
  forallb P (member_exprs (set_assigns m (m_assigns m ++ [a]))) = true.
Proof.
  unfold member_exprs. destruct m as [n0 c0 a1 e0 o0 y0 p0 fb fg]; cbn [m_cond m_assigns m_expect set_assigns]. intros H He.
  rewrite map_app, !forallb_app2 in *. cbn [map forallb].
  apply andb_prop in H as [H1 H]. apply andb_prop in H as [H2 H3]. rewrite H1, H2, H3, He. reflexivity.
Qed.

Lemma core_set_cond s m e :
  core_facts s m -> m_cond m = None -> expr_wf orc s e = true ->
  forallb (fun d => existsb (vname_eqb d) (m_obs m)) (sig_deps e) = true ->
  core_facts s (set_cond m (Some e)).
Proof.
  intros [H1 H2 H3 H4 H5 H6 H7 H8] Hc He Hcov.
  constructor; try (destruct m; cbn in *; assumption).
  - apply exprs_set_cond; assumption.
  - destruct m; reflexivity.
  - replace (m_obs (set_cond m (Some e))) with (m_obs m) by (destruct m; reflexivity).
    apply (exprs_set_cond (fun e0 => forallb (fun d => existsb (vname_eqb d) (m_obs m)) (sig_deps e0))); assumption.
Qed.

Lemma core_set_expect s m f e :
  core_facts s m -> (exists c, m_cond m = Some c) -> m_expect m = None -> mem_bytes f modalities = true ->
  expr_wf orc s e = true ->
  forallb (fun d => existsb (vname_eqb d) (m_obs m)) (sig_deps e) = true ->
  core_facts s (set_expect m (Some (f, e))).
Proof.
  intros [H1 H2 H3 H4 H5 H6 H7 H8] [c Hc] Hx Hf He Hcov.
  constructor; try (destruct m; cbn in *; assumption).
  - apply exprs_set_expect; assumption.
  - destruct m; cbn in *. subst. reflexivity.
  - replace (m_obs (set_expect m (Some (f, e)))) with (m_obs m) by (destruct m; reflexivity).
    apply (exprs_set_expect (fun e0 => forallb (fun d => existsb (vname_eqb d) (m_obs m)) (sig_deps e0))); assumption.
Qed.

Lemma core_set_assign s m a :
  core_facts s m -> (exists c, m_cond m = Some c) -> assign_wf a = true ->
  expr_wf orc s (as_expr a) = true ->
  forallb (fun d => existsb (vname_eqb d) (m_obs m)) (sig_deps (as_expr a)) = true ->
  core_facts s (set_assigns m (m_assigns m ++ [a])).
Proof.
  intros [H1 H2 H3 H4 H5 H6 H7 H8] [c Hc] Ha He Hcov.
  constructor; try (destruct m; cbn in *; assumption).
  - apply exprs_set_assign; assumption.
  - destruct m; cbn in *. rewrite forallb_app2, H3. cbn. rewrite Ha. reflexivity.
  - destruct m; cbn in *. subst. reflexivity.
  - replace (m_obs (set_assigns m (m_assigns m ++ [a]))) with (m_obs m) by (destruct m; reflexivity).
    apply (exprs_set_assign (fun e0 => forallb (fun d => existsb (vname_eqb d) (m_obs m)) (sig_deps e0))); assumption.
Qed.

Lemma add_obs_facts s o v :
  nodup_v o = true -> forallb (dep_wf s) o = true -> dep_wf s v = true ->
  nodup_v (add_obs o v) = true /\ forallb (dep_wf s) (add_obs o v) = true
  /\ (forall d, existsb (vname_eqb d) o = true -> existsb (vname_eqb d) (add_obs o v) = true)
  /\ existsb (vname_eqb v) (add_obs o v) = true.
Proof.
  intros Hnd Ho Hv. repeat split.
  - apply NoDup_nodup_v. apply add_obs_NoDup. apply nodup_v_NoDup. exact Hnd.
  - apply forallb_forall_In. intros x Hx. apply add_obs_In in Hx. destruct Hx as [Hx| ->]; [|exact Hv].
    apply (forallb_In _ _ _ Ho Hx).
  - intros d H. apply existsb_vname_In. apply add_obs_In. left. apply existsb_vname_In. exact H.
  - apply existsb_vname_In. apply add_obs_In. auto.
Qed.

Lemma core_add_obs s m v :
  core_facts s m -> dep_wf s v = true -> core_facts s (set_obs m (add_obs (m_obs m) v)).
Proof.
  intros [H1 H2 H3 H4 H5 H6 H7 H8] Hv.
  destruct (add_obs_facts s (m_obs m) v H6 H7 Hv) as (A1 & A2 & A3 & _).
  destruct m. cbn in *. constructor; cbn; auto. eapply covered_mono; [exact A3|exact H8].
Qed.

Lemma member_wf_of s m : core_facts s m -> member_ne m = true -> member_wf orc s m = true.
Proof. intros Hc Hn. rewrite member_wf_split, Hn, andb_true_r. apply core_iff. exact Hc. Qed.

Lemma core_get' s n : wf_state orc s = true -> ident_ok n = true -> core_facts s (get_member (c_aud s) n).
Proof. intros. apply core_iff. apply core_get; assumption. Qed.

(** ** ensureAuditCond *)
Lemma ensure_cond_fwd s aud m m1 :
  core_facts s m -> ensure_cond orc s aud m = Ok m1 ->
  core_facts s m1 /\ (exists c, m_cond m1 = Some c)
  /\ m_name m1 = m_name m /\ m_assigns m1 = m_assigns m /\ m_expect m1 = m_expect m.
Proof.
  intros Hc H. unfold ensure_cond in H. destruct (m_cond m) as [c|] eqn:Ec.
  - inversion H; subst. split; [exact Hc|]. split; [exists c; exact Ec|]. auto.
  - destruct (check_expr orc s aud m true_src) as [[m2 e]| | |] eqn:E; try discriminate. cbn [obind fst snd] in H.
    inversion H; subst; clear H.
    destruct (core_after_check orc s aud m true_src m2 e Hc E) as (C2 & He & Hcov & N1 & N2 & N3 & N4 & _).
    split; [apply core_set_cond; auto; congruence|].
    destruct m2; cbn in *. repeat split; eauto.
Qed.

Lemma set_assigns_fields m l : m_assigns (set_assigns m l) = l /\ m_name (set_assigns m l) = m_name m.
Proof. destruct m; auto. Qed.
Lemma set_cond_fields m c : m_assigns (set_cond m c) = m_assigns m /\ m_name (set_cond m c) = m_name m.
Proof. destruct m; auto. Qed.
Lemma set_expect_fields m c : m_assigns (set_expect m c) = m_assigns m /\ m_name (set_expect m c) = m_name m.
Proof. destruct m; auto. Qed.

Lemma set_obs_fields m o : m_assigns (set_obs m o) = m_assigns m /\ m_name (set_obs m o) = m_name m.
Proof. destruct m; auto. Qed.
Lemma set_ylabel_fields m o : m_assigns (set_ylabel m o) = m_assigns m /\ m_name (set_ylabel m o) = m_name m.
Proof. destruct m; auto. Qed.
Lemma set_noplot_fields m o : m_assigns (set_noplot m o) = m_assigns m /\ m_name (set_noplot m o) = m_name m.
Proof. destruct m; auto. Qed.

Lemma asg_rel aud n m' :
  m_name m' = n -> m_assigns m' = m_assigns (get_member aud n) ->
  map as_var (m_assigns m') = map as_var (m_assigns (get_member aud (m_name m'))).
Proof. intros Hn Ha. rewrite Hn, Ha. reflexivity. Qed.

(** ** the clauses *)
Lemma aud_with_vars s n v : var_defined (aud_with s n) v = var_defined (c_aud s) v.
Proof.
  unfold var_defined, defined_in. f_equal. unfold aud_with.
  pose proof (vars_of_put (c_aud s) (get_member (c_aud s) n) []) as P.
  rewrite get_member_name in P. rewrite app_nil_r in P. specialize (P eq_refl). rewrite app_nil_r in P.
  destruct (mem_bytes v (vars_of (put_member (c_aud s) (get_member (c_aud s) n)))) eqn:E1;
    destruct (mem_bytes v (vars_of (c_aud s))) eqn:E2; auto.
  - apply mem_bytes_In in E1. apply mem_bytes_false in E2. exfalso. apply E2. eapply Permutation_in; eauto.
  - apply mem_bytes_In in E2. apply mem_bytes_false in E1. exfalso. apply E1. eapply Permutation_in; [apply Permutation_sym|]; eauto.
Qed.

Lemma inv_assign s mn v mode k e s' :
  wf_state orc s = true -> ident_ok mn = true -> ident_ok v = true ->
  match mode with ASingle => k =? 0 | _ => 1 <=? k end = true ->
  apply_assign orc s mn v mode k e = Ok s' -> wf_state orc s' = true.
Proof.
  intros Hwf Hid Hv Hmode H. unfold apply_assign in H.
  pose proof (core_get' s mn Hwf Hid) as C0.
  destruct (ensure_cond orc s (aud_with s mn) (get_member (c_aud s) mn)) as [m1| | |] eqn:E1; try discriminate. cbn [obind] in H.
  destruct (ensure_cond_fwd s _ _ m1 C0 E1) as (C1 & Hcond & N1 & A1 & X1).
  destruct (check_expr orc s (aud_with s mn) m1 e) as [[m2 ex]| | |] eqn:E2; try discriminate. cbn [obind fst snd] in H.
  destruct (core_after_check orc s _ m1 e m2 ex C1 E2) as (C2 & He & Hcov & N2 & Cd2 & A2 & X2 & _).
  unfold check in H. destruct (negb (var_defined (aud_with s mn) v)) eqn:Ef; [|discriminate]. inversion H; subst; clear H.
  apply negb_true_iff in Ef. rewrite aud_with_vars in Ef.
  set (a := mkAssign v ex mode k).
  assert (C3 : core_facts s (set_assigns m2 (m_assigns m2 ++ [a]))).
  { apply core_set_assign; auto.
    - destruct Hcond as [c Hc]. exists c. congruence.
    - unfold assign_wf, a. cbn. rewrite Hv. exact Hmode. }
  apply (wf_put orc s _ [v]); auto.
  - apply member_wf_of; [exact C3|]. unfold member_ne. destruct Hcond as [c Hc].
    destruct m2; cbn in *. rewrite Cd2, Hc. reflexivity.
  - destruct (set_assigns_fields m2 (m_assigns m2 ++ [a])) as [F1 F2]. rewrite F1, F2, N2, N1, get_member_name.
    rewrite map_app, A2, A1. reflexivity.
  - destruct (wf_elim orc s Hwf) as (_ & _ & _ & _ & _ & _ & _ & _ & _ & _ & W11).
    rewrite app_assoc. apply nodup_b_snoc; [exact W11|].
    unfold var_defined, defined_in in Ef. rewrite mem_bytes_app. exact Ef.
Qed.

Lemma inv_set_cond s mn e s' :
  wf_state orc s = true -> ident_ok mn = true ->
  (let aud := aud_with s mn in
   let m := get_member (c_aud s) mn in
   check (match m_cond m with None => true | Some _ => false end) E_rule (
   obind (check_expr orc s aud m e) (fun me =>
   Ok (with_member s (set_cond (fst me) (Some (snd me))))))) = Ok s' ->
  wf_state orc s' = true.
Proof.
  intros Hwf Hid H. cbn zeta in H.
  pose proof (core_get' s mn Hwf Hid) as C0.
  unfold check in H. destruct (m_cond (get_member (c_aud s) mn)) eqn:Ec; [discriminate|].
  destruct (check_expr orc s (aud_with s mn) (get_member (c_aud s) mn) e) as [[m2 ex]| | |] eqn:E2; try discriminate.
  cbn [obind fst snd] in H. inversion H; subst; clear H.
  destruct (core_after_check orc s _ _ e m2 ex C0 E2) as (C2 & He & Hcov & N2 & Cd2 & A2 & X2 & _).
  apply (wf_put_same orc s).
  - exact Hwf.
  - apply member_wf_of; [apply core_set_cond; auto; congruence|]. destruct m2; reflexivity.
  - destruct (set_cond_fields m2 (Some ex)) as [F1 F2]. rewrite F1, F2, N2, get_member_name, A2. reflexivity.
Qed.

Lemma set_foul_wf s (bad : bool) f m : member_wf orc s (set_foul bad f m) = member_wf orc s m.
Proof. destruct bad, m; reflexivity. Qed.

Lemma dep_wf_signal s a r sg x :
  wf_state orc s = true ->
  find_actor (a_name a) (c_actors s) = Some a -> find_role (a_role a) (c_roles s) = Some r ->
  ident_ok sg = true -> find_sig sg (r_sigs r) = Some x ->
  dep_wf s (a_name a, sg) = true.
Proof.
  intros Hwf Ha Hr Hsg Hx.
  destruct (wf_elim orc s Hwf) as (_ & _ & _ & W4 & _).
  pose proof Ha as Ha'. apply find_some in Ha'. destruct Ha' as [Hin _].
  pose proof (forallb_In _ _ _ W4 Hin) as Hw. unfold actor_wf in Hw. apply andb_prop in Hw as [Hid _].
  unfold dep_wf, sigref_wf. cbn [fst snd].
  assert (is_nil (a_name a) = false) as -> by (destruct (a_name a); [discriminate Hid|reflexivity]).
  rewrite Hid, Hsg, Ha, Hr, Hx. reflexivity.
Qed.

Lemma watch_fold s r sg found : forall m m',
  wf_state orc s = true -> ident_ok sg = true ->
  (forall a, In a found -> find_actor (a_name a) (c_actors s) = Some a /\ find_role (a_role a) (c_roles s) = Some r) ->
  core_facts s m ->
  fold_left (fun acc a => obind acc (fun m => add_signal_source r m (a_name a, sg))) found (Ok m) = Ok m' ->
  core_facts s m' /\ m_name m' = m_name m /\ m_assigns m' = m_assigns m
  /\ (found <> [] \/ is_nil (m_obs m) = false -> is_nil (m_obs m') = false).
Proof.
  induction found as [|a found IH]; intros m m' Hwf Hsg Hsel C H; cbn [fold_left] in H.
  - inversion H; subst. split; [exact C|]. split; [reflexivity|]. split; [reflexivity|]. intros [Hne|Hne]; [exfalso; apply Hne; reflexivity|exact Hne].
  - cbn [obind] in H. unfold add_signal_source at 2 in H. cbn [snd] in H.
    destruct (find_sig sg (r_sigs r)) as [x|] eqn:Ex.
    2:{ exfalso. clear - H. induction found; cbn in H; [discriminate|auto]. }
    destruct (Hsel a (or_introl eq_refl)) as [Ha Hr].
    pose proof (dep_wf_signal s a r sg x Hwf Ha Hr Hsg Ex) as Hd.
    pose proof (core_add_obs s m (a_name a, sg) C Hd) as C1.
    destruct (IH _ m' Hwf Hsg (fun b Hb => Hsel b (or_intror Hb)) C1 H) as (C2 & N2 & A2 & O2).
    split; [exact C2|]. split; [rewrite N2; destruct m; reflexivity|]. split; [rewrite A2; destruct m; reflexivity|].
    intros _. apply O2. right. destruct m as [n0 c0 a0 e0 o0 y0 p0 fb fg]. cbn. unfold add_obs.
    destruct (existsb (vname_eqb (a_name a, sg)) o0) eqn:Eo.
    + destruct o0; [discriminate Eo|reflexivity].
    + destruct o0; reflexivity.
Qed.

Theorem apply_wf s c s' : wf_state orc s = true -> apply orc s c = Ok s' -> wf_state orc s' = true.
Proof.
  intros Hwf H. destruct c.
  - eapply inv_title; eauto.
  - eapply inv_author; eauto.
  - eapply inv_attention; eauto.
  - eapply inv_param; eauto.
  - eapply inv_role; eauto.
  - eapply inv_cast; eauto.
  - eapply inv_tempo; eauto.
  - cbn [apply] in H. eapply inv_entails; eauto.
  - cbn [apply] in H. eapply inv_mood; eauto.
  - cbn [apply] in H. eapply inv_mood; eauto.
  - eapply inv_storyline; eauto.
  - eapply inv_edit; eauto.
  - eapply inv_repeatfrom; eauto.
  - eapply inv_count; eauto.
  - eapply inv_always; eauto.
  - eapply inv_time; eauto.
  - (* watches *)
    cbn [apply] in H. unfold check in H.
    destruct (ident_ok m) eqn:Hid; [|discriminate]. destruct (ident_ok sig) eqn:Hsg; [|discriminate].
    destruct (select_actors s tg) as [[r found]| | |] eqn:Es; try discriminate. cbn [obind] in H.
    destruct found as [|a0 found]; [inversion H; subst; exact Hwf|].
    match type of H with obind ?o _ = _ => destruct o as [m1| | |] eqn:Ef; try discriminate end.
    cbn [obind] in H. inversion H; subst; clear H.
    destruct (watch_fold s r sig (a0 :: found) _ m1 Hwf Hsg (select_actors_spec orc s tg r _ Hwf Es) (core_get' s m Hwf Hid) Ef)
      as (C1 & N1 & A1 & O1).
    apply (wf_put_same orc s); auto.
    + apply member_wf_of; [exact C1|]. unfold member_ne. assert (Hne : a0 :: found <> []) by discriminate. rewrite (O1 (or_introl Hne)). cbn [negb]. rewrite orb_true_r. reflexivity.
    + rewrite N1, get_member_name, A1. reflexivity.
  - (* watches var *)
    cbn [apply] in H. unfold check in H.
    destruct (ident_ok m) eqn:Hid; [|discriminate]. destruct (ident_ok v) eqn:Hv; [|discriminate].
    destruct (var_defined (c_aud s) v); [|discriminate]. inversion H; subst; clear H.
    pose proof (core_get' s m Hwf Hid) as C0.
    assert (Hd : dep_wf s ([], v) = true) by (unfold dep_wf; cbn; exact Hv).
    apply (wf_put_same orc s); auto.
    + apply member_wf_of; [apply core_add_obs; auto|].
      unfold member_ne. destruct (get_member (c_aud s) m) as [n0 c0 a0 e0 o0 y0 p0 fb fg]. cbn.
      assert (is_nil (add_obs o0 ([], v)) = false) as ->; [|cbn; rewrite orb_true_r; reflexivity].
      unfold add_obs. destruct (existsb (vname_eqb ([], v)) o0) eqn:Eo; destruct o0; try reflexivity. discriminate Eo.
    + destruct (set_obs_fields (get_member (c_aud s) m) (add_obs (m_obs (get_member (c_aud s) m)) ([], v))) as [F1 F2].
      apply (asg_rel _ m); [rewrite F2; apply get_member_name|exact F1].
  - (* measures *)
    cbn [apply] in H. unfold check in H.
    destruct (ident_ok m) eqn:Hid; [|discriminate]. destruct (negb (is_nil l)) eqn:Hl; [|discriminate].
    inversion H; subst; clear H.
    pose proof (core_get' s m Hwf Hid) as C0. pose proof (get_member_name (c_aud s) m) as Hn.
    apply (wf_put_same orc s); auto.
    + apply member_wf_of.
      * destruct C0. destruct (get_member (c_aud s) m). cbn in *. constructor; cbn; auto.
      * unfold member_ne. destruct (get_member (c_aud s) m). cbn. rewrite Hl. rewrite orb_true_r. reflexivity.
    + destruct (set_ylabel_fields (get_member (c_aud s) m) l) as [F1 F2].
      apply (asg_rel _ m); [rewrite F2; apply get_member_name|exact F1].
  - (* only helps *)
    cbn [apply] in H. unfold check in H.
    destruct (ident_ok m) eqn:Hid; [|discriminate]. inversion H; subst; clear H.
    pose proof (core_get' s m Hwf Hid) as C0. pose proof (get_member_name (c_aud s) m) as Hn.
    apply (wf_put_same orc s); auto.
    + apply member_wf_of.
      * destruct C0. destruct (get_member (c_aud s) m). cbn in *. constructor; cbn; auto.
      * unfold member_ne. destruct (get_member (c_aud s) m). cbn. rewrite orb_true_r. reflexivity.
    + destruct (set_noplot_fields (get_member (c_aud s) m) true) as [F1 F2].
      apply (asg_rel _ m); [rewrite F2; apply get_member_name|exact F1].
  - (* audits *)
    cbn [apply] in H. unfold check at 1 in H. destruct (ident_ok m) eqn:Hid; [|discriminate].
    eapply inv_set_cond; eauto.
  - cbn [apply] in H. unfold check at 1 in H. destruct (ident_ok m) eqn:Hid; [|discriminate].
    eapply inv_set_cond; eauto.
  - (* expects *)
    cbn [apply] in H. unfold check at 1 in H. destruct (ident_ok m) eqn:Hid; [|discriminate].
    cbn zeta in H.
    pose proof (core_get' s m Hwf Hid) as C0.
    destruct (ensure_cond orc s (aud_with s m) (get_member (c_aud s) m)) as [m1| | |] eqn:E1; try discriminate. cbn [obind] in H.
    destruct (ensure_cond_fwd s _ _ m1 C0 E1) as (C1 & Hcond & N1 & A1 & X1).
    unfold check in H. destruct (m_expect m1) eqn:Ex; [discriminate|].
    destruct (mem_bytes modality modalities) eqn:Hmod; [|discriminate].
    destruct (check_expr orc s (aud_with s m) m1 e) as [[m2 ex]| | |] eqn:E2; try discriminate. cbn [obind fst snd] in H.
    inversion H; subst; clear H.
    destruct (core_after_check orc s _ m1 e m2 ex C1 E2) as (C2 & He & Hcov & N2 & Cd2 & A2 & X2 & _).
    apply (wf_put_same orc s); auto.
    + apply member_wf_of.
      * apply core_set_expect; auto; try congruence. destruct Hcond as [c Hc]. exists c. congruence.
      * unfold member_ne. destruct Hcond as [c Hc]. destruct m2; cbn in *. rewrite Cd2, Hc. reflexivity.
    + destruct (set_expect_fields m2 (Some (modality, ex))) as [F1 F2]. rewrite F1, F2, N2, N1, get_member_name, A2, A1. reflexivity.
  - (* expects like *)
    cbn [apply] in H. unfold check at 1 in H. destruct (ident_ok m) eqn:Hid; [|discriminate].
    unfold check at 1 in H. destruct (ident_ok tgt) eqn:Hidt; [|discriminate].
    destruct (find_member tgt (c_aud s)) as [tg|] eqn:Etg; [|discriminate]. cbn [of_opt obind] in H.
    destruct (m_expect tg) as [ex|] eqn:Eex; [|discriminate]. cbn [of_opt obind] in H.
    cbn zeta in H.
    pose proof (core_get' s m Hwf Hid) as C0.
    unfold check in H. destruct (m_expect (get_member (c_aud s) m)) eqn:Ex0; [discriminate|].
    (* the modality of the target is a known one *)
    assert (Hmod : mem_bytes (fst ex) modalities = true).
    { destruct (wf_elim orc s Hwf) as (_ & _ & _ & _ & _ & _ & _ & _ & W9 & _).
      apply find_some in Etg. destruct Etg as [Hin _]. pose proof (forallb_In _ _ _ W9 Hin) as Ht.
      rewrite member_wf_split in Ht. apply andb_prop in Ht as [Ht _]. apply core_iff in Ht.
      destruct Ht as [_ _ _ T4 _ _ _ _]. rewrite Eex in T4. exact T4. }
    match type of H with obind ?o _ = _ => destruct o as [m1| | |] eqn:E1; try discriminate end. cbn [obind] in H.
    assert (F1 : core_facts s m1 /\ (exists c, m_cond m1 = Some c) /\ m_name m1 = m /\ m_assigns m1 = m_assigns (get_member (c_aud s) m)
                 /\ m_expect m1 = None).
    { destruct (m_cond (get_member (c_aud s) m)) as [c0|] eqn:Ec0.
      - inversion E1; subst. split; [exact C0|]. split; [exists c0; exact Ec0|]. split; [apply get_member_name|]. split; [reflexivity|exact Ex0].
      - destruct (m_cond tg) as [tc|]; [|discriminate].
        destruct (check_expr orc s (aud_with s m) (get_member (c_aud s) m) (x_src tc)) as [[m2 e2]| | |] eqn:E2; try discriminate.
        cbn [obind fst snd] in E1. inversion E1; subst; clear E1.
        destruct (core_after_check orc s _ _ _ m2 e2 C0 E2) as (C2 & He & Hcov & N2 & Cd2 & A2 & X2 & _).
        split; [apply core_set_cond; auto; congruence|].
        destruct (set_cond_fields m2 (Some e2)) as [G1 G2].
        split; [exists e2; destruct m2; reflexivity|]. split; [rewrite G2, N2; apply get_member_name|].
        split; [rewrite G1; exact A2|]. destruct m2; cbn in *. congruence. }
    destruct F1 as (C1 & Hcond & N1 & A1 & X1).
    destruct (check_expr orc s (aud_with s m) m1 (x_src (snd ex))) as [[m3 e3]| | |] eqn:E3; try discriminate.
    cbn [obind fst snd] in H. injection H as <-.
    destruct (core_after_check orc s _ m1 _ m3 e3 C1 E3) as (C3 & He & Hcov & N3 & Cd3 & A3 & X3 & _).
    apply (wf_put_same orc s); auto.
    + apply member_wf_of.
      * apply core_set_expect; auto; try congruence. destruct Hcond as [c Hc]. exists c. congruence.
      * unfold member_ne. destruct Hcond as [c Hc]. destruct m3; cbn in *. rewrite Cd3, Hc. reflexivity.
    + destruct (set_expect_fields m3 (Some (fst ex, e3))) as [F1 F2]. rewrite F1, F2, N3, N1, A3, A1. reflexivity.
  - (* collects *)
    cbn [apply] in H. unfold check at 1 in H. destruct (ident_ok m) eqn:Hid; [|discriminate].
    unfold check at 1 in H. destruct (ident_ok v) eqn:Hv; [|discriminate].
    destruct (decode_mode mode) as [md|] eqn:Emd; [|discriminate]. cbn [of_opt obind] in H.
    destruct (atoi_digits n) as [k|] eqn:Ek; [|discriminate]. cbn [of_opt obind] in H.
    unfold check in H. destruct (1 <=? Z.of_N k) eqn:Ek1; [|discriminate].
    eapply (inv_assign s m v md (Z.of_N k) e); eauto.
    destruct md; auto. unfold decode_mode in Emd.
    repeat match type of Emd with (if ?b then _ else _) = _ => destruct b; try discriminate end.
  - (* computes *)
    cbn [apply] in H. unfold check at 1 in H. destruct (ident_ok m) eqn:Hid; [|discriminate].
    unfold check at 1 in H. destruct (ident_ok v) eqn:Hv; [|discriminate].
    eapply (inv_assign s m v ASingle 0 e); eauto.
  - (* ignore <result> *)
    cbn [apply] in H. destruct (decode_result res) as [bad|]; [|discriminate]. cbn [of_opt obind] in H.
    inversion H; subst; clear H.
    destruct (wf_elim orc s Hwf) as (W1 & W2 & W3 & W4 & W5 & W6 & W7 & W8 & W9 & W10 & W11).
    assert (G : grows s (set_aud s (map (set_foul bad FIgnore) (c_aud s)))) by (apply grows_refl_on; destruct s; reflexivity).
    apply (wf_rebuild orc s _ Hwf G); try (destruct s; cbn in *; assumption); try (destruct s; cbn in *; auto; fail).
    + destruct s; cbn in *. intros m Hin. apply in_map_iff in Hin. destruct Hin as (m0 & <- & Hin). right.
      rewrite set_foul_wf. apply (forallb_In _ _ _ W9 Hin).
    + destruct s; cbn in *. rewrite map_map. replace (map (fun x => m_name (set_foul bad FIgnore x)) c_aud) with (map m_name c_aud); [exact W10|].
      apply map_ext. intros a. destruct bad, a; reflexivity.
    + change (c_aud (set_aud s (map (set_foul bad FIgnore) (c_aud s)))) with (map (set_foul bad FIgnore) (c_aud s)).
      replace (vars_of (map (set_foul bad FIgnore) (c_aud s))) with (vars_of (c_aud s)); [exact W11|].
      unfold vars_of. clear. induction (c_aud s) as [|x l IH]; cbn; [reflexivity|]. rewrite IH. destruct bad, x; reflexivity.
  - (* interpretation of one member *)
    cbn [apply] in H.
    match type of H with obind (of_opt ?o _) _ = _ => destruct o as [f|]; [|discriminate] end. cbn [of_opt obind] in H.
    unfold check in H. destruct (ident_ok tgt) eqn:Hid; [|discriminate].
    destruct (decode_result res) as [bad|]; [|discriminate]. cbn [of_opt obind] in H.
    destruct (find_member tgt (c_aud s)) as [m0|] eqn:Em; [|discriminate]. cbn [of_opt obind] in H.
    inversion H; subst; clear H.
    destruct (wf_elim orc s Hwf) as (_ & _ & _ & _ & _ & _ & _ & _ & W9 & _).
    pose proof Em as Em'. apply find_some in Em'. destruct Em' as [Hin Hn]. apply bytes_eqb_eq in Hn.
    apply (wf_put_same orc s); auto.
    + rewrite set_foul_wf. apply (forallb_In _ _ _ W9 Hin).
    + assert (Hnm : m_name (set_foul bad f m0) = tgt) by (destruct bad, m0; cbn in *; auto).
      rewrite Hnm. unfold get_member. rewrite Em. destruct bad, m0; reflexivity.
Qed.

Theorem run_wf cl : forall s s', wf_state orc s = true -> run orc cl s = Ok s' -> wf_state orc s' = true.
Proof.
  induction cl as [|c cl IH]; intros s s' Hwf H; cbn [run] in H.
  - inversion H; subst. exact Hwf.
  - destruct (apply orc s c) as [s1| | |] eqn:E; try discriminate. cbn [obind] in H.
    apply (IH s1 s'); [eapply apply_wf; eauto|exact H].
Qed.

End Inv5.
