(** wf_state is an invariant: role and cast clauses (C10). *)
From Coq Require Import String Permutation.
From Shk Require Import Base.Prelude Model.Storyline Model.Config.
From Shk Require Import Proofs.ConfigText Proofs.ConfigRoles Proofs.ConfigCast Proofs.ConfigExpr Proofs.ConfigHyps Proofs.ConfigInvariant.
Open Scope Z_scope.

Section Inv2.
Variable orc : oracles.

(** ** role *)
Definition role_inv (st : role * list bytes) : Prop :=
  let r := fst st in
  forallb (fun a => ident_ok (fst a)) (r_actions r) = true
  /\ nodup_b (map fst (r_actions r)) = true
  /\ forallb (sig_wf orc) (r_sigs r) = true
  /\ nodup_b (map sg_name (r_sigs r)) = true
  /\ snd st = map sg_name (r_sigs r).

Lemma role_line_step_inv st l st' :
  role_inv st -> role_line_step orc st l = Ok st' -> role_inv st' /\ r_name (fst st') = r_name (fst st).
Proof.
  destruct st as [r own]. intros (I1 & I2 & I3 & I4 & I5) H. cbn [fst snd] in *. subst own.
  destruct l as [n cmd|cmd|cmd|n typ re]; cbn [role_line_step] in H.
  - inv_ok H. inversion H; subst; clear H. unfold role_inv. cbn [fst snd r_actions r_sigs r_name].
    rewrite forallb_app2, I1. cbn [forallb fst]. rewrite E. rewrite map_app. cbn [map fst].
    rewrite has_action_mem in E0. apply negb_true_iff in E0.
    rewrite (nodup_b_snoc _ _ I2 E0). repeat split; auto.
  - inversion H; subst; clear H. unfold role_inv. cbn. repeat split; auto.
  - inversion H; subst; clear H. unfold role_inv. cbn. repeat split; auto.
  - inv_ok H. inversion H; subst; clear H. unfold role_inv. cbn [fst snd r_actions r_sigs r_name].
    rewrite forallb_app2, I3. cbn [forallb]. unfold sig_wf at 1. cbn [sg_name sg_re sg_typ]. rewrite E, E0, E3, E4.
    rewrite map_app. cbn [map sg_name]. apply negb_true_iff in E1. rewrite (nodup_b_snoc _ _ I4 E1). repeat split; auto.
Qed.

Lemma role_lines_inv ls : forall st st',
  role_inv st -> role_lines orc st ls = Ok st' -> role_inv st' /\ r_name (fst st') = r_name (fst st).
Proof.
  induction ls as [|l ls IH]; intros st st' I H; cbn [role_lines] in H.
  - inversion H; subst. auto.
  - destruct (role_line_step orc st l) as [st1| | |] eqn:E; try discriminate. cbn [obind] in H.
    destruct (role_line_step_inv st l st1 I E) as [I1 N1].
    destruct (IH st1 st' I1 H) as [I2 N2]. split; [exact I2|congruence].
Qed.

Lemma inv_role s n ext ls s' : wf_state orc s = true -> apply orc s (CRole n ext ls) = Ok s' -> wf_state orc s' = true.
Proof.
  intros Hwf H. cbn [apply] in H. unfold apply_role in H.
  destruct (wf_elim orc s Hwf) as (W1 & W2 & W3 & W4 & W5 & W6 & W7 & W8 & W9 & W10 & W11).
  inv_ok H. inversion H; subst; clear H.
  rename a into name', a0 into ext', a1 into r0, a2 into st.
  rename E5 into Espot, E4 into Elines, E3 into Er0, E2 into Edup.
  assert (I0 : role_inv (r0, map sg_name (r_sigs r0)) /\ r_name r0 = name').
  { destruct ext' as [|e0 ext'].
    - cbn in Er0. inversion Er0; subst. unfold role_inv. cbn. repeat split; auto.
    - destruct (find_role (e0 :: ext') (c_roles s)) as [p|] eqn:Ep; [|discriminate]. inversion Er0; subst. clear Er0.
      apply find_some in Ep. destruct Ep as [Hin _].
      pose proof (forallb_In _ _ _ W2 Hin) as Hp. unfold role_wf in Hp.
      apply andb_prop in Hp as [Hp _]. apply andb_prop in Hp as [Hp P5]. apply andb_prop in Hp as [Hp P4].
      apply andb_prop in Hp as [Hp P3]. apply andb_prop in Hp as [_ P2].
      unfold role_inv. cbn. repeat split; auto. }
  destruct I0 as [I0 N0].
  destruct (role_lines_inv ls _ _ I0 Elines) as [(J1 & J2 & J3 & J4 & _) N1]. cbn [fst] in N1.
  assert (Hrw : role_wf orc (fst st) = true).
  { unfold role_wf. rewrite N1, N0, E0, J1, J2, J3, J4, Espot. reflexivity. }
  rewrite (existsb_key r_name) in Edup. apply negb_true_iff in Edup.
  apply (wf_rebuild orc s _ Hwf); destruct s; cbn in *; auto.
  - split; cbn; auto. intros m r Hf. apply find_app_some. exact Hf.
  - rewrite forallb_app2, W2. cbn. rewrite Hrw. reflexivity.
  - rewrite map_app. cbn. apply nodup_b_snoc; [exact W3|]. rewrite N1, N0. exact Edup.
Qed.

(** ** cast *)
Lemma ident_ok_app_digits b tl : ident_ok b = true -> Forall digit_byte tl -> ident_ok (b ++ tl) = true.
Proof.
  destruct b as [|c b]; [discriminate|]. cbn. intros H Hd. apply andb_prop in H as [H1 H2]. rewrite H1. cbn.
  rewrite forallb_app2, H2. cbn. apply forallb_forall_In. intros x Hx.
  rewrite Forall_forall in Hd. specialize (Hd x Hx). unfold ident_rest. unfold digit_byte in Hd. rewrite Hd. apply orb_true_r.
Qed.

Definition actors_inv (ro : list role) (l : list actor) : Prop :=
  nodup_b (map a_name l) = true
  /\ forall a, In a l -> ident_ok (a_name a) = true /\ mem_bytes (a_role a) (map r_name ro) = true.

Lemma add_actor_inv ro l a l' :
  actors_inv ro l -> ident_ok (a_name a) = true -> mem_bytes (a_role a) (map r_name ro) = true ->
  add_actor l a = Ok l' -> actors_inv ro l' /\ l' = l ++ [a].
Proof.
  intros [I1 I2] Hid Hr H. unfold add_actor in H. inv_ok H. inversion H; subst; clear H.
  rewrite (existsb_key a_name) in E. apply negb_true_iff in E.
  split; [|reflexivity]. split.
  - rewrite map_app. cbn. apply nodup_b_snoc; assumption.
  - intros x Hx. apply in_app_or in Hx. destruct Hx as [Hx|[<-|[]]]; auto.
Qed.

Lemma add_many_inv ro base rn env k : forall l i l',
  actors_inv ro l -> ident_ok base = true -> mem_bytes rn (map r_name ro) = true ->
  add_many l base rn env i k = Ok l' -> actors_inv ro l' /\ exists ext, l' = l ++ ext.
Proof.
  induction k as [|k IH]; intros l i l' I Hb Hr H; cbn [add_many] in H.
  - inversion H; subst. split; [exact I|]. exists []. rewrite app_nil_r. reflexivity.
  - inv_ok H.
    assert (Hid' : ident_ok (base ++ itoa (N.succ i)) = true) by (apply ident_ok_app_digits; [exact Hb|apply itoa_digits]).
    destruct (add_actor_inv ro l (mkActor (base ++ itoa (N.succ i)) rn (bs "i=" ++ itoa i ++ match env with [] => [] | _ :: _ => bs "; " ++ env end)) _ I Hid' Hr E) as [I1 E1].
    destruct (IH _ _ _ I1 Hb Hr H) as [I2 [ext E2]]. split; [exact I2|].
    exists ([mkActor (base ++ itoa (N.succ i)) rn (bs "i=" ++ itoa i ++ match env with [] => [] | _ :: _ => bs "; " ++ env end)] ++ ext).
    rewrite E2, E1. rewrite <- app_assoc. reflexivity.
Qed.

Lemma find_role_mem n ro r : find_role n ro = Some r -> mem_bytes (r_name r) (map r_name ro) = true.
Proof.
  intros H. apply find_some in H. destruct H as [Hin _]. apply mem_bytes_In. apply in_map. exact Hin.
Qed.

Lemma actors_inv_of s : wf_state orc s = true -> actors_inv (c_roles s) (c_actors s).
Proof.
  intros Hwf. destruct (wf_elim orc s Hwf) as (_ & _ & _ & W4 & W5 & _).
  split; [exact W5|]. intros a Ha. pose proof (forallb_In _ _ _ W4 Ha) as H. unfold actor_wf in H.
  apply andb_prop in H as [H1 H2]. rewrite (existsb_key r_name) in H2. auto.
Qed.

Lemma wf_new_actors s l' ext :
  wf_state orc s = true -> actors_inv (c_roles s) l' -> l' = c_actors s ++ ext ->
  wf_state orc (set_actors s l') = true.
Proof.
  intros Hwf [I1 I2] E.
  destruct (wf_elim orc s Hwf) as (W1 & W2 & W3 & W4 & W5 & W6 & W7 & W8 & W9 & W10 & W11).
  apply (wf_rebuild orc s _ Hwf); destruct s; cbn in *; auto.
  - split; cbn; auto. intros m a Hf. subst l'. apply find_app_some. exact Hf.
  - intros a Ha. right. destruct (I2 a Ha) as [H1 H2]. unfold actor_wf. cbn. rewrite H1, (existsb_key r_name), H2. reflexivity.
Qed.

Lemma role_lookup_mem s rn' (mul' : bytes) r :
  match find_role rn' (c_roles s) with
  | Some r => Ok r
  | None => if is_nil mul' then Err E_undef else of_opt (find_role (trim_suffix_s rn') (c_roles s)) E_undef
  end = Ok r -> mem_bytes (r_name r) (map r_name (c_roles s)) = true.
Proof.
  destruct (find_role rn' (c_roles s)) as [r1|] eqn:Er.
  - intros H. inversion H; subst. eapply find_role_mem; eauto.
  - destruct (is_nil mul'); [discriminate|].
    destruct (find_role (trim_suffix_s rn') (c_roles s)) as [r1|] eqn:Er2; [|discriminate].
    intros H. inversion H; subst. eapply find_role_mem; eauto.
Qed.

Lemma inv_cast s an star mul rn env s' :
  wf_state orc s = true -> apply orc s (CCast an star mul rn env) = Ok s' -> wf_state orc s' = true.
Proof.
  intros Hwf H. cbn [apply] in H. unfold apply_cast in H.
  destruct (preproc (c_pvars s) rn) as [rn'| | |] eqn:E1; try discriminate. cbn [obind] in H.
  unfold check in H. destruct (ident_ok rn') eqn:E2; [|discriminate]. destruct (ident_ok an) eqn:E3; [|discriminate].
  destruct (match mul with Some m => preproc (c_pvars s) m | None => Ok [] end) as [mul'| | |] eqn:E4; try discriminate.
  cbn [obind] in H.
  match type of H with obind ?o _ = _ => destruct o as [r| | |] eqn:E5; try discriminate end. cbn [obind] in H.
  apply role_lookup_mem in E5.
  destruct (preproc (c_pvars s) env) as [env'| | |] eqn:E6; try discriminate. cbn [obind] in H.
  pose proof (actors_inv_of s Hwf) as I.
  destruct (is_nil mul') eqn:Em.
  - destruct (negb star); [|discriminate].
    destruct (add_actor (c_actors s) (mkActor an (r_name r) env')) as [l| | |] eqn:E7; try discriminate.
    cbn [obind] in H. inversion H; subst; clear H.
    destruct (add_actor_inv (c_roles s) _ (mkActor an (r_name r) env') _ I E3 E5 E7) as [I1 E8].
    apply (wf_new_actors s _ [mkActor an (r_name r) env']); auto.
  - destruct star; [|discriminate].
    destruct (parse_int mul') as [k|] eqn:E7; [|discriminate]. cbn [of_opt obind] in H.
    destruct (add_many (c_actors s) an (r_name r) env' 0 (Z.to_nat k)) as [l| | |] eqn:E8; try discriminate.
    cbn [obind] in H. inversion H; subst; clear H.
    destruct (add_many_inv (c_roles s) an (r_name r) env' _ _ _ _ I E3 E5 E8) as [I1 [ext E9]].
    apply (wf_new_actors s _ ext); auto.
Qed.

End Inv2.
